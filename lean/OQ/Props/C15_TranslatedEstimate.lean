/- C15 — PROPERTY THEOREMS (translation tie, work package T11): the remaining functions of `estimation/_estimation.py` –
   `evaluate_estimation_circuits`, `evaluate_non_measured_estimation_tasks`, `estimate_expectation_values_by_averaging`,
   `calculate_exact_expectation_values` (`split_estimation_tasks_to_measure` is tied in `C15_Translated.lean`).

   `OQ.Generated.Translated.<f>` is REGENERATED from /repo's current Python source on every run (harness/translate_t11.py →
   OQ/Generated/TranslatedC15.lean).  Tasks, operators, terms, coefficients, circuits, symbol maps, the runner, measurements and
   `ExpectationValues` are OPAQUE objects; what the functions do with them is an explicit parameter of the translated definition:
     `attr_operator`, `attr_circuit`, `attr_number_of_shots`, `attr_is_constant`, `attr_terms`, `attr_coefficient`;
     `meth_bind` (`circuit.bind(map)`), `ext_EstimationTask` (the constructor), `ext_add` / `ext_ofInt` / `const_0_0` (the `+`, the int
     `0` and the float `0.0` of `sum(...)` / `coefficient = 0.0`), `ext_asarray_*` (`np.asarray`), `ext_ExpectationValues`,
     `ext_expectation_values_to_real`; and the RAISING externals (result `Option`, `none` = the call raises)
     `meth_run_batch_and_measure`, `meth_get_expectation_values`, `meth_get_exact_expectation_values`.
   `none` = the Python function raises (its own `raise`, or an exception of a raising external, in Python's evaluation order).
   In the ties the externals are instantiated by the model's own operations on `Task C` / `Op` / `GQ` (an `ExpectationValues` object is
   read as its `values`, as everywhere in `OQ.C15`; correlations / covariances are arbitrary), the runner and the wavefunction
   simulator stay ARBITRARY (`rb`, `wf`), so every tie is a statement for all task lists and all runners.
   Trusted as in `translate.py`: `xs[i] = v` is rendered as `List.set` (index domain `0 ≤ i < len(xs)`, which
   `split_indices_remembered` establishes for the indices written here). -/
import OQ.Generated.TranslatedC15
import OQ.Lemmas.C15_TranslatedEstimate
import OQ.Props.C15_Translated
import OQ.Props.C15
namespace OQ.C15
open OQ.Generated

/-- the Python int `n` as a coefficient (`sum` starts from the int `0`) -/
def gqOfInt (n : Int) : GQ := GQ.ofRat (n : Rat)

/-- TRANSLATION TIE (`_estimation.py:evaluate_estimation_circuits`): the function regenerated from the current Python source (a
    single map is repeated `len(tasks)` times; a length mismatch raises ValueError; `[EstimationTask(operator=t.operator,
    circuit=t.circuit.bind(m), number_of_shots=t.number_of_shots) for t, m in zip(tasks, maps)]`) is the model's `evaluateCircuits`
    (`none` = raises), for EVERY task list, EVERY list of maps and every (total) `bind`. -/
theorem translated_evaluate_estimation_circuits_eq {C M : Type} (bind : C → M → C) (tasks : List (Task C)) (maps : List M) :
    Translated.evaluate_estimation_circuits (fun t : Task C => t.op) (fun t => t.circuit) (fun t => t.shots) bind
        (fun o c s => (⟨o, c, s⟩ : Task C)) tasks maps
      = (evaluateCircuits bind tasks maps).toOption := by
  unfold Translated.evaluate_estimation_circuits evaluateCircuits broadcastMaps
  match maps with
  | [] =>
    have h1 : (((([] : List M).length : Nat) : Int) == (1 : Int)) = false := rfl
    simp only [h1, Bool.false_eq_true, if_false]
    exact len_guard _ _ _ _
  | [m] =>
    have h1 : (((([m] : List M).length : Nat) : Int) == (1 : Int)) = true := rfl
    simp only [h1, if_true, Int.toNat_natCast, replicate_singleton_flatten]
    exact len_guard _ _ _ _
  | m :: m' :: r =>
    have h1 : ((((m :: m' :: r).length : Nat) : Int) == (1 : Int)) = false := by
      simp only [List.length_cons, beq_eq_false_iff_ne, ne_eq]; omega
    simp only [h1, Bool.false_eq_true, if_false]
    exact len_guard _ _ _ _

theorem coeffSum_translated (o : Op) :
    (o.map Term.coeff).foldl (fun a b => a + b) (gqOfInt 0) = o.coeffSum := by
  unfold Op.coeffSum
  rw [List.foldl_map]
  rfl

/-- TRANSLATION TIE (`_estimation.py:evaluate_non_measured_estimation_tasks`): the loop regenerated from the current Python source
    (`sum(term.coefficient for term in task.operator.terms)` for a constant operator; otherwise RuntimeError when
    `number_of_shots is not None and number_of_shots > 0`, else `0.0`; one `ExpectationValues` appended per task) is the model's
    `mapE evalNonMeasured` (`none` = raises; the first raising task aborts), for EVERY task list. -/
theorem translated_evaluate_non_measured_eq {C μ : Type} (mat : List (List GQ) → μ) (tasks : List (Task C)) :
    Translated.evaluate_non_measured_estimation_tasks (fun t : Task C => t.op) (fun t => t.shots) Op.isConstant (fun o : Op => o)
        Term.coeff (fun a b => a + b) gqOfInt (0 : GQ) (fun v : List GQ => v) mat (fun (v : Vals) _ _ => v) tasks
      = (mapE evalNonMeasured tasks).toOption := by
  unfold Translated.evaluate_non_measured_estimation_tasks
  dsimp only
  rw [foldlOpt_append (fun t : Task C => (evalNonMeasured t).toOption)]
  · rw [mapOpt_toOption]
    cases mapE evalNonMeasured tasks <;> simp [Except.toOption]
  · intro acc t
    obtain ⟨op, c, shots⟩ := t
    unfold evalNonMeasured
    cases hc : op.isConstant with
    | true => simp [coeffSum_translated, Except.toOption]
    | false =>
      cases shots with
      | none => simp [Except.toOption]
      | some n =>
        by_cases hn : n > 0 <;> simp [hn, Except.toOption]

theorem measured_toOption (op : Op) (shots : Shots) :
    ((getExpectationValues op shots).toOption.bind fun r => some (toReal r)) = (measuredValue op shots).toOption := by
  unfold measuredValue
  cases getExpectationValues op shots <;> rfl

/-- TRANSLATION TIE (`_estimation.py:estimate_expectation_values_by_averaging`): the function regenerated from the current Python
    source – split (the translated `split_estimation_tasks_to_measure`), non-measured values (the translated
    `evaluate_non_measured_estimation_tasks`), `zip(*[(e.circuit, e.operator, e.number_of_shots) …])`, ONE call
    `runner.run_batch_and_measure(circuits, shots)`, `expectation_values_to_real(m.get_expectation_values(op))` per (operator,
    measurements) pair, `[None …]` of length `len(not measured) + len(measured)`, and the two write-back loops `full[i] = v` – is the
    model's `estimateByAveraging` (`none` = raises), for EVERY task list and EVERY runner `rb` (which may raise).
    `get_expectation_values` / `expectation_values_to_real` are instantiated by the model's `getExpectationValues` / `toReal`. -/
theorem translated_estimate_by_averaging_eq {C μ : Type} (mat : List (List GQ) → μ)
    (rb : List C → List (Option Int) → Except Err (List Shots)) (tasks : List (Task C)) :
    Translated.estimate_expectation_values_by_averaging (fun t : Task C => t.op.isConstant) (fun t : Task C => t.op) (fun t => t.shots)
        Op.isConstant (fun o : Op => o) Term.coeff (fun a b => a + b) gqOfInt (0 : GQ) (fun v : List GQ => v) mat
        (fun (v : Vals) _ _ => v) (fun t => t.circuit) (fun (_ : Unit) cs ns => (rb cs ns).toOption)
        (fun (shots : Shots) (op : Op) => (getExpectationValues op shots).toOption) toReal () tasks
      = (estimateByAveraging rb tasks).toOption := by
  unfold Translated.estimate_expectation_values_by_averaging estimateByAveraging
  dsimp only
  rw [translated_split_estimation_tasks_eq, translated_evaluate_non_measured_eq]
  generalize splitTasks tasks = s
  obtain ⟨tm, ntm, im, inm⟩ := s
  dsimp only
  cases mapE evalNonMeasured ntm with
  | error e => rfl
  | ok nv =>
    simp only [toOption_ok, Option.bind_some]
    cases tm with
    | nil =>
      simp only [List.isEmpty_nil, if_true, List.length_nil, Int.natCast_zero, Int.add_zero, Int.toNat_natCast, Nat.add_zero,
        map_const_range, writeBack_int, List.map_nil, List.zip_nil_left, List.foldl_nil, writeBack, toOption_ok]
    | cons t0 ts =>
      simp only [List.isEmpty_cons, Bool.false_eq_true, if_false, List.map_cons, List.map_map, Function.comp_def]
      cases rb (t0.circuit :: ts.map (fun t => t.circuit)) (t0.shots :: ts.map (fun t => t.shots)) with
      | error e => rfl
      | ok meas =>
        simp only [toOption_ok, Option.bind_some]
        rw [mapOpt_congr _ (fun p : Op × Shots => (measuredValue p.1 p.2).toOption) _ (fun p _ => measured_toOption p.1 p.2),
          mapOpt_toOption]
        cases mapE (fun p : Op × Shots => measuredValue p.1 p.2) ((t0.op :: ts.map (fun t => t.op)).zip meas) with
        | error e => rfl
        | ok mv =>
          simp only [toOption_ok, Option.bind_some, ← Int.natCast_add, Int.toNat_natCast, List.map_const', List.length_range,
            writeBack_int, writeBack]

section exact
variable {K : Type} [Zero K] [Add K] [Mul K] [Conj K]

/-- TRANSLATION TIE (`_estimation.py:calculate_exact_expectation_values`): the two comprehensions regenerated from the current
    Python source (`runner.get_exact_expectation_values(task.circuit, task.operator)` per task – the first exception aborts – then
    `ExpectationValues(np.asarray([val]))` per value) are the model's `exactValues` (`none` = raises), for EVERY task list and every
    simulator `wf`; the runner's method is instantiated by the model's `exactValue` (which reads circuit and operator only). -/
theorem translated_calculate_exact_eq {C : Type} (wf : C → Except Err (Nat × (Nat → K))) (opMat : Op → Nat → Nat → Nat → K)
    (re : K → K) (tasks : List (Task C)) :
    Translated.calculate_exact_expectation_values (fun t : Task C => t.circuit) (fun t => t.op)
        (fun (_ : Unit) c o => (exactValue wf opMat re (⟨o, c, none⟩ : Task C)).toOption) (fun v : List K => v) (fun v => v) () tasks
      = (exactValues wf opMat re tasks).toOption := by
  unfold Translated.calculate_exact_expectation_values exactValues
  dsimp only
  rw [mapOpt_bind_map, ← mapOpt_toOption]
  apply mapOpt_congr
  intro t _
  have ht : exactValue wf opMat re (⟨t.op, t.circuit, none⟩ : Task C) = exactValue wf opMat re t := rfl
  rw [ht]
  cases exactValue wf opMat re t <;> rfl
end exact

/-! ## end-to-end: the positional sentences of the property ON THE TRANSLATED CODE (through the tie) -/
section EndToEnd
variable {C μ : Type} (mat : List (List GQ) → μ) (rb : List C → List (Option Int) → Except Err (List Shots))

/-- the translated `estimate_expectation_values_by_averaging` at the model's instantiation of the externals -/
abbrev translatedEstimate (tasks : List (Task C)) : Option (List (Option Vals)) :=
  Translated.estimate_expectation_values_by_averaging (fun t : Task C => t.op.isConstant) (fun t : Task C => t.op) (fun t => t.shots)
    Op.isConstant (fun o : Op => o) Term.coeff (fun a b => a + b) gqOfInt (0 : GQ) (fun v : List GQ => v) mat
    (fun (v : Vals) _ _ => v) (fun t => t.circuit) (fun (_ : Unit) cs ns => (rb cs ns).toOption)
    (fun (shots : Shots) (op : Op) => (getExpectationValues op shots).toOption) toReal () tasks

theorem translatedEstimate_ok (tasks : List (Task C)) (r : List (Option Vals)) (h : translatedEstimate mat rb tasks = some r) :
    estimateByAveraging rb tasks = .ok r :=
  (toOption_ok_iff _ _).mp (by rw [← translated_estimate_by_averaging_eq mat rb tasks]; exact h)

/-- "exactly one result per task" (`result_length`) for the TRANSLATED code: whenever the translated function returns, the result
    list has the length of the task list – every task list, every runner -/
theorem translated_result_length (tasks : List (Task C)) (r : List (Option Vals)) (h : translatedEstimate mat rb tasks = some r) :
    r.length = tasks.length :=
  result_length rb tasks r (translatedEstimate_ok mat rb tasks r h)

/-- "one result per task AT THE TASK'S POSITION" (`result_at_index`) for the TRANSLATED code: entry `i` is a value (never `None`)
    computed from task `i` alone – by the non-measured rule if the task is not measured, otherwise from the operator of task `i` and
    the measurements the runner returned at task `i`'s rank in the submitted batch (runner law: one measurement set per circuit) -/
theorem translated_result_at_index (hlaw : ∀ cs ns meas, rb cs ns = .ok meas → meas.length = cs.length)
    (tasks : List (Task C)) (r : List (Option Vals)) (h : translatedEstimate mat rb tasks = some r) :
    ∃ meas : List Shots,
      (tasks.filter isMeasured ≠ [] → rb (submittedCircuits tasks) (submittedShots tasks) = .ok meas) ∧
      meas.length = (submittedCircuits tasks).length ∧
      ∀ i (hi : i < tasks.length), ∃ v, r[i]? = some (some v) ∧
        (if notMeasured tasks[i] then evalNonMeasured tasks[i]
         else measuredValue tasks[i].op (meas.getD (rank tasks i) [])) = .ok v :=
  result_at_index rb hlaw tasks r (translatedEstimate_ok mat rb tasks r h)

/-- "a constant operator yields the sum of its coefficients" (`constant_value`) for the TRANSLATED code, at any position and for any
    shot count -/
theorem translated_constant_value (tasks : List (Task C)) (r : List (Option Vals)) (h : translatedEstimate mat rb tasks = some r)
    (i : Nat) (hi : i < tasks.length) (hc : tasks[i].op.isConstant = true) :
    r[i]? = some (some [⟨(tasks[i].op.map (fun t => t.coeff.re)).sum, (tasks[i].op.map (fun t => t.coeff.im)).sum⟩]) :=
  constant_value rb tasks r (translatedEstimate_ok mat rb tasks r h) i hi hc

/-- "a non-constant zero-shot task yields 0" (`zero_shot_value`) for the TRANSLATED code -/
theorem translated_zero_shot_value (tasks : List (Task C)) (r : List (Option Vals)) (h : translatedEstimate mat rb tasks = some r)
    (i : Nat) (hi : i < tasks.length) (hc : tasks[i].op.isConstant = false) (h0 : tasks[i].shots = some 0) :
    r[i]? = some (some [0]) :=
  zero_shot_value rb tasks r (translatedEstimate_ok mat rb tasks r h) i hi hc h0

/-- the index domain of the write-back loops (`full[i] = v` is rendered as `List.set`, which does nothing outside `0 ≤ i < len`):
    every index the translated split hands to them is a position of the result list -/
theorem translated_write_back_in_range (tasks : List (Task C)) :
    ∀ i ∈ (splitTasks tasks).idxMeasure ++ (splitTasks tasks).idxNot,
      i < (splitTasks tasks).notToMeasure.length + (splitTasks tasks).toMeasure.length := by
  intro i hi
  have hlen : (splitTasks tasks).notToMeasure.length + (splitTasks tasks).toMeasure.length = tasks.length := by
    rw [(split_lists tasks).1, (split_lists tasks).2]
    have := List.length_eq_length_filter_add (l := tasks) notMeasured
    have he : tasks.filter isMeasured = tasks.filter (fun t => !notMeasured t) := rfl
    rw [he]
    omega
  obtain ⟨_, _, hm, hn, _, _⟩ := split_indices_remembered tasks
  rw [hlen]
  rcases List.mem_append.mp hi with h | h
  · exact ((hm i).mp h).1
  · exact ((hn i).mp h).1

end EndToEnd

/-! non-vacuity: stand-in objects – a task is (constant?, shots), its operator the flag, terms / coefficients integers, a measurement
    set the shot count it was taken with -/
example : Translated.evaluate_non_measured_estimation_tasks (fun t : Bool × Option Int => t.1) (fun t => t.2) (fun o : Bool => o)
    (fun o => if o then [3, 4] else [5]) (fun c : Int => c) (fun a b => a + b) (fun n => n) (0 : Int) (fun v : List Int => v)
    (fun m : List (List Int) => m) (fun v _ _ => v) [(true, some 5), (false, some 0), (false, none)] = some [[7], [0], [0]] := by
  decide
example : Translated.evaluate_non_measured_estimation_tasks (fun t : Bool × Option Int => t.1) (fun t => t.2) (fun o : Bool => o)
    (fun o => if o then [3, 4] else [5]) (fun c : Int => c) (fun a b => a + b) (fun n => n) (0 : Int) (fun v : List Int => v)
    (fun m : List (List Int) => m) (fun v _ _ => v) [(true, some 5), (false, some 2)] = none := by decide
/-- tasks 0 and 2 are measured (their "measurement" is 100 + the shot count), task 1 is constant (3 + 4), task 3 has zero shots -/
example : Translated.estimate_expectation_values_by_averaging (fun t : Bool × Option Int => t.1) (fun t : Bool × Option Int => t.1)
    (fun t => t.2) (fun o : Bool => o) (fun o => if o then [3, 4] else [5]) (fun c : Int => c) (fun a b => a + b) (fun n => n)
    (0 : Int) (fun v : List Int => v) (fun m : List (List Int) => m) (fun v _ _ => v) (fun t => t.2.getD 0)
    (fun (_ : Unit) (cs : List Int) ns => if cs.length = ns.length then some (cs.map (fun c => 100 + c)) else none)
    (fun (m : Int) (_ : Bool) => some [m]) (fun v => v) () [(false, some 5), (true, some 9), (false, none), (false, some 0)]
    = some [some [105], some [7], some [100], some [0]] := by decide
example : Translated.estimate_expectation_values_by_averaging (fun t : Bool × Option Int => t.1) (fun t : Bool × Option Int => t.1)
    (fun t => t.2) (fun o : Bool => o) (fun o => if o then [3, 4] else [5]) (fun c : Int => c) (fun a b => a + b) (fun n => n)
    (0 : Int) (fun v : List Int => v) (fun m : List (List Int) => m) (fun v _ _ => v) (fun t => t.2.getD 0)
    (fun (_ : Unit) (_ : List Int) _ => none) (fun (m : Int) (_ : Bool) => some [m]) (fun v => v) ()
    [(false, some 5), (true, some 9)] = none := by decide
example : Translated.evaluate_estimation_circuits (fun t : Nat × Int × Option Int => t.1) (fun t => t.2.1) (fun t => t.2.2)
    (fun (c : Int) (m : Int) => c + m) (fun o c s => (o, c, s)) [(1, 10, none), (2, 20, some 3)] [5]
    = some [(1, 15, none), (2, 25, some 3)] := by decide
example : Translated.evaluate_estimation_circuits (fun t : Nat × Int × Option Int => t.1) (fun t => t.2.1) (fun t => t.2.2)
    (fun (c : Int) (m : Int) => c + m) (fun o c s => (o, c, s)) [(1, 10, none), (2, 20, some 3)] [5, 6, 7] = none := by decide
example : Translated.calculate_exact_expectation_values (fun t : Int × Int => t.1) (fun t => t.2)
    (fun (_ : Unit) (c : Int) (o : Int) => if o = 0 then none else some (c * o)) (fun v : List Int => v) (fun v => v) ()
    [(2, 3), (4, 5)] = some [[6], [20]] := by decide
example : Translated.calculate_exact_expectation_values (fun t : Int × Int => t.1) (fun t => t.2)
    (fun (_ : Unit) (c : Int) (o : Int) => if o = 0 then none else some (c * o)) (fun v : List Int => v) (fun v => v) ()
    [(2, 3), (4, 0)] = none := by decide

end OQ.C15
