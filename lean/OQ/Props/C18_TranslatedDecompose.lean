/- C18 — PROPERTY THEOREMS (translation tie): the rule chaining of `decompositions/_decomposition.py`
   (`decompose_operation`, `decompose_operations`), the circuit wrapper `decompose_orquestra_circuit` and the predicate of the
   bundled rule `U3GateToRotation` of `decompositions/_orquestra_decompositions.py`.

   `OQ.Generated.Translated.decompose_operation` … are REGENERATED from /repo's current Python source on every run
   (harness/translate_t3.py → OQ/Generated/TranslatedC18.lean).  Rules, operations, gates and circuits are OPAQUE objects;
   what the functions do with them is an explicit parameter of the translated definition:
     `meth_predicate : ρ → ω → Bool`, `meth_production : ρ → ω → List ω`   (`rule.predicate(op)`, `rule.production(op)`),
     `attr_operations`, `attr_n_qubits`, `ext_Circuit` (`Circuit(ops, n_qubits=…)`), `isinstance_…`, `attr_gate`, `attr_name`, ….
   The recursion of `decompose_operation` (`current_rule, *remaining_rules = decomposition_rules`, recursive call on
   `remaining_rules`) is emitted as STRUCTURAL recursion on the rule list (no `partial`, no fuel).
   Domain of every tie: rule objects whose `predicate` / `production` do not raise (total parameters); an exception in a rule
   aborts the Python call and is modelled by `none` in `OQ.C18` – that part of the model is outside the translated subset. -/
import OQ.Generated.TranslatedC18
import OQ.Lemmas.C18_TranslatedDecompose
import OQ.Props.C18
namespace OQ.C18
open OQ.Generated

/-- TRANSLATION TIE (`_decomposition.py:decompose_operation`): the recursive function regenerated from the current Python source
    is the model's `decomposeOperation` (the definition `rules_in_order`, `unmatched_kept`, `chain_sound`, … are proved about),
    for EVERY list of rule objects, EVERY operation and whatever the rules' `predicate` / `production` return. -/
theorem translated_decompose_operation_eq {ρ ω : Type} (pred : ρ → ω → Bool) (prod : ρ → ω → List ω)
    (rules : List ρ) (op : ω) :
    decomposeOperation (rules.map (totalRule pred prod)) op
      = some (Translated.decompose_operation pred prod op rules) := by
  induction rules generalizing op with
  | nil => rfl
  | cons r rs ih =>
    have hfun : decomposeOperation (rs.map (totalRule pred prod))
        = fun o => some (Translated.decompose_operation pred prod o rs) := funext ih
    simp only [List.map_cons, decomposeOperation, Translated.decompose_operation, applyRule, totalRule, List.map_id']
    cases pred r op
    · simp only [Bool.false_eq_true, if_false]
      rw [hfun, flatMapM_total]
    · simp only [if_true]
      rw [hfun, flatMapM_total]

/-- the same tie read from the model's side: EVERY list of model rules that never raise is the image of rule objects, so
    `decomposeOperation rs op` is what the translated Python computes with `predicate` / `production` read off `rs`. -/
theorem translated_decompose_operation_eq_model {ω : Type} (rs : List (Rule ω)) (op : ω)
    (htot : ∀ r ∈ rs, ∀ o, (r.predicate o).isSome ∧ (r.production o).isSome) :
    decomposeOperation rs op
      = some (Translated.decompose_operation (fun r o => (r.predicate o).getD false) (fun r o => (r.production o).getD [])
          op rs) := by
  rw [← translated_decompose_operation_eq]
  congr 1
  induction rs with
  | nil => rfl
  | cons r rs ih =>
    rw [List.map_cons, ← ih (fun r' hr' => htot r' (by simp [hr']))]
    congr 1
    cases r with
    | mk p q =>
      simp only [totalRule, Rule.mk.injEq]
      constructor
      · funext o
        have := (htot ⟨p, q⟩ (by simp) o).1
        cases hp : p o with
        | none => simp [hp] at this
        | some b => simp
      · funext o
        have := (htot ⟨p, q⟩ (by simp) o).2
        cases hq : q o with
        | none => simp [hq] at this
        | some b => simp

/-- TRANSLATION TIE (`_decomposition.py:decompose_operations`): the comprehension over the circuit's operations regenerated from
    the current source is the model's `decomposeOperations`, for every rule list and every operation list. -/
theorem translated_decompose_operations_eq {ρ ω : Type} (pred : ρ → ω → Bool) (prod : ρ → ω → List ω)
    (rules : List ρ) (ops : List ω) :
    decomposeOperations (rules.map (totalRule pred prod)) ops
      = some (Translated.decompose_operations pred prod ops rules) := by
  unfold decomposeOperations Translated.decompose_operations
  have hfun : decomposeOperation (rules.map (totalRule pred prod))
      = fun o => some (Translated.decompose_operation pred prod o rules) :=
    funext (translated_decompose_operation_eq pred prod rules)
  rw [hfun, flatMapM_total]
  simp only [List.map_id']

/-- TRANSLATION TIE (`_orquestra_decompositions.py:decompose_orquestra_circuit`): `Circuit(decompose_operations(circuit.operations,
    rules), n_qubits=circuit.n_qubits)` regenerated from the current source, with the constructor instantiated by the model's
    `mkCircuit` (`none` = the constructor raises), is the model's `decomposeCircuit`. -/
theorem translated_decompose_orquestra_circuit_eq {ρ α R : Type} (pred : ρ → Operation α R → Bool)
    (prod : ρ → Operation α R → List (Operation α R)) (rules : List ρ) (c : Circuit α R) :
    decomposeCircuit (rules.map (totalRule pred prod)) c
      = Translated.decompose_orquestra_circuit pred prod (fun c : Circuit α R => c.ops) (fun c => (c.n : Int))
          (fun ops n => mkCircuit ops n.toNat) c rules := by
  unfold decomposeCircuit Translated.decompose_orquestra_circuit
  rw [translated_decompose_operations_eq]
  simp

/-- TRANSLATION TIE (`_orquestra_decompositions.py:U3GateToRotation.predicate`): the boolean expression regenerated from the
    current source (`isinstance(operation, GateOperation) and (operation.gate.name == "U3" or isinstance(operation.gate,
    ControlledGate) and operation.gate.wrapped_gate.name == "U3")`) is the model's `u3Predicate`, for every operation. -/
theorem translated_u3_predicate_eq {α R : Type} (self : Unit) (o : Operation α R) :
    u3Predicate o = some (Translated.u3_predicate opIsGate Gate.isControlled opGate (fun g => (Gate.name g).toList)
      gateWrapped self o) := by
  have hs : ∀ s : String, (s.toList == ['U', '3']) = (s == "U3") := by
    intro s
    rw [Bool.eq_iff_iff, beq_iff_eq, beq_iff_eq]
    constructor
    · intro h; exact String.ext h
    · intro h; rw [h]; rfl
  cases o with
  | other t qs => rfl
  | gate g qs =>
    cases g with
    | mf n ps m => simp [u3Predicate, Translated.u3_predicate, opIsGate, opGate, Gate.isControlled, hs]
    | controlled w k => simp [u3Predicate, Translated.u3_predicate, opIsGate, opGate, Gate.isControlled, gateWrapped, hs]
    | dagger w => simp [u3Predicate, Translated.u3_predicate, opIsGate, opGate, Gate.isControlled, hs]

/-! ## end-to-end: sentences of the property ON THE TRANSLATED CODE (through the ties) -/
section EndToEnd
variable {ρ ω : Type} (pred : ρ → ω → Bool) (prod : ρ → ω → List ω)

/-- "With an empty rule list the circuit is returned unchanged" – for the translated `decompose_operations` (`no_rules_id`) -/
theorem translated_no_rules_id (ops : List ω) : Translated.decompose_operations pred prod ops [] = ops := by
  have h := translated_decompose_operations_eq pred prod [] ops
  rw [List.map_nil, no_rules_id] at h
  exact (Option.some.inj h).symm

/-- "rules are applied in the order given to the output of the previous rule" – for the translated code (`rules_in_order`):
    decomposing with `r :: rs` is one full pass of `r` over the operations followed by decomposing its output with `rs` -/
theorem translated_rules_in_order (r : ρ) (rs : List ρ) (ops : List ω) :
    Translated.decompose_operations pred prod ops (r :: rs)
      = Translated.decompose_operations pred prod (Translated.decompose_operations pred prod ops [r]) rs := by
  have h := rules_in_order (totalRule pred prod r) (rs.map (totalRule pred prod)) ops
  rw [← List.map_cons, translated_decompose_operations_eq,
    show [totalRule pred prod r] = [r].map (totalRule pred prod) from rfl, translated_decompose_operations_eq,
    Option.bind_some, translated_decompose_operations_eq] at h
  exact Option.some.inj h

/-- … and for any split of the rule list (`rules_append`) -/
theorem translated_rules_append (rs₁ rs₂ : List ρ) (ops : List ω) :
    Translated.decompose_operations pred prod ops (rs₁ ++ rs₂)
      = Translated.decompose_operations pred prod (Translated.decompose_operations pred prod ops rs₁) rs₂ := by
  have h := rules_append (rs₁.map (totalRule pred prod)) (rs₂.map (totalRule pred prod)) ops
  rw [← List.map_append, translated_decompose_operations_eq, translated_decompose_operations_eq,
    Option.bind_some, translated_decompose_operations_eq] at h
  exact Option.some.inj h

/-- "operations no rule applies to are kept unchanged" – for the translated `decompose_operation` (`unmatched_kept`) -/
theorem translated_unmatched_kept (rules : List ρ) (op : ω) (h : ∀ r ∈ rules, pred r op = false) :
    Translated.decompose_operation pred prod op rules = [op] := by
  have hm := unmatched_kept (rules.map (totalRule pred prod)) op (by
    intro r hr
    obtain ⟨r0, hr0, rfl⟩ := List.mem_map.mp hr
    simp only [totalRule, h r0 hr0])
  rw [translated_decompose_operation_eq] at hm
  exact Option.some.inj hm

/-- "… and in order" – for the translated code (`kept_in_place`): an unmatched operation stays between what its neighbours became -/
theorem translated_kept_in_place (rules : List ρ) (pre post : List ω) (op : ω) (h : ∀ r ∈ rules, pred r op = false) :
    Translated.decompose_operations pred prod (pre ++ op :: post) rules
      = Translated.decompose_operations pred prod pre rules ++ op :: Translated.decompose_operations pred prod post rules := by
  have hm := kept_in_place (rules.map (totalRule pred prod)) pre post _ _ op (by
    intro r hr
    obtain ⟨r0, hr0, rfl⟩ := List.mem_map.mp hr
    simp only [totalRule, h r0 hr0]) (translated_decompose_operations_eq pred prod rules pre)
    (translated_decompose_operations_eq pred prod rules post)
  rw [translated_decompose_operations_eq] at hm
  exact Option.some.inj hm

end EndToEnd

/-! non-vacuity: the toy rules of `Props/C18.lean` as rule OBJECTS (0 = "halve an even number", 1 = "split n > 2 into n-1, 1") -/
example :
    let pred : Nat → Nat → Bool := fun r n => if r = 0 then n % 2 == 0 else decide (n > 2)
    let prod : Nat → Nat → List Nat := fun r n => if r = 0 then [n / 2, n / 2] else [n - 1, 1]
    Translated.decompose_operations pred prod [4, 3] [0, 1] = [2, 2, 2, 1] ∧
    Translated.decompose_operations pred prod [4, 3] [1, 0] = [3, 1, 1, 1, 1] ∧
    Translated.decompose_operation pred prod 4 [] = [4] ∧
    Translated.decompose_operations pred prod ([8] ++ 3 :: [7]) [0] = [4, 4] ++ 3 :: [7] := by decide
example : Translated.decompose_orquestra_circuit (fun (_ : Nat) (n : Nat) => n % 2 == 0) (fun _ n => [n / 2, n / 2])
    (fun c : List Nat × Int => c.1) (fun c => c.2) (fun ops n => (ops, n)) ([4, 3], 7) [0, 0] = ([1, 1, 1, 1, 3], 7) := by decide
example : Translated.u3_predicate opIsGate Gate.isControlled opGate (fun g => (Gate.name g).toList) gateWrapped ()
      (Operation.gate (Gate.controlled (Gate.mf "U3" [1, 2, 3] none : Gate Nat Nat) 3) [0, 1, 2, 3]) = true ∧
    Translated.u3_predicate opIsGate Gate.isControlled opGate (fun g => (Gate.name g).toList) gateWrapped ()
      (Operation.other "reset" [0] : Operation Nat Nat) = false := by decide

end OQ.C18
