/- C12 — PROPERTY THEOREMS (translation ties, work package T13): the `Wavefunction` CLASS itself.
   `OQ.Generated.Wf.*` are REGENERATED from /repo's current `wavefunction.py` on every run (harness/translate_t13.py →
   OQ/Generated/TranslatedC12Wf.lean): `_is_number`, `_cast_sympy_matrix_to_numpy`, `_check_normalization`, `__init__`, `free_symbols`,
   `amplitudes`, `__len__`, `n_qubits`, `__setitem__` (copy – write – re-check – ROLLBACK), `bind`, `get_probabilities`,
   `flip_amplitudes`, `flip_wavefunction`, statement by statement, exceptions with their class, the object's state returned on a
   raise too.  numpy / sympy expressions are the fields of the parameter `ext : Wf.Ext …` (one per source pattern); the theorems
   hold for EVERY `ext` satisfying `OQ.C12.T13.Laws close ext` (OQ/Lemmas/C12_T13.lean – the model's assumptions about numpy / sympy,
   satisfied by the stand-ins `modelExt close` that the driver runs against the real class) and every tolerance test `close`.
   `trStep ext close s op` (OQ/Model/C12_T13Run.lean) performs the model's operation `op` THROUGH THE TRANSLATED METHODS; the main
   theorem `translated_step_eq` says it is the model's `step` – so every theorem of OQ/Props/C12.lean about histories is a theorem
   about the translated code (END-TO-END section).  An edit of a Python method changes its generated definition and these stop
   checking at build time, for all inputs. -/
import OQ.Lemmas.C12_T13
import OQ.Props.C12
namespace OQ.C12
open OQ.Generated OQ.PyT OQ.C12.T13

/-- TRANSLATION TIE: `_is_number(x)` (`try: complex(x); return True / except Exception: return False`) regenerated from the current
    source returns the model's `Lin.isNum` and never raises.  All entries.  Law used: `complex_of`. -/
theorem translated_is_number_eq {close : Rat → Bool} {ext : MExt} (h : Laws close ext) (e : Lin) :
    Wf.is_number ext e = .ok e.isNum := by
  unfold Wf.is_number
  rw [h.complex_of]
  cases e.isNum <;> rfl

/-- TRANSLATION TIE: `Wavefunction._check_normalization(arr)` regenerated from the current source – the `isinstance … or … and not
    arr.free_symbols` test, `np.sum(np.abs(arr) ** 2)`, `np.isclose(·, 1.0)`, the comprehension over `_is_number`, `· > 1.0` – raises
    ValueError exactly when the model's `checkNorm close` says no, and never raises anything else.  ALL objects (1-d and (n,1) arrays,
    symbol-free, mixed and fully symbolic Matrices).  Laws used: `isinstance_*`, `attr_free_symbols`, `np_abs_sq`, `np_sum`,
    `np_isclose_one`, `gt_one`, `iter_vector`, `np_array_c128`, `complex_of`. -/
theorem translated_check_normalization_eq {close : Rat → Bool} {ext : MExt} (h : Laws close ext) (s : Store) :
    Wf.check_normalization ext s = if checkNorm close s.entries then .ok () else .error .ValueError := by
  unfold Wf.check_normalization
  simp only [h.isinstance_ndarray, h.isinstance_Matrix, h.np_abs_sq, h.np_isclose_one, h.gt_one,
    h.iter_vector, translated_is_number_eq h]
  have hfs : (isArr s || (!isArr s && !ext.truthy_FS (ext.attr_free_symbols s))) = (isArr s || (!isArr s && !(!allNum s.entries))) := by
    cases s with
    | arr1 v => rfl
    | arr2 v => rfl
    | mat v => rw [h.attr_free_symbols]; rfl
  rw [hfs]
  by_cases ha : allNum s.entries = true
  · have hc : (isArr s || (!isArr s && !(!allNum s.entries))) = true := by cases s <;> simp [isArr, ha]
    simp only [hc, if_true]
    simp only [absSq, ha, if_true, h.np_sum, ← numSq_allNum _ ha, checkNorm]
    cases close (numSq s.entries) <;> rfl
  · have ha' : allNum s.entries = false := by simpa using ha
    have hm : isArr s = false := by
      cases s with
      | arr1 v => rw [arr1_entries, allNum_ofNum] at ha'; cases ha'
      | arr2 v => rw [arr2_entries, allNum_ofNum] at ha'; cases ha'
      | mat v => rfl
    have hc : (isArr s || (!isArr s && !(!allNum s.entries))) = false := by simp [hm, ha']
    simp only [hc, Bool.false_eq_true, if_false]
    have hf : filterE (fun elem => match (Except.ok elem.isNum : Except Exc Bool) with
        | .error e => .error e | .ok c => .ok c) s.entries = .ok (s.entries.filter Lin.isNum) :=
      filterE_ok _ Lin.isNum _ (fun x _ => rfl)
    simp only [hf, h.np_array_c128 _ (all_isNum_filter _), absSq, arr1_entries, allNum_ofNum, if_true, h.np_sum]
    have e1 : (List.map (fun e : Lin => e.c.normSq)
        (List.map Lin.ofNum (List.map (fun x => x.c) (List.filter Lin.isNum s.entries)))).sum = numSq s.entries := by
      rw [← numSq_allNum _ (allNum_ofNum _)]; exact numSq_filter_c _
    rw [e1]
    simp only [checkNorm, ha', Bool.false_eq_true, if_false]
    by_cases hg : 1 < numSq s.entries <;> simp [hg]

/-- TRANSLATION TIE: `Wavefunction.__init__(amplitude_vector)` regenerated from the current source – `bin(len(·)).count("1") != 1`,
    `np.array(·, dtype=complex)` with the fall-back `Matrix(·)` on TypeError, the final `_check_normalization` – is the model's
    `construct`: same object on success (`col` = the argument is a column), ValueError where the model refuses.  ALL argument vectors
    (any length incl. 0, numeric / symbolic / mixed).  Laws used: `len_input`, `np_array_complex`, `sympy_Matrix` + those of
    `_check_normalization`. -/
theorem translated_init_eq {close : Rat → Bool} {ext : MExt} (h : Laws close ext) (col : Bool) (v : List Lin) :
    Wf.init ext (col, v) = match construct close col v with
      | .ok s => .ok ⟨s⟩
      | .error e => .error (errOf e) := by
  unfold Wf.init construct
  simp only [h.len_input, countChar_bin, h.np_array_complex, h.sympy_Matrix, translated_check_normalization_eq h]
  by_cases hp : popcount v.length = 1
  · have e1 : (((popcount v.length : Nat) : Int) != 1) = false := by simp [hp]
    have e2 : (popcount v.length != 1) = false := by simp [hp]
    simp only [e1, e2, Bool.false_eq_true, if_false]
    by_cases ha : allNum v = true
    · simp only [ha, if_true]
      have hm := map_c_ofNum v ha
      have hck : ∀ s : Store, s.entries = v → checkNorm close s.entries = close (numSq v) := by
        intro s hs; rw [hs]; simp [checkNorm, ha]
      cases col
      · simp only [Bool.false_eq_true, if_false]
        rw [hck (.arr1 _) (by rw [arr1_entries, hm])]
        cases close (numSq v) <;> rfl
      · simp only [if_true]
        rw [hck (.arr2 _) (by rw [arr2_entries, hm])]
        cases close (numSq v) <;> rfl
    · have ha' : allNum v = false := by simpa using ha
      simp only [ha', Bool.false_eq_true, if_false]
      have hck : checkNorm close (Store.mat v).entries = !decide (1 < numSq v) := by
        rw [mat_entries]; simp [checkNorm, ha']
      have ht : (Exc.TypeError == Exc.TypeError) = true := by decide
      simp only [ht, if_true, hck]
      by_cases hg : 1 < numSq v <;> simp [hg, errOf]
  · have e1 : (((popcount v.length : Nat) : Int) != 1) = true := by
      simp only [bne_iff_ne, ne_eq]; intro hh; exact hp (by exact_mod_cast hh)
    have e2 : (popcount v.length != 1) = true := by simpa using hp
    simp only [e1, e2, if_true, errOf]

/-- NORMAL FORM of the translated `__setitem__` (copy, write, re-check, rollback): with `w = rawSet s key val` (the write alone):
    the write raised → that exception, the object as the write left it; the re-check passes → the written object; otherwise the WHOLE
    saved vector is back (through `[...] =` on an ndarray, by rebinding on a Matrix) and ValueError is raised.  ALL objects; keys / values: an int key with a scalar value, a bare slice key with a scalar or a list (the operations of the
    model).
    Laws used: `copy`, `setitem`, `setitem_all`, `isinstance_ndarray` + those of `_check_normalization`. -/
theorem translated_setitem_eq {close : Rat → Bool} {ext : MExt} (h : Laws close ext) (s : Store) (k : Key) (x : SliceVal)
    (hdom : ∀ i l, ¬ (k = .int i ∧ x = .list l)) :
    Wf.setitem ext ⟨s⟩ k x =
      match (rawSet s k x).2 with
      | .error e => (⟨(rawSet s k x).1⟩, .error e)
      | .ok _ =>
        if checkNorm close (rawSet s k x).1.entries then (⟨(rawSet s k x).1⟩, .ok ()) else (⟨s⟩, .error .ValueError) := by
  unfold Wf.setitem
  simp only [h.copy, h.setitem _ _ _ hdom, translated_check_normalization_eq h, h.isinstance_ndarray]
  cases hr : (rawSet s k x).2 with
  | error e => rfl
  | ok u =>
    simp only
    cases hc : checkNorm close (rawSet s k x).1.entries with
    | true => rfl
    | false =>
      have hv : (Exc.ValueError == Exc.ValueError) = true := by decide
      simp only [Bool.false_eq_true, if_false, hv, if_true]
      cases ha : isArr (rawSet s k x).1 with
      | false => rfl
      | true => simp only [if_true, h.setitem_all _ _ ha]

/-- TRANSLATION TIE (`wf[i] = val`, int key): the translated `__setitem__` is the model's step – ALL objects, ALL ints (negative
    wrap-around, out of range → IndexError), ALL values (a symbol into an ndarray → TypeError). -/
theorem translated_setitem_int_eq {close : Rat → Bool} {ext : MExt} (h : Laws close ext) (s : Store) (i : Int) (val : Lin) :
    trStep ext close s (.setInt i val) = step close s (.setInt i val) := by
  simp only [trStep, translated_setitem_eq h _ _ _ (dom_int_scalar i val)]
  cases s with
  | arr1 v =>
    simp only [rawSet, step, rawSetArr, setIntArr, setArr, arr1_entries, checkNorm_arr]
    cases normIndex v.length i with
    | none => rfl
    | some p =>
      simp only
      cases val.isNum with
      | false => rfl
      | true =>
        simp only [Bool.not_true, Bool.false_eq_true, if_false]
        cases close ((List.map QI.normSq (writeAt v [p] [val.c])).sum) <;> rfl
  | arr2 v =>
    simp only [rawSet, step, rawSetArr, setIntArr, setArr, arr2_entries, checkNorm_arr]
    cases normIndex v.length i with
    | none => rfl
    | some p =>
      simp only
      cases val.isNum with
      | false => rfl
      | true =>
        simp only [Bool.not_true, Bool.false_eq_true, if_false]
        cases close ((List.map QI.normSq (writeAt v [p] [val.c])).sum) <;> rfl
  | mat v =>
    simp only [rawSet, step, rawSetMat, setIntMat, mat_entries]
    rcases Option.eq_none_or_eq_some (normIndex v.length i) with hn | ⟨p, hn⟩
    · simp only [hn]; rfl
    · simp only [hn]
      rcases Bool.eq_false_or_eq_true (checkNorm close (writeAt v [p] [val])) with hc | hc <;> simp only [hc] <;> rfl

/-- TRANSLATION TIE (`wf[a:b] = val`, bare slice key, step None): the translated `__setitem__` is the model's step – ALL objects, ALL
    bounds incl. None / negative / beyond the end, scalar and list values (numpy broadcasting errors, sympy's `(row, col)` reading of a
    bare slice with its IndexError / ShapeError). -/
theorem translated_setitem_slice_eq {close : Rat → Bool} {ext : MExt} (h : Laws close ext) (s : Store) (a b : Option Int) (val : SliceVal) :
    trStep ext close s (.setSlice a b val) = step close s (.setSlice a b val) := by
  simp only [trStep, translated_setitem_eq h _ _ _ (dom_slice a b val)]
  cases s with
  | arr1 v =>
    simp only [rawSet, step, rawSetArr, setSliceArr, setArr, arr1_entries, checkNorm_arr, List.length_range']
    rcases hb : broadcast false (clampIdx v.length b v.length - clampIdx v.length a 0) val with e | vals
    · simp only [errBack_errOf e (broadcast_ne_internal _ _ _ _ hb)]
    · simp only
      rcases Bool.eq_false_or_eq_true (close ((List.map QI.normSq (writeAt v (List.range' (clampIdx v.length a 0)
        (clampIdx v.length b v.length - clampIdx v.length a 0)) vals)).sum)) with hc | hc <;> simp only [hc] <;> rfl
  | arr2 v =>
    simp only [rawSet, step, rawSetArr, setSliceArr, setArr, arr2_entries, checkNorm_arr, List.length_range']
    rcases hb : broadcast true (clampIdx v.length b v.length - clampIdx v.length a 0) val with e | vals
    · simp only [errBack_errOf e (broadcast_ne_internal _ _ _ _ hb)]
    · simp only
      rcases Bool.eq_false_or_eq_true (close ((List.map QI.normSq (writeAt v (List.range' (clampIdx v.length a 0)
        (clampIdx v.length b v.length - clampIdx v.length a 0)) vals)).sum)) with hc | hc <;> simp only [hc] <;> rfl
  | mat v =>
    simp only [rawSet, step, rawSetMat, setSliceMat, mat_entries]
    cases val with
    | list xs =>
      simp only
      by_cases hx : xs.length = 0 ∧ clampIdx v.length a 0 = 0 ∧ clampIdx v.length b v.length = 0
      · simp only [hx, and_self, if_true]
        rcases Bool.eq_false_or_eq_true (checkNorm close v) with hc | hc <;> simp only [hc] <;> rfl
      · simp only [hx, if_false]; rfl
    | scalar x =>
      simp only
      by_cases hx : clampIdx v.length b v.length = 0 ∧ clampIdx v.length a 0 < v.length
      · simp only [hx, and_self, if_true]
        rcases Bool.eq_false_or_eq_true (checkNorm close (v.set (clampIdx v.length a 0) x)) with hc | hc <;>
          simp only [hc] <;> rfl
      · simp only [hx, if_false]; rfl

/-- TRANSLATION TIE: `wf.bind(symbol_map)` regenerated from the current source (`if not self.free_symbols: return self`, the assert,
    `.subs`, `type(self)(result)` with ValueError re-raised) is the model's step – ALL objects, ALL maps. -/
theorem translated_bind_eq {close : Rat → Bool} {ext : MExt} (h : Laws close ext) (s : Store) (m : List (String × Lin)) :
    trStep ext close s (.bind m) = step close s (.bind m) := by
  simp only [trStep, Wf.bind, Wf.free_symbols, h.getattr_free_symbols, h.isinstance_Matrix]
  by_cases ha : allNum s.entries = true
  · simp only [ha, Bool.not_true, Bool.not_false, if_true]
    cases s with
    | arr1 v => rfl
    | arr2 v => rfl
    | mat v => rw [mat_entries] at ha; simp [step, ha]
  · have ha' : allNum s.entries = false := by simpa using ha
    cases s with
    | arr1 v => rw [arr1_entries, allNum_ofNum] at ha'; cases ha'
    | arr2 v => rw [arr2_entries, allNum_ofNum] at ha'; cases ha'
    | mat v =>
      rw [mat_entries] at ha'
      simp only [mat_entries, ha', Bool.not_false, Bool.not_true, Bool.false_eq_true, if_false, isArr, if_true, h.subs, h.as_input,
        asInput, translated_init_eq h, step]
      rcases hc : construct close true (v.map (Lin.subst m)) with e | s'
      · have := construct_error_value _ _ _ _ hc; subst this
        rfl
      · rfl

/-- TRANSLATION TIE: the property `amplitudes` (with `_cast_sympy_matrix_to_numpy(·, complex=True)` and its TypeError fall-back to an
    object array) never raises and hands out the stored entries, for ALL objects.  Laws used: `getattr_free_symbols`, `flatten_*`. -/
theorem translated_amplitudes_eq {close : Rat → Bool} {ext : MExt} (h : Laws close ext) (s : Store) :
    Wf.amplitudes ext ⟨s⟩ = .ok s := by
  simp only [Wf.amplitudes, Wf.free_symbols, h.getattr_free_symbols, Wf.cast_sympy_matrix_to_numpy, if_true, h.flatten_c128]
  by_cases ha : allNum s.entries = true
  · simp [ha]
  · have ha' : allNum s.entries = false := by simpa using ha
    simp only [ha', Bool.not_false, if_true, Bool.false_eq_true, if_false, h.flatten_object s ha']
    rfl

/-- TRANSLATION TIE: `flip_wavefunction(wf)` = `Wavefunction(flip_amplitudes(wf.amplitudes))` regenerated from the current source
    (`len`, `_get_ordering`, `np.asarray(·)[ordering]`, the constructor) is the model's step, on every object whose length is a power of
    two – i.e. every object a constructor can have produced (other lengths: the model answers TypeError for an empty vector as the
    code does, for further lengths no bound on `ordering` is proved). -/
theorem translated_flip_eq {close : Rat → Bool} {ext : MExt} (h : Laws close ext) (s : Store) (hlen : ∃ k, s.length = 2 ^ k) :
    trStep ext close s .flip = step close s .flip := by
  obtain ⟨k, hk⟩ := hlen
  obtain ⟨w, hw, hwl, hget⟩ := flipList_spec s.entries k hk
  have hperm := flipList_perm s.entries w k hk hw
  have hne : s.length ≠ 0 := by rw [hk]; exact (Nat.two_pow_pos k).ne'
  have hr : readAt s.entries (ordering s.length) = some w := by
    unfold flipList at hw
    have : ¬ s.entries.length = 0 := hne
    simpa [this, Store.length] using hw
  simp only [trStep, step, Wf.flip_wavefunction, translated_amplitudes_eq h, Wf.flip_amplitudes, h.len_vector, h.get_ordering, hne, if_false,
    h.asarray_take, hr, h.as_input, translated_init_eq h, flipWf_eq, hw]
  rw [withEntries_asInput s w (fun ha => by rw [allNum_perm _ _ hperm]; exact ha)]
  rcases hc : construct close (asInput s).1 w with e | s'
  · have := construct_error_value _ _ _ _ hc; subst this
    rfl
  · rfl

/-- TRANSLATION TIE (the whole object): performing a model operation through the TRANSLATED methods – `wf[i] = v`, `wf[a:b] = v`
    (`__setitem__`), `wf = wf.bind(m)`, `wf = flip_wavefunction(wf)` – gives exactly the model's `step`: the same object afterwards and
    the same outcome (ok / ValueError / TypeError / IndexError), for ALL objects and ALL operations (`flip`: objects of power-of-two
    length; `reload` is not translated and is the model's step by definition). -/
theorem translated_step_eq {close : Rat → Bool} {ext : MExt} (h : Laws close ext) (s : Store) (op : Op)
    (hlen : op = .flip → ∃ k, s.length = 2 ^ k) : trStep ext close s op = step close s op := by
  cases op with
  | setInt i val => exact translated_setitem_int_eq h s i val
  | setSlice a b val => exact translated_setitem_slice_eq h s a b val
  | bind m => exact translated_bind_eq h s m
  | flip => exact translated_flip_eq h s (hlen rfl)
  | reload => rfl

/-- TRANSLATION TIE: `get_probabilities()` (= `np.abs(self.amplitudes) ** 2`) regenerated from the current source is the model's
    `probabilities`: the squared magnitudes of a symbol-free object, nothing numeric for a symbolic one.  ALL objects. -/
theorem translated_get_probabilities_eq {close : Rat → Bool} {ext : MExt} (h : Laws close ext) (s : Store) :
    trProbabilities ext s = probabilities s := by
  simp only [trProbabilities, Wf.get_probabilities, translated_amplitudes_eq h, h.np_abs_sq, absSq, probabilities]

/-! ## END-TO-END: the property theorems of OQ/Props/C12.lean, on the translated code -/

/-- END-TO-END (`rejected_unchanged` on the translated `__setitem__` / `bind` / `flip_wavefunction`): whenever the translated method
    raises, the object is EXACTLY as it was – the rollback of `__setitem__` restores the whole vector on arrays and Matrices, int and
    slice keys; errors of the write itself leave nothing written. -/
theorem translated_rejected_unchanged {close : Rat → Bool} {ext : MExt} (h : Laws close ext) (s : Store) (op : Op)
    (hlen : op = .flip → ∃ k, s.length = 2 ^ k) (hrej : (trStep ext close s op).2 ≠ .ok) : (trStep ext close s op).1 = s := by
  rw [translated_step_eq h s op hlen] at hrej ⊢
  exact rejected_unchanged close s op hrej

/-- END-TO-END (`inv_step`): one operation through the translated methods, accepted or rejected, keeps a valid object valid
    (power-of-two length; squared magnitudes summing to 1 in the sense of `close`, numeric part ≤ 1 next to symbols). -/
theorem translated_inv_step {close : Rat → Bool} {ext : MExt} (h : Laws close ext) (s : Store) (op : Op) (hinv : Inv close s) :
    Inv close (trStep ext close s op).1 := by
  rw [translated_step_eq h s op (fun _ => hinv.1)]
  exact inv_step close s op hinv

/-- END-TO-END (`inv_reachable`, "normalised after every accepted or rejected operation"): EVERY history of translated `__setitem__` /
    `bind` / `flip_wavefunction` calls from a valid object ends in a valid object, and it is the object the model's history ends in. -/
theorem translated_inv_reachable {close : Rat → Bool} {ext : MExt} (h : Laws close ext) (s : Store) (ops : List Op)
    (hinv : Inv close s) : Inv close (trRun ext close s ops) ∧ trRun ext close s ops = run close s ops := by
  induction ops generalizing s with
  | nil => exact ⟨hinv, rfl⟩
  | cons op ops ih =>
    have e := translated_step_eq h s op (fun _ => hinv.1)
    have hi := inv_step close s op hinv
    simp only [trRun, run, List.foldl_cons, e]
    exact ih _ hi

/-- END-TO-END (`inv_reachable_from_construct`): every object reachable from a successful TRANSLATED construction by any history of
    translated operations is valid; the translated constructor accepts exactly what `construct_ok_iff` says. -/
theorem translated_inv_reachable_from_init {close : Rat → Bool} {ext : MExt} (h : Laws close ext) (col : Bool) (v : List Lin)
    (s : Store) (ops : List Op) (hc : trConstruct ext col v = .ok s) :
    Inv close (trRun ext close s ops) ∧ s.entries = v ∧
      ((∃ k, v.length = 2 ^ k) ∧ (allNum v = true → close (numSq v) = true) ∧ (allNum v = false → numSq v ≤ 1)) := by
  have hcm : construct close col v = .ok s := by
    simp only [trConstruct, translated_init_eq h] at hc
    cases hm : construct close col v with
    | error e => rw [hm] at hc; cases hc
    | ok s' => rw [hm] at hc; simp only [Except.ok.injEq] at hc; rw [hc]
  obtain ⟨hinv, hent⟩ := inv_init close col v s hcm
  exact ⟨(translated_inv_reachable h s ops hinv).1, hent, (construct_ok_iff close col v).mp ⟨s, hcm⟩⟩

/-- END-TO-END (`probs_sum`): on a valid symbol-free object the translated `get_probabilities` returns the squared magnitudes, each
    non-negative, whose sum passes the library's "= 1" test. -/
theorem translated_probs_sum {close : Rat → Bool} {ext : MExt} (h : Laws close ext) (s : Store) (hinv : Inv close s) (p : List Rat)
    (hp : trProbabilities ext s = some p) :
    p = s.entries.map (fun e => e.c.normSq) ∧ (∀ x ∈ p, 0 ≤ x) ∧ close p.sum = true := by
  rw [translated_get_probabilities_eq h] at hp
  exact probs_sum close s hinv p hp

/-! ## non-vacuity: the laws are satisfiable (`modelExt_laws`) and the TRANSLATED definitions run on concrete data -/

private def mx := modelExt isClose
private def v34 : Store := .arr1 [⟨3/5, 0⟩, ⟨0, 4/5⟩, 0, 0]
private def x0 : Store := .mat [Lin.ofSym "x", Lin.ofNum 0]

example : Laws isClose mx := modelExt_laws isClose
example : Wf.init mx (false, [Lin.ofNum ⟨3/5, 0⟩, Lin.ofNum ⟨0, 4/5⟩, Lin.ofNum 0, Lin.ofNum 0]) = .ok ⟨v34⟩ := by decide +kernel
example : Wf.init mx (false, [Lin.ofNum ⟨3/5, 0⟩, Lin.ofNum ⟨0, 4/5⟩, Lin.ofNum 0]) = .error .ValueError := by decide +kernel
example : Wf.init mx (false, [Lin.ofSym "x", Lin.ofNum ⟨5/4, 0⟩]) = .error .ValueError := by decide +kernel
example : Wf.init mx (false, [Lin.ofSym "x", Lin.ofNum 0]) = .ok ⟨x0⟩ := by decide +kernel
-- a rejected slice assignment is rolled back (the former defect F5), an accepted one is kept
example : Wf.setitem mx ⟨v34⟩ (.slice (some 0) (some 2) ) (.list [Lin.ofNum ⟨1/2, 0⟩, Lin.ofNum ⟨1/2, 0⟩])
    = (⟨v34⟩, .error .ValueError) := by decide +kernel
example : Wf.setitem mx ⟨v34⟩ (.slice (some 0) (some 2)) (.list [Lin.ofNum ⟨4/5, 0⟩, Lin.ofNum ⟨3/5, 0⟩])
    = (⟨.arr1 [⟨4/5, 0⟩, ⟨3/5, 0⟩, 0, 0]⟩, .ok ()) := by decide +kernel
example : Wf.setitem mx ⟨v34⟩ (.int 7) (.scalar (Lin.ofNum 0)) = (⟨v34⟩, .error .IndexError) := by decide +kernel
example : Wf.setitem mx ⟨v34⟩ (.int 0) (.scalar (Lin.ofSym "x")) = (⟨v34⟩, .error .TypeError) := by decide +kernel
example : Wf.setitem mx ⟨x0⟩ (.slice (some 0) (some 0)) (.scalar (Lin.ofNum ⟨5, 0⟩)) = (⟨x0⟩, .error .ValueError) := by decide +kernel
example : Wf.bind mx ⟨.mat [Lin.ofSym "x", Lin.ofNum ⟨3/5, 0⟩]⟩ [("x", Lin.ofNum ⟨0, 4/5⟩)]
    = .ok ⟨.arr2 [⟨0, 4/5⟩, ⟨3/5, 0⟩]⟩ := by decide +kernel
example : Wf.bind mx ⟨.mat [Lin.ofSym "x", Lin.ofNum ⟨3/5, 0⟩]⟩ [("x", Lin.ofNum ⟨1, 0⟩)] = .error .ValueError := by decide +kernel
example : Wf.get_probabilities mx ⟨v34⟩ = .ok (some [9/25, 16/25, 0, 0]) := by decide +kernel
example : Wf.flip_wavefunction mx ⟨.arr1 [⟨3/5, 0⟩, ⟨0, 4/5⟩, 0, 0]⟩ = .ok ⟨.arr1 [⟨3/5, 0⟩, 0, ⟨0, 4/5⟩, 0]⟩ := by decide +kernel
example : trRun mx isClose (.mat [Lin.ofSym "x", Lin.ofSym "y", Lin.ofNum ⟨3/5, 0⟩, Lin.ofNum 0])
    [.setInt (-1) (Lin.ofNum ⟨9/10, 0⟩), .bind [("x", Lin.ofNum 0)], .bind [("y", Lin.ofNum ⟨1, 0⟩)],
     .bind [("y", Lin.ofNum ⟨0, 4/5⟩)], .flip] = .arr2 [0, ⟨3/5, 0⟩, ⟨0, 4/5⟩, 0] := by decide +kernel
end OQ.C12
