/- C06 — PROPERTY THEOREMS (translation tie of the gate CLASSES).
   `OQ.Generated.TranslatedGates` is REGENERATED on every run from the current source of the dataclasses `MatrixFactoryGate`,
   `ControlledGate`, `Dagger`, `Exponential`, `Power` of `circuits/_gates.py` (harness/translate_cls.py: one inductive constructor
   per class with the dataclass fields in source order, one Lean function per method / property defined by cases on the class,
   each case rendered mechanically from that class's method body, constructor calls through `mk_<Class>` = `__post_init__`).
   The theorems below prove that these regenerated rules ARE the gate methods of the hand-written model `OQ/Model/C06.lean`
   (`Gate.params / freeSymbols / mkPow / mkExp / power / expG / dagger / controlled / replaceParams / bind`, the objects the
   theorems of Props/C06.lean speak about), for ALL gates and all arguments; an edit of a method body, of a `__post_init__` guard
   or of the field list changes the generated definitions and these equalities stop checking at build time.

   Reading guide.  `emb` embeds the model's gate tree into the generated `Gate P F E` with `P := Param`, `F := Factory`, `E := Rat`.
   The externals are INSTANTIATED with the model's own `getFreeSymbols` / `subSymbols` (`ext`); what those two say about sympy is
   the subject of C06's correspondence check, not of this tie.  The model stores control counts as `Nat` and does not re-check
   the constructor guard `num_control_qubits ≥ 1` when it re-wraps; the code does.  The ties therefore hold on `CtlPos` –
   "every control count in the tree is ≥ 1", which is every gate object that can exist (`emb_surjective_on_valid`) – and
   `*_ctlPos` show that every method keeps it.  `toRes` only renames the exception classes (`ValueError ↦ .value`,
   `NotImplementedError ↦ .notimpl`); it is injective (`toRes_injective`), so `toRes r = (model result).map emb` determines `r`.
   Not translated: `matrix`, `name`, `__str__`, `__eq__`, `__call__`. -/
import OQ.Lemmas.C06_TranslatedGates
import OQ.Props.C06
namespace OQ.C06
open OQ.Generated
namespace TG

/-! ### preservation of `CtlPos`: every method of the model returns gates whose control counts are ≥ 1 -/

/-- `Power(g, e)` keeps `CtlPos` -/
theorem mkPow_ctlPos {g g' : Gate} {e : Rat} (h : CtlPos g) (hp : mkPow g e = .ok g') : CtlPos g' := by
  unfold mkPow at hp
  split at hp
  · cases hp; exact h
  · cases hp

/-- `Exponential(g)` keeps `CtlPos` -/
theorem mkExp_ctlPos {g g' : Gate} (h : CtlPos g) (hp : mkExp g = .ok g') : CtlPos g' := by
  unfold mkExp at hp
  split at hp
  · cases hp; exact h
  · cases hp

/-- `.power(e)` keeps `CtlPos` -/
theorem power_ctlPos {g g' : Gate} {e : Rat} (h : CtlPos g) (hp : g.power e = .ok g') : CtlPos g' := by
  induction g generalizing g' with
  | ctrl w k ih =>
    simp only [Gate.power] at hp
    obtain ⟨w', hw, rfl⟩ := Res.map_eq_ok hp
    exact ⟨h.1, ih h.2 hw⟩
  | mf nm fac ps nq herm => exact mkPow_ctlPos h (by simpa [Gate.power] using hp)
  | dag w => exact mkPow_ctlPos h (by simpa [Gate.power] using hp)
  | exp w => exact mkPow_ctlPos h (by simpa [Gate.power] using hp)
  | pow w e' => exact mkPow_ctlPos h (by simpa [Gate.power] using hp)

/-- `.dagger` keeps `CtlPos` -/
theorem dagger_ctlPos {g g' : Gate} (h : CtlPos g) (hp : g.dagger = .ok g') : CtlPos g' := by
  induction g generalizing g' with
  | mf nm fac ps nq herm =>
    simp only [Gate.dagger, Res.ok.injEq] at hp
    subst hp
    cases herm <;> simp [CtlPos]
  | ctrl w k ih =>
    simp only [Gate.dagger] at hp
    obtain ⟨w', hw, rfl⟩ := Res.map_eq_ok hp
    exact ⟨h.1, ih h.2 hw⟩
  | dag w ih =>
    simp only [Gate.dagger, Res.ok.injEq] at hp
    subst hp; exact h
  | exp w ih =>
    simp only [Gate.dagger] at hp
    obtain ⟨w', hw, hw'⟩ := Res.bind_eq_ok hp
    exact mkExp_ctlPos (ih h hw) hw'
  | pow w e ih =>
    simp only [Gate.dagger] at hp
    obtain ⟨w', hw, hw'⟩ := Res.bind_eq_ok hp
    exact power_ctlPos (ih h hw) hw'

/-- `.controlled(n)`, `n ≥ 1`, keeps `CtlPos` (counts add) -/
theorem controlled_ctlPos {g g' : Gate} {n : Nat} (hn : 1 ≤ n) (h : CtlPos g) (hp : g.controlled n = .ok g') : CtlPos g' := by
  induction g generalizing g' with
  | mf nm fac ps nq herm =>
    simp only [Gate.controlled, Res.ok.injEq] at hp
    subst hp; exact ⟨hn, trivial⟩
  | ctrl w k ih =>
    simp only [Gate.controlled, Res.ok.injEq] at hp
    subst hp; exact ⟨by have := h.1; omega, h.2⟩
  | dag w ih =>
    simp only [Gate.controlled] at hp
    obtain ⟨w', hw, hw'⟩ := Res.bind_eq_ok hp
    exact dagger_ctlPos (ih h hw) hw'
  | exp w ih =>
    simp only [Gate.controlled, Res.ok.injEq] at hp
    subst hp; exact ⟨hn, h⟩
  | pow w e ih =>
    simp only [Gate.controlled] at hp
    obtain ⟨w', hw, hw'⟩ := Res.bind_eq_ok hp
    exact power_ctlPos (ih h hw) hw'

/-- `.replace_params(ps)` keeps `CtlPos` -/
theorem replaceParams_ctlPos {g g' : Gate} {ps : List Param} (h : CtlPos g) (hp : g.replaceParams ps = .ok g') : CtlPos g' := by
  induction g generalizing g' with
  | mf nm fac ps0 nq herm =>
    simp only [Gate.replaceParams, Res.ok.injEq] at hp
    subst hp; trivial
  | ctrl w k ih =>
    simp only [Gate.replaceParams] at hp
    obtain ⟨w', hw, hw'⟩ := Res.bind_eq_ok hp
    exact controlled_ctlPos h.1 (ih h.2 hw) hw'
  | dag w ih =>
    simp only [Gate.replaceParams] at hp
    obtain ⟨w', hw, hw'⟩ := Res.bind_eq_ok hp
    exact dagger_ctlPos (ih h hw) hw'
  | exp w ih =>
    simp only [Gate.replaceParams] at hp
    obtain ⟨w', hw, hw'⟩ := Res.bind_eq_ok hp
    exact mkExp_ctlPos (ih h hw) hw'
  | pow w e ih =>
    simp only [Gate.replaceParams] at hp
    obtain ⟨w', hw, hw'⟩ := Res.bind_eq_ok hp
    exact power_ctlPos (ih h hw) hw'

/-- `.bind(m)` keeps `CtlPos` -/
theorem bind_ctlPos {g g' : Gate} {m : SymMap} (h : CtlPos g) (hp : g.bind m = .ok g') : CtlPos g' := by
  induction g generalizing g' with
  | mf nm fac ps0 nq herm =>
    simp only [Gate.bind] at hp
    exact replaceParams_ctlPos h hp
  | ctrl w k ih =>
    simp only [Gate.bind] at hp
    obtain ⟨w', hw, hw'⟩ := Res.bind_eq_ok hp
    exact controlled_ctlPos h.1 (ih h.2 hw) hw'
  | dag w ih =>
    simp only [Gate.bind] at hp
    obtain ⟨w', hw, hw'⟩ := Res.bind_eq_ok hp
    exact dagger_ctlPos (ih h hw) hw'
  | exp w ih => simp [Gate.bind] at hp
  | pow w e ih => simp [Gate.bind] at hp

/-! ### the ties -/

/-- TRANSLATION TIE: the property `.params` of all five classes, regenerated from the source, is the model's `Gate.params`;
    every gate. -/
theorem translated_params_eq (g : Gate) : TranslatedGates.Gate.params (emb g) = g.params := by
  induction g with
  | mf nm fac ps nq herm => rfl
  | ctrl g k ih => simpa [emb, TranslatedGates.Gate.params, Gate.params] using ih
  | dag g ih => simpa [emb, TranslatedGates.Gate.params, Gate.params] using ih
  | exp g ih => simpa [emb, TranslatedGates.Gate.params, Gate.params] using ih
  | pow g e ih => simpa [emb, TranslatedGates.Gate.params, Gate.params] using ih

/-- TRANSLATION TIE: `.free_symbols` (`get_free_symbols(self.params)`: own property of `MatrixFactoryGate` and `Power`, inherited
    from the protocol `Gate` by the other three) is the model's `Gate.freeSymbols`; every gate. -/
theorem translated_free_symbols_eq (g : Gate) : TranslatedGates.Gate.free_symbols ext (emb g) = g.freeSymbols := by
  have aux : ∀ t : TGate, TranslatedGates.Gate.free_symbols ext t = getFreeSymbols (TranslatedGates.Gate.params t) := by
    intro t; cases t <;> rfl
  rw [aux, translated_params_eq]; rfl

/-- TRANSLATION TIE: the constructor call `Power(g, e)` with `__post_init__` (`ValueError` when `len(g.free_symbols) > 0`) is the
    model's `mkPow`; every gate, every exponent. -/
theorem translated_mk_Power_eq (g : Gate) (e : Rat) :
    toRes (TranslatedGates.mk_Power ext (emb g) e) = (mkPow g e).map emb := by
  unfold TranslatedGates.mk_Power mkPow
  rw [translated_free_symbols_eq]
  generalize g.freeSymbols = l
  cases l <;> simp [errOf, emb]

/-- TRANSLATION TIE: the constructor call `Exponential(g)` with `__post_init__` is the model's `mkExp`; every gate. -/
theorem translated_mk_Exponential_eq (g : Gate) :
    toRes (TranslatedGates.mk_Exponential ext (emb g)) = (mkExp g).map emb := by
  unfold TranslatedGates.mk_Exponential mkExp
  rw [translated_free_symbols_eq]
  generalize g.freeSymbols = l
  cases l <;> simp [errOf, emb]

/-- TRANSLATION TIE: `.power(exponent)` of all five classes (including the `ValueError` on free symbols, raised from below the
    controls of a `ControlledGate`) is the model's `Gate.power`; every gate with `CtlPos`, every exponent. -/
theorem translated_power_eq (g : Gate) (h : CtlPos g) (e : Rat) :
    toRes (TranslatedGates.Gate.power ext (emb g) e) = (g.power e).map emb := by
  induction g with
  | ctrl w k ih =>
    simp only [emb, TranslatedGates.Gate.power, Gate.power, toRes_bind, ih h.2]
    cases w.power e <;> simp [mk_ControlledGate_pos _ k h.1, emb]
  | mf nm fac ps nq herm => simpa [emb, TranslatedGates.Gate.power, Gate.power] using translated_mk_Power_eq (.mf nm fac ps nq herm) e
  | dag w => simpa [emb, TranslatedGates.Gate.power, Gate.power] using translated_mk_Power_eq (.dag w) e
  | exp w => simpa [emb, TranslatedGates.Gate.power, Gate.power] using translated_mk_Power_eq (.exp w) e
  | pow w e' => simpa [emb, TranslatedGates.Gate.power, Gate.power] using translated_mk_Power_eq (.pow w e') e

/-- TRANSLATION TIE: `.exp` (`Exponential(self)` on every class, `ValueError` on free symbols) is the model's `Gate.expG`;
    every gate. -/
theorem translated_exp_eq (g : Gate) :
    toRes (TranslatedGates.Gate.exp ext (emb g)) = g.expG.map emb := by
  have h := translated_mk_Exponential_eq g
  cases g <;> simpa [emb, TranslatedGates.Gate.exp, Gate.expG] using h

/-- TRANSLATION TIE: `.dagger` of all five classes (`self if self.is_hermitian else Dagger(self)`, re-wrapping through the
    constructors / `.exp` / `.power(exponent)`, errors propagated) is the model's `Gate.dagger`; every gate with `CtlPos`. -/
theorem translated_dagger_eq (g : Gate) (h : CtlPos g) :
    toRes (TranslatedGates.Gate.dagger ext (emb g)) = g.dagger.map emb := by
  induction g with
  | mf nm fac ps nq herm =>
    cases herm <;> simp [emb, TranslatedGates.Gate.dagger, Gate.dagger, TranslatedGates.mk_Dagger]
  | ctrl w k ih =>
    simp only [emb, TranslatedGates.Gate.dagger, Gate.dagger, toRes_bind, ih h.2]
    cases w.dagger <;> simp [mk_ControlledGate_pos _ k h.1, emb]
  | dag w ih => simp [emb, TranslatedGates.Gate.dagger, Gate.dagger]
  | exp w ih =>
    simp only [emb, TranslatedGates.Gate.dagger, Gate.dagger, toRes_bind, ih h]
    cases hw : w.dagger with
    | err e => simp
    | ok w' => simp [translated_exp_eq]
  | pow w e ih =>
    simp only [emb, TranslatedGates.Gate.dagger, Gate.dagger, toRes_bind, ih h]
    cases hw : w.dagger with
    | err e => simp
    | ok w' => simp [translated_power_eq w' (dagger_ctlPos (g := w) h hw)]

/-- TRANSLATION TIE: `.controlled(n)` of all five classes is the model's `Gate.controlled`, for every gate with `CtlPos` and every
    valid count `n ≥ 1` (the model has no `ValueError` for `n < 1`: `bind` / `replace_params` only pass counts of existing gates;
    the rejected counts are tied to C07's model, `OQ.C07.TG.translated_controlled_eq`). -/
theorem translated_controlled_eq (g : Gate) (h : CtlPos g) (n : Nat) (hn : 1 ≤ n) :
    toRes (TranslatedGates.Gate.controlled ext (emb g) (n : Int)) = (g.controlled n).map emb := by
  induction g with
  | mf nm fac ps nq herm =>
    simp [emb, TranslatedGates.Gate.controlled, Gate.controlled, mk_ControlledGate_pos _ n hn]
  | ctrl w k ih =>
    have h1 := h.1
    simp only [emb, TranslatedGates.Gate.controlled, Gate.controlled]
    -- the sum of the counts, in whichever order the source writes it
    rw [mk_ControlledGate_ok _ _ (by omega)]
    simp only [toRes_ok, Res.map_ok, emb, Res.ok.injEq, TranslatedGates.Gate.ControlledGate.injEq, true_and]
    omega
  | dag w ih =>
    simp only [emb, TranslatedGates.Gate.controlled, Gate.controlled, toRes_bind, ih h]
    cases hw : w.controlled n with
    | err e => simp
    | ok w' => simp [translated_dagger_eq w' (controlled_ctlPos (g := w) hn h hw)]
  | exp w ih =>
    simp [emb, TranslatedGates.Gate.controlled, Gate.controlled, mk_ControlledGate_pos _ n hn]
  | pow w e ih =>
    simp only [emb, TranslatedGates.Gate.controlled, Gate.controlled, toRes_bind, ih h]
    cases hw : w.controlled n with
    | err e => simp
    | ok w' => simp [translated_power_eq w' (controlled_ctlPos (g := w) hn h hw)]

/-- TRANSLATION TIE: `.replace_params(new_params)` of all five classes is the model's `Gate.replaceParams`; every gate with
    `CtlPos`, every tuple (errors included: re-wrapping a `Power` / `Exponential` over new symbolic parameters raises). -/
theorem translated_replace_params_eq (g : Gate) (h : CtlPos g) (ps : List Param) :
    toRes (TranslatedGates.Gate.replace_params ext (emb g) ps) = (g.replaceParams ps).map emb := by
  induction g with
  | mf nm fac ps0 nq herm => rfl
  | ctrl w k ih =>
    simp only [emb, TranslatedGates.Gate.replace_params, Gate.replaceParams, toRes_bind, ih h.2]
    cases hw : w.replaceParams ps with
    | err e => simp
    | ok w' => simp [translated_controlled_eq w' (replaceParams_ctlPos h.2 hw) k h.1]
  | dag w ih =>
    simp only [emb, TranslatedGates.Gate.replace_params, Gate.replaceParams, toRes_bind, ih h]
    cases hw : w.replaceParams ps with
    | err e => simp
    | ok w' => simp [translated_dagger_eq w' (replaceParams_ctlPos (g := w) h hw)]
  | exp w ih =>
    simp only [emb, TranslatedGates.Gate.replace_params, Gate.replaceParams, toRes_bind, ih h]
    cases hw : w.replaceParams ps with
    | err e => simp
    | ok w' => simp [translated_exp_eq]
  | pow w e ih =>
    simp only [emb, TranslatedGates.Gate.replace_params, Gate.replaceParams, toRes_bind, ih h]
    cases hw : w.replaceParams ps with
    | err e => simp
    | ok w' => simp [translated_power_eq w' (replaceParams_ctlPos (g := w) h hw)]

/-- TRANSLATION TIE: `.bind(symbols_map)` of all five classes (`replace_params(tuple(sub_symbols(p, map) for p in params))` on the
    factory gate, bind-and-re-wrap on `ControlledGate` / `Dagger`, `NotImplementedError` on `Power` / `Exponential`) is the model's
    `Gate.bind`; every gate with `CtlPos`, every map. -/
theorem translated_bind_eq (g : Gate) (h : CtlPos g) (m : SymMap) :
    toRes (TranslatedGates.Gate.bind ext (emb g) m) = (g.bind m).map emb := by
  induction g with
  | mf nm fac ps0 nq herm =>
    simp only [emb, TranslatedGates.Gate.bind, Gate.bind]
    exact translated_replace_params_eq (.mf nm fac ps0 nq herm) trivial _
  | ctrl w k ih =>
    simp only [emb, TranslatedGates.Gate.bind, Gate.bind, toRes_bind, ih h.2]
    cases hw : w.bind m with
    | err e => simp
    | ok w' => simp [translated_controlled_eq w' (bind_ctlPos h.2 hw) k h.1]
  | dag w ih =>
    simp only [emb, TranslatedGates.Gate.bind, Gate.bind, toRes_bind, ih h]
    cases hw : w.bind m with
    | err e => simp
    | ok w' => simp [translated_dagger_eq w' (bind_ctlPos (g := w) h hw)]
  | exp w ih => simp [emb, TranslatedGates.Gate.bind, Gate.bind, errOf]
  | pow w e ih => simp [emb, TranslatedGates.Gate.bind, Gate.bind, errOf]

/-- `toRes` loses nothing: the equations above determine the result of the translated method -/
theorem toRes_injective {α} {r1 r2 : Except TranslatedGates.Err α} (h : toRes r1 = toRes r2) : r1 = r2 := by
  cases r1 with
  | ok a => cases r2 with
    | ok b => simpa [toRes] using h
    | error e => simp [toRes] at h
  | error e => cases r2 with
    | ok b => simp [toRes] at h
    | error e' => cases e <;> cases e' <;> simp_all [toRes, errOf]

/-- what the constructor guards leave of the generated classes: control counts ≥ 1 (and a natural number of qubits) -/
def TValid : TGate → Prop
  | .MatrixFactoryGate _ _ _ nq _ => 0 ≤ nq
  | .ControlledGate t k => 1 ≤ k ∧ TValid t
  | .Dagger t => TValid t
  | .Exponential t => TValid t
  | .Power t _ => TValid t

/-- the embedding reaches every object of the generated classes with valid control counts, from a model gate satisfying `CtlPos`:
    the ties are statements about ALL such objects (the free-symbol guards of `Power` / `Exponential` are not part of `TValid`:
    the ties also cover trees those guards would refuse) -/
theorem emb_surjective_on_valid (t : TGate) (h : TValid t) : ∃ g : Gate, emb g = t ∧ CtlPos g := by
  induction t with
  | MatrixFactoryGate nm f ps nq herm =>
    refine ⟨.mf nm f ps nq.toNat herm, ?_, trivial⟩
    have : ((nq.toNat : Nat) : Int) = nq := Int.toNat_of_nonneg h
    simp [emb, this]
  | ControlledGate t k ih =>
    obtain ⟨g, hg, hp⟩ := ih h.2
    have h1 := h.1
    refine ⟨.ctrl g k.toNat, ?_, ⟨by omega, hp⟩⟩
    have : ((k.toNat : Nat) : Int) = k := Int.toNat_of_nonneg (by omega)
    simp [emb, hg, this]
  | Dagger t ih => obtain ⟨g, hg, hp⟩ := ih h; exact ⟨.dag g, by simp [emb, hg], hp⟩
  | Exponential t ih => obtain ⟨g, hg, hp⟩ := ih h; exact ⟨.exp g, by simp [emb, hg], hp⟩
  | Power t e ih => obtain ⟨g, hg, hp⟩ := ih h; exact ⟨.pow g e, by simp [emb, hg], hp⟩

/-! ### end to end: headline theorems of Props/C06.lean restated ON THE TRANSLATED RULES -/

/-- END-TO-END ON THE CODE AS IT IS NOW (S7, `bind_power_notimpl` / `bind_exp_notimpl`): the TRANSLATED `bind` of a `Power` and of an
    `Exponential` raises `NotImplementedError` – for every wrapped object, every exponent, every map and every behaviour of the
    externals (no tie needed: this is the generated definition itself). -/
theorem translated_bind_power_exp_notimpl {P F E S M : Type} (x : TranslatedGates.Ext P S M) (t : TranslatedGates.Gate P F E)
    (e : E) (m : M) :
    TranslatedGates.Gate.bind x (.Power t e) m = .error .NotImplementedError ∧
    TranslatedGates.Gate.bind x (.Exponential t) m = .error .NotImplementedError :=
  ⟨rfl, rfl⟩

/-- END-TO-END (S7 for every chain, `bind_refuses_iff` through the tie): the TRANSLATED `bind` returns a gate exactly when no
    power / exponential wrapper occurs anywhere in the chain, and raises `NotImplementedError` – never another exception – otherwise. -/
theorem translated_bind_refuses_iff (m : SymMap) (g : Gate) (h : CtlPos g) :
    (g.isCD = true → ∃ g', TranslatedGates.Gate.bind ext (emb g) m = .ok (emb g') ∧ g'.isCD = true) ∧
    (g.isCD = false → TranslatedGates.Gate.bind ext (emb g) m = .error .NotImplementedError) := by
  have tie := translated_bind_eq g h m
  constructor
  · intro hc
    obtain ⟨g', hb, hc'⟩ := (bind_refuses_iff m g).1 hc
    refine ⟨g', ?_, hc'⟩
    rw [hb] at tie
    exact toRes_injective (by rw [tie]; rfl)
  · intro hc
    have hb := (bind_refuses_iff m g).2 hc
    rw [hb] at tie
    exact toRes_injective (by rw [tie]; rfl)

/-- END-TO-END (mechanism, `bind_eq_replace_params` through the ties): whenever the TRANSLATED `bind` returns, the result is the
    TRANSLATED `replace_params` applied to the tuple of substituted parameters, and the TRANSLATED `params` of the result is exactly
    that tuple, position by position. -/
theorem translated_bind_eq_replace_params (m : SymMap) (g : Gate) (h : CtlPos g) (t : TGate)
    (hb : TranslatedGates.Gate.bind ext (emb g) m = .ok t) :
    TranslatedGates.Gate.replace_params ext (emb g)
        ((TranslatedGates.Gate.params (emb g)).map (fun p => ext.sub_symbols p m)) = .ok t ∧
      TranslatedGates.Gate.params t = (TranslatedGates.Gate.params (emb g)).map (fun p => ext.sub_symbols p m) := by
  have tie := translated_bind_eq g h m
  rw [hb] at tie
  cases hm : g.bind m with
  | err e => rw [hm] at tie; simp [toRes] at tie
  | ok g' =>
    rw [hm] at tie
    simp only [toRes_ok, Res.map_ok, Res.ok.injEq] at tie
    subst tie
    obtain ⟨h1, h2⟩ := bind_eq_replace_params m g g' hm
    rw [translated_params_eq, translated_params_eq]
    refine ⟨?_, h2⟩
    apply toRes_injective
    rw [translated_replace_params_eq g h]
    show _ = toRes (.ok (emb g'))
    simp only [ext]
    rw [h1]; rfl

/-- END-TO-END (S7 "why nothing is lost", `power_exp_no_free` through the ties): a `Power` / `Exponential` object the TRANSLATED
    constructors accept has no free symbols by the TRANSLATED `free_symbols`. -/
theorem translated_power_exp_no_free (g : Gate) (e : Rat) (t : TGate) :
    (TranslatedGates.mk_Power ext (emb g) e = .ok t → TranslatedGates.Gate.free_symbols ext t = []) ∧
    (TranslatedGates.mk_Exponential ext (emb g) = .ok t → TranslatedGates.Gate.free_symbols ext t = []) := by
  constructor
  · intro hk
    have tie := translated_mk_Power_eq g e
    rw [hk] at tie
    cases hm : mkPow g e with
    | err e' => rw [hm] at tie; simp [toRes] at tie
    | ok g' =>
      rw [hm] at tie
      simp only [toRes_ok, Res.map_ok, Res.ok.injEq] at tie
      rw [tie, translated_free_symbols_eq]
      exact (power_exp_no_free g g' e).1 hm
  · intro hk
    have tie := translated_mk_Exponential_eq g
    rw [hk] at tie
    cases hm : mkExp g with
    | err e' => rw [hm] at tie; simp [toRes] at tie
    | ok g' =>
      rw [hm] at tie
      simp only [toRes_ok, Res.map_ok, Res.ok.injEq] at tie
      rw [tie, translated_free_symbols_eq]
      exact (power_exp_no_free g g' e).2 hm

/-- END-TO-END (S4, `bind_extra_gate` through the tie): two maps that agree on the TRANSLATED `free_symbols` of a gate give the
    same result of the TRANSLATED `bind` (gate or exception alike). -/
theorem translated_bind_extra (m m' : SymMap) (g : Gate) (h : CtlPos g)
    (hs : ∀ s ∈ TranslatedGates.Gate.free_symbols ext (emb g), lookup m s = lookup m' s) :
    TranslatedGates.Gate.bind ext (emb g) m = TranslatedGates.Gate.bind ext (emb g) m' := by
  rw [translated_free_symbols_eq] at hs
  apply toRes_injective
  rw [translated_bind_eq g h, translated_bind_eq g h, bind_extra_gate m m' g hs]

/-! ### non-vacuity: the TRANSLATED definitions on concrete objects -/
section Examples

def sx : Param := .expr (.sym "x")
/-- `RX(x)` (symbolic), `RX(3)` (numeric), hermitian `X` -/
def rxs : TGate := .MatrixFactoryGate "RX" (.builtin "RX") [sx] 1 false
def rx3 : TGate := .MatrixFactoryGate "RX" (.builtin "RX") [.number 3] 1 false
def xg : TGate := .MatrixFactoryGate "X" (.builtin "X") [] 1 true
abbrev XRes := Except TranslatedGates.Err TGate

example : TranslatedGates.Gate.free_symbols ext (.ControlledGate (.Dagger rxs) 2) = ["x"] := by decide
example : TranslatedGates.Gate.bind ext (.ControlledGate (.Dagger rxs) 2) [("x", .number 3)] =
    (.ok (.ControlledGate (.Dagger rx3) 2) : XRes) := by decide
example : TranslatedGates.Gate.bind ext (.Dagger (.ControlledGate rxs 2)) [("x", .number 3)] =
    (.ok (.ControlledGate (.Dagger rx3) 2) : XRes) := by decide
example : TranslatedGates.Gate.power ext rxs 2 = (.error .ValueError : XRes) := by decide
example : TranslatedGates.Gate.power ext (.ControlledGate rxs 1) 2 = (.error .ValueError : XRes) := by decide
example : TranslatedGates.Gate.power ext (.ControlledGate rx3 1) 2 = (.ok (.ControlledGate (.Power rx3 2) 1) : XRes) := by decide
example : TranslatedGates.Gate.bind ext (.Power rx3 2) [] = (.error .NotImplementedError : XRes) := by decide
example : TranslatedGates.Gate.replace_params ext (.Power rx3 2) [sx] = (.error .ValueError : XRes) := by decide
example : TranslatedGates.Gate.dagger ext xg = (.ok xg : XRes) := by decide
example : TranslatedGates.Gate.controlled ext xg 0 = (.error .ValueError : XRes) := by decide
example : CtlPos (.ctrl (.dag (.mf "RX" (.builtin "RX") [sx] 1 false)) 2) := by simp [CtlPos]
example : emb (.ctrl (.dag (.mf "RX" (.builtin "RX") [sx] 1 false)) 2) = .ControlledGate (.Dagger rxs) 2 := rfl
end Examples

end TG
end OQ.C06
