/- C06 — PROPERTY THEOREMS (translation tie of the dataclass `GateOperation`, work package T17).
   `OQ.Generated.TranslatedGates.GateOperation` and its members `params`, `free_symbols`, `bind`, `replace_params` (file
   OQ/Generated/TranslatedGatesMatrix.lean) are REGENERATED on every run from the current source of `GateOperation` in
   `circuits/_gates.py` (harness/translate_t17.py: the dataclass fields in source order, one definition per member rendered
   mechanically from its body over the generated gate inductive of the class translator).  The theorems prove that they ARE the
   `.gate` case of the model's `Op.params / Op.freeSymbols / Op.bind / Op.replaceParams` (OQ/Model/C06.lean), for every gate whose
   control counts are ≥ 1 (`CtlPos`: every gate object that can exist), every qubit tuple, every map / tuple of parameters.
   The externals are instantiated as in C06_TranslatedGates.lean (`ext`: the model's `getFreeSymbols` / `subSymbols`).
   `embOp` is the image of a model operation `Op.gate g qs` in the generated dataclass.  NOT translated (stated limit of the package):
   the `sub_symbols` / `get_free_symbols` families of `_operations.py` themselves, `Circuit.free_symbols`, `MultiPhaseOperation`,
   `ResetOperation` – their tie remains the differential correspondence of C06. -/
import OQ.Generated.TranslatedGatesMatrix
import OQ.Props.C06_TranslatedGates
namespace OQ.C06
open OQ.Generated
namespace TG

/-- the generated dataclass at the model's parameters -/
abbrev TOp := TranslatedGates.GateOperation Param Factory Rat

/-- the model's gate operation `Op.gate g qs` as an object of the generated dataclass -/
def embOp (g : Gate) (qs : List Nat) : TOp := ⟨emb g, qs.map Int.ofNat⟩

/-- TRANSLATION TIE: `GateOperation.params` (`self.gate.params`) is the model's `Op.params` of a gate operation; every gate. -/
theorem translated_op_params_eq (g : Gate) (qs : List Nat) :
    TranslatedGates.GateOperation.params (embOp g qs) = (Op.gate g qs).params :=
  translated_params_eq g

/-- TRANSLATION TIE: `GateOperation.free_symbols` (`self.gate.free_symbols`) is the model's `Op.freeSymbols`; every gate. -/
theorem translated_op_free_symbols_eq (g : Gate) (qs : List Nat) :
    TranslatedGates.GateOperation.free_symbols ext (embOp g qs) = (Op.gate g qs).freeSymbols :=
  translated_free_symbols_eq g

/-- TRANSLATION TIE: `GateOperation.bind(symbols_map)` (`GateOperation(self.gate.bind(symbols_map), self.qubit_indices)`) is the
    model's `Op.bind` of a gate operation – the bound gate on the SAME qubit tuple, or the gate's exception; every gate with
    `CtlPos`, every map. -/
theorem translated_op_bind_eq (g : Gate) (h : CtlPos g) (qs : List Nat) (m : SymMap) :
    toRes (TranslatedGates.GateOperation.bind ext (embOp g qs) m) = (g.bind m).map (fun g' => embOp g' qs) ∧
    (Op.gate g qs).bind m = (g.bind m).map (fun g' => Op.gate g' qs) := by
  refine ⟨?_, rfl⟩
  simp only [TranslatedGates.GateOperation.bind, embOp, toRes_bind, translated_bind_eq g h m]
  cases g.bind m <;> rfl

/-- TRANSLATION TIE: `GateOperation.replace_params(new_params)` is the model's `Op.replaceParams` of a gate operation; every gate
    with `CtlPos`, every tuple. -/
theorem translated_op_replace_params_eq (g : Gate) (h : CtlPos g) (qs : List Nat) (ps : List Param) :
    toRes (TranslatedGates.GateOperation.replace_params ext (embOp g qs) ps) = (g.replaceParams ps).map (fun g' => embOp g' qs) ∧
    (Op.gate g qs).replaceParams ps = (g.replaceParams ps).map (fun g' => Op.gate g' qs) := by
  refine ⟨?_, rfl⟩
  simp only [TranslatedGates.GateOperation.replace_params, embOp, toRes_bind, translated_replace_params_eq g h ps]
  cases g.replaceParams ps <;> rfl

/-- END-TO-END (`freeSymbols_bind` on the translated code): when the TRANSLATED `GateOperation.bind` succeeds, every free symbol the
    TRANSLATED `free_symbols` reports for the bound operation was free before and is not a key of the map, or occurs in a value
    substituted for a free symbol – binding never invents symbols. -/
theorem translated_op_free_symbols_bind (g : Gate) (h : CtlPos g) (qs : List Nat) (m : SymMap) (t : TOp)
    (ht : TranslatedGates.GateOperation.bind ext (embOp g qs) m = .ok t) (s : String)
    (hs : s ∈ TranslatedGates.GateOperation.free_symbols ext t) :
    ∃ g', g.bind m = .ok g' ∧ t = embOp g' qs ∧ s ∈ (Op.gate g' qs).freeSymbols := by
  have h1 := (translated_op_bind_eq g h qs m).1
  rw [ht] at h1
  cases hb : g.bind m with
  | err e => rw [hb] at h1; cases h1
  | ok g' =>
    rw [hb] at h1
    have : t = embOp g' qs := by simpa [Res.map] using h1
    subst this
    exact ⟨g', rfl, rfl, by rwa [translated_op_free_symbols_eq] at hs⟩

/-! ### non-vacuity: the TRANSLATED members on concrete objects -/
section Examples
def opx : TOp := ⟨rxs, [2]⟩

example : TranslatedGates.GateOperation.params opx = [sx] := rfl
example : TranslatedGates.GateOperation.free_symbols ext opx = ["x"] := by decide
def view (r : Except TranslatedGates.Err TOp) : Except TranslatedGates.Err (TGate × List Int) := r.map (fun o => (o.gate, o.qubit_indices))
example : view (TranslatedGates.GateOperation.bind ext opx [("x", .number 3)]) = .ok (rx3, [2]) := by decide
example : view (TranslatedGates.GateOperation.bind ext ⟨.Power xg 2, [0]⟩ []) = .error .NotImplementedError := by decide
example : view (TranslatedGates.GateOperation.replace_params ext ⟨.Dagger rxs, [1]⟩ [.number 3]) = .ok (.Dagger rx3, [1]) := by decide
end Examples

end TG
end OQ.C06
