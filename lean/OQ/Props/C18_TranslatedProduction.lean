/- C18 — PROPERTY THEOREMS (translation tie, work package T11): `U3GateToRotation.production` of
   `decompositions/_orquestra_decompositions.py` (the predicate and the rule chaining are tied in `C18_TranslatedDecompose.lean`).

   `OQ.Generated.Translated.u3_production` is REGENERATED from /repo's current Python source on every run (harness/translate_t11.py →
   OQ/Generated/TranslatedC18.lean).  Operations (ω), gates (κ) and gate parameters (π) are OPAQUE; `attr_params`
   (`operation.params`), `ext_RZ` / `ext_RY` (the gate factories), `isinstance_ControlledGate`, `attr_gate`,
   `attr_num_control_qubits`, `attr_qubit_indices`, `call_gate_star` (`gate(*qubits)`) are parameters, and `meth_controlled`
   (`gate.controlled(k)`) is a RAISING external (`Option`; `ControlledGate.__post_init__` raises for `k < 1`).
   `theta, phi, lambda_ = operation.params` is rendered as a match on a three-element list (anything else: ValueError → `none`); the
   closure `preprocess_gate` as a local function that may raise; the comprehension as `OQ.Py.mapOpt` (first exception aborts);
   `reversed(…)` as `List.reverse`.  `none` = the Python call raises. -/
import OQ.Generated.TranslatedC18
import OQ.Lemmas.C18_TranslatedProduction
import OQ.Props.C18
namespace OQ.C18
open OQ.Generated

/-- TRANSLATION TIE (`_orquestra_decompositions.py:U3GateToRotation.production`): the method regenerated from the current Python
    source is the model's `u3Production` (`none` = raises), for EVERY operation: gate operations with any gate (plain, controlled with
    any control count incl. the rejected `0`, daggered), any number of parameters, and non-gate operations (which have no parameters
    to unpack). -/
theorem translated_u3_production_eq {α R : Type} (self : Unit) (o : Operation α R) :
    Translated.u3_production opParams (rzGate : α → Gate α R) ryGate Gate.isControlled opGate gateControls
        (fun g k => g.mfControlled k.toNat) opQubits (fun g qs => Operation.gate g (qs.map Int.toNat)) self o
      = u3Production o := by
  cases o with
  | other t qs => rfl
  | gate g qs =>
    unfold Translated.u3_production u3Production
    simp only [opParams, opGate, opQubits, Operation.qs, map_toNat_ofNat]
    rcases hp : g.params with _ | ⟨a, _ | ⟨b, _ | ⟨c, _ | ⟨d, r⟩⟩⟩⟩
    · rfl
    · rfl
    · rfl
    · cases g with
      | mf n ps m => simp [OQ.Py.mapOpt, Gate.isControlled]
      | dagger w => simp [OQ.Py.mapOpt, Gate.isControlled]
      | controlled w k =>
        simp only [OQ.Py.mapOpt, Gate.isControlled, gateControls, Int.toNat_natCast, if_true, Gate.mfControlled]
        by_cases hk : k < 1 <;> simp [hk]
    · rfl

/-! ## structure of the production, proved ABOUT THE TRANSLATED CODE for arbitrary externals -/
section Structure
variable {σ ω κ π : Type} (params : ω → List π) (rz ry : π → κ) (isCtl : κ → Bool) (gate : ω → κ) (nctl : κ → Int)
  (ctl : κ → Int → Option κ) (qubits : ω → List Int) (app : κ → List Int → ω) (self : σ)

/-- plain gate: `RZ(λ), RY(θ), RZ(φ)` in THIS (circuit) order – the list `[RZ(φ), RY(θ), RZ(λ)]` reversed – on the operation's
    qubits; whatever the factories, the gate application and the objects are -/
theorem translated_u3_order_plain (op : ω) (th ph la : π) (hp : params op = [th, ph, la]) (hc : isCtl (gate op) = false) :
    Translated.u3_production params rz ry isCtl gate nctl ctl qubits app self op
      = some [app (rz la) (qubits op), app (ry th) (qubits op), app (rz ph) (qubits op)] := by
  unfold Translated.u3_production
  simp [hp, hc, OQ.Py.mapOpt]

/-- controlled gate: every rotation gets `gate.controlled(num_control_qubits)` first (in the order RZ(φ), RY(θ), RZ(λ); the first
    failing `controlled` aborts), the result is in the same reversed order -/
theorem translated_u3_order_controlled (op : ω) (th ph la : π) (g1 g2 g3 : κ) (hp : params op = [th, ph, la])
    (hc : isCtl (gate op) = true) (h1 : ctl (rz ph) (nctl (gate op)) = some g1) (h2 : ctl (ry th) (nctl (gate op)) = some g2)
    (h3 : ctl (rz la) (nctl (gate op)) = some g3) :
    Translated.u3_production params rz ry isCtl gate nctl ctl qubits app self op
      = some [app g3 (qubits op), app g2 (qubits op), app g1 (qubits op)] := by
  unfold Translated.u3_production
  simp [hp, hc, OQ.Py.mapOpt, h1, h2, h3]

/-- any other number of parameters: the unpacking raises -/
theorem translated_u3_arity (op : ω) (hp : (params op).length ≠ 3) :
    Translated.u3_production params rz ry isCtl gate nctl ctl qubits app self op = none := by
  unfold Translated.u3_production
  rcases h : params op with _ | ⟨a, _ | ⟨b, _ | ⟨c, _ | ⟨d, r⟩⟩⟩⟩ <;> simp_all

end Structure

/-! ## end-to-end: the property's replacement sentences ON THE TRANSLATED production (through the tie) -/
section EndToEnd
variable {α R : Type}

/-- the translated production at the model's reading of the opaque objects -/
abbrev translatedU3Production (o : Operation α R) : Option (List (Operation α R)) :=
  Translated.u3_production opParams (rzGate : α → Gate α R) ryGate Gate.isControlled opGate gateControls
    (fun g k => g.mfControlled k.toNat) opQubits (fun g qs => Operation.gate g (qs.map Int.toNat)) () o

/-- `u3_replaced_plain` with the translated production as the rule's production: a plain U3(θ,φ,λ) becomes RZ(λ), RY(θ), RZ(φ) -/
theorem translated_u3_replaced_plain (th ph la : α) (m : Option (Mat R)) (qs : List Nat) :
    decomposeOperation [⟨u3Predicate, translatedU3Production⟩] (.gate (.mf "U3" [th, ph, la] m) qs) =
      some [.gate (rzGate la) qs, .gate (ryGate th) qs, .gate (rzGate ph) qs] := by
  have : (⟨u3Predicate, translatedU3Production⟩ : Rule (Operation α R)) = u3Rule := by
    unfold u3Rule; congr 1; funext o; exact translated_u3_production_eq () o
  rw [this]; exact u3_replaced_plain th ph la m qs

/-- `u3_replaced_controlled` with the translated production: `c ≥ 1` controls are re-applied to each rotation -/
theorem translated_u3_replaced_controlled (th ph la : α) (m : Option (Mat R)) (c : Nat) (hc : 1 ≤ c) (qs : List Nat) :
    decomposeOperation [⟨u3Predicate, translatedU3Production⟩] (.gate (.controlled (.mf "U3" [th, ph, la] m) c) qs) =
      some [.gate (.controlled (rzGate la) c) qs, .gate (.controlled (ryGate th) c) qs,
            .gate (.controlled (rzGate ph) c) qs] := by
  have : (⟨u3Predicate, translatedU3Production⟩ : Rule (Operation α R)) = u3Rule := by
    unfold u3Rule; congr 1; funext o; exact translated_u3_production_eq () o
  rw [this]; exact u3_replaced_controlled th ph la m c hc qs

end EndToEnd

/-! non-vacuity: gates / operations as integers and lists (`RZ(p) = 100 + p`, `RY(p) = 200 + p`, `g.controlled(k) = 1000·k + g`,
    an operation `[gate, qubit…]`; operation `[g, …]` is "controlled" iff `g ≥ 1000`, then with `g / 1000` controls) -/
example : Translated.u3_production (fun o : List Int => o.take 3) (fun p : Int => 100 + p) (fun p => 200 + p)
    (fun g => decide (g ≥ 1000)) (fun o => o.getD 3 0) (fun g => g / 1000) (fun g k => if k < 1 then none else some (1000 * k + g))
    (fun o => o.drop 4) (fun g qs => g :: qs) () [1, 2, 3, 7, 5, 6] = some [[103, 5, 6], [201, 5, 6], [102, 5, 6]] := by decide
example : Translated.u3_production (fun o : List Int => o.take 3) (fun p : Int => 100 + p) (fun p => 200 + p)
    (fun g => decide (g ≥ 1000)) (fun o => o.getD 3 0) (fun g => g / 1000) (fun g k => if k < 1 then none else some (1000 * k + g))
    (fun o => o.drop 4) (fun g qs => g :: qs) () [1, 2, 3, 2007, 5, 6] = some [[2103, 5, 6], [2201, 5, 6], [2102, 5, 6]] := by
  decide
example : Translated.u3_production (fun o : List Int => o.take 2) (fun p : Int => 100 + p) (fun p => 200 + p)
    (fun g => decide (g ≥ 1000)) (fun o => o.getD 3 0) (fun g => g / 1000) (fun g k => if k < 1 then none else some (1000 * k + g))
    (fun o => o.drop 4) (fun g qs => g :: qs) () [1, 2, 3, 7, 5, 6] = none := by decide
example : translatedU3Production (Operation.gate (Gate.controlled (Gate.mf "U3" [1, 2, 3] none : Gate Nat Nat) 0) [0, 1]) = none := by
  decide
example : translatedU3Production (Operation.other "reset" [0] : Operation Nat Nat) = none := by decide

end OQ.C18
