/- C09 — PROPERTY THEOREMS (translation ties, work package T12): the helper functions NESTED in
   `operators/_utils.get_pauliop_from_matrix` — `decode`, `trace_product`, and inside it `f` (row of the non-zero element of a Pauli
   string in column j) and `nz` (its value) — regenerated on every run from the current Python source (each nested `def` with the
   variables it closes over, `n`, `label_vec`, `operator`, as leading parameters), equal the hand-written model
   `OQ.C09.decode` / `fIdx` / `nz` / `traceProduct`, the definitions `pauli_expansion_roundtrip` is proved about.

   Scalars are opaque in the translated code: the literals `1.0`, `0.0`, `1j` and the operations `-x`, `x*y`, `x*int`, `x+y`, `x/int`
   are PARAMETERS.  The ties instantiate them in a commutative ring `R` with the constants of the model's `Scal R` record
   (`1`, `0`, `k.i`) and ring operations; `x / 2**n` is `x * halfPow k n` (the model's rendering of the division by `2**n`).
   Domain: `n ≥ 1` qubits (for the 1×1 matrix `get_pauliop_from_matrix` raises in `decode`: `pauli_expansion_fails_1x1`),
   column index `j < 2^n`, any label vector. -/
import OQ.Generated.TranslatedC09
import OQ.Lemmas.TranslatedT12
import OQ.Props.C09_Translated
import OQ.Lemmas.C09_Expand
namespace OQ.C09
open OQ OQ.Generated OQ.Py OQ.T12

private theorem getD_map_ofNat (l : List Nat) (i : Nat) : (l.map Int.ofNat).getD i 0 = ((l.getD i 0 : Nat) : Int) := by
  rw [List.getD_eq_getElem?_getD, List.getD_eq_getElem?_getD, List.getElem?_map]
  cases l[i]? <;> rfl

/-- TRANSLATION TIE: the nested `decode(bit_string)` regenerated from the current source is the model's `decode`: label `i` is
    the number read from the two bits `2i, 2i+1`; a bit string whose length is not `2n` raises.  Every `n`, every bit list. -/
theorem translated_pauli_decode_eq (n : Nat) (bits : List Nat) :
    Translated.pauli_decode (n : Int) (bits.map Int.ofNat) =
      if bits.length = 2 * n then some ((decode n bits).map Int.ofNat) else none := by
  unfold Translated.pauli_decode
  by_cases h : bits.length = 2 * n
  · have hg : ((((bits.map Int.ofNat).length : Nat) : Int) != (2 : Int) * (n : Int)) = false := by
      simp only [List.length_map, h]; push_cast; simp
    simp only [hg, h, Bool.false_eq_true, if_false, if_true]
    rw [foldl_range_int]
    have hl : (List.replicate (Int.toNat (n : Int)) (0 : Int)).length = n := by simp
    have key := foldl_pointwise_eq_map (0 : Int)
      (fun (st : List Int) (i : Nat) => st.set (Int.toNat (i : Int))
        (Translated.bin2dec (OQ.Py.slice (bits.map Int.ofNat) ((2 : Int) * (i : Int)) ((2 : Int) * (i : Int) + 2))))
      (fun i _ => Translated.bin2dec (OQ.Py.slice (bits.map Int.ofNat) ((2 : Int) * (i : Int)) ((2 : Int) * (i : Int) + 2)))
      (by intro st i; simp)
      (by intro st i k hk; simp [List.getD_eq_getElem?_getD, Ne.symm hk])
      (by intro st i hi; simp [List.getD_eq_getElem?_getD, hi])
      (List.replicate (Int.toNat (n : Int)) (0 : Int))
    rw [hl] at key
    rw [key]
    congr 1
    unfold decode
    rw [List.map_map]
    apply List.map_congr_left
    intro i hi
    have hi' := List.mem_range.1 hi
    simp only [Function.comp, OQ.Py.slice]
    have e1 : ((2 : Int) * (i : Int) + 2).toNat = 2 * i + 2 := by omega
    have e2 : ((2 : Int) * (i : Int)).toNat = 2 * i := by omega
    rw [e1, e2, ← List.map_take, ← List.map_drop, take_drop_two 0 bits (2 * i) (by omega), translated_bin2dec_eq]
    rfl
  · have hg : ((((bits.map Int.ofNat).length : Nat) : Int) != (2 : Int) * (n : Int)) = true := by
      simp only [List.length_map, bne_iff_ne, ne_eq]
      intro e; apply h; exact_mod_cast e
    simp only [hg, if_true, h, if_false]

/-- TRANSLATION TIE: the nested `f(j)` regenerated from the current source is the model's `fIdx`: the binary digits of `j`
    (`dec2bin(j, n)`, itself translated) with the bit flipped at every position whose label is X (1) or Y (2), read back with
    `bin2dec`.  Domain: `n ≥ 1`, `j < 2^n` (the columns `trace_product` loops over), any label vector. -/
theorem translated_pauli_f_eq (n : Nat) (label : List Nat) (j : Nat) (hn : 1 ≤ n) (hj : j < 2 ^ n) :
    Translated.pauli_f (n : Int) (label.map Int.ofNat) (j : Int) = some ((fIdx n label j : Nat) : Int) := by
  unfold Translated.pauli_f
  rw [translated_dec2bin_eq j n (le_of_lt hj)]
  simp only
  rw [foldl_range_int]
  have hl : ((dec2bin j n).map Int.ofNat).length = n := by rw [List.length_map, dec2bin_length j n hn hj]
  have key := foldl_pointwise_eq_map (0 : Int)
    (fun (st : List Int) (i : Nat) =>
      if ([(1 : Int), (2 : Int)].contains ((label.map Int.ofNat).getD (Int.toNat (i : Int)) 0)) = true then
        st.set (Int.toNat (i : Int)) (if (st.getD (Int.toNat (i : Int)) 0 == 0) = true then (1 : Int) else (0 : Int))
      else st)
    (fun i v => if ([(1 : Int), (2 : Int)].contains ((label.map Int.ofNat).getD i 0)) = true then
        (if (v == 0) = true then (1 : Int) else (0 : Int)) else v)
    (by intro st i; split <;> simp)
    (by intro st i k hk; split <;> simp [List.getD_eq_getElem?_getD, Ne.symm hk])
    (by intro st i hi; simp only [Int.toNat_natCast]; split <;> simp [List.getD_eq_getElem?_getD, hi])
    ((dec2bin j n).map Int.ofNat)
  rw [hl] at key
  rw [key]
  have hmap : (List.range n).map (fun i =>
        if ([(1 : Int), (2 : Int)].contains ((label.map Int.ofNat).getD i 0)) = true then
          (if (((dec2bin j n).map Int.ofNat).getD i 0 == 0) = true then (1 : Int) else (0 : Int))
        else ((dec2bin j n).map Int.ofNat).getD i 0)
      = ((List.range n).map (fun idx =>
          let b := (dec2bin j n).getD idx 0
          if label.getD idx 0 = 1 ∨ label.getD idx 0 = 2 then (if b = 0 then 1 else 0) else b)).map Int.ofNat := by
    rw [List.map_map]
    apply List.map_congr_left
    intro i _
    simp only [getD_map_ofNat, Function.comp, List.contains_cons, List.contains_nil, Bool.or_false]
    generalize label.getD i 0 = l
    generalize (dec2bin j n).getD i 0 = b
    have hb0 : (((b : Nat) : Int) == 0) = decide (b = 0) := by
      by_cases hb : b = 0
      · subst hb; rfl
      · simp [hb]
    by_cases h1 : l = 1
    · subst h1
      by_cases hb : b = 0 <;> simp [hb0, hb]
    · by_cases h2 : l = 2
      · subst h2
        by_cases hb : b = 0 <;> simp [hb0, hb]
      · have e1 : (((l : Nat) : Int) == 1) = false := by
          have : ((l : Nat) : Int) ≠ 1 := by exact_mod_cast h1
          simpa using this
        have e2 : (((l : Nat) : Int) == 2) = false := by
          have : ((l : Nat) : Int) ≠ 2 := by exact_mod_cast h2
          simpa using this
        simp [h1, h2, e1, e2]
  rw [hmap, translated_bin2dec_eq]
  rfl

section Scalars
variable {R : Type} [CommRing R]

/-- `x * int` read in the ring -/
def mulInt (v : R) (z : Int) : R := v * (z : R)

/-- TRANSLATION TIE: the nested `nz(j)` regenerated from the current source is the model's `nz`: the product over the qubits of
    `i` / `-i` (label Y, bit 0 / 1) and `-1` (label Z, bit 1), starting from `1.0`.  Scalars: literals `1.0 := 1`, `1j := k.i`,
    ring operations.  Domain: `n ≥ 1`, `j < 2^n`, any label vector. -/
theorem translated_pauli_nz_eq (k : Scal R) (n : Nat) (label : List Nat) (j : Nat) (hn : 1 ≤ n) (hj : j < 2 ^ n) :
    Translated.pauli_nz (1 : R) k.i (fun x => -x) (fun x y => x * y) mulInt (n : Int) (label.map Int.ofNat) (j : Int)
      = some (nz k n label j) := by
  unfold Translated.pauli_nz
  rw [translated_dec2bin_eq j n (le_of_lt hj)]
  simp only
  rw [foldl_range_int]
  congr 1
  unfold nz
  apply foldl_range_congr
  intro v idx hidx
  have hb : (dec2bin j n).getD idx 0 < 2 := by
    rw [dec2bin_getD j n idx hn hj hidx]; exact Nat.mod_lt _ (by decide)
  simp only [Int.toNat_natCast, getD_map_ofNat, mulInt]
  generalize label.getD idx 0 = l at *
  generalize (dec2bin j n).getD idx 0 = b at *
  have hb' : b = 0 ∨ b = 1 := by omega
  by_cases h2 : l = 2
  · subst h2
    rcases hb' with rfl | rfl <;> simp
  · by_cases h3 : l = 3
    · subst h3
      rcases hb' with rfl | rfl <;> simp
    · have e2 : (((l : Nat) : Int) == 2) = false := by simpa using (by exact_mod_cast h2 : ((l : Nat) : Int) ≠ 2)
      have e3 : (((l : Nat) : Int) == 3) = false := by simpa using (by exact_mod_cast h3 : ((l : Nat) : Int) ≠ 3)
      simp [h2, h3, e2, e3]

private theorem bin2dec_lt (l : List Nat) (h : ∀ b ∈ l, b < 2) : bin2dec l < 2 ^ l.length := by
  induction l using List.reverseRecOn with
  | nil => simp [bin2dec]
  | append_singleton l b ih =>
    rw [bin2dec_append, List.length_append, List.length_singleton, pow_succ]
    have := ih (fun x hx => h x (by simp [hx]))
    have hb := h b (by simp)
    omega

theorem fIdx_lt (n : Nat) (label : List Nat) (j : Nat) (hn : 1 ≤ n) (hj : j < 2 ^ n) : fIdx n label j < 2 ^ n := by
  unfold fIdx
  have := bin2dec_lt ((List.range n).map (fun idx =>
    let b := (dec2bin j n).getD idx 0
    if label.getD idx 0 = 1 ∨ label.getD idx 0 = 2 then (if b = 0 then 1 else 0) else b)) (by
      intro b hb
      obtain ⟨idx, hidx, rfl⟩ := List.mem_map.1 hb
      have hidx' := List.mem_range.1 hidx
      have hlt : (dec2bin j n).getD idx 0 < 2 := by
        rw [dec2bin_getD j n idx hn hj hidx']; exact Nat.mod_lt _ (by decide)
      simp only
      split
      · split <;> omega
      · exact hlt)
  simpa using this

private theorem toLists_getElem? (A : Mat R) (i : Nat) (hi : i < A.r) :
    A.toLists[i]? = some ((List.range A.c).map (fun c => A.get i c)) := by
  unfold Mat.toLists
  rw [List.getElem?_map, List.getElem?_range hi]
  rfl

/-- the division of `trace_product` by `2**n`, read as the model reads it (`halfPow k n` = (1/2)^n) -/
def divPow2 (k : Scal R) (x : R) (z : Int) : R := x * halfPow k (Nat.log2 z.toNat)

/-- TRANSLATION TIE: the nested `trace_product(label_vec)` regenerated from the current source — the loop over the columns `j` of
    `operator[j][f(j)] * nz(j)` (calling the translated `f` and `nz`), divided by `2**n` — is the model's `traceProduct`, for every
    `2^n × 2^n` matrix (given to the code as its list of rows), `n ≥ 1`, any label vector.  Scalars as in `translated_pauli_nz_eq`,
    `0.0 := 0`, `x / 2**n := x * (1/2)^n`. -/
theorem translated_pauli_trace_product_eq (k : Scal R) (n : Nat) (A : Mat R) (label : List Nat) (hn : 1 ≤ n)
    (hr : A.r = 2 ^ n) (hc : A.c = 2 ^ n) :
    Translated.pauli_trace_product (1 : R) k.i (fun x => -x) (fun x y => x * y) mulInt (0 : R) (fun x y => x + y) (divPow2 k)
        (n : Int) A.toLists (label.map Int.ofNat) = some (traceProduct k n A label) := by
  unfold Translated.pauli_trace_product
  have e2n : (((2 : Int) ^ (Int.toNat (n : Int))) - 0).toNat = 2 ^ n := by
    have : ((2 : Int) ^ (Int.toNat (n : Int))) = ((2 ^ n : Nat) : Int) := by push_cast; simp
    rw [this]; omega
  simp only [e2n]
  rw [foldlOpt_eq_foldl _ (fun (tr : R) (j : Int) => tr + A.get j.toNat (fIdx n label j.toNat) * nz k n label j.toNat)]
  · simp only
    congr 1
    unfold traceProduct divPow2
    have e : (((2 : Int) ^ (Int.toNat (n : Int)))).toNat = 2 ^ n := by
      have : ((2 : Int) ^ (Int.toNat (n : Int))) = ((2 ^ n : Nat) : Int) := by push_cast; simp
      rw [this]; omega
    rw [e, Nat.log2_two_pow]
    congr 1
    unfold sumTo
    rw [List.foldl_map]
    apply congrArg (fun g => List.foldl g (0 : R) (List.range (2 ^ n)))
    funext acc j
    simp
  · intro st x hx
    obtain ⟨j, hjm, rfl⟩ := List.mem_map.1 hx
    have hj : j < 2 ^ n := List.mem_range.1 hjm
    have hx0 : (0 : Int) + Int.ofNat j = (j : Int) := by simp
    simp only [hx0, Int.toNat_natCast]
    rw [toLists_getElem? A j (by omega), translated_pauli_f_eq n label j hn hj, translated_pauli_nz_eq k n label j hn hj]
    simp only [Int.toNat_natCast]
    have hf := fIdx_lt n label j hn hj
    rw [List.getElem?_map, List.getElem?_range (by omega)]
    rfl

/-- END-TO-END (the trace formula of the expansion, `Lemmas/C09_Expand.traceProduct_eq`, on the TRANSLATED `trace_product`): what the
    code computes for a label vector is `2^{-n} · Σ_j A[j, partner(j)] · entry(j)` — the trace `tr(A·P)/2^n` with the Pauli string `P`
    of the label, the coefficient `pauli_expansion_roundtrip` sums up. -/
theorem translated_trace_product_is_trace (k : Scal R) (n : Nat) (A : Mat R) (label : List Nat) (hn : 1 ≤ n)
    (hr : A.r = 2 ^ n) (hc : A.c = 2 ^ n) :
    Translated.pauli_trace_product (1 : R) k.i (fun x => -x) (fun x y => x * y) mulInt (0 : R) (fun x y => x + y) (divPow2 k)
        (n : Int) A.toLists (label.map Int.ofNat)
      = some (TP k n A.get (fun q => letterOf (label.getD q 0)) * k.half ^ n) := by
  rw [translated_pauli_trace_product_eq k n A label hn hr hc, traceProduct_eq k n A label hn]

end Scalars

/-! ### Non-vacuity: the TRANSLATED definitions on concrete inputs -/
example : Translated.pauli_decode 2 [0, 1, 1, 1] = some [1, 3] := by decide
example : Translated.pauli_decode 2 [0, 1, 1] = none := by decide
example : Translated.pauli_decode 0 [0] = none := by decide
-- label (X, Z) on two qubits: column 0 = |00⟩ has its non-zero element in row |10⟩ = 2
example : Translated.pauli_f 2 [1, 3] 0 = some 2 := by decide
example : Translated.pauli_f 2 [0, 2] 3 = some 2 := by decide
-- label (Y, Z), column 3 = |11⟩: (-i)·(-1) = i, over ℤ[i] as pairs
example : Translated.pauli_nz ((1, 0) : Int × Int) (0, 1) (fun x => (-x.1, -x.2))
    (fun x y => (x.1 * y.1 - x.2 * y.2, x.1 * y.2 + x.2 * y.1)) (fun x z => (x.1 * z, x.2 * z)) 2 [2, 3] 3 = some (0, 1) := by decide
-- tr(Z·Z)/2 = 1 over ℚ-free integers scaled: operator = diag(1, -1), label Z, "division" kept symbolic as a pair
example : Translated.pauli_trace_product (1 : Int) 0 (fun x => -x) (fun x y => x * y) (fun x z => x * z) 0 (fun x y => x + y)
    (fun x z => x * 1000 + z) 1 [[1, 0], [0, -1]] [3] = some 2002 := by decide
end OQ.C09
