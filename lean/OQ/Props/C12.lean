/-
  C12 — PROPERTY THEOREMS: a wavefunction object is normalised after every operation on it.
  Model: OQ/Model/C12.lean.  Helper lemmas and the auxiliary notions `Inv`, `bitrev`: OQ/Lemmas/C12.lean.

  `close : ℚ → Bool` is the library's "equals 1" test on the float sum (`np.isclose(·, 1.0)`); every theorem holds
  for EVERY such predicate, in particular for the exact one `fun q => decide (q = 1)` and for the concrete
  tolerance `isClose` the driver runs.
-/
import OQ.Lemmas.C12
namespace OQ.C12

/-! ## creation -/

/-- "A wavefunction can only be created with a power-of-two number of amplitudes whose squared magnitudes sum to 1
    (for symbolic entries: whose numeric entries do not already exceed 1)": the constructor succeeds EXACTLY on
    those vectors (`popcount len = 1` is proved equivalent to `len = 2^k`). -/
theorem construct_ok_iff (close : Rat → Bool) (col : Bool) (v : List Lin) :
    (∃ s, construct close col v = .ok s) ↔
      (∃ k, v.length = 2 ^ k) ∧ (allNum v = true → close (numSq v) = true) ∧ (allNum v = false → numSq v ≤ 1) := by
  constructor
  · rintro ⟨s, hs⟩
    obtain ⟨⟨hk, h1, h2⟩, he⟩ := construct_ok close col v s hs
    rw [Store.length, he] at hk; rw [he] at h1 h2
    exact ⟨hk, h1, h2⟩
  · rintro ⟨hk, h1, h2⟩
    exact construct_accepts close col v hk ((checkNorm_iff _ _).mpr ⟨h1, h2⟩)

/-- … every other vector is refused with a ValueError. -/
theorem construct_rejects (close : Rat → Bool) (col : Bool) (v : List Lin)
    (h : ¬ ((∃ k, v.length = 2 ^ k) ∧ (allNum v = true → close (numSq v) = true) ∧ (allNum v = false → numSq v ≤ 1))) :
    construct close col v = .error .value := by
  cases hc : construct close col v with
  | ok s => exact absurd ((construct_ok_iff close col v).mp ⟨s, hc⟩) h
  | error e =>
    unfold construct at hc
    split_ifs at hc <;> cases hc <;> rfl

/-- a created object satisfies the invariant and holds exactly the amplitudes it was given -/
theorem inv_init (close : Rat → Bool) (col : Bool) (v : List Lin) (s : Store)
    (h : construct close col v = .ok s) : Inv close s ∧ s.entries = v :=
  construct_ok close col v s h

/-! ## assignments and bindings -/

/-- "an assignment or binding that would break it raises an error and leaves the object exactly as it was":
    whenever an operation is rejected the object is unchanged – for ALL objects (numpy- and sympy-Matrix-backed),
    integer and slice keys (including sympy's `(row, col)` reading of a bare slice), bindings, flips and reloads.
    `__setitem__` keeps a copy of the whole vector and puts it back when the re-check fails; errors raised by the
    write itself (IndexError, TypeError, broadcast/ShapeError) occur before anything is written. -/
theorem rejected_unchanged (close : Rat → Bool) (s : Store) (op : Op)
    (hrej : (step close s op).2 ≠ .ok) : (step close s op).1 = s :=
  step_rejected close s op hrej

/-- one operation (accepted or rejected) preserves the invariant – all objects, all keys -/
theorem inv_step (close : Rat → Bool) (s : Store) (op : Op) (hinv : Inv close s) :
    Inv close (step close s op).1 :=
  inv_step_of close s op hinv

/-- "after any sequence of element assignments and symbol bindings the object still satisfies this": every state
    reachable by ANY history of accepted and rejected operations from a valid object is valid -/
theorem inv_reachable (close : Rat → Bool) (s : Store) (ops : List Op) (hinv : Inv close s) :
    Inv close (run close s ops) :=
  inv_run close s ops hinv

/-- in particular: every object ever reachable from a successful construction -/
theorem inv_reachable_from_construct (close : Rat → Bool) (col : Bool) (v : List Lin) (s : Store) (ops : List Op)
    (h : construct close col v = .ok s) : Inv close (run close s ops) :=
  inv_run close s ops (construct_ok close col v s h).1

/-! ## probabilities -/

/-- "Probabilities are the squared magnitudes and sum to 1": on a valid symbol-free object `get_probabilities`
    returns `|aᵢ|²` entrywise, each non-negative, and their sum passes the library's "= 1" test. -/
theorem probs_sum (close : Rat → Bool) (s : Store) (hinv : Inv close s) (p : List Rat)
    (hp : probabilities s = some p) :
    p = s.entries.map (fun e => e.c.normSq) ∧ (∀ x ∈ p, 0 ≤ x) ∧ close p.sum = true := by
  unfold probabilities at hp
  split at hp
  · rename_i ha
    simp only [Option.some.injEq] at hp; subst hp
    refine ⟨rfl, ?_, ?_⟩
    · intro x hx
      simp only [List.mem_map] at hx
      obtain ⟨e, _, rfl⟩ := hx
      exact normSq_nonneg _
    · rw [← numSq_allNum _ ha]; exact hinv.2.1 ha
  · simp at hp

/-- with the exact test the probabilities sum to exactly 1 -/
theorem probs_sum_exact (s : Store) (hinv : Inv (fun q => decide (q = 1)) s) (p : List Rat)
    (hp : probabilities s = some p) : p.sum = 1 := by
  have := (probs_sum _ s hinv p hp).2.2
  simpa using this

/-! ## reversing the qubit order -/

/-- "reversing qubit order is the bit-reversal permutation of amplitudes": on `2^k` amplitudes `flip_amplitudes` is
    defined, keeps the length, and entry `i` of the result is the old entry at `bitrev k i`, whose bit `p` is bit
    `k-1-p` of `i` (and `bitrev k i < 2^k`). -/
theorem flip_eq_bitreversal {α : Type} (v : List α) (k : Nat) (hlen : v.length = 2 ^ k) :
    (∃ w, flipList v = some w ∧ w.length = 2 ^ k ∧ ∀ i, i < 2 ^ k → w[i]? = v[bitrev k i]?) ∧
    (∀ i, bitrev k i < 2 ^ k) ∧
    (∀ i p, p < k → (bitrev k i).testBit p = i.testBit (k - 1 - p)) :=
  ⟨flipList_spec v k hlen, bitrev_lt k, fun i p hp => bitrev_testBit k i p hp⟩

/-- "… and is its own inverse" -/
theorem flip_involutive {α : Type} (v w : List α) (k : Nat) (hlen : v.length = 2 ^ k)
    (h : flipList v = some w) : flipList w = some v :=
  flipList_involutive v w k hlen h

/-- on the object: `flip_wavefunction` of a valid object never raises, returns a valid object holding the flipped
    amplitudes, and flipping that again returns an object with the original amplitudes -/
theorem flipWf_total (close : Rat → Bool) (s : Store) (hinv : Inv close s) :
    ∃ s' s'', flipWf close s = .ok s' ∧ Inv close s' ∧ flipList s.entries = some s'.entries ∧
      flipWf close s' = .ok s'' ∧ s''.entries = s.entries := by
  obtain ⟨s', h1, h2⟩ := flipWf_spec close s hinv
  have hinv' := flipWf_ok close s s' h1
  obtain ⟨s'', h3, h4⟩ := flipWf_spec close s' hinv'
  obtain ⟨k, hk⟩ := hinv.1
  have := flipList_involutive s.entries s'.entries k hk h2
  rw [this] at h4
  exact ⟨s', s'', h1, hinv', h2, h3, (Option.some.inj h4).symm⟩

/-! ## saving and loading -/

/-- "saving and loading returns the same amplitudes": whatever `save_wavefunction` writes for a valid object,
    `load_wavefunction` rebuilds exactly that object (JSON is assumed to round-trip the doubles). -/
theorem saveLoad_roundtrip (close : Rat → Bool) (s : Store) (hinv : Inv close s)
    (col : Bool) (re im : List Rat) (hs : save s = .ok (col, re, im)) :
    load close col re (some im) = .ok s := by
  cases s with
  | mat v => simp [save] at hs
  | arr1 v =>
    simp only [save, Except.ok.injEq, Prod.mk.injEq] at hs
    obtain ⟨rfl, rfl, rfl⟩ := hs
    rw [inv_arr1] at hinv
    have hp : popcount (v.map Lin.ofNum).length = 1 := by
      rw [List.length_map]; exact (popcount_eq_one_iff _).mpr hinv.1
    simp only [load, dictToArray_save, construct, hp, bne_self_eq_false, Bool.false_eq_true, if_false,
      allNum_ofNum, if_true, numSq_ofNum, hinv.2]
    congr 2
    rw [List.map_map]; conv_rhs => rw [← List.map_id v]
    rfl
  | arr2 v =>
    simp only [save, Except.ok.injEq, Prod.mk.injEq] at hs
    obtain ⟨rfl, rfl, rfl⟩ := hs
    rw [inv_arr2] at hinv
    have hp : popcount (v.map Lin.ofNum).length = 1 := by
      rw [List.length_map]; exact (popcount_eq_one_iff _).mpr hinv.1
    simp only [load, dictToArray_save, construct, hp, bne_self_eq_false, Bool.false_eq_true, if_false,
      allNum_ofNum, if_true, numSq_ofNum, hinv.2]
    congr 2
    rw [List.map_map]; conv_rhs => rw [← List.map_id v]
    rfl

/-! ## Dicke states -/

/-- the Gosper step in closed form: on `v = A·2^(j+m'+2) + (2^(m'+1) − 1)·2^j` (`j` zeros, a block of `m'+1` ones,
    a zero, then anything) the result is `A·2^(j+m'+2) + 2^(j+m'+1) + (2^m' − 1)`; every `v ≥ 1` has this form. -/
theorem nextSameWeight_spec :
    (∀ A j m', nextSameWeight (2 ^ (j + m' + 2) * A + (2 ^ (m' + 1) - 1) * 2 ^ j)
        = 2 ^ (j + m' + 2) * A + 2 ^ (j + m' + 1) + (2 ^ m' - 1)) ∧
    (∀ v, 0 < v → ∃ A j m', v = 2 ^ (j + m' + 2) * A + (2 ^ (m' + 1) - 1) * 2 ^ j) :=
  ⟨gosper_core, block_decomp⟩

/-- … hence it is the LEAST integer above `v` with the same Hamming weight -/
theorem nextSameWeight_next (v : Nat) (hv : 0 < v) :
    v < nextSameWeight v ∧ popcount (nextSameWeight v) = popcount v ∧
    ∀ w, v < w → popcount w = popcount v → nextSameWeight v ≤ w :=
  nextSameWeight_least v hv

/-- "the Dicke-state constructor gives equal probability to exactly the basis states of the requested Hamming
    weight" – for ALL qubit counts `n ≥ 1` and weights `0 ≤ k ≤ n`: the loop terminates (the fuel is never
    exhausted), the support it collects is exactly `{w < 2^n : popcount w = k}` (in increasing order), the vector has
    `2^n` entries, the probability is `1/|support|` on the support and `0` elsewhere, and the total is 1. -/
theorem dicke_support (n k : Int) (hn : 1 ≤ n) (hk : 0 ≤ k) (hkn : k ≤ n) :
    let idx := (List.range (2 ^ n.toNat)).filter (fun w => decide (popcount w = k.toNat))
    dickeState n k = .ok (idx, dickeProbs n.toNat idx) ∧
    idx ≠ [] ∧
    (dickeProbs n.toNat idx).length = 2 ^ n.toNat ∧
    (∀ i, i < 2 ^ n.toNat →
      (dickeProbs n.toNat idx)[i]? = some (if popcount i = k.toNat then 1 / (idx.length : Rat) else 0)) ∧
    (dickeProbs n.toNat idx).sum = 1 := by
  intro idx
  have hstate : dickeState n k = .ok (idx, dickeProbs n.toNat idx) := by
    unfold dickeState
    have h1 : ¬ n ≤ 0 := by omega
    have h2 : ¬ k < 0 := by omega
    have h3 : ¬ k > n := by omega
    simp only [h1, h2, h3, if_false]
    by_cases hk0 : k = 0
    · subst hk0
      have : idx = [0] := filter_popcount_zero n.toNat
      simp [this]
    · simp only [hk0, if_false]
      rw [dickeIndices_spec n.toNat k.toNat (by omega) (by omega)]
  have hne : idx ≠ [] := by
    intro he
    have hmem : 2 ^ k.toNat - 1 ∈ idx := by
      simp only [idx, List.mem_filter, List.mem_range, decide_eq_true_eq]
      have : 2 ^ k.toNat ≤ 2 ^ n.toNat := Nat.pow_le_pow_right (by omega) (by omega)
      have := Nat.two_pow_pos k.toNat
      exact ⟨by omega, popcount_two_pow_sub_one _⟩
    rw [he] at hmem; simp at hmem
  obtain ⟨hl, hget, hsum⟩ := dickeProbs_spec n.toNat (fun w => decide (popcount w = k.toNat)) hne
  refine ⟨hstate, hne, hl, ?_, hsum⟩
  intro i hi
  rw [hget i hi]; simp only [decide_eq_true_eq]; rfl

/-- invalid requests are refused (ValueError): no qubits, a negative weight, a weight above the qubit count -/
theorem dicke_rejects (n k : Int) (h : n ≤ 0 ∨ k < 0 ∨ n < k) : dickeState n k = .error .value := by
  unfold dickeState
  by_cases h1 : n ≤ 0
  · simp [h1]
  · by_cases h2 : k < 0
    · simp [h1, h2]
    · have h3 : k > n := by omega
      simp [h1, h2, h3]

/-! ## non-vacuity and negative witness -/

private def x0 : List Lin := [Lin.ofSym "x", Lin.ofNum 0]
private def v34 : List Lin := [Lin.ofNum ⟨3/5, 0⟩, Lin.ofNum ⟨0, 4/5⟩, Lin.ofNum 0, Lin.ofNum 0]

-- the former defect class (fixed in 05839b5): a rejected scalar write through a bare slice key on a symbolic object
-- is undone, an accepted one (`wf[1:0] = 1/2` writes element 1) passed the re-check
example : step isClose (.mat x0) (.setSlice (some 0) (some 0) (.scalar (Lin.ofNum ⟨5, 0⟩))) = (.mat x0, .err .value) := by
  decide +kernel
example : step isClose (.mat x0) (.setSlice (some 1) (some 0) (.scalar (Lin.ofNum ⟨1/2, 0⟩)))
    = (.mat [Lin.ofSym "x", Lin.ofNum ⟨1/2, 0⟩], .ok) := by decide +kernel
example : Inv isClose (.mat x0) := ⟨⟨1, rfl⟩, fun h => absurd h (by decide), fun _ => by decide +kernel⟩
-- the constructor accepts / rejects
example : construct isClose false v34 = .ok (.arr1 [⟨3/5, 0⟩, ⟨0, 4/5⟩, 0, 0]) := by decide +kernel
example : construct isClose false (v34 ++ [Lin.ofNum 0]) = .error .value := by decide +kernel
example : construct isClose false x0 = .ok (.mat x0) := by decide +kernel
example : construct isClose false [Lin.ofSym "x", Lin.ofNum ⟨5/4, 0⟩] = .error .value := by decide +kernel
-- a history with accepted and rejected integer, slice and bind operations (hypotheses of `inv_reachable`)
example : Inv isClose (.arr1 [⟨3/5, 0⟩, ⟨0, 4/5⟩, 0, 0]) := (inv_init isClose false v34 _ (by decide +kernel)).1
example : step isClose (.arr1 [⟨3/5, 0⟩, ⟨0, 4/5⟩, 0, 0]) (.setSlice (some 0) (some 2) (.list [Lin.ofNum ⟨1/2, 0⟩, Lin.ofNum ⟨1/2, 0⟩]))
    = (.arr1 [⟨3/5, 0⟩, ⟨0, 4/5⟩, 0, 0], .err .value) := by decide +kernel
example : step isClose (.arr1 [⟨3/5, 0⟩, ⟨0, 4/5⟩, 0, 0]) (.setSlice (some 0) (some 2) (.list [Lin.ofNum ⟨4/5, 0⟩, Lin.ofNum ⟨3/5, 0⟩]))
    = (.arr1 [⟨4/5, 0⟩, ⟨3/5, 0⟩, 0, 0], .ok) := by decide +kernel
example : step isClose (.mat [Lin.ofSym "x", Lin.ofNum ⟨3/5, 0⟩]) (.bind [("x", Lin.ofNum ⟨0, 4/5⟩)])
    = (.arr2 [⟨0, 4/5⟩, ⟨3/5, 0⟩], .ok) := by decide +kernel
example : step isClose (.mat [Lin.ofSym "x", Lin.ofNum ⟨3/5, 0⟩]) (.bind [("x", Lin.ofNum ⟨1, 0⟩)])
    = (.mat [Lin.ofSym "x", Lin.ofNum ⟨3/5, 0⟩], .err .value) := by decide +kernel
example : probabilities (.arr1 [⟨3/5, 0⟩, ⟨0, 4/5⟩, 0, 0]) = some [9/25, 16/25, 0, 0] := by decide +kernel
-- a whole history on a mixed object: rejected integer write, partial bind, rejected bind, full bind, flip, reload
example : run isClose (.mat [Lin.ofSym "x", Lin.ofSym "y", Lin.ofNum ⟨3/5, 0⟩, Lin.ofNum 0])
    [.setInt (-1) (Lin.ofNum ⟨9/10, 0⟩), .bind [("x", Lin.ofNum 0)], .bind [("y", Lin.ofNum ⟨1, 0⟩)],
     .bind [("y", Lin.ofNum ⟨0, 4/5⟩)], .flip, .reload]
    = .arr2 [0, ⟨3/5, 0⟩, ⟨0, 4/5⟩, 0] := by decide +kernel
-- flip, save/load
example : flipList [0, 1, 2, 3, 4, 5, 6, 7] = some [0, 4, 2, 6, 1, 5, 3, 7] := by decide
example : save (.arr1 [⟨3/5, 0⟩, ⟨0, 4/5⟩]) = .ok (false, [3/5, 0], [0, 4/5]) := by decide +kernel
-- Gosper step and Dicke states
example : nextSameWeight 6 = 9 ∧ nextSameWeight 12 = 17 ∧ nextSameWeight 23 = 27 := by decide
example : dickeIndices 4 2 = some [3, 5, 6, 9, 10, 12] := by decide
example : (List.range (2 ^ 4)).filter (fun w => decide (popcount w = 2)) = [3, 5, 6, 9, 10, 12] := by decide
example : dickeState 3 2 = .ok ([3, 5, 6], [0, 0, 0, 1/3, 0, 1/3, 1/3, 0]) := by decide +kernel

end OQ.C12
