/-
  C11 — TRANSLATION TIE (work package T9), operators through the dictionary form.
  `OQ/Generated/TranslatedC11.lean` is regenerated on every run from the CURRENT source of
  `operators/_io.py: convert_op_to_dict, convert_dict_to_op` by harness/translate_t9.py (dictionaries with fixed keys are the
  structures `OpD / TermD / CoefD / PauliOpD` of the model, key -> field as declared in harness/tables_t9.py: RECORDS).
  The theorems below state that the regenerated definitions ARE the model's `opToDict` / `dictToOp` (for all inputs), and
  restate the round-trip theorems of `Props/C11.lean` on the translated writer / reader pair.

  Externals (parameters of the translated definitions):
    * `PauliSum` / `PauliTerm` objects are opaque (`OP`, `SM`, `TM`); `op.terms`, `term.operations` (the frozenset seen as the list
      of its items in CPython's ITERATION ORDER), `term.coefficient` are `attr_…`;
    * `PauliSum()`, `PauliTerm.from_iterable` (may raise), `full_operator += term` (`PauliSum.__add__`: there is no `__iadd__`,
      checked every run) are `ext_…`; the reader raises exactly when `from_iterable` does (it has no `raise` of its own);
    * numbers: `OQ.Py.Num` (int / float as exact rationals – float rounding is not modelled – or complex).
-/
import OQ.Lemmas.C11_TranslatedT9
import OQ.Props.C11
namespace OQ.C11
open OQ.Py OQ.Generated

/-- **`convert_op_to_dict` (translated) = `opToDict`** for ALL operators and every behaviour of the opaque objects: if `view`
    reads a term object as a model term such that `term.operations` iterates as `order` of its operations and `term.coefficient`
    is its coefficient, the dictionary written by the translated code is the model's dictionary of the viewed terms.
    Domain: every `op` (the function never raises). -/
theorem translated_convert_op_to_dict_eq {OP TM : Type} (terms : OP → List TM) (operations : TM → List (Int × Pauli))
    (coefficient : TM → Num) (order : Ops → Ops) (view : TM → Term Coef)
    (hops : ∀ t, operations t = (order (view t).ops).map (fun o => ((o.1 : Int), o.2)))
    (hcoef : ∀ t, coefficient t = toNum (view t).coef) (op : OP) :
    Translated.convert_op_to_dict terms operations coefficient op = opToDict order ((terms op).map view) := by
  unfold Translated.convert_op_to_dict opToDict
  have step : ∀ (st : List TermD) (term : TM),
      (if (Num.isComplex (coefficient term)) = true then
        st ++ [({ pauliOps := (operations term).map (fun (op : Int × Pauli) => ({ qubit := op.1, op := op.2 } : PauliOpD)),
                  coefficient := ({ real := Num.re (coefficient term), imag := some (Num.im (coefficient term)) } : CoefD) } : TermD)]
       else
        st ++ [({ pauliOps := (operations term).map (fun (op : Int × Pauli) => ({ qubit := op.1, op := op.2 } : PauliOpD)),
                  coefficient := ({ real := Num.re (coefficient term), imag := none } : CoefD) } : TermD)])
      = st ++ [termToDict order (view term)] := by
    intro st term
    rw [hops, hcoef]
    unfold termToDict
    cases (view term).coef <;> simp [toNum, Num.isComplex, Num.re, Num.im, List.map_map, Function.comp_def]
  simp only [step]
  rw [foldl_append_singleton (fun t => termToDict order (view t))]
  simp [List.map_map, Function.comp_def]


/-- **`convert_dict_to_op` (translated) = `dictToOp`** for ALL dictionaries of the schema, with the externals instantiated by the
    model's `PauliSum()` = `[]`, `PauliTerm.from_iterable` = `fromIterable` (ValueError on repeated / negative indices) and
    `+=` = `addTerm negl` (copy, append, simplify): same operator, and `ValueError` exactly where the model rejects.
    Domain: every `OpD` (a dictionary with other keys / value types is outside the schema: the Python raises KeyError / TypeError
    there, which neither side models). -/
theorem translated_convert_dict_to_op_eq (negl : Rat → Rat → Bool) (d : OpD) :
    Translated.convert_dict_to_op (SM := PSum Coef) (TM := Term Coef) [] (fun ops c => liftE (fromIterable ops (ofNum c)))
      (addTerm negl) d = liftE (dictToOp negl d) := by
  unfold Translated.convert_dict_to_op dictToOp
  have step : ∀ (st : PSum Coef) (td : TermD),
      (match td.coefficient.imag with
        | some nv3 =>
          (if (nv3 != 0) = true then
            Except.bind (liftE (fromIterable (List.foldl (fun st pauli_op => st ++ [(pauli_op.op, pauli_op.qubit)]) [] td.pauliOps)
              (ofNum (Num.add (Num.real td.coefficient.real) (Num.mul Num.j (Num.real nv3)))))) (fun r4 => Except.ok (addTerm negl st r4))
          else
            Except.bind (liftE (fromIterable (List.foldl (fun st pauli_op => st ++ [(pauli_op.op, pauli_op.qubit)]) [] td.pauliOps)
              (ofNum (Num.real td.coefficient.real)))) (fun r6 => Except.ok (addTerm negl st r6)))
        | none =>
          Except.bind (liftE (fromIterable (List.foldl (fun st pauli_op => st ++ [(pauli_op.op, pauli_op.qubit)]) [] td.pauliOps)
              (ofNum (Num.real td.coefficient.real)))) (fun r5 => Except.ok (addTerm negl st r5)))
      = liftE (do
          let t ← fromIterable (td.pauliOps.map (fun p => (p.op, p.qubit))) (coefOfDict td.coefficient)
          pure (addTerm negl st t)) := by
    intro st td
    rw [foldl_append_singleton (fun (p : PauliOpD) => (p.op, p.qubit))]
    simp only [List.nil_append]
    unfold coefOfDict
    cases hi : td.coefficient.imag with
    | none =>
      simp only [ofNum]
      cases fromIterable (td.pauliOps.map (fun p => (p.op, p.qubit))) (Coef.real td.coefficient.real) with
      | error e => cases e; rfl
      | ok v => rfl
    | some i =>
      by_cases h0 : i = 0
      · subst h0
        simp only [bne_self_eq_false, Bool.false_eq_true, if_false, ofNum, ne_eq, not_true_eq_false]
        cases fromIterable (td.pauliOps.map (fun p => (p.op, p.qubit))) (Coef.real td.coefficient.real) with
        | error e => cases e; rfl
        | ok v => rfl
      · have hb : (i != 0) = true := by simpa using h0
        simp only [hb, if_true, ne_eq, h0, not_false_eq_true]
        simp only [Num.add, Num.mul, Num.j, Num.re, Num.im, ofNum, cmul]
        cases fromIterable (td.pauliOps.map (fun p => (p.op, p.qubit)))
            (Coef.cplx (td.coefficient.real + (0 * i - 1 * 0)) (0 + (0 * 0 + 1 * i))) with
        | error e => cases e; rfl
        | ok v => rfl
  have key := foldlExc_congr _ _ step [] d.terms
  refine Eq.trans (congrArg (fun m => Except.bind m (fun st => Except.ok st)) key) ?_
  have h2 := foldlExc_liftE (fun (full : PSum Coef) (td : TermD) => (do
      let t ← fromIterable (td.pauliOps.map (fun p => (p.op, p.qubit))) (coefOfDict td.coefficient)
      pure (addTerm negl full t) : Except Err (PSum Coef))) d.terms []
  rw [h2, liftE_bind_ok]


/-- the translated writer on model operators (objects viewed as themselves) -/
theorem translated_convert_op_to_dict_model (order : Ops → Ops) (s : PSum Coef) :
    Translated.convert_op_to_dict (OP := PSum Coef) (TM := Term Coef) (fun s => s)
      (fun t => (order t.ops).map (fun o => ((o.1 : Int), o.2))) (fun t => toNum t.coef) s = opToDict order s := by
  have := translated_convert_op_to_dict_eq (OP := PSum Coef) (TM := Term Coef) (fun s => s)
    (fun t => (order t.ops).map (fun o => ((o.1 : Int), o.2))) (fun t => toNum t.coef) order id (fun _ => rfl) (fun _ => rfl) s
  simpa using this

/-- END-TO-END (`dict_roundtrip_denote` ON THE TRANSLATED PAIR): the translated reader applied to what the translated writer
    produced is accepted and returns an operator that, together with dropped terms whose coefficients pass the library's zero
    test, denotes what the original denotes under every interpretation (in particular the matrix). -/
theorem translated_dict_roundtrip_denote (negl : Rat → Rat → Bool) (order : Ops → Ops) (hord : ∀ o, (order o).Perm o)
    (s : PSum Coef) (hs : ∀ t ∈ s, t.WF) :
    ∃ r D : PSum Coef,
      Translated.convert_dict_to_op (SM := PSum Coef) (TM := Term Coef) [] (fun ops c => liftE (fromIterable ops (ofNum c)))
        (addTerm negl)
        (Translated.convert_op_to_dict (OP := PSum Coef) (TM := Term Coef) (fun s => s)
          (fun t => (order t.ops).map (fun o => ((o.1 : Int), o.2))) (fun t => toNum t.coef) s) = .ok r ∧
      (∀ d ∈ D, negl d.coef.re d.coef.im = true) ∧
      ∀ {M : Type} [AddCommMonoid M] (φ : Ops → Rat → Rat → M), Interp φ →
        denote φ Coef.val r + denote φ Coef.val D = denote φ Coef.val s := by
  obtain ⟨r, D, h1, h2, h3⟩ := dict_roundtrip_denote negl order hord s hs
  refine ⟨r, D, ?_, h2, h3⟩
  rw [translated_convert_op_to_dict_model, translated_convert_dict_to_op_eq, h1]
  rfl

/-- END-TO-END (`dict_roundtrip_exact` ON THE TRANSLATED PAIR): for simplified operators the translated round trip returns the
    terms one for one, in order, with the same operator sets and exactly the same real and imaginary parts. -/
theorem translated_dict_roundtrip_exact (negl : Rat → Rat → Bool) (order : Ops → Ops) (hord : ∀ o, (order o).Perm o)
    (s : PSum Coef) (hs : ∀ t ∈ s, t.WF) (hsimp : Simplified negl s) :
    ∃ r : PSum Coef,
      Translated.convert_dict_to_op (SM := PSum Coef) (TM := Term Coef) [] (fun ops c => liftE (fromIterable ops (ofNum c)))
        (addTerm negl)
        (Translated.convert_op_to_dict (OP := PSum Coef) (TM := Term Coef) (fun s => s)
          (fun t => (order t.ops).map (fun o => ((o.1 : Int), o.2))) (fun t => toNum t.coef) s) = .ok r ∧
      List.Forall₂ (fun a b : Term Coef => a.ops.Perm b.ops ∧ a.coef.re = b.coef.re ∧ a.coef.im = b.coef.im) r s := by
  obtain ⟨r, h1, h2⟩ := dict_roundtrip_exact negl order hord s hs hsimp
  refine ⟨r, ?_, h2⟩
  rw [translated_convert_op_to_dict_model, translated_convert_dict_to_op_eq, h1]
  rfl

/-! ## non-vacuity: the TRANSLATED definitions on concrete inputs -/

-- a complex and a real coefficient, a multi-digit qubit, reversed iteration order of the frozenset
example : Translated.convert_op_to_dict (OP := PSum Coef) (TM := Term Coef) (fun s => s)
    (fun t => (t.ops.reverse).map (fun o => ((o.1 : Int), o.2))) (fun t => toNum t.coef)
    [⟨[(0, .Z), (12, .X)], .cplx (1/2) (-3)⟩, ⟨[], .real (-2)⟩]
    = ⟨[⟨[⟨12, .X⟩, ⟨0, .Z⟩], ⟨1/2, some (-3)⟩⟩, ⟨[], ⟨-2, none⟩⟩]⟩ := by decide +kernel
-- the reader: `imag` truthy gives a complex coefficient, `imag = 0` and no `imag` give a real one; like terms are merged by `+=`
example : Translated.convert_dict_to_op (SM := PSum Coef) (TM := Term Coef) [] (fun ops c => liftE (fromIterable ops (ofNum c)))
    (addTerm (fun re im => decide (re * re + im * im ≤ 1 / 10000000000000000)))
    ⟨[⟨[⟨12, .X⟩, ⟨0, .Z⟩], ⟨1/2, some (-3)⟩⟩, ⟨[⟨3, .Y⟩], ⟨1, some 0⟩⟩, ⟨[⟨3, .Y⟩, ⟨5, .I⟩], ⟨1/4, none⟩⟩]⟩
    = .ok [⟨[(12, .X), (0, .Z)], .cplx (1/2) (-3)⟩, ⟨[(3, .Y)], .real (5/4)⟩] := by decide +kernel
-- a repeated qubit index is rejected with ValueError (raised by the external `from_iterable`)
example : Translated.convert_dict_to_op (SM := PSum Coef) (TM := Term Coef) [] (fun ops c => liftE (fromIterable ops (ofNum c)))
    (addTerm (fun _ _ => false)) ⟨[⟨[⟨1, .X⟩, ⟨1, .Z⟩], ⟨1, none⟩⟩]⟩ = .error .ValueError := by decide +kernel

end OQ.C11
