/-
  C09 — PROPERTY THEOREMS: operator ↔ matrix conversions agree with the operator's definition.
  Model: OQ/Model/C09.lean.  Helper lemmas: OQ/Lemmas/C09_{Entries,Sparse,Algebra,Ops,Simplified,Expand,Hermitian}.lean.

  Conventions.  `R` is any commutative ring with a star operation; `k : Scal R` carries the constants
  with the laws `k.i * k.i = -1`, `k.cj = star`, `star k.i = -k.i` (and `2 * k.half = 1` for the Pauli
  expansion).  `PSum.denote k n s` (OQ/Model/Pauli.lean) is the tensor-product definition: the sum over
  the terms of `coeff · σ_{q=0} ⊗ σ_{q=1} ⊗ … ⊗ σ_{q=n-1}`, qubit 0 the leftmost Kronecker factor.
  Matrices are compared as Mathlib matrices through `Mat.toM (2^n) (2^n)`.
  `SumWF s`: the qubit indices inside each term are distinct (a `PauliTerm` stores them in a dict).
  `NeglExact tol`: the tolerance predicate `np.isclose(x, 0)` of `simplify` only drops exact zeros –
  true of exact arithmetic; in doubles `simplify` drops every component of modulus ≤ 1e-8, so the
  operator-valued conversions (`hermitian_conjugated`, `reverse_qubit_order`,
  `get_pauliop_from_matrix`, all of which go through `+=`) agree up to such components.
-/
import OQ.Lemmas.C09_Hermitian
import OQ.Lemmas.C09_Dropped
import Mathlib.LinearAlgebra.Matrix.ConjTranspose
import Mathlib.Data.Matrix.Mul
import Mathlib.NumberTheory.Zsqrtd.GaussianInt
import Mathlib.Data.Complex.Basic

set_option linter.unusedSectionVars false
namespace OQ.C09
open OQ OQ.Pauli Matrix

variable {R : Type} [CommRing R] [StarRing R] [DecidableEq R]

/-- the tolerance of `simplify` only drops exact zeros -/
def NeglExact (tol : Tol R) : Prop := ∀ x, tol.negl x = true → x = 0

/-- the bit-reversal permutation on matrix indices -/
def bitrevFin (n : Nat) (i : Fin (2 ^ n)) : Fin (2 ^ n) := ⟨bitrev n i, bitrev_lt n i⟩

/-- the state vector of a list of amplitudes -/
def stateVec (d : Nat) (ψ : List R) : Fin d → R := fun i => ψ.getD i 0

/-! ### get_sparse_operator -/

/-- Sentence 1: for every Pauli sum (any terms: gaps, constants, complex coefficients, zero and
    repeated terms, the empty sum) and every register width `n ≥` the operator's width, the matrix
    assembled by `get_sparse_operator` (Kronecker chain with identity blocks, COO triplets with the
    swapped `nonzero()` indices, duplicate summation) is the tensor-product definition on `n` qubits. -/
theorem sparse_eq_denote (k : Scal R) (hi : k.i * k.i = -1) (s : PSum R) (hwf : SumWF s) (n : Nat)
    (hn : PSum.nQubits s ≤ n) :
    ∃ M, getSparseOperator k s n = some M ∧ M.r = 2 ^ n ∧ M.c = 2 ^ n ∧
      Mat.toM (2 ^ n) (2 ^ n) M = Mat.toM (2 ^ n) (2 ^ n) (PSum.denote k n s) := by
  obtain ⟨M, h1, h2, h3, h4⟩ := getSparseOperator_spec k hi s hwf n hn
  refine ⟨M, h1, h2, h3, ?_⟩
  funext i j
  simp only [Mat.toM]
  rw [h4 i j i.2 j.2, (denote_spec k n s).2.2 i j i.2 j.2]

/-- Sentence 1, default width: `get_sparse_operator(op)` uses the operator's own width. -/
theorem sparse_default_eq_denote (k : Scal R) (hi : k.i * k.i = -1) (s : PSum R) (hwf : SumWF s) :
    ∃ M, getSparseOperatorDefault k s = some M ∧
      Mat.toM (2 ^ PSum.nQubits s) (2 ^ PSum.nQubits s) M
        = Mat.toM (2 ^ PSum.nQubits s) (2 ^ PSum.nQubits s) (PSum.denote k (PSum.nQubits s) s) := by
  obtain ⟨M, h1, _, _, h4⟩ := sparse_eq_denote k hi s hwf (PSum.nQubits s) (le_refl _)
  exact ⟨M, h1, h4⟩

/-- Sentence 1 for a single `PauliTerm` (`term.terms = [term]`): the matrix is `coeff · string`. -/
theorem sparse_term_eq_denote (k : Scal R) (hi : k.i * k.i = -1) (t : Term R) (hwf : TermWF t) (n : Nat)
    (hn : t.nQubits ≤ n) :
    ∃ M, getSparseOperator k [t] n = some M ∧
      Mat.toM (2 ^ n) (2 ^ n) M = Mat.toM (2 ^ n) (2 ^ n) (t.denote k n) := by
  have hs : SumWF [t] := fun u hu => by simp only [List.mem_singleton] at hu; subst hu; exact hwf
  have hn' : PSum.nQubits [t] ≤ n := by
    rw [sum_nQubits_le]; intro u hu
    simp only [List.mem_singleton] at hu; subst hu
    exact (term_nQubits_le u n).1 hn
  obtain ⟨M, h1, _, _, h4⟩ := getSparseOperator_spec k hi [t] hs n hn'
  refine ⟨M, h1, ?_⟩
  funext i j
  simp only [Mat.toM]
  rw [h4 i j i.2 j.2, (termDenote_spec k n t).2.2 i j i.2 j.2, dEntry_cons, dEntry_nil, add_zero]

/-- Sentence 1, "including the zero operator": the empty sum gives the zero matrix at every width. -/
theorem sparse_zero_operator (k : Scal R) (n : Nat) :
    ∃ M, getSparseOperator k ([] : PSum R) n = some M ∧ Mat.toM (2 ^ n) (2 ^ n) M = 0 := by
  refine ⟨_, rfl, ?_⟩
  funext i j
  simp only [Mat.toM, Matrix.zero_apply]
  exact Mat.get_ofFn _ _ _ _ _ i.2 j.2

/-- The width guard: `get_sparse_operator` raises `ValueError` exactly when `n <` the operator's width. -/
theorem sparse_rejects_iff (k : Scal R) (s : PSum R) (n : Nat) :
    getSparseOperator k s n = none ↔ n < PSum.nQubits s := getSparseOperator_none k s n

/-- What "qubit 0 as the leftmost factor" means entry by entry: entry `(i, j)` of the definition is
    `Σ_terms coeff · Π_q σ_q[bit_q i][bit_q j]` where `bit_q x = x / 2^(n-1-q) % 2`, i.e. qubit 0 is
    the most significant bit of the basis index. -/
theorem denote_entry_msb (k : Scal R) (n : Nat) (s : PSum R) (i j : Fin (2 ^ n)) :
    Mat.toM (2 ^ n) (2 ^ n) (PSum.denote k n s) i j
      = (s.map (fun t => t.coeff * ((List.range n).map (fun q =>
          pe k (t.opAt q) (i / 2 ^ (n - 1 - q) % 2) (j / 2 ^ (n - 1 - q) % 2))).prod)).sum := by
  simp only [Mat.toM]
  rw [(denote_spec k n s).2.2 i j i.2 j.2, dEntry]
  congr 1
  apply List.map_congr_left
  intro t _
  rw [strEntry_prod]

/-! ### hermitian_conjugated -/

/-- Sentence 2a: `hermitian_conjugated` of a `PauliSum` denotes the conjugate-transposed matrix
    (on every register width `n`). -/
theorem conj_denote (k : Scal R) (hcj : k.cj = star) (hsi : star k.i = -k.i) (tol : Tol R) (hnegl : NeglExact tol)
    (s : PSum R) (hwf : SumWF s) (n : Nat) :
    Mat.toM (2 ^ n) (2 ^ n) (PSum.denote k n (hermitianConjugated k tol s))
      = (Mat.toM (2 ^ n) (2 ^ n) (PSum.denote k n s))ᴴ := by
  funext i j
  simp only [Mat.toM, Matrix.conjTranspose_apply]
  rw [(denote_spec k n _).2.2 i j i.2 j.2, (denote_spec k n s).2.2 j i j.2 i.2,
    (hc_spec k hcj hsi tol hnegl n s hwf).2 i j]

/-- Sentence 2a for a single `PauliTerm`: conjugating the coefficient conjugate-transposes the matrix. -/
theorem conj_term_denote (k : Scal R) (hcj : k.cj = star) (hsi : star k.i = -k.i) (t : Term R) (n : Nat) :
    Mat.toM (2 ^ n) (2 ^ n) ((hermitianConjugatedTerm k t).denote k n)
      = (Mat.toM (2 ^ n) (2 ^ n) (t.denote k n))ᴴ := by
  funext i j
  simp only [Mat.toM, Matrix.conjTranspose_apply]
  rw [(termDenote_spec k n _).2.2 i j i.2 j.2, (termDenote_spec k n t).2.2 j i j.2 i.2, star_mul',
    strEntry_star k hsi _ n j i]
  simp only [hermitianConjugatedTerm, hcj]
  rfl

/-! ### reverse_qubit_order -/

/-- `bitrev n` really reverses the `n` bits: bit `q` of the image is bit `n-1-q` of the argument. -/
theorem bitrev_reverses_bits (n i q : Nat) (hq : q < n) : bitrev n i / 2 ^ q % 2 = i / 2 ^ (n - 1 - q) % 2 :=
  bitrev_bit n i q hq

/-- Sentence 4b: for `n ≥` width, `reverse_qubit_order(op, n)` denotes the matrix conjugated by the
    bit-reversal permutation of the basis indices. -/
theorem reverse_eq_bitreversal_conj (k : Scal R) (tol : Tol R) (hnegl : NeglExact tol) (s : PSum R)
    (hwf : SumWF s) (n : Nat) (hn : PSum.nQubits s ≤ n) :
    ∃ s', reverseQubitOrder tol s n = some s' ∧
      Mat.toM (2 ^ n) (2 ^ n) (PSum.denote k n s')
        = (Mat.toM (2 ^ n) (2 ^ n) (PSum.denote k n s)).submatrix (bitrevFin n) (bitrevFin n) := by
  obtain ⟨s', h1, _, _, h4⟩ := reverse_spec k tol hnegl n s hwf hn
  refine ⟨s', h1, ?_⟩
  funext i j
  simp only [Mat.toM, Matrix.submatrix_apply, bitrevFin]
  rw [(denote_spec k n s').2.2 i j i.2 j.2, h4 i j i.2 j.2,
    (denote_spec k n s).2.2 _ _ (bitrev_lt n i) (bitrev_lt n j)]

/-- Sentence 4a: reversing twice is the identity on the denoted operator (any sum, `n ≥` width). -/
theorem reverse_reverse (k : Scal R) (tol : Tol R) (hnegl : NeglExact tol) (s : PSum R)
    (hwf : SumWF s) (n : Nat) (hn : PSum.nQubits s ≤ n) :
    ∃ s' s'', reverseQubitOrder tol s n = some s' ∧ reverseQubitOrder tol s' n = some s'' ∧
      Mat.toM (2 ^ n) (2 ^ n) (PSum.denote k n s'') = Mat.toM (2 ^ n) (2 ^ n) (PSum.denote k n s) := by
  obtain ⟨s', h1, hwf', hn', h4⟩ := reverse_spec k tol hnegl n s hwf hn
  obtain ⟨s'', h1', _, _, h4'⟩ := reverse_spec k tol hnegl n s' hwf' hn'
  refine ⟨s', s'', h1, h1', ?_⟩
  funext i j
  simp only [Mat.toM]
  rw [(denote_spec k n s'').2.2 i j i.2 j.2, h4' i j i.2 j.2,
    h4 _ _ (bitrev_lt n i) (bitrev_lt n j), bitrev_invol n i i.2, bitrev_invol n j j.2,
    (denote_spec k n s).2.2 i j i.2 j.2]

/-- The width guard of `reverse_qubit_order`: `ValueError` exactly when `n <` width. -/
theorem reverse_rejects_iff (tol : Tol R) (s : PSum R) (n : Nat) :
    reverseQubitOrder tol s n = none ↔ n < PSum.nQubits s := reverse_none tol s n

/-! ### get_expectation_value -/

/-- Sentence 5 for `expectation(operator, state)` itself: `dot(conj(state), operator * state)` is the
    quadratic form of the state with the given matrix. -/
theorem expectation_eq (k : Scal R) (hcj : k.cj = star) (M : Mat R) (ψ : List R) (d : Nat) (hd : ψ.length = d) :
    expectation k M ψ = star (stateVec d ψ) ⬝ᵥ (Mat.toM d d M) *ᵥ (stateVec d ψ) := by
  unfold expectation
  rw [hd, sumTo_eq, Finset.sum_range]
  simp only [dotProduct, Matrix.mulVec, Pi.star_apply, stateVec, hcj]
  apply Finset.sum_congr rfl
  intro i _
  rw [sumTo_eq, Finset.sum_range]
  rfl

/-- Sentence 5: for a state with `2^n` amplitudes and an operator of width `≤ n`,
    `get_expectation_value(op, ψ)` is the quadratic form `ψᴴ · A · ψ` with `A` the operator's matrix
    on `n` qubits.  (Holds for every amplitude vector, normalised or not.) -/
theorem expectation_quadratic_form (k : Scal R) (hi : k.i * k.i = -1) (hcj : k.cj = star) (tol : Tol R)
    (s : PSum R) (hwf : SumWF s) (n : Nat) (ψ : List R) (hψ : ψ.length = 2 ^ n) (hn : PSum.nQubits s ≤ n) :
    getExpectationValue k tol s ψ false
      = some (star (stateVec (2 ^ n) ψ) ⬝ᵥ (Mat.toM (2 ^ n) (2 ^ n) (PSum.denote k n s)) *ᵥ (stateVec (2 ^ n) ψ)) := by
  obtain ⟨M, h1, _, _, h4⟩ := sparse_eq_denote k hi s hwf n hn
  unfold getExpectationValue
  simp only [hψ, Nat.log2_two_pow, Bool.false_eq_true, if_false, h1]
  rw [expectation_eq k hcj M ψ (2 ^ n) hψ, h4]

/-- Sentence 5 with `reverse_operator=True`: the quadratic form with the bit-reversed matrix. -/
theorem expectation_quadratic_form_reversed (k : Scal R) (hi : k.i * k.i = -1) (hcj : k.cj = star) (tol : Tol R)
    (hnegl : NeglExact tol) (s : PSum R) (hwf : SumWF s) (n : Nat) (ψ : List R) (hψ : ψ.length = 2 ^ n)
    (hn : PSum.nQubits s ≤ n) :
    getExpectationValue k tol s ψ true
      = some (star (stateVec (2 ^ n) ψ) ⬝ᵥ
          ((Mat.toM (2 ^ n) (2 ^ n) (PSum.denote k n s)).submatrix (bitrevFin n) (bitrevFin n)) *ᵥ
          (stateVec (2 ^ n) ψ)) := by
  obtain ⟨s', hr1, hwf', hn', _⟩ := reverse_spec k tol hnegl n s hwf hn
  obtain ⟨s'', hr2, hr3⟩ := reverse_eq_bitreversal_conj k tol hnegl s hwf n hn
  have : s'' = s' := by rw [hr1] at hr2; exact (Option.some.inj hr2).symm
  subst this
  obtain ⟨M, h1, _, _, h4⟩ := sparse_eq_denote k hi s'' hwf' n hn'
  unfold getExpectationValue
  simp only [hψ, Nat.log2_two_pow, if_true, hr1, h1]
  rw [expectation_eq k hcj M ψ (2 ^ n) hψ, h4, hr3]

/-- `get_expectation_value` raises `ValueError` when the operator is wider than the state. -/
theorem expectation_rejects (k : Scal R) (tol : Tol R) (s : PSum R) (n : Nat) (ψ : List R)
    (hψ : ψ.length = 2 ^ n) (hn : n < PSum.nQubits s) (rev : Bool) :
    getExpectationValue k tol s ψ rev = none := by
  unfold getExpectationValue
  simp only [hψ, Nat.log2_two_pow]
  cases rev
  · simp only [Bool.false_eq_true, if_false, (sparse_rejects_iff k s n).2 hn]
  · simp only [if_true, (reverse_rejects_iff tol s n).2 hn]

/-! ### reversing twice, on the operator data -/

/-- Sentence 4a at the level of the DATA: on a simplified sum (`Simplified`: pairwise different
    operation sets, no negligible coefficient – what `simplify` returns; any tolerance) reversing twice
    returns the very same list of terms. -/
theorem reverse_reverse_simplified (tol : Tol R) (s : PSum R) (hs : Simplified tol s) (n : Nat)
    (hn : PSum.nQubits s ≤ n) :
    ∃ s', reverseQubitOrder tol s n = some s' ∧ reverseQubitOrder tol s' n = some s :=
  reverse_twice_simplified tol n s hs hn

/-! ### is_hermitian -/

/-- The mechanism "hermitian_conjugated conjugates coefficients", on the operator data: on a simplified
    sum (exact comparisons) the result is the same list of terms with every coefficient conjugated. -/
theorem conj_simplified_data (k : Scal R) (hcj : k.cj = star) (tol : Tol R) (hex : TolExact tol) (s : PSum R)
    (hs : Simplified tol s) :
    hermitianConjugated k tol s = s.map (fun t => ⟨t.ops, star t.coeff⟩) := by
  rw [hc_simplified k hcj tol hex s hs]
  apply List.map_congr_left
  intro t _
  simp only [hermitianConjugatedTerm, hcj]

/-- Sentence 2b: for a simplified operator (`Simplified`, well formed) on `n ≥ width` qubits, with the
    float comparisons instantiated exactly (`TolExact`: `isclose(x,0) ↔ x = 0`, `allclose(a,b) ↔ a = b`,
    equal rounded hash key ↔ equal), `is_hermitian(op)` is `True` exactly when the operator's matrix
    equals its conjugate transpose.  (The `←` direction is the linear independence of distinct Pauli
    strings, proved through trace orthogonality; it needs `2` invertible: `2 * k.half = 1`.) -/
theorem isHermitian_iff (k : Scal R) (hi : k.i * k.i = -1) (hcj : k.cj = star) (hsi : star k.i = -k.i)
    (hh : 2 * k.half = 1) (tol : Tol R) (hex : TolExact tol) (s : PSum R) (hwf : SumWF s)
    (hs : Simplified tol s) (n : Nat) (hn : PSum.nQubits s ≤ n) :
    isHermitian k tol s = true ↔
      Mat.toM (2 ^ n) (2 ^ n) (PSum.denote k n s) = (Mat.toM (2 ^ n) (2 ^ n) (PSum.denote k n s))ᴴ := by
  rw [isHermitian_iff_real k hcj tol hex s hwf hs,
    real_iff_hermitian_matrix k hi hcj hsi hh n s hwf hs.1 hn]
  constructor
  · intro h
    funext i j
    simp only [Mat.toM, Matrix.conjTranspose_apply]
    rw [(denote_spec k n s).2.2 i j i.2 j.2, (denote_spec k n s).2.2 j i j.2 i.2]
    exact h i j i.2 j.2
  · intro h i j hi' hj
    have := congrFun (congrFun h ⟨i, hi'⟩) ⟨j, hj⟩
    simp only [Mat.toM, Matrix.conjTranspose_apply] at this
    rw [(denote_spec k n s).2.2 i j hi' hj, (denote_spec k n s).2.2 j i hj hi'] at this
    exact this

/-- Sentence 2b for a single `PauliTerm` (any coefficient, also 0): `is_hermitian(term)` is `True`
    exactly when `coeff · string` equals its conjugate transpose. -/
theorem isHermitianTerm_iff (k : Scal R) (hi : k.i * k.i = -1) (hcj : k.cj = star) (hsi : star k.i = -k.i)
    (hh : 2 * k.half = 1) (tol : Tol R) (hex : TolExact tol) (t : Term R) (hwf : TermWF t) (n : Nat)
    (hn : t.nQubits ≤ n) :
    isHermitianTerm k tol t = true ↔
      Mat.toM (2 ^ n) (2 ^ n) (t.denote k n) = (Mat.toM (2 ^ n) (2 ^ n) (t.denote k n))ᴴ := by
  have hs : SumWF [t] := fun u hu => by simp only [List.mem_singleton] at hu; subst hu; exact hwf
  have hn' : PSum.nQubits [t] ≤ n := by
    rw [sum_nQubits_le]; intro u hu
    simp only [List.mem_singleton] at hu; subst hu
    exact (term_nQubits_le u n).1 hn
  have h1 : isHermitianTerm k tol t = true ↔ star t.coeff = t.coeff := by
    unfold isHermitianTerm termEq
    simp only [hermitianConjugatedTerm, hcj, sameOps_refl, Bool.or_true, Bool.and_true]
    rw [hex.close]; exact eq_comm
  have h2 := real_iff_hermitian_matrix k hi hcj hsi hh n [t] hs (List.pairwise_singleton _ _) hn'
  simp only [List.mem_singleton, forall_eq, dEntry_cons, dEntry_nil, add_zero] at h2
  rw [h1, h2]
  constructor
  · intro h
    funext i j
    simp only [Mat.toM, Matrix.conjTranspose_apply]
    rw [(termDenote_spec k n t).2.2 i j i.2 j.2, (termDenote_spec k n t).2.2 j i j.2 i.2]
    exact h i j i.2 j.2
  · intro h i j hi' hj
    have := congrFun (congrFun h ⟨i, hi'⟩) ⟨j, hj⟩
    simp only [Mat.toM, Matrix.conjTranspose_apply] at this
    rw [(termDenote_spec k n t).2.2 i j hi' hj, (termDenote_spec k n t).2.2 j i hj hi'] at this
    exact this

/-! ### get_pauliop_from_matrix -/

/-- Sentence 3, PARTIAL: for every `2^n × 2^n` matrix with `n ≥ 1`, `get_pauliop_from_matrix` succeeds,
    the resulting sum denotes the matrix, fits in `n` qubits, and converting it back with
    `get_sparse_operator(·, n)` reproduces the matrix.  Missing: `n = 0` (a 1×1 matrix), where the real
    code raises – see `pauli_expansion_fails_1x1`; that input class is the known finding
    `from-matrix-1x1`.  (Needs `2 * k.half = 1` for the division by `2^n`, and `NeglExact`.) -/
theorem pauli_expansion_roundtrip_partial (k : Scal R) (hi : k.i * k.i = -1) (hh : 2 * k.half = 1)
    (tol : Tol R) (hnegl : NeglExact tol) (A : Mat R) (n : Nat) (hn : 1 ≤ n) (hr : A.r = 2 ^ n) (hc : A.c = 2 ^ n) :
    ∃ s, getPauliopFromMatrix k tol A = .ok s ∧
      Mat.toM (2 ^ n) (2 ^ n) (PSum.denote k n s) = Mat.toM (2 ^ n) (2 ^ n) A ∧
      ∃ M, getSparseOperator k s n = some M ∧ Mat.toM (2 ^ n) (2 ^ n) M = Mat.toM (2 ^ n) (2 ^ n) A := by
  obtain ⟨s, h1, hwf, hw, he⟩ := fromMatrix_spec k hi hh tol hnegl A n hn hr hc
  have hden : Mat.toM (2 ^ n) (2 ^ n) (PSum.denote k n s) = Mat.toM (2 ^ n) (2 ^ n) A := by
    funext i j
    simp only [Mat.toM]
    rw [(denote_spec k n s).2.2 i j i.2 j.2, he i j i.2 j.2]
  obtain ⟨M, hM, _, _, hM2⟩ := sparse_eq_denote k hi s hwf n hw
  exact ⟨s, h1, hden, M, hM, hM2.trans hden⟩

/-- Negative witness for Sentence 3 at `n = 0`: on every 1×1 matrix the model – like the code –
    raises (`dec2bin(0, 0) = [0]` has length 1, `decode` demands length `2n = 0`). -/
theorem pauli_expansion_fails_1x1 (k : Scal R) (tol : Tol R) (A : Mat R) (hr : A.r = 1) (hc : A.c = 1) :
    getPauliopFromMatrix k tol A = .error .decodeLength := fromMatrix_1x1 k tol A hr hc

/-- The shape guards of `get_pauliop_from_matrix`: a non-square matrix and a square matrix whose size
    is not a power of two are rejected. -/
theorem pauli_expansion_rejects (k : Scal R) (tol : Tol R) (A : Mat R) (h0 : A.r ≠ 0) :
    (A.r ≠ A.c → getPauliopFromMatrix k tol A = .error .notSquare) ∧
    (A.r = A.c → 2 ^ Nat.log2 A.r ≠ A.r → getPauliopFromMatrix k tol A = .error .notPow2) := by
  constructor
  · intro h; unfold getPauliopFromMatrix; rw [if_neg h0, if_pos h]
  · intro h h2; unfold getPauliopFromMatrix; rw [if_neg h0, if_neg (by simpa using h), if_pos h2]

/-! ### the tolerance of `simplify`, in general -/

/-- For an ARBITRARY tolerance predicate `negl` (e.g. the real `|x| ≤ 1e-8`): `simplify` changes the
    denoted matrix exactly by the merged terms it discards (`dropped tol s`), and every discarded term
    has a negligible coefficient.  (`NeglExact` in the theorems above is the case where this correction
    vanishes; every `+=` in `hermitian_conjugated`, `reverse_qubit_order`, `get_pauliop_from_matrix`
    is one such step.) -/
theorem simplify_denote_upto_negl (k : Scal R) (tol : Tol R) (s : PSum R) (hwf : SumWF s) (n : Nat) :
    Mat.toM (2 ^ n) (2 ^ n) (PSum.denote k n (simplify tol s))
        + Mat.toM (2 ^ n) (2 ^ n) (PSum.denote k n (dropped tol s))
      = Mat.toM (2 ^ n) (2 ^ n) (PSum.denote k n s)
    ∧ ∀ t ∈ dropped tol s, tol.negl t.coeff = true := by
  refine ⟨?_, dropped_negl tol s⟩
  funext i j
  simp only [Mat.toM, Matrix.add_apply]
  rw [(denote_spec k n _).2.2 i j i.2 j.2, (denote_spec k n _).2.2 i j i.2 j.2,
    (denote_spec k n s).2.2 i j i.2 j.2, simplify_split_dEntry k n tol s hwf]

/-! ### non-vacuity: concrete inputs meeting the hypotheses -/

/-- constants over the Gaussian integers (no `1/2` there: used for the statements that do not need it) -/
def kG : Scal GaussianInt := ⟨⟨0, 1⟩, 0, 0, 0, star⟩
/-- constants over ℂ -/
noncomputable def kC : Scal ℂ := ⟨Complex.I, 0, 0, 1 / 2, star⟩

example : kG.i * kG.i = -1 ∧ kG.cj = star ∧ star kG.i = -kG.i := ⟨by decide, rfl, by decide⟩
example : kC.i * kC.i = -1 ∧ kC.cj = star ∧ star kC.i = -kC.i ∧ 2 * kC.half = 1 :=
  ⟨by simp [kC], rfl, by simp [kC], by norm_num [kC]⟩
example : NeglExact (Tol.exact : Tol ℂ) := fun x hx => by simpa [Tol.exact] using hx
example : TolExact (Tol.exact : Tol ℂ) := tolExact_exact

/-- a sum with a Y, a gap (qubits 0 and 2, stored in descending order), a complex coefficient, a
    constant, a zero term and a repeated operation set, on 4 > 3 = width qubits -/
def sG : PSum GaussianInt :=
  [⟨[(2, .X), (0, .Y)], ⟨1, 2⟩⟩, ⟨[], ⟨-3, 0⟩⟩, ⟨[(1, .Z)], 0⟩, ⟨[(0, .Y), (2, .X)], ⟨0, 1⟩⟩]

example : SumWF sG := by
  intro t ht
  simp only [sG, List.mem_cons, List.mem_nil_iff, or_false] at ht
  rcases ht with rfl | rfl | rfl | rfl <;> (unfold TermWF; decide)
example : PSum.nQubits sG = 3 ∧ PSum.nQubits sG ≤ 4 := by decide
example : ¬ Simplified Tol.exact sG := by
  intro h; have := h.1; revert this; decide

/-- a simplified sum -/
def sS : PSum GaussianInt := [⟨[(2, .X), (0, .Y)], ⟨1, 2⟩⟩, ⟨[], ⟨-3, 0⟩⟩, ⟨[(1, .Z)], ⟨0, 1⟩⟩]
example : Simplified Tol.exact sS := by
  constructor
  · decide
  · intro t ht
    simp only [sS, List.mem_cons, List.mem_nil_iff, or_false] at ht
    rcases ht with rfl | rfl | rfl <;> decide

/-- the theorems instantiated at the concrete inputs -/
example := sparse_eq_denote kG (by decide) sG
  (by intro t ht
      simp only [sG, List.mem_cons, List.mem_nil_iff, or_false] at ht
      rcases ht with rfl | rfl | rfl | rfl <;> (unfold TermWF; decide)) 4 (by decide)
example : bitrev 3 1 = 4 ∧ bitrev 3 6 = 3 ∧ bitrev 4 3 = 12 := by decide
example : (Mat.ofFn 2 2 (fun i j => (i + 2 * j : ℂ))).r = 2 ^ 1 ∧ 1 ≤ 1 := ⟨rfl, le_refl _⟩
example : ([1 / 2, Complex.I / 2, -1 / 2, 1 / 2] : List ℂ).length = 2 ^ 2 := rfl

end OQ.C09
