/-
  C02 / T10 — TRANSLATION TIE for the built-in gate matrices.
  `harness/translate_t10.py` re-reads `circuits/_matrices.py` with `ast` on every run and regenerates
  `OQ/Generated/TranslatedC02.lean`: one definition `tr_<f>_matrix (S : Scal R) (a … : Ang R) : Mat R` per factory (a mechanical rendering of
  the sympy expression: literals, `cos/sin(p/2)` → half-angle components, `exp(±i p[/2])`, `cos/sin(p)` → expressions DERIVED from the
  half-angle point, `1/sqrt(2)`, `2**(-0.5)` → `S.r`, `/2` → `S.half`, `exp(1j*pi/4)` → `S.z`, matrix product, scalar·matrix,
  `sympy.simplify(M)` → M), and `tr_builtinMatrix` (which factory each gate of `_builtin_gates.py` is bound to, read off the live objects).

  This file proves, for EVERY commutative ring and ALL parameter values,
    * `translated_<f>_matrix_eq` (27):  regenerated definition = hand-written model `Gates.<f>` (the object every other theorem of C02 and
      the models of C01 C07 C08 C16 C18 speak about).  26 of them need NO law at all; `u3` – whose source is the PRODUCT
      rz(φ)·ry(θ)·rz(λ)/exp(−i(φ+λ)/2) passed through `sympy.simplify` – needs i² = −1 and the circle law of φ and λ: the soundness of
      `simplify` is not assumed, the closed form of the model is PROVED equal to the product the code writes down;
    * `translated_builtinMatrix_eq`: the gate-name → factory binding of the code = the model's `Gates.builtinMatrix` on every table row;
    * END-TO-END: unitarity, the self-adjoint flag, the group law, the fixed relations and `Delay = 1` restated ON THE TRANSLATED matrices –
      a flipped sign / swapped entry / exchanged factory in the Python source changes a generated definition and breaks a theorem here at
      build time, for all angles.
  Domain: all of it (the factories never raise on numbers / symbols; a wrong NUMBER of parameters is the TypeError of `gateMatrix`, outside
  `tr_builtinMatrix`'s `some` branch: `translated_builtinMatrix_arity`).
-/
import OQ.Lemmas.C02_TranslatedMatrices
import OQ.Props.C02

set_option linter.unusedSimpArgs false
set_option linter.unnecessarySeqFocus false
set_option linter.unusedTactic false
set_option linter.unreachableTactic false
set_option linter.unusedVariables false

namespace OQ.C02
open OQ OQ.Mat Matrix OQ.Generated OQ.Generated.TranslatedMatrices

section ties
variable {R : Type} [CommRing R]

/-- ties `_matrices.x_matrix` (regenerated `tr_x_matrix`) to the model `Gates.x`: equal as executable matrices over every commutative ring, every constant record; entrywise by ring normalisation -/
theorem translated_x_matrix_eq (k : Scal R) : tr_x_matrix k = Gates.x (R := R) := by
  simp only [tr_x_matrix, Gates.x, Gates.m2, Gates.m4] <;>
    (tie_setup 2 <;> tie_simp [Ang.ehp, Ang.ehm, Ang.eip, Ang.eim, Ang.c, Ang.s, Ang.add, Ang.neg] <;> gate_entries [])

/-- ties `_matrices.y_matrix` (regenerated `tr_y_matrix`) to the model `Gates.y`: equal as executable matrices over every commutative ring, every constant record; entrywise by ring normalisation -/
theorem translated_y_matrix_eq (k : Scal R) : tr_y_matrix k = Gates.y k := by
  simp only [tr_y_matrix, Gates.y, Gates.m2, Gates.m4] <;>
    (tie_setup 2 <;> tie_simp [Ang.ehp, Ang.ehm, Ang.eip, Ang.eim, Ang.c, Ang.s, Ang.add, Ang.neg] <;> gate_entries [])

/-- ties `_matrices.z_matrix` (regenerated `tr_z_matrix`) to the model `Gates.z`: equal as executable matrices over every commutative ring, every constant record; entrywise by ring normalisation -/
theorem translated_z_matrix_eq (k : Scal R) : tr_z_matrix k = Gates.z (R := R) := by
  simp only [tr_z_matrix, Gates.z, Gates.m2, Gates.m4] <;>
    (tie_setup 2 <;> tie_simp [Ang.ehp, Ang.ehm, Ang.eip, Ang.eim, Ang.c, Ang.s, Ang.add, Ang.neg] <;> gate_entries [])

/-- ties `_matrices.h_matrix` (regenerated `tr_h_matrix`) to the model `Gates.h`: equal as executable matrices over every commutative ring, every constant record; entrywise by ring normalisation -/
theorem translated_h_matrix_eq (k : Scal R) : tr_h_matrix k = Gates.h k := by
  simp only [tr_h_matrix, Gates.h, Gates.m2, Gates.m4] <;>
    (tie_setup 2 <;> tie_simp [Ang.ehp, Ang.ehm, Ang.eip, Ang.eim, Ang.c, Ang.s, Ang.add, Ang.neg] <;> gate_entries [])

/-- ties `_matrices.i_matrix` (regenerated `tr_i_matrix`) to the model `Gates.i`: equal as executable matrices over every commutative ring, every constant record; entrywise by ring normalisation -/
theorem translated_i_matrix_eq (k : Scal R) : tr_i_matrix k = Gates.i (R := R) := by
  simp only [tr_i_matrix, Gates.i, Gates.m2, Gates.m4] <;>
    (tie_setup 2 <;> tie_simp [Ang.ehp, Ang.ehm, Ang.eip, Ang.eim, Ang.c, Ang.s, Ang.add, Ang.neg] <;> gate_entries [])

/-- ties `_matrices.s_matrix` (regenerated `tr_s_matrix`) to the model `Gates.s`: equal as executable matrices over every commutative ring, every constant record; entrywise by ring normalisation -/
theorem translated_s_matrix_eq (k : Scal R) : tr_s_matrix k = Gates.s k := by
  simp only [tr_s_matrix, Gates.s, Gates.m2, Gates.m4] <;>
    (tie_setup 2 <;> tie_simp [Ang.ehp, Ang.ehm, Ang.eip, Ang.eim, Ang.c, Ang.s, Ang.add, Ang.neg] <;> gate_entries [])

/-- ties `_matrices.t_matrix` (regenerated `tr_t_matrix`) to the model `Gates.t`: equal as executable matrices over every commutative ring, every constant record; entrywise by ring normalisation -/
theorem translated_t_matrix_eq (k : Scal R) : tr_t_matrix k = Gates.t k := by
  simp only [tr_t_matrix, Gates.t, Gates.m2, Gates.m4] <;>
    (tie_setup 2 <;> tie_simp [Ang.ehp, Ang.ehm, Ang.eip, Ang.eim, Ang.c, Ang.s, Ang.add, Ang.neg] <;> gate_entries [])

/-- ties `_matrices.sx_matrix` (regenerated `tr_sx_matrix`) to the model `Gates.sx`: equal as executable matrices over every commutative ring, every constant record; entrywise by ring normalisation -/
theorem translated_sx_matrix_eq (k : Scal R) : tr_sx_matrix k = Gates.sx k := by
  simp only [tr_sx_matrix, Gates.sx, Gates.m2, Gates.m4] <;>
    (tie_setup 2 <;> tie_simp [Ang.ehp, Ang.ehm, Ang.eip, Ang.eim, Ang.c, Ang.s, Ang.add, Ang.neg] <;> gate_entries [])

/-- ties `_matrices.rx_matrix` (regenerated `tr_rx_matrix`) to the model `Gates.rx`: equal as executable matrices over every commutative ring, every constant record, every angle point (no law needed); entrywise by ring normalisation -/
theorem translated_rx_matrix_eq (k : Scal R) (a : Ang R) : tr_rx_matrix k a = Gates.rx k a := by
  simp only [tr_rx_matrix, Gates.rx, Gates.m2, Gates.m4] <;>
    (tie_setup 2 <;> tie_simp [Ang.ehp, Ang.ehm, Ang.eip, Ang.eim, Ang.c, Ang.s, Ang.add, Ang.neg] <;> gate_entries [])

/-- ties `_matrices.ry_matrix` (regenerated `tr_ry_matrix`) to the model `Gates.ry`: equal as executable matrices over every commutative ring, every constant record, every angle point (no law needed); entrywise by ring normalisation -/
theorem translated_ry_matrix_eq (k : Scal R) (a : Ang R) : tr_ry_matrix k a = Gates.ry a := by
  simp only [tr_ry_matrix, Gates.ry, Gates.m2, Gates.m4] <;>
    (tie_setup 2 <;> tie_simp [Ang.ehp, Ang.ehm, Ang.eip, Ang.eim, Ang.c, Ang.s, Ang.add, Ang.neg] <;> gate_entries [])

/-- ties `_matrices.rz_matrix` (regenerated `tr_rz_matrix`) to the model `Gates.rz`: equal as executable matrices over every commutative ring, every constant record, every angle point (no law needed); entrywise by ring normalisation -/
theorem translated_rz_matrix_eq (k : Scal R) (a : Ang R) : tr_rz_matrix k a = Gates.rz k a := by
  simp only [tr_rz_matrix, Gates.rz, Gates.m2, Gates.m4] <;>
    (tie_setup 2 <;> tie_simp [Ang.ehp, Ang.ehm, Ang.eip, Ang.eim, Ang.c, Ang.s, Ang.add, Ang.neg] <;> gate_entries [])

/-- ties `_matrices.rh_matrix` (regenerated `tr_rh_matrix`) to the model `Gates.rh`: equal as executable matrices over every commutative ring, every constant record, every angle point (no law needed); entrywise by ring normalisation -/
theorem translated_rh_matrix_eq (k : Scal R) (a : Ang R) : tr_rh_matrix k a = Gates.rh k a := by
  simp only [tr_rh_matrix, Gates.rh, Gates.m2, Gates.m4] <;>
    (tie_setup 2 <;> tie_simp [Ang.ehp, Ang.ehm, Ang.eip, Ang.eim, Ang.c, Ang.s, Ang.add, Ang.neg] <;> gate_entries [])

/-- ties `_matrices.phase_matrix` (regenerated `tr_phase_matrix`) to the model `Gates.phase`: equal as executable matrices over every commutative ring, every constant record, every angle point (no law needed); entrywise by ring normalisation -/
theorem translated_phase_matrix_eq (k : Scal R) (a : Ang R) : tr_phase_matrix k a = Gates.phase k a := by
  simp only [tr_phase_matrix, Gates.phase, Gates.m2, Gates.m4] <;>
    (tie_setup 2 <;> tie_simp [Ang.ehp, Ang.ehm, Ang.eip, Ang.eim, Ang.c, Ang.s, Ang.add, Ang.neg] <;> gate_entries [])

/-- ties `_matrices.u3_matrix` = `sympy.simplify(rz(φ)·ry(θ)·rz(λ) / exp(-0.5j(φ+λ)))` – rendered as the PRODUCT it is, `simplify` as the
    identity, the division as multiplication by `exp(+i(φ+λ)/2)` – to the model's closed form `Gates.u3`
    `[[cos θ/2, −e^{iλ} sin θ/2], [e^{iφ} sin θ/2, e^{i(φ+λ)} cos θ/2]]`.  Domain: every commutative ring with i² = −1, every θ, every
    φ, λ on the circle (c² + s² = 1; for real angles always true: `real_angle_meaning`).  Hypotheses: `hii`, `hph`, `hla` (the closed form is
    what simplify needs cos² + sin² = 1 for; without them the two sides differ, e.g. at φ = (2, 0)). -/
theorem translated_u3_matrix_eq {k : Scal R} (hii : k.i * k.i = -1) {th ph la : Ang R}
    (hph : ph.ch * ph.ch + ph.sh * ph.sh = 1) (hla : la.ch * la.ch + la.sh * la.sh = 1) :
    tr_u3_matrix k th ph la = Gates.u3 k th ph la := by
  simp only [tr_u3_matrix, Gates.u3, Gates.m2]
  tie_setup 2
  rw [toM_smul_any,
    toM_mul (Mat.mul (tr_rz_matrix k ph) (tr_ry_matrix k th)) (tr_rz_matrix k la) 2 2 2 rfl rfl rfl rfl,
    toM_mul (tr_rz_matrix k ph) (tr_ry_matrix k th) 2 2 2 rfl rfl rfl rfl]
  tie_simp [tr_rz_matrix, tr_ry_matrix, Ang.ehp, Ang.ehm, Ang.eip, Ang.eim, Ang.c, Ang.s, Ang.add, Ang.neg]
  gate_entries []

/-- ties `_matrices.gpi_matrix` (regenerated `tr_gpi_matrix`) to the model `Gates.gpi`: equal as executable matrices over every commutative ring, every constant record, every angle point (no law needed); entrywise by ring normalisation -/
theorem translated_gpi_matrix_eq (k : Scal R) (a : Ang R) : tr_gpi_matrix k a = Gates.gpi k a := by
  simp only [tr_gpi_matrix, Gates.gpi, Gates.m2, Gates.m4] <;>
    (tie_setup 2 <;> tie_simp [Ang.ehp, Ang.ehm, Ang.eip, Ang.eim, Ang.c, Ang.s, Ang.add, Ang.neg] <;> gate_entries [])

/-- ties `_matrices.gpi2_matrix` (regenerated `tr_gpi2_matrix`) to the model `Gates.gpi2`: equal as executable matrices over every commutative ring, every constant record, every angle point (no law needed); entrywise by ring normalisation -/
theorem translated_gpi2_matrix_eq (k : Scal R) (a : Ang R) : tr_gpi2_matrix k a = Gates.gpi2 k a := by
  simp only [tr_gpi2_matrix, Gates.gpi2, Gates.m2, Gates.m4] <;>
    (tie_setup 2 <;> tie_simp [Ang.ehp, Ang.ehm, Ang.eip, Ang.eim, Ang.c, Ang.s, Ang.add, Ang.neg] <;> gate_entries [])

/-- ties `_matrices.cnot_matrix` (regenerated `tr_cnot_matrix`) to the model `Gates.cnot`: equal as executable matrices over every commutative ring, every constant record; entrywise by ring normalisation -/
theorem translated_cnot_matrix_eq (k : Scal R) : tr_cnot_matrix k = Gates.cnot (R := R) := by
  simp only [tr_cnot_matrix, Gates.cnot, Gates.m2, Gates.m4] <;>
    (tie_setup 4 <;> tie_simp [Ang.ehp, Ang.ehm, Ang.eip, Ang.eim, Ang.c, Ang.s, Ang.add, Ang.neg] <;> gate_entries [])

/-- ties `_matrices.cz_matrix` (regenerated `tr_cz_matrix`) to the model `Gates.cz`: equal as executable matrices over every commutative ring, every constant record; entrywise by ring normalisation -/
theorem translated_cz_matrix_eq (k : Scal R) : tr_cz_matrix k = Gates.cz (R := R) := by
  simp only [tr_cz_matrix, Gates.cz, Gates.m2, Gates.m4] <;>
    (tie_setup 4 <;> tie_simp [Ang.ehp, Ang.ehm, Ang.eip, Ang.eim, Ang.c, Ang.s, Ang.add, Ang.neg] <;> gate_entries [])

/-- ties `_matrices.swap_matrix` (regenerated `tr_swap_matrix`) to the model `Gates.swap`: equal as executable matrices over every commutative ring, every constant record; entrywise by ring normalisation -/
theorem translated_swap_matrix_eq (k : Scal R) : tr_swap_matrix k = Gates.swap (R := R) := by
  simp only [tr_swap_matrix, Gates.swap, Gates.m2, Gates.m4] <;>
    (tie_setup 4 <;> tie_simp [Ang.ehp, Ang.ehm, Ang.eip, Ang.eim, Ang.c, Ang.s, Ang.add, Ang.neg] <;> gate_entries [])

/-- ties `_matrices.iswap_matrix` (regenerated `tr_iswap_matrix`) to the model `Gates.iswap`: equal as executable matrices over every commutative ring, every constant record; entrywise by ring normalisation -/
theorem translated_iswap_matrix_eq (k : Scal R) : tr_iswap_matrix k = Gates.iswap k := by
  simp only [tr_iswap_matrix, Gates.iswap, Gates.m2, Gates.m4] <;>
    (tie_setup 4 <;> tie_simp [Ang.ehp, Ang.ehm, Ang.eip, Ang.eim, Ang.c, Ang.s, Ang.add, Ang.neg] <;> gate_entries [])

/-- ties `_matrices.cphase_matrix` (regenerated `tr_cphase_matrix`) to the model `Gates.cphase`: equal as executable matrices over every commutative ring, every constant record, every angle point (no law needed); entrywise by ring normalisation -/
theorem translated_cphase_matrix_eq (k : Scal R) (a : Ang R) : tr_cphase_matrix k a = Gates.cphase k a := by
  simp only [tr_cphase_matrix, Gates.cphase, Gates.m2, Gates.m4] <;>
    (tie_setup 4 <;> tie_simp [Ang.ehp, Ang.ehm, Ang.eip, Ang.eim, Ang.c, Ang.s, Ang.add, Ang.neg] <;> gate_entries [])

/-- ties `_matrices.xx_matrix` (regenerated `tr_xx_matrix`) to the model `Gates.xx`: equal as executable matrices over every commutative ring, every constant record, every angle point (no law needed); entrywise by ring normalisation -/
theorem translated_xx_matrix_eq (k : Scal R) (a : Ang R) : tr_xx_matrix k a = Gates.xx k a := by
  simp only [tr_xx_matrix, Gates.xx, Gates.m2, Gates.m4] <;>
    (tie_setup 4 <;> tie_simp [Ang.ehp, Ang.ehm, Ang.eip, Ang.eim, Ang.c, Ang.s, Ang.add, Ang.neg] <;> gate_entries [])

/-- ties `_matrices.yy_matrix` (regenerated `tr_yy_matrix`) to the model `Gates.yy`: equal as executable matrices over every commutative ring, every constant record, every angle point (no law needed); entrywise by ring normalisation -/
theorem translated_yy_matrix_eq (k : Scal R) (a : Ang R) : tr_yy_matrix k a = Gates.yy k a := by
  simp only [tr_yy_matrix, Gates.yy, Gates.m2, Gates.m4] <;>
    (tie_setup 4 <;> tie_simp [Ang.ehp, Ang.ehm, Ang.eip, Ang.eim, Ang.c, Ang.s, Ang.add, Ang.neg] <;> gate_entries [])

/-- ties `_matrices.zz_matrix` (regenerated `tr_zz_matrix`) to the model `Gates.zz`: equal as executable matrices over every commutative ring, every constant record, every angle point (no law needed); entrywise by ring normalisation -/
theorem translated_zz_matrix_eq (k : Scal R) (a : Ang R) : tr_zz_matrix k a = Gates.zz k a := by
  simp only [tr_zz_matrix, Gates.zz, Gates.m2, Gates.m4] <;>
    (tie_setup 4 <;> tie_simp [Ang.ehp, Ang.ehm, Ang.eip, Ang.eim, Ang.c, Ang.s, Ang.add, Ang.neg] <;> gate_entries [])

/-- ties `_matrices.xy_matrix` (regenerated `tr_xy_matrix`) to the model `Gates.xy`: equal as executable matrices over every commutative ring, every constant record, every angle point (no law needed); entrywise by ring normalisation -/
theorem translated_xy_matrix_eq (k : Scal R) (a : Ang R) : tr_xy_matrix k a = Gates.xy k a := by
  simp only [tr_xy_matrix, Gates.xy, Gates.m2, Gates.m4] <;>
    (tie_setup 4 <;> tie_simp [Ang.ehp, Ang.ehm, Ang.eip, Ang.eim, Ang.c, Ang.s, Ang.add, Ang.neg] <;> gate_entries [])

/-- ties `_matrices.ms_matrix` (regenerated `tr_ms_matrix`) to the model `Gates.ms`: equal as executable matrices over every commutative ring, every constant record, every angle point (no law needed); entrywise by ring normalisation -/
theorem translated_ms_matrix_eq (k : Scal R) (a b : Ang R) : tr_ms_matrix k a b = Gates.ms k a b := by
  simp only [tr_ms_matrix, Gates.ms, Gates.m2, Gates.m4] <;>
    (tie_setup 4 <;> tie_simp [Ang.ehp, Ang.ehm, Ang.eip, Ang.eim, Ang.c, Ang.s, Ang.add, Ang.neg] <;> gate_entries [])

/-- ties `_matrices.delay_matrix` (regenerated `tr_delay_matrix`) to the model `Gates.delay`: equal as executable matrices over every commutative ring, every constant record, every angle point (no law needed); entrywise by ring normalisation -/
theorem translated_delay_matrix_eq (k : Scal R) (a : Ang R) : tr_delay_matrix k a = Gates.delay (R := R) := by
  simp only [tr_delay_matrix, Gates.delay, Gates.m2, Gates.m4, tr_i_matrix, Gates.i] <;>
    (tie_setup 2 <;> tie_simp [Ang.ehp, Ang.ehm, Ang.eip, Ang.eim, Ang.c, Ang.s, Ang.add, Ang.neg] <;> gate_entries [])

/-! ## the rules of the translator that are not plain syntax are sound -/

/-- soundness of the translator's RULES (harness/translate_t10.py docstring): `M / sympy.exp(z)` is rendered as multiplication by the
    rendering of `exp(−z)` – the two renderings are inverse to each other on the circle, and the sum of two angle points on the circle
    is on the circle (so the rule applies to `exp(-0.5j*(phi+lambda_))`); `x / 2` ↦ `x * S.half` and `sympy.sqrt(2)` ↦ `(1+1) * S.r`,
    `x / sqrt(2)` ↦ `x * S.r` are division by 2 and by a square root of 2 under the laws `2·half = 1`, `2·r·r = 1` -/
theorem translator_rules_sound {k : Scal R} (hii : k.i * k.i = -1) (a b : Ang R)
    (ha : a.ch * a.ch + a.sh * a.sh = 1) (hb : b.ch * b.ch + b.sh * b.sh = 1) :
    a.ehp k * a.ehm k = 1 ∧ a.eip k * a.eim k = 1 ∧
    (Ang.add a b).ch * (Ang.add a b).ch + (Ang.add a b).sh * (Ang.add a b).sh = 1 ∧
    (Ang.neg a).ch * (Ang.neg a).ch + (Ang.neg a).sh * (Ang.neg a).sh = 1 ∧
    (2 * k.half = 1 → ∀ x : R, (1 + 1) * (x * k.half) = x) ∧
    (2 * k.r * k.r = 1 → ((1 + 1) * k.r) * ((1 + 1) * k.r) = 1 + 1 ∧ ∀ x : R, (x * k.r) * ((1 + 1) * k.r) = x) := by
  simp only [Ang.ehp, Ang.ehm, Ang.eip, Ang.eim, Ang.c, Ang.s, Ang.add, Ang.neg]
  refine ⟨by grind, by grind, by grind, by grind, ?_, ?_⟩
  · intro h x; grind
  · intro h; exact ⟨by grind, fun x => by grind⟩

/-! ## which factory belongs to which gate -/

/-- ties the BINDING gate name → matrix factory of `_builtin_gates.py` (regenerated `tr_builtinMatrix`, read off the live gate objects:
    `<gate>.matrix = matrix_factory(*params)`) to the model's `Gates.builtinMatrix`, for every row of the generated gate table and every
    parameter list of the row's arity whose points are on the circle (needed for U3 only), in every commutative ring with i² = −1 -/
theorem translated_builtinMatrix_eq {k : Scal R} (hii : k.i * k.i = -1) :
    ∀ row ∈ gateTable, ∀ ps : List (Ang R), ps.length = Row.numParams row →
      (∀ a ∈ ps, a.ch * a.ch + a.sh * a.sh = 1) →
      tr_builtinMatrix k (Row.name row) ps = Gates.builtinMatrix k (Row.name row) ps := by
  table_rows
  · exact forall_len0 fun _ => congrArg some (translated_x_matrix_eq k)
  · exact forall_len0 fun _ => congrArg some (translated_y_matrix_eq k)
  · exact forall_len0 fun _ => congrArg some (translated_z_matrix_eq k)
  · exact forall_len0 fun _ => congrArg some (translated_h_matrix_eq k)
  · exact forall_len0 fun _ => congrArg some (translated_i_matrix_eq k)
  · exact forall_len0 fun _ => congrArg some (translated_s_matrix_eq k)
  · exact forall_len0 fun _ => congrArg some (translated_sx_matrix_eq k)
  · exact forall_len0 fun _ => congrArg some (translated_t_matrix_eq k)
  · exact forall_len1 fun a _ => congrArg some (translated_rx_matrix_eq k a)
  · exact forall_len1 fun a _ => congrArg some (translated_ry_matrix_eq k a)
  · exact forall_len1 fun a _ => congrArg some (translated_rz_matrix_eq k a)
  · exact forall_len1 fun a _ => congrArg some (translated_rh_matrix_eq k a)
  · exact forall_len1 fun a _ => congrArg some (translated_phase_matrix_eq k a)
  · exact forall_len3 fun a b c hv => congrArg some (translated_u3_matrix_eq hii (hv b (by simp)) (hv c (by simp)))
  · exact forall_len1 fun a _ => congrArg some (translated_gpi_matrix_eq k a)
  · exact forall_len1 fun a _ => congrArg some (translated_gpi2_matrix_eq k a)
  · exact forall_len0 fun _ => congrArg some (translated_cnot_matrix_eq k)
  · exact forall_len0 fun _ => congrArg some (translated_cz_matrix_eq k)
  · exact forall_len0 fun _ => congrArg some (translated_swap_matrix_eq k)
  · exact forall_len0 fun _ => congrArg some (translated_iswap_matrix_eq k)
  · exact forall_len1 fun a _ => congrArg some (translated_cphase_matrix_eq k a)
  · exact forall_len1 fun a _ => congrArg some (translated_xx_matrix_eq k a)
  · exact forall_len1 fun a _ => congrArg some (translated_yy_matrix_eq k a)
  · exact forall_len1 fun a _ => congrArg some (translated_zz_matrix_eq k a)
  · exact forall_len1 fun a _ => congrArg some (translated_xy_matrix_eq k a)
  · exact forall_len2 fun a b _ => congrArg some (translated_ms_matrix_eq k a b)
  · exact forall_len1 fun a _ => congrArg some (translated_delay_matrix_eq k a)

/-- the translated binding answers exactly on the arity of the factory (a wrong number of parameters is Python's TypeError, the
    `.error .type` of `gateMatrix`): `none` for every row at every parameter list of another length, and for every unknown name -/
theorem translated_builtinMatrix_arity (k : Scal R) :
    (∀ row ∈ gateTable, ∀ ps : List (Ang R), ps.length ≠ Row.numParams row → tr_builtinMatrix k (Row.name row) ps = none) ∧
    (∀ name, name ∉ gateTable.map Row.name → ∀ ps : List (Ang R), tr_builtinMatrix k name ps = none) := by
  constructor
  · table_rows
    all_goals
      intro ps hne
      simp only [Row.numParams, Row.name] at hne ⊢
      rcases ps with _ | ⟨a, _ | ⟨b, _ | ⟨c, _ | ⟨d, l⟩⟩⟩⟩ <;> first | rfl | exact absurd rfl hne
  · intro name hn ps
    simp only [gateTable, List.map_cons, List.map_nil, Row.name, List.mem_cons, List.not_mem_nil, or_false, not_or] at hn
    unfold tr_builtinMatrix
    split <;> first | rfl | (exfalso; simp_all)

end ties

/-! ## END-TO-END: the property theorems of `Props/C02.lean` restated on the TRANSLATED matrices -/

variable {R : Type} [CommRing R] [StarRing R] {k : Scal R}

/-- END-TO-END `builtin_unitary` on the translated code: for every built-in gate of the live table, the matrix the TRANSLATED factory
    bound to it returns is a 2^n × 2^n unitary, at every list of valid angle points (all real parameter values: `translated_real_unitary`) -/
theorem translated_builtin_unitary (hk : Laws k) :
    ∀ row ∈ gateTable, ∀ ps : List (Ang R), ps.length = Row.numParams row → (∀ a ∈ ps, Valid a) →
      ∃ M, tr_builtinMatrix k (Row.name row) ps = some M ∧ IsUnitaryOf (2 ^ Row.numQubits row) M := by
  intro row hrow ps hl hv
  obtain ⟨M, hM, hU⟩ := builtin_unitary hk row hrow ps hl hv
  refine ⟨M, ?_, hU⟩
  rw [translated_builtinMatrix_eq hk.ii row hrow ps hl (fun a ha => (hv a ha).circle)]
  exact (gateMatrix_row k row hrow ps hl M).mp hM

/-- END-TO-END `flag_hermitian` on the translated code: the translated matrix of every gate FLAGGED self-adjoint in the live table equals
    its own conjugate transpose, at all valid angle points -/
theorem translated_flag_hermitian (hk : Laws k) :
    ∀ row ∈ gateTable, Row.isHermitian row = true →
      ∀ ps : List (Ang R), ps.length = Row.numParams row → (∀ a ∈ ps, Valid a) →
      ∃ M, tr_builtinMatrix k (Row.name row) ps = some M ∧ IsSelfAdjointOf (2 ^ Row.numQubits row) M := by
  intro row hrow hf ps hl hv
  obtain ⟨M, hM, hS⟩ := flag_hermitian hk row hrow hf ps hl hv
  refine ⟨M, ?_, hS⟩
  rw [translated_builtinMatrix_eq hk.ii row hrow ps hl (fun a ha => (hv a ha).circle)]
  exact (gateMatrix_row k row hrow ps hl M).mp hM

/-- END-TO-END at R = ℂ: the translated matrix of every built-in gate at every list of REAL parameter values (the angle point of θ is
    (cos θ/2, sin θ/2), so the renderings are the code's cos, sin, exp: `real_angle_meaning`) is unitary -/
theorem translated_real_unitary :
    ∀ row ∈ gateTable, ∀ θs : List ℝ, θs.length = Row.numParams row →
      ∃ M, tr_builtinMatrix kC (Row.name row) (θs.map angR) = some M ∧ IsUnitaryOf (2 ^ Row.numQubits row) M := by
  intro row hrow θs hl
  refine translated_builtin_unitary kC_laws row hrow _ (by simpa using hl) ?_
  intro a ha
  obtain ⟨θ, _, rfl⟩ := List.mem_map.mp ha
  exact angR_valid θ

/-- END-TO-END for the values the self-check of the translator computes (R = ℚ(ζ₈), rational circle points): exactly unitary -/
theorem translated_driver_unitary :
    ∀ row ∈ gateTable, ∀ ps : List (Rat × Rat), ps.length = Row.numParams row →
      (∀ p ∈ ps, p.1 * p.1 + p.2 * p.2 = 1) →
      ∃ M, tr_builtinMatrix Scal.cyc8 (Row.name row) (ps.map fun p => ⟨Cyc8.ofRat p.1, Cyc8.ofRat p.2⟩) = some M ∧
        IsUnitaryOf (2 ^ Row.numQubits row) M := by
  intro row hrow ps hl hp
  refine translated_builtin_unitary cyc8_laws row hrow _ (by simpa using hl) ?_
  intro a ha
  obtain ⟨p, hpm, rfl⟩ := List.mem_map.mp ha
  exact cyc8_valid_of_rat _ _ (hp p hpm)

omit [StarRing R] in
/-- END-TO-END `delay_identity`: the translated `delay_matrix` is the identity for EVERY duration, and it is what the gate "Delay" is bound to -/
theorem translated_delay_identity (k : Scal R) (d : Ang R) :
    tr_builtinMatrix k "Delay" [d] = some (tr_delay_matrix k d) ∧ toM 2 2 (tr_delay_matrix k d) = 1 := by
  refine ⟨rfl, ?_⟩
  rw [translated_delay_matrix_eq]
  exact (delay_identity k d).2

/-- END-TO-END `rot_mul`: the group law G(a)·G(b) = G(a+b) of the ten one-parameter families, on the translated factories, all angle points -/
theorem translated_rot_mul (hk : Laws k) (a b : Ang R) :
    toM 2 2 (tr_rx_matrix k a) * toM 2 2 (tr_rx_matrix k b) = toM 2 2 (tr_rx_matrix k (Ang.add a b)) ∧
    toM 2 2 (tr_ry_matrix k a) * toM 2 2 (tr_ry_matrix k b) = toM 2 2 (tr_ry_matrix k (Ang.add a b)) ∧
    toM 2 2 (tr_rz_matrix k a) * toM 2 2 (tr_rz_matrix k b) = toM 2 2 (tr_rz_matrix k (Ang.add a b)) ∧
    toM 2 2 (tr_rh_matrix k a) * toM 2 2 (tr_rh_matrix k b) = toM 2 2 (tr_rh_matrix k (Ang.add a b)) ∧
    toM 2 2 (tr_phase_matrix k a) * toM 2 2 (tr_phase_matrix k b) = toM 2 2 (tr_phase_matrix k (Ang.add a b)) ∧
    toM 4 4 (tr_cphase_matrix k a) * toM 4 4 (tr_cphase_matrix k b) = toM 4 4 (tr_cphase_matrix k (Ang.add a b)) ∧
    toM 4 4 (tr_xx_matrix k a) * toM 4 4 (tr_xx_matrix k b) = toM 4 4 (tr_xx_matrix k (Ang.add a b)) ∧
    toM 4 4 (tr_yy_matrix k a) * toM 4 4 (tr_yy_matrix k b) = toM 4 4 (tr_yy_matrix k (Ang.add a b)) ∧
    toM 4 4 (tr_zz_matrix k a) * toM 4 4 (tr_zz_matrix k b) = toM 4 4 (tr_zz_matrix k (Ang.add a b)) ∧
    toM 4 4 (tr_xy_matrix k a) * toM 4 4 (tr_xy_matrix k b) = toM 4 4 (tr_xy_matrix k (Ang.add a b)) := by
  simp only [translated_rx_matrix_eq, translated_ry_matrix_eq, translated_rz_matrix_eq, translated_rh_matrix_eq,
    translated_phase_matrix_eq, translated_cphase_matrix_eq, translated_xx_matrix_eq, translated_yy_matrix_eq,
    translated_zz_matrix_eq, translated_xy_matrix_eq]
  exact rot_mul hk a b

/-- END-TO-END fixed relations on the translated factories: S·S = Z, T·T = S, SX·SX = X, H·Z·H = X, and CNOT / CZ are the controlled X / Z -/
theorem translated_fixed_relations (hk : Laws k) :
    toM 2 2 (tr_s_matrix k) * toM 2 2 (tr_s_matrix k) = toM 2 2 (tr_z_matrix k) ∧
    toM 2 2 (tr_t_matrix k) * toM 2 2 (tr_t_matrix k) = toM 2 2 (tr_s_matrix k) ∧
    toM 2 2 (tr_sx_matrix k) * toM 2 2 (tr_sx_matrix k) = toM 2 2 (tr_x_matrix k) ∧
    toM 2 2 (tr_h_matrix k) * toM 2 2 (tr_z_matrix k) * toM 2 2 (tr_h_matrix k) = toM 2 2 (tr_x_matrix k) ∧
    toM 4 4 (tr_cnot_matrix k) = controlled1 (toM 2 2 (tr_x_matrix k)) ∧
    toM 4 4 (tr_cz_matrix k) = controlled1 (toM 2 2 (tr_z_matrix k)) := by
  simp only [translated_s_matrix_eq, translated_t_matrix_eq, translated_sx_matrix_eq, translated_h_matrix_eq,
    translated_z_matrix_eq, translated_x_matrix_eq, translated_cnot_matrix_eq, translated_cz_matrix_eq]
  exact ⟨s_mul_s hk, t_mul_t hk, sx_mul_sx hk, h_z_h hk, cnot_cz_controlled.1, cnot_cz_controlled.2⟩

/-! ## non-vacuity: the translated definitions compute, on concrete points, what the model computes – and are not trivial -/

/-- the hypotheses of the u3 tie are satisfiable (and satisfied by every real angle) -/
example (θ : ℝ) : (angR θ).ch * (angR θ).ch + (angR θ).sh * (angR θ).sh = 1 := (angR_valid θ).circle
example : kC.i * kC.i = -1 := kC_laws.ii
/-- the translated U3 (a product of three translated matrices and a phase) at three different rational circle points, evaluated exactly
    in ℚ(ζ₈), IS the closed form – and is not the identity -/
example : (tr_u3_matrix Scal.cyc8 ⟨Cyc8.ofRat (3/5), Cyc8.ofRat (4/5)⟩ ⟨Cyc8.ofRat (5/13), Cyc8.ofRat (12/13)⟩
            ⟨Cyc8.ofRat (8/17), Cyc8.ofRat (15/17)⟩).toLists =
          (Gates.u3 Scal.cyc8 ⟨Cyc8.ofRat (3/5), Cyc8.ofRat (4/5)⟩ ⟨Cyc8.ofRat (5/13), Cyc8.ofRat (12/13)⟩
            ⟨Cyc8.ofRat (8/17), Cyc8.ofRat (15/17)⟩).toLists := by decide +kernel
example : (tr_u3_matrix Scal.cyc8 ⟨Cyc8.ofRat (3/5), Cyc8.ofRat (4/5)⟩ ⟨Cyc8.ofRat (5/13), Cyc8.ofRat (12/13)⟩
            ⟨Cyc8.ofRat (8/17), Cyc8.ofRat (15/17)⟩).toLists ≠ (Gates.i (R := Cyc8)).toLists := by decide +kernel
/-- OFF the circle the product form and the closed form differ (the hypotheses of `translated_u3_matrix_eq` are needed) -/
example : (tr_u3_matrix Scal.cyc8 ⟨1, 0⟩ ⟨2, 0⟩ ⟨1, 0⟩).toLists ≠ (Gates.u3 Scal.cyc8 ⟨1, 0⟩ ⟨2, 0⟩ ⟨1, 0⟩).toLists := by
  decide +kernel
/-- translated MS at two rational points: exactly unitary (executable adjoint and product), not diagonal -/
example : (((tr_ms_matrix Scal.cyc8 ⟨Cyc8.ofRat (3/5), Cyc8.ofRat (4/5)⟩ ⟨Cyc8.ofRat (5/13), Cyc8.ofRat (12/13)⟩).adjoint).mul
            (tr_ms_matrix Scal.cyc8 ⟨Cyc8.ofRat (3/5), Cyc8.ofRat (4/5)⟩ ⟨Cyc8.ofRat (5/13), Cyc8.ofRat (12/13)⟩)).toLists =
          (Mat.identity (R := Cyc8) 4).toLists := by decide +kernel
example : (tr_ms_matrix Scal.cyc8 ⟨Cyc8.ofRat (3/5), Cyc8.ofRat (4/5)⟩ ⟨Cyc8.ofRat (5/13), Cyc8.ofRat (12/13)⟩).get 0 3 ≠ 0 := by
  decide +kernel
/-- the binding is total on the table rows and rejects a wrong arity / an unknown name -/
example : (tr_builtinMatrix Scal.cyc8 "RH" [⟨Cyc8.ofRat (3/5), Cyc8.ofRat (4/5)⟩]).isSome = true ∧
          (tr_builtinMatrix Scal.cyc8 "RH" []).isSome = false ∧ (tr_builtinMatrix Scal.cyc8 "FOO" []).isSome = false := by
  decide +kernel
/-- H as translated (`float(1/np.sqrt(2))` ↦ `1 * S.r`) squares to the identity in ℚ(ζ₈) -/
example : ((tr_h_matrix Scal.cyc8).mul (tr_h_matrix Scal.cyc8)).toLists = (Mat.identity (R := Cyc8) 2).toLists := by decide +kernel

end OQ.C02
