/- C15 — PROPERTY THEOREM (translation tie): `estimation._estimation.split_estimation_tasks_to_measure`.
   `OQ.Generated.Translated.split_estimation_tasks_to_measure` is REGENERATED from /repo's current Python source on every run
   (harness/translate.py → OQ/Generated/TranslatedC15.lean); tasks are opaque objects, the two attributes the function reads
   (`task.operator.is_constant`, `task.number_of_shots`) are parameters. -/
import OQ.Generated.TranslatedC15
import OQ.Lemmas.C15_Translated
namespace OQ.C15
open OQ.Generated

/-- TRANSLATION TIE: the `for i, task in enumerate(...)` loop of `split_estimation_tasks_to_measure` regenerated from the
    current Python source is the model's `splitTasks` (on which `split_partition`, `estimate_one_per_task` … are proved): the same
    two task lists and the same two index lists, for EVERY task list and whatever the attributes return. -/
theorem translated_split_estimation_tasks_eq {C : Type} (tasks : List (Task C)) :
    Translated.split_estimation_tasks_to_measure (fun t : Task C => t.op.isConstant) (fun t => t.shots) tasks
      = ((splitTasks tasks).toMeasure, (splitTasks tasks).notToMeasure,
         (splitTasks tasks).idxMeasure.map Int.ofNat, (splitTasks tasks).idxNot.map Int.ofNat) := by
  have h := split_fold tasks 0 ⟨[], [], [], []⟩
  unfold Translated.split_estimation_tasks_to_measure splitTasks
  simp only [List.map_nil] at h
  have h1 := congrArg (fun r => r.2.2.2) h
  have h2 := congrArg (fun r => r.2.1) h
  have h3 := congrArg (fun r => r.2.2.1) h
  have h4 := congrArg (fun r => r.1) h
  simp only at h1 h2 h3 h4
  rw [← h1, ← h2, ← h3, ← h4]

/-! non-vacuity (tasks 7 and 0 are "constant" resp. zero-shot) -/
example : Translated.split_estimation_tasks_to_measure (fun n : Nat => n == 7) (fun n => if n = 0 then some 0 else some 5)
    [7, 3, 0, 4] = ([3, 4], [7, 0], [1, 3], [0, 2]) := by decide
end OQ.C15
