/- C01 — PROPERTY THEOREMS (translation ties): the Lean definitions regenerated from the current Python
   source of `_unitary_tools._permute` / `_permutation_making_qubits_adjacent` equal the model. -/
import OQ.Generated.TranslatedC01
import OQ.Model.Lift
import OQ.Lemmas.Translated
import Mathlib.Tactic.Linarith
namespace OQ.C01
open OQ.Generated OQ.Lift

/-- TRANSLATION TIE: `_permute` regenerated from the current Python source is the model's `permute`. -/
theorem translated_permute_eq (v p : List Nat) :
    Translated.permute (v.map Int.ofNat) (p.map Int.ofNat) = (permute v p).map Int.ofNat := by
  unfold Translated.permute permute
  simp only [List.map_map]
  apply List.map_congr_left
  intro i _
  simp only [Function.comp, Int.toNat_natCast, Int.ofNat_eq_natCast]
  rw [List.getD_eq_getElem?_getD, List.getD_eq_getElem?_getD, List.getElem?_map]
  cases v[i]? <;> simp

private theorem contains_map_ofNat (qs : List Nat) (i : Nat) :
    (qs.map Int.ofNat).contains (Int.ofNat i) = qs.contains i := by
  induction qs with
  | nil => rfl
  | cons q qs ih =>
    simp only [List.map_cons, List.contains_cons, ih]
    congr 1
    simp [Int.ofNat_eq_natCast]

/-- TRANSLATION TIE: `_permutation_making_qubits_adjacent` regenerated from the current Python source
    is the model's `permMakingAdjacent`. -/
theorem translated_permMakingAdjacent_eq (qs : List Nat) (n : Nat) :
    Translated.permutation_making_qubits_adjacent (qs.map Int.ofNat) (n : Int)
      = (permMakingAdjacent qs n).map Int.ofNat := by
  unfold Translated.permutation_making_qubits_adjacent permMakingAdjacent
  simp only [List.map_append, Int.toNat_natCast, List.map_id']
  congr 1
  rw [List.filter_map]
  congr 1
  apply List.filter_congr
  intro i _
  simp only [Function.comp]
  rw [contains_map_ofNat]

open OQ.Py OQ.Tr in
/-- TRANSLATION TIE: `_basis_bitstring(i, n)` (= `bin(i)[2:].zfill(n)` digit by digit) regenerated from the current
    Python source is the model's `basisBitstring` — bit `q` of `i`, qubit 0 most significant — for every width `n ≥ 1` and
    every `i < 2^n`. -/
theorem translated_basis_bitstring_eq (i n : Nat) (hn : 1 ≤ n) (hi : i < 2 ^ n) :
    Translated.basis_bitstring (i : Int) (n : Int) = (OQ.Lift.basisBitstring i n).map Int.ofNat := by
  unfold Translated.basis_bitstring
  rw [sliceFrom_bin]
  unfold binDigits
  rw [zfill_digits _ (binDigitsFuel_ne_nil _ _)
    (fun d hd => Nat.lt_trans (binDigitsFuel_lt_two _ _ d hd) (by decide))]
  rw [map_charDigit_digitChar]
  · rw [binDigitsFuel_eq, ← bits_eq_basisBitstring, ← OQ.C04.formatBin_eq_bits n i hn hi]
    rfl
  · intro d hd
    simp only [List.mem_append, List.mem_replicate] at hd
    rcases hd with h | h
    · omega
    · exact Nat.lt_trans (binDigitsFuel_lt_two _ _ d h) (by decide)

/-- width 0: Python gives `[0]` (`zfill` never truncates); `_permute` with the empty order discards it -/
theorem translated_basis_bitstring_zero : Translated.basis_bitstring 0 0 = [0] := by decide
end OQ.C01
