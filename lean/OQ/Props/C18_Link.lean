/-
  C18 ∘ C01 ∘ C02 — LINKED THEOREMS: the decomposition theorems of `OQ.Props.C18`, stated there for an abstract
  `Placement` and an assumed action `denote E k ops = some U`, composed with
    * `OQ.Props.C01` (`toUnitary_ordered_product`: the matrix `Circuit.to_unitary()` RETURNS is the ordered product
      of the gates placed by `Spec.lift` along `sigmaOf`), and
    * `OQ.Props.C02` (`builtin_dim`: every gate of the generated table has the dimension of its arity;
      `u3_is_rz_ry_rz`: the table's U3 matrix is e^{i(φ+λ)/2}·RZ(φ)·RY(θ)·RZ(λ)),
  into END-TO-END statements about the EXECUTABLE unitary `circuitUnitary` (= `Lift.toUnitary`, what the model
  driver prints and the harness compares with the library's `to_unitary()`).
  Helper lemmas: OQ/Lemmas/C18_Link.lean.

  What is closed.
    * hypothesis `hU : denote E k ops = some U` of `decompose_plain_up_to_phase`, `decompose_up_to_phase_partial`,
      `decompose_controlled_partial`, `decompose_plain_up_to_phase_complex`: replaced by "`to_unitary()` of the
      input circuit returns `U`" (`circuitUnitary k c = some U`), `E` fixed to the placement the code implements;
    * their conclusion `∃ U', denote E k out = some U' ∧ …`: replaced by "`to_unitary()` of the decomposed circuit
      returns `U'`" and an ENTRYWISE relation of the two returned matrices;
    * the shape side condition `WellShaped` (which the executable embedding, unlike numpy's `@`, does not check) is
      discharged for every gate of the built-in table by C02 (`wellShaped_of_table`), and `BuiltinU3` with it.
  What stays open is exactly what is open in `OQ.Props.C18` (F9): controlled U3s with e^{i(φ+λ)/2} ≠ 1.
-/
import OQ.Props.C18
import OQ.Props.C01
import OQ.Props.C02
import OQ.Lemmas.C18_Link
set_option linter.unusedSectionVars false
namespace OQ.C18.Link
open Matrix OQ OQ.Spec OQ.C18 OQ.Lift

/-! ## C18's semantics at the code's placement is C01's semantics; the executable unitary realises it -/
section Semantics
variable {R : Type} [CommRing R] [StarRing R]

/-- the placement the code implements is a placement through `OQ.Spec.lift` in the sense of C18
    (`Placement.ofLift`): on a duplicate-free tuple inside the register it is C01's `Spec.lift (sigmaOf qs n)`
    of the MSB-first re-indexed gate matrix. -/
theorem stdPlacement_is_spec_lift (n : Nat) (qs : List Nat) (hd : qs.Nodup) (hlt : ∀ q ∈ qs, q < n)
    (m : Mat R) :
    (stdPlacement R n).emb qs (Mat.toM (2 ^ qs.length) (2 ^ qs.length) m) =
      Spec.lift (C01.sigmaOf qs n hd hlt) (C01.toBV qs.length m) :=
  stdPlacement_emb n qs hd hlt _

/-- C18's action of an operation list, at the code's placement, IS C01's specification `circSem` of the same
    gates (ordered product, first operation rightmost, each gate on exactly its qubits). -/
theorem denote_is_circSem (n : Nat) (k : Scal R) (ops : List (Operation (Ang R) R)) (l : List (Lift.Op R))
    (hl : liftOps k ops = some l) (hv : ∀ o ∈ l, C01.OpValid n o) :
    denote (stdPlacement R n) k ops = some (C01.circSem n (l.map C01.Oper.gate)) :=
  denote_std n k ops l hl hv

/-- **discharges `hU`**: if `to_unitary()` of a circuit of well-shaped gates returns `U`, then `U` is `2^n × 2^n`
    and the circuit has the action `toBV n U` in the sense of C18 at the code's placement
    (C01 `toUnitary_ordered_product` composed with `denote_is_circSem`). -/
theorem circuitUnitary_is_denote (k : Scal R) (c : Circuit (Ang R) R) (hshape : ∀ op ∈ c.ops, WellShaped k op)
    (U : Mat R) (hU : circuitUnitary k c = some U) :
    U.r = 2 ^ c.n ∧ U.c = 2 ^ c.n ∧ c.n ≠ 0 ∧ c.ops ≠ [] ∧
      denote (stdPlacement R c.n) k c.ops = some (C01.toBV c.n U) := by
  unfold circuitUnitary at hU
  cases hl : liftOps k c.ops with
  | none => rw [hl] at hU; exact absurd hU (by simp)
  | some l =>
    rw [hl] at hU
    simp only at hU
    obtain ⟨hlne, hlq⟩ := toUnitary_some_valid c.n l U hU
    have hls := liftOps_shape k c.ops l hl hshape
    have hlv : ∀ o ∈ l, C01.OpValid c.n o := fun o ho =>
      ⟨(hlq o ho).1, (hlq o ho).2.1, (hlq o ho).2.2, (hls o ho).1, (hls o ho).2⟩
    obtain ⟨U0, hU0, hr, hc, hsem⟩ := C01.toUnitary_ordered_product c.n l hlne hlv
    rw [toUnitary_checked c.n l hls, hU, Option.some.injEq] at hU0
    subst hU0
    refine ⟨hr, hc, ?_, fun e => hlne ((liftOps_eq_nil k c.ops l hl).mpr e), ?_⟩
    · intro hn
      cases l with
      | nil => exact hlne rfl
      | cons o _ =>
        have hq := hlq o (by simp)
        cases hqs : o.qs with
        | nil => exact hq.1 hqs
        | cons q _ => have := hq.2.2 q (by simp [hqs]); omega
    · rw [hsem]; exact denote_std c.n k c.ops l hl hlv

/-- **transfer to the executable unitary.**  Any relation `Rel` that the C18 theorems establish between the
    actions of two operation lists at the code's placement holds between the (bit-indexed views of the) matrices
    `to_unitary()` RETURNS for them – provided the second list sits on qubit tuples of the first and is non-empty
    when the first is (both are structural facts of the bundled rule, `decompose_u3_qs`). -/
theorem exec_of_denote (n : Nat) (k : Scal R) (ops out : List (Operation (Ang R) R))
    (Rel : Matrix (BV (Fin n)) (BV (Fin n)) R → Matrix (BV (Fin n)) (BV (Fin n)) R → Prop)
    (hshape : ∀ op ∈ ops, WellShaped k op)
    (hinv : (ops ≠ [] → out ≠ []) ∧ ∀ o ∈ out, ∃ op ∈ ops, o.qs = op.qs)
    (hden : ∀ U, denote (stdPlacement R n) k ops = some U →
      ∃ U', denote (stdPlacement R n) k out = some U' ∧ Rel U U')
    (U : Mat R) (hU : circuitUnitary k ⟨ops, n⟩ = some U) :
    ∃ U' : Mat R, circuitUnitary k ⟨out, n⟩ = some U' ∧
      U.r = 2 ^ n ∧ U.c = 2 ^ n ∧ U'.r = 2 ^ n ∧ U'.c = 2 ^ n ∧ Rel (C01.toBV n U) (C01.toBV n U') := by
  obtain ⟨hr, hc, _, hops_ne, hd⟩ := circuitUnitary_is_denote k ⟨ops, n⟩ hshape U hU
  simp only at hr hc hops_ne hd
  -- what `hU` says about the qubit tuples of the input
  have hq : ∀ op ∈ ops, op.qs ≠ [] ∧ op.qs.Nodup ∧ ∀ q ∈ op.qs, q < n := by
    unfold circuitUnitary at hU
    cases hl : liftOps k ops with
    | none => rw [hl] at hU; exact absurd hU (by simp)
    | some l =>
      rw [hl] at hU
      simp only at hU
      obtain ⟨_, hlq⟩ := toUnitary_some_valid n l U hU
      intro op hop
      have hmem : op.qs ∈ l.map (fun o => o.qs) := by
        rw [liftOps_qs k ops l hl]; exact List.mem_map_of_mem hop
      obtain ⟨o0, ho0, e0⟩ := List.mem_map.mp hmem
      rw [← e0]; exact hlq o0 ho0
  obtain ⟨V', hV', hrel⟩ := hden _ hd
  obtain ⟨l', hl', hls'⟩ := liftOps_of_denote _ k out V' hV'
  have hl'ne : l' ≠ [] := fun e => hinv.1 hops_ne ((liftOps_eq_nil k out l' hl').mp e)
  have hlv' : ∀ o ∈ l', C01.OpValid n o := by
    intro o ho
    obtain ⟨g, hg, _⟩ := liftOps_mem k out l' hl' o ho
    obtain ⟨op, hop, e⟩ := hinv.2 _ hg
    have hq' := hq op hop
    rw [← e] at hq'
    exact ⟨hq'.1, hq'.2.1, hq'.2.2, (hls' o ho).1, (hls' o ho).2⟩
  obtain ⟨U', hU', hr', hc', hsem'⟩ := C01.toUnitary_ordered_product n l' hl'ne hlv'
  rw [toUnitary_checked n l' hls'] at hU'
  have hd' := denote_std n k out l' hl' hlv'
  rw [hV', Option.some.injEq] at hd'
  rw [hd', ← hsem'] at hrel
  refine ⟨U', ?_, hr, hc, hr', hc', hrel⟩
  unfold circuitUnitary
  simp only [hl']
  exact hU'

end Semantics

/-! ## end to end: the matrices `to_unitary()` returns before and after decomposition -/
section EndToEnd
variable {R : Type} [CommRing R] [StarRing R]

/-- **END TO END, PARTIAL (controlled U3s need e^{i(φ+λ)/2} = 1, F9).**
    For every circuit `c` (any width, any gates around, plain and controlled U3s on any qubits), every list of
    bundled rules: if `decompose_orquestra_circuit` returns `c'` and `c.to_unitary()` returns `U`, then
    `c'.to_unitary()` returns a matrix `U'` of the same size `2^n × 2^n`, `c'` has the width of `c`, and
    `U[i][j] = p · U'[i][j]` for ONE scalar `p` of modulus one.
    Closes, in `decompose_up_to_phase_partial`: the abstract placement `E` (now the code's `_lift_matrix`, by C01),
    the assumed action `hU` (now the returned matrix) and the existential action of the output (now the returned
    matrix).  `hshape`: gate matrices have the dimension of their qubit tuples – the library's `@` raises otherwise
    (C01 `lifted_matrix_defined_iff`); discharged for table gates by `wellShaped_of_table`.
    MISSING for the full statement: controlled U3s with e^{i(φ+λ)/2} ≠ 1 (`hphase`), where it is false. -/
theorem decompose_up_to_phase_partial_exec (k : Scal R) (hi : k.i * k.i = -1) (hs : star k.i = -k.i)
    (rules : List (Rule (Operation (Ang R) R))) (hrules : ∀ r ∈ rules, r = u3Rule)
    (c c' : Circuit (Ang R) R)
    (hreal : ∀ op ∈ c.ops, RealParams op) (hbuiltin : ∀ op ∈ c.ops, BuiltinU3 op)
    (hphase : ∀ op ∈ c.ops, CtrlPhaseTrivial k op) (hshape : ∀ op ∈ c.ops, WellShaped k op)
    (h : decomposeCircuit rules c = some c') (U : Mat R) (hU : circuitUnitary k c = some U) :
    ∃ (U' : Mat R) (p : R), circuitUnitary k c' = some U' ∧ c'.n = c.n ∧ p * star p = 1 ∧
      U.r = 2 ^ c.n ∧ U.c = 2 ^ c.n ∧ U'.r = 2 ^ c.n ∧ U'.c = 2 ^ c.n ∧
      ∀ i j, U.get i j = p * U'.get i j := by
  obtain ⟨_, _, hn, _, _⟩ := circuitUnitary_is_denote k c hshape U hU
  obtain ⟨hn', hdec⟩ := width_kept rules c c' hn h
  have hinv := decompose_u3_qs rules hrules c.ops c'.ops hdec
  obtain ⟨U', hU', hr, hc, hr', hc', hrel⟩ := exec_of_denote c.n k c.ops c'.ops PhaseEq hshape hinv
    (fun V hV => decompose_up_to_phase_partial (stdPlacement R c.n) k hi hs rules hrules c.ops c'.ops
      hreal hbuiltin hphase hdec V hV) U hU
  obtain ⟨p, hp, hent⟩ := phaseEq_entries c.n U U' hrel hr hc hr' hc'
  refine ⟨U', p, ?_, hn', hp, hr, hc, hr', hc', hent⟩
  rw [← hn'] at hU'
  exact hU'

/-- **END TO END, circuits whose U3s are uncontrolled** (any number, any placement, among any other gates): the
    property holds in full for the matrices `to_unitary()` returns – the matrix of the decomposed circuit is a
    unit-modulus scalar multiple of the matrix of the original.
    Closes `E`, `hU` and the existential action of `decompose_plain_up_to_phase` (see
    `decompose_up_to_phase_partial_exec`). -/
theorem decompose_plain_up_to_phase_exec (k : Scal R) (hi : k.i * k.i = -1) (hs : star k.i = -k.i)
    (rules : List (Rule (Operation (Ang R) R))) (hrules : ∀ r ∈ rules, r = u3Rule)
    (c c' : Circuit (Ang R) R)
    (hreal : ∀ op ∈ c.ops, RealParams op) (hbuiltin : ∀ op ∈ c.ops, BuiltinU3 op)
    (hplain : ∀ op ∈ c.ops, isCtrlU3 op = false) (hshape : ∀ op ∈ c.ops, WellShaped k op)
    (h : decomposeCircuit rules c = some c') (U : Mat R) (hU : circuitUnitary k c = some U) :
    ∃ (U' : Mat R) (p : R), circuitUnitary k c' = some U' ∧ c'.n = c.n ∧ p * star p = 1 ∧
      U.r = 2 ^ c.n ∧ U.c = 2 ^ c.n ∧ U'.r = 2 ^ c.n ∧ U'.c = 2 ^ c.n ∧
      ∀ i j, U.get i j = p * U'.get i j :=
  decompose_up_to_phase_partial_exec k hi hs rules hrules c c' hreal hbuiltin
    (fun op hop hc => by rw [hplain op hop] at hc; exact absurd hc (by simp)) hshape h U hU

/-- **END TO END, controlled U3 with trivial phase, PARTIAL**: for a U3(θ,φ,λ) with `c` controls on `c + 1`
    qubits and e^{i(φ+λ)/2} = 1, `to_unitary()` of the three controlled rotations the rule produces returns a
    matrix with EXACTLY the entries of `to_unitary()` of the controlled U3 (no phase at all).
    Closes `E` / `hU` of `decompose_controlled_partial`.  MISSING: e^{i(φ+λ)/2} ≠ 1, where the statement is false
    (`controlled_phase_necessary`, `cu3_relative_phase`). -/
theorem decompose_controlled_partial_exec (k : Scal R) (hi : k.i * k.i = -1)
    (th ph la : Ang R) (hph : RealAng ph) (hla : RealAng la) (hone : ph.ehp k * la.ehp k = 1)
    (c n : Nat) (qs : List Nat) (hqs : qs.length = c + 1) (U : Mat R)
    (hU : circuitUnitary k ⟨[.gate (.controlled (.mf "U3" [th, ph, la] none) c) qs], n⟩ = some U) :
    ∃ U' : Mat R,
      circuitUnitary k ⟨[.gate (.controlled (rzGate la) c) qs, .gate (.controlled (ryGate th) c) qs,
                          .gate (.controlled (rzGate ph) c) qs], n⟩ = some U' ∧
      U'.r = U.r ∧ U'.c = U.c ∧ ∀ i j, U.get i j = U'.get i j := by
  have hshape : ∀ op ∈ [Operation.gate (.controlled (.mf "U3" [th, ph, la] none) c : Gate (Ang R) R) qs],
      WellShaped k op := by
    intro op hop
    rw [List.mem_singleton] at hop
    subst hop
    intro m hm
    have hm' : gateMatrix k (.controlled (.mf "U3" [th, ph, la] none) c) =
        some (ctrlMatrix c (Gates.u3 k th ph la)) := rfl
    rw [hm', Option.some.injEq] at hm
    subst hm
    rw [ctrl_r, ctrl_c, hqs, pow_succ, Nat.mul_comm]
    exact ⟨rfl, rfl⟩
  obtain ⟨U', hU', hr, hc, hr', hc', hrel⟩ := exec_of_denote n k _
    [.gate (.controlled (rzGate la) c) qs, .gate (.controlled (ryGate th) c) qs,
     .gate (.controlled (rzGate ph) c) qs] Eq hshape
    ⟨fun _ => by simp, fun o ho => ⟨_, List.mem_singleton.mpr rfl, by
      simp only [List.mem_cons, List.not_mem_nil, or_false] at ho
      rcases ho with rfl | rfl | rfl <;> rfl⟩⟩
    (fun V hV => ⟨V, decompose_controlled_partial (stdPlacement R n) k hi th ph la hph hla hone c qs V hV, rfl⟩)
    U hU
  exact ⟨U', hU', hr'.trans hr.symm, hc'.trans hc.symm, eq_entries n U U' hrel hr hc hr' hc'⟩

end EndToEnd

/-! ## C02: the gate matrices the semantics uses are those of the generated table -/
section Table
variable {R : Type} [CommRing R] [StarRing R]
open OQ.Generated

/-- C18's "real angle" and C02's "valid angle point" are the same hypothesis -/
theorem realAng_iff_valid (a : Ang R) : RealAng a ↔ C02.Valid a :=
  ⟨fun h => ⟨h.1, h.2.1, h.2.2⟩, fun h => ⟨h.circle, h.sc, h.ss⟩⟩

/-- the matrix C18's semantics gives a built-in gate IS the matrix C02's `<gate>.matrix` computes from the
    generated table (so every C02 theorem about the table – dimension, unitarity, identities – is a theorem about
    the gates of C18's circuits) -/
theorem gateMatrix_of_table (k : Scal R) (name : String) (ps : List (Ang R)) (M : Mat R)
    (h : C02.gateMatrix gateTable k name ps = .ok M) : gateMatrix k (.mf name ps none) = some M := by
  unfold C02.gateMatrix at h
  split at h
  · exact absurd h (by simp)
  · split at h
    · exact absurd h (by simp)
    · split at h
      · rename_i m hm
        injection h with h
        subst h
        exact hm
      · exact absurd h (by simp)

/-- an operation applying a gate of the built-in table (plain, or with `c` controls) to as many qubits as the gate
    declares (plus `c`) -/
def TableOp : Operation (Ang R) R → Prop
  | .gate (.mf name ps none) qs =>
    ∃ row ∈ gateTable, C02.Row.name row = name ∧ ps.length = C02.Row.numParams row ∧
      qs.length = C02.Row.numQubits row
  | .gate (.controlled (.mf name ps none) c) qs =>
    ∃ row ∈ gateTable, C02.Row.name row = name ∧ ps.length = C02.Row.numParams row ∧
      qs.length = C02.Row.numQubits row + c
  | _ => False

/-- a table operation has a gate matrix, of the dimension of its qubit tuple (C02 `builtin_dim`) -/
theorem table_gateMatrix (k : Scal R) (g : Gate (Ang R) R) (qs : List Nat) (h : TableOp (.gate g qs)) :
    ∃ m, gateMatrix k g = some m ∧ m.r = 2 ^ qs.length ∧ m.c = 2 ^ qs.length ∧ 1 ≤ qs.length := by
  have hpos : ∀ row ∈ gateTable, 1 ≤ C02.Row.numQubits row := by decide
  cases g with
  | mf name ps mo =>
    cases mo with
    | some m0 => exact absurd h (by simp [TableOp])
    | none =>
      obtain ⟨row, hrow, hname, hps, hq⟩ := h
      obtain ⟨M, hM, hr, hc⟩ := C02.builtin_dim k row hrow ps hps
      rw [hname] at hM
      refine ⟨M, gateMatrix_of_table k name ps M hM, ?_, ?_, ?_⟩
      · rw [hq]; exact hr
      · rw [hq]; exact hc
      · rw [hq]; exact hpos row hrow
  | dagger w => exact absurd h (by simp [TableOp])
  | controlled w c =>
    cases w with
    | controlled _ _ => exact absurd h (by simp [TableOp])
    | dagger _ => exact absurd h (by simp [TableOp])
    | mf name ps mo =>
      cases mo with
      | some m0 => exact absurd h (by simp [TableOp])
      | none =>
        obtain ⟨row, hrow, hname, hps, hq⟩ := h
        obtain ⟨M, hM, hr, hc⟩ := C02.builtin_dim k row hrow ps hps
        rw [hname] at hM
        have hg := gateMatrix_of_table k name ps M hM
        refine ⟨ctrlMatrix c M, ?_, ?_, ?_, ?_⟩
        · simp only [gateMatrix] at hg ⊢
          rw [hg]; rfl
        · rw [ctrl_r, hr, hq, pow_add]
        · rw [ctrl_c, hr, hq, pow_add]
        · rw [hq]; have := hpos row hrow; omega

/-- **discharges `hshape`** (C02 `builtin_dim`): table gates on the declared number of qubits are well shaped -/
theorem wellShaped_of_table (k : Scal R) (op : Operation (Ang R) R) (h : TableOp op) : WellShaped k op := by
  cases op with
  | other t qs => trivial
  | gate g qs =>
    obtain ⟨m, hm, hr, hc, _⟩ := table_gateMatrix k g qs h
    intro m' hm'
    rw [hm, Option.some.injEq] at hm'
    subst hm'
    exact ⟨hr, hc⟩

/-- **discharges `hbuiltin`**: a table operation never is a custom gate reusing the name "U3" -/
theorem builtinU3_of_table (op : Operation (Ang R) R) (h : TableOp op) : BuiltinU3 op := by
  cases op with
  | other t qs => trivial
  | gate g qs =>
    cases g with
    | mf name ps mo =>
      cases mo with
      | some m0 => exact absurd h (by simp [TableOp])
      | none => intro _; rfl
    | dagger w => trivial
    | controlled w c =>
      cases w with
      | controlled _ _ => trivial
      | dagger _ => trivial
      | mf name ps mo =>
        cases mo with
        | some m0 => exact absurd h (by simp [TableOp])
        | none => intro _; rfl

/-- every circuit of table operations has its list of (matrix, qubits) pairs -/
theorem liftOps_defined (k : Scal R) : ∀ (ops : List (Operation (Ang R) R)), (∀ op ∈ ops, TableOp op) →
    ∃ l, liftOps k ops = some l := by
  intro ops
  induction ops with
  | nil => intro _; exact ⟨[], rfl⟩
  | cons op ops ih =>
    intro h
    obtain ⟨l, hl⟩ := ih (fun o ho => h o (by simp [ho]))
    cases op with
    | other t qs => exact absurd (h (.other t qs) (by simp)) (by simp [TableOp])
    | gate g qs =>
      obtain ⟨m, hm, _⟩ := table_gateMatrix k g qs (h _ (by simp))
      exact ⟨⟨m, qs⟩ :: l, by rw [liftOps_cons_gate, hm, hl]; rfl⟩

/-- **discharges `hU`**: `to_unitary()` is DEFINED for every non-empty circuit of table gates, each on the number
    of qubits it declares, on distinct qubits of the register (C01 `toUnitary_ordered_product` for existence). -/
theorem circuitUnitary_defined (k : Scal R) (c : Circuit (Ang R) R) (hne : c.ops ≠ [])
    (htable : ∀ op ∈ c.ops, TableOp op) (hqs : ∀ op ∈ c.ops, op.qs.Nodup ∧ ∀ q ∈ op.qs, q < c.n) :
    ∃ U, circuitUnitary k c = some U := by
  obtain ⟨l, hl⟩ := liftOps_defined k c.ops htable
  have hlv : ∀ o ∈ l, C01.OpValid c.n o := by
    intro o ho
    obtain ⟨g, hg, hm⟩ := liftOps_mem k c.ops l hl o ho
    obtain ⟨m, hm', hr, hc, hpos⟩ := table_gateMatrix k g o.qs (htable _ hg)
    rw [hm, Option.some.injEq] at hm'
    have hq := hqs _ hg
    simp only [Operation.qs] at hq
    refine ⟨?_, hq.1, hq.2, by rw [hm']; exact hr, by rw [hm']; exact hc⟩
    intro e; rw [e] at hpos; simp at hpos
  have hlne : l ≠ [] := fun e => hne ((liftOps_eq_nil k c.ops l hl).mp e)
  obtain ⟨U, hU, _⟩ := C01.toUnitary_ordered_product c.n l hlne hlv
  rw [toUnitary_checked c.n l (fun o ho => ⟨(hlv o ho).mr, (hlv o ho).mc⟩)] at hU
  refine ⟨U, ?_⟩
  unfold circuitUnitary
  simp only [hl]
  exact hU
/-- **the matrix identity behind the rule, from C02**: `u3_plain` of `OQ.Props.C18` is C02's `u3_is_rz_ry_rz`
    (proved there for the closed form the generated table uses, i.e. for what `u3_matrix` returns after
    `sympy.simplify`) read from right to left. -/
theorem u3_plain_from_C02 (k : Scal R) (hk : C02.Laws k) (th ph la : Ang R) (hph : C02.Valid ph)
    (hla : C02.Valid la) :
    Mat.toM 2 2 (Gates.u3 k th ph la) =
      (ph.ehp k * la.ehp k) •
        (Mat.toM 2 2 (Gates.rz k ph) * Mat.toM 2 2 (Gates.ry th) * Mat.toM 2 2 (Gates.rz k la)) :=
  (C02.u3_is_rz_ry_rz hk hph hla).symm

/-- **plain U3, with the phase NAMED, from C02's identity** (independent of C18's own `u3_toM`): under every
    placement, if U3(θ,φ,λ) on `qs` acts as `U`, then RZ(λ), RY(θ), RZ(φ) on `qs` (circuit order) act as some `U'`
    with `U = e^{i(φ+λ)/2} • U'`, and that scalar has modulus one.  This is the only place where the soundness of
    the bundled rule (`u3_rule_sound`) looks inside a gate matrix; here the look is C02's theorem about the table. -/
theorem u3_plain_phase_via_C02 {ι : Type} [Fintype ι] [DecidableEq ι] (E : Placement R ι) (k : Scal R)
    (hk : C02.Laws k) (th ph la : Ang R) (hph : C02.Valid ph) (hla : C02.Valid la) (qs : List Nat)
    (U : Matrix (BV ι) (BV ι) R) (hU : denote E k [.gate (.mf "U3" [th, ph, la] none) qs] = some U) :
    ∃ U', denote E k [.gate (rzGate la) qs, .gate (ryGate th) qs, .gate (rzGate ph) qs] = some U' ∧
      U = (ph.ehp k * la.ehp k) • U' ∧ (ph.ehp k * la.ehp k) * star (ph.ehp k * la.ehp k) = 1 := by
  unfold denote at *
  rw [denoteBy_singleton] at hU
  have hm : Gates.builtinMatrix k "U3" [th, ph, la] = some (Gates.u3 k th ph la) := rfl
  simp only [denoteOp, gateMatrix, hm] at hU
  have hdim : 2 ^ qs.length = 2 := by
    by_contra hne
    have hne' : ¬ (2 = 2 ^ qs.length) := fun h => hne h.symm
    simp only [Gates.u3, m2_r, m2_c, and_self, hne', if_false] at hU
    exact absurd hU (by simp)
  have d1 := denoteOp_mf E k "RZ" [la] qs (Gates.rz k la) rfl hdim.symm hdim.symm
  have d2 := denoteOp_mf E k "RY" [th] qs (Gates.ry th) rfl hdim.symm hdim.symm
  have d3 := denoteOp_mf E k "RZ" [ph] qs (Gates.rz k ph) rfl hdim.symm hdim.symm
  refine ⟨_, denote_three E k _ _ _ _ _ _ d1 d2 d3, ?_,
    (realAng_phase k hk.ii hk.si ph ((realAng_iff_valid ph).mpr hph)).mul
      (realAng_phase k hk.ii hk.si la ((realAng_iff_valid la).mpr hla))⟩
  rw [if_pos ⟨hdim.symm, hdim.symm⟩, Option.some.injEq] at hU
  rw [← hU, ← E.emb_mul, ← E.emb_mul, ← E.emb_smul]
  congr 1
  have := u3_plain_from_C02 k hk th ph la hph hla
  revert this
  generalize 2 ^ qs.length = D at hdim ⊢
  subst hdim
  exact fun h => h

/-- `u3_rule_sound` under C02's vocabulary: the constants satisfy C02's `Laws` (true in ℂ: `kC_laws`, and in the
    driver's ring ℚ(ζ₈): `cyc8_laws`) – the two scalar hypotheses of `u3_rule_sound` are among them. -/
theorem u3_rule_sound_of_laws {ι : Type} [Fintype ι] [DecidableEq ι] (E : Placement R ι) (k : Scal R)
    (hk : C02.Laws k) : (u3Rule : Rule (Operation (Ang R) R)).Sound (denoteOp E k) (U3Good k) :=
  u3_rule_sound E k hk.ii hk.si

/-- **END TO END for circuits of built-in gates** (C18 ∘ C01 ∘ C02): every operation applies a gate of the
    generated table, plain or controlled, to the number of qubits it declares; parameters are valid angle points;
    no U3 is controlled.  Then `to_unitary()` of the decomposed circuit is a unit-modulus multiple of
    `to_unitary()` of the original.  No hypothesis about shapes, custom gates, placements or actions is left:
    only C02's laws of the constants. -/
theorem decompose_plain_up_to_phase_exec_builtin (k : Scal R) (hk : C02.Laws k)
    (rules : List (Rule (Operation (Ang R) R))) (hrules : ∀ r ∈ rules, r = u3Rule)
    (c c' : Circuit (Ang R) R) (htable : ∀ op ∈ c.ops, TableOp op)
    (hvalid : ∀ op ∈ c.ops, ∀ g qs, op = .gate g qs → ∀ a ∈ g.params, C02.Valid a)
    (hplain : ∀ op ∈ c.ops, isCtrlU3 op = false)
    (h : decomposeCircuit rules c = some c') (U : Mat R) (hU : circuitUnitary k c = some U) :
    ∃ (U' : Mat R) (p : R), circuitUnitary k c' = some U' ∧ c'.n = c.n ∧ p * star p = 1 ∧
      U.r = 2 ^ c.n ∧ U.c = 2 ^ c.n ∧ U'.r = 2 ^ c.n ∧ U'.c = 2 ^ c.n ∧
      ∀ i j, U.get i j = p * U'.get i j := by
  refine decompose_plain_up_to_phase_exec k hk.ii hk.si rules hrules c c' ?_
    (fun op hop => builtinU3_of_table op (htable op hop)) hplain
    (fun op hop => wellShaped_of_table k op (htable op hop)) h U hU
  intro op hop
  cases op with
  | other t qs => trivial
  | gate g qs => exact fun a ha => (realAng_iff_valid a).mpr (hvalid _ hop g qs rfl a ha)

/-- the same with controlled U3s of trivial phase allowed – PARTIAL (F9): controlled U3s with
    e^{i(φ+λ)/2} ≠ 1 are excluded by `hphase`, and cannot be included (`controlled_rule_exact_false`). -/
theorem decompose_up_to_phase_exec_builtin_partial (k : Scal R) (hk : C02.Laws k)
    (rules : List (Rule (Operation (Ang R) R))) (hrules : ∀ r ∈ rules, r = u3Rule)
    (c c' : Circuit (Ang R) R) (htable : ∀ op ∈ c.ops, TableOp op)
    (hvalid : ∀ op ∈ c.ops, ∀ g qs, op = .gate g qs → ∀ a ∈ g.params, C02.Valid a)
    (hphase : ∀ op ∈ c.ops, CtrlPhaseTrivial k op)
    (h : decomposeCircuit rules c = some c') (U : Mat R) (hU : circuitUnitary k c = some U) :
    ∃ (U' : Mat R) (p : R), circuitUnitary k c' = some U' ∧ c'.n = c.n ∧ p * star p = 1 ∧
      U.r = 2 ^ c.n ∧ U.c = 2 ^ c.n ∧ U'.r = 2 ^ c.n ∧ U'.c = 2 ^ c.n ∧
      ∀ i j, U.get i j = p * U'.get i j := by
  refine decompose_up_to_phase_partial_exec k hk.ii hk.si rules hrules c c' ?_
    (fun op hop => builtinU3_of_table op (htable op hop)) hphase
    (fun op hop => wellShaped_of_table k op (htable op hop)) h U hU
  intro op hop
  cases op with
  | other t qs => trivial
  | gate g qs => exact fun a ha => (realAng_iff_valid a).mpr (hvalid _ hop g qs rfl a ha)

/-- **END TO END with `hU` discharged too**: for a non-empty circuit of table gates on distinct qubits of the
    register (valid angle points, U3s uncontrolled), BOTH `to_unitary()` calls succeed and the two returned
    matrices agree up to one unit-modulus scalar.  The only remaining hypothesis about the run is that the
    decomposition itself returned (`h`). -/
theorem decompose_plain_up_to_phase_total_builtin (k : Scal R) (hk : C02.Laws k)
    (rules : List (Rule (Operation (Ang R) R))) (hrules : ∀ r ∈ rules, r = u3Rule)
    (c c' : Circuit (Ang R) R) (hne : c.ops ≠ []) (htable : ∀ op ∈ c.ops, TableOp op)
    (hqs : ∀ op ∈ c.ops, op.qs.Nodup ∧ ∀ q ∈ op.qs, q < c.n)
    (hvalid : ∀ op ∈ c.ops, ∀ g qs, op = .gate g qs → ∀ a ∈ g.params, C02.Valid a)
    (hplain : ∀ op ∈ c.ops, isCtrlU3 op = false)
    (h : decomposeCircuit rules c = some c') :
    ∃ (U U' : Mat R) (p : R), circuitUnitary k c = some U ∧ circuitUnitary k c' = some U' ∧ c'.n = c.n ∧
      p * star p = 1 ∧ U.r = 2 ^ c.n ∧ U.c = 2 ^ c.n ∧ U'.r = 2 ^ c.n ∧ U'.c = 2 ^ c.n ∧
      ∀ i j, U.get i j = p * U'.get i j := by
  obtain ⟨U, hU⟩ := circuitUnitary_defined k c hne htable hqs
  obtain ⟨U', p, hrest⟩ := decompose_plain_up_to_phase_exec_builtin k hk rules hrules c c' htable hvalid hplain h U hU
  exact ⟨U, U', p, hU, hrest⟩

end Table

/-! ## ℂ with real angles; the driver's ring ℚ(ζ₈) with rational circle points -/
section Corollaries
open OQ.Generated

/-- **ℂ / real angles, END TO END** (the executable counterpart of `decompose_plain_up_to_phase_complex`): for
    real rotation angles and uncontrolled U3s, `to_unitary()` of the decomposed circuit and of the original differ
    by ONE complex number of absolute value 1, entry by entry. -/
theorem decompose_plain_up_to_phase_exec_complex (n : Nat) (c c' : Circuit (Ang ℂ) ℂ)
    (hreal : ∀ op ∈ c.ops, ∀ g qs, op = .gate g qs → ∀ a ∈ g.params, ∃ t : ℝ, a = angOfReal t)
    (hbuiltin : ∀ op ∈ c.ops, BuiltinU3 op) (hplain : ∀ op ∈ c.ops, isCtrlU3 op = false)
    (hshape : ∀ op ∈ c.ops, WellShaped scalC op)
    (h : decomposeCircuit (List.replicate n u3Rule) c = some c') (U : Mat ℂ)
    (hU : circuitUnitary scalC c = some U) :
    ∃ (U' : Mat ℂ) (p : ℂ), circuitUnitary scalC c' = some U' ∧ c'.n = c.n ∧ ‖p‖ = 1 ∧
      U'.r = U.r ∧ U'.c = U.c ∧ ∀ i j, U.get i j = p * U'.get i j := by
  have hreal' : ∀ op ∈ c.ops, RealParams op := by
    intro op hop
    cases op with
    | other t qs => trivial
    | gate g qs =>
      intro a ha
      obtain ⟨t, rfl⟩ := hreal _ hop g qs rfl a ha
      exact realAng_ofReal t
  obtain ⟨U', p, hU', _, hp, hr, hc, hr', hc', hent⟩ := decompose_plain_up_to_phase_exec scalC scalC_ii scalC_star
    (List.replicate n u3Rule) (fun r hr => List.eq_of_mem_replicate hr) c c' hreal' hbuiltin hplain hshape h U hU
  exact ⟨U', p, hU', by assumption, norm_eq_one_of_mul_star p hp, hr'.trans hr.symm, hc'.trans hc.symm, hent⟩

/-- **ℂ / real angles, built-in gates, END TO END with every side condition discharged** (C02's constants `kC`
    and angle points `angR θ`, whose laws C02 proves): circuits of table gates at REAL parameter values, U3s
    uncontrolled, any number of rule applications. -/
theorem decompose_plain_up_to_phase_exec_real_builtin (n : Nat) (c c' : Circuit (Ang ℂ) ℂ)
    (htable : ∀ op ∈ c.ops, TableOp op)
    (hreal : ∀ op ∈ c.ops, ∀ g qs, op = .gate g qs → ∀ a ∈ g.params, ∃ t : ℝ, a = C02.angR t)
    (hplain : ∀ op ∈ c.ops, isCtrlU3 op = false)
    (h : decomposeCircuit (List.replicate n u3Rule) c = some c') (U : Mat ℂ)
    (hU : circuitUnitary C02.kC c = some U) :
    ∃ (U' : Mat ℂ) (p : ℂ), circuitUnitary C02.kC c' = some U' ∧ c'.n = c.n ∧ ‖p‖ = 1 ∧
      U'.r = U.r ∧ U'.c = U.c ∧ ∀ i j, U.get i j = p * U'.get i j := by
  obtain ⟨U', p, hU', hn, hp, hr, hc, hr', hc', hent⟩ := decompose_plain_up_to_phase_exec_builtin C02.kC C02.kC_laws
    (List.replicate n u3Rule) (fun r hr => List.eq_of_mem_replicate hr) c c' htable
    (fun op hop g qs e a ha => by obtain ⟨t, rfl⟩ := hreal op hop g qs e a ha; exact C02.angR_valid t)
    hplain h U hU
  exact ⟨U', p, hU', hn, norm_eq_one_of_mul_star p hp, hr'.trans hr.symm, hc'.trans hc.symm, hent⟩

/-- **the driver's ring, END TO END**: over ℚ(ζ₈) with the constants the model driver uses and RATIONAL points of
    the unit circle as angles (what the harness generates), for circuits of table gates with uncontrolled U3s: the
    two matrices the driver PRINTS (`U`, `U2` of its `unitary` operation) differ by one scalar `p` with
    `p · conj p = 1` – exactly, no tolerance. -/
theorem decompose_plain_up_to_phase_exec_driver (n : Nat) (c c' : Circuit (Ang Cyc8) Cyc8)
    (htable : ∀ op ∈ c.ops, TableOp op)
    (hrat : ∀ op ∈ c.ops, ∀ g qs, op = .gate g qs → ∀ a ∈ g.params,
      ∃ x y : Rat, x * x + y * y = 1 ∧ a = ⟨Cyc8.ofRat x, Cyc8.ofRat y⟩)
    (hplain : ∀ op ∈ c.ops, isCtrlU3 op = false)
    (h : decomposeCircuit (List.replicate n u3Rule) c = some c') (U : Mat Cyc8)
    (hU : circuitUnitary Scal.cyc8 c = some U) :
    ∃ (U' : Mat Cyc8) (p : Cyc8), circuitUnitary Scal.cyc8 c' = some U' ∧ c'.n = c.n ∧ p * conj p = 1 ∧
      U'.r = U.r ∧ U'.c = U.c ∧ ∀ i j, U.get i j = p * U'.get i j := by
  obtain ⟨U', p, hU', hn, hp, hr, hc, hr', hc', hent⟩ := decompose_plain_up_to_phase_exec_builtin Scal.cyc8
    C02.cyc8_laws (List.replicate n u3Rule) (fun r hr => List.eq_of_mem_replicate hr) c c' htable
    (fun op hop g qs e a ha => by
      obtain ⟨x, y, hxy, rfl⟩ := hrat op hop g qs e a ha
      exact C02.cyc8_valid_of_rat x y hxy)
    hplain h U hU
  exact ⟨U', p, hU', hn, hp, hr'.trans hr.symm, hc'.trans hc.symm, hent⟩

end Corollaries

/-! ## non-vacuity: concrete inputs meeting every hypothesis, evaluated by the executable model -/
section NonVacuity
open OQ.Generated

/-- rational circle points 2·atan(4/3), −2·atan(4/3), 2·atan(12/5) in the driver's ring -/
def q35 : Ang Cyc8 := ⟨Cyc8.ofRat (3/5), Cyc8.ofRat (4/5)⟩
def q35n : Ang Cyc8 := ⟨Cyc8.ofRat (3/5), Cyc8.ofRat (-(4/5))⟩
def q513 : Ang Cyc8 := ⟨Cyc8.ofRat (5/13), Cyc8.ofRat (12/13)⟩

/-- X(2); U3(θ,φ,λ)(0) with φ+λ ≠ 0; CNOT(2,0); RY(θ)(1) on a 3-qubit register (descending, gapped indices) -/
def exCirc : Circuit (Ang Cyc8) Cyc8 :=
  ⟨[.gate (.mf "X" [] none) [2], .gate (.mf "U3" [q513, q35, q513] none) [0],
    .gate (.mf "CNOT" [] none) [2, 0], .gate (.mf "RY" [q513] none) [1]], 3⟩

/-- every hypothesis of `decompose_plain_up_to_phase_exec_driver` / `…_total_builtin` holds of `exCirc` -/
example : (∀ op ∈ exCirc.ops, TableOp op) ∧ (∀ op ∈ exCirc.ops, isCtrlU3 op = false) ∧ exCirc.ops ≠ [] ∧
    (∀ op ∈ exCirc.ops, op.qs.Nodup ∧ ∀ q ∈ op.qs, q < exCirc.n) ∧
    (∀ op ∈ exCirc.ops, ∀ g qs, op = .gate g qs → ∀ a ∈ g.params,
      ∃ x y : Rat, x * x + y * y = 1 ∧ a = ⟨Cyc8.ofRat x, Cyc8.ofRat y⟩) := by
  refine ⟨?_, by decide, by decide, by decide, ?_⟩
  · intro op hop
    simp only [exCirc, List.mem_cons, List.not_mem_nil, or_false] at hop
    rcases hop with rfl | rfl | rfl | rfl
    · exact ⟨("X", 1, 0, true), by decide, rfl, rfl, rfl⟩
    · exact ⟨("U3", 1, 3, false), by decide, rfl, rfl, rfl⟩
    · exact ⟨("CNOT", 2, 0, true), by decide, rfl, rfl, rfl⟩
    · exact ⟨("RY", 1, 1, false), by decide, rfl, rfl, rfl⟩
  · intro op hop g qs e a ha
    simp only [exCirc, List.mem_cons, List.not_mem_nil, or_false] at hop
    rcases hop with rfl | rfl | rfl | rfl <;> injection e with e1 e2 <;> subst e1 <;>
      simp only [Gate.params, List.mem_cons, List.not_mem_nil, or_false] at ha
    · rcases ha with rfl | rfl | rfl
      · exact ⟨5/13, 12/13, by norm_num, rfl⟩
      · exact ⟨3/5, 4/5, by norm_num, rfl⟩
      · exact ⟨5/13, 12/13, by norm_num, rfl⟩
    · subst ha; exact ⟨5/13, 12/13, by norm_num, rfl⟩

/-- the decomposition with two rules returns a 6-operation circuit of width 3, and `to_unitary()` is defined
    before and after -/
example : (decomposeCircuit (List.replicate 2 u3Rule) exCirc).map (fun c => (c.ops.length, c.n)) = some (6, 3) ∧
    (circuitUnitary Scal.cyc8 exCirc).isSome = true ∧
    (((decomposeCircuit (List.replicate 2 u3Rule) exCirc).bind (circuitUnitary Scal.cyc8)).isSome = true) := by
  refine ⟨by decide +kernel, by decide +kernel, by decide +kernel⟩

/-- the single plain U3(θ,φ,λ)(0) with φ+λ ≠ 0 on one qubit -/
def exSmall : Circuit (Ang Cyc8) Cyc8 := ⟨[.gate (.mf "U3" [q513, q35, q513] none) [0]], 1⟩

/-- … and the theorem bites: the two returned matrices are NOT equal (entry (0,0): cos θ/2 against
    e^{−i(φ+λ)/2}·cos θ/2 – the phase `p` is not 1 here) -/
example : (circuitUnitary Scal.cyc8 exSmall).map (fun U => U.get 0 0) ≠
    ((decomposeCircuit [u3Rule] exSmall).bind (circuitUnitary Scal.cyc8)).map (fun U => U.get 0 0) := by
  decide +kernel

/-- the hypotheses of `decompose_controlled_partial_exec` at a non-trivial point: CU3(θ,φ,−φ) with two controls on
    qubits (3,0,2) of a 4-qubit register -/
example : C18.RealAng q35 ∧ C18.RealAng q35n ∧ q35.ehp Scal.cyc8 * q35n.ehp Scal.cyc8 = 1 ∧
    ([3, 0, 2] : List Nat).length = 2 + 1 ∧
    (circuitUnitary Scal.cyc8
      ⟨[.gate (.controlled (.mf "U3" [q513, q35, q35n] none) 2) [3, 0, 2]], 4⟩).isSome = true := by
  refine ⟨(realAng_iff_valid _).mpr (C02.cyc8_valid_of_rat _ _ (by norm_num)),
    (realAng_iff_valid _).mpr (C02.cyc8_valid_of_rat _ _ (by norm_num)), by decide +kernel, rfl, by decide +kernel⟩

/-- … and that operation meets the hypotheses of `decompose_up_to_phase_exec_builtin_partial` -/
example :
    let op : Operation (Ang Cyc8) Cyc8 := .gate (.controlled (.mf "U3" [q513, q35, q35n] none) 2) [3, 0, 2]
    TableOp op ∧ CtrlPhaseTrivial Scal.cyc8 op := by
  refine ⟨⟨("U3", 1, 3, false), by decide, rfl, rfl, rfl⟩, ?_⟩
  intro _ g qs th ph la hg hps
  injection hg with hg1 hg2
  subst hg1
  simp only [Gate.params, List.cons.injEq, and_true] at hps
  obtain ⟨_, rfl, rfl⟩ := hps
  decide +kernel

/-- the ℂ hypotheses: `C02.kC` satisfies `Laws`, every real angle gives a valid point, so
    `decompose_plain_up_to_phase_exec_real_builtin` applies to every table circuit at real parameters -/
example : C02.Laws C02.kC ∧ ∀ t : ℝ, C02.Valid (C02.angR t) := ⟨C02.kC_laws, C02.angR_valid⟩

end NonVacuity

end OQ.C18.Link
