/-
  C16_Link — COMPOSED THEOREMS: the statements of OQ/Props/C16.lean about the spec semantics, transported to the
  EXECUTABLE unitary (`OQ.C16.unitary` = `Lift.toUnitary` of the circuit's operations, what the driver prints) and to
  the EXECUTABLE Pauli denotation (`Pauli.Term.denote` / `Pauli.stringMatrix`, Kronecker definition, qubit 0 leftmost).

  What is composed.
    * OQ/Props/C16.lean proves `term_evolution`, `evolution_product_order`, `exp_pauli`, `term_evolution_exp`,
      `evolution_product_exp`, `derivative_correct` for `circSem` (products of `gateOn M qs = Spec.lift (qs | rest) M`)
      and for the spec-level Pauli string `pauliString k pa = ⊗_p σ(pa p)` on the bit-assignment basis.
    * OQ/Props/C01.lean proves that the executable `Lift.liftMatrix` / `toUnitary` ARE `Spec.lift` / the ordered
      product (`lifted_matrix_spec`, `opSem_pointwise`, `toUnitary_ordered_product`) — under the hypothesis
      `∀ o ∈ gs, OpValid n o` (distinct indices inside the register, matrix of the right arity).
    * OQ/Lemmas/C09_Entries.lean, C09_Ops.lean (the lemmas behind C09's `denote_entry_msb`, shared with C03's
      `denote`) give the entries of the executable `stringMatrix` / `Term.denote`, qubit 0 = most significant bit.
  Here: the two spec semantics coincide (`gate_semantics_agree`, `spec_semantics_agree`), every operation of the
  circuits of `time_evolution_for_term` / `time_evolution` / `time_evolution_derivatives` is `OpValid`
  (`*_accepted`: the hypothesis of C01's theorems is DISCHARGED, it is not assumed), the spec Pauli string is the
  re-indexed executable Kronecker matrix (`pauliString_eq_exec`), hence the end-to-end statements
  `term_evolution_exec`, `evolution_product_exec`, `term_evolution_exp_exec`, `evolution_product_exp_exec`,
  `derivative_correct_exec` about `unitary` and `Term.denote`, with NO hypothesis on a register or on a semantics:
  the only hypotheses left are on the INPUT (distinct qubit indices inside a term — a `PauliTerm` stores them in a
  dict —, all indices `< n`, the function returned a circuit) and, over a general ring, the laws of the constants.

  Conventions.  `n` / `N` is the width of the register the unitary is taken on (any width containing the qubits).
  `Mat.toM (2^n) (2^n) U i j = U.get i j`: the executable matrix read as a Mathlib matrix over `Fin (2^n)`;
  `C01.toBV n U`: the same re-indexed by bit assignments (qubit 0 = most significant bit).
  `Term.denote k n ⟨ops, 1⟩` is the executable denotation of the Pauli string `ops` (coefficient 1).
  Helper lemmas: OQ/Lemmas/C16_Link.lean.
-/
import OQ.Lemmas.C16_Link
set_option linter.unusedSectionVars false
namespace OQ.C16.Link
open Matrix OQ OQ.Spec OQ.Pauli OQ.Lift

section ring
variable {R : Type} [CommRing R] [StarRing R] {T : Type}
variable {Q : Type} [One Q] [Mul Q] [Div Q] [Neg Q] [NatCast Q] [DecidableEq Q]

/-! ### the two specification semantics coincide; the executable unitary is the spec semantics -/

/-- one gate: C01's specification of a valid gate operation (`opSem` = `Spec.lift` along `sigmaOf`, what
    `C01.lifted_matrix_spec` proves `GateOperation.lifted_matrix` equals) IS C16's `gateOn` (`Spec.lift` along the
    subtype partition, the semantics all of OQ/Props/C16.lean is stated in), for every naming `e` of the register's
    qubits that sends the code's index `q < n` to qubit `q`. -/
theorem gate_semantics_agree (n : Nat) (o : Lift.Op R) (h : C01.OpValid n o) (e : ℕ → Fin n)
    (he : ∀ q, q < n → (e q).val = q) : C01.opSem n o = gateOn o.m (o.qs.map e) :=
  opSem_eq_gateOn n o h e he

/-- whole circuits: C01's `circSem` of the executable operation list (`toOps`: gate matrix + indices) of a model
    circuit is C16's `circSem` of the model circuit.  `GOpOK n o`: distinct indices `< n`, as many as the gate's
    arity (1 for H, RX, RZ and their daggers, 2 for CNOT). -/
theorem spec_semantics_agree (k : Scal R) (ang : T → Ang R) (n : Nat) (e : ℕ → Fin n)
    (he : ∀ q, q < n → (e q).val = q) (c : Circ T) (hok : ∀ o ∈ c, GOpOK n o) :
    C01.circSem n ((toOps k ang c).map C01.Oper.gate) = circSem k ang e c :=
  circSem_link k ang n e he c hok

/-- EXECUTABLE = SPEC (removes the gap between `circSem`, in which every theorem of OQ/Props/C16.lean is stated, and
    `unitary`, which the driver runs): for every model circuit of accepted operations the executable unitary exists,
    is `2^n × 2^n`, and re-indexed by bit assignments it is `circSem`.  Composition of
    `C01.toUnitary_ordered_product` (whose hypothesis `OpValid` follows from `GOpOK`) with `spec_semantics_agree`;
    the shared `Lift.toUnitary` agrees with C01's `toUnitary` on well-shaped operations, and the empty circuit is the
    identity by the model's own convention. -/
theorem exec_unitary_eq_spec (k : Scal R) (ang : T → Ang R) (n : Nat) (e : ℕ → Fin n)
    (he : ∀ q, q < n → (e q).val = q) (c : Circ T) (hok : ∀ o ∈ c, GOpOK n o) :
    ∃ U, unitary k ang n c = some U ∧ U.r = 2 ^ n ∧ U.c = 2 ^ n ∧ C01.toBV n U = circSem k ang e c :=
  unitary_spec k ang n e he c hok

/-! ### the hypothesis `OpValid` of C01's theorems holds for every circuit C16 builds -/

/-- DISCHARGES `h : ∀ o ∈ gs, OpValid n o` of `C01.toUnitary_ordered_product` / `C01.applyAll_eq_toUnitary_mulVec`
    for the circuit of `time_evolution_for_term`: on every register containing the term's (distinct) qubits, every
    operation is one the library accepts – one index for H / RX / RZ / daggers, two DISTINCT indices for each CNOT of
    the ladder, matrices of the right arity. -/
theorem term_circuit_accepted (k : Scal R) (ang : T → Ang R) (alg : TimeAlg Q T) (negl : Q → Bool)
    (t : Term (Q × Q)) (hnd : (t.ops.map (·.1)).Nodup) (n : Nat) (hlt : ∀ q ∈ t.ops.map (·.1), q < n)
    (time : T) (c : Circ T) (hc : evolutionForTerm alg negl t time = .ok c) :
    ∀ o ∈ toOps k ang c, C01.OpValid n o := by
  intro o ho
  obtain ⟨g, hg, rfl⟩ := List.mem_map.mp ho
  exact opValid_of_ok k ang n g (evolution_ok alg negl t time c hc hnd n hlt g hg)

/-- the same for the circuit of `time_evolution` (any number of steps ≥ 1, any number of terms). -/
theorem evolution_circuit_accepted (k : Scal R) (ang : T → Ang R) (alg : TimeAlg Q T) (negl : Q → Bool)
    (h : PSum (Q × Q)) (hnd : ∀ t ∈ h, (t.ops.map (·.1)).Nodup) (N : Nat)
    (hlt : ∀ t ∈ h, ∀ q ∈ t.ops.map (·.1), q < N)
    (time : T) (n : ℕ) (hn : 1 ≤ n) (c : Circ T) (hc : timeEvolution alg negl h time n = .ok c) :
    ∀ o ∈ toOps k ang c, C01.OpValid N o := by
  obtain ⟨cs, hcs, rfl, _⟩ :=
    (evolution_product_order (ι := Fin 1) k alg negl ang (fun _ => 0) h time n hn c).mp hc
  intro o ho
  obtain ⟨g, hg, rfl⟩ := List.mem_map.mp ho
  exact opValid_of_ok k ang N g
    ((timeEvolution_ops_ok alg negl h (alg.smul (1 / (n : Q)) time) n cs hcs hnd N hlt).2 g hg)

/-- … and for every derivative circuit returned by `time_evolution_derivatives`. -/
theorem derivative_circuits_accepted (k : Scal R) (ang : T → Ang R) (alg : TimeAlg Q T) (negl : Q → Bool)
    (h : PSum (Q × Q)) (hnd : ∀ t ∈ h, (t.ops.map (·.1)).Nodup) (N : Nat)
    (hlt : ∀ t ∈ h, ∀ q ∈ t.ops.map (·.1), q < N)
    (time : T) (n : ℕ) (hn : 1 ≤ n) (l : List (Q × Circ T)) (hl : derivatives alg negl h time n = .ok l) :
    ∀ x ∈ l, ∀ o ∈ toOps k ang x.2, C01.OpValid N o := by
  intro x hx o ho
  obtain ⟨g, hg, rfl⟩ := List.mem_map.mp ho
  exact opValid_of_ok k ang N g (derivatives_ops_ok alg negl h time n hn l hl hnd N hlt x hx g hg)

/-! ### (4) the bridge: spec Pauli string operator = executable Kronecker matrix -/

/-- (4) BRIDGE LEMMA.  The spec-level Pauli string of OQ/Props/C16.lean, `pauliString k pa = ⊗_p σ(pa p)` on the
    bit-assignment basis of the register `Fin n`, IS the executable `Pauli.stringMatrix k n at_`
    (`σ_{at 0} ⊗ … ⊗ σ_{at (n−1)}` by `Mat.kron`, qubit 0 leftmost) re-indexed by `toBV` (qubit 0 = most significant
    bit) — for every width and every string.  Uses `C09.stringMatrix_spec`, `C09.strEntry_prod` (the lemmas behind
    `C09.denote_entry_msb`) for the executable side. -/
theorem pauliString_eq_exec (k : Scal R) (n : Nat) (at_ : ℕ → Option P) :
    pauliString k (fun p : Fin n => at_ p.val) = C01.toBV n (stringMatrix k n at_) :=
  pauliString_eq_toBV k n at_

/-- the same for the executable denotation of a whole term (C03's / C09's `Term.denote`, coefficient included):
    `denote` re-indexed is coefficient • (spec Pauli string of the term's letters). -/
theorem term_denote_eq_spec (k : Scal R) (n : Nat) (t : Term R) :
    C01.toBV n (t.denote k n) = t.coeff • pauliString k (fun p : Fin n => t.opAt p.val) := by
  rw [pauliString_eq_toBV k n t.opAt]
  ext x y
  rw [Matrix.smul_apply, C01.toBV_apply, C01.toBV_apply,
    (C09.termDenote_spec k n t).2.2 _ _ (Fin.isLt _) (Fin.isLt _),
    (C09.stringMatrix_spec k t.opAt n).2.2 _ _ (Fin.isLt _) (Fin.isLt _), smul_eq_mul]

/-! ### (1) one term, end to end -/

/-- (1) `term_evolution_exec`.  For EVERY Pauli term (any weight, letters, insertion order) with distinct qubit
    indices and an accepted coefficient, on EVERY register width `n` containing its qubits: the EXECUTABLE unitary of
    the circuit `time_evolution_for_term` returns exists, is `2^n × 2^n`, and ENTRYWISE equals
        cos(tc)·1 − i·sin(tc)·P,   P = the executable `Pauli` denotation of the string (`Term.denote`, coefficient 1),
    (cos tc, sin tc) the half-angle point of the central angle θ = 2·t·c the code computes.
    Removes from `C16.term_evolution` the abstract register (`rg`, `rg.Covers t`) and both spec objects (`circSem`,
    `pauliString`); removes from `C01.toUnitary_ordered_product` the hypothesis `OpValid`. -/
theorem term_evolution_exec (k : Scal R) (hk : ScalLaws k) (alg : TimeAlg Q T) (negl : Q → Bool) (ang : T → Ang R)
    (hpi : ang (alg.smul (1 / ((2 : Nat) : Q)) alg.pi) = ⟨k.r, k.r⟩)
    (t : Term (Q × Q)) (hnd : (t.ops.map (·.1)).Nodup) (hne : t.ops ≠ [])
    (n : Nat) (hlt : ∀ q ∈ t.ops.map (·.1), q < n)
    (time : T) (c : Circ T) (hc : evolutionForTerm alg negl t time = .ok c) :
    ∃ U, unitary k ang n c = some U ∧ U.r = 2 ^ n ∧ U.c = 2 ^ n ∧
      ∀ i j, i < 2 ^ n → j < 2 ^ n →
        U.get i j
          = (ang (alg.smul t.coeff.1 (alg.smul ((2 : Nat) : Q) time))).ch * (if i = j then 1 else 0)
            - (k.i * (ang (alg.smul t.coeff.1 (alg.smul ((2 : Nat) : Q) time))).sh)
                * (Term.denote k n (⟨t.ops, 1⟩ : Term R)).get i j := by
  obtain ⟨U, hU, hr, hcc, hs⟩ := term_exec_toBV k hk alg negl ang hpi t hnd hne n hlt time c hc
  refine ⟨U, hU, hr, hcc, ?_⟩
  intro i j hi hj
  have := congrFun (congrFun hs (C01.bvEquiv n ⟨i, hi⟩)) (C01.bvEquiv n ⟨j, hj⟩)
  simp only [C01.toBV_apply, Equiv.symm_apply_apply, Matrix.sub_apply, Matrix.smul_apply, Matrix.one_apply,
    EmbeddingLike.apply_eq_iff_eq, Fin.mk.injEq, smul_eq_mul] at this
  rw [this, (C09.termDenote_spec k n _).2.2 i j hi hj, (C09.stringMatrix_spec k _ n).2.2 i j hi hj, one_mul]
  rfl

/-- (1) in the ring the driver computes in: `R = ℚ(ζ₈)`, `k = Scal.cyc8`, the model's `ratAlg` (times a·τ + b·π),
    `ratNegl`, and the driver's angle interpretation `driverAng base θ = (evalAng base θ).getD Ang.zero`
    (`base` = half-angle point of τ).  The laws `ScalLaws Scal.cyc8` and `ang(π/2) = (1/√2, 1/√2)` are PROVED
    (`scalLaws_cyc8`, `driverAng_half_pi`), so the statement is literally about the matrix `unitaryOf` of
    OQ/Driver/C16.lean returns (when it returns: it refuses angles `evalAng` cannot evaluate). -/
theorem term_evolution_exec_driver (base : Ang Cyc8) (t : Term (Rat × Rat))
    (hnd : (t.ops.map (·.1)).Nodup) (hne : t.ops ≠ []) (n : Nat) (hlt : ∀ q ∈ t.ops.map (·.1), q < n)
    (time : Rat × Rat) (c : Circ (Rat × Rat)) (hc : evolutionForTerm ratAlg ratNegl t time = .ok c) :
    ∃ U, unitary Scal.cyc8 (fun θ => (evalAng base θ).getD Ang.zero) n c = some U ∧ U.r = 2 ^ n ∧ U.c = 2 ^ n ∧
      ∀ i j, i < 2 ^ n → j < 2 ^ n →
        U.get i j
          = (driverAng base (ratAlg.smul t.coeff.1 (ratAlg.smul ((2 : Nat) : Rat) time))).ch * (if i = j then 1 else 0)
            - (Cyc8.I * (driverAng base (ratAlg.smul t.coeff.1 (ratAlg.smul ((2 : Nat) : Rat) time))).sh)
                * (Term.denote Scal.cyc8 n (⟨t.ops, 1⟩ : Term Cyc8)).get i j :=
  term_evolution_exec Scal.cyc8 scalLaws_cyc8 ratAlg ratNegl (driverAng base) (driverAng_half_pi base)
    t hnd hne n hlt time c hc

/-! ### (2) the Trotter product, end to end -/

/-- (2) `evolution_product_exec`.  For EVERY Hamiltonian (terms with distinct qubit indices), EVERY number of steps
    n ≥ 1 and EVERY register width `N` containing its qubits (`N = 0` included: then every term is constant and the
    circuit is empty): the EXECUTABLE unitary of the circuit `time_evolution` returns exists and equals
        ( ∏_k  [cos((t/n)c_k)·1 − i·sin((t/n)c_k)·P_k] )ⁿ ,
    the product over the terms in the LISTED order (first term rightmost), `P_k` the executable `Pauli` denotation of
    the k-th string, constant terms contributing the identity.  Removes from `C16.evolution_product_order` /
    `C16.term_evolution` the register, `circSem`, `pauliString`, and the existential over per-term circuits. -/
theorem evolution_product_exec (k : Scal R) (hk : ScalLaws k) (alg : TimeAlg Q T) (negl : Q → Bool) (ang : T → Ang R)
    (hpi : ang (alg.smul (1 / ((2 : Nat) : Q)) alg.pi) = ⟨k.r, k.r⟩)
    (h : PSum (Q × Q)) (hnd : ∀ t ∈ h, (t.ops.map (·.1)).Nodup)
    (N : Nat) (hlt : ∀ t ∈ h, ∀ q ∈ t.ops.map (·.1), q < N)
    (time : T) (n : ℕ) (hn : 1 ≤ n) (c : Circ T) (hc : timeEvolution alg negl h time n = .ok c) :
    ∃ U, unitary k ang N c = some U ∧ U.r = 2 ^ N ∧ U.c = 2 ^ N ∧
      Mat.toM (2 ^ N) (2 ^ N) U = (((h.map (fun t => if t.ops = [] then (1 : Matrix (Fin (2 ^ N)) (Fin (2 ^ N)) R) else
          (ang (alg.smul t.coeff.1 (alg.smul ((2 : Nat) : Q) (alg.smul (1 / (n : Q)) time)))).ch
              • (1 : Matrix (Fin (2 ^ N)) (Fin (2 ^ N)) R)
            - (k.i * (ang (alg.smul t.coeff.1 (alg.smul ((2 : Nat) : Q) (alg.smul (1 / (n : Q)) time)))).sh)
              • Mat.toM (2 ^ N) (2 ^ N) (Term.denote k N (⟨t.ops, 1⟩ : Term R)))).reverse).prod) ^ n := by
  rcases Nat.eq_zero_or_pos N with rfl | hN
  · obtain ⟨rfl, h0⟩ := evolution_exec_zero alg negl h hnd hlt time n hn c hc
    refine ⟨_, rfl, rfl, rfl, ?_⟩
    rw [Mat.toM_identity, List.prod_eq_one, one_pow]
    intro x hx
    obtain ⟨t, ht, rfl⟩ := List.mem_map.mp (List.mem_reverse.mp hx)
    rw [if_pos (h0 t ht)]
  · obtain ⟨U, hU, hr, hcc, hs⟩ := evolution_exec_toBV k hk alg negl ang hpi h hnd N hN hlt time n hn c hc
    refine ⟨U, hU, hr, hcc, (φ R N).injective ?_⟩
    rw [φ_toM, hs, map_pow, map_list_prod, List.map_reverse, List.map_map]
    congr 3
    apply List.map_congr_left
    intro t _
    simp only [Function.comp, apply_ite (φ R N), map_one, map_sub, map_smul, toM_denote_one, φ_toM]
    rfl

end ring

/-! ### (3) over ℂ: the executable matrix is the matrix exponential of the executable denotation -/
section complex
open Complex

/-- `exp_pauli` for the EXECUTABLE denotation: exp(−iθP) = cos θ·1 − i·sin θ·P for the executable Kronecker matrix
    `P` of every Pauli string on every width and every real θ (`C16.exp_pauli` + the bridge (4); `exp` commutes with
    re-indexing). -/
theorem exp_pauli_exec (n : Nat) (ops : List (Nat × P)) (θ : ℝ) :
    NormedSpace.exp ((-(I * θ)) • Mat.toM (2 ^ n) (2 ^ n) (Term.denote Scal.complex n (⟨ops, 1⟩ : Term ℂ)))
      = (Real.cos θ : ℂ) • (1 : Matrix (Fin (2 ^ n)) (Fin (2 ^ n)) ℂ)
        - (I * Real.sin θ) • Mat.toM (2 ^ n) (2 ^ n) (Term.denote Scal.complex n (⟨ops, 1⟩ : Term ℂ)) := by
  apply (φ ℂ n).injective
  rw [φ_exp, map_smul, map_sub, map_smul, map_smul, map_one, toM_denote_one, φ_toM, ← pauliString_eq_toBV]
  exact exp_pauli _ θ

/-- (3) `term_evolution_exp_exec`: "for any Pauli term P with real coefficient c and any time t the evolution
    circuit's matrix equals exp(−i t c P) exactly" — for the EXECUTABLE unitary and `P` the EXECUTABLE denotation of
    the string, on every register width containing the term's qubits (model at Q = T = ℝ, gate angles interpreted by
    the real cosine and sine).  Removes the register and both spec objects from `C16.term_evolution_exp`. -/
theorem term_evolution_exp_exec [DecidableEq ℝ] (negl : ℝ → Bool) (t : Term (ℝ × ℝ))
    (hnd : (t.ops.map (·.1)).Nodup) (hne : t.ops ≠ []) (n : Nat) (hlt : ∀ q ∈ t.ops.map (·.1), q < n)
    (time : ℝ) (c : Circ ℝ) (hc : evolutionForTerm realAlg negl t time = .ok c) :
    ∃ U, unitary Scal.complex angReal n c = some U ∧ U.r = 2 ^ n ∧ U.c = 2 ^ n ∧
      Mat.toM (2 ^ n) (2 ^ n) U
        = NormedSpace.exp ((-(I * ((time * t.coeff.1 : ℝ) : ℂ)))
            • Mat.toM (2 ^ n) (2 ^ n) (Term.denote Scal.complex n (⟨t.ops, 1⟩ : Term ℂ))) := by
  have hn := pos_of_ne t hne n hlt
  obtain ⟨U, hU, hr, hcc, hs⟩ := exec_unitary_eq_spec Scal.complex angReal n (regN n hn).e (regN_e n hn) c
    (evolution_ok realAlg negl t time c hc hnd n hlt)
  refine ⟨U, hU, hr, hcc, (φ ℂ n).injective ?_⟩
  rw [φ_toM, hs, term_evolution_exp negl (regN n hn) t (regN_covers n hn t hlt) hnd hne time c hc,
    φ_exp, map_smul, toM_denote_one, φ_toM, ← pauliString_eq_toBV]
  rfl

/-- (3) for the sum: the EXECUTABLE unitary of `time_evolution(h, t, n_steps = n)` is (∏_k exp(−i (t/n) c_k P_k))ⁿ,
    the product in the listed order (first term rightmost), `P_k` the executable denotation of the k-th string;
    constant terms contribute the identity.  Every width `N` containing the qubits, `N = 0` included. -/
theorem evolution_product_exp_exec [DecidableEq ℝ] (negl : ℝ → Bool) (h : PSum (ℝ × ℝ))
    (hnd : ∀ t ∈ h, (t.ops.map (·.1)).Nodup) (N : Nat) (hlt : ∀ t ∈ h, ∀ q ∈ t.ops.map (·.1), q < N)
    (time : ℝ) (n : ℕ) (hn : 1 ≤ n) (c : Circ ℝ) (hc : timeEvolution realAlg negl h time n = .ok c) :
    ∃ U, unitary Scal.complex angReal N c = some U ∧ U.r = 2 ^ N ∧ U.c = 2 ^ N ∧
      Mat.toM (2 ^ N) (2 ^ N) U
        = (((h.map (fun t => if t.ops = [] then (1 : Matrix (Fin (2 ^ N)) (Fin (2 ^ N)) ℂ) else
            NormedSpace.exp ((-(I * (((1 / (n : ℝ)) * time * t.coeff.1 : ℝ) : ℂ)))
              • Mat.toM (2 ^ N) (2 ^ N) (Term.denote Scal.complex N (⟨t.ops, 1⟩ : Term ℂ))))).reverse).prod) ^ n := by
  obtain ⟨U, hU, hr, hcc, hs⟩ := evolution_product_exec Scal.complex scalLaws_complex realAlg negl angReal
    angReal_half_pi' h hnd N hlt time n hn c hc
  refine ⟨U, hU, hr, hcc, ?_⟩
  rw [hs]
  congr 3
  apply List.map_congr_left
  intro t _
  by_cases h0 : t.ops = []
  · rw [if_pos h0, if_pos h0]
  · rw [if_neg h0, if_neg h0, exp_pauli_exec]
    have : realAlg.smul t.coeff.1 (realAlg.smul ((2 : ℕ) : ℝ) (realAlg.smul (1 / (n : ℝ)) time)) / 2
        = 1 / (n : ℝ) * time * t.coeff.1 := by
      simp only [realAlg]; push_cast; ring
    simp only [angReal, this, Scal.complex]

/-- `derivative_correct` END TO END.  Whenever `time_evolution_derivatives` returns `l` (factors and circuits) and the
    evolution circuit with the same number of steps exists at that time, on EVERY register width `N` containing the
    Hamiltonian's qubits (`N = 0` included), for EVERY matrix `O` and vector `ψ` over the basis indices `Fin (2^N)`:
      * at every time `s` the evolution circuit exists and has an executable unitary `Us s`;
      * every derivative circuit has an executable unitary (`Ul`: the factors paired with those unitaries, in order);
      * d/ds ⟨Us(s)ψ| O |Us(s)ψ⟩ at s = time  =  Σ_{(f, V) ∈ Ul} f · ⟨Vψ| O |Vψ⟩   (Mathlib `HasDerivAt`).
    Removes from `C16.derivative_correct` the register and `circSem` (both sides are now matrices `unitary` computes);
    the hypothesis `OpValid` of C01 is discharged by `derivative_circuits_accepted`. -/
theorem derivative_correct_exec [DecidableEq ℝ] (negl : ℝ → Bool) (h : PSum (ℝ × ℝ))
    (hnd : ∀ t ∈ h, (t.ops.map (·.1)).Nodup) (N : Nat) (hlt : ∀ t ∈ h, ∀ q ∈ t.ops.map (·.1), q < N)
    (time : ℝ) (n : ℕ) (hn : 1 ≤ n) (C0 : Circ ℝ) (hev : timeEvolution realAlg negl h time n = .ok C0)
    (l : List (ℝ × Circ ℝ)) (hl : derivatives realAlg negl h time n = .ok l)
    (O : Matrix (Fin (2 ^ N)) (Fin (2 ^ N)) ℂ) (ψ : Fin (2 ^ N) → ℂ) :
    ∃ (Us : ℝ → Mat ℂ) (Ul : List (ℝ × Mat ℂ)),
      (∀ s, ∃ C, timeEvolution realAlg negl h s n = .ok C ∧ unitary Scal.complex angReal N C = some (Us s)) ∧
      List.Forall₂ (fun x y => y.1 = x.1 ∧ unitary Scal.complex angReal N x.2 = some y.2) l Ul ∧
      HasDerivAt (fun s => star (Mat.toM (2 ^ N) (2 ^ N) (Us s) *ᵥ ψ) ⬝ᵥ (O *ᵥ (Mat.toM (2 ^ N) (2 ^ N) (Us s) *ᵥ ψ)))
        ((Ul.map (fun y => (y.1 : ℂ) *
            (star (Mat.toM (2 ^ N) (2 ^ N) y.2 *ᵥ ψ) ⬝ᵥ (O *ᵥ (Mat.toM (2 ^ N) (2 ^ N) y.2 *ᵥ ψ))))).sum)
        time := by
  rcases Nat.eq_zero_or_pos N with rfl | hN
  · exact derivative_exec_zero negl h hnd hlt time n hn C0 hev l hl O ψ
  · exact derivative_exec_pos negl h hnd N hN hlt time n hn C0 hev l hl O ψ

end complex

/-! ### non-vacuity: concrete non-trivial inputs meeting the hypotheses -/

/-- the input hypotheses of (1) on Y₂·X₀ (unsorted insertion order, a gap): distinct qubits, non-constant, inside a
    3-qubit register; the circuit is returned (see OQ/Props/C16.lean for the circuit itself) -/
example : ((([(2, .Y), (0, .X)] : List (ℕ × P))).map (·.1)).Nodup ∧ ([(2, .Y), (0, .X)] : List (ℕ × P)) ≠ [] ∧
    (∀ q ∈ (([(2, .Y), (0, .X)] : List (ℕ × P))).map (·.1), q < 3) ∧
    (evolutionForTerm ratAlg ratNegl ⟨[(2, .Y), (0, .X)], (1/2, 0)⟩ (1, 0)).toOption.isSome = true :=
  ⟨by decide, by decide, by decide, by decide +kernel⟩
/-- every operation of that circuit satisfies `GOpOK 3` (the CNOT is on the distinct indices 0, 2) -/
example : ∀ o ∈ ([⟨.H, [0]⟩, ⟨.RX (0, 1/2), [2]⟩, ⟨.CNOT, [0, 2]⟩, ⟨.RZ (1, 0), [2]⟩, ⟨.CNOT, [0, 2]⟩,
    ⟨.RXdg (0, 1/2), [2]⟩, ⟨.H, [0]⟩] : Circ (Rat × Rat)), GOpOK 3 o :=
  evolution_ok ratAlg ratNegl ⟨[(2, .Y), (0, .X)], (1/2, 0)⟩ (1, 0) _ (by decide +kernel) (by decide) 3 (by decide)
/-- the constants of the driver's ring satisfy the laws, and its angle interpretation sends π/2 to (1/√2, 1/√2) -/
example (base : Ang Cyc8) : ScalLaws Scal.cyc8 ∧
    driverAng base (ratAlg.smul (1 / ((2 : ℕ) : ℚ)) ratAlg.pi) = ⟨Scal.cyc8.r, Scal.cyc8.r⟩ :=
  ⟨scalLaws_cyc8, driverAng_half_pi base⟩
/-- (1) evaluated: X₀·Y₁ with coefficient 1/2 at time τ, τ/2 ↦ (3/5, 4/5), on 2 qubits.  The executable unitary has
    entry (0,3) = −i·sin·(−i) = −4/5 and entry (0,0) = cos = 3/5; the executable denotation has entry (0,3) = −i. -/
example : (unitary Scal.cyc8 (driverAng ⟨Cyc8.ofRat (3/5), Cyc8.ofRat (4/5)⟩) 2
      [⟨.H, [0]⟩, ⟨.RX (0, 1/2), [1]⟩, ⟨.CNOT, [0, 1]⟩, ⟨.RZ (1, 0), [1]⟩, ⟨.CNOT, [0, 1]⟩,
       ⟨.RXdg (0, 1/2), [1]⟩, ⟨.H, [0]⟩]).map (fun U => (U.get 0 0, U.get 0 3, U.get 1 2, U.get 0 1))
    = some (Cyc8.ofRat (3/5), Cyc8.ofRat (-4/5), Cyc8.ofRat (4/5), 0) := by decide +kernel
example : ((Term.denote Scal.cyc8 2 (⟨[(0, .X), (1, .Y)], 1⟩ : Term Cyc8)).get 0 3,
      (Term.denote Scal.cyc8 2 (⟨[(0, .X), (1, .Y)], 1⟩ : Term Cyc8)).get 1 2,
      (Term.denote Scal.cyc8 2 (⟨[(0, .X), (1, .Y)], 1⟩ : Term Cyc8)).get 0 0)
    = (-Cyc8.I, Cyc8.I, 0) := by decide +kernel
example : evolutionForTerm ratAlg ratNegl ⟨[(0, .X), (1, .Y)], (1/2, 0)⟩ (1, 0) = .ok
    [⟨.H, [0]⟩, ⟨.RX (0, 1/2), [1]⟩, ⟨.CNOT, [0, 1]⟩, ⟨.RZ (1, 0), [1]⟩, ⟨.CNOT, [0, 1]⟩,
     ⟨.RXdg (0, 1/2), [1]⟩, ⟨.H, [0]⟩] := by decide +kernel
/-- the hypotheses of (2), (3) and `derivative_correct_exec` are met over ℝ by X₀Y₁ + ½·Z₁ + 0·Z₀ with two steps on
    the 2-qubit register (and on any wider one), at every time -/
example [DecidableEq ℝ] (time : ℝ) :
    (∃ l, derivatives realAlg (fun _ => true)
        [⟨[(0, .X), (1, .Y)], (1, 0)⟩, ⟨[(1, .Z)], (1/2, 0)⟩, ⟨[(0, .Z)], (0, 0)⟩] time 2 = .ok l) ∧
    (∃ C0, timeEvolution realAlg (fun _ => true)
        [⟨[(0, .X), (1, .Y)], (1, 0)⟩, ⟨[(1, .Z)], (1/2, 0)⟩, ⟨[(0, .Z)], (0, 0)⟩] time 2 = .ok C0) ∧
    (∀ t ∈ ([⟨[(0, .X), (1, .Y)], (1, 0)⟩, ⟨[(1, .Z)], (1/2, 0)⟩, ⟨[(0, .Z)], (0, 0)⟩] : PSum (ℝ × ℝ)),
      (t.ops.map (·.1)).Nodup ∧ ∀ q ∈ t.ops.map (·.1), q < 2) := by
  refine ⟨?_, ?_, ?_⟩
  · exact (derivatives_defined realAlg (fun _ => true) _ time 2 (by norm_num)).1 (fun t _ => by simp [acc])
  · exact ⟨_, timeEvolution_acc realAlg (fun _ => true) _ time 2 (fun t _ => by simp [acc])⟩
  · intro t ht
    simp only [List.mem_cons, List.not_mem_nil, or_false] at ht
    rcases ht with rfl | rfl | rfl <;> exact ⟨by decide, by decide⟩

end OQ.C16.Link
