/- C08 — PROPERTY THEOREMS (translation tie): the builders of `circuits/_generators.py` (`apply_gate_to_qubits`,
   `create_layer_of_gates`, `add_ancilla_register`) and `Circuit.controlled` / `Circuit.inverse` of `circuits/_circuit.py`.

   `OQ.Generated.Translated.apply_gate_to_qubits` … are REGENERATED from /repo's current Python source on every run
   (harness/translate_t3.py → OQ/Generated/TranslatedC08.lean).  Circuits (γ), operations (ω), gates (κ), gate factories (φ) and
   parameter rows (π) are OPAQUE; what the functions do with them is an explicit parameter of the translated definition:
     `ext_add : γ → ω → γ`           `circuit + operation` (`circuit += op` rebinds the local name – `Circuit` has no `__iadd__`)
     `call_factory_star : φ → π → κ`  `gate_factory(*row)`;  `call_gate : κ → Int → ω`  `gate(qubit)`;  `call_factory : φ → Int → ω`
     `ext_set_order : List Int → PySet Int`   the iteration order of `set(qubit_indices)` (a set is the list of its elements in
                                     iteration order); its law (duplicate-free, same elements) is a hypothesis where needed
     `ext_Circuit0`, `ext_I`, `attr_n_qubits`, `attr_operations`, `attr_gate`, `attr_qubit_indices`, `meth_controlled`, `attr_dagger`, ….
   In the ties the opaque objects are read in the model `OQ.C08`: γ = `Circ G`, ω = `GOp G`, κ = `G`, φ = `(P → G) × G` (the two
   readings of the Union-typed `gate_factory`), π = `P`; qubit indices are Python ints (`Int`), the model's are naturals.
   Domain of every tie: externals that do not raise, qubit indices ≥ 0 (a negative index is outside the model). -/
import OQ.Generated.TranslatedC08
import OQ.Lemmas.C08_TranslatedBuilders
import OQ.Props.C08
namespace OQ.C08
open OQ.Generated

/-- TRANSLATION TIE (`_generators.py:apply_gate_to_qubits`): the function regenerated from the current Python source is the model's
    `applyGateToQubits` (`none` = the `assert len(parameters) == len(unique_qubit_idx)` fails), for EVERY circuit, every list of
    qubit indices, both readings of `gate_factory` (`(factory, fixed)`: a prototype called with `*row`, or a gate), `parameters`
    `None` or any list of rows, and ANY iteration order of `set(qubit_indices)` (`setOrder`, with `order` its reading as natural
    numbers – no law of the order is needed for the tie; `applyGate_count` needs one).  `warn(…)` is skipped by the translation. -/
theorem translated_apply_gate_to_qubits_eq {G P : Type} (setOrder : List Int → List Int) (c : Circ G) (qs : List Int)
    (order : List Nat) (hset : setOrder qs = order.map Int.ofNat) (factory : P → G) (fixed : G) (rows : Option (List P)) :
    Translated.apply_gate_to_qubits setOrder (fun (f : (P → G) × G) (p : P) => f.1 p)
        (fun (g : G) (q : Int) => (⟨g, [q.toNat]⟩ : GOp G)) (fun f q => ⟨f.2, [q.toNat]⟩) appendOp c qs (factory, fixed) rows
      = (applyGateToQubits c order factory fixed rows).toOption := by
  unfold Translated.apply_gate_to_qubits applyGateToQubits
  simp only [hset, ite_self]
  cases rows with
  | none =>
    simp only [List.foldl_map, Int.ofNat_eq_natCast, Int.toNat_natCast]
    rfl
  | some ps =>
    simp only [List.length_map]
    by_cases h : ps.length = order.length
    · simp only [h, beq_self_eq_true, if_true, ne_eq, not_true_eq_false, if_false, List.zip_map_left, List.foldl_map,
        Prod.map, Int.ofNat_eq_natCast, Int.toNat_natCast, id]
      rfl
    · have h' : ((ps.length : Int) == (order.length : Int)) = false := by
        rw [beq_eq_false_iff_ne]; intro hh; exact h (by exact_mod_cast hh)
      simp only [h', h, ne_eq, not_false_eq_true, if_true]
      rfl

/-- TRANSLATION TIE (`_generators.py:create_layer_of_gates`): `apply_gate_to_qubits(Circuit(), range(n), gate_factory, parameters)`
    regenerated from the current source is the model's `createLayer` (for every `n`, also `n ≤ 0`: `range(n)` is empty). -/
theorem translated_create_layer_of_gates_eq {G P : Type} (setOrder : List Int → List Int) (n : Int)
    (order : List Nat) (hset : setOrder ((List.range n.toNat).map Int.ofNat) = order.map Int.ofNat)
    (factory : P → G) (fixed : G) (rows : Option (List P)) :
    Translated.create_layer_of_gates setOrder (fun (f : (P → G) × G) (p : P) => f.1 p)
        (fun (g : G) (q : Int) => (⟨g, [q.toNat]⟩ : GOp G)) (fun f q => ⟨f.2, [q.toNat]⟩) appendOp (mkCirc [] 0)
        n (factory, fixed) rows
      = (createLayer order factory fixed rows).toOption := by
  unfold Translated.create_layer_of_gates createLayer
  exact translated_apply_gate_to_qubits_eq setOrder _ _ order hset factory fixed rows

/-- TRANSLATION TIE (`_generators.py:add_ancilla_register`): the loop `extended_circuit += I(circuit.n_qubits + i)` regenerated from
    the current source (with `+=` REBINDING the local name: `Circuit` defines no `__iadd__`, checked by the translator) is the
    model's `addAncilla`, for every circuit and every integer count (a negative count adds nothing, as `range` does). -/
theorem translated_add_ancilla_register_eq {G : Type} (iG : G) (c : Circ G) (k : Int) :
    Translated.add_ancilla_register (fun c : Circ G => (c.n : Int)) (fun q => (⟨iG, [q.toNat]⟩ : GOp G)) appendOp c k
      = addAncilla iG c k.toNat := by
  unfold Translated.add_ancilla_register addAncilla
  simp only [List.foldl_map, Int.ofNat_eq_natCast]
  congr 1

/-- TRANSLATION TIE (`_circuit.py:Circuit.controlled`): the loop regenerated from the current source (`op.gate.controlled(1)`,
    indices `i + 1 if i >= control_index else i`, control index first, `Circuit(c_ops)`) is the model's `controlledCirc`, for
    every circuit and every control index `ci ≥ 0`; `ctl` is the opaque `gate.controlled(1)`. -/
theorem translated_circuit_controlled_eq {G : Type} (ctl : G → G) (ci : Nat) (c : Circ G) :
    Translated.circuit_controlled (fun c : Circ G => c.ops) (fun o : GOp G => o.gate)
        (fun o => o.qs.map Int.ofNat) (fun g _ => ctl g) (fun g qs => (⟨g, qs.map Int.toNat⟩ : GOp G))
        (fun ops => mkCirc ops 0) c (ci : Int)
      = controlledCirc ctl ci c := by
  unfold Translated.circuit_controlled controlledCirc
  have : ∀ (acc : List (GOp G)) (l : List (GOp G)),
      l.foldl (fun st op => st ++ [(⟨ctl op.gate, ((ci : Int) :: (op.qs.map Int.ofNat).map
        (fun i => if decide (i ≥ (ci : Int)) then i + 1 else i)).map Int.toNat⟩ : GOp G)]) acc
      = acc ++ l.map (fun o => ⟨ctl o.gate, ci :: o.qs.map (shiftIdx ci)⟩) := by
    intro acc l
    induction l generalizing acc with
    | nil => simp
    | cons o os ih =>
      rw [List.foldl_cons, ih, List.map_cons, List.append_assoc]
      congr 3
      have hq : (List.map Int.toNat (List.map (fun i => if decide (i ≥ (ci : Int)) then i + 1 else i)
          (List.map Int.ofNat o.qs))) = o.qs.map (shiftIdx ci) := by
        rw [List.map_map, List.map_map]
        apply List.map_congr_left
        intro q _
        simp only [Function.comp, shiftIdx, Int.ofNat_eq_natCast, ge_iff_le, Nat.cast_le, decide_eq_true_eq]
        split <;> simp
      rw [List.map_cons, hq, Int.toNat_natCast]
      rfl
  exact congrArg (fun ops => mkCirc ops 0) ((this [] c.ops).trans (List.nil_append _))

/-- TRANSLATION TIE (`_circuit.py:Circuit.inverse`): `type(self)(operations=[op.gate.dagger(*op.qubit_indices) for op in
    reversed(self.operations)], n_qubits=self.n_qubits)` regenerated from the current source is the model's `inverse`, for every
    circuit of gate operations (the model's circuits hold gate operations only: `isinstance(op, GateOperation)` is `true`; the
    translated definition returns `none` where the `assert` fails); `dg` is the opaque `gate.dagger`. -/
theorem translated_circuit_inverse_eq {G : Type} (dg : G → G) (c : Circ G) :
    Translated.circuit_inverse (fun c : Circ G => c.ops) (fun c => (c.n : Int)) (fun _ => true) (fun o : GOp G => o.gate)
        (fun o => o.qs.map Int.ofNat) dg (fun g qs => (⟨g, qs.map Int.toNat⟩ : GOp G))
        (fun ops n => mkCirc ops n.toNat) c
      = some (inverse dg c) := by
  unfold Translated.circuit_inverse inverse
  have hid : ∀ l : List Nat, List.map Int.toNat (List.map Int.ofNat l) = l := by
    intro l; rw [List.map_map]; exact (List.map_congr_left (fun q _ => by simp)).trans (List.map_id _)
  simp [hid]

/-! ## end-to-end: sentences of the property ON THE TRANSLATED CODE (through the ties) -/

/-- `applyGate_count` on the translated `apply_gate_to_qubits`: under the CPython law that `set(qubit_indices)` lists every listed
    qubit exactly once (`hnd`, `hmem`), with one row per distinct qubit the call succeeds, the existing operations stay in place,
    exactly one new single-qubit gate per distinct listed qubit is added, the i-th new gate is built from the i-th row, and the
    width grows just enough to contain the new gates. -/
theorem translated_applyGate_count {G P : Type} (setOrder : List Int → List Int) (c : Circ G) (qs : List Nat)
    (factory : P → G) (fixed : G) (ps : List P)
    (hnd : (setOrder (qs.map Int.ofNat)).Nodup) (hmem : ∀ q, q ∈ setOrder (qs.map Int.ofNat) ↔ q ∈ qs.map Int.ofNat)
    (hlen : ps.length = (setOrder (qs.map Int.ofNat)).length) :
    ∃ c', Translated.apply_gate_to_qubits setOrder (fun (f : (P → G) × G) (p : P) => f.1 p)
        (fun (g : G) (q : Int) => (⟨g, [q.toNat]⟩ : GOp G)) (fun f q => ⟨f.2, [q.toNat]⟩) appendOp c (qs.map Int.ofNat)
        (factory, fixed) (some ps) = some c' ∧
      (∃ new, c'.ops = c.ops ++ new ∧ new.length = qs.dedup.length ∧ new.map (fun o => o.gate) = ps.map factory ∧
        (∀ q, (new.filter (fun o => o.qs = [q])).length = if q ∈ qs then 1 else 0)) ∧
      c.n ≤ c'.n ∧ (∀ q ∈ qs, q < c'.n) := by
  obtain ⟨ho, hnd', hmem'⟩ := setOrder_nat (setOrder (qs.map Int.ofNat)) qs hnd hmem
  obtain ⟨c', hc', ⟨new, h1, h2, h3, _, h5⟩, h6, h7⟩ :=
    applyGate_count c qs ((setOrder (qs.map Int.ofNat)).map Int.toNat) factory fixed ps hnd' hmem'
      (by rw [List.length_map]; exact hlen)
  refine ⟨c', ?_, ⟨new, h1, h2, h3, h5⟩, h6, h7⟩
  rw [translated_apply_gate_to_qubits_eq setOrder c _ _ ho, hc']
  rfl

/-- `applyGate_rejects` on the translated code: a parameter array whose number of rows differs from the number of elements of
    `set(qubit_indices)` fails the `assert` -/
theorem translated_applyGate_rejects {G P : Type} (setOrder : List Int → List Int) (c : Circ G) (qs : List Int) (order : List Nat)
    (hset : setOrder qs = order.map Int.ofNat) (factory : P → G) (fixed : G) (ps : List P) (hlen : ps.length ≠ order.length) :
    Translated.apply_gate_to_qubits setOrder (fun (f : (P → G) × G) (p : P) => f.1 p)
        (fun (g : G) (q : Int) => (⟨g, [q.toNat]⟩ : GOp G)) (fun f q => ⟨f.2, [q.toNat]⟩) appendOp c qs (factory, fixed)
        (some ps) = none := by
  rw [translated_apply_gate_to_qubits_eq setOrder c qs order hset, applyGate_rejects c order factory fixed ps hlen]
  rfl

/-- `layer_rows` on the translated `create_layer_of_gates`: under the CPython law that `set(range(n))` iterates in ascending order,
    the layer consists of exactly `n` single-qubit gates, the i-th one built from the i-th row and placed on qubit `i`, and the
    circuit is `n` qubits wide -/
theorem translated_layer_rows {G P : Type} (setOrder : List Int → List Int) (n : Nat)
    (hset : setOrder ((List.range n).map Int.ofNat) = (List.range n).map Int.ofNat)
    (factory : P → G) (fixed : G) (ps : List P) (hlen : ps.length = n) :
    ∃ c', Translated.create_layer_of_gates setOrder (fun (f : (P → G) × G) (p : P) => f.1 p)
        (fun (g : G) (q : Int) => (⟨g, [q.toNat]⟩ : GOp G)) (fun f q => ⟨f.2, [q.toNat]⟩) appendOp (mkCirc [] 0)
        (n : Int) (factory, fixed) (some ps) = some c' ∧
      c'.ops.length = n ∧
      (∀ i (hi : i < n) (h' : i < c'.ops.length), c'.ops[i] = ⟨factory (ps[i]'(by omega)), [i]⟩) ∧
      c'.n = n := by
  obtain ⟨c', hc', h1, h2, h3⟩ := layer_rows n factory fixed ps hlen
  refine ⟨c', ?_, h1, h2, h3⟩
  rw [translated_create_layer_of_gates_eq setOrder (n : Int) (List.range n) (by simpa using hset), hc']
  rfl

/-- `ancilla_width` on the translated `add_ancilla_register`: the circuit is widened by EXACTLY `k` qubits, the existing
    operations stay in place, the new operations are identity gates on the `k` new indices -/
theorem translated_ancilla_width {G : Type} (iG : G) (c : Circ G) (k : Nat) :
    (Translated.add_ancilla_register (fun c : Circ G => (c.n : Int)) (fun q => (⟨iG, [q.toNat]⟩ : GOp G)) appendOp c k).n
      = c.n + k ∧
    (Translated.add_ancilla_register (fun c : Circ G => (c.n : Int)) (fun q => (⟨iG, [q.toNat]⟩ : GOp G)) appendOp c k).ops
      = c.ops ++ (List.range k).map (fun i => ⟨iG, [c.n + i]⟩) := by
  rw [translated_add_ancilla_register_eq]
  exact ancilla_width iG c k

/-- `inverse_shape` on the translated `Circuit.inverse`: same width, reversed operations, each gate replaced by its dagger on
    its original qubits -/
theorem translated_inverse_shape {G : Type} (dg : G → G) (c : Circ G) (hc : c.n = 0 → c.ops = []) :
    ∃ c', Translated.circuit_inverse (fun c : Circ G => c.ops) (fun c => (c.n : Int)) (fun _ => true)
        (fun o : GOp G => o.gate) (fun o => o.qs.map Int.ofNat) dg (fun g qs => (⟨g, qs.map Int.toNat⟩ : GOp G))
        (fun ops n => mkCirc ops n.toNat) c = some c' ∧
      c'.n = c.n ∧ c'.ops = c.ops.reverse.map (fun o => ⟨dg o.gate, o.qs⟩) :=
  ⟨_, translated_circuit_inverse_eq dg c, inverse_shape dg c hc⟩

/-! non-vacuity: circuits as (operation list, width) pairs / the model's records, gates as numbers -/
example : Translated.apply_gate_to_qubits (fun _ => [8, 1, 5]) (fun (f : Nat) (p : Nat) => f + p) (fun g q => (g, q))
      (fun f q => (f, q)) (fun (c : List (Nat × Int)) o => c ++ [o]) [(0, 0)] [5, 1, 8, 1, 5] 100 (some [1, 2, 3])
    = some [(0, 0), (101, 8), (102, 1), (103, 5)] := by decide
example : Translated.apply_gate_to_qubits (fun _ => [8, 1, 5]) (fun (f : Nat) (p : Nat) => f + p) (fun g q => (g, q))
      (fun f q => (f, q)) (fun (c : List (Nat × Int)) o => c ++ [o]) [] [5, 1, 8, 1, 5] 100 (some [1, 2]) = none := by decide
example : Translated.create_layer_of_gates (fun l => l) (fun (f : Nat) (p : Nat) => f + p) (fun g q => (g, q))
      (fun f q => (f, q)) (fun (c : List (Nat × Int)) o => c ++ [o]) [] 3 7 none = some [(7, 0), (7, 1), (7, 2)] := by decide
example : Translated.add_ancilla_register (fun c : Circ Nat => (c.n : Int)) (fun q => (⟨0, [q.toNat]⟩ : GOp Nat)) appendOp
      ⟨[⟨5, [1]⟩], 3⟩ 2 = ⟨[⟨5, [1]⟩, ⟨0, [3]⟩, ⟨0, [4]⟩], 5⟩ := by rfl
example : Translated.circuit_controlled (fun c : Circ Nat => c.ops) (fun o : GOp Nat => o.gate)
      (fun o => o.qs.map Int.ofNat) (fun g _ => g + 100) (fun g qs => (⟨g, qs.map Int.toNat⟩ : GOp Nat))
      (fun ops => mkCirc ops 0) ⟨[⟨5, [0, 2]⟩, ⟨6, [1]⟩], 3⟩ 1 = ⟨[⟨105, [1, 0, 3]⟩, ⟨106, [1, 2]⟩], 4⟩ := by rfl
example : Translated.circuit_inverse (fun c : Circ Nat => c.ops) (fun c => (c.n : Int)) (fun _ => true) (fun o : GOp Nat => o.gate)
      (fun o => o.qs.map Int.ofNat) (fun g => g + 100) (fun g qs => (⟨g, qs.map Int.toNat⟩ : GOp Nat))
      (fun ops n => mkCirc ops n.toNat) ⟨[⟨5, [0, 2]⟩, ⟨6, [1]⟩], 4⟩ = some ⟨[⟨106, [1]⟩, ⟨105, [0, 2]⟩], 4⟩ := by rfl

end OQ.C08
