/- C12 — PROPERTY THEOREMS (translation ties): the bit tricks of `Wavefunction.dicke_state`.
   The definitions `OQ.Generated.Translated.*` are REGENERATED from /repo's current Python source on every run
   (harness/translate.py → OQ/Generated/TranslatedC12.lean); an edit of the Python function changes the definition and
   these equalities stop checking at build time. -/
import OQ.Generated.TranslatedC12
import OQ.Lemmas.Translated
import OQ.Model.C12
import OQ.Props.C12
namespace OQ.C12
open OQ.Generated OQ.Py OQ.Tr

/-- TRANSLATION TIE: `_most_significant_set_bit(val)` (= `len(bin(val)) - 2`) regenerated from the current Python source is the
    model's `msb`. -/
theorem translated_most_significant_set_bit_eq (v : Nat) :
    Translated.most_significant_set_bit (v : Int) = ((OQ.C12.msb v : Nat) : Int) := by
  unfold Translated.most_significant_set_bit
  rw [bin_ofNat]
  simp only [List.length_cons, List.length_map, binDigits_length]
  unfold OQ.C09.bitLength OQ.C12.msb
  push_cast
  ring

/-- TRANSLATION TIE: `_get_next_number_with_same_hamming_weight(val)` (Gosper's hack) regenerated from the current Python source
    is the model's `nextSameWeight`, for every `val ≥ 1` (`x & -x` is rendered as the lowest set bit; the other operands of
    `|`, `>>`, `//` are non-negative there). -/
theorem translated_next_same_weight_eq (v : Nat) (hv : 1 ≤ v) :
    Translated.next_number_with_same_hamming_weight (v : Int) = ((OQ.C12.nextSameWeight v : Nat) : Int) := by
  unfold Translated.next_number_with_same_hamming_weight OQ.C12.nextSameWeight OQ.Py.lor OQ.Py.shr OQ.Py.lowbit OQ.C12.lowBit
  have e1 : ((v : Int) - 1).toNat = v - 1 := by omega
  simp only [Int.toNat_natCast, e1]
  have e2 : (((v ||| (v - 1) : Nat) : Int) + 1).toNat = (v ||| (v - 1)) + 1 := by omega
  simp only [e2]
  have e3 : ∀ a b : Nat, Int.fdiv (a : Int) (b : Int) = ((a / b : Nat) : Int) := by
    intro a b
    rw [Int.fdiv_eq_ediv_of_nonneg _ (Int.natCast_nonneg b)]
    rfl
  simp only [e3, Int.toNat_natCast]
  have e4 : ∀ k : Nat, ((k : Int) - 1).toNat = k - 1 := by intro k; omega
  simp only [e4]
  have e5 : ((1 : Int)).toNat = 1 := rfl
  simp only [e5]
  first | done | (push_cast; rfl) | push_cast

/-- END-TO-END ON THE CODE AS IT IS NOW: for every `val ≥ 1`, `_get_next_number_with_same_hamming_weight(val)` is the LEAST integer
    above `val` with the same Hamming weight (composition of the tie with `nextSameWeight_next`) – the step on which
    `dicke_state` enumerates "exactly the basis states of the requested Hamming weight". -/
theorem translated_gosper_next (v : Nat) (hv : 0 < v) :
    ∃ w : Nat, Translated.next_number_with_same_hamming_weight (v : Int) = (w : Int) ∧ v < w ∧
      popcount w = popcount v ∧ ∀ u, v < u → popcount u = popcount v → w ≤ u :=
  ⟨nextSameWeight v, translated_next_same_weight_eq v hv, nextSameWeight_next v hv⟩

/-! non-vacuity -/
example : Translated.next_number_with_same_hamming_weight 3 = 5 := by decide
example : Translated.next_number_with_same_hamming_weight 6 = 9 := by decide
example : Translated.most_significant_set_bit 9 = 4 := by decide
end OQ.C12
