/-
  C15 — PROPERTY THEOREMS: estimation returns one correctly weighted result per task, in task order.
  Model: OQ/Model/C15.lean.  Helper lemmas and the specification vocabulary
  (`isMeasured`, `rank`, `sampleMean`, `zEigenvalue`, `interleave`): OQ/Lemmas/C15.lean.

  The circuit runner `rb`, the wavefunction simulator `wf`, the operator-to-matrix map `opMat` and
  `Circuit.bind` are arbitrary parameters; what is assumed of them is written as a hypothesis.
-/
import OQ.Lemmas.C15
import Mathlib.Data.List.Forall2
namespace OQ.C15

variable {C : Type}

/-! ### mechanism 1: partition with remembered indices -/

/-- the two task lists are the measured / not-measured tasks in their original order -/
theorem split_lists (tasks : List (Task C)) :
    (splitTasks tasks).toMeasure = tasks.filter isMeasured ∧
    (splitTasks tasks).notToMeasure = tasks.filter notMeasured := by
  rw [splitTasks_eq_rec]; exact splitRec_lists tasks

/-- every remembered index points at the task stored beside it, every position of the input is
    remembered in exactly the list its task belongs to, and both index lists are strictly increasing -/
theorem split_indices_remembered (tasks : List (Task C)) :
    (splitTasks tasks).idxMeasure.map (fun i => tasks[i]?) = (splitTasks tasks).toMeasure.map some ∧
    (splitTasks tasks).idxNot.map (fun i => tasks[i]?) = (splitTasks tasks).notToMeasure.map some ∧
    (∀ i, i ∈ (splitTasks tasks).idxMeasure ↔ ∃ h : i < tasks.length, notMeasured tasks[i] = false) ∧
    (∀ i, i ∈ (splitTasks tasks).idxNot ↔ ∃ h : i < tasks.length, notMeasured tasks[i] = true) ∧
    (splitTasks tasks).idxMeasure.Pairwise (· < ·) ∧ (splitTasks tasks).idxNot.Pairwise (· < ·) := by
  rw [splitTasks_eq_rec]
  exact ⟨(splitRec_lookup tasks).1, (splitRec_lookup tasks).2, fun i => (splitRec_mem tasks i).1,
    fun i => (splitRec_mem tasks i).2, (splitRec_sorted tasks).1, (splitRec_sorted tasks).2⟩

/-! ### sentence 1: exactly one result per task, at the task's position -/

/-- "returns exactly one result per task": the result list has the length of the task list, for every
    task list and every runner (no assumption on the runner at all) -/
theorem result_length (rb : List C → List (Option Int) → Except Err (List Shots))
    (tasks : List (Task C)) (r : List (Option Vals)) (h : estimateByAveraging rb tasks = .ok r) :
    r.length = tasks.length := by
  obtain ⟨nv, mv, meas, _, _, _, _, hr⟩ := est_ok rb tasks r h
  rw [hr, interleave_length]

/-- "at the task's position, whatever mixture of measurable, constant-operator and zero-shot tasks":
    for every interleaving, the entry at position `i` is a value (never `None`), and it is computed from
    task `i` alone – by `evaluate_non_measured` if the task is not measured, otherwise from the
    operator of task `i` and the measurements the runner returned for task `i`'s circuit (its
    position `rank tasks i` in the submitted batch). -/
theorem result_at_index (rb : List C → List (Option Int) → Except Err (List Shots))
    (hlaw : ∀ cs ns meas, rb cs ns = .ok meas → meas.length = cs.length)
    (tasks : List (Task C)) (r : List (Option Vals)) (h : estimateByAveraging rb tasks = .ok r) :
    ∃ meas : List Shots,
      (tasks.filter isMeasured ≠ [] → rb (submittedCircuits tasks) (submittedShots tasks) = .ok meas) ∧
      meas.length = (submittedCircuits tasks).length ∧
      ∀ i (hi : i < tasks.length), ∃ v, r[i]? = some (some v) ∧
        (if notMeasured tasks[i] then evalNonMeasured tasks[i]
         else measuredValue tasks[i].op (meas.getD (rank tasks i) [])) = .ok v := by
  obtain ⟨nv, mv, meas, hnv, hrb, hnil, hmv, hr⟩ := est_ok rb tasks r h
  have hlen : meas.length = (tasks.filter isMeasured).length := by
    by_cases hM : tasks.filter isMeasured = []
    · rw [hnil hM, hM]; rfl
    · have := hlaw _ _ _ (hrb hM); simpa using this
  refine ⟨meas, hrb, by simpa [submittedCircuits] using hlen, fun i hi => ?_⟩
  have hs := interleave_spec tasks nv mv meas (mapE_forall₂ _ _ _ hnv) (mapE_forall₂ _ _ _ hmv) i hi
  rw [hr]
  by_cases hnm : notMeasured tasks[i] = true
  · simp only [hnm, if_true]; exact hs.1 hnm
  · have hnm' : notMeasured tasks[i] = false := by simpa using hnm
    simp only [hnm', Bool.false_eq_true, if_false]
    refine hs.2 hnm' ?_
    rw [hlen]; exact rank_lt tasks i hi (by simp [isMeasured, hnm'])

/-! ### sentences 2–4: constants, zero shots, coefficients -/

/-- "a constant operator yields exactly its constant": wherever a task with a constant operator
    (no term, or only identity terms, simplified or not) stands in the list, and whatever its shot
    count (`None`, 0, negative, positive), its result is the single value Σ coefficients.
    No assumption on the runner. -/
theorem constant_value (rb : List C → List (Option Int) → Except Err (List Shots))
    (tasks : List (Task C)) (r : List (Option Vals)) (h : estimateByAveraging rb tasks = .ok r)
    (i : Nat) (hi : i < tasks.length) (hc : tasks[i].op.isConstant = true) :
    r[i]? = some (some [⟨(tasks[i].op.map (fun t => t.coeff.re)).sum, (tasks[i].op.map (fun t => t.coeff.im)).sum⟩]) := by
  obtain ⟨nv, mv, meas, hnv, _, _, hmv, hr⟩ := est_ok rb tasks r h
  have hnm : notMeasured tasks[i] = true := by simp [notMeasured, hc]
  obtain ⟨v, hv, he⟩ := (interleave_spec tasks nv mv meas (mapE_forall₂ _ _ _ hnv) (mapE_forall₂ _ _ _ hmv) i hi).1 hnm
  rw [evalNonMeasured_of_notMeasured _ hnm] at he
  simp only [hc, if_true, Except.ok.injEq] at he
  rw [hr, hv, ← he, coeffSum_eq]

/-- "a non-constant zero-shot task yields zero": position-independent, for any operator (Ising or not)
    and any runner. -/
theorem zero_shot_value (rb : List C → List (Option Int) → Except Err (List Shots))
    (tasks : List (Task C)) (r : List (Option Vals)) (h : estimateByAveraging rb tasks = .ok r)
    (i : Nat) (hi : i < tasks.length) (hc : tasks[i].op.isConstant = false) (h0 : tasks[i].shots = some 0) :
    r[i]? = some (some [0]) := by
  obtain ⟨nv, mv, meas, hnv, _, _, hmv, hr⟩ := est_ok rb tasks r h
  have hnm : notMeasured tasks[i] = true := by simp [notMeasured, h0]
  obtain ⟨v, hv, he⟩ := (interleave_spec tasks nv mv meas (mapE_forall₂ _ _ _ hnv) (mapE_forall₂ _ _ _ hmv) i hi).1 hnm
  rw [evalNonMeasured_of_notMeasured _ hnm] at he
  simp only [hc, Bool.false_eq_true, if_false, Except.ok.injEq] at he
  rw [hr, hv, ← he]

/-- "each result includes the operator's coefficients": the result of a measured task has one value
    per term, in term order, and the value of a term is Re(coefficient) × the sample mean, over the
    shots returned for this task's circuit, of the ±1 outcome of the term's Z-string
    (imaginary parts are dropped by `expectation_values_to_real`). -/
theorem measured_value_weighted (rb : List C → List (Option Int) → Except Err (List Shots))
    (hlaw : ∀ cs ns meas, rb cs ns = .ok meas → meas.length = cs.length)
    (tasks : List (Task C)) (r : List (Option Vals)) (h : estimateByAveraging rb tasks = .ok r)
    (i : Nat) (hi : i < tasks.length) (hm : notMeasured tasks[i] = false) :
    ∃ meas s0 rest, rb (submittedCircuits tasks) (submittedShots tasks) = .ok meas ∧
      meas.getD (rank tasks i) [] = s0 :: rest ∧
      ((∀ t ∈ tasks[i].op, ∀ q ∈ t.qubits, q < s0.length) →
        r[i]? = some (some (tasks[i].op.map
          (fun t => (⟨t.coeff.re * sampleMean t.qubits (s0 :: rest), 0⟩ : GQ))))) := by
  obtain ⟨meas, hrb, _, hall⟩ := result_at_index rb hlaw tasks r h
  obtain ⟨v, hv, he⟩ := hall i hi
  simp only [hm, Bool.false_eq_true, if_false] at he
  have hne : tasks.filter isMeasured ≠ [] := by
    intro hnil
    have := rank_lt tasks i hi (by simp [isMeasured, hm])
    rw [hnil] at this; simp at this
  have hI : tasks[i].op.isIsing = true := by
    by_contra hn
    simp [measuredValue, getExpectationValues, hn] at he
  cases hs : meas.getD (rank tasks i) [] with
  | nil =>
    -- no shot at all: the real code raises IndexError unless the operator has no term; a measured
    -- operator is not constant, hence has a term
    rw [hs] at he
    have hcons : tasks[i].op ≠ [] := by
      intro hnil
      simp [notMeasured, Op.isConstant, hnil] at hm
    obtain ⟨t, ts, hts⟩ := List.exists_cons_of_ne_nil hcons
    rw [hts] at hI
    simp [measuredValue, getExpectationValues, hI, hts, mapE, tally, expFromFreq] at he
  | cons s0 rest =>
    refine ⟨meas, s0, rest, hrb hne, hs, fun hw => ?_⟩
    rw [hs, measuredValue_eq _ s0 rest hI hw] at he
    simp only [Except.ok.injEq] at he
    rw [hv, he]

/-! ### sentence 5: basis states -/

/-- general form: when the circuit of a measured task prepares the computational basis state `b`
    (`b` is the only outcome of non-zero probability), every value of its result is
    Re(coefficient) × eigenvalue of the term's Z-string at `b` – for EVERY positive shot count and
    every runner obeying the runner law. -/
theorem basis_state_value (rb : List C → List (Option Int) → Except Err (List Shots))
    (supp : C → Bits → Prop) (hlaw : RunnerLaw rb supp)
    (tasks : List (Task C)) (r : List (Option Vals)) (h : estimateByAveraging rb tasks = .ok r)
    (i : Nat) (hi : i < tasks.length) (hc : tasks[i].op.isConstant = false)
    (n : Int) (hn : 0 < n) (hshots : tasks[i].shots = some n)
    (b : Bits) (hprep : ∀ s, supp tasks[i].circuit s → s = b)
    (hbits : ∀ q, b.getD q 0 ≤ 1) (hwidth : ∀ t ∈ tasks[i].op, ∀ q ∈ t.qubits, q < b.length) :
    r[i]? = some (some (tasks[i].op.map (fun t => (⟨t.coeff.re * (zEigenvalue t.qubits b : Int), 0⟩ : GQ)))) := by
  have hm : notMeasured tasks[i] = false := by
    simp only [notMeasured, hc, hshots, Bool.false_or]
    simp; omega
  have hmeasd : isMeasured tasks[i] = true := by simp [isMeasured, hm]
  obtain ⟨meas, s0, rest, hrb, hs, hval⟩ := measured_value_weighted rb hlaw.onePer tasks r h i hi hm
  have hget := filter_rank_get tasks i hi hmeasd
  have hc' : (submittedCircuits tasks)[rank tasks i]? = some tasks[i].circuit := by
    simp [submittedCircuits, List.getElem?_map, hget]
  have hsupp := hlaw.support _ _ _ hrb (rank tasks i) _ hc'
  have hall : ∀ s ∈ s0 :: rest, s = b := by
    intro s hsm; rw [← hs] at hsm; exact hprep s (hsupp s hsm)
  have hs0 : s0 = b := hall s0 (by simp)
  rw [hval (by rw [hs0]; exact hwidth)]
  congr 2
  apply List.map_congr_left
  intro t _
  rw [sampleMean_basis t.qubits b (s0 :: rest) (by simp) hall, paritySign_eq _ _ (fun q _ => hbits q)]

/-- "when the circuit prepares a computational basis state the estimated value of every Z-type term is
    exactly coefficient times eigenvalue regardless of shot count": the statement for an operator
    with real coefficients (a Hermitian Ising operator) – value = coefficient · eigenvalue, exactly. -/
theorem basis_state_exact (rb : List C → List (Option Int) → Except Err (List Shots))
    (supp : C → Bits → Prop) (hlaw : RunnerLaw rb supp)
    (tasks : List (Task C)) (r : List (Option Vals)) (h : estimateByAveraging rb tasks = .ok r)
    (i : Nat) (hi : i < tasks.length) (hc : tasks[i].op.isConstant = false)
    (n : Int) (hn : 0 < n) (hshots : tasks[i].shots = some n)
    (b : Bits) (hprep : ∀ s, supp tasks[i].circuit s → s = b)
    (hbits : ∀ q, b.getD q 0 ≤ 1) (hwidth : ∀ t ∈ tasks[i].op, ∀ q ∈ t.qubits, q < b.length)
    (hreal : ∀ t ∈ tasks[i].op, t.coeff.im = 0) :
    r[i]? = some (some (tasks[i].op.map (fun t => t.coeff.smul (zEigenvalue t.qubits b : Int)))) := by
  rw [basis_state_value rb supp hlaw tasks r h i hi hc n hn hshots b hprep hbits hwidth]
  congr 2
  apply List.map_congr_left
  intro t ht
  simp [GQ.smul, hreal t ht]

/-- the hypothesis `RunnerLaw` is satisfiable: the runner the driver executes in the correspondence check
    (BaseCircuitRunner batch validation around the simulator's sampling, whatever the sampler drew for
    superposition states) obeys it, with "non-zero probability" read off the prepared product state. -/
theorem runner_law_satisfiable (recorded : List Shots) :
    RunnerLaw (baseRunBatch (simRun recorded)) simSupp := baseRunBatch_law recorded

/-! ### well-formed inputs are never rejected -/

/-- on the stated domain the estimation succeeds: if the runner accepts the batch and returns, for each
    measured task, at least one shot wide enough for the task's Ising operator, no exception is raised
    (in particular the `RuntimeError` branch of `evaluate_non_measured_estimation_tasks` is dead). -/
theorem averaging_succeeds (rb : List C → List (Option Int) → Except Err (List Shots))
    (tasks : List (Task C)) (meas : List Shots)
    (hrb : tasks.filter isMeasured ≠ [] → rb (submittedCircuits tasks) (submittedShots tasks) = .ok meas)
    (hlen : meas.length = (submittedCircuits tasks).length)
    (hwf : ∀ i (hi : i < tasks.length), isMeasured tasks[i] = true →
      tasks[i].op.isIsing = true ∧ ∃ s0 rest, meas.getD (rank tasks i) [] = s0 :: rest ∧
        ∀ t ∈ tasks[i].op, ∀ q ∈ t.qubits, q < s0.length) :
    ∃ r, estimateByAveraging rb tasks = .ok r := by
  have hnv := mapE_ok_of_forall (evalNonMeasured (C := C))
    (fun t => [if t.op.isConstant then t.op.coeffSum else 0]) (tasks.filter notMeasured)
    (fun t ht => evalNonMeasured_of_notMeasured t (List.mem_filter.mp ht).2)
  have hlen' : meas.length = (tasks.filter isMeasured).length := by simpa [submittedCircuits] using hlen
  obtain ⟨mv, hmv⟩ := mapE_exists_ok (fun p : Op × Shots => measuredValue p.1 p.2)
    (((tasks.filter isMeasured).map (fun t => t.op)).zip meas) (by
      intro p hp
      obtain ⟨k, hk, hpk⟩ := List.getElem_of_mem hp
      simp only [List.length_zip, List.length_map] at hk
      obtain ⟨i, hi, hmi, hri⟩ := rank_surj tasks k (by omega)
      obtain ⟨hI, s0, rest, hs, hw⟩ := hwf i hi hmi
      have hget := filter_rank_get tasks i hi hmi
      rw [hri] at hget hs
      have h1 : p.1 = tasks[i].op := by
        rw [← hpk]; simp only [List.getElem_zip, List.getElem_map]
        have := List.getElem?_eq_some_iff.mp hget
        obtain ⟨_, he⟩ := this; rw [he]
      have h2 : p.2 = s0 :: rest := by
        rw [← hpk]; simp only [List.getElem_zip]
        rw [← hs, List.getD_eq_getElem?_getD, List.getElem?_eq_getElem (by omega)]; rfl
      rw [h1, h2, measuredValue_eq _ s0 rest hI hw]
      exact ⟨_, rfl⟩)
  exact est_eq_ok rb tasks _ mv meas hnv hrb (fun _ => hmv)

/-! ### sentence 6: exact expectation values -/

/-- "exact expectation values from a simulator equal the state's quadratic form with the operator":
    `calculate_exact_expectation_values` returns one single-valued result per task, in task order,
    and the value for task `i` is the real part of Σₐ Σ_b conj(ψ_a)·A_ab·ψ_b where ψ is the
    wavefunction the simulator returns for task `i`'s circuit and A the matrix of task `i`'s operator
    on the state's qubits. -/
theorem exact_eq_quadratic_form {K : Type} [CommRing K] [Conj K]
    (wf : C → Except Err (Nat × (Nat → K))) (opMat : Op → Nat → Nat → Nat → K) (re : K → K)
    (tasks : List (Task C)) (vs : List (List K)) (h : exactValues wf opMat re tasks = .ok vs) :
    vs.length = tasks.length ∧
    ∀ i (hi : i < tasks.length), ∃ n ψ, wf tasks[i].circuit = .ok (n, ψ) ∧ tasks[i].op.nQubits ≤ n ∧
      vs[i]? = some [re (∑ a ∈ Finset.range (2 ^ n), ∑ b ∈ Finset.range (2 ^ n),
                          conj (ψ a) * opMat tasks[i].op n a b * ψ b)] := by
  have hf := mapE_forall₂ _ _ _ h
  have hl := hf.length_eq
  refine ⟨hl.symm, fun i hi => ?_⟩
  have hi' : i < vs.length := by omega
  have hrel := (List.forall₂_iff_get.mp hf).2 i hi hi'
  simp only [List.get_eq_getElem, exactValue] at hrel
  cases hw : wf tasks[i].circuit with
  | error e => rw [hw] at hrel; simp at hrel
  | ok p =>
    obtain ⟨n, ψ⟩ := p
    rw [hw] at hrel
    simp only at hrel
    by_cases hn : n < tasks[i].op.nQubits
    · simp [hn] at hrel
    · simp only [hn, if_false, Except.ok.injEq] at hrel
      refine ⟨n, ψ, rfl, by omega, ?_⟩
      rw [List.getElem?_eq_getElem hi', ← hrel, expectation_eq]

/-- the two estimators agree on basis states: for the matrix that `get_sparse_operator` denotes
    (Kronecker definition, `opMatrix`) over any commutative ring, an Ising operator and the
    computational basis state of index `x` on `n` qubits, the exact value is
    re(Σ_terms coefficient × eigenvalue at the bits of `x`) – the sum of the per-term values that
    estimation by averaging returns (`basis_state_exact`). -/
theorem exact_basis_ising {K : Type} [CommRing K] [Conj K] (h1 : conj (1 : K) = 1) (h0 : conj (0 : K) = 0)
    (wf : C → Except Err (Nat × (Nat → K))) (iu : K) (ofGQ : GQ → K) (re : K → K)
    (t : Task C) (n x : Nat) (hx : x < 2 ^ n)
    (hwf : wf t.circuit = .ok (n, fun j => if j = x then 1 else 0))
    (hI : t.op.isIsing = true) (hnd : ∀ term ∈ t.op, term.qubits.Nodup)
    (hw : ∀ term ∈ t.op, ∀ q ∈ term.qubits, q < n) :
    exactValue wf (opMatrix iu ofGQ) re t =
      .ok (re ((t.op.map (fun term => ofGQ term.coeff * ((zEigenvalue term.qubits (bitsOf n x) : Int) : K))).sum)) := by
  have hn : ¬ n < t.op.nQubits := by have := nQubits_le t.op n hw; omega
  simp only [exactValue, hwf, hn, if_false]
  rw [expectation_basis_ising h1 h0 iu ofGQ t.op n x hx hI hnd hw]

/-- an operator acting beyond the state's qubits is rejected (`ValueError`), never silently truncated -/
theorem exact_rejects_wide {K : Type} [Zero K] [Add K] [Mul K] [Conj K]
    (wf : C → Except Err (Nat × (Nat → K))) (opMat : Op → Nat → Nat → Nat → K) (re : K → K)
    (t : Task C) (n : Nat) (ψ : Nat → K) (hw : wf t.circuit = .ok (n, ψ)) (hn : n < t.op.nQubits) :
    exactValue wf opMat re t = .error .value := by
  simp [exactValue, hw, hn]

/-! ### sentence 7: binding symbol maps -/

/-- "binding symbol maps to tasks binds each task's circuit with its own map and changes nothing else":
    with one map per task the call succeeds, the output has exactly one task per input task, task `i`
    carries the circuit of task `i` bound with map `i`, and the operator and the shot count of task `i`
    unchanged – for all task lists and all maps (any `bind`). -/
theorem bind_tasks_pointwise {M : Type} (bind : C → M → C) (tasks : List (Task C)) (maps : List M)
    (hlen : maps.length = tasks.length) :
    ∃ out, evaluateCircuits bind tasks maps = .ok out ∧ out.length = tasks.length ∧
    ∀ i (hi : i < tasks.length) (hi' : i < maps.length),
      out[i]? = some { op := tasks[i].op, circuit := bind tasks[i].circuit maps[i], shots := tasks[i].shots } := by
  have hb : broadcastMaps tasks.length maps = maps := by
    unfold broadcastMaps
    split
    · rename_i m
      simp only [List.length_singleton] at hlen
      rw [← hlen]; rfl
    · rfl
  refine ⟨(tasks.zip maps).map (fun p => { op := p.1.op, circuit := bind p.1.circuit p.2, shots := p.1.shots }),
    by simp only [evaluateCircuits, hb, hlen, ne_eq, not_true_eq_false, if_false], by simp [hlen], ?_⟩
  intro i hi hi'
  exact evaluateCircuits_ok bind tasks maps i hi hi'

/-- a single symbols map is used for every task (the documented broadcast): the call succeeds for every
    task list, returns one task per input task, and task `i` is task `i` bound with that one map. -/
theorem bind_tasks_broadcast {M : Type} (bind : C → M → C) (tasks : List (Task C)) (m : M) :
    ∃ out, evaluateCircuits bind tasks [m] = .ok out ∧ out.length = tasks.length ∧
    ∀ i (hi : i < tasks.length),
      out[i]? = some { op := tasks[i].op, circuit := bind tasks[i].circuit m, shots := tasks[i].shots } := by
  have hb : broadcastMaps tasks.length [m] = List.replicate tasks.length m := rfl
  refine ⟨(tasks.zip (List.replicate tasks.length m)).map
      (fun p => { op := p.1.op, circuit := bind p.1.circuit p.2, shots := p.1.shots }),
    by simp only [evaluateCircuits, hb, List.length_replicate, ne_eq, not_true_eq_false, if_false],
    by simp, ?_⟩
  intro i hi
  have := evaluateCircuits_ok bind tasks (List.replicate tasks.length m) i hi (by simpa using hi)
  simpa using this

/-- every other length mismatch is rejected with `ValueError`; no task is ever dropped silently. -/
theorem bind_tasks_rejects_mismatch {M : Type} (bind : C → M → C) (tasks : List (Task C)) (maps : List M)
    (h1 : maps.length ≠ 1) (hne : maps.length ≠ tasks.length) :
    evaluateCircuits bind tasks maps = .error .value := by
  have hb : broadcastMaps tasks.length maps = maps := by
    unfold broadcastMaps
    split
    · simp at h1
    · rfl
  simp [evaluateCircuits, hb, hne]

/-! ### non-vacuity: concrete inputs meeting the hypotheses (and the negative witness) -/

section examples
/-- constant (unsimplified, two terms) · measured on the basis state 101 · zero-shot · empty sum -/
def exTasks : List (Task Circ) :=
  [ ⟨[⟨⟨2, 0⟩, []⟩, ⟨⟨3, 0⟩, []⟩], ⟨3, []⟩, some 3⟩,
    ⟨[⟨⟨2, 0⟩, [(0, .Z)]⟩, ⟨⟨3, 0⟩, [(1, .Z), (2, .Z)]⟩, ⟨⟨4, 0⟩, []⟩], ⟨3, [⟨"X", 0, none⟩, ⟨"X", 2, none⟩]⟩, some 5⟩,
    ⟨[⟨⟨2, 0⟩, [(0, .Z)]⟩], ⟨3, []⟩, some 0⟩,
    ⟨[], ⟨3, []⟩, none⟩ ]

example : estimateByAveraging (baseRunBatch (simRun [])) exTasks =
    .ok [some [⟨5, 0⟩], some [⟨-2, 0⟩, ⟨-3, 0⟩, ⟨4, 0⟩], some [⟨0, 0⟩], some [⟨0, 0⟩]] := by decide +kernel

example : (splitTasks exTasks).idxMeasure = [1] ∧ (splitTasks exTasks).idxNot = [0, 2, 3] := by decide +kernel

example : rank exTasks 1 = 0 ∧ zEigenvalue [1, 2] [1, 0, 1] = -1 ∧ zEigenvalue [0] [1, 0, 1] = -1 := by decide

/-- a sampled (non-basis) measurement: mean of Z0 over 4 shots with one `1` is 1/2 -/
example : measuredValue [⟨⟨3, 1⟩, [(0, .Z)]⟩] [[0, 1], [1, 1], [0, 0], [0, 1]] = .ok [⟨3 / 2, 0⟩] := by decide +kernel

/-- exact value on the basis state 101 (index 5 of 3 qubits): 2·(−1) + 3·(−1) + 4 = −1 -/
example : exactValues productState (opMatrix Cyc8.I cycOfGQ) cycRe [exTasks[1]] = .ok [[⟨-1, 0, 0, 0⟩]] := by
  decide +kernel
example : bitsOf 3 5 = [1, 0, 1] := by decide

/-- errors are modelled, not defaulted -/
example : estimateByAveraging (baseRunBatch (simRun [])) [(⟨[⟨⟨2, 0⟩, [(0, .X)]⟩], ⟨1, []⟩, some 2⟩ : Task Circ)] = .error .type := by
  decide +kernel
example : estimateByAveraging (baseRunBatch (simRun [])) [(⟨[⟨⟨2, 0⟩, [(0, .Z)]⟩], ⟨1, []⟩, none⟩ : Task Circ)] = .error .type := by
  decide +kernel
example : estimateByAveraging (baseRunBatch (simRun [])) [(⟨[⟨⟨2, 0⟩, [(0, .Z)]⟩], ⟨1, []⟩, some (-1)⟩ : Task Circ)] = .error .value := by
  decide +kernel
example : estimateByAveraging (baseRunBatch (simRun [])) [(⟨[⟨⟨2, 0⟩, [(4, .Z)]⟩], ⟨1, []⟩, some 2⟩ : Task Circ)] = .error .index := by
  decide +kernel

/-- binding: each task gets its own map -/
example : (evaluateCircuits Circ.bind
    [⟨[], ⟨1, [⟨"RX", 0, some ⟨0, [("t", 1)]⟩⟩]⟩, some 1⟩, ⟨[], ⟨1, [⟨"RX", 0, some ⟨0, [("t", 1)]⟩⟩]⟩, some 2⟩]
    [[("t", 2)], [("t", 3)]]).toOption.map
      (fun out => out.map (fun t => t.circuit.gates.map (fun g => g.param.map (fun f => f.const))))
    = some [[some 2], [some 3]] := by decide +kernel

/-- three tasks and a single map: all three are bound with it (F: fixed in 05054e7) -/
example : (evaluateCircuits (fun (c : Nat) (m : Nat) => c + m)
    [⟨[], 10, some 1⟩, ⟨[], 20, some 1⟩, ⟨[], 30, some 1⟩] [1]).toOption.map (fun out => out.map (fun t => t.circuit))
    = some [11, 21, 31] := by decide

/-- three tasks and two maps: rejected -/
example : (evaluateCircuits (fun (c : Nat) (m : Nat) => c + m)
    [⟨[], 10, some 1⟩, ⟨[], 20, some 1⟩, ⟨[], 30, some 1⟩] [1, 2]).toOption.isNone = true := by decide
end examples

end OQ.C15
