/-
  C11 — TRANSLATION TIE (work package T9), the term-string parser of `operators/_pauli_operators.py`.
  `OQ/Generated/TranslatedC11.lean` is regenerated on every run from the CURRENT source of `_is_in_brackets`, `_parse_complex`,
  `_parse_operator`, `_parse_operators_and_coefficient` by harness/translate_t9.py.  A `str` is a `List Char`; a function that may
  raise returns `Except OQ.Py.Exc τ` (the model writes `none` for `ValueError`: `liftO`).

  Externals: `complex(text)` is the parameter `ext_complex` (instantiated here by the model's `readC`, `none` = ValueError);
  `re.match(r"([XYZI])([0-9]+)$", s, re.I)`, `re.split(r"\ *\*\ *", s)`, `str.startswith / endswith / replace / strip / upper`,
  `int(str)`, `dict(pairs)` are prelude functions (`OQ/Exec/Py.lean`, compared with CPython on every run).
  DOMAIN of the string functions: ASCII text (with `re.I`, `[XYZI]` also matches U+0130 / U+0131, which the model excludes too).

  Tied: `_is_in_brackets`, `_parse_complex`, `_parse_operator` (for ALL strings).  `_parse_operators_and_coefficient` is translated and
  compared with the Python function on every run and pinned on concrete inputs below; its tie to `parseOpsAndCoef` is proved in
  `OQ/Props/C11_TranslatedText.lean` (work package T19: `translated_parse_operators_and_coefficient_eq`).
-/
import OQ.Lemmas.C11_TranslatedT9Parser
import OQ.Props.C11
namespace OQ.C11
open OQ.Py OQ.Generated

/-- **`_is_in_brackets` (translated) = `isInBrackets`**, for every string: starts with `(` and ends with `)`. -/
theorem translated_is_in_brackets_eq (s : List Char) : Translated.is_in_brackets s = isInBrackets s := by
  unfold Translated.is_in_brackets isInBrackets startswith endswith
  simp only [List.reverse_cons, List.reverse_nil, List.nil_append, isPrefixOf_singleton, List.head?_reverse]
  simp


/-- Python's `complex(text)` as the model sees it -/
def readNum (readC : List Char → Option (Rat × Rat)) (t : List Char) : Except Exc Num :=
  liftO ((readC t).map (fun v => Num.cplx v.1 v.2))

/-- **`_parse_complex` (translated) = `parseComplex`**, for every string and every behaviour `readC` of `complex(text)`: blanks are
    removed before `complex` is called, `ValueError` of `complex` propagates, and a value with non-zero real AND imaginary part is
    accepted only in brackets (`ValueError` otherwise).  Domain: all strings. -/
theorem translated_parse_complex_eq (readC : List Char → Option (Rat × Rat)) (s : List Char) :
    Translated.parse_complex (readNum readC) s = liftO ((parseComplex readC s).map (fun v => Num.cplx v.1 v.2)) := by
  unfold Translated.parse_complex parseComplex readNum
  rw [replaceChar_space, translated_is_in_brackets_eq]
  cases h : readC (s.filter (fun c => c ≠ ' ')) with
  | none => rfl
  | some v =>
    simp only [Option.map_some, liftO, Except.bind, Num.re, Num.im]
    by_cases h1 : v.1 = 0
    · simp [h1]
    · by_cases h2 : v.2 = 0
      · simp [h1, h2]
      · cases hb : isInBrackets s <;> simp [h1, h2]


/-- **`_parse_operator` (translated) = `parseOperator`**, for every (ASCII) string: one Pauli letter in either case, then one or
    more decimal digits, optionally one final newline; the result is the qubit index and the UPPER-CASE letter; anything else is
    `ValueError`.  (`int(match.group(2))` is rendered with the general `int(str)` of the prelude; the tie shows that it cannot
    fail on what the regular expression matched.) -/
theorem translated_parse_operator_eq (s : List Char) :
    Translated.parse_operator s = liftO ((parseOperator s).map (fun r => ((r.1 : Int), [pauliChar r.2]))) := by
  unfold Translated.parse_operator parseOperator
  cases s with
  | nil => rfl
  | cons c rest =>
    simp only [reMatchPauliIndex]
    rcases pauli_letter c with ⟨p, hp, hc, hu⟩ | ⟨hp, hc⟩
    · simp only [hp, hc, if_true]
      generalize hd : (if rest.getLast? = some '\n' then rest.dropLast else rest) = digits
      have hd' : (if (rest.getLast? == some '\n') = true then rest.dropLast else rest) = digits := by
        rw [← hd]; by_cases h : rest.getLast? = some '\n' <;> simp [h]
      simp only [hd']
      have hall : digits.all isAsciiDigit = digits.all (fun d => (digitVal d).isSome) := by
        congr 1; funext d; exact isAsciiDigit_eq_digitVal d
      by_cases he : digits.isEmpty = true
      · simp [he, liftO]
      · by_cases ha : digits.all isAsciiDigit = true
        · have hne : digits ≠ [] := by intro h; apply he; simp [h]
          have hdig : ∀ c ∈ digits, isAsciiDigit c = true := List.all_eq_true.mp ha
          have hp' := OQ.C19.intParse_digits digits hne (fun c hc => by rw [← OQ.C19.isAsciiDigit_eq]; exact hdig c hc)
          simp only [he, ha, Bool.not_false, Bool.true_and, if_true, hp', hu, ← hall, Bool.false_eq_true, if_false,
            Option.map_some, liftO, Except.bind, readNat_eq_valDigits digits hdig]
        · simp [he, ha, ← hall, liftO]
    · simp only [hp, hc, Bool.false_eq_true, if_false]
      rfl


/-- END-TO-END (`parseOperator_repr` ON THE TRANSLATED CODE): the factor `f"{op}{index}"` printed by `PauliTerm.__repr__` for any
    operator and any qubit index is read back by the translated `_parse_operator` as exactly that index and that letter. -/
theorem translated_parse_operator_repr (n : Nat) (p : Pauli) :
    Translated.parse_operator (pauliChar p :: showNat n) = .ok ((n : Int), [pauliChar p]) := by
  rw [translated_parse_operator_eq, parseOperator_repr]
  rfl

/-! ## non-vacuity: the TRANSLATED definitions on concrete inputs (also the regression pins of `_parse_operators_and_coefficient`) -/

example : Translated.is_in_brackets "(1+2j)".toList = true := by decide
example : Translated.is_in_brackets "(1+2j".toList = false := by decide
example : Translated.is_in_brackets [] = false := by decide
example : Translated.parse_complex (readNum demoRead) "(1+2j)".toList = .ok (.cplx 1 2) := by decide +kernel
example : Translated.parse_complex (readNum demoRead) "( 1 + 2j )".toList = .ok (.cplx 1 2) := by decide +kernel
example : Translated.parse_complex (readNum demoRead) "1+2j".toList = .error .ValueError := by decide +kernel
example : Translated.parse_complex (readNum demoRead) "-0.5".toList = .ok (.cplx (-1/2) 0) := by decide +kernel
example : Translated.parse_complex (readNum demoRead) "Z0".toList = .error .ValueError := by decide +kernel
example : Translated.parse_operator "x12".toList = .ok (12, "X".toList) := by decide +kernel
example : Translated.parse_operator "Z0\n".toList = .ok (0, "Z".toList) := by decide +kernel
example : Translated.parse_operator "I".toList = .error .ValueError := by decide +kernel
example : Translated.parse_operator "Z-1".toList = .error .ValueError := by decide +kernel
example : Translated.parse_operator "Z1a".toList = .error .ValueError := by decide +kernel
-- `_parse_operators_and_coefficient`: coefficient first, blanks around `*`, bare identity dropped, no coefficient, duplicates, bad factor
example : Translated.parse_operators_and_coefficient (readNum demoRead) "(1+2j) * Z0*X12".toList
    = .ok (some (.cplx 1 2), [(0, "Z".toList), (12, "X".toList)]) := by decide +kernel
example : Translated.parse_operators_and_coefficient (readNum demoRead) "-0.5*I".toList = .ok (some (.cplx (-1/2) 0), []) := by
  decide +kernel
example : Translated.parse_operators_and_coefficient (readNum demoRead) " y3 *Z1 ".toList
    = .ok (none, [(3, "Y".toList), (1, "Z".toList)]) := by decide +kernel
example : Translated.parse_operators_and_coefficient (readNum demoRead) "Z0*X0".toList = .error .ValueError := by decide +kernel
example : Translated.parse_operators_and_coefficient (readNum demoRead) "1e-12*Y3*Q1".toList = .error .ValueError := by decide +kernel
example : Translated.parse_operators_and_coefficient (readNum demoRead) "1+2j*Z0".toList = .error .ValueError := by decide +kernel

end OQ.C11
