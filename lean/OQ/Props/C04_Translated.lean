/- C04 — PROPERTY THEOREMS (translation ties): `utils.bitstring_to_tuple`, `utils.tuple_to_bitstring`, `measurements.convert_bitstring_to_int`.
   The definitions `OQ.Generated.Translated.*` are REGENERATED from /repo's current Python source on every run
   (harness/translate.py → OQ/Generated/TranslatedC04.lean); an edit of the Python function changes the definition and
   these equalities stop checking at build time. -/
import OQ.Generated.TranslatedC04
import OQ.Lemmas.Translated
import OQ.Model.C04
namespace OQ.C04
open OQ.Generated OQ.Py OQ.Tr

/-- TRANSLATION TIE: `bitstring_to_tuple` regenerated from the current Python source reverses the string (model
    `bitstringToTuple`), digit by digit. -/
theorem translated_bitstring_to_tuple_eq (s : List Nat) (h : ∀ d ∈ s, d < 10) :
    Translated.bitstring_to_tuple (s.map digitChar) = (OQ.C04.bitstringToTuple s).map Int.ofNat := by
  unfold Translated.bitstring_to_tuple OQ.C04.bitstringToTuple
  simp only [← List.map_reverse]
  exact map_charDigit_digitChar _ (fun d hd => h d (by simpa using hd))

/-- TRANSLATION TIE: `tuple_to_bitstring` regenerated from the current Python source keeps the order (model
    `tupleToBitstring`) — for entries that print as ONE character (< 10; multi-digit entries are the known text-format
    limitation F7). -/
theorem translated_tuple_to_bitstring_eq (t : List Nat) (h : ∀ d ∈ t, d < 10) :
    Translated.tuple_to_bitstring (t.map Int.ofNat) = (OQ.C04.tupleToBitstring t).map digitChar := by
  unfold Translated.tuple_to_bitstring OQ.C04.tupleToBitstring
  rw [map_strOfInt_digits t h, join_singletons]

/-- TRANSLATION TIE: `convert_bitstring_to_int` regenerated from the current Python source reads position 0 as the LEAST
    significant bit (little endian): it is the MSB-first value of the REVERSED tuple. -/
theorem translated_convert_bitstring_to_int_eq (b : List Nat) (h : ∀ d ∈ b, d < 10) :
    Translated.convert_bitstring_to_int (b.map Int.ofNat) = ((OQ.Lift.bitsToIndex b.reverse : Nat) : Int) := by
  unfold Translated.convert_bitstring_to_int
  rw [← List.map_reverse]
  have hr : ∀ d ∈ b.reverse, d < 10 := fun d hd => h d (by simpa using hd)
  have e : (List.map (fun bit => strOfInt bit) (List.map Int.ofNat b.reverse))
      = (b.reverse.map digitChar).map (fun c => [c]) := map_strOfInt_digits b.reverse hr
  rw [e, join_singletons, intBase2_digits _ hr]

/-- ON THE CODE AS IT IS NOW: the two conversions are NOT inverse to each other – `bitstring_to_tuple(tuple_to_bitstring(t))` is
    `t` REVERSED.  Count strings (written by `tuple_to_bitstring`: position q = qubit q) and basis-index strings (read by
    `bitstring_to_tuple`: qubit 0 last) are different conventions; the library never feeds one into the other, and C04's
    `counts_key_position` / `tuple_of_index` are the statements for each. -/
theorem translated_tuple_bitstring_roundtrip (t : List Nat) (h : ∀ d ∈ t, d < 10) :
    Translated.bitstring_to_tuple (Translated.tuple_to_bitstring (t.map Int.ofNat)) = (t.reverse).map Int.ofNat := by
  rw [translated_tuple_to_bitstring_eq t h]
  unfold OQ.C04.tupleToBitstring
  rw [translated_bitstring_to_tuple_eq t h]
  rfl

/-! non-vacuity -/
example : Translated.bitstring_to_tuple ['1', '1', '0'] = [0, 1, 1] := by decide
example : Translated.tuple_to_bitstring [0, 1, 1] = ['0', '1', '1'] := by decide
example : Translated.convert_bitstring_to_int [1, 1, 0] = 3 := by decide
end OQ.C04
