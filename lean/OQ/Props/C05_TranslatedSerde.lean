/- C05 — PROPERTY THEOREMS (translation tie of circuits/_serde.py, work package T8).
   `OQ.Generated.TranslatedC05` is REGENERATED on every run from the current source of `_serde.py` (harness/translate_t8.py, on top of
   the gate-class translator T1): the `@singledispatch` family `to_dict` on the five gate classes as ONE function by cases on the
   class (`to_dict_gate`), the `name` property of the gate classes (`gate_name`), `_gate_operation_to_dict`,
   `_custom_gate_def_to_dict`, `_circuit_to_dict`, `_circuitset_to_dict`, and the readers `_builtin_gate_from_dict`,
   `_special_gate_from_dict`, `_custom_gate_instance_from_dict`, `_gate_from_dict` (the `try … except KeyError` cascade, recursive with an
   explicit recursion budget `fuel`), `_gate_operation_from_dict`, `custom_gate_def_from_dict`, `circuit_from_dict`,
   `circuitset_from_dict`.  The theorems below prove that these regenerated definitions ARE the hand-written model `OQ/Model/C05.lean`
   (`gateToDict` / `gateFromDict` / `circuitToDict` / `circuitFromDict` …, the objects every other theorem of C05 speaks about): an edit
   of one of the Python functions changes a generated definition and the equality stops checking at build time, for ALL inputs.

   Reading guide (definitions in `OQ/Lemmas/C05_TranslatedSerde.lean`).
   * `TS.X env C` INSTANTIATES the externals of the translated definitions by the model's parameters: `env` (the lookup namespace of
     `_builtin_gates`, `globals()[name]`; calling / returning the looked-up object) and the codec `C` (`str` of expressions,
     `sympify` with the symbol table, `f"{exponent}"`, definition `!=`); a sympy symbol is its name; a `CustomGateDefinition` is the
     model's `CustomDef` (its constructor checks `shapeOk` = `_n_qubits`); `Circuit(...)` is `mkCircuit`;
     `collect_custom_gate_definitions` is the model's `collectDefs` (a METHOD of `Circuit`, not part of `_serde.py`: external here).
     These are the assumptions of the tie (the same parameters the model itself has), nothing else is assumed.
   * Translated gate objects are `TS.TGate P E` = T1's generated `Gate P F E` with `F := Option (CustomDef P)` (`none`: the matrix factory
     of a built-in gate, `some d`: `CustomGateMatrixFactory(d)`); `TS.proj` is the model's gate of such an object (it forgets
     `num_qubits` / `is_hermitian`, which the format does not store).  `TS.WF g`: a gate with a custom factory carries its
     definition's `gate_name` as `name` – what `CustomGateDefinition.__call__` builds; the writers are tied on these gates.
   * JSON: `PyT8.JV E` (str, int, exponent number, list, insertion-ordered dict).  `TS.encG / encOp / encDef / encC / encCs` write the
     model's dictionaries (`GDict`, `OpDict`, `DefDict`, `CDict`) as JSON values with the keys in the order `to_dict` writes them.
     The READER ties are stated on these encodings, for EVERY model dictionary (keys missing, wrong names, rejected control counts,
     unknown gates … included): that is every well-typed dictionary with the keys in writing order.  Excluded: other key orders /
     extra keys (the readers look keys up by name, the model has no notion of order) and ill-typed values (`Err.IllTyped` in the
     translation, duck typing in Python).
   * Exceptions: `TS.embE` renames the model's error classes (`key ↦ KeyError`, `value ↦ ValueError`, `type ↦ TypeError`,
     `junk ↦ NotAGate`); it is injective (`TS.embE_inj`), so the equations determine the translated result.
   * `fuel`: the recursion budget of the translated `_gate_from_dict` (Python: the interpreter's recursion limit).  Every budget above
     the nesting depth of the dictionary (`TS.gdepth`) is sufficient; `RecursionError` is outside the stated domain. -/
import OQ.Lemmas.C05_TranslatedSerde
import OQ.Props.C05
namespace OQ.C05
open OQ.Generated OQ.PyT8
open TS
variable {P E : Type}

/-- the str constants `CONTROLLED_GATE_NAME` / `DAGGER_GATE_NAME` / `EXPONENTIAL_GATE_NAME` / `POWER_GATE_SYMBOL` that the TRANSLATED
    bodies mention (regenerated from `_gates.py`) are the markers of the generated lookup table `genEnv` the model's theorems are
    instantiated with (`hygiene_of_table`). -/
theorem translated_constants_match : EnvMatches genEnv where
  control := by decide
  dagger := by decide
  exponential := by decide
  power := by decide

/-- TRANSLATION TIE: the property `name` of all five gate classes (field of `MatrixFactoryGate`; `"Control"`; `wrapped.name + "_" +
    "Dagger"`; `"Exponential"`; `f"{wrapped.name}^{exponent}"`), regenerated from `_gates.py`, is the model's `Gate.name`.
    Domain: every translated gate object with `WF` (custom gates named after their definition). -/
theorem translated_gate_name_eq (env : Env) (hE : EnvMatches env) (C : Codec P E) (g : TGate P E) (hw : WF g) :
    TranslatedC05.gate_name (X env C) g = sN (Gate.name env C (proj g)) :=
  gate_name_proj env hE C g hw

/-- TRANSLATION TIE: the `to_dict` overloads registered for the gate classes (`_basic_gate_to_dict` with its conditional `params` /
    `free_symbols` entries and `sorted(map(str, ·))`, `_controlled_gate_to_dict`, `_dagger_…`, `_exponential_…`, `_power_…`) are the
    model's `gateToDict`; they never raise.  Domain: every `WF` gate object, every nesting. -/
theorem translated_to_dict_gate_eq (env : Env) (hE : EnvMatches env) (C : Codec P E) (g : TGate P E) (hw : WF g) :
    TranslatedC05.to_dict_gate (X env C) g = .ok (encG (gateToDict env C (proj g))) :=
  to_dict_gate_eq env hE C g hw

/-- TRANSLATION TIE: `_gate_operation_to_dict` is the model's `opToDict` (plus the constant entry `"type": "gate_operation"`). -/
theorem translated_gate_operation_to_dict_eq (env : Env) (hE : EnvMatches env) (C : Codec P E) (o : TOp P E) (hw : WFOp o) :
    TranslatedC05.gate_operation_to_dict (X env C) o = .ok (encOp (opToDict env C (projOp o))) :=
  op_to_dict_eq env hE C o hw

/-- TRANSLATION TIE: `_custom_gate_def_to_dict` is the model's `defToDict`; every definition. -/
theorem translated_custom_gate_def_to_dict_eq (env : Env) (C : Codec P E) (d : CustomDef P) :
    TranslatedC05.custom_gate_def_to_dict (X env C) d = .ok (encDef (defToDict C d)) :=
  def_to_dict_eq env C d

/-- TRANSLATION TIE: `_circuit_to_dict` (`n_qubits` always, `operations` / `custom_gate_definitions` only when non-empty, the
    ValueError of `collect_custom_gate_definitions` passed on) is the model's `circuitToDict`.  Domain: every circuit object whose
    gates are `WF`. -/
theorem translated_circuit_to_dict_eq (env : Env) (hE : EnvMatches env) (C : Codec P E) (c : TCirc P E) (hw : WFC c) :
    TranslatedC05.circuit_to_dict (X env C) c = embE (Except.map encC (circuitToDict env C (projC c))) :=
  circuit_to_dict_eq env hE C c hw

/-- TRANSLATION TIE: `_circuitset_to_dict` is the model's `circuitsetToDict` (first failing circuit decides). -/
theorem translated_circuitset_to_dict_eq (env : Env) (hE : EnvMatches env) (C : Codec P E) (cs : List (TCirc P E))
    (hw : ∀ c ∈ cs, WFC c) :
    TranslatedC05.circuitset_to_dict (X env C) cs = embE (Except.map encCs (circuitsetToDict env C (cs.map projC))) :=
  circuitset_to_dict_eq env hE C cs hw

/-- TRANSLATION TIE: `_builtin_gate_from_dict` (`globals()[name]`, `is None`, `gate_is_parametric` = truthiness of
    `dict_.get("params")`, the arguments read against `dict_.get("free_symbols", [])`, the looked-up object called or returned as it
    is) is the model's `builtinFromDict`.  Domain: every model dictionary `d` (see the file header). -/
theorem translated_builtin_gate_from_dict_eq (env : Env) (C : Codec P E) (d : GDict E) :
    Except.map proj (TranslatedC05.builtin_gate_from_dict (X env C) (encG d))
      = embE (builtinFromDict env C (gname d) (gparams d) (gfree d)) :=
  builtin_tie env C d

/-- TRANSLATION TIE: `_special_gate_from_dict` (the chain `== "Control"` / `endswith("Dagger")` / `== "Exponential"` / `"^" in name`,
    in this order, each branch reading `wrapped_gate` recursively and going through the checked constructor) is the model's
    `specialFromDict`, for ANY recursive reader `rec` that agrees with the model on the wrapped dictionary.  Domain: every `d`. -/
theorem translated_special_gate_from_dict_eq (env : Env) (hE : EnvMatches env) (C : Codec P E) (defs : List (CustomDef P))
    (rec : JV E → List (CustomDef P) → Except PyT8.Err (TGate P E)) (d : GDict E)
    (hrec : ∀ i, ginner d = some i → Except.map proj (rec (encG i) defs) = embE (gateFromDict env C defs i)) :
    Except.map proj (TranslatedC05.special_gate_from_dict (X env C) rec (encG d) defs)
      = embE (specialFromDict env C (gname d) ((ginner d).map (gateFromDict env C defs)) (gnc d) (gex d)) :=
  special_tie env hE C defs rec d hrec

/-- TRANSLATION TIE: `_custom_gate_instance_from_dict` (`next(… if gate_def.gate_name == dict_["name"] …, None)` evaluated lazily, the
    ValueError for a missing definition – a KeyError when `name` is missing too –, `dict_.get("free_symbols") or [names of
    params_ordering]`) is the model's `customFromDict`.  Domain: every `d`, every list of definitions. -/
theorem translated_custom_gate_instance_from_dict_eq (env : Env) (C : Codec P E) (defs : List (CustomDef P)) (d : GDict E) :
    Except.map proj (TranslatedC05.custom_gate_instance_from_dict (X env C) (encG d) defs)
      = embE (customFromDict C defs (gname d) (gparams d) (gfree d)) :=
  custom_tie env C defs d

/-- TRANSLATION TIE: `_gate_from_dict` – built-in, on KeyError special, on KeyError custom – is the model's `gateFromDict`.
    Domain: every model dictionary `d` of every nesting depth, every recursion budget `fuel > gdepth d`. -/
theorem translated_gate_from_dict_eq (env : Env) (hE : EnvMatches env) (C : Codec P E) (defs : List (CustomDef P))
    (fuel : Nat) (d : GDict E) (h : gdepth d < fuel) :
    Except.map proj (TranslatedC05.gate_from_dict (X env C) fuel (encG d) defs) = embE (gateFromDict env C defs d) :=
  gate_from_dict_tie env hE C defs fuel d h

/-- TRANSLATION TIE: `_gate_operation_from_dict` is the model's `opFromDict`. -/
theorem translated_gate_operation_from_dict_eq (env : Env) (hE : EnvMatches env) (C : Codec P E) (defs : List (CustomDef P))
    (fuel : Nat) (o : OpDict E) (h : gdepth o.gate < fuel) :
    Except.map projOp (TranslatedC05.gate_operation_from_dict (X env C) fuel (encOp o) defs) = embE (opFromDict env C defs o) :=
  op_from_dict_tie env hE C defs fuel o h

/-- TRANSLATION TIE: `custom_gate_def_from_dict` (symbols of `params_ordering`, the matrix read against them, the constructor with
    its shape check) is the model's `defFromDict`; every definition dictionary. -/
theorem translated_custom_gate_def_from_dict_eq (env : Env) (C : Codec P E) (dd : DefDict) :
    TranslatedC05.custom_gate_def_from_dict (X env C) (encDef dd : JV E) = embE (defFromDict C dd) :=
  def_from_dict_tie env C dd

/-- TRANSLATION TIE: `circuit_from_dict` (definitions first, then the operations against them, then `dict_["n_qubits"]` and the
    `Circuit` constructor) is the model's `circuitFromDict`.  Domain: every circuit dictionary, `fuel` above the depth of its gates. -/
theorem translated_circuit_from_dict_eq (env : Env) (hE : EnvMatches env) (C : Codec P E) (fuel : Nat) (d : CDict E)
    (h : ∀ o ∈ d.ops, gdepth o.gate < fuel) :
    Except.map projC (TranslatedC05.circuit_from_dict (X env C) fuel (encC d)) = embE (circuitFromDict env C d) :=
  circuit_from_dict_tie env hE C fuel d h

/-- TRANSLATION TIE: `circuitset_from_dict` is the model's `circuitsetFromDict`. -/
theorem translated_circuitset_from_dict_eq (env : Env) (hE : EnvMatches env) (C : Codec P E) (fuel : Nat) (ds : List (CDict E))
    (h : ∀ d ∈ ds, ∀ o ∈ d.ops, gdepth o.gate < fuel) :
    Except.map (List.map projC) (TranslatedC05.circuitset_from_dict (X env C) fuel (encCs ds))
      = embE (circuitsetFromDict env C ds) :=
  circuitset_from_dict_tie env hE C fuel ds h

/-! ### END-TO-END: the round-trip theorems of `Props/C05.lean` on the TRANSLATED reader / writer pair -/

/-- number of wrappers of a gate (= nesting depth of the dictionary `to_dict` writes for it) -/
def gateDepth : Gate P E → Nat
  | .controlled g _ => gateDepth g + 1
  | .dagger g => gateDepth g + 1
  | .exponential g => gateDepth g + 1
  | .power g _ => gateDepth g + 1
  | _ => 0

theorem gdepth_gateToDict (env : Env) (C : Codec P E) (g : Gate P E) : gdepth (gateToDict env C g) = gateDepth g := by
  induction g with
  | builtin n ps => rfl
  | custom d ps => rfl
  | controlled g k ih => simp [gateToDict, gdepth, gateDepth, ih]
  | dagger g ih => simp [gateToDict, gdepth, gateDepth, ih]
  | exponential g ih => simp [gateToDict, gdepth, gateDepth, ih]
  | power g e ih => simp [gateToDict, gdepth, gateDepth, ih]

/-- **END-TO-END, one gate** (`gate_fromDict_toDict_partial` on the translated code): for every gate object `tg` the library can build
    (`WF`) whose model gate satisfies `GateOK`, the TRANSLATED `to_dict` succeeds and the TRANSLATED `_gate_from_dict`, applied to what
    it wrote (with any recursion budget above the number of wrappers), returns a gate object whose model gate is the original with
    `nrm` applied to the parameters – same kind, nesting, controls, exponent, definition.  PARTIAL through `okName` exactly as the
    model-level theorem. -/
theorem translated_gate_roundtrip_partial (env : Env) (h : EnvHygienic env) (hE : EnvMatches env) (C : Codec P E) (nrm : P → P)
    (okName auto : Name → Prop) (L : SympifyLaw C nrm okName auto) (defs' : List (CustomDef P))
    (tg : TGate P E) (hw : WF tg) (hg : GateOK env C okName auto (proj tg))
    (hd : ∀ d ps, (proj tg).innermost = .custom d ps → defs'.find? (nameEq d.gateName) = some (d.map nrm))
    (fuel : Nat) (hf : gateDepth (proj tg) < fuel) :
    ∃ j, TranslatedC05.to_dict_gate (X env C) tg = .ok j ∧
      Except.map proj (TranslatedC05.gate_from_dict (X env C) fuel j defs') = .ok ((proj tg).map nrm) := by
  refine ⟨_, to_dict_gate_eq env hE C tg hw, ?_⟩
  rw [gate_from_dict_tie env hE C defs' fuel _ (by rw [gdepth_gateToDict]; exact hf),
    gate_fromDict_toDict_partial env h C nrm okName auto L defs' (proj tg) hg hd]
  rfl

theorem circuitToDict_ops {env : Env} {C : Codec P E} {c : Circuit P E} {d : CDict E} (h : circuitToDict env C c = .ok d) :
    d.ops = c.ops.map (opToDict env C) := by
  unfold circuitToDict at h
  cases hc : collectDefs C c.ops with
  | error e => simp [hc] at h
  | ok defs => simp [hc] at h; rw [← h]

/-- **END-TO-END, circuits** (`fromDict_toDict_partial` on the translated code): for every circuit object whose gates are `WF` and whose
    model circuit satisfies `CircuitOK`, the TRANSLATED `_circuit_to_dict` succeeds and the TRANSLATED `circuit_from_dict` applied to
    the dictionary it wrote returns a circuit object whose model circuit is the original with `nrm` applied to every expression. -/
theorem translated_circuit_roundtrip_partial (env : Env) (h : EnvHygienic env) (hE : EnvMatches env) (C : Codec P E)
    (nrm : P → P) (okName auto : Name → Prop) (L : SympifyLaw C nrm okName auto) (tc : TCirc P E) (hw : WFC tc)
    (hc : CircuitOK env C okName auto (projC tc)) (fuel : Nat) (hf : ∀ o ∈ tc.ops, gateDepth (proj o.gate) < fuel) :
    ∃ j, TranslatedC05.circuit_to_dict (X env C) tc = .ok j ∧
      Except.map projC (TranslatedC05.circuit_from_dict (X env C) fuel j) = .ok ((projC tc).map nrm) := by
  obtain ⟨d, h1, h2⟩ := fromDict_toDict_partial env h C nrm okName auto L (projC tc) hc
  refine ⟨encC d, by rw [circuit_to_dict_eq env hE C tc hw, h1]; rfl, ?_⟩
  rw [circuit_from_dict_tie env hE C fuel d, h2]
  · rfl
  · intro o ho
    rw [circuitToDict_ops h1] at ho
    simp only [projC, List.map_map, List.mem_map, Function.comp] at ho
    obtain ⟨to, hto, rfl⟩ := ho
    simp only [opToDict, projOp]
    rw [gdepth_gateToDict]
    exact hf to hto

/-- **END-TO-END, circuit sets** (`circuitset_fromDict_toDict_partial` on the translated `to_dict(list)` / `circuitset_from_dict`). -/
theorem translated_circuitset_roundtrip_partial (env : Env) (h : EnvHygienic env) (hE : EnvMatches env) (C : Codec P E)
    (nrm : P → P) (okName auto : Name → Prop) (L : SympifyLaw C nrm okName auto) (tcs : List (TCirc P E))
    (hw : ∀ c ∈ tcs, WFC c) (hc : ∀ c ∈ tcs, CircuitOK env C okName auto (projC c)) (fuel : Nat)
    (hf : ∀ c ∈ tcs, ∀ o ∈ c.ops, gateDepth (proj o.gate) < fuel) :
    ∃ j, TranslatedC05.circuitset_to_dict (X env C) tcs = .ok j ∧
      Except.map (List.map projC) (TranslatedC05.circuitset_from_dict (X env C) fuel j)
        = .ok ((tcs.map projC).map (Circuit.map nrm)) := by
  obtain ⟨ds, h1, h2⟩ := circuitset_fromDict_toDict_partial env h C nrm okName auto L (tcs.map projC)
    (by intro c hcm; simp only [List.mem_map] at hcm; obtain ⟨tc, htc, rfl⟩ := hcm; exact hc tc htc)
  refine ⟨encCs ds, by rw [circuitset_to_dict_eq env hE C tcs hw, h1]; rfl, ?_⟩
  rw [circuitset_from_dict_tie env hE C fuel ds, h2]
  · rfl
  · -- every dictionary of `ds` is the dictionary of one of the circuits
    have key : ∀ (l : List (TCirc P E)) (ds : List (CDict E)), (∀ c ∈ l, ∀ o ∈ c.ops, gateDepth (proj o.gate) < fuel) →
        circuitsetToDict env C (l.map projC) = .ok ds → ∀ d ∈ ds, ∀ o ∈ d.ops, gdepth o.gate < fuel := by
      intro l
      induction l with
      | nil => intro ds _ hds d hd; simp [circuitsetToDict, pure, Except.pure] at hds; subst hds; simp at hd
      | cons c cs ih =>
        intro ds hl hds d hd o ho
        simp only [circuitsetToDict, List.map_cons, List.mapM_cons, bind, Except.bind, pure, Except.pure] at hds
        cases hc1 : circuitToDict env C (projC c) with
        | error e => simp [hc1] at hds
        | ok d1 =>
          rw [hc1] at hds
          cases hcs : List.mapM (circuitToDict env C) (cs.map projC) with
          | error e => simp [hcs] at hds
          | ok dss =>
            rw [hcs] at hds
            simp only [Except.ok.injEq] at hds
            subst hds
            rcases List.mem_cons.mp hd with rfl | hd'
            · rw [circuitToDict_ops hc1] at ho
              simp only [projC, List.map_map, List.mem_map, Function.comp] at ho
              obtain ⟨to, hto, rfl⟩ := ho
              simp only [opToDict, projOp]
              rw [gdepth_gateToDict]
              exact hl c (by simp) to hto
            · exact ih dss (fun c' hc' => hl c' (by simp [hc'])) hcs d hd' o ho
    exact key tcs ds hf h1

/-! ### non-vacuity: the TRANSLATED definitions evaluated by the kernel on concrete inputs (stand-in codec `XC` of the driver) -/

/-- `X.controlled(2)` as a translated gate object -/
def tCCX : TGate PExpr Expo := .ControlledGate (.MatrixFactoryGate "X" none [] 1 true) 2
/-- `(RX(gamma + x[3])†)^0.5`-shaped nesting with a parameter -/
def tNested : TGate PExpr Expo :=
  .Dagger (.ControlledGate (.MatrixFactoryGate "RX" none [⟨"gamma + x[3]".toList, ["gamma".toList, "x[3]".toList]⟩] 1 false) 1)
/-- a custom gate `U(0.25)` raised to a power -/
def tCustom : TGate PExpr Expo :=
  .Power (.MatrixFactoryGate "U" (some thetaDef) [⟨"0.25".toList, []⟩] 1 false) ⟨true, 2, 1, "2".toList⟩

example : TranslatedC05.gate_name (X genEnv XC) tNested = "Control_Dagger" := by decide
example : TranslatedC05.gate_name (X genEnv XC) tCustom = "U^2" := by decide

example : TranslatedC05.to_dict_gate (X genEnv XC) tCCX =
    .ok (.obj [("name", .str "Control"), ("wrapped_gate", .obj [("name", .str "X")]), ("num_control_qubits", .int 2)]) := by
  rfl

example : TranslatedC05.to_dict_gate (X genEnv XC) tNested =
    .ok (.obj [("name", .str "Control_Dagger"), ("wrapped_gate", .obj [("name", .str "Control"),
      ("wrapped_gate", .obj [("name", .str "RX"), ("params", .arr [.str "gamma + x[3]"]),
        ("free_symbols", .arr [.str "gamma", .str "x[3]"])]), ("num_control_qubits", .int 1)])]) := by
  rfl

/-- the translated reader rebuilds what the translated writer wrote (budget 3 for two wrappers) … -/
example : (TranslatedC05.to_dict_gate (X genEnv XC) tNested).bind
    (fun j => Except.map proj (TranslatedC05.gate_from_dict (X genEnv XC) 3 j [])) = .ok (proj tNested) := by decide
example : (TranslatedC05.to_dict_gate (X genEnv XC) tCustom).bind
    (fun j => Except.map proj (TranslatedC05.gate_from_dict (X genEnv XC) 2 j [thetaDef])) = .ok (proj tCustom) := by decide
/-- … a budget that is too small is a RecursionError, a missing definition a ValueError, a rejected control count a ValueError, an
    unknown name without definitions a ValueError, a dictionary without `name` a KeyError -/
example : (TranslatedC05.to_dict_gate (X genEnv XC) tNested).bind
    (fun j => Except.map proj (TranslatedC05.gate_from_dict (X genEnv XC) 2 j [])) = .error .RecursionError := by decide
example : (TranslatedC05.to_dict_gate (X genEnv XC) tCustom).bind
    (fun j => Except.map proj (TranslatedC05.gate_from_dict (X genEnv XC) 2 j [])) = .error .ValueError := by decide
example : Except.map proj (TranslatedC05.gate_from_dict (X genEnv XC) 5
    (.obj [("name", .str "Control"), ("wrapped_gate", .obj [("name", .str "X")]), ("num_control_qubits", .int 0)]) [])
    = .error .ValueError := by decide
example : Except.map proj (TranslatedC05.gate_from_dict (X genEnv XC) 5 (.obj [("params", .arr [])] : JV Expo) [])
    = .error .KeyError := by decide

/-- a whole circuit through the translated `_circuit_to_dict` / `circuit_from_dict` -/
def tCircuit : TCirc PExpr Expo :=
  ⟨4, [⟨tCCX, [0, 1, 2]⟩, ⟨tNested, [3, 0]⟩, ⟨tCustom, [1]⟩]⟩

example : (TranslatedC05.circuit_to_dict (X genEnv XC) tCircuit).bind
    (fun j => Except.map projC (TranslatedC05.circuit_from_dict (X genEnv XC) 4 j)) = .ok (projC tCircuit) := by decide

example : WFC tCircuit := by
  intro o ho
  simp only [tCircuit, List.mem_cons, List.not_mem_nil, or_false] at ho
  rcases ho with rfl | rfl | rfl <;> simp [WFOp, WF, tCCX, tNested, tCustom, thetaDef, sN]

end OQ.C05
