/-
  C15 — LINK THEOREMS: the theorems of OQ/Props/C15.lean composed with those of C09 (operator ↔ matrix),
  C01 (circuit semantics) and C10 (sample statistics).

  OQ/Props/C15.lean states sentence 6 ("exact expectation values equal the state's quadratic form with
  the operator") for an ABSTRACT operator-to-matrix map `opMat` and an ABSTRACT simulator `wf`, and
  sentences 4–5 with its own re-model of `Measurements.get_expectation_values` and its own vocabulary
  (`sampleMean`, `zEigenvalue`).  Here the parameters are instantiated with the models the other
  properties verify, and the resulting statements are proved without the corresponding assumptions:

    opMat := `sparseOpMat k ofGQ`  – C09's model of `get_sparse_operator` (COO assembly), on the operator
                                      converted by `toPSum`;  its matrix is `specMatrix` = `PSum.denote`
                                      (C09.sparse_eq_denote);
    wf    := `simWf stepSim`        – C01's step-wise application of the circuit's operations to |0…0⟩
                                      (`liftWf`: the same through `Lift.applyAll`; or any simulator built on
                                      the base class, C01.getWavefunction); its state is `specState` =
                                      `circSem · |0…0⟩` (C01.applyAll_eq_circuit_matrix);
    conj  := `star`                 – (`starConj`), the conjugation C09 reasons with;
    shots/terms of C10              – `toShots`, `reTerms`: the same bitstrings as Booleans, the same terms
                                      with the real parts of the coefficients over ℚ.

  Vocabulary (OQ/Lemmas/C15_LinkC09.lean, OQ/Lemmas/C15_LinkC10.lean):
    quadForm A ψ = star ψ ⬝ᵥ A *ᵥ ψ   (⟨ψ|A|ψ⟩, Mathlib matrices indexed by `Fin (2^n)`, qubit 0 = MSB).
-/
import OQ.Lemmas.C15_LinkC09
import OQ.Lemmas.C15_LinkC10
set_option linter.unusedSectionVars false
namespace OQ.C15.Link
open OQ OQ.C15 OQ.Pauli Matrix

section exact
variable {R : Type} [CommRing R] [StarRing R] [DecidableEq R]
attribute [local instance] starConj

/-! ### sentence 6 with the operator-matrix map of C09 -/

/-- The width guard of `get_exact_expectation_values` in C15's model (`n < operator.n_qubits` ⇒ `ValueError`)
    is exactly the guard of C09's `get_sparse_operator` on the converted operator: the two models compute
    the same operator width, so the `none` branch of `sparseOpMat` is never read by `exactValue`. -/
theorem sparse_guard_agrees (k : Scal R) (ofGQ : GQ → R) (o : Op) (n : Nat) :
    PSum.nQubits (toPSum ofGQ o) = o.nQubits ∧
    (C09.getSparseOperator k (toPSum ofGQ o) n = none ↔ n < o.nQubits) :=
  ⟨nQubits_toPSum ofGQ o, sparse_guard k ofGQ o n⟩

/-- C15.exact_eq_quadratic_form with `opMat := get_sparse_operator` (C09), simulator still abstract:
    removes the parameter `opMat` – the matrix in the quadratic form is now the tensor-product
    DEFINITION of the operator (`PSum.denote`, C09.sparse_eq_denote), for every operator with distinct
    qubit indices per term, and the call succeeds (no exception) on the stated domain.
    `width`/`state` name what the simulator returns for each circuit. -/
theorem exact_values_sparse_abstract_simulator {C : Type} (k : Scal R) (hi : k.i * k.i = -1)
    (ofGQ : GQ → R) (re : R → R) (wf : C → Except Err (Nat × (Nat → R))) (width : C → Nat)
    (state : (c : C) → Fin (2 ^ width c) → R) (tasks : List (Task C))
    (hwf : ∀ t ∈ tasks, ∃ ψ, wf t.circuit = .ok (width t.circuit, ψ) ∧
      (fun a : Fin (2 ^ width t.circuit) => ψ a) = state t.circuit)
    (hterm : ∀ t ∈ tasks, ∀ term ∈ t.op, term.qubits.Nodup)
    (hwidth : ∀ t ∈ tasks, t.op.nQubits ≤ width t.circuit) :
    exactValues wf (sparseOpMat k ofGQ) re tasks =
      .ok (tasks.map (fun t =>
        [re (quadForm (specMatrix k ofGQ (width t.circuit) t.op) (state t.circuit))])) := by
  unfold exactValues
  apply mapE_ok_of_forall
  intro t ht
  obtain ⟨ψ, hψ, hst⟩ := hwf t ht
  have hn : ¬ width t.circuit < t.op.nQubits := by have := hwidth t ht; omega
  simp only [exactValue, hψ, hn, if_false]
  rw [expectation_sparse k hi ofGQ t.op (hterm t ht) _ (hwidth t ht) ψ, hst]

/-- (1) C15.exact_eq_quadratic_form with BOTH parameters instantiated:
    `opMat := get_sparse_operator` (C09) and `wf :=` step-wise application of the circuit's operations to
    |0…0⟩ (C01).  For every list of tasks whose circuits consist of valid operations (gates on distinct
    in-range qubits and full-length phase operations, in any interleaving) and whose operators fit the
    circuit's register, `calculate_exact_expectation_values` succeeds and returns, per task and in task
    order, the single value re ⟨ψ|A|ψ⟩ with ψ = (circuit matrix, C01.circSem) · |0…0⟩ and
    A = the tensor-product definition of the operator (C09 `PSum.denote`).
    Removes: the abstract `opMat` and `wf` of C15.exact_eq_quadratic_form. -/
theorem exact_values_sparse (k : Scal R) (hi : k.i * k.i = -1) (ofGQ : GQ → R) (re : R → R)
    (tasks : List (Task (C01.Circ R)))
    (hcirc : ∀ t ∈ tasks, ∀ op ∈ t.circuit.ops, C01.OperValid t.circuit.n op)
    (hterm : ∀ t ∈ tasks, ∀ term ∈ t.op, term.qubits.Nodup)
    (hwidth : ∀ t ∈ tasks, t.op.nQubits ≤ t.circuit.n) :
    exactValues (simWf stepSim) (sparseOpMat k ofGQ) re tasks =
      .ok (tasks.map (fun t =>
        [re (quadForm (specMatrix k ofGQ t.circuit.n t.op) (specState t.circuit.n t.circuit.ops))])) := by
  apply exact_values_sparse_abstract_simulator k hi ofGQ re (simWf stepSim) (fun c => c.n)
    (fun c => specState c.n c.ops) tasks ?_ hterm hwidth
  intro t ht
  obtain ⟨w, hw, _, _, hs⟩ := stepSim_spec t.circuit.n t.circuit.ops (hcirc t ht)
  exact ⟨fun a => w.get a 0, by simp only [simWf, stepSim, hw], hs⟩

/-- (1) for a circuit given as a width and a list of gate operations, simulated through `Lift.applyAll`
    from the zero state (the simulator named in the C04 model): same statement. -/
theorem exact_values_sparse_lift (k : Scal R) (hi : k.i * k.i = -1) (ofGQ : GQ → R) (re : R → R)
    (tasks : List (Task (Nat × List (Lift.Op R))))
    (hcirc : ∀ t ∈ tasks, ∀ o ∈ t.circuit.2, C01.OpValid t.circuit.1 o)
    (hterm : ∀ t ∈ tasks, ∀ term ∈ t.op, term.qubits.Nodup)
    (hwidth : ∀ t ∈ tasks, t.op.nQubits ≤ t.circuit.1) :
    exactValues liftWf (sparseOpMat k ofGQ) re tasks =
      .ok (tasks.map (fun t =>
        [re (quadForm (specMatrix k ofGQ t.circuit.1 t.op)
              (specState t.circuit.1 (t.circuit.2.map C01.Oper.gate)))])) := by
  apply exact_values_sparse_abstract_simulator k hi ofGQ re liftWf (fun c => c.1)
    (fun c => specState c.1 (c.2.map C01.Oper.gate)) tasks ?_ hterm hwidth
  intro t ht
  have hv : ∀ op ∈ t.circuit.2.map C01.Oper.gate, C01.OperValid t.circuit.1 op := by
    intro op hop
    obtain ⟨o, ho, rfl⟩ := List.mem_map.mp hop
    exact hcirc t ht o ho
  obtain ⟨w, hw, _, _, hs⟩ := stepSim_spec t.circuit.1 _ hv
  have hl := liftApplyAll_eq t.circuit.2 (fun o ho => ⟨(hcirc t ht o ho).mr, (hcirc t ht o ho).mc⟩)
    (C01.zeroState t.circuit.1)
  exact ⟨fun a => w.get a 0, by simp only [liftWf, liftSim, hl, hw], hs⟩

/-- (1) for EVERY simulator built on `BaseWavefunctionSimulator` (any set of native operations, C01
    sentence (vi)): if its native run acts like applying the operations of the piece and the
    `Wavefunction` constructor accepts the final states, the exact expectation values are the same
    quadratic forms. -/
theorem exact_values_sparse_any_simulator (k : Scal R) (hi : k.i * k.i = -1) (ofGQ : GQ → R) (re : R → R)
    (isNative : C01.Oper R → Bool) (native : C01.Circ R → Mat R → Option (Mat R)) (valid : Mat R → Bool)
    (hnative : ∀ sub st, native sub st = C01.applyAll sub.ops st)
    (tasks : List (Task (C01.Circ R)))
    (hvalid : ∀ t ∈ tasks, ∀ w, stepSim t.circuit = some w → valid w = true)
    (hcirc : ∀ t ∈ tasks, ∀ op ∈ t.circuit.ops, C01.OperValid t.circuit.n op)
    (hterm : ∀ t ∈ tasks, ∀ term ∈ t.op, term.qubits.Nodup)
    (hwidth : ∀ t ∈ tasks, t.op.nQubits ≤ t.circuit.n) :
    exactValues (simWf (fun c => C01.getWavefunction isNative native valid c none)) (sparseOpMat k ofGQ) re tasks =
      .ok (tasks.map (fun t =>
        [re (quadForm (specMatrix k ofGQ t.circuit.n t.op) (specState t.circuit.n t.circuit.ops))])) := by
  apply exact_values_sparse_abstract_simulator k hi ofGQ re _ (fun c => c.n)
    (fun c => specState c.n c.ops) tasks ?_ hterm hwidth
  intro t ht
  obtain ⟨w, hw, _, _, hs⟩ := stepSim_spec t.circuit.n t.circuit.ops (hcirc t ht)
  refine ⟨fun a => w.get a 0, ?_, hs⟩
  have hval := hvalid t ht w hw
  simp only [simWf, C01.getWavefunction_eq_applyAll isNative native valid hnative, Option.getD_none, hw,
    Option.bind_some, hval, if_true]

/-- C15's model of `get_exact_expectation_values` and C09's model of `get_expectation_value` are two
    models of the same call chain: on the amplitude list of the simulated state they agree – value for
    value and `ValueError` for `ValueError` – for every operator and every state (no hypothesis on either).
    Hence C09.expectation_quadratic_form / expectation_rejects speak about C15's exact values. -/
theorem exact_value_is_C09_expectation (k : Scal R) (hcj : k.cj = star) (tol : C09.Tol R) (ofGQ : GQ → R)
    (re : R → R) (sim : C01.Circ R → Option (Mat R)) (t : Task (C01.Circ R)) (w : Mat R)
    (hsim : sim t.circuit = some w) :
    exactValue (simWf sim) (sparseOpMat k ofGQ) re t =
      match C09.getExpectationValue k tol (toPSum ofGQ t.op) (amps t.circuit.n w) false with
      | none => .error .value
      | some v => .ok (re v) :=
  exactValue_eq_C09 k hcj tol ofGQ re sim t w hsim

/-! ### the matrix used by `exact_basis_ising` IS the matrix of C09 -/

/-- C15.exact_basis_ising is stated for C15's own entry-by-entry matrix `opMatrix` and only CLAIMS that
    this is "the matrix `get_sparse_operator` denotes".  Closed here: on every register width, for every
    operator (X, Y, Z, gaps, repeated indices – no hypothesis), `opMatrix` is C09's tensor-product
    definition `PSum.denote` of the converted operator. -/
theorem opMatrix_is_denote (k : Scal R) (ofGQ : GQ → R) (o : Op) (n : Nat) :
    Matrix.of (fun (a b : Fin (2 ^ n)) => opMatrix k.i ofGQ o n a b) = specMatrix k ofGQ n o := by
  funext a b
  simp only [Matrix.of_apply, specMatrix, Mat.toM]
  rw [(C09.denote_spec k n (toPSum ofGQ o)).2.2 a b a.2 b.2, opMatrix_eq_dEntry]

/-- … and therefore equals what C09's model of `get_sparse_operator` assembles (COO triplets), whenever
    that call is accepted. -/
theorem opMatrix_is_sparse (k : Scal R) (hi : k.i * k.i = -1) (ofGQ : GQ → R) (o : Op)
    (hterm : ∀ term ∈ o, term.qubits.Nodup) (n : Nat) (hn : o.nQubits ≤ n) (a b : Nat)
    (ha : a < 2 ^ n) (hb : b < 2 ^ n) :
    sparseOpMat k ofGQ o n a b = opMatrix k.i ofGQ o n a b := by
  have h1 := sparseOpMat_get k hi ofGQ o hterm n hn ⟨a, ha⟩ ⟨b, hb⟩
  have h2 := congrFun (congrFun (opMatrix_is_denote k ofGQ o n) ⟨a, ha⟩) ⟨b, hb⟩
  simp only [Matrix.of_apply] at h2
  rw [h1, ← h2]

/-- C15.exact_basis_ising with `opMat := get_sparse_operator` (C09) instead of C15's private `opMatrix`:
    on the computational basis state of index `x` the exact value of an Ising operator is
    re Σ_terms coefficient × eigenvalue at the bits of `x`. -/
theorem exact_basis_ising_sparse {C : Type} (k : Scal R) (hi : k.i * k.i = -1) (ofGQ : GQ → R) (re : R → R)
    (wf : C → Except Err (Nat × (Nat → R)))
    (t : Task C) (n x : Nat) (hx : x < 2 ^ n)
    (hwf : wf t.circuit = .ok (n, fun j => if j = x then 1 else 0))
    (hI : t.op.isIsing = true) (hnd : ∀ term ∈ t.op, term.qubits.Nodup)
    (hw : ∀ term ∈ t.op, ∀ q ∈ term.qubits, q < n) :
    exactValue wf (sparseOpMat k ofGQ) re t =
      .ok (re ((t.op.map (fun term => ofGQ term.coeff * ((zEigenvalue term.qubits (bitsOf n x) : Int) : R))).sum)) := by
  rw [← exact_basis_ising (K := R) (by simp [conj_eq_star]) (by simp [conj_eq_star]) wf k.i ofGQ re t n x hx hwf hI hnd hw]
  have hle : t.op.nQubits ≤ n := nQubits_le t.op n hw
  have hn : ¬ n < t.op.nQubits := by omega
  simp only [exactValue, hwf, hn, if_false]
  rw [expectation_congr (2 ^ n) (sparseOpMat k ofGQ t.op n) (opMatrix k.i ofGQ t.op n) _
    (fun a b ha hb => opMatrix_is_sparse k hi ofGQ t.op hnd n hle a b ha hb)]

/-- the same with the simulator of C01: when the circuit's matrix sends |0…0⟩ to the basis state of index
    `x` (a statement about `C01.circSem` only), the exact value computed through C01's step-wise
    simulation and C09's `get_sparse_operator` is re Σ coefficient × eigenvalue.
    Removes `hwf` of C15.exact_basis_ising in favour of the circuit's SPEC. -/
theorem exact_basis_ising_circuit (k : Scal R) (hi : k.i * k.i = -1) (ofGQ : GQ → R) (re : R → R)
    (t : Task (C01.Circ R)) (x : Nat) (hx : x < 2 ^ t.circuit.n)
    (hcirc : ∀ op ∈ t.circuit.ops, C01.OperValid t.circuit.n op)
    (hprep : specState t.circuit.n t.circuit.ops = fun a => if a.val = x then 1 else 0)
    (hI : t.op.isIsing = true) (hnd : ∀ term ∈ t.op, term.qubits.Nodup)
    (hw : ∀ term ∈ t.op, ∀ q ∈ term.qubits, q < t.circuit.n) :
    exactValue (simWf stepSim) (sparseOpMat k ofGQ) re t =
      .ok (re ((t.op.map (fun term => ofGQ term.coeff *
        ((zEigenvalue term.qubits (bitsOf t.circuit.n x) : Int) : R))).sum)) := by
  obtain ⟨w, hwm, _, _, hs⟩ := stepSim_spec t.circuit.n t.circuit.ops hcirc
  rw [hprep] at hs
  have hle : t.op.nQubits ≤ t.circuit.n := nQubits_le t.op _ hw
  have hn : ¬ t.circuit.n < t.op.nQubits := by omega
  -- the simulated amplitudes agree with the indicator on the range the expectation reads
  have hamp : ∀ a, a < 2 ^ t.circuit.n → w.get a 0 = if a = x then 1 else 0 := by
    intro a ha
    exact congrFun hs ⟨a, ha⟩
  rw [← exact_basis_ising_sparse k hi ofGQ re
    (fun _ : C01.Circ R => (.ok (t.circuit.n, fun j => if j = x then 1 else 0) : Except Err (Nat × (Nat → R))))
    t t.circuit.n x hx rfl hI hnd hw]
  simp only [exactValue, simWf, stepSim, hwm, hn, if_false]
  congr 2
  rw [C15.expectation_eq, C15.expectation_eq]
  apply Finset.sum_congr rfl
  intro a ha
  apply Finset.sum_congr rfl
  intro b hb
  rw [hamp a (Finset.mem_range.mp ha), hamp b (Finset.mem_range.mp hb)]

/-! ### sentence 5 with the circuit semantics of C01 -/

/-- C15.basis_state_value with "prepares the basis state `b`" discharged by C01: the runner law is taken
    with `supp := ampSupp` (bitstrings of the basis indices of non-zero amplitude in C01's step-wise
    simulation).  When the circuit's matrix (C01.circSem) sends |0…0⟩ to the basis state of index `x`,
    every value of the task's result is Re(coefficient) × eigenvalue of the term's Z-string at the bits
    of `x`, for every positive shot count.
    Removes `supp`, `b`, `hprep`, `hbits` of C15.basis_state_value in favour of the circuit's SPEC. -/
theorem basis_state_value_circuit (rb : List (C01.Circ R) → List (Option Int) → Except Err (List Shots))
    (hlaw : RunnerLaw rb ampSupp)
    (tasks : List (Task (C01.Circ R))) (r : List (Option Vals)) (h : estimateByAveraging rb tasks = .ok r)
    (i : Nat) (hi : i < tasks.length) (hc : tasks[i].op.isConstant = false)
    (n : Int) (hn : 0 < n) (hshots : tasks[i].shots = some n)
    (hcirc : ∀ op ∈ tasks[i].circuit.ops, C01.OperValid tasks[i].circuit.n op) (x : Nat)
    (hprep : specState tasks[i].circuit.n tasks[i].circuit.ops = fun a => if a.val = x then 1 else 0)
    (hwidth : ∀ t ∈ tasks[i].op, ∀ q ∈ t.qubits, q < tasks[i].circuit.n) :
    r[i]? = some (some (tasks[i].op.map (fun t =>
      (⟨t.coeff.re * (zEigenvalue t.qubits (bitsOf tasks[i].circuit.n x) : Int), 0⟩ : GQ)))) :=
  basis_state_value rb ampSupp hlaw tasks r h i hi hc n hn hshots (bitsOf tasks[i].circuit.n x)
    (fun s hs => ampSupp_basis tasks[i].circuit hcirc x hprep s hs)
    (fun q => bitsOf_getD_le_one _ x q)
    (by rw [bitsOf_length]; exact hwidth)

/-- the hypothesis `RunnerLaw rb ampSupp` is satisfiable: the batch validation of `BaseCircuitRunner`
    around a sampler that returns copies of the first outcome of non-zero amplitude obeys it. -/
theorem runner_law_ampSupp_satisfiable :
    RunnerLaw (baseRunBatch (firstOutcomeRun (R := R))) ampSupp := firstOutcomeRun_law

end exact

/-! ### sentences 4–5 through C10's model of `Measurements.get_expectation_values` -/

/-- C15 re-models `Measurements.get_expectation_values` inline (`getExpectationValues`, `expFromFreq`);
    C10 verifies its own model of the same method.  On the same shots (non-empty, one width, bits 0/1)
    and the same operator (qubits inside the width, distinct per term) the two agree: WHATEVER C10's
    model reports (`= .ok ev`, with or without Bessel's correction), C15's measured value is `ev.values` –
    so the per-term value of C15 IS C10's "coefficient × sample mean of the ±1 eigenvalue"
    (C10.value_eq_mean), and C15's vocabulary `sampleMean` is C10's `meanZ`. -/
theorem measured_value_via_C10 (op : Op) (s0 : Bits) (rest : Shots) (w : Nat) (bessel : Bool)
    (hl : ∀ s ∈ s0 :: rest, s.length = w) (hb : ∀ s ∈ s0 :: rest, ∀ x ∈ s, x ≤ 1)
    (hq : ∀ t ∈ op, ∀ q ∈ t.qubits, q < w) (hn : ∀ t ∈ op, t.qubits.Nodup)
    (ev : C10.ExpectationValues Rat)
    (h : C10.getExpectationValues (toShots (s0 :: rest)) (reTerms op) bessel = .ok ev) :
    measuredValue op (s0 :: rest) = .ok (ev.values.map GQ.ofRat) ∧
    ev.values = op.map (fun t => t.coeff.re * C10.meanZ t.qubits (toShots (s0 :: rest))) ∧
    ∀ t ∈ op, sampleMean t.qubits (s0 :: rest) = C10.meanZ t.qubits (toShots (s0 :: rest)) := by
  have hI : op.isIsing = true := by
    by_contra hc
    have : ¬ ((reTerms op).all C10.Term.isIsing = true) := by
      intro hall
      apply hc
      rw [Op.isIsing, List.all_eq_true]
      intro t ht
      have := (List.all_eq_true.mp hall) (reTerm t) (List.mem_map_of_mem ht)
      rwa [reTerm_isIsing] at this
    rw [(C10.non_ising_rejected (toShots (s0 :: rest)) (reTerms op) bessel this).1] at h
    cases h
  have hvals := C10.value_eq_mean (toShots (s0 :: rest)) (reTerms op) bessel w ev (by simp [toShots])
    (by intro s hs
        obtain ⟨s', hs', rfl⟩ := List.mem_map.mp hs
        rw [toShot_length]; exact hl s' hs')
    (by intro t ht
        obtain ⟨t', ht', rfl⟩ := List.mem_map.mp ht
        rw [reTerm_qubits]; exact hq t' ht')
    (by intro t ht
        obtain ⟨t', ht', rfl⟩ := List.mem_map.mp ht
        rw [reTerm_qubits]; exact hn t' ht') h
  have hvals' : ev.values = op.map (fun t => t.coeff.re * C10.meanZ t.qubits (toShots (s0 :: rest))) := by
    rw [hvals, reTerms, List.map_map]
    apply List.map_congr_left
    intro t _
    simp only [Function.comp, reTerm_qubits]
    rfl
  refine ⟨?_, hvals', fun t _ => sampleMean_eq_meanZ t.qubits (s0 :: rest) hb⟩
  rw [measuredValue_eq op s0 rest hI (by rw [hl s0 (by simp)]; exact hq), hvals', List.map_map]
  congr 1
  apply List.map_congr_left
  intro t _
  simp only [Function.comp, GQ.ofRat, sampleMean_eq_meanZ t.qubits (s0 :: rest) hb]

/-- … and on a positive width both models DO report (no exception), the same values. -/
theorem measured_value_reported_via_C10 (op : Op) (s0 : Bits) (rest : Shots) (w : Nat) (bessel : Bool)
    (hw : 0 < w) (hl : ∀ s ∈ s0 :: rest, s.length = w) (hb : ∀ s ∈ s0 :: rest, ∀ x ∈ s, x ≤ 1)
    (hI : op.isIsing = true) (hq : ∀ t ∈ op, ∀ q ∈ t.qubits, q < w) (hn : ∀ t ∈ op, t.qubits.Nodup) :
    ∃ ev, C10.getExpectationValues (toShots (s0 :: rest)) (reTerms op) bessel = .ok ev ∧
      measuredValue op (s0 :: rest) = .ok (ev.values.map GQ.ofRat) := by
  have h := C10.expectation_values_reported_partial (R := Rat) (toShots (s0 :: rest)) (reTerms op) bessel w
    (by simp [toShots]) hw
    (by intro s hs
        obtain ⟨s', hs', rfl⟩ := List.mem_map.mp hs
        rw [toShot_length]; exact hl s' hs')
    (by intro t ht
        obtain ⟨t', ht', rfl⟩ := List.mem_map.mp ht
        rw [reTerm_isIsing]; exact (List.all_eq_true.mp hI) t' ht')
    (by intro t ht
        obtain ⟨t', ht', rfl⟩ := List.mem_map.mp ht
        rw [reTerm_qubits]; exact hq t' ht')
    (by intro t ht
        obtain ⟨t', ht', rfl⟩ := List.mem_map.mp ht
        rw [reTerm_qubits]; exact hn t' ht')
  exact ⟨_, h, (measured_value_via_C10 op s0 rest w bessel hl hb hq hn _ h).1⟩

/-- C15.measured_value_weighted read through C10: inside `estimate_expectation_values_by_averaging`,
    the result of a measured task is what C10's model of `get_expectation_values` reports on the shots
    the runner returned for this task's circuit. -/
theorem estimate_value_via_C10 {C : Type} (rb : List C → List (Option Int) → Except Err (List Shots))
    (hlaw : ∀ cs ns meas, rb cs ns = .ok meas → meas.length = cs.length)
    (tasks : List (Task C)) (r : List (Option Vals)) (h : estimateByAveraging rb tasks = .ok r)
    (i : Nat) (hi : i < tasks.length) (hm : notMeasured tasks[i] = false) :
    ∃ meas s0 rest, rb (submittedCircuits tasks) (submittedShots tasks) = .ok meas ∧
      meas.getD (rank tasks i) [] = s0 :: rest ∧
      ∀ (w : Nat) (bessel : Bool) (ev : C10.ExpectationValues Rat),
        (∀ s ∈ s0 :: rest, s.length = w) → (∀ s ∈ s0 :: rest, ∀ x ∈ s, x ≤ 1) →
        (∀ t ∈ tasks[i].op, ∀ q ∈ t.qubits, q < w) → (∀ t ∈ tasks[i].op, t.qubits.Nodup) →
        C10.getExpectationValues (toShots (s0 :: rest)) (reTerms tasks[i].op) bessel = .ok ev →
        r[i]? = some (some (ev.values.map GQ.ofRat)) := by
  obtain ⟨meas, s0, rest, hrb, hs, hval⟩ := measured_value_weighted rb hlaw tasks r h i hi hm
  refine ⟨meas, s0, rest, hrb, hs, ?_⟩
  intro w bessel ev hl hb hq hn hev
  obtain ⟨_, hvals, hmean⟩ := measured_value_via_C10 tasks[i].op s0 rest w bessel hl hb hq hn ev hev
  rw [hval (by rw [hl s0 (by simp)]; exact hq), hvals, List.map_map]
  congr 2
  apply List.map_congr_left
  intro t ht
  simp only [Function.comp, GQ.ofRat, hmean t ht]

/-- (2) C15.basis_state_value through C10: when the circuit of a measured task prepares the basis state
    `b`, C10's model of `get_expectation_values`, run on the shots the runner returned for it, REPORTS
    (no exception, any positive shot count, with or without Bessel's correction) the values
    Re(coefficient) × eigenvalue of the term's Z-string at `b`, and the result of
    `estimate_expectation_values_by_averaging` for that task is exactly C10's report. -/
theorem basis_state_value_via_C10 {C : Type} (rb : List C → List (Option Int) → Except Err (List Shots))
    (supp : C → Bits → Prop) (hlaw : RunnerLaw rb supp)
    (tasks : List (Task C)) (r : List (Option Vals)) (h : estimateByAveraging rb tasks = .ok r)
    (i : Nat) (hi : i < tasks.length) (hc : tasks[i].op.isConstant = false)
    (n : Int) (hn : 0 < n) (hshots : tasks[i].shots = some n)
    (b : Bits) (hprep : ∀ s, supp tasks[i].circuit s → s = b)
    (hbits : ∀ x ∈ b, x ≤ 1) (hwidth : ∀ t ∈ tasks[i].op, ∀ q ∈ t.qubits, q < b.length)
    (hnd : ∀ t ∈ tasks[i].op, t.qubits.Nodup) (bessel : Bool) :
    ∃ meas ev, rb (submittedCircuits tasks) (submittedShots tasks) = .ok meas ∧
      C10.getExpectationValues (toShots (meas.getD (rank tasks i) [])) (reTerms tasks[i].op) bessel = .ok ev ∧
      ev.values = tasks[i].op.map (fun t => t.coeff.re * ((zEigenvalue t.qubits b : Int) : Rat)) ∧
      r[i]? = some (some (ev.values.map GQ.ofRat)) := by
  have hm : notMeasured tasks[i] = false := by
    simp only [notMeasured, hc, hshots, Bool.false_or]
    simp; omega
  have hmeasd : isMeasured tasks[i] = true := by simp [isMeasured, hm]
  obtain ⟨meas, s0, rest, hrb, hs, hvia⟩ := estimate_value_via_C10 rb hlaw.onePer tasks r h i hi hm
  -- every returned shot is `b`
  have hget := filter_rank_get tasks i hi hmeasd
  have hc' : (submittedCircuits tasks)[rank tasks i]? = some tasks[i].circuit := by
    simp [submittedCircuits, List.getElem?_map, hget]
  have hsupp := hlaw.support _ _ _ hrb (rank tasks i) _ hc'
  have hall : ∀ s ∈ s0 :: rest, s = b := by
    intro s hsm; rw [← hs] at hsm; exact hprep s (hsupp s hsm)
  have hl : ∀ s ∈ s0 :: rest, s.length = b.length := fun s hsm => by rw [hall s hsm]
  have hb : ∀ s ∈ s0 :: rest, ∀ x ∈ s, x ≤ 1 := fun s hsm => by rw [hall s hsm]; exact hbits
  -- a measured (non-constant) operator has a qubit, so the width is positive
  have hpos : 0 < b.length := by
    have hex : ∃ t ∈ tasks[i].op, t.isConstant = false := by
      by_contra hno
      have : tasks[i].op.isConstant = true := by
        rw [Op.isConstant, List.all_eq_true]
        intro t ht
        by_contra hf
        exact hno ⟨t, ht, by simpa using hf⟩
      rw [this] at hc; cases hc
    obtain ⟨t, ht, htc⟩ := hex
    have hne : t.ops ≠ [] := by
      intro he; simp [Term.isConstant, he] at htc
    obtain ⟨p, ps, hp⟩ := List.exists_cons_of_ne_nil hne
    have := hwidth t ht p.1 (by simp [Term.qubits, hp])
    omega
  have hI : tasks[i].op.isIsing = true := by
    -- the estimation succeeded on a measured task, so the operator passed the Ising check
    obtain ⟨meas', _, _, hall'⟩ := result_at_index rb hlaw.onePer tasks r h
    obtain ⟨v, _, he⟩ := hall' i hi
    simp only [hm, Bool.false_eq_true, if_false] at he
    by_contra hnI
    simp [measuredValue, getExpectationValues, hnI] at he
  obtain ⟨ev, hev, _⟩ := measured_value_reported_via_C10 tasks[i].op s0 rest b.length bessel hpos hl hb hI hwidth hnd
  obtain ⟨_, hvals, _⟩ := measured_value_via_C10 tasks[i].op s0 rest b.length bessel hl hb hwidth hnd ev hev
  refine ⟨meas, ev, hrb, by rw [hs]; exact hev, ?_, hvia b.length bessel ev hl hb hwidth hnd hev⟩
  rw [hvals]
  apply List.map_congr_left
  intro t _
  congr 1
  rw [← sampleMean_eq_meanZ t.qubits (s0 :: rest) hb, sampleMean_basis t.qubits b (s0 :: rest) (by simp) hall,
    paritySign_eq _ _ (fun q _ => getD_le_one b hbits q)]

/-! ### non-vacuity: concrete inputs meeting the hypotheses; the values are computed by the composed models -/

section examples
attribute [local instance] starConj

/-- integer Gaussian coefficients embedded in ℤ[i] (the ring of C09's examples, `C09.kG`) -/
def gqInt (c : GQ) : GaussianInt := ⟨c.re.num, c.im.num⟩
def exX : Mat GaussianInt := Mat.ofLists [[0, 1], [1, 0]]
/-- X on qubit 1 of a 2-qubit register: prepares |01⟩ (index 1) -/
def exCirc : C01.Circ GaussianInt := ⟨2, [.gate ⟨exX, [1]⟩]⟩
/-- 2·Z0 + 3·Z0Z1 + 4 (ops stored in descending order in the second term) -/
def exOp : Op := [⟨⟨2, 0⟩, [(0, .Z)]⟩, ⟨⟨3, 0⟩, [(1, .Z), (0, .Z)]⟩, ⟨⟨4, 0⟩, []⟩]
/-- a non-Ising operator with a Y and a gap: X0·Y2 on 3 qubits, coefficient 1+2i -/
def exOpXY : Op := [⟨⟨1, 2⟩, [(2, .Y), (0, .X)]⟩, ⟨⟨-3, 0⟩, []⟩]
def exTask : Task (C01.Circ GaussianInt) := ⟨exOp, exCirc, none⟩

example : ∀ t ∈ [exTask], ∀ op ∈ t.circuit.ops, C01.OperValid t.circuit.n op := by
  intro t ht op hop
  simp only [List.mem_singleton] at ht; subst ht
  simp only [exTask, exCirc, List.mem_singleton] at hop; subst hop
  exact ⟨by decide, by decide, by decide, rfl, rfl⟩
example : (∀ term ∈ exOp, term.qubits.Nodup) ∧ exOp.nQubits ≤ exCirc.n ∧ exOp.isIsing = true := by decide
/-- the theorems instantiated at the concrete input; the bundled `SymbolicSimulator` of C01 (everything
    native, native run = step-wise application, constructor checks passing) meets `hnative` / `hvalid` -/
example := exact_values_sparse C09.kG (by decide) gqInt id [exTask]
  (by intro t ht op hop
      simp only [List.mem_singleton] at ht; subst ht
      simp only [exTask, exCirc, List.mem_singleton] at hop; subst hop
      exact ⟨by decide, by decide, by decide, rfl, rfl⟩) (by decide) (by decide)
example := exact_values_sparse_any_simulator C09.kG (by decide) gqInt id (fun _ => true)
  (fun sub st => C01.applyAll sub.ops st) (fun _ => true) (fun _ _ => rfl) [exTask] (fun _ _ _ _ => rfl)
  (by intro t ht op hop
      simp only [List.mem_singleton] at ht; subst ht
      simp only [exTask, exCirc, List.mem_singleton] at hop; subst hop
      exact ⟨by decide, by decide, by decide, rfl, rfl⟩) (by decide) (by decide)
example : C09.kG.i * C09.kG.i = -1 ∧ C09.kG.cj = star := ⟨by decide, rfl⟩

/-- the composed models, EXECUTED on an operator with a complex coefficient, a constant and a Y
    (one Pauli per term: `List.mergeSort` of longer key lists does not reduce in the kernel):
    C01's step-wise simulation, C09's COO assembly, C15's estimator give
    2·(+1) + (3+i)·(−1) + 4 + 5·⟨01|Y1|01⟩ = 3 − i on |01⟩ -/
def exOp1 : Op := [⟨⟨2, 0⟩, [(0, .Z)]⟩, ⟨⟨3, 1⟩, [(1, .Z)]⟩, ⟨⟨4, 0⟩, []⟩, ⟨⟨5, 0⟩, [(1, .Y)]⟩]
example : exactValues (simWf stepSim) (sparseOpMat C09.kG gqInt) id [⟨exOp1, exCirc, none⟩] = .ok [[⟨3, -1⟩]] := by
  decide +kernel
/-- the same simulator through `Lift.applyAll`, empty circuit on 3 qubits: ⟨000|(1+2i)·X0 − 3|000⟩ = −3 -/
example : exactValues liftWf (sparseOpMat C09.kG gqInt) id
    [(⟨[⟨⟨1, 2⟩, [(0, .X)]⟩, ⟨⟨-3, 0⟩, []⟩], (3, []), none⟩ : Task (Nat × List (Lift.Op GaussianInt)))]
      = .ok [[⟨-3, 0⟩]] := by
  decide +kernel
/-- the guard: an operator wider than the register is a `ValueError` in the composed model too -/
example : exactValues (simWf stepSim) (sparseOpMat C09.kG gqInt) id
    [(⟨exOpXY, exCirc, none⟩ : Task (C01.Circ GaussianInt))] = .error .value := by
  decide +kernel

/-- the hypothesis `hprep` of `exact_basis_ising_circuit` / `basis_state_value_circuit` holds for
    `exCirc`: its circuit matrix sends |00⟩ to |01⟩ (index 1) -/
theorem exCirc_prepares_01 : specState exCirc.n exCirc.ops = fun a => if a.val = 1 then 1 else 0 := by
  obtain ⟨w, hw, _, _, hs⟩ := stepSim_spec exCirc.n exCirc.ops (by
    intro op hop
    simp only [exCirc, List.mem_singleton] at hop; subst hop
    exact ⟨by decide, by decide, by decide, rfl, rfl⟩)
  have hc : (C01.applyAll exCirc.ops (C01.zeroState exCirc.n)).map
      (fun w => [w.get 0 0, w.get 1 0, w.get 2 0, w.get 3 0]) = some [(0 : GaussianInt), 1, 0, 0] := by
    decide +kernel
  rw [hw] at hc
  simp only [Option.map_some, Option.some.injEq, List.cons.injEq, and_true] at hc
  obtain ⟨h0, h1, h2, h3⟩ := hc
  rw [← hs]
  funext a
  fin_cases a
  · simpa using h0
  · simpa using h1
  · simpa using h2
  · simpa using h3

/-- `exact_basis_ising_circuit` instantiated at the concrete task (every hypothesis discharged), with a
    two-qubit term stored in descending order: 2·(+1) + 3·(−1) + 4 = 3 -/
example : exactValue (simWf stepSim) (sparseOpMat C09.kG gqInt) id exTask = .ok ⟨3, 0⟩ := by
  rw [exact_basis_ising_circuit C09.kG (by decide) gqInt id exTask 1 (by decide)
    (by intro op hop
        simp only [exTask, exCirc, List.mem_singleton] at hop; subst hop
        exact ⟨by decide, by decide, by decide, rfl, rfl⟩)
    exCirc_prepares_01 (by decide) (by decide) (by decide)]
  decide +kernel
example : bitsOf 2 1 = [0, 1] ∧ zEigenvalue [0] [0, 1] = 1 ∧ zEigenvalue [1, 0] [0, 1] = -1 := by decide

/-- estimation by averaging with the runner of `runner_law_ampSupp_satisfiable` on the same circuit, 5 shots
    (hypotheses of `basis_state_value_circuit` / `basis_state_value_via_C10` met: `exCirc_prepares_01`) -/
example : estimateByAveraging (baseRunBatch firstOutcomeRun) [(⟨exOp, exCirc, some 5⟩ : Task (C01.Circ GaussianInt))]
    = .ok [some [⟨2, 0⟩, ⟨-3, 0⟩, ⟨4, 0⟩]] := by decide +kernel
example : (match C10.getExpectationValues (toShots (List.replicate 5 [0, 1])) (reTerms exOp) true with
    | .ok e => e.values | .error _ => []) = [2, -3, 4] := by decide +kernel

/-- C10 side: four shots on two qubits, an operator with a complex coefficient and a constant term -/
def exShots : Shots := [[0, 1], [1, 1], [0, 1], [1, 0]]
def exOp10 : Op := [⟨⟨2, 0⟩, [(0, .Z)]⟩, ⟨⟨1 / 2, 1⟩, [(0, .Z), (1, .Z)]⟩, ⟨⟨3, 0⟩, []⟩]

example : (∀ s ∈ exShots, s.length = 2) ∧ (∀ s ∈ exShots, ∀ x ∈ s, x ≤ 1) ∧
    (∀ t ∈ exOp10, ∀ q ∈ t.qubits, q < 2) ∧ (∀ t ∈ exOp10, t.qubits.Nodup) ∧ exOp10.isIsing = true := by decide
example : measuredValue exOp10 exShots = .ok [⟨0, 0⟩, ⟨-1 / 4, 0⟩, ⟨3, 0⟩] := by decide +kernel
example : (match C10.getExpectationValues (toShots exShots) (reTerms exOp10) false with
    | .ok e => e.values | .error _ => []) = [0, -1 / 4, 3] := by decide +kernel
example := measured_value_reported_via_C10 exOp10 [0, 1] [[1, 1], [0, 1], [1, 0]] 2 true (by decide) (by decide)
  (by decide) (by decide) (by decide) (by decide)

/-- negative witness for `hw : 0 < w`: on zero-width shots the two models of
    `get_expectation_values` DIFFER in the exception (C10: `ValueError` from `reshape(-1, 0)`, the
    behaviour of the real code and a known finding of C10; C15's inline model: `IndexError`), and on a
    constant-only operator C15's inline model even reports the coefficient. -/
example : measuredValue [⟨⟨3, 0⟩, []⟩, ⟨⟨1, 0⟩, [(0, .Z)]⟩] [[], []] = .error .index ∧
    (match C10.getExpectationValues (R := Rat) (toShots [[], []]) (reTerms [⟨⟨3, 0⟩, []⟩, ⟨⟨1, 0⟩, [(0, .Z)]⟩]) false with
      | .ok _ => none | .error e => some e) = some C10.Err.value ∧
    measuredValue [⟨⟨3, 0⟩, []⟩] [[], []] = .ok [⟨3, 0⟩] := by decide +kernel

end examples

end OQ.C15.Link
