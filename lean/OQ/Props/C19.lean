/-
  C19 — PROPERTY THEOREMS: translating symbolic expressions preserves their value; constructs outside the
  supported set are refused; the natural sort keys order embedded integers numerically.
  Model: OQ/Model/C19.lean.  Helper lemmas: OQ/Lemmas/C19.lean.

  Reading guide.  `SExpr` is what the dispatcher of `expression_from_sympy` sees (`type(e)`, `e.args`);
  `fromSympy` is that function, `translate` is `translate_expression`, `sympyDialect` is `SYMPY_DIALECT`
  over an arbitrary carrier `V` of the operations it names; `pipeline o e` is the whole round trip.
  `evalS S e` is the number the sympy expression `e` denotes in a field `V` under the interpretation `S`
  (`S.rho` = the assignment of the symbols, `S.pw` = `**`, `S.sq` = `sqrt`, `S.app` = function application,
  `S.iu` = the imaginary unit), and `fieldOps S` interprets the dialect's callables the same way.
  Two facts about sympy enter as hypotheses: `1/y` is `y ** (-1)` (`hinv`) and `sqrt(y)` is `y ** (1/2)` (`hsqrt`).
-/
import OQ.Lemmas.C19
namespace OQ.C19
variable {V : Type} [Field V]

/-- **Sentence 1** (value preservation), at full strength: for EVERY expression of the supported grammar
    (symbols, integers, floats, rationals, `I`, Python numbers, sums, products – hence differences and
    quotients as sympy stores them –, powers, roots, cos/sin/exp/tan; any depth, any operand order) and
    EVERY assignment `S.rho` of its symbols, the round trip
    `translate_expression(expression_from_sympy(e), SYMPY_DIALECT)` succeeds and denotes the same number.
    The four special cases (subtraction, division, reciprocal, sqrt) are covered whenever they fire. -/
theorem translate_fromSympy_eval (S : Sem V)
    (hinv : ∀ v, S.pw v ((-1 : ℚ) : V) = v⁻¹) (hsqrt : ∀ v, S.sq v = S.pw v ((1/2 : ℚ) : V))
    (e : SExpr) (h : supported e = true) :
    pipeline (fieldOps S) e = .ok (evalS S e) := by
  obtain ⟨t, h1, h2⟩ := fromF_sound S negMul negMul_law (negMul_val S) hinv hsqrt (e.size + 1) e h (by omega)
  simp [pipeline, fromSympy, h1, h2]

/-- Sentence 1 in the intended interpretation: over ℂ with the principal-branch power `a ^ b`
    (`sqrt a = a ^ (1/2)`, `1/a = a ^ (-1)` are then theorems of Mathlib, not hypotheses), for every
    assignment `rho` and every interpretation of the elementary functions, the round trip of a supported
    expression evaluates to the same complex number. -/
theorem translate_fromSympy_eval_complex (rho : String → ℂ) (app : Bool → String → List ℂ → ℂ)
    (ext : String → ℂ) (e : SExpr) (h : supported e = true) :
    pipeline (fieldOps (complexSem rho app ext)) e = .ok (evalS (complexSem rho app ext) e) :=
  translate_fromSympy_eval _ (complexSem_laws rho app ext).1 (complexSem_laws rho app ext).2 e h

/-- Sentence 1 does not depend on how sympy happens to print `expr * (-1)`: the same holds for the
    converter run with ANY negation that satisfies the stated laws (value negation, no growth, closure of
    the grammar), with any sufficient fuel. -/
theorem translate_fromSympy_eval_any_negation (S : Sem V) (neg : SExpr → SExpr)
    (hl : NegLaw neg) (hv : NegVal neg S)
    (hinv : ∀ v, S.pw v ((-1 : ℚ) : V) = v⁻¹) (hsqrt : ∀ v, S.sq v = S.pw v ((1/2 : ℚ) : V))
    (fuel : Nat) (e : SExpr) (h : supported e = true) (hf : e.size < fuel) :
    ∃ t, fromF neg fuel e = .ok t ∧ translate (sympyDialect (fieldOps S)) t = .ok (evalS S e) :=
  fromF_sound S neg hl hv hinv hsqrt fuel e h hf

/-- the errors of the model are Python's: the recursion fuel of the model is never exhausted, so every
    refusal below is a `NotImplementedError`, `ValueError` or `TypeError` of the real code path -/
theorem fromSympy_total (e : SExpr) : fromSympy e ≠ .error .fuel :=
  fromF_no_fuel negMul negMul_law (e.size + 1) e (by omega)

/-- **Sentence 2** (refusal), PARTIAL.  An expression containing a construct outside the supported set
    (a node type the dispatcher does not know – `pi`, `E`, `zoo`, matrices, derivatives, strings … –, a
    function other than cos/sin/exp/tan, a wrong number of arguments, an empty sum or product) is refused
    with an error: the round trip produces no translation at all.
    MISSING (and false of the code, see the negative witnesses below): (i) an application of a function
    whose printed name is one of the arithmetic dialect keys add/mul/div/sub/pow/sqrt, or of an
    UNDEFINED function printing as cos/sin/exp/tan – e.g. `Function('add')(x, y)` – is NOT refused but
    translated to the operation of that name (the dispatcher only looks at `str(e.func)`); (ii) the sympy number objects `oo`, `-oo`, `nan` are handed through unchanged instead of
    being refused.  `clean e` excludes exactly these two classes. -/
theorem unsupported_refused_partial (S : Sem V) (e : SExpr) (hu : supported e = false)
    (hc : clean e = true) : ∃ err, pipeline (fieldOps S) e = .error err := by
  cases hp : pipeline (fieldOps S) e with
  | error err => exact ⟨err, rfl⟩
  | ok v =>
    exfalso
    simp only [pipeline] at hp
    cases hf : fromSympy e with
    | error err => simp [hf] at hp
    | ok t =>
      simp only [hf] at hp
      have := fromF_ok_supported S negMul negMul_law (e.size + 1) e t v hf hp hc
      simp [this] at hu

/-- consequence of both sentences: whenever the round trip yields a translation of an expression free of
    the two excluded classes, that translation has the value of the original – nothing is ever
    "translated to something else" -/
theorem pipeline_ok_value (S : Sem V)
    (hinv : ∀ v, S.pw v ((-1 : ℚ) : V) = v⁻¹) (hsqrt : ∀ v, S.sq v = S.pw v ((1/2 : ℚ) : V))
    (e : SExpr) (hc : clean e = true) (v : V) (h : pipeline (fieldOps S) e = .ok v) :
    v = evalS S e := by
  have hs : supported e = true := by
    by_contra hn
    obtain ⟨err, he⟩ := unsupported_refused_partial S e (by simpa using hn) hc
    rw [he] at h; cases h
  rw [translate_fromSympy_eval S hinv hsqrt e hs] at h
  cases h; rfl

/-- a node the dispatcher does not know is refused by `expression_from_sympy` itself, whatever surrounds
    it on the path from the root through sums, products (not in a special-case position), powers' bases
    and function arguments: here for the root, the general statement is `unsupported_refused_partial` -/
theorem unknown_node_notimpl (tag : String) : fromSympy (.other tag) = .error .notimpl := rfl

/-- a function name outside the dialect table is refused by `translate_expression` with a ValueError
    before its arguments are even looked at – for EVERY dialect, not only the sympy one -/
theorem unknown_function_value {α : Type} (D : Dialect α) (name : String) (args : List NExpr)
    (h : D.known name = none) : translate D (.call name args) = .error .value := by
  simp [translate, h]

/-- **Sentence 3** (natural order), at full strength: two names that differ only in one embedded digit
    group – `pfx ++ d₁ ++ sfx` and `pfx ++ d₂ ++ sfx`, the group maximal (pfx does not end and sfx does
    not start with a digit), any prefix and suffix (which may contain further digit groups), any digit
    strings (leading zeros allowed) – have keys that compare exactly as the integers the groups denote. -/
theorem naturalKey_numeric (pfx sfx d₁ d₂ : List Char)
    (hp : NoTrailingDigit pfx) (hs : NoLeadingDigit sfx)
    (h₁ : d₁ ≠ []) (h₁' : ∀ c ∈ d₁, isDig c = true) (h₂ : d₂ ≠ []) (h₂' : ∀ c ∈ d₂, isDig c = true) :
    cmpKey (naturalKey (pfx ++ d₁ ++ sfx)) (naturalKey (pfx ++ d₂ ++ sfx)) =
      some (compare (valDigits d₁) (valDigits d₂)) := by
  obtain ⟨A, B, h⟩ := naturalKey_decomp pfx sfx hp hs
  rw [h d₁ h₁ h₁', h d₂ h₂ h₂', cmpKey_append_left, cmpKey_num]

/-- … in the form of the property text: with the decimal numerals of `m` and `n` embedded,
    the first name sorts strictly before the second iff `m < n` (beta_2 before beta_10) -/
theorem naturalKey_numeric_decimal (pfx sfx : List Char) (m n : Nat)
    (hp : NoTrailingDigit pfx) (hs : NoLeadingDigit sfx) :
    cmpKey (naturalKey (pfx ++ decimal m ++ sfx)) (naturalKey (pfx ++ decimal n ++ sfx)) = some .lt
      ↔ m < n := by
  obtain ⟨v1, d1, n1⟩ := decimal_spec m
  obtain ⟨v2, d2, n2⟩ := decimal_spec n
  rw [naturalKey_numeric pfx sfx _ _ hp hs n1 d1 n2 d2, v1, v2]
  simp [Nat.compare_eq_lt]

/-- the keys never raise: every natural key (and every reversed key) has the shape
    text, (number, text)*, so Python's list comparison only ever compares str with str and int with
    int – the keys define an order on ALL names -/
theorem naturalKey_comparable (a b : List Char) :
    cmpKey (naturalKey a) (naturalKey b) ≠ none ∧
    cmpKey (naturalKeyRevlex a) (naturalKeyRevlex b) ≠ none :=
  ⟨cmpKey_shape _ _ (naturalKey_shape a) (naturalKey_shape b),
   cmpKey_shape _ _ (oddShape_reverse _ (naturalKey_shape a)) (oddShape_reverse _ (naturalKey_shape b))⟩

/-- `natural_key_revlex`: for names `stem ++ number` the reversed key orders by the number first and by
    the stem only among equal numbers (beta_1 < theta_1 < beta_2 < theta_2) -/
theorem naturalKeyRevlex_order (a b d₁ d₂ : List Char)
    (ha : ∀ c ∈ a, isDig c = false) (hb : ∀ c ∈ b, isDig c = false)
    (h₁ : d₁ ≠ []) (h₁' : ∀ c ∈ d₁, isDig c = true) (h₂ : d₂ ≠ []) (h₂' : ∀ c ∈ d₂, isDig c = true) :
    cmpKey (naturalKeyRevlex (a ++ d₁)) (naturalKeyRevlex (b ++ d₂)) =
      some (if valDigits d₁ = valDigits d₂ then cmpChars a b else compare (valDigits d₁) (valDigits d₂)) := by
  unfold naturalKeyRevlex
  rw [naturalKey_stem a d₁ ha h₁ h₁', naturalKey_stem b d₂ hb h₂ h₂']
  by_cases hv : valDigits d₁ = valDigits d₂
  · by_cases hab : a = b
    · subst hab; simp [cmpKey, hv, cmpChars_refl]
    · simp [cmpKey, cmpItem, hv, hab]
  · simp [cmpKey, cmpItem, hv]

/-! ### non-vacuity and negative witnesses (concrete inputs, evaluated by the kernel) -/

private def x : SExpr := .symbol "x"
private def y : SExpr := .symbol "y"

-- x - y*z, 1/(x+y), sqrt(x), cos(x/y): supported, and the special cases fire
example : supported (.add [x, .mul [.integer (-1), y, .symbol "z"]]) = true := by decide
example : fromSympy (.add [x, .mul [.integer (-1), y, .symbol "z"]]) =
    .ok (.call "sub" [.sym "x", .call "mul" [.sym "y", .sym "z"]]) := rfl
example : fromSympy (.mul [x, .pow y (.integer (-1))]) = .ok (.call "div" [.sym "x", .sym "y"]) := rfl
example : fromSympy (.pow (.add [x, y]) (.float (-1))) =
    .ok (.call "div" [.num (.int 1), .call "add" [.sym "x", .sym "y"]]) := rfl
example : fromSympy (.pow x (.rational (1/2))) = .ok (.call "sqrt" [.sym "x"]) := by
  have h : isHalf (.rational (1/2)) = true ∧ isNegOne (.rational (1/2)) = false := by decide +kernel
  simp only [fromSympy, fromF, x, h.1, h.2]
  simp [call1, SExpr.size, fromF]
example : fromSympy (.add [y, .mul [.float (-1), x]]) =
    .ok (.call "sub" [.sym "y", .call "mul" [.num (.flt 1), .sym "x"]]) := rfl
example : supported (.func false "cos" [.mul [x, .pow y (.integer (-1))]]) = true := by decide
example : pipeline natOps (.add [x, .mul [.integer (-1), .integer 2]]) = .ok 3 := rfl
-- the hypotheses hinv / hsqrt are satisfiable (ℚ with a power that knows the two exponents)
example : ∃ S : Sem ℚ, (∀ v, S.pw v ((-1 : ℚ) : ℚ) = v⁻¹) ∧ (∀ v, S.sq v = S.pw v ((1/2 : ℚ) : ℚ)) :=
  ⟨{ iu := 0, pw := fun v e => if e = -1 then v⁻¹ else 0,
     sq := fun v => if ((1/2 : ℚ) : ℚ) = -1 then v⁻¹ else 0, app := fun _ _ _ => 0,
     ext := fun _ => 0, rho := fun _ => 0 }, by intro v; simp, by intro v; rfl⟩
-- refusals
example : supported (.add [x, .other "Pi"]) = false ∧ clean (.add [x, .other "Pi"]) = true := by decide
example : pipeline natOps (.add [x, .other "Pi"]) = .error .notimpl := rfl
example : pipeline natOps (.func false "sinh" [x]) = .error .value := rfl
example : pipeline natOps (.func false "cos" [x, y]) = .error .type := rfl
-- NEGATIVE WITNESSES for the missing part of sentence 2 (the model reproduces the code):
-- the undefined function add(x, y) is outside the supported set, yet it is translated to x + y …
example : supported (.func true "add" [x, y]) = false ∧ pipeline natOps (.func true "add" [x, y]) = .ok 10 :=
  ⟨by decide, rfl⟩
-- … likewise an undefined function that prints as "cos" is translated to the genuine cosine …
example : supported (.func true "cos" [x]) = false ∧
    fromSympy (.func true "cos" [x]) = fromSympy (.func false "cos" [x]) := ⟨by decide, rfl⟩
-- … and `oo` is handed through as a "number"
example : supported (.numOther "oo") = false ∧ fromSympy (.numOther "oo") = .ok (.num (.ext "oo")) :=
  ⟨by decide, rfl⟩
-- keys
example : naturalKey "beta_10".toList = [.s "beta_".toList, .n 10, .s []] := by decide
example : cmpKey (naturalKey "beta_2".toList) (naturalKey "beta_10".toList) = some .lt := by decide
example : cmpKey (naturalKey "beta_10".toList) (naturalKey "theta_1".toList) = some .lt := by decide
example : decimal 10 = "10".toList ∧ decimal 0 = "0".toList ∧ decimal 2024 = "2024".toList := by decide
example : NoTrailingDigit "beta_".toList ∧ NoLeadingDigit ([] : List Char) := by
  constructor <;> intro c h <;> simp at h; subst h; decide
example : cmpKey (naturalKeyRevlex "theta_1".toList) (naturalKeyRevlex "beta_2".toList) = some .lt := by decide

end OQ.C19
