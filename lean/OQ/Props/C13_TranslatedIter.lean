/- C13 — PROPERTY THEOREMS (translation ties): the iterator / generator / count-dictionary functions of
   `circuits/_itertools.py`: `_iterate_in_batches`, `split_into_batches`, `_combine_measurements`, `combine_measurement_counts`,
   `combine_bitstrings`.  The definitions `OQ.Generated.Translated.*` are REGENERATED from /repo's current Python source on every run
   (harness/translate_t2.py → OQ/Generated/TranslatedC13.lean); an edit of a Python function changes its definition and the equalities
   below stop checking at build time.

   Reading of the translated definitions (harness/translate_t2.py's docstring has the details):
   * `none` = the Python call raises (`ValueError` of the guards, `ValueError` of `islice` with a negative count, `TypeError` of `reduce`
     on an empty group) — or the declared fuel of a `while` loop ran out; the ties `… = some …` below show that the latter never happens.
   * LAZINESS IS NOT MODELLED: a generator (function or expression) is the list of everything it yields when run to its end; an
     exception raised at the first `next()` counts as an exception of the call.
   * circuits / bitstring lists are opaque (`α`), dictionary keys are a type `κ` with `[BEq κ]` (key equality is a parameter); count
     dictionaries are insertion-ordered association lists (`OQ.Py.Dict κ Int`), multiplicities and counts are Python ints (`Int`).
   The model (`OQ/Model/C13.lean`) has natural-number multiplicities and counts (`Counts = List (String × Nat)`): the ties to it are
   stated through the embeddings `Int.ofNat` / `Counts.toPy`, which cover every non-negative input; what Python does on negative
   multiplicities (it raises) is proved separately (`…_neg`), and the statements about totals (`translated_combine_measurements_total`,
   `translated_combine_totals`) are proved directly on the translated code for ALL int counts (negative ones included) and every key type. -/
import OQ.Lemmas.C13_Iter
import OQ.Props.C13
namespace OQ.C13
open OQ.Generated OQ.Py

/-! ### `_iterate_in_batches` -/

/-- TRANSLATION TIE: the generator `_iterate_in_batches(items, batch_size)` (`it = iter(items)`,
    `while chunk := tuple(islice(it, batch_size)): yield chunk`) regenerated from the current Python source yields exactly the model's
    `chunks` – for EVERY list of items and every positive batch size.  In particular the declared fuel `len(items) + 1` suffices (the
    result is `some …`).  Domain: `batch_size > 0`; the other two cases are the next two theorems. -/
theorem translated_iterate_in_batches_eq {α : Type} (items : List α) (k : Int) (hk : 0 < k) :
    Translated.iterate_in_batches items k = some (chunks k.toNat items.length items) := by
  unfold Translated.iterate_in_batches
  have h := whileFuel_batches k hk (items.length + 1) items [] items.length (by omega) (le_refl _)
  have e : (Int.toNat (((items.length : Nat) : Int) + (1 : Int))) = items.length + 1 := by omega
  simp only [e]
  show (whileFuel (batchStep k) (items.length + 1) (items, [])).bind _ = _
  rw [h]; rfl

/-- `batch_size = 0`: `islice(it, 0)` yields nothing, the first chunk is empty and the loop ends at once – no batch at all,
    whatever the items (as CPython does; checked by `translated_check`). -/
theorem translated_iterate_in_batches_zero {α : Type} (items : List α) :
    Translated.iterate_in_batches items 0 = some [] := by
  unfold Translated.iterate_in_batches
  have e : (Int.toNat (((items.length : Nat) : Int) + (1 : Int))) = items.length + 1 := by omega
  simp only [e]
  show (whileFuel (batchStep 0) (items.length + 1) (items, [])).bind _ = _
  simp [whileFuel, batchStep, islice]

/-- `batch_size < 0`: `islice` raises `ValueError` (at the first `next()` of the generator in Python). -/
theorem translated_iterate_in_batches_neg {α : Type} (items : List α) (k : Int) (hk : k < 0) :
    Translated.iterate_in_batches items k = none := by
  unfold Translated.iterate_in_batches
  have e : (Int.toNat (((items.length : Nat) : Int) + (1 : Int))) = items.length + 1 := by omega
  simp only [e]
  show (whileFuel (batchStep k) (items.length + 1) (items, [])).bind _ = _
  simp [whileFuel, batchStep, islice, hk]

/-! ### `split_into_batches` -/

/-- TRANSLATION TIE: `split_into_batches` (both guards, the two generators, the `zip`, `max(samples_chunk)` inside the returned generator
    expression) regenerated from the current Python source IS the model's `splitIntoBatches` – for ALL inputs, no hypothesis: `none`
    exactly when Python raises (mismatched lengths, `max_batch_size ≤ 0`), the same list of `(chunk, max)` pairs otherwise
    (`max` of a chunk never sees an empty tuple, so its `ValueError` cannot occur). -/
theorem translated_split_into_batches_eq {α : Type} (cs : List α) (ns : List Int) (mb : Int) :
    Translated.split_into_batches cs ns mb = splitIntoBatches cs ns mb := by
  unfold Translated.split_into_batches splitIntoBatches
  by_cases h1 : cs.length = ns.length
  · by_cases h2 : mb ≤ 0
    · simp [h1, h2]
    · have hpos : 0 < mb := by omega
      have hne : ∀ c ∈ chunks mb.toNat ns.length ns, c ≠ [] := by
        intro c hc
        have := (chunks_bounds mb.toNat (by omega) ns.length ns c hc).1
        intro h; rw [h] at this; simp at this
      simp only [h1, bne_self_eq_false, Bool.false_eq_true, if_false, h2, decide_false, ne_eq, not_true_eq_false,
        translated_iterate_in_batches_eq _ _ hpos, Option.bind_some]
      rw [← h1]
      have := mapOpt_zip_max (chunks mb.toNat cs.length cs) (chunks mb.toNat cs.length ns) (by rw [h1]; exact hne)
      exact (congrArg (fun o => Option.bind o (fun t => some t)) this).trans rfl
  · have h1' : ((cs.length : Nat) : Int) ≠ ((ns.length : Nat) : Int) := by omega
    simp [h1, h1']

/-- END-TO-END (`batches_reject_iff` on the translated code): the code as it is now raises exactly on mismatched lengths or a
    non-positive maximum. -/
theorem translated_batches_reject_iff {α : Type} (cs : List α) (ns : List Int) (mb : Int) :
    Translated.split_into_batches cs ns mb = none ↔ (cs.length ≠ ns.length ∨ mb ≤ 0) := by
  rw [translated_split_into_batches_eq]; exact batches_reject_iff cs ns mb

/-- END-TO-END (`batches_accept` on the translated code): what an accepted call returns, unpacked – the circuit chunks, and the maxima
    of the sample chunks. -/
theorem translated_batches_accept {α : Type} (cs : List α) (ns : List Int) (mb : Int) (bs : List (List α × Int))
    (h : Translated.split_into_batches cs ns mb = some bs) :
    cs.length = ns.length ∧ 0 < mb ∧ bs.map (fun b => b.1) = chunks mb.toNat cs.length cs ∧
      bs.map (fun b => b.2) = (chunks mb.toNat cs.length ns).map listMax := by
  rw [translated_split_into_batches_eq] at h
  have hn : splitIntoBatches cs ns mb ≠ none := by rw [h]; simp
  have hr := (not_congr (batches_reject_iff cs ns mb)).mp hn
  have h1 : cs.length = ns.length := by by_contra hc; exact hr (Or.inl hc)
  have h2 : 0 < mb := by by_contra hc; exact hr (Or.inr (by omega))
  obtain ⟨ha, hl⟩ := batches_accept cs ns mb h1 h2
  rw [ha, ← h1] at h
  have hbs := (Option.some.inj h).symm
  have hlen : (chunks mb.toNat cs.length cs).length = ((chunks mb.toNat cs.length ns).map listMax).length := by
    rw [List.length_map]; rw [← h1] at hl; simpa using congrArg List.length hl
  refine ⟨h1, h2, ?_, ?_⟩
  · rw [hbs]; exact List.map_fst_zip (le_of_eq hlen)
  · rw [hbs]; exact List.map_snd_zip (le_of_eq hlen.symm)

/-- END-TO-END (`batches_cover` on the translated code): the batches the code returns cover every circuit exactly once, in order. -/
theorem translated_batches_cover {α : Type} (cs : List α) (ns : List Int) (mb : Int) (bs : List (List α × Int))
    (h : Translated.split_into_batches cs ns mb = some bs) : (bs.map (fun b => b.1)).flatten = cs := by
  obtain ⟨_, h2, h3, _⟩ := translated_batches_accept cs ns mb bs h
  rw [h3]; exact batches_cover cs mb h2

/-- END-TO-END (`batches_size` on the translated code): every returned batch is non-empty and never exceeds `max_batch_size`. -/
theorem translated_batches_size {α : Type} (cs : List α) (ns : List Int) (mb : Int) (bs : List (List α × Int))
    (h : Translated.split_into_batches cs ns mb = some bs) :
    ∀ b ∈ bs, 1 ≤ b.1.length ∧ (b.1.length : Int) ≤ mb := by
  obtain ⟨_, h2, h3, _⟩ := translated_batches_accept cs ns mb bs h
  intro b hb
  have : b.1 ∈ chunks mb.toNat cs.length cs := by rw [← h3]; exact List.mem_map_of_mem hb
  exact batches_size cs mb h2 b.1 this

/-- END-TO-END (`batches_samples_ge` on the translated code, pointwise): circuit `i` is element `i % max_batch_size` of batch
    `i / max_batch_size`, and that batch requests at least the `n_samples_per_circuit[i]` samples the circuit asked for. -/
theorem translated_batches_samples_ge {α : Type} (cs : List α) (ns : List Int) (mb : Int) (bs : List (List α × Int))
    (h : Translated.split_into_batches cs ns mb = some bs) (i : Nat) (hi : i < cs.length) :
    ∃ b, bs[i / mb.toNat]? = some b ∧ b.1[i % mb.toNat]? = cs[i]? ∧ ∀ n, ns[i]? = some n → n ≤ b.2 := by
  obtain ⟨h1, h2, h3, h4⟩ := translated_batches_accept cs ns mb bs h
  have hk : 0 < mb.toNat := by omega
  obtain ⟨c, hc1, hc2⟩ := chunks_index mb.toNat hk cs.length cs i (le_refl _) hi
  obtain ⟨s, hs1, hs2⟩ := chunks_index mb.toNat hk cs.length ns i (by omega) (by omega)
  have e1 : (bs.map (fun b => b.1))[i / mb.toNat]? = some c := by rw [h3]; exact hc1
  have e2 : (bs.map (fun b => b.2))[i / mb.toNat]? = some (listMax s) := by rw [h4, List.getElem?_map, hs1]; rfl
  rw [List.getElem?_map] at e1 e2
  cases hb : bs[i / mb.toNat]? with
  | none => rw [hb] at e1; simp at e1
  | some b =>
    rw [hb] at e1 e2
    simp only [Option.map_some, Option.some.injEq] at e1 e2
    refine ⟨b, rfl, by rw [e1]; exact hc2, ?_⟩
    intro n hn
    rw [e2]
    have : n ∈ s := by
      rw [← hs2] at hn
      exact List.mem_of_getElem? hn
    exact listMax_ge s n this

/-! ### `_combine_measurements` -/

/-- TRANSLATION TIE: `_combine_measurements` (`Counter(first)`, `result[bitstring] += count` over `second.items()`, `dict(result)`)
    regenerated from the current Python source is the model's `combineTwo`, entry by entry AND in the same key order (keys of `first`
    keep their positions, new keys of `second` are appended in `second`'s order) – for all count dictionaries with natural-number counts
    (`Counts.toPy` embeds the model's `String × Nat` entries into Python's `str × int`). -/
theorem translated_combine_measurements_eq (a b : Counts) :
    Translated.combine_measurements a.toPy b.toPy = (combineTwo a b).toPy := by
  unfold Translated.combine_measurements combineTwo
  show List.foldl (fun (st : Counter String) (p : String × Int) => dictSet st p.1 (counterGet st p.1 + p.2)) a.toPy b.toPy = _
  induction b generalizing a with
  | nil => rfl
  | cons p b ih =>
    have : Counts.toPy (p :: b) = (p.1, (p.2 : Int)) :: Counts.toPy b := rfl
    rw [this, List.foldl_cons, List.foldl_cons, dictSet_bump, ih]

/-- END-TO-END (`combineTwo_total` on the translated code, and for ALL int counts and every key type, negative counts included):
    merging two count dictionaries adds the totals – no shot is lost or invented. -/
theorem translated_combine_measurements_total {κ : Type} [BEq κ] (a b : Dict κ Int) :
    pyTotal (Translated.combine_measurements a b) = pyTotal a + pyTotal b := by
  unfold Translated.combine_measurements
  show pyTotal (List.foldl (fun (st : Counter κ) (p : κ × Int) => dictSet st p.1 (counterGet st p.1 + p.2)) a b) = _
  induction b generalizing a with
  | nil => simp [pyTotal]
  | cons p b ih =>
    rw [List.foldl_cons, ih, dictSet_add_total]
    simp only [pyTotal, List.map_cons, List.sum_cons]; omega

/-- ON THE TRANSLATED CODE, per outcome (any key type whose `==` is equality): the merged count of an outcome is its count in `first`
    plus everything `second` holds for it. -/
theorem translated_combine_measurements_get {κ : Type} [BEq κ] [LawfulBEq κ] (a b : Dict κ Int) (k : κ) :
    counterGet (Translated.combine_measurements a b) k
      = counterGet a k + ((b.filter (fun p => p.1 == k)).map (fun p => p.2)).sum := by
  unfold Translated.combine_measurements
  show counterGet (List.foldl (fun (st : Counter κ) (p : κ × Int) => dictSet st p.1 (counterGet st p.1 + p.2)) a b) k = _
  induction b generalizing a with
  | nil => simp
  | cons p b ih =>
    rw [List.foldl_cons, ih, counterGet_dictSet]
    by_cases h : p.1 = k
    · subst h; simp; omega
    · simp [h]

/-! ### `combine_measurement_counts` -/

/-- TRANSLATION TIE of the expression `reduce(_combine_measurements, group)`: the model's `reduceCombine`; an EMPTY group (multiplicity 0)
    is `none` on both sides – Python's `reduce() of empty iterable with no initial value` (TypeError). -/
theorem translated_reduce_combine_eq (g : List Counts) :
    reduce1 Translated.combine_measurements (g.map Counts.toPy) = (reduceCombine g).map Counts.toPy := by
  cases g with
  | nil => rfl
  | cons c cs =>
    simp only [List.map_cons, reduce1, reduceCombine, Option.map_some]
    congr 1
    induction cs generalizing c with
    | nil => rfl
    | cons d ds ih => simp only [List.map_cons, List.foldl_cons, translated_combine_measurements_eq, ih]

/-- TRANSLATION TIE: `combine_measurement_counts` (the walrus length check, `iter`, the comprehension
    `[reduce(_combine_measurements, islice(measurements_it, multiplicity)) for multiplicity in multiplicities]` consuming ONE shared
    iterator) regenerated from the current Python source is the model's `combineCounts` – for all natural-number counts and
    multiplicities: `none` exactly when `len(all_measurements) ≠ sum(multiplicities)` (ValueError) or some multiplicity is 0
    (`reduce` of an empty group: TypeError – multiplicity 0 IS an error of `combine_measurement_counts`, unlike `combine_bitstrings`). -/
theorem translated_combine_measurement_counts_eq (all : List Counts) (mults : List Nat) :
    Translated.combine_measurement_counts (all.map Counts.toPy) (mults.map Int.ofNat)
      = (combineCounts all mults).map (List.map Counts.toPy) := by
  unfold Translated.combine_measurement_counts combineCounts
  simp only [py_sum_ofNat, List.length_map]
  by_cases h : all.length = mults.sum
  · simp only [h, bne_self_eq_false, Bool.false_eq_true, if_false, ne_eq, not_true_eq_false]
    have := mapAccumOpt_islice (reduce1 (Translated.combine_measurements (κ := String))) mults (all.map Counts.toPy)
    rw [regroup_map, mapM_map_comm Counts.toPy Counts.toPy reduceCombine _ translated_reduce_combine_eq] at this
    exact this
  · have h' : ((all.length : Nat) : Int) ≠ ((mults.sum : Nat) : Int) := by omega
    simp [h, h']

/-- a NEGATIVE multiplicity always raises (the length check fails, or `islice` gets a negative count: ValueError) – the part of Python's
    domain the natural-number model cannot express. -/
theorem translated_combine_measurement_counts_neg {κ : Type} [BEq κ] (all : List (Dict κ Int)) (mults : List Int)
    (h : ∃ m ∈ mults, m < 0) : Translated.combine_measurement_counts all mults = none := by
  unfold Translated.combine_measurement_counts
  simp only
  split
  · rfl
  · have := mapAccumOpt_islice_neg (reduce1 (Translated.combine_measurements (κ := κ))) mults h all
    show (mapAccumOpt (groupStep (reduce1 Translated.combine_measurements)) all mults).bind _ = none
    rw [this]; rfl

/-- totals through `reduce(_combine_measurements, group)` on the translated code (all int counts, every key type) -/
theorem translated_reduce_total {κ : Type} [BEq κ] (g : List (Dict κ Int)) (out : Dict κ Int)
    (h : reduce1 Translated.combine_measurements g = some out) : pyTotal out = (g.map pyTotal).sum := by
  cases g with
  | nil => simp [reduce1] at h
  | cons c cs =>
    simp only [reduce1, Option.some.injEq] at h
    subst h
    induction cs generalizing c with
    | nil => simp
    | cons d ds ih =>
      simp only [List.foldl_cons, List.map_cons, List.sum_cons] at ih ⊢
      rw [ih, translated_combine_measurements_total]; omega

/-- END-TO-END (the "combine" half of C13 on the translated code, all int counts, every key type): whenever
    `combine_measurement_counts` returns, the i-th combined dictionary holds exactly the shots of the i-th group of consecutive
    measurements, and no shot is lost or invented overall. -/
theorem translated_combine_totals {κ : Type} [BEq κ] (all : List (Dict κ Int)) (mults : List Nat) (out : List (Dict κ Int))
    (h : Translated.combine_measurement_counts all (mults.map Int.ofNat) = some out) :
    all.length = mults.sum ∧ out.map pyTotal = (regroup all mults).map (fun g => (g.map pyTotal).sum) ∧
      (out.map pyTotal).sum = (all.map pyTotal).sum := by
  unfold Translated.combine_measurement_counts at h
  simp only [py_sum_ofNat] at h
  by_cases hl : all.length = mults.sum
  · simp only [hl, bne_self_eq_false, Bool.false_eq_true, if_false] at h
    have hm := mapAccumOpt_islice (reduce1 (Translated.combine_measurements (κ := κ))) mults all
    have h' : (mapAccumOpt (groupStep (reduce1 Translated.combine_measurements)) all (mults.map Int.ofNat)).bind
        (fun r => some r.1) = some out := h
    rw [hm] at h'
    have ht := mapM_sum_of _ pyTotal pyTotal translated_reduce_total _ _ h'
    refine ⟨hl, ht, ?_⟩
    rw [ht]
    have hf := regroup_flatten_of_sum mults all hl
    conv_rhs => rw [← hf]
    rw [List.map_flatten, List.sum_flatten, List.map_map]; rfl
  · have h' : ((all.length : Nat) : Int) ≠ ((mults.sum : Nat) : Int) := by omega
    simp [h'] at h

/-! ### `combine_bitstrings` -/

/-- TRANSLATION TIE: `combine_bitstrings` (`[sum(islice(bitstrings_it, multiplicity), start=[]) for multiplicity in multiplicities]`)
    regenerated from the current Python source is the model's `combineBitstrings` – for all lists of (opaque) bitstring lists and all
    natural-number multiplicities: `none` exactly when `len(all_bitstrings) ≠ sum(multiplicities)`; a multiplicity 0 yields an empty
    list here (no error, unlike the counts version). -/
theorem translated_combine_bitstrings_eq {α : Type} (all : List (List α)) (mults : List Nat) :
    Translated.combine_bitstrings all (mults.map Int.ofNat) = combineBitstrings all mults := by
  unfold Translated.combine_bitstrings combineBitstrings
  simp only [py_sum_ofNat]
  by_cases h : all.length = mults.sum
  · simp only [h, bne_self_eq_false, Bool.false_eq_true, if_false, ne_eq, not_true_eq_false]
    have := mapAccumOpt_islice (fun (g : List (List α)) => some (sumLists g)) mults all
    rw [mapM_some] at this
    have e : (regroup all mults).map sumLists = (regroup all mults).map (fun g => g.flatten) :=
      List.map_congr_left (fun g _ => sumLists_eq g)
    rw [← e, ← this]; rfl
  · have h' : ((all.length : Nat) : Int) ≠ ((mults.sum : Nat) : Int) := by omega
    simp [h, h']

/-- a NEGATIVE multiplicity always raises (length check or `islice`: ValueError). -/
theorem translated_combine_bitstrings_neg {α : Type} (all : List (List α)) (mults : List Int)
    (h : ∃ m ∈ mults, m < 0) : Translated.combine_bitstrings all mults = none := by
  unfold Translated.combine_bitstrings
  simp only
  split
  · rfl
  · have := mapAccumOpt_islice_neg (fun (g : List (List α)) => some (sumLists g)) mults h all
    show (mapAccumOpt (groupStep (fun (g : List (List α)) => some (sumLists g))) all mults).bind _ = none
    rw [this]; rfl

/-- END-TO-END (`combine_bitstrings_groups` on the translated code): the i-th result is the concatenation of the i-th group – every
    shot kept, in order. -/
theorem translated_combine_bitstrings_groups {α : Type} (gs : List (List (List α))) :
    Translated.combine_bitstrings gs.flatten ((gs.map List.length).map Int.ofNat) = some (gs.map List.flatten) := by
  rw [translated_combine_bitstrings_eq]; exact combine_bitstrings_groups gs

/-! non-vacuity: concrete inputs of the TRANSLATED definitions (accepting and rejecting) -/
example : Translated.iterate_in_batches ["a", "b", "c", "d", "e"] 2 = some [["a", "b"], ["c", "d"], ["e"]] := by decide
example : Translated.iterate_in_batches [1, 2, 3] 0 = some [] := by decide
example : Translated.iterate_in_batches [1, 2, 3] (-1) = none := by decide
example : Translated.split_into_batches ["a", "b", "c"] [5, 9, 2] 2 = some [(["a", "b"], 9), (["c"], 2)] := by decide
example : Translated.split_into_batches ["a", "b", "c"] [5, 9] 2 = none := by decide
example : Translated.split_into_batches ["a"] [5] 0 = none := by decide
example : Translated.combine_measurements [("00", 1), ("11", 2)] [("01", 4), ("00", 3)] = [("00", 4), ("11", 2), ("01", 4)] := by
  decide
example : Translated.combine_measurement_counts [[("0", 1)], [("1", 2)], [("0", 3)]] [1, 2]
    = some [[("0", 1)], [("1", 2), ("0", 3)]] := by decide
example : Translated.combine_measurement_counts [[("0", 1)]] [1, 0] = none := by decide
example : Translated.combine_measurement_counts [[("0", 1)]] [2] = none := by decide
example : Translated.combine_measurement_counts [[("0", 1)], [("1", 1)]] [3, -1] = none := by decide
example : Translated.combine_bitstrings [["00", "01"], ["1", "0"], ["0"]] [1, 2] = some [["00", "01"], ["1", "0", "0"]] := by
  decide
example : Translated.combine_bitstrings [["0"]] [1, 0] = some [["0"], []] := by decide
example : Translated.combine_bitstrings [["0"]] [2] = none := by decide

end OQ.C13
