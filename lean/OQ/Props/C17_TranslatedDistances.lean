/- C17 — PROPERTY THEOREMS (translation ties): the distances between outcome distributions – `distributions/mmd.py`
   (`compute_rbf_kernel`, `compute_multi_rbf_kernel`, `compute_mmd`), `clipped_negative_log_likelihood.py`,
   `jensen_shannon_divergence.py`, and `MeasurementOutcomeDistribution.get_number_of_subsystems` / `evaluate_distribution_distance` of
   `_measurement_outcome_distribution.py`.  The definitions `OQ.Generated.Translated.*` are REGENERATED from /repo's current Python source
   on every run (harness/translate_t16.py → OQ/Generated/TranslatedC17Distances.lean); an edit of a Python function changes its
   definition and the equalities below stop checking at build time, for every input.

   Reading of the translated definitions (harness/translate_t16.py's docstring has the details):
   * numbers are values of an abstract type `ν` with `[OQ.Py.PyNum ν]`.  The model's analytic definitions (`nllOf`, `jsdOf`, `mmdSingle`,
     `mmdMulti`, `quadForm`: OQ/Lemmas/C17.lean) are real valued, so the ties are stated at `ν = ℝ` (`realPyNum`: `==`, `<`, `<=` decided
     classically) on the real images `castD p` of the model's rational dictionaries.  FLOAT ROUNDING, nan / inf ARE NOT MODELLED.
   * EXTERNALS (parameters of the translated definitions): `np.exp` = `ext_exp`, `math.log` = `ext_log` – instantiated with Mathlib's
     `Real.exp` / `Real.log` in the ties, because the model is written with them.  Assumed of `math.log`: it raises ValueError exactly when its argument is not
     positive (`OQ.Py.mathLogE`, compared with CPython on every run).  `ext_set_order` = the order in which CPython iterates the set
     `set(target_keys).union(measured_keys)`; ASSUMED LAW (hypothesis `horder` of every theorem): it is a permutation of the elements.
   * an object of class MeasurementOutcomeDistribution is its attribute `distribution_dict`; in `evaluate_distribution_distance` an
     argument that is not such an object is `none` (only `isinstance` looks at it).
   * numpy: arrays are lists (of rows); each vectorised operation is ONE prelude function (`OQ.Py.np…`, compared with numpy on every
     run).  `1.0 / (2 * sigma)` raises ZeroDivisionError for a Python float / int `sigma == 0` (numpy scalars, for which the quotient
     is `inf` with a warning, are outside the modelled domain).  `try … except ZeroDivisionError: print; raise` is its body.
   * `.error c` = the Python call raises an exception of class `c` (value = ValueError, zeroDiv = ZeroDivisionError, type = TypeError,
     runtime = RuntimeError, index = IndexError). -/
import OQ.Lemmas.C17_TranslatedDistances
import OQ.Props.C17
import OQ.Props.C17_TranslatedDist
namespace OQ.C17
open OQ.Generated OQ.Py

/-! ### clipped negative log-likelihood, Jensen–Shannon -/

/-- TRANSLATION TIE: `compute_clipped_negative_log_likelihood` (the parameter lookup with default, the union of the two key sets, the
    loop with the two `get(…, 0)`, the clipping `max(epsilon, ·)`, `math.log`, the accumulation and the final sign) regenerated from the
    current Python source IS the model's `nllOf epsilon (pairData p q)` = −Σ p(k)·log max(ε, q(k)) over the union of the supports.
    Domain: all pairs of Python dicts (distinct keys) with rational values, every parameter dictionary (`epsOf par` is its "epsilon"
    entry, by default the double 1e-9), every iteration order of the set, provided every clipped value is positive (in particular
    whenever ε > 0) – the complement is `translated_nll_raises`. -/
theorem translated_nll_eq (order : List Key → List Key) (horder : ∀ l, (order l).Perm l)
    (par : OQ.Py.Dict (List Char) ℝ) (p q : Dict Key) (hp : p.keys.Nodup) (hq : q.keys.Nodup)
    (hpos : ∀ k ∈ unionKeys p q, 0 < max (epsOf par) ((q.getD k : Rat) : ℝ)) :
    Translated.compute_clipped_negative_log_likelihood Real.log order (castD p) (castD q) par =
      .ok (nllOf (epsOf par) (pairData p q)) := by
  unfold Translated.compute_clipped_negative_log_likelihood
  simp only [dictKeys_castD, setUnion_keys p q hp hq]
  rw [foldlE_nll _ (epsOf par) (fun k => ((p.getD k : Rat) : ℝ)) (fun k => ((q.getD k : Rat) : ℝ))
    (fun st k => by simp only [Int.cast_zero, dictGetD_castD]; rfl) _ _
    (fun k hk => hpos k ((horder _).mem_iff.1 hk))]
  simp only [Except.bind, negNum_real, Int.cast_zero, zero_add, nllOf, pairData, List.map_map, Function.comp_def]
  congr 2
  exact ((horder (unionKeys p q)).map _).sum_eq

/-- TRANSLATION TIE, the rest of the domain: when some outcome of the union has a non-positive clipped value (only possible with
    ε ≤ 0), `math.log` raises ValueError – whatever the iteration order. -/
theorem translated_nll_raises (order : List Key → List Key) (horder : ∀ l, (order l).Perm l)
    (par : OQ.Py.Dict (List Char) ℝ) (p q : Dict Key) (hp : p.keys.Nodup) (hq : q.keys.Nodup)
    (hbad : ∃ k ∈ unionKeys p q, ¬ 0 < max (epsOf par) ((q.getD k : Rat) : ℝ)) :
    Translated.compute_clipped_negative_log_likelihood Real.log order (castD p) (castD q) par = .error .value := by
  unfold Translated.compute_clipped_negative_log_likelihood
  simp only [dictKeys_castD, setUnion_keys p q hp hq]
  rw [foldlE_nll_error _ (epsOf par) (fun k => ((p.getD k : Rat) : ℝ)) (fun k => ((q.getD k : Rat) : ℝ))
    (fun st k => by simp only [Int.cast_zero, dictGetD_castD]; rfl) _ _
    (by obtain ⟨k, hk, hb⟩ := hbad; exact ⟨k, (horder _).mem_iff.2 hk, hb⟩)]
  rfl

/-- the tie for a positive clipping constant -/
theorem translated_nll_eq_of_pos (order : List Key → List Key) (horder : ∀ l, (order l).Perm l)
    (par : OQ.Py.Dict (List Char) ℝ) (hε : 0 < epsOf par) (p q : Dict Key) (hp : p.keys.Nodup) (hq : q.keys.Nodup) :
    Translated.compute_clipped_negative_log_likelihood Real.log order (castD p) (castD q) par =
      .ok (nllOf (epsOf par) (pairData p q)) :=
  translated_nll_eq order horder par p q hp hq (fun _ _ => lt_max_of_lt_left hε)

/-- TRANSLATION TIE: `compute_jensen_shannon_divergence` (two calls of the translated log-likelihood with the arguments exchanged,
    each halved, added) IS the model's `jsdOf`.  Domain: as `translated_nll_eq`, in both directions. -/
theorem translated_jsd_eq (order : List Key → List Key) (horder : ∀ l, (order l).Perm l)
    (par : OQ.Py.Dict (List Char) ℝ) (p q : Dict Key) (hp : p.keys.Nodup) (hq : q.keys.Nodup)
    (hpq : ∀ k ∈ unionKeys p q, 0 < max (epsOf par) ((q.getD k : Rat) : ℝ))
    (hqp : ∀ k ∈ unionKeys q p, 0 < max (epsOf par) ((p.getD k : Rat) : ℝ)) :
    Translated.compute_jensen_shannon_divergence Real.log order (castD p) (castD q) par = .ok (jsdOf (epsOf par) p q) := by
  unfold Translated.compute_jensen_shannon_divergence
  rw [translated_nll_eq order horder par p q hp hq hpq, translated_nll_eq order horder par q p hq hp hqp]
  simp only [bind_ok, Int.cast_ofNat, divE_real _ _ (two_ne_zero), jsdOf]

/-! ### squared MMD -/

/-- TRANSLATION TIE: `compute_rbf_kernel` on 1-d arrays of Python ints (`x[:, None] - y[None, :]`, `np.abs`, `** 2`, `astype(float)`,
    `gamma = 1.0 / (2 * sigma)`, `np.exp(-gamma * exponent)`) IS the matrix of the model's Gaussian kernel `gaussK (1 / (2σ))` –
    EVERY pair of arrays and every real `sigma`; ZeroDivisionError exactly for `sigma = 0`. -/
theorem translated_rbf_kernel_eq (x y : List Int) (σ : ℝ) :
    Translated.compute_rbf_kernel Real.exp x y σ =
      if σ = 0 then .error .zeroDiv
      else .ok (x.map fun a => y.map fun b => gaussK (1 / (2 * σ)) ((a : Int) : ℝ) ((b : Int) : ℝ)) := rbf_eq x y σ

/-- TRANSLATION TIE: `compute_multi_rbf_kernel` (the loop over `sigmas` adding one Gaussian kernel matrix each, the division by
    `len(sigmas)`) IS the matrix of the model's `multiK`.  Domain: every pair of arrays, every list of NON-ZERO sigmas (a zero raises
    ZeroDivisionError; for the empty list numpy returns nan – `0.0 / 0` – which is not modelled: the equation then holds with
    Lean's `x / 0 = 0` and says nothing about Python). -/
theorem translated_multi_rbf_kernel_eq (x y : List Int) (σs : List ℝ) (hσ : ∀ σ ∈ σs, σ ≠ 0) :
    Translated.compute_multi_rbf_kernel Real.exp x y σs =
      .ok (x.map fun a => y.map fun b => multiK (σs.map fun σ => 1 / (2 * σ)) ((a : Int) : ℝ) ((b : Int) : ℝ)) := multi_eq x y σs hσ

/-- TRANSLATION TIE: `compute_mmd` with a scalar `sigma` (the parameter lookup with default 1.0, the union of the key sets, the two value
    vectors, the integer codes `int("".join(map(str, item)), 2)`, the `hasattr(sigma, "__len__")` dispatch, the translated
    `compute_rbf_kernel`, `diff.dot(kernel_matrix.dot(diff))`) IS the model: `mmdSingle σ` of the model's `mmdData p q`, ValueError where
    an outcome has no base-2 code.  Domain: all pairs of Python dicts (distinct keys) whose outcomes have non-negative entries (for a
    negative entry Python reads a sign, e.g. `int("-1", 2) = -1`, the model has ValueError; the constructor never stores such keys),
    every parameter dictionary whose "sigma" (default 1.0) is a non-zero number, every iteration order. -/
theorem translated_mmd_single_eq (order : List Key → List Key) (horder : ∀ l, (order l).Perm l)
    (par : OQ.Py.Dict (List Char) (NumOrSeq ℝ)) (σ : ℝ) (hpar : sigmaOf par = .num σ) (hσ : σ ≠ 0)
    (p q : Dict Key) (hp : p.keys.Nodup) (hq : q.keys.Nodup) (hk : ∀ k ∈ unionKeys p q, ∀ e ∈ k, 0 ≤ e) :
    Translated.compute_mmd Real.exp order (castD p) (castD q) par =
      match mmdData p q with
      | .ok a => .ok (mmdSingle σ a)
      | .error _ => .error .value := by
  rw [compute_mmd_unfold order par p q hp hq, hpar]
  exact mmdTail_eq _ (gaussK (1 / (2 * σ))) (fun basis => by simp only [rbf_eq, hσ, if_false]) p q _ (horder _) hk

/-- TRANSLATION TIE: `compute_mmd` with a sequence of sigmas IS `mmdMulti σs` of the model's `mmdData p q`.  Domain: as
    `translated_mmd_single_eq`, the "sigma" entry a sequence of non-zero numbers (see `translated_multi_rbf_kernel_eq` for the empty one). -/
theorem translated_mmd_multi_eq (order : List Key → List Key) (horder : ∀ l, (order l).Perm l)
    (par : OQ.Py.Dict (List Char) (NumOrSeq ℝ)) (σs : List ℝ) (hpar : sigmaOf par = .seq σs) (hσ : ∀ σ ∈ σs, σ ≠ 0)
    (p q : Dict Key) (hp : p.keys.Nodup) (hq : q.keys.Nodup) (hk : ∀ k ∈ unionKeys p q, ∀ e ∈ k, 0 ≤ e) :
    Translated.compute_mmd Real.exp order (castD p) (castD q) par =
      match mmdData p q with
      | .ok a => .ok (mmdMulti σs a)
      | .error _ => .error .value := by
  rw [compute_mmd_unfold order par p q hp hq, hpar]
  exact mmdTail_eq _ (multiK (σs.map fun σ => 1 / (2 * σ))) (fun basis => multi_eq basis basis σs hσ) p q _ (horder _) hk

/-! ### `evaluate_distribution_distance` -/

/-- TRANSLATION TIE: `MeasurementOutcomeDistribution.get_number_of_subsystems` is the length of the first key; IndexError on the
    empty dictionary – every dictionary. -/
theorem translated_get_number_of_subsystems_eq (d : Dict Key) :
    Translated.mod_get_number_of_subsystems d = match d with
      | [] => .error .index
      | (k0, _) :: _ => .ok (k0.length : Int) := by
  unfold Translated.mod_get_number_of_subsystems
  cases d with
  | nil => rfl
  | cons a rest => obtain ⟨k0, v0⟩ := a; rfl

/-- TRANSLATION TIE: `evaluate_distribution_distance` (the two `isinstance` tests, the comparison of the numbers of subsystems, the
    comparison of the two `is_normalized`, the call of the distance function with the keyword arguments passed on) IS the hand-written
    `evalDistance` – EVERY pair of arguments (an object of another class is `none`), every distance function that returns or raises,
    every keyword-argument value, every `isclose` (values at `Rat`, as in the ties of `is_normalized`). -/
theorem translated_evaluate_distribution_distance_eq {κ ρ : Type} (ext : Rat → Rat → Bool) (t m : Option (Dict Key))
    (f : Dict Key → Dict Key → κ → Except Exc4 ρ) (kw : κ) :
    Translated.evaluate_distribution_distance ext t m f kw = evalDistance (fun x => ext x 1) t m f kw := by
  unfold Translated.evaluate_distribution_distance evalDistance
  cases t with
  | none => cases m <;> rfl
  | some t =>
    cases m with
    | none => rfl
    | some m =>
      simp only [translated_get_number_of_subsystems_eq, translated_is_normalized_eq]
      cases t with
      | nil => rfl
      | cons a t' =>
        cases m with
        | nil => rfl
        | cons b m' =>
          obtain ⟨kt, vt⟩ := a
          obtain ⟨km, vm⟩ := b
          simp only [bind_ok]
          by_cases h1 : kt.length = km.length
          · by_cases h2 : ext (Dict.total ((kt, vt) :: t')) 1 = ext (Dict.total ((km, vm) :: m')) 1
            · simp [h1, h2, bind_ok_right]
            · simp [h1, h2]
          · have : ¬ ((kt.length : Int) = (km.length : Int)) := fun e => h1 (by exact_mod_cast e)
            simp [h1, this]

/-! ### END-TO-END: the property's sentences on the translated code -/

/-- the NLL FORMULA ON THE TRANSLATED CODE: for a positive clipping constant the regenerated function returns
    −Σ_{k ∈ supp p ∪ supp q} p(k) · log max(ε, q(k)) – for every iteration order of the set. -/
theorem translated_nll_formula (order : List Key → List Key) (horder : ∀ l, (order l).Perm l)
    (par : OQ.Py.Dict (List Char) ℝ) (hε : 0 < epsOf par) (p q : Dict Key) (hp : p.keys.Nodup) (hq : q.keys.Nodup) :
    Translated.compute_clipped_negative_log_likelihood Real.log order (castD p) (castD q) par =
      .ok (-((unionKeys p q).map fun k => ((p.getD k : Rat) : ℝ) * Real.log (max (epsOf par) ((q.getD k : Rat) : ℝ))).sum) := by
  rw [translated_nll_eq_of_pos order horder par hε p q hp hq]
  simp [nllOf, pairData, List.map_map, Function.comp_def]

/-- `nll_ge_entropy` ON THE TRANSLATED CODE: what the regenerated `compute_clipped_negative_log_likelihood` returns is at least the
    target's entropy, up to the clipping constant: ≥ H(p) + (Σp − Σq) − |supp p ∪ supp q|·ε. -/
theorem translated_nll_ge_entropy (order : List Key → List Key) (horder : ∀ l, (order l).Perm l)
    (par : OQ.Py.Dict (List Char) ℝ) (hε : 0 < epsOf par) (p q : Dict Key) (hp : p.keys.Nodup) (hq : q.keys.Nodup)
    (hpv : ∀ a ∈ p, 0 ≤ a.2) (hqv : ∀ a ∈ q, 0 ≤ a.2) :
    ∃ v : ℝ, Translated.compute_clipped_negative_log_likelihood Real.log order (castD p) (castD q) par = .ok v ∧
      entropyOf p + ((p.total : ℝ) - (q.total : ℝ)) - ((unionKeys p q).length : ℝ) * epsOf par ≤ v :=
  ⟨_, translated_nll_eq_of_pos order horder par hε p q hp hq, nll_ge_entropy (epsOf par) hε p q hp hq hpv hqv⟩

/-- `jsd_symm` ON THE TRANSLATED CODE, for ALL inputs: exchanging the two distributions does not change what the regenerated
    `compute_jensen_shannon_divergence` does – the same value, or ValueError both ways (possible only with ε ≤ 0). -/
theorem translated_jsd_symm (order : List Key → List Key) (horder : ∀ l, (order l).Perm l)
    (par : OQ.Py.Dict (List Char) ℝ) (p q : Dict Key) (hp : p.keys.Nodup) (hq : q.keys.Nodup) :
    Translated.compute_jensen_shannon_divergence Real.log order (castD p) (castD q) par =
      Translated.compute_jensen_shannon_divergence Real.log order (castD q) (castD p) par := by
  by_cases hpq : ∀ k ∈ unionKeys p q, 0 < max (epsOf par) ((q.getD k : Rat) : ℝ)
  · by_cases hqp : ∀ k ∈ unionKeys q p, 0 < max (epsOf par) ((p.getD k : Rat) : ℝ)
    · rw [translated_jsd_eq order horder par p q hp hq hpq hqp, translated_jsd_eq order horder par q p hq hp hqp hpq, jsd_symm]
    · have hb : ∃ k ∈ unionKeys q p, ¬ 0 < max (epsOf par) ((p.getD k : Rat) : ℝ) := by simpa using hqp
      unfold Translated.compute_jensen_shannon_divergence
      rw [translated_nll_eq order horder par p q hp hq hpq, translated_nll_raises order horder par q p hq hp hb]
      simp only [bind_ok, Int.cast_ofNat, divE_real _ _ (two_ne_zero), bind_error]
  · have hb : ∃ k ∈ unionKeys p q, ¬ 0 < max (epsOf par) ((q.getD k : Rat) : ℝ) := by simpa using hpq
    unfold Translated.compute_jensen_shannon_divergence
    rw [translated_nll_raises order horder par p q hp hq hb]
    by_cases hqp : ∀ k ∈ unionKeys q p, 0 < max (epsOf par) ((p.getD k : Rat) : ℝ)
    · rw [translated_nll_eq order horder par q p hq hp hqp]
      simp only [bind_ok, Int.cast_ofNat, divE_real _ _ (two_ne_zero), bind_error]
    · have hb' : ∃ k ∈ unionKeys q p, ¬ 0 < max (epsOf par) ((p.getD k : Rat) : ℝ) := by simpa using hqp
      rw [translated_nll_raises order horder par q p hq hp hb']

/-- `mmd_nonneg` ON THE TRANSLATED CODE: whatever the regenerated `compute_mmd` returns for a kernel width σ > 0 is ≥ 0. -/
theorem translated_mmd_nonneg (order : List Key → List Key) (horder : ∀ l, (order l).Perm l)
    (par : OQ.Py.Dict (List Char) (NumOrSeq ℝ)) (σ : ℝ) (hpar : sigmaOf par = .num σ) (hσ : 0 < σ)
    (p q : Dict Key) (hp : p.keys.Nodup) (hq : q.keys.Nodup) (hk : ∀ k ∈ unionKeys p q, ∀ e ∈ k, 0 ≤ e) (v : ℝ)
    (h : Translated.compute_mmd Real.exp order (castD p) (castD q) par = .ok v) : 0 ≤ v := by
  rw [translated_mmd_single_eq order horder par σ hpar (ne_of_gt hσ) p q hp hq hk] at h
  cases hm : mmdData p q with
  | error e => rw [hm] at h; cases h
  | ok a => rw [hm] at h; cases h; exact mmd_nonneg σ hσ a

/-- `mmd_nonneg_multi` ON THE TRANSLATED CODE: the same for a sequence of positive kernel widths. -/
theorem translated_mmd_nonneg_multi (order : List Key → List Key) (horder : ∀ l, (order l).Perm l)
    (par : OQ.Py.Dict (List Char) (NumOrSeq ℝ)) (σs : List ℝ) (hpar : sigmaOf par = .seq σs) (hσ : ∀ σ ∈ σs, 0 < σ)
    (p q : Dict Key) (hp : p.keys.Nodup) (hq : q.keys.Nodup) (hk : ∀ k ∈ unionKeys p q, ∀ e ∈ k, 0 ≤ e) (v : ℝ)
    (h : Translated.compute_mmd Real.exp order (castD p) (castD q) par = .ok v) : 0 ≤ v := by
  rw [translated_mmd_multi_eq order horder par σs hpar (fun σ hs => ne_of_gt (hσ σ hs)) p q hp hq hk] at h
  cases hm : mmdData p q with
  | error e => rw [hm] at h; cases h
  | ok a => rw [hm] at h; cases h; exact mmd_nonneg_multi σs hσ a

/-- the kernel the parameter dictionary selects, for the statements that do not depend on which -/
noncomputable def kernelOf : NumOrSeq ℝ → ℝ → ℝ → ℝ
  | .num σ => gaussK (1 / (2 * σ))
  | .seq σs => multiK (σs.map fun σ => 1 / (2 * σ))

/-- both ties in one: for a "sigma" entry without zeros the regenerated `compute_mmd` is the quadratic form of the selected kernel -/
theorem translated_mmd_eq (order : List Key → List Key) (horder : ∀ l, (order l).Perm l)
    (par : OQ.Py.Dict (List Char) (NumOrSeq ℝ))
    (hpar : match sigmaOf par with | .num σ => σ ≠ 0 | .seq σs => ∀ σ ∈ σs, σ ≠ 0)
    (p q : Dict Key) (hp : p.keys.Nodup) (hq : q.keys.Nodup) (hk : ∀ k ∈ unionKeys p q, ∀ e ∈ k, 0 ≤ e) :
    Translated.compute_mmd Real.exp order (castD p) (castD q) par =
      match mmdData p q with
      | .ok a => .ok (quadForm (kernelOf (sigmaOf par)) a)
      | .error _ => .error .value := by
  cases hs : sigmaOf par with
  | num σ => rw [hs] at hpar; exact translated_mmd_single_eq order horder par σ hs hpar p q hp hq hk
  | seq σs => rw [hs] at hpar; exact translated_mmd_multi_eq order horder par σs hs hpar p q hp hq hk

/-- `mmd_symm` ON THE TRANSLATED CODE: exchanging target and measured distribution does not change what the regenerated `compute_mmd`
    does – the same value, or ValueError both ways – for every kernel parameter without zeros and every iteration order. -/
theorem translated_mmd_symm (order : List Key → List Key) (horder : ∀ l, (order l).Perm l)
    (par : OQ.Py.Dict (List Char) (NumOrSeq ℝ))
    (hpar : match sigmaOf par with | .num σ => σ ≠ 0 | .seq σs => ∀ σ ∈ σs, σ ≠ 0)
    (p q : Dict Key) (hp : p.keys.Nodup) (hq : q.keys.Nodup) (hk : ∀ k ∈ unionKeys p q, ∀ e ∈ k, 0 ≤ e) :
    Translated.compute_mmd Real.exp order (castD p) (castD q) par =
      Translated.compute_mmd Real.exp order (castD q) (castD p) par := by
  have hk' : ∀ k ∈ unionKeys q p, ∀ e ∈ k, 0 ≤ e := fun k h => hk k (by rw [mem_unionKeys] at h ⊢; exact h.symm)
  rw [translated_mmd_eq order horder par hpar p q hp hq hk, translated_mmd_eq order horder par hpar q p hq hp hk']
  cases hm : mmdData p q with
  | ok a =>
    obtain ⟨b, hb, hK, _, _⟩ := mmd_symm p q hp hq a hm
    rw [hb]
    show Except.ok (quadForm _ a) = Except.ok (quadForm _ b)
    rw [hK]
  | error e =>
    cases hm' : mmdData q p with
    | error e' => rfl
    | ok b =>
      obtain ⟨a, ha, _⟩ := mmd_symm q p hq hp b hm'
      rw [hm] at ha; cases ha

/-- `mmd_self` ON THE TRANSLATED CODE: between a distribution and itself the regenerated `compute_mmd` returns 0 (or raises ValueError
    when an outcome has an entry ≥ 2 – the finding `mmd_nonbinary_witness`). -/
theorem translated_mmd_self (order : List Key → List Key) (horder : ∀ l, (order l).Perm l)
    (par : OQ.Py.Dict (List Char) (NumOrSeq ℝ))
    (hpar : match sigmaOf par with | .num σ => σ ≠ 0 | .seq σs => ∀ σ ∈ σs, σ ≠ 0)
    (p : Dict Key) (hp : p.keys.Nodup) (hk : ∀ k ∈ unionKeys p p, ∀ e ∈ k, 0 ≤ e) :
    Translated.compute_mmd Real.exp order (castD p) (castD p) par = .ok 0 ∨
      Translated.compute_mmd Real.exp order (castD p) (castD p) par = .error .value := by
  rw [translated_mmd_eq order horder par hpar p p hp hp hk]
  cases hm : mmdData p p with
  | ok a =>
    left
    show Except.ok (quadForm _ a) = Except.ok 0
    rw [(mmd_self p a hm).1]
  | error e => right; rfl

/-- … and it does return 0 on every bitstring distribution of width ≥ 1 -/
theorem translated_mmd_self_bits (order : List Key → List Key) (horder : ∀ l, (order l).Perm l)
    (par : OQ.Py.Dict (List Char) (NumOrSeq ℝ))
    (hpar : match sigmaOf par with | .num σ => σ ≠ 0 | .seq σs => ∀ σ ∈ σs, σ ≠ 0)
    (p : Dict Key) (hp : p.keys.Nodup) (hb : ∀ k ∈ p.keys, k ≠ [] ∧ ∀ e ∈ k, e = 0 ∨ e = 1) :
    Translated.compute_mmd Real.exp order (castD p) (castD p) par = .ok 0 := by
  have hk : ∀ k ∈ unionKeys p p, ∀ e ∈ k, 0 ≤ e := by
    intro k h e he
    have hkp : k ∈ p.keys := by rw [mem_unionKeys] at h; exact h.elim id id
    rcases (hb k hkp).2 e he with rfl | rfl <;> decide
  rw [translated_mmd_eq order horder par hpar p p hp hp hk]
  obtain ⟨a, ha⟩ := mmd_defined_on_bits p p hb hb
  rw [ha]
  show Except.ok (quadForm _ a) = Except.ok 0
  rw [(mmd_self p a ha).1]

/-- the validation ON THE TRANSLATED `evaluate_distribution_distance`: two valid distributions of the same width that are both
    normalised or both not are handed to the distance function unchanged, with the keyword arguments, and its result is returned. -/
theorem translated_evaluate_valid {κ ρ : Type} (ext : Rat → Rat → Bool) (t m : Dict Key) (w : Nat) (ht : Valid t w) (hm : Valid m w)
    (hn : ext t.total 1 = ext m.total 1) (f : Dict Key → Dict Key → κ → Except Exc4 ρ) (kw : κ) :
    Translated.evaluate_distribution_distance ext (some t) (some m) f kw = f t m kw := by
  rw [translated_evaluate_distribution_distance_eq]
  unfold evalDistance
  cases t with
  | nil => exact absurd rfl ht.ne
  | cons a t' =>
    cases m with
    | nil => exact absurd rfl hm.ne
    | cons b m' =>
      obtain ⟨kt, vt⟩ := a
      obtain ⟨km, vm⟩ := b
      have h1 : kt.length = km.length := by
        rw [ht.len (kt, vt) List.mem_cons_self, hm.len (km, vm) List.mem_cons_self]
      simp [h1, hn]

/-- … an argument that is not a MeasurementOutcomeDistribution → TypeError (the distance function is not called) -/
theorem translated_evaluate_rejects_type {κ ρ : Type} (ext : Rat → Rat → Bool) (t m : Option (Dict Key)) (h : t = none ∨ m = none)
    (f : Dict Key → Dict Key → κ → Except Exc4 ρ) (kw : κ) :
    Translated.evaluate_distribution_distance ext t m f kw = .error .type := by
  rw [translated_evaluate_distribution_distance_eq]
  unfold evalDistance
  rcases h with rfl | rfl
  · cases m <;> rfl
  · cases t <;> rfl

/-- … different widths, or exactly one of the two normalised → RuntimeError (the distance function is not called) -/
theorem translated_evaluate_rejects {κ ρ : Type} (ext : Rat → Rat → Bool) (t m : Dict Key) (wt wm : Nat) (ht : Valid t wt)
    (hm : Valid m wm) (h : wt ≠ wm ∨ ext t.total 1 ≠ ext m.total 1) (f : Dict Key → Dict Key → κ → Except Exc4 ρ) (kw : κ) :
    Translated.evaluate_distribution_distance ext (some t) (some m) f kw = .error .runtime := by
  rw [translated_evaluate_distribution_distance_eq]
  unfold evalDistance
  cases t with
  | nil => exact absurd rfl ht.ne
  | cons a t' =>
    cases m with
    | nil => exact absurd rfl hm.ne
    | cons b m' =>
      obtain ⟨kt, vt⟩ := a
      obtain ⟨km, vm⟩ := b
      have h1 : kt.length = wt := ht.len (kt, vt) List.mem_cons_self
      have h2 : km.length = wm := hm.len (km, vm) List.mem_cons_self
      by_cases hw : wt = wm
      · have hne := h.resolve_left (not_not.mpr hw)
        simp [h1, h2, hw, hne]
      · simp [h1, h2, hw]

/-! ## non-vacuity: the TRANSLATED definitions on concrete inputs.  At `ν = Rat` the externals `math.log` / `np.exp` are stand-ins
    (`x ↦ x − 1`, `x ↦ 1 + x`: the definitions are generic in them); the set order is the order of first occurrence. -/

-- −(1/2·log(max(1/4, 1)) + 1/2·log(max(1/4, 0))) with log := x − 1, on different supports
example : Translated.compute_clipped_negative_log_likelihood (ν := Rat) (fun x => x - 1) id
    [([0], 1/2), ([1], 1/2)] [([0], 1)] [(['e', 'p', 's', 'i', 'l', 'o', 'n'], 1/4)] = .ok (3/8) := by decide +kernel
-- epsilon = 0 and an outcome outside the measured support: `math.log(0)` raises ValueError
example : Translated.compute_clipped_negative_log_likelihood (ν := Rat) (fun x => x - 1) id
    [([0], 1/2), ([1], 1/2)] [([0], 1)] [(['e', 'p', 's', 'i', 'l', 'o', 'n'], 0)] = .error .value := by decide +kernel
example : Translated.compute_jensen_shannon_divergence (ν := Rat) (fun x => x - 1) id
    [([0], 1/2), ([1], 1/2)] [([0], 1)] [(['e', 'p', 's', 'i', 'l', 'o', 'n'], 1/4)] = .ok (7/16) := by decide +kernel
-- the kernels on codes [0, 3] with exp := 1 + x: entries 1 + (−γ·d²), γ = 1/(2σ)
example : Translated.compute_rbf_kernel (ν := Rat) (fun x => 1 + x) [0, 3] [0, 3] 2 = .ok [[1, -5/4], [-5/4, 1]] := by decide +kernel
example : Translated.compute_rbf_kernel (ν := Rat) (fun x => 1 + x) [0, 3] [0, 3] 0 = .error .zeroDiv := by decide +kernel
example : Translated.compute_multi_rbf_kernel (ν := Rat) (fun x => 1 + x) [0, 3] [0, 3] [2, 1] = .ok [[1, -19/8], [-19/8, 1]] := by
  decide +kernel
example : Translated.compute_multi_rbf_kernel (ν := Rat) (fun x => 1 + x) [0, 3] [0, 3] [2, 0] = .error .zeroDiv := by decide +kernel
-- MMD between distributions with different supports, default sigma = 1.0; a non-binary outcome; equal arguments
example : Translated.compute_mmd (ν := Rat) (fun x => 1 + x) id [([0, 1], 1)] [([1, 0], 1/2), ([1, 1], 1/2)] [] = .ok (9/4) := by
  decide +kernel
example : Translated.compute_mmd (ν := Rat) (fun x => 1 + x) id [([0, 1], 1)] [([1, 0], 1/2), ([1, 1], 1/2)]
    [(['s', 'i', 'g', 'm', 'a'], .seq [1, 2])] = .ok (27/16) := by decide +kernel
example : Translated.compute_mmd (ν := Rat) (fun x => 1 + x) id [([2], 1)] [([2], 1)] [] = .error .value := by decide +kernel
example : Translated.compute_mmd (ν := Rat) (fun x => 1 + x) id [([0, 1], 1/2), ([1, 1], 1/2)] [([0, 1], 1/2), ([1, 1], 1/2)] [] =
    .ok 0 := by decide +kernel
example : Translated.mod_get_number_of_subsystems (ν := Rat) [([0, 1, 1], 1)] = .ok 3 := by decide +kernel
example : Translated.mod_get_number_of_subsystems (ν := Rat) [] = .error .index := by decide +kernel
-- the validation: passes the two dictionaries and the keyword arguments on; TypeError; RuntimeError (widths; normalisation)
example : Translated.evaluate_distribution_distance (ν := Rat) ratIsClose (some [([0], 1)]) (some [([1], 1/2), ([0], 1/2)])
    (fun t m (kw : Int) => .ok (t.length + 10 * m.length + 100 * kw : Int)) 7 = .ok 721 := by decide +kernel
example : Translated.evaluate_distribution_distance (ν := Rat) ratIsClose none (some [([1], 1)])
    (fun _ _ (_ : Int) => (.ok 0 : Except Exc4 Int)) 7 = .error .type := by decide +kernel
example : Translated.evaluate_distribution_distance (ν := Rat) ratIsClose (some [([0], 1)]) (some [([1, 0], 1)])
    (fun _ _ (_ : Int) => (.ok 0 : Except Exc4 Int)) 7 = .error .runtime := by decide +kernel
example : Translated.evaluate_distribution_distance (ν := Rat) ratIsClose (some [([0], 1)]) (some [([1], 1/2)])
    (fun _ _ (_ : Int) => (.ok 0 : Except Exc4 Int)) 7 = .error .runtime := by decide +kernel
example : Translated.evaluate_distribution_distance (ν := Rat) ratIsClose (some [([0], 1)]) (some [([1], 1)])
    (fun _ _ (_ : Int) => (.error .zeroDiv : Except Exc4 Int)) 7 = .error .zeroDiv := by decide +kernel
-- the hypotheses of the ties are met: the defaults of the two parameter dictionaries, a permutation, dictionaries with the listed properties
example : sigmaOf [] = .num 1 := by simp [sigmaOf, dictGetD]
example : sigmaOf [(['s', 'i', 'g', 'm', 'a'], .seq [1, 2])] = .seq [1, 2] := by simp [sigmaOf, dictGetD]
example : 0 < epsOf [] := by rw [epsOf_nil]; positivity
example : ∀ l : List Key, (List.reverse l).Perm l := List.reverse_perm
example : (Dict.keys [([0, 1], (1 : Rat))]).Nodup ∧ ∀ k ∈ unionKeys [([0, 1], 1)] [([1, 0], 1/2), ([1, 1], 1/2)], ∀ e ∈ k, 0 ≤ e := by
  decide +kernel

end OQ.C17
