/- C17 — PROPERTY THEOREMS (translation ties): the functions of `distributions/_measurement_outcome_distribution.py` behind the
   constructor and `subdistribution`.  The definitions `OQ.Generated.Translated.*` are REGENERATED from /repo's current Python source on
   every run (harness/translate_t4.py → OQ/Generated/TranslatedC17.lean); an edit of a Python function changes its definition and the
   equalities below stop checking at build time, for every input.

   Reading of the translated definitions (harness/translate_t4.py's docstring has the details):
   * a result `Except OQ.Py.Exc4 τ`: `.error c` = the Python call raises an exception of class `c` (runtime = RuntimeError, value =
     ValueError, index = IndexError, key = KeyError, zeroDiv = ZeroDivisionError).  The ties say that the CLASS agrees with the model's
     (`toExc`), and that KeyError / ZeroDivisionError, which the translated code could raise at `d[key]` and `1.0 / norm`, never occur.
   * probabilities are values of an abstract type `ν` with `[OQ.Py.PyNum ν]`; the ties are stated at `ν = Rat`, the type the model
     computes in.  FLOAT ROUNDING IS NOT MODELLED (neither by the model nor by the translation): `1.0 / norm` is the exact quotient.
   * `math.isclose` is the parameter `ext_isclose : ν → ν → Bool` (NO law is assumed about it: every theorem holds for every such
     function; the model's `close` is `fun x => ext_isclose x 1`), `sys.float_info.min` is the parameter `ext_float_min`, instantiated
     with the model's `floatMin` = 2^-1022.
   * dictionaries are insertion-ordered association lists; where a theorem needs the list to be a Python dict it says `keys.Nodup`.
     Callers' keys (`str | tuple | anything else`) are `OQ.Py.PyKey`; `toPyItems` embeds the model's raw items and is onto
     (`toPyItems_surjective`), so "for every `input`" is "for every dictionary with such keys".
   * `warnings.warn(...)` in `__init__` is skipped (it does not change `distribution_dict`); `copy.deepcopy` of a list of tuples is
     the list; in-place normalisation (`d[key] *= …`) is rendered as the new dictionary the function returns (the translator checks
     that the caller does not read the old one afterwards).
   * a METHOD is a function of the attributes it reads: `mod_init` returns the stored `distribution_dict`, `mod_subdistribution` takes
     `self.distribution_dict` and returns (`self.distribution_dict` after the call, the new object's `distribution_dict`). -/
import OQ.Lemmas.C17_TranslatedDist
import OQ.Props.C17
namespace OQ.C17
open OQ.Generated OQ.Py

/-! ### the constructor's helpers -/

/-- TRANSLATION TIE: `preprocess_distibution_dict` (the loop over `items()`, the `isinstance` dispatch, `"," in key`, `key.split(",")`,
    `tuple(map(int, …))`, `res_dict[…] = value`, the RuntimeError) regenerated from the current Python source IS the model's
    `preprocess` – for EVERY input dictionary: the same dictionary when Python returns one, ValueError (a `str` key that `int` rejects)
    and RuntimeError (a key that is neither `str` nor `tuple`) exactly where the model has them, at the first offending key.
    Domain: all inputs (str keys: ASCII without whitespace / underscores – the documented domain of `OQ.Py.intOfStr`). -/
theorem translated_preprocess_distibution_dict_eq (input : List (RawKey × Rat)) :
    Translated.preprocess_distibution_dict (toPyItems input) = liftE (preprocess input []) := by
  unfold Translated.preprocess_distibution_dict
  simp only [dictItems]
  rw [foldlE_preprocess _ _ input []]
  · cases preprocess input [] <;> rfl
  · intro st k v
    cases k with
    | str s =>
      simp only [toPyKey, mapE_intOfStr_key]
      cases preprocessKey (.str s) with
      | error e => rfl
      | ok k' => simp [liftE, dictSet_eq_set]
    | tup t => simp [toPyKey, preprocessKey, dictSet_eq_set]
    | other => simp [toPyKey, preprocessKey, toExc]

/-- TRANSLATION TIE: `_is_non_negative` is the first conjunct of the model's `isDistribution` – every dictionary. -/
theorem translated_is_non_negative_eq (d : Dict Key) :
    Translated.is_non_negative d = d.all (fun p => decide (0 ≤ p.2)) := by
  unfold Translated.is_non_negative
  simp [dictValues, List.all_map, Function.comp_def]

/-- TRANSLATION TIE: `_is_key_length_fixed` – every dictionary: IndexError on the empty one (`list(d.keys())[0]`), otherwise the
    second conjunct of `isDistribution` (all keys as long as the first). -/
theorem translated_is_key_length_fixed_eq (d : Dict Key) :
    Translated.is_key_length_fixed d = match d with
      | [] => .error .index
      | (k0, _) :: _ => .ok (d.all (fun p => p.1.length == k0.length)) := by
  unfold Translated.is_key_length_fixed
  cases d with
  | nil => rfl
  | cons p rest =>
    obtain ⟨k0, v0⟩ := p
    simp only [dictKeys, List.map_cons, indexE_zero_cons, bind_ok]
    have e : ∀ (a b : Nat), (((a : Nat) : Int) == ((b : Nat) : Int)) = (a == b) := by
      intro a b; rw [Bool.eq_iff_iff]; simp
    simp [List.all_map, Function.comp_def, e]

/-- TRANSLATION TIE: `_are_keys_non_negative_integer_tuples` is the third conjunct of `isDistribution` – every dictionary whose keys
    are tuples of Python ints (`isinstance(sub, (int, np.integer))` is then true by typing). -/
theorem translated_are_keys_non_negative_integer_tuples_eq (d : Dict Key) :
    Translated.are_keys_non_negative_integer_tuples d = d.all (fun p => p.1.all (fun e => decide (0 ≤ e))) := by
  unfold Translated.are_keys_non_negative_integer_tuples
  simp [dictKeys, List.all_map, Function.comp_def]

/-- TRANSLATION TIE: `is_measurement_outcome_distribution` (the short-circuit chain `not d == {} and … and … and …`) IS the model's
    `isDistribution` – every dictionary; in particular the IndexError of `_is_key_length_fixed` is never reached (the emptiness test
    comes first). -/
theorem translated_is_measurement_outcome_distribution_eq (d : Dict Key) :
    Translated.is_measurement_outcome_distribution d = .ok (isDistribution d) := by
  unfold Translated.is_measurement_outcome_distribution
  rw [translated_is_non_negative_eq, translated_is_key_length_fixed_eq, translated_are_keys_non_negative_integer_tuples_eq]
  cases d with
  | nil => rfl
  | cons p rest =>
    obtain ⟨k0, v0⟩ := p
    simp only [List.isEmpty_cons, Bool.not_false, if_true, bind_ok, isDistribution]
    split
    · rename_i h; rw [h]; simp
    · rename_i h; simp only [Bool.not_eq_true] at h; rw [h]; simp

/-- TRANSLATION TIE: `is_normalized` is `math.isclose(sum(d.values()), 1)` – every dictionary, every `isclose`; the model's
    `close pre.total` is this with `close = fun x => ext_isclose x 1`. -/
theorem translated_is_normalized_eq (ext : Rat → Rat → Bool) (d : Dict Key) :
    Translated.is_normalized ext d = ext d.total 1 := by
  unfold Translated.is_normalized
  simp [sumNum_rat, dictValues, Dict.total, Dict.vals]

/-- TRANSLATION TIE: `normalize_measurement_outcome_distribution` (both ValueErrors, the `norm == 1` shortcut, the in-place loop
    `d[key] *= 1.0 / norm`) IS the model's `normalizeDict` – every Python dict (distinct keys), with `sys.float_info.min` = 2^-1022.
    In particular `d[key]` never raises KeyError and `1.0 / norm` never ZeroDivisionError. -/
theorem translated_normalize_measurement_outcome_distribution_eq (d : Dict Key) (hn : d.keys.Nodup) :
    Translated.normalize_measurement_outcome_distribution floatMin d = liftE (normalizeDict d) := by
  unfold Translated.normalize_measurement_outcome_distribution normalizeDict
  have hs : sumNum (dictValues d) = d.total := by simp [sumNum_rat, dictValues, Dict.total, Dict.vals]
  simp only [hs, rat_beq, rat_lt, Int.cast_zero, Int.cast_one, Bool.and_eq_true, decide_eq_true_eq]
  by_cases h0 : d.total = 0
  · simp [h0, liftE, toExc]
  · by_cases h1 : 0 < d.total ∧ d.total < floatMin
    · simp [h0, h1, liftE, toExc]
    · by_cases h2 : d.total = 1
      · have hf : ¬ (1 : Rat) < floatMin := not_lt.mpr (le_of_lt floatMin_lt_one)
        simp [h2, hf, liftE]
      · simp only [h0, h1, h2, if_false, liftE, divE_rat _ _ h0, bind_ok, rat_mul]
        have := foldlE_scale (1 / d.total) d [] (by simpa [dictKeys, Dict.keys] using hn)
        simp only [List.nil_append] at this
        rw [this]
        rfl

/-- TRANSLATION TIE: `change_tuple_dict_keys_to_comma_separated_integers` (the dict comprehension with `",".join(map(str, key))`) on
    a dictionary with tuple keys IS the model's `saveDict` – every such dictionary (keys that collide as text overwrite, as in the
    model).  Not covered: dictionaries that also have `str` keys (passed through unchanged by the code; the model has none). -/
theorem translated_change_tuple_dict_keys_eq (d : Dict Key) :
    Translated.change_tuple_dict_keys_to_comma_separated_integers (dictTupKeys d) = dictStrKeys (saveDict d) := by
  unfold Translated.change_tuple_dict_keys_to_comma_separated_integers saveDict dictComp dictStrKeys dictTupKeys dictItems
  simp only [join_strOfInt]
  exact foldl_commas d []

/-! ### the constructor and `subdistribution` -/

/-- TRANSLATION TIE: `MeasurementOutcomeDistribution.__init__` as a function (input dictionary, `normalize`) ↦ stored
    `distribution_dict` IS the model's `construct` – EVERY input and flag, every `isclose`: the same stored dictionary, and
    RuntimeError / ValueError exactly where the model has them.  (`warnings.warn` does not change the stored dictionary.) -/
theorem translated_init_eq (ext : Rat → Rat → Bool) (nz : Bool) (input : List (RawKey × Rat)) :
    Translated.mod_init ext floatMin (toPyItems input) nz = liftE (construct (fun x => ext x 1) nz input) := by
  unfold Translated.mod_init construct
  rw [translated_preprocess_distibution_dict_eq]
  cases hp : preprocess input [] with
  | error e => rfl
  | ok pre =>
    have hn : pre.keys.Nodup := preprocess_nodup input [] pre hp List.nodup_nil
    simp only [liftE, bind_ok, translated_is_measurement_outcome_distribution_eq, translated_is_normalized_eq, constructPre]
    by_cases hd : isDistribution pre = true
    · simp only [hd, if_true]
      by_cases hc : ext pre.total 1 = true
      · simp [hc]
      · simp only [hc, if_false, Bool.false_eq_true]
        cases nz with
        | false => simp
        | true =>
          simp only [if_true, translated_normalize_measurement_outcome_distribution_eq pre hn]
          cases normalizeDict pre <;> rfl
    · simp [hd, toExc]

/-- TRANSLATION TIE: `MeasurementOutcomeDistribution.subdistribution` (the `max(active_qubits) + 1 > len(first key)` guard, the
    duplicate guard via `set`, the accumulation loop with `new_counts.get(new_key, 0)`, Python tuple indexing incl. negative indices,
    the constructor call on the result with `normalize = is_normalized(self…)`) IS the model's `subdistribution` – every receiver that
    is a Python dict (distinct keys; NOT only valid distributions) and EVERY list of qubits: the receiver unchanged and the model's new
    dictionary, ValueError / IndexError / RuntimeError exactly where the model has them (`subResult`); `self.distribution_dict[key]`
    never raises KeyError. -/
theorem translated_subdistribution_eq (ext : Rat → Rat → Bool) (self : Dict Key) (qs : List Int) (hn : self.keys.Nodup) :
    Translated.mod_subdistribution ext floatMin self qs = subResult (subdistribution (fun x => ext x 1) self qs) := by
  unfold Translated.mod_subdistribution subdistribution
  rw [maxListE_eq]
  cases qs with
  | nil => rfl
  | cons q0 qs' =>
    cases self with
    | nil => rfl
    | cons p0 rest =>
      obtain ⟨k0, v0⟩ := p0
      simp only [bind_ok, dictKeys, List.map_cons, indexE_zero_cons, lenSet_ne_iff]
      by_cases hmax : listMaxInt (q0 :: qs') + 1 > (k0.length : Int)
      · simp [hmax, subResult, toExc]
      · by_cases hdup : hasDup (q0 :: qs') = true
        · simp [hmax, hdup, subResult, toExc]
        · simp only [hmax, hdup, decide_false, Bool.false_eq_true, if_false, mapE_index, dictSet_eq_set, dictGetD_eq_getD,
            rat_add, Int.cast_zero]
          have hget : ∀ p ∈ ((k0, v0) :: rest : Dict Key), dictGetE ((k0, v0) :: rest : Dict Key) p.1 = .ok p.2 :=
            fun p hp => dictGetE_of_mem _ (by simpa [dictKeys, Dict.keys] using hn) p.1 p.2 hp
          have := foldlE_accumulate ((k0, v0) :: rest) (q0 :: qs') ((k0, v0) :: rest) [] hget
          simp only [dictKeys, List.map_cons] at this
          rw [this]
          cases accumulate (projectKey (q0 :: qs')) ((k0, v0) :: rest) [] with
          | none => rfl
          | some nc =>
            simp only [ofOpt_some, bind_ok, translated_is_normalized_eq, subResult]
            have e : dictTupKeys nc = toPyItems (nc.map (fun p => (RawKey.tup p.1, p.2))) := by
              simp [dictTupKeys, toPyItems, toPyKey]
            rw [e, translated_init_eq]
            cases construct (fun x => ext x 1) (ext (Dict.total ((k0, v0) :: rest)) 1)
              (nc.map (fun p => (RawKey.tup p.1, p.2))) <;> rfl

/-! ### END-TO-END: the property's sentences on the translated code -/

/-- `normalised_sum_one` ON THE TRANSLATED CONSTRUCTOR: whatever dictionary the regenerated `__init__` stores with normalisation on
    has values summing to exactly 1, or its sum passed the library's own `isclose(·, 1)` and was kept. -/
theorem translated_normalised_sum_one (ext : Rat → Rat → Bool) (input : List (RawKey × Rat)) (d : Dict Key)
    (h : Translated.mod_init ext floatMin (toPyItems input) true = .ok d) : d.total = 1 ∨ ext d.total 1 = true := by
  rw [translated_init_eq] at h
  exact normalised_sum_one (fun x => ext x 1) input d (liftE_ok _ _ h)

/-- `proportions` ON THE TRANSLATED CONSTRUCTOR: the stored dictionary is what the regenerated `preprocess_distibution_dict` returns,
    same keys in the same order, every value times one positive factor (1 or 1 / total). -/
theorem translated_proportions (ext : Rat → Rat → Bool) (input : List (RawKey × Rat)) (d : Dict Key)
    (h : Translated.mod_init ext floatMin (toPyItems input) true = .ok d) :
    ∃ (pre : Dict Key) (c : Rat), Translated.preprocess_distibution_dict (toPyItems input) = .ok pre ∧ 0 < c ∧ (c = 1 ∨ c = 1 / pre.total) ∧
      d = pre.map (fun p => (p.1, p.2 * c)) := by
  rw [translated_init_eq] at h
  obtain ⟨pre, c, hp, hc, hc', hd⟩ := proportions (fun x => ext x 1) input d (liftE_ok _ _ h)
  exact ⟨pre, c, by rw [translated_preprocess_distibution_dict_eq, hp]; rfl, hc, hc', hd⟩

/-- `rejects_invalid` (1) ON THE TRANSLATED CONSTRUCTOR: the empty dictionary is refused with RuntimeError. -/
theorem translated_rejects_empty (ext : Rat → Rat → Bool) (nz : Bool) :
    Translated.mod_init ext floatMin ([] : OQ.Py.Dict PyKey Rat) nz = .error .runtime := by
  have := translated_init_eq ext nz []
  rw [rejects_empty] at this
  exact this

/-- `rejects_invalid` (2): a negative value among what the regenerated `preprocess_distibution_dict` returns → RuntimeError. -/
theorem translated_rejects_negative (ext : Rat → Rat → Bool) (nz : Bool) (input : List (RawKey × Rat)) (pre : Dict Key)
    (hp : Translated.preprocess_distibution_dict (toPyItems input) = .ok pre) (hneg : ∃ p ∈ pre, p.2 < 0) :
    Translated.mod_init ext floatMin (toPyItems input) nz = .error .runtime := by
  rw [translated_preprocess_distibution_dict_eq] at hp
  rw [translated_init_eq]
  exact liftE_error _ _ (rejects_negative _ nz input pre (liftE_ok _ _ hp) hneg)

/-- `rejects_invalid` (3): keys of unequal length → RuntimeError. -/
theorem translated_rejects_unequal_length (ext : Rat → Rat → Bool) (nz : Bool) (input : List (RawKey × Rat)) (pre : Dict Key)
    (hp : Translated.preprocess_distibution_dict (toPyItems input) = .ok pre)
    (hlen : ∃ p ∈ pre, ∃ p' ∈ pre, p.1.length ≠ p'.1.length) :
    Translated.mod_init ext floatMin (toPyItems input) nz = .error .runtime := by
  rw [translated_preprocess_distibution_dict_eq] at hp
  rw [translated_init_eq]
  exact liftE_error _ _ (rejects_unequal_length _ nz input pre (liftE_ok _ _ hp) hlen)

/-- `marginal` ON THE TRANSLATED METHOD: for every valid receiver of width `w`, every non-empty list of distinct in-range qubits in
    any order and every `isclose`, the regenerated `subdistribution` returns the receiver unchanged and exactly the grouped sums over
    the projection. -/
theorem translated_marginal (ext : Rat → Rat → Bool) (self : Dict Key) (w : Nat) (qs : List Int)
    (hv : Valid self w) (hne : qs ≠ []) (hr : ∀ q ∈ qs, 0 ≤ q ∧ q < w) (hnd : qs.Nodup) :
    Translated.mod_subdistribution ext floatMin self qs = .ok (self, groupSum (proj qs) self) := by
  rw [translated_subdistribution_eq ext self qs hv.nodup, (marginal (fun x => ext x 1) self w qs hv hne hr hnd).1]
  rfl

/-- `marginal_sum` ON THE TRANSLATED METHOD: each outcome of the returned dictionary carries the sum of the probabilities of all
    source outcomes projecting to it (0 for an outcome that is not a projection). -/
theorem translated_marginal_sum (ext : Rat → Rat → Bool) (self : Dict Key) (w : Nat) (qs : List Int)
    (hv : Valid self w) (hne : qs ≠ []) (hr : ∀ q ∈ qs, 0 ≤ q ∧ q < w) (hnd : qs.Nodup) :
    ∃ r : Dict Key, Translated.mod_subdistribution ext floatMin self qs = .ok (self, r) ∧
      ∀ x : Key, Dict.getD r x = ((self.filter (fun p => decide (proj qs p.1 = x))).map Prod.snd).sum :=
  ⟨_, translated_marginal ext self w qs hv hne hr hnd, fun x => marginal_sum (proj qs) self x⟩

/-- `marginal_order` ON THE TRANSLATED METHOD: every outcome of the returned dictionary is the projection of a source outcome, with the
    qubits in the listed order (entry `i` is the source entry at the `i`-th listed qubit), each projected outcome once. -/
theorem translated_marginal_order (ext : Rat → Rat → Bool) (self : Dict Key) (w : Nat) (qs : List Int)
    (hv : Valid self w) (hne : qs ≠ []) (hr : ∀ q ∈ qs, 0 ≤ q ∧ q < w) (hnd : qs.Nodup) :
    ∃ r : Dict Key, Translated.mod_subdistribution ext floatMin self qs = .ok (self, r) ∧ r.keys.Nodup ∧
      ∀ k ∈ r.keys, ∃ key ∈ self.keys, k.length = qs.length ∧
        ∀ i (h : i < qs.length), k.getD i 0 = key.getD (qs[i]).toNat 0 := by
  refine ⟨_, translated_marginal ext self w qs hv hne hr hnd, (marginal_support (proj qs) self).1, fun k hk => ?_⟩
  obtain ⟨key, hkey, rfl⟩ := ((marginal_support (proj qs) self).2 k).mp hk
  exact ⟨key, hkey, (marginal_order qs key).1, (marginal_order qs key).2⟩

/-- `source_intact` ON THE TRANSLATED METHOD: whenever the regenerated `subdistribution` returns, `self.distribution_dict` after the
    call is the one before it – every receiver that is a Python dict, every qubit list, every `isclose`.  (When it raises, the
    translated code has not assigned to `self` either: the translator renders every `self.a = …` / in-place change as a rebinding
    it would have to carry, and there is none.) -/
theorem translated_source_intact (ext : Rat → Rat → Bool) (self : Dict Key) (qs : List Int) (hn : self.keys.Nodup)
    (s' r : Dict Key) (h : Translated.mod_subdistribution ext floatMin self qs = .ok (s', r)) : s' = self := by
  rw [translated_subdistribution_eq ext self qs hn] at h
  have hs := source_intact (fun x => ext x 1) self qs
  unfold subResult at h
  split at h
  · rw [hs] at h; exact ((Prod.mk.injEq _ _ _ _).mp (Except.ok.inj h)).1.symm
  · cases h

/-- `subdistribution_rejects` ON THE TRANSLATED METHOD: an empty qubit list, a repeated qubit and a too large qubit → ValueError. -/
theorem translated_subdistribution_rejects (ext : Rat → Rat → Bool) (self : Dict Key) (w : Nat) (hv : Valid self w)
    (qs : List Int) (hbad : qs = [] ∨ ¬ qs.Nodup ∨ ∃ q ∈ qs, (w : Int) ≤ q) :
    Translated.mod_subdistribution ext floatMin self qs = .error .value := by
  rw [translated_subdistribution_eq ext self qs hv.nodup]
  unfold subResult
  rw [subdistribution_rejects (fun x => ext x 1) self w hv qs hbad]
  rfl

/-! ## non-vacuity: the TRANSLATED definitions on concrete inputs (`isclose` = the prelude's exact `math.isclose`) -/

-- mixed str / tuple keys with a collision ("01" and (0,1)), a comma key, un-normalised weights
example : Translated.mod_init ratIsClose floatMin
    [(.str ['0', '1'], 1), (.tup [0, 1], 3), (.str ['1', ',', '1'], 4), (.tup [1, 0], 1)] true =
    .ok [([0, 1], 3/8), ([1, 1], 1/2), ([1, 0], 1/8)] := by decide +kernel
example : Translated.mod_init ratIsClose floatMin [(.str ['0'], -1), (.str ['1'], 2)] true = .error .runtime := by decide +kernel
example : Translated.mod_init ratIsClose floatMin [(.str ['0'], 1), (.str ['1', '1'], 2)] true = .error .runtime := by decide +kernel
example : Translated.mod_init ratIsClose floatMin [(.str ['0'], (0 : Rat))] true = .error .value := by decide +kernel
example : Translated.mod_init ratIsClose floatMin [(.str ['0', 'a'], (1 : Rat))] true = .error .value := by decide +kernel
example : Translated.mod_init ratIsClose floatMin [(.other, (1 : Rat))] true = .error .runtime := by decide +kernel
example : Translated.mod_init ratIsClose floatMin [(.tup [0], 1/4), (.tup [1], 1/4)] false = .ok [([0], 1/4), ([1], 1/4)] := by
  decide +kernel
-- marginal onto the reordered proper subset [2, 0]; negative index; the guards
example : Translated.mod_subdistribution ratIsClose floatMin [([0, 1, 1], 1/4), ([1, 0, 1], 1/2), ([1, 1, 1], 1/4)] [2, 0] =
    .ok ([([0, 1, 1], 1/4), ([1, 0, 1], 1/2), ([1, 1, 1], 1/4)], [([1, 0], 1/4), ([1, 1], 3/4)]) := by decide +kernel
example : Translated.mod_subdistribution ratIsClose floatMin [([0, 1], 1/2), ([1, 0], 1/2)] [-1] =
    .ok ([([0, 1], 1/2), ([1, 0], 1/2)], [([1], 1/2), ([0], 1/2)]) := by decide +kernel
example : Translated.mod_subdistribution ratIsClose floatMin [([0, 1], 1/2), ([1, 0], 1/2)] [1, 1] = .error .value := by decide +kernel
example : Translated.mod_subdistribution ratIsClose floatMin [([0, 1], 1/2), ([1, 0], 1/2)] [2] = .error .value := by decide +kernel
example : Translated.mod_subdistribution ratIsClose floatMin [([0, 1], 1/2), ([1, 0], 1/2)] [-3] = .error .index := by decide +kernel
example : Translated.mod_subdistribution ratIsClose floatMin [([0, 1], (1/2 : Rat))] [] = .error .value := by decide +kernel
example : Translated.mod_subdistribution ratIsClose floatMin ([] : Dict Key) [0] = .error .index := by decide +kernel
example : Translated.normalize_measurement_outcome_distribution floatMin [([0], (1 : Rat)), ([1], 3)] =
    .ok [([0], 1/4), ([1], 3/4)] := by decide +kernel
example : Translated.change_tuple_dict_keys_to_comma_separated_integers (dictTupKeys [([12, 4], (1/2 : Rat)), ([3, 5], 1/2)]) =
    [(.str ['1', '2', ',', '4'], 1/2), (.str ['3', ',', '5'], 1/2)] := by decide +kernel
example : Translated.is_key_length_fixed ([] : Dict Key) = .error .index := by decide +kernel
/-- the hypotheses of `translated_marginal` are met by this receiver -/
example : Valid [([0, 1, 1], 1/4), ([1, 0, 1], 1/2), ([1, 1, 1], 1/4)] 3 := by
  refine ⟨by decide, by decide, by decide, by decide +kernel, by decide⟩

end OQ.C17
