/-
  C07 ⟷ C02 — LINKED PROPERTY THEOREMS: the hypotheses `HermOK` (truthful `is_hermitian` flags) and `WellDim`
  (every base factory returns a 2^n square matrix) of OQ/Props/C07.lean are THEOREMS of OQ/Props/C02.lean for the 27
  built-in gates (`flag_hermitian`, `builtin_dim`, `builtin_unitary`, proved against the gate table regenerated from
  /repo, over every commutative ⋆-ring with the constant laws `Laws k`, at all valid angle points `Valid a`).
  This file composes the two modules: for every gate whose base gates are built-in gates (`Builtin k g`, closed
  under all modifier methods: `builtin_closed`, `builtin_chain`) the C07 theorems hold with NO `HermOK` / `WellDim`
  hypothesis and with the dimension hypotheses `M.r = D`, `M.c = D` replaced by the conclusion `D = 2^num_qubits`.
  In addition (`builtin_unitary`): dagger / controlled / integer power of a built-in gate is unitary.

  Helper lemmas and the definitions `BuiltinBase`, `Builtin`, `BuiltinInt`, `UShape`, `Pure`, `Gate.All`, `Gate.Mod.Sat`,
  `realBase`: OQ/Lemmas/C07_Link.lean.  What stays a hypothesis: the laws of the sympy externals (`ExtLaws`, `ExpLaw`),
  `Laws k` (discharged at ℂ and ℚ(ζ₈) by `kC_laws`, `cyc8_laws`), `NoFrac` below a dagger (finding F16: the sentence is
  false of the code otherwise) and, for the block theorem on an arbitrary wrapper TREE, the shape invariant `Canon`
  (automatic for method-built gates: the `_chain` versions have no such hypothesis).
-/
import OQ.Lemmas.C07_Link
import OQ.Props.C07
namespace OQ.C07.Link
open Matrix OQ.Generated
open OQ.C02 (Row Laws Valid IsUnitaryOf kC angR kC_laws angR_valid cyc8_laws cyc8_valid_of_rat)

section Generic
variable {R : Type} [CommRing R] [StarRing R] {k : Scal R} {x : Ext R}

/-! ## the two models speak about the same gates -/

omit [StarRing R] in
/-- the flags and qubit counts hard-coded in the C07 model (`hermitianNames`, `builtinNumQubits`) are those of every
    row of the gate table regenerated from `_builtin_gates.py` (the table C02's theorems are about) -/
theorem model_table_agree : ∀ row ∈ gateTable,
    (Base.builtin k (Row.name row) ([] : List (Param R))).hermitian = Row.isHermitian row ∧
    (Base.builtin k (Row.name row) ([] : List (Param R))).numQubits = Row.numQubits row :=
  fun row hrow => table_agree row hrow

omit [StarRing R] in
/-- `.matrix` of a built-in base gate in the C07 model succeeds exactly when, and with the same matrix as,
    `<gate>.matrix` in the C02 model (same factory, row of the generated table, right number of parameters) -/
theorem builtin_base_matrix (cj : R → R) (row : Row) (hrow : row ∈ gateTable) (ps : List (Param R))
    (hl : ps.length = Row.numParams row) (M : Mat R) :
    gateMatrix cj x (.base (Base.builtin k (Row.name row) ps)) = .ok M ↔
      C02.gateMatrix gateTable k (Row.name row) (angs ps) = .ok M :=
  builtin_factory_ok_iff k row hrow ps hl M

/-! ## `Builtin` is closed under the modifier methods; it implies `WellDim` and `HermOK` -/

/-- every modifier method keeps "all base gates are built-in gates" -/
theorem builtin_closed (g : Gate (Param R) R) (h : Builtin k g) :
    Builtin k g.daggerM ∧ (∀ m, Builtin k (g.ctlP m)) ∧ (∀ e, Builtin k (g.powerM e)) ∧ Builtin k g.expM :=
  ⟨Gate.all_daggerM g h, fun m => Gate.all_ctlP g m h, fun e => Gate.all_powerM g e trivial h,
    Gate.all_expM g trivial h⟩

/-- hence every gate built from a built-in gate by ANY chain of modifier calls (any depth, any order, any exponents) -/
theorem builtin_chain (b : Base (Param R) R) (hb : BuiltinBase k b) (ms : List Gate.Mod) :
    Builtin k (Gate.applyChain (.base b) ms) :=
  Gate.all_applyChain ms (fun m _ => by cases m <;> trivial) (.base b) hb

/-- a chain whose `.power` calls all have integer exponents builds a gate without non-integer `Power` (`NoFrac`),
    wherever the daggers / controls / exps are interleaved -/
theorem noFrac_chain {P : Type} (b : Base P R) (ms : List Gate.Mod)
    (hms : ∀ m ∈ ms, m.Sat (fun e => e.den = 1) True) : NoFrac (Gate.applyChain (.base b) ms) :=
  noFrac_of_all (pb := fun _ => True) (fun _ h => h) _ (Gate.all_applyChain ms hms (.base b) trivial)

/-- C07's hypothesis `WellDim` is C02's theorem `builtin_dim` -/
theorem wellDim_builtin (g : Gate (Param R) R) (h : Builtin k g) : WellDim g :=
  wellDim_of_all (wellDim_base k) g h

/-- C07's hypothesis `HermOK` is C02's theorem `flag_hermitian` -/
theorem hermOK_builtin (hk : Laws k) (g : Gate (Param R) R) (h : Builtin k g) : HermOK g :=
  hermOK_of_all (hermOK_base hk) g h

/-- "the modified gate reports the implied number of qubits", semantically: whenever the matrix of a gate over
    built-in bases can be computed it is square of dimension 2^num_qubits (no `WellDim` hypothesis) -/
theorem matrix_dim_builtin (hx : ExtLaws x) (g : Gate (Param R) R) (h : Builtin k g) (M : Mat R)
    (hM : gateMatrix star x g = .ok M) : M.r = 2 ^ g.numQubits ∧ M.c = 2 ^ g.numQubits :=
  gateMatrix_dim hx g (wellDim_builtin g h) M hM

/-- dagger / controlled / non-negative integer power of built-in gates never raise and never call sympy:
    the matrix is computed whatever the externals do (non-vacuity of every theorem below) -/
theorem matrix_computable_builtin (x : Ext R) (g : Gate (Param R) R) (h : Pure k g) :
    ∃ M, gateMatrix star x g = .ok M := by
  induction g with
  | base b => exact ok_base k b h
  | controlled y m ih =>
    obtain ⟨Y, hY⟩ := ih h
    exact ⟨_, by simp only [gateMatrix, hY, ok_bind]; rfl⟩
  | dagger y ih =>
    obtain ⟨Y, hY⟩ := ih h
    exact ⟨_, by simp only [gateMatrix, hY, ok_bind]; rfl⟩
  | power y e ih =>
    obtain ⟨⟨he, hn⟩, h'⟩ := h
    obtain ⟨Y, hY⟩ := ih h'
    exact ⟨npow Y e.num.toNat, by simp only [gateMatrix, hY, ok_bind, mpow, he, if_true, ipow, hn]⟩
  | exponential y ih => exact h.1.elim

/-! ## the C07 matrix theorems without `HermOK` / `WellDim` / dimension hypotheses -/

/-- "for dagger the conjugate transpose" for every gate over built-in bases: `dagger_adjoint_partial` with `HermOK`
    (by C02 `flag_hermitian`), `WellDim` (by C02 `builtin_dim`) and `M.r = D`, `M.c = D` removed.  `NoFrac` stays
    (F16: false of the code below a non-integer power). -/
theorem dagger_adjoint_builtin (hx : ExtLaws x) (E : ∀ d, Matrix (Fin d) (Fin d) R → Matrix (Fin d) (Fin d) R)
    (hE : ExpLaw x E) (hEs : ∀ d A, E d Aᴴ = (E d A)ᴴ) (hk : Laws k)
    (g : Gate (Param R) R) (hb : Builtin k g) (hnf : NoFrac g)
    (M M' : Mat R) (hM : gateMatrix star x g = .ok M) (hM' : gateMatrix star x g.daggerM = .ok M') :
    M.r = 2 ^ g.numQubits ∧ M.c = 2 ^ g.numQubits ∧ M'.r = 2 ^ g.numQubits ∧ M'.c = 2 ^ g.numQubits ∧
      Mat.toM (2 ^ g.numQubits) (2 ^ g.numQubits) M' = (Mat.toM (2 ^ g.numQubits) (2 ^ g.numQubits) M)ᴴ := by
  obtain ⟨hr, hc⟩ := matrix_dim_builtin hx g hb M hM
  obtain ⟨a, b, c⟩ := dagger_adjoint_partial hx E hE hEs g (wellDim_builtin g hb) hnf (hermOK_builtin hk g hb)
    M M' _ hM hM' hr hc
  exact ⟨hr, hc, a, b, c⟩

/-- the same for method-built gates: ANY chain of `.dagger / .controlled(n) / .power(integer) / .exp` calls on a
    built-in gate at valid angle points, then `.dagger` — no hypothesis on the gate left at all -/
theorem dagger_adjoint_chain_builtin (hx : ExtLaws x) (E : ∀ d, Matrix (Fin d) (Fin d) R → Matrix (Fin d) (Fin d) R)
    (hE : ExpLaw x E) (hEs : ∀ d A, E d Aᴴ = (E d A)ᴴ) (hk : Laws k)
    (row : Row) (hrow : row ∈ gateTable) (ps : List (Param R)) (hl : ps.length = Row.numParams row)
    (hv : ∀ p ∈ ps, Valid p.toAng) (ms : List Gate.Mod) (hms : ∀ m ∈ ms, m.Sat (fun e => e.den = 1) True)
    (M M' : Mat R)
    (hM : gateMatrix star x (Gate.applyChain (.base (Base.builtin k (Row.name row) ps)) ms) = .ok M)
    (hM' : gateMatrix star x (Gate.applyChain (.base (Base.builtin k (Row.name row) ps)) ms).daggerM = .ok M') :
    let n := (Gate.applyChain (.base (Base.builtin k (Row.name row) ps)) ms).numQubits
    M'.r = 2 ^ n ∧ M'.c = 2 ^ n ∧ Mat.toM (2 ^ n) (2 ^ n) M' = (Mat.toM (2 ^ n) (2 ^ n) M)ᴴ := by
  intro n
  obtain ⟨_, _, a, b, c⟩ := dagger_adjoint_builtin hx E hE hEs hk _
    (builtin_chain _ ⟨row, hrow, ps, rfl, hl, hv⟩ ms) (noFrac_chain _ ms hms) M M' hM hM'
  exact ⟨a, b, c⟩

/-- "for k controls the identity on the first 2^n(2^k − 1) basis states followed by the original matrix":
    `controlled_matrix_block` with `WellDim` removed (C02 `builtin_dim`) -/
theorem controlled_matrix_block_builtin (hx : ExtLaws x) (g : Gate (Param R) R) (hcn : g.Canon) (hb : Builtin k g)
    (m : Nat) (M M' : Mat R) (hM : gateMatrix star x g = .ok M) (hM' : gateMatrix star x (g.ctlP m) = .ok M') :
    let d := 2 ^ g.numQubits
    let d0 := 2 ^ g.numQubits * (2 ^ (m + 1) - 1)
    M'.r = d0 + d ∧ M'.c = d0 + d ∧ ∀ i j, i < d0 + d → j < d0 + d →
      M'.get i j = if i < d0 ∧ j < d0 then (if i = j then 1 else 0)
        else if d0 ≤ i ∧ d0 ≤ j then M.get (i - d0) (j - d0) else 0 :=
  controlled_matrix_block hx g hcn (wellDim_builtin g hb) m M M' hM hM'

/-- the same for method-built gates: `Canon` (by `canon_reachable`) and `WellDim` both discharged — any chain of
    modifier calls on a built-in gate, then `.controlled(m+1)` -/
theorem controlled_matrix_block_chain_builtin (hx : ExtLaws x)
    (row : Row) (hrow : row ∈ gateTable) (ps : List (Param R)) (hl : ps.length = Row.numParams row)
    (hv : ∀ p ∈ ps, Valid p.toAng) (ms : List Gate.Mod) (m : Nat) (M M' : Mat R)
    (hM : gateMatrix star x (Gate.applyChain (.base (Base.builtin k (Row.name row) ps)) ms) = .ok M)
    (hM' : gateMatrix star x ((Gate.applyChain (.base (Base.builtin k (Row.name row) ps)) ms).ctlP m) = .ok M') :
    let n := (Gate.applyChain (.base (Base.builtin k (Row.name row) ps)) ms).numQubits
    let d0 := 2 ^ n * (2 ^ (m + 1) - 1)
    M'.r = d0 + 2 ^ n ∧ M'.c = d0 + 2 ^ n ∧ ∀ i j, i < d0 + 2 ^ n → j < d0 + 2 ^ n →
      M'.get i j = if i < d0 ∧ j < d0 then (if i = j then 1 else 0)
        else if d0 ≤ i ∧ d0 ≤ j then M.get (i - d0) (j - d0) else 0 :=
  controlled_matrix_block_builtin hx _ (canon_reachable _ ms) (builtin_chain _ ⟨row, hrow, ps, rfl, hl, hv⟩ ms)
    m M M' hM hM'

/-- "for an integer power the repeated product": `ipow_matrix` with `M.r = D`, `M.c = D` replaced by the derived
    `D = 2^num_qubits` -/
theorem ipow_matrix_builtin (hx : ExtLaws x) (g : Gate (Param R) R) (hb : Builtin k g) (e : Rat) (he : e.den = 1)
    (hn : 0 ≤ e.num) (M M' : Mat R) (hM : gateMatrix star x g = .ok M)
    (hM' : gateMatrix star x (g.powerM e) = .ok M') :
    M'.r = 2 ^ g.numQubits ∧ M'.c = 2 ^ g.numQubits ∧
      Mat.toM (2 ^ g.numQubits) (2 ^ g.numQubits) M' = Mat.toM (2 ^ g.numQubits) (2 ^ g.numQubits) M ^ e.num.toNat := by
  obtain ⟨hr, hc⟩ := matrix_dim_builtin hx g hb M hM
  exact ipow_matrix hx g e he hn M M' _ hM hM' hr hc

/-- "for a fractional power 1/q a matrix whose q-th power is the original": `root_matrix` without the dimension
    hypotheses -/
theorem root_matrix_builtin (hx : ExtLaws x) (g : Gate (Param R) R) (hb : Builtin k g) (e : Rat) (he : e.num = 1)
    (hq : 2 ≤ e.den) (M M' : Mat R) (hM : gateMatrix star x g = .ok M)
    (hM' : gateMatrix star x (g.powerM e) = .ok M') :
    M'.r = 2 ^ g.numQubits ∧ M'.c = 2 ^ g.numQubits ∧
      Mat.toM (2 ^ g.numQubits) (2 ^ g.numQubits) M' ^ e.den = Mat.toM (2 ^ g.numQubits) (2 ^ g.numQubits) M := by
  obtain ⟨hr, hc⟩ := matrix_dim_builtin hx g hb M hM
  exact root_matrix hx g e he hq M M' _ hM hM' hr hc

/-! ## unitarity survives dagger / controlled / integer power (C02 `builtin_unitary` + C07) -/

/-- every wrapper tree over built-in gates that uses only `Dagger`, `ControlledGate` and `Power` with integer
    exponents has a unitary matrix of dimension 2^num_qubits (negative exponents: sympy's inverse, under `ExtLaws`) -/
theorem unitary_builtin (hx : ExtLaws x) (hk : Laws k) (g : Gate (Param R) R) (hs : UShape k g) :
    ∀ M, gateMatrix star x g = .ok M → IsUnitaryOf (2 ^ g.numQubits) M := by
  induction g with
  | base b => intro M hM; exact unitary_base hk b hs M hM
  | controlled y m ih =>
    intro M hM
    simp only [gateMatrix, bind_eq_ok] at hM
    obtain ⟨Y, hY, h2⟩ := hM
    cases h2
    have := ctl_unitary (2 ^ (y.numQubits + (m + 1)) - 2 ^ y.numQubits) (2 ^ y.numQubits) Y (ih hs Y hY)
    rw [two_pow_split] at this
    exact this
  | dagger y ih =>
    intro M hM
    simp only [gateMatrix, bind_eq_ok] at hM
    obtain ⟨Y, hY, h2⟩ := hM
    cases h2
    exact adjoint_unitary _ Y (ih hs Y hY)
  | power y e ih =>
    intro M hM
    simp only [gateMatrix, bind_eq_ok] at hM
    obtain ⟨Y, hY, h2⟩ := hM
    exact mpow_int_unitary hx _ Y M e hs.1 (ih hs.2 Y hY) h2
  | exponential y ih => exact hs.1.elim

/-- "the modified gate of a unitary built-in is unitary": for `g` as above, the matrices of `g.dagger`,
    `g.controlled(m+1)` and `g.power(e)` (`e` any integer) are unitary of the implied dimension -/
theorem modified_unitary_builtin (hx : ExtLaws x) (hk : Laws k) (g : Gate (Param R) R) (hs : UShape k g) :
    (∀ M, gateMatrix star x g.daggerM = .ok M → IsUnitaryOf (2 ^ g.numQubits) M) ∧
    (∀ m M, gateMatrix star x (g.ctlP m) = .ok M → IsUnitaryOf (2 ^ (g.numQubits + (m + 1))) M) ∧
    (∀ e : Rat, e.den = 1 → ∀ M, gateMatrix star x (g.powerM e) = .ok M → IsUnitaryOf (2 ^ g.numQubits) M) := by
  refine ⟨?_, ?_, ?_⟩
  · intro M hM
    have := unitary_builtin hx hk g.daggerM (Gate.all_daggerM g hs) M hM
    rwa [Gate.numQubits_daggerM] at this
  · intro m M hM
    have := unitary_builtin hx hk (g.ctlP m) (Gate.all_ctlP g m hs) M hM
    rwa [Gate.numQubits_ctlP] at this
  · intro e he M hM
    have := unitary_builtin hx hk (g.powerM e) (Gate.all_powerM g e he hs) M hM
    rwa [Gate.numQubits_powerM] at this

/-- method-built form: any chain of `.dagger / .controlled(n) / .power(integer)` calls on a built-in gate at valid
    angle points gives a unitary -/
theorem chain_unitary_builtin (hx : ExtLaws x) (hk : Laws k)
    (row : Row) (hrow : row ∈ gateTable) (ps : List (Param R)) (hl : ps.length = Row.numParams row)
    (hv : ∀ p ∈ ps, Valid p.toAng) (ms : List Gate.Mod) (hms : ∀ m ∈ ms, m.Sat (fun e => e.den = 1) False)
    (M : Mat R) (hM : gateMatrix star x (Gate.applyChain (.base (Base.builtin k (Row.name row) ps)) ms) = .ok M) :
    IsUnitaryOf (2 ^ (Gate.applyChain (.base (Base.builtin k (Row.name row) ps)) ms).numQubits) M :=
  unitary_builtin hx hk _ (Gate.all_applyChain ms hms (.base _) ⟨row, hrow, ps, rfl, hl, hv⟩) M hM

/-- "(inverse for negative exponents)" sharpened by unitarity: `ipow_neg_matrix` without dimension hypotheses and
    with the two-sided inverse `W` IDENTIFIED — `g.power(-n)` is the `n`-fold product of the conjugate transpose -/
theorem ipow_neg_matrix_builtin (hx : ExtLaws x) (hk : Laws k) (g : Gate (Param R) R) (hs : UShape k g)
    (e : Rat) (he : e.den = 1) (hn : e.num < 0) (M M' : Mat R) (hM : gateMatrix star x g = .ok M)
    (hM' : gateMatrix star x (g.powerM e) = .ok M') :
    M'.r = 2 ^ g.numQubits ∧ M'.c = 2 ^ g.numQubits ∧
      Mat.toM (2 ^ g.numQubits) (2 ^ g.numQubits) M' =
        (Mat.toM (2 ^ g.numQubits) (2 ^ g.numQubits) M)ᴴ ^ (-e.num).toNat := by
  obtain ⟨hr, hc, hU⟩ := unitary_builtin hx hk g hs M hM
  obtain ⟨a, b, W, w1, _, w3⟩ := ipow_neg_matrix hx g e he hn M M' _ hM hM' hr hc
  refine ⟨a, b, ?_⟩
  rw [w3, inv_of_isU _ W hU w1]

end Generic

/-! ## corollaries at R = ℂ for ALL REAL parameter values (C02's `kC`, `angR`; every law of the constants discharged) -/
section Complex
variable {x : Ext ℂ}

/-- `NAME(θ₁,…)` of the table at real angles, under any chain of modifier calls: all bases are built-in gates -/
theorem real_builtin (row : Row) (hrow : row ∈ gateTable) (θs : List ℝ) (hl : θs.length = Row.numParams row)
    (ms : List Gate.Mod) : Builtin kC (Gate.applyChain (.base (realBase (Row.name row) θs)) ms) :=
  builtin_chain _ (real_builtinBase row hrow θs hl) ms

/-- "for dagger the conjugate transpose" over ℂ: every built-in gate, every list of real angles, every chain of
    `.dagger / .controlled(n) / .power(integer) / .exp` calls; `(e^A)ᴴ = e^{Aᴴ}` discharged by Mathlib, the flags and
    dimensions by C02.  Remaining hypotheses: only the laws of sympy's `inv` / `exp` (`exp_dagger` of C07 without
    `WellDim`, `HermOK`, `M.r = D`, `M.c = D`). -/
theorem real_dagger_adjoint (hx : ExtLaws x) (hE : ExpLaw x (fun _ A => NormedSpace.exp A))
    (row : Row) (hrow : row ∈ gateTable) (θs : List ℝ) (hl : θs.length = Row.numParams row)
    (ms : List Gate.Mod) (hms : ∀ m ∈ ms, m.Sat (fun e => e.den = 1) True) (M M' : Mat ℂ)
    (hM : gateMatrix star x (Gate.applyChain (.base (realBase (Row.name row) θs)) ms) = .ok M)
    (hM' : gateMatrix star x (Gate.applyChain (.base (realBase (Row.name row) θs)) ms).daggerM = .ok M') :
    let n := (Gate.applyChain (.base (realBase (Row.name row) θs)) ms).numQubits
    M'.r = 2 ^ n ∧ M'.c = 2 ^ n ∧ Mat.toM (2 ^ n) (2 ^ n) M' = (Mat.toM (2 ^ n) (2 ^ n) M)ᴴ := by
  intro n
  obtain ⟨_, _, a, b, c⟩ := dagger_adjoint_builtin hx _ hE (fun _ A => Matrix.exp_conjTranspose A) kC_laws _
    (real_builtin row hrow θs hl ms) (noFrac_chain _ ms hms) M M' hM hM'
  exact ⟨a, b, c⟩

/-- the block form of `.controlled(m+1)` over ℂ for every method-built gate over a built-in gate at real angles -/
theorem real_controlled_matrix_block (hx : ExtLaws x)
    (row : Row) (hrow : row ∈ gateTable) (θs : List ℝ) (hl : θs.length = Row.numParams row)
    (ms : List Gate.Mod) (m : Nat) (M M' : Mat ℂ)
    (hM : gateMatrix star x (Gate.applyChain (.base (realBase (Row.name row) θs)) ms) = .ok M)
    (hM' : gateMatrix star x ((Gate.applyChain (.base (realBase (Row.name row) θs)) ms).ctlP m) = .ok M') :
    let n := (Gate.applyChain (.base (realBase (Row.name row) θs)) ms).numQubits
    let d0 := 2 ^ n * (2 ^ (m + 1) - 1)
    M'.r = d0 + 2 ^ n ∧ M'.c = d0 + 2 ^ n ∧ ∀ i j, i < d0 + 2 ^ n → j < d0 + 2 ^ n →
      M'.get i j = if i < d0 ∧ j < d0 then (if i = j then 1 else 0)
        else if d0 ≤ i ∧ d0 ≤ j then M.get (i - d0) (j - d0) else 0 :=
  controlled_matrix_block_builtin hx _ (canon_reachable _ ms) (real_builtin row hrow θs hl ms) m M M' hM hM'

/-- every chain of `.dagger / .controlled(n) / .power(integer)` calls on a built-in gate at real angles has a
    unitary matrix over ℂ -/
theorem real_chain_unitary (hx : ExtLaws x)
    (row : Row) (hrow : row ∈ gateTable) (θs : List ℝ) (hl : θs.length = Row.numParams row)
    (ms : List Gate.Mod) (hms : ∀ m ∈ ms, m.Sat (fun e => e.den = 1) False) (M : Mat ℂ)
    (hM : gateMatrix star x (Gate.applyChain (.base (realBase (Row.name row) θs)) ms) = .ok M) :
    IsUnitaryOf (2 ^ (Gate.applyChain (.base (realBase (Row.name row) θs)) ms).numQubits) M :=
  unitary_builtin hx kC_laws _ (Gate.all_applyChain ms hms (.base _) (real_builtinBase row hrow θs hl)) M hM

end Complex

/-! ## corollaries for the exact values the model driver computes (R = ℚ(ζ₈), rational circle points, `conj`) -/
section Driver
variable {x : Ext Cyc8}

/-- the matrices the driver (`gateMatrix conj …` on `Base.builtin Scal.cyc8`) prints for `g` and `g.dagger` are EXACT
    conjugate transposes of each other, for every built-in gate at rational circle points under every chain of
    `.dagger / .controlled(n) / .power(integer) / .exp` calls (laws of the externals assumed, nothing else) -/
theorem driver_dagger_adjoint (hx : ExtLaws x) (E : ∀ d, Matrix (Fin d) (Fin d) Cyc8 → Matrix (Fin d) (Fin d) Cyc8)
    (hE : ExpLaw x E) (hEs : ∀ d A, E d Aᴴ = (E d A)ᴴ)
    (row : Row) (hrow : row ∈ gateTable) (qs : List (Rat × Rat)) (hl : qs.length = Row.numParams row)
    (hq : ∀ p ∈ qs, p.1 * p.1 + p.2 * p.2 = 1)
    (ms : List Gate.Mod) (hms : ∀ m ∈ ms, m.Sat (fun e => e.den = 1) True) (M M' : Mat Cyc8)
    (hM : gateMatrix conj x (Gate.applyChain (.base (Base.builtin Scal.cyc8 (Row.name row) (ratParams qs))) ms) = .ok M)
    (hM' : gateMatrix conj x
      (Gate.applyChain (.base (Base.builtin Scal.cyc8 (Row.name row) (ratParams qs))) ms).daggerM = .ok M') :
    let n := (Gate.applyChain (.base (Base.builtin Scal.cyc8 (Row.name row) (ratParams qs))) ms).numQubits
    M'.r = 2 ^ n ∧ M'.c = 2 ^ n ∧ Mat.toM (2 ^ n) (2 ^ n) M' = (Mat.toM (2 ^ n) (2 ^ n) M)ᴴ := by
  intro n
  obtain ⟨_, _, a, b, c⟩ := dagger_adjoint_builtin hx E hE hEs cyc8_laws _
    (builtin_chain _ (driver_builtinBase row hrow qs hl hq) ms) (noFrac_chain _ ms hms) M M' hM hM'
  exact ⟨a, b, c⟩

/-- … and under `.dagger / .controlled(n) / .power(integer)` chains they are EXACTLY unitary -/
theorem driver_chain_unitary (hx : ExtLaws x)
    (row : Row) (hrow : row ∈ gateTable) (qs : List (Rat × Rat)) (hl : qs.length = Row.numParams row)
    (hq : ∀ p ∈ qs, p.1 * p.1 + p.2 * p.2 = 1)
    (ms : List Gate.Mod) (hms : ∀ m ∈ ms, m.Sat (fun e => e.den = 1) False) (M : Mat Cyc8)
    (hM : gateMatrix conj x (Gate.applyChain (.base (Base.builtin Scal.cyc8 (Row.name row) (ratParams qs))) ms) = .ok M) :
    IsUnitaryOf (2 ^ (Gate.applyChain (.base (Base.builtin Scal.cyc8 (Row.name row) (ratParams qs))) ms).numQubits) M :=
  unitary_builtin hx cyc8_laws _
    (Gate.all_applyChain ms hms (.base _) (driver_builtinBase row hrow qs hl hq)) M hM

end Driver

/-! ### non-vacuity: concrete non-trivial inputs meeting the hypotheses -/
section NonVacuity
open Inst

example : BuiltinBase Scal.cyc8 xBase := ⟨("X", 1, 0, true), by decide, [], rfl, rfl, by simp⟩
example : BuiltinBase Scal.cyc8 rxBase := rxBase_builtin
example : Laws Scal.cyc8 ∧ Laws kC := ⟨cyc8_laws, kC_laws⟩
-- the `HermOK` path is exercised: X is flagged, its `.dagger` is the gate itself (C02 `flag_hermitian` makes that right)
example : (Gate.base xBase).daggerM = .base xBase := rfl

example : gEx = .controlled (.power (.base rxBase) 2) 0 := rfl
-- its dagger really contains a `Dagger` node below the power below the controls
example : gEx.daggerM = .controlled (.power (.dagger (.base rxBase)) 2) 0 := rfl
example : gEx.numQubits = 2 ∧ (gEx.ctlP 1).numQubits = 4 := by decide

-- dagger_adjoint_builtin / dagger_adjoint_chain_builtin: all hypotheses hold together, both matrices exist
example : ∃ M M', ExtLaws (extNone Cyc8) ∧ ExpLaw (extNone Cyc8) (fun _ A => A) ∧ Laws Scal.cyc8 ∧
    Builtin Scal.cyc8 gEx ∧ NoFrac gEx ∧
    gateMatrix star (extNone Cyc8) gEx = .ok M ∧ gateMatrix star (extNone Cyc8) gEx.daggerM = .ok M' := by
  obtain ⟨M, hM⟩ := matrix_computable_builtin (extNone Cyc8) gEx gEx_pure
  obtain ⟨M', hM'⟩ := matrix_computable_builtin (extNone Cyc8) gEx.daggerM (Gate.all_daggerM _ gEx_pure)
  exact ⟨M, M', extNone_laws _, extNone_exp _ _, cyc8_laws,
    builtin_of_int _ (int_of_ushape _ (ushape_of_pure _ gEx_pure)), ⟨rfl, trivial⟩, hM, hM'⟩

-- controlled_matrix_block_builtin (merge of control counts), ipow_matrix_builtin, modified_unitary_builtin
example : ∃ M M' M'', gEx.Canon ∧ UShape Scal.cyc8 gEx ∧ gateMatrix star (extNone Cyc8) gEx = .ok M ∧
    gateMatrix star (extNone Cyc8) (gEx.ctlP 1) = .ok M' ∧ (3 : Rat).den = 1 ∧ 0 ≤ (3 : Rat).num ∧
    gateMatrix star (extNone Cyc8) (gEx.powerM 3) = .ok M'' := by
  obtain ⟨M, hM⟩ := matrix_computable_builtin (extNone Cyc8) gEx gEx_pure
  obtain ⟨M', hM'⟩ := matrix_computable_builtin (extNone Cyc8) (gEx.ctlP 1) (Gate.all_ctlP _ 1 gEx_pure)
  obtain ⟨M'', hM''⟩ := matrix_computable_builtin (extNone Cyc8) (gEx.powerM 3)
    (Gate.all_powerM _ 3 ⟨rfl, by decide⟩ gEx_pure)
  exact ⟨M, M', M'', canon_reachable _ _, ushape_of_pure _ gEx_pure, hM, hM', rfl, by decide, hM''⟩

-- ipow_neg_matrix_builtin: with a true-inverse external, `X.power(-2)` has a matrix (the inverse exists: X is unitary)
example : ∃ M M', ExtLaws (extInv Cyc8) ∧ UShape Scal.cyc8 (.base xBase) ∧ (-2 : Rat).den = 1 ∧ (-2 : Rat).num < 0 ∧
    gateMatrix star (extInv Cyc8) (.base xBase) = .ok M ∧
    gateMatrix star (extInv Cyc8) ((Gate.base xBase).powerM (-2)) = .ok M' := by
  have hb : BuiltinBase Scal.cyc8 xBase := ⟨("X", 1, 0, true), by decide, [], rfl, rfl, by simp⟩
  obtain ⟨M, hM⟩ := ok_base Scal.cyc8 xBase hb
  obtain ⟨Mi, hMi⟩ := extInv_ok_of_unitary _ M (unitary_base cyc8_laws xBase hb M hM)
  refine ⟨M, npow Mi (-(-2 : Rat).num).toNat, extInv_laws _, hb, rfl, by decide, hM, ?_⟩
  show (xBase.factory xBase.params).bind (fun M => mpow (extInv Cyc8) M (-2)) = _
  rw [hM]
  exact mpow_neg_ok _ M Mi (-2) rfl (by decide) hMi

-- real_dagger_adjoint / real_chain_unitary: CPHASE(θ) for EVERY real θ under controlled(2), dagger, power(3)
example (θ : ℝ) : ∃ M M', ExtLaws (extNone ℂ) ∧ ExpLaw (extNone ℂ) (fun _ A => NormedSpace.exp A) ∧
    ("CPHASE", 2, 1, false) ∈ gateTable ∧
    gateMatrix star (extNone ℂ) (Gate.applyChain (.base (realBase "CPHASE" [θ])) [.controlled 1, .dagger, .power 3]) = .ok M ∧
    gateMatrix star (extNone ℂ)
      (Gate.applyChain (.base (realBase "CPHASE" [θ])) [.controlled 1, .dagger, .power 3]).daggerM = .ok M' := by
  have hp : Pure kC (Gate.applyChain (.base (realBase "CPHASE" [θ])) [.controlled 1, .dagger, .power 3]) :=
    Gate.all_applyChain _ (by
      intro m hm
      simp only [List.mem_cons, List.not_mem_nil, or_false] at hm
      rcases hm with rfl | rfl | rfl
      · trivial
      · trivial
      · exact ⟨rfl, by decide⟩) _ (real_builtinBase ("CPHASE", 2, 1, false) (by decide) [θ] rfl)
  obtain ⟨M, hM⟩ := matrix_computable_builtin (extNone ℂ) _ hp
  obtain ⟨M', hM'⟩ := matrix_computable_builtin (extNone ℂ) _ (Gate.all_daggerM _ hp)
  exact ⟨M, M', extNone_laws _, extNone_exp _ _, by decide, hM, hM'⟩

end NonVacuity

end OQ.C07.Link
