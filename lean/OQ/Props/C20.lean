/-
  C20 — PROPERTY THEOREMS: value-returning operations never modify their arguments.
  Model: OQ/Model/C20.lean (object store + every listed operation as `valueOf` / `effects` / `step`).
  Helper lemmas: OQ/Lemmas/C20.lean.

  What is proved is the frame condition OF THE MODEL, for every store, every call and every history.
  That the model's `effects` are the writes the Python code performs is the job of the correspondence
  run (deep snapshots of every live object before/after each real call); see harness/props/c20.py.
-/
import OQ.Lemmas.C20
namespace OQ.C20

/-- "…all leave every argument, including the receiver, … identical": one call never writes an existing
    cell – the store before the call is a PREFIX of the store after it.  Holds for every listed operation
    (composing, binding, inverting, controlling a circuit; adding, multiplying, powering, simplifying,
    conjugating an operator; counts / distribution / representing measurements; constructing and
    marginalising distributions; wavefunction construction, bind, probabilities; every report),
    for arbitrary (even ill-typed or dangling) arguments, and whether the call succeeds or raises. -/
theorem frame_step (h : Heap) (c : Call) : h <+: (step h c).1 := by
  unfold step
  split
  · exact List.prefix_rfl
  · exact effects_frame h c _

/-- "observably identical to its state before the call": whatever could be observed of ANY object of the
    store before the call (receiver, arguments, every other shared object, followed through all fields)
    is observed unchanged after it. -/
theorem observe_step (h : Heap) (c : Call) {r : Ref} {o : Obs} (ho : view? h r = some o) :
    view? (step h c).1 r = some o :=
  view?_mono (frame_step h c) ho

/-- a call that raises leaves the store as it was -/
theorem error_leaves_store (h : Heap) (c : Call) (e : Err) (he : (step h c).2.out = .err e) :
    (step h c).1 = h := by
  unfold step at he ⊢
  split
  · rfl
  · rename_i v hv; simp only [hv] at he; cases he

/-- reports (counts, probabilities, and every report whose numbers are not modelled: `to_unitary`,
    `to_dict`, `str`, expectation values, parities, distances, saving) do not even allocate -/
theorem report_leaves_store (h : Heap) (kind : String) (args : List Ref) (m w : Ref) :
    (step h (.report kind args)).1 = h ∧ (step h (.measCounts m)).1 = h ∧ (step h (.wfProbs w)).1 = h := by
  refine ⟨?_, ?_, ?_⟩ <;> (unfold step; split <;> simp only [effects])

/-- Quantifier "all sequences of such calls on shared objects": a whole history only extends the store. -/
theorem frame_history (h : Heap) (cs : List Call) : h <+: (run h cs).1 := by
  induction cs generalizing h with
  | nil => exact List.prefix_rfl
  | cons c cs ih => exact (frame_step h c).trans (ih _)

/-- … and every observation that could be made before the history can be made, unchanged, after it
    (this covers objects created in the middle of the history as well: apply it to the tail). -/
theorem observe_history (h : Heap) (cs : List Call) {r : Ref} {o : Obs} (ho : view? h r = some o) :
    view? (run h cs).1 r = some o :=
  view?_mono (frame_history h cs) ho

/-- the outcome of a call is a function of the observations of its arguments -/
theorem outcome_is_function_of_observations (h : Heap) (c : Call) :
    (step h c).2.out = valueOf c (argViews h c) := by
  unfold step
  split <;> simp only [*]

/-- "Calling the same operation twice on the same arguments therefore gives equal results" – also with an
    arbitrary history of listed calls in between (`cs = []` is the plain twice-in-a-row case).  The arguments
    must exist (be observable) at the first call. -/
theorem idempotent_result (h : Heap) (c : Call) (cs : List Call)
    (hobs : ∀ r ∈ c.refs, (view? h r).isSome) :
    (step (run (step h c).1 cs).1 c).2.out = (step h c).2.out := by
  rw [outcome_is_function_of_observations, outcome_is_function_of_observations]
  have hp : h <+: (run (step h c).1 cs).1 := (frame_step h c).trans (frame_history _ cs)
  have : argViews (run (step h c).1 cs).1 c = argViews h c := by
    unfold argViews
    apply List.map_congr_left
    intro r hr
    have := hobs r hr
    cases hv : view? h r with
    | none => rw [hv] at this; cases this
    | some o => exact view?_mono hp hv
  rw [this]

/-- "…every operation that returns a new object": when a call succeeds with an object, the reference it
    returns denotes, in the store after the call, exactly the announced value (so equal outcomes of two
    calls are equal OBJECTS as far as any observation goes). -/
theorem result_denotes (h : Heap) (c : Call) (o : Obs) (ho : (step h c).2.out = .ok (.obj o)) :
    ∃ r, (step h c).2.ref = some r ∧ view? (step h c).1 r = some o := by
  rw [outcome_is_function_of_observations] at ho
  unfold step
  simp only [ho]
  exact effects_denotes h c o ho

/-- sentence 1 (circuits), spelled out: every circuit operation preserves every observation -/
theorem circuits_are_values (h : Heap) (a b l : Ref) (op : GOp) (m : List (String × Rat)) (k : Nat)
    (nq : Option Nat) {r : Ref} {o : Obs} (ho : view? h r = some o) :
    ∀ c ∈ [Call.circNew l nq, .circAdd a b, .circAddOp a op, .circBind a m, .circInverse a,
           .circControlled a k, .report "to_dict" [a], .report "to_unitary" [a], .report "eq" [a, b]],
      view? (step h c).1 r = some o :=
  fun c _ => observe_step h c ho

/-- sentence 2 (Pauli terms and sums) -/
theorem operators_are_values (h : Heap) (a b l : Ref) (z : Coef) (n : Nat) (zc : Option Coef)
    {r : Ref} {o : Obs} (ho : view? h r = some o) :
    ∀ c ∈ [Call.termCopy a zc, .termMul a b, .termScale a z, .termAdd a b, .termPow a n, .sumNew l,
           .sumAdd a b, .sumMul a b, .sumRMul a z, .sumPow a n, .sumSimplify a, .opConj a,
           .report "to_dict" [a], .report "pauli_strings" [a], .report "sparse" [a]],
      view? (step h c).1 r = some o :=
  fun c _ => observe_step h c ho

/-- sentences 3–5 (measurements, distributions, wavefunctions) -/
theorem measurements_distributions_wavefunctions_are_values (h : Heap) (m d d2 w l p : Ref)
    (counts : List (Bits × Nat)) (n : Nat) (samples : List Bits) (qs : List Int) (nrm : Bool)
    {r : Ref} {o : Obs} (ho : view? h r = some o) :
    ∀ c ∈ [Call.measNew l, .measFromCounts counts, .measCounts m, .measDistribution m,
           .measRepresenting d n samples, .report "expectation_values" [m, p], .report "parities" [m, p],
           .distNew l nrm, .distSub d qs, .report "distance" [d, d2], .report "save" [d],
           .wfNew l, .wfBind w, .wfProbs w, .report "outcome_probs" [w]],
      view? (step h c).1 r = some o :=
  fun c _ => observe_step h c ho

/-! ## negative witness: the model can express a violation.  `subdistribution` as it was before commit
    d900b77 (`self.distribution_dict.pop(key)`) changes what is observed of its receiver. -/

theorem old_subdistribution_breaks_frame :
    view? witnessStore 2 = some (.dist [([0, 1], 1/2), ([1, 1], 1/2)]) ∧
    view? (effectsSubPop witnessStore 2 [1]).1 2 = some (.dist []) ∧
    ¬ witnessStore <+: (effectsSubPop witnessStore 2 [1]).1 := by
  refine ⟨by decide +kernel, by decide +kernel, ?_⟩
  intro hp
  have h1 : view? witnessStore 2 = some (.dist [([0, 1], 1/2), ([1, 1], 1/2)]) := by decide +kernel
  have h2 := view?_mono hp h1
  have h3 : view? (effectsSubPop witnessStore 2 [1]).1 2 = some (.dist []) := by decide +kernel
  rw [h3] at h2
  cases h2

/-! ## non-vacuity: concrete histories on shared objects -/

-- histC: a circuit (ref 2) shared by inverse, `+`, bind and controlled
example : (run [] histC).2.map (·.ref) = [some 0, some 2, some 5, some 8, some 11, some 14] := by decide +kernel
example : view? (run [] histC).1 2 = some (.circuit [gRX, gCN, gT] 3) := by decide +kernel
example : view? (run [] histC).1 5 =
    some (.circuit [⟨.dag (.base "T" [] false), [1]⟩, gCN, ⟨.dag (.base "RX" [.sym "theta"] false), [0]⟩] 3) := by
  decide +kernel
example : (step (run [] histC).1 (.circInverse 2)).2.out = (step (run [] (histC.take 2)).1 (.circInverse 2)).2.out := by
  decide +kernel

-- histP: two terms shared by `*`, `+` (whose result SHARES them), a list / sum aliasing, simplify, power
example : ((run [] histP).2.map (·.ref)).take 7 = [some 1, some 3, some 9, some 13, some 14, some 15, some 19] := by
  decide +kernel
example : view? (run [] histP).1 9 = some (.term ([(0, .X), (1, .X)], ⟨-1/2, 0⟩)) := by decide +kernel
example : termRefs (run [] histP).1 13 = [1, 3] := by decide +kernel          -- the sum holds its very arguments
example : termRefs (run [] histP).1 19 = [17, 3] := by decide +kernel         -- simplify: one new term, one shared
example : view? (run [] histP).1 19 = some (.psum [([(0, .X), (1, .Y)], ⟨1, 0⟩), ([(1, .Z)], ⟨0, 1⟩)]) := by
  decide +kernel
example : view? (run [] histP).1 1 = some (.term ([(0, .X), (1, .Y)], ⟨1/2, 0⟩)) := by decide +kernel

-- histD: a dict normalised in place by the constructor (on its own copy), marginals, an error, measurements
example : view? (run [] histD).1 0 = some (.ddict [([0, 1], 1), ([1, 1], 1), ([1, 0], 2)]) := by decide +kernel
example : view? (run [] histD).1 2 = some (.dist [([0, 1], 1/4), ([1, 1], 1/4), ([1, 0], 1/2)]) := by decide +kernel
example : (((run [] histD).2.map (·.out)).drop 2).take 3 =
    [.ok (.obj (.dist [([1], 1/2), ([0], 1/2)])),
     .ok (.obj (.dist [([1, 0], 1/4), ([1, 1], 1/4), ([0, 1], 1/2)])), .err .value] := by decide +kernel
example : ((run [] histD).2.map (·.out)).drop 7 =
    [.ok (.counts [([0, 1], 2), ([1, 1], 1)]), .ok (.obj (.meas [[1], [1], [0]]))] := by decide +kernel

-- indices counted from the end (tuple indexing), an index below -len(key) (IndexError), and the store after them
example : ((run (run [] histD).1 [.distSub 2 [-1, 0], .distSub 2 [-2], .distSub 2 [-3], .distSub 2 [-1, 1]]).2.map (·.out)) =
    [.ok (.obj (.dist [([1, 0], 1/4), ([1, 1], 1/4), ([0, 1], 1/2)])),
     .ok (.obj (.dist [([0], 1/4), ([1], 3/4)])), .err .index,
     .ok (.obj (.dist [([1, 1], 1/2), ([0, 0], 1/2)]))] := by decide +kernel
example : view? (run (run [] histD).1 [.distSub 2 [-1, 0], .distSub 2 [-3]]).1 2 =
    some (.dist [([0, 1], 1/4), ([1, 1], 1/4), ([1, 0], 1/2)]) := by decide +kernel

-- amplitudes normalised only up to the tolerance of np.isclose are accepted (and read without being rescaled);
-- a dict whose values sum to 1 only up to math.isclose is stored as it is
example : ((run [] [.litArr [⟨707107/1000000, 0⟩, ⟨0, 707107/1000000⟩], .wfNew 0, .wfProbs 1,
                    .litArr [⟨1/2, 0⟩, ⟨1/2, 0⟩], .wfNew 2]).2.map (·.out)).drop 1 =
    [.ok (.obj (.wf [⟨707107/1000000, 0⟩, ⟨0, 707107/1000000⟩])),
     .ok (.probs [500000309449/1000000000000, 500000309449/1000000000000]),
     .ok (.obj (.arr [⟨1/2, 0⟩, ⟨1/2, 0⟩])), .err .value] := by decide +kernel
example : ((run [] [.litDict [([0], 1/3), ([1], 666666666667/1000000000000)], .distNew 0 true,
                    .litDict [([0], 1/3), ([1], 1/3)], .distNew 3 true]).2.map (·.out)).drop 1 =
    [.ok (.obj (.dist [([0], 1/3), ([1], 666666666667/1000000000000)])),
     .ok (.obj (.ddict [([0], 1/3), ([1], 1/3)])),
     .ok (.obj (.dist [([0], 1/2), ([1], 1/2)]))] := by decide +kernel

end OQ.C20
