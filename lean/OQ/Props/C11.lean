/-
  C11 — PROPERTY THEOREMS: operators and result artefacts survive dict, file and text round trips.
  Model: OQ/Model/C11.lean.  Helper lemmas: OQ/Lemmas/C11.lean.

  Reading guide.
  * A `PauliTerm` is `Term κ` (`ops` = the dict `_ops` in insertion order, `coef` = the coefficient);
    `Term.WF` is the class invariant `__init__` establishes (distinct qubits, no stored identity).
  * "denotes the same matrix": `denote φ val s = Σ_t φ t.ops re(t) im(t)` for ANY interpretation `φ`
    satisfying `Interp φ` – `φ` depends only on the set of (qubit, operator) pairs and is additive in the
    coefficient.  The Kronecker-product matrix `(re + i·im)·P` is such a `φ`; so is the formal
    coefficient function.  Theorems are stated for every such `φ` at once.
  * `negl re im` is the library's zero test `np.isclose(c, 0.0)` (|c| ≤ 1e-8), an arbitrary predicate here:
    "same matrix to the 1e-8 tolerance" is proved in the exact form
    "result + (the coefficients that were dropped, each of which satisfies `negl`) = original".
  * External laws are hypotheses: `order` (frozenset iteration) returns a permutation; `de (ser d) = some d`
    (JSON text round trip); `CoefLaw` (Python's `str` / `complex` on numbers of magnitude < 1e15);
    `ofL (toL a) = a`, `truthy (toL a)` (numpy `tolist` / `np.array` on non-zero-size arrays).
-/
import OQ.Lemmas.C11
import Mathlib.Data.List.Forall2
import Mathlib.Algebra.Group.Prod
namespace OQ.C11

/-! ## Operators through the dictionary form -/

/-- **dict → same matrix.**  For every sum of well-formed terms (a single `PauliTerm` is the one-element
    sum; the empty sum is `[]`), converting to the dictionary form and back is accepted and yields an
    operator `r` such that, for one fixed list `D` of dropped terms whose coefficients all pass the library's
    zero test, `r + D` denotes what `s` denotes under every interpretation `φ` (in particular the matrix).
    Like terms are merged and negligible ones dropped because `convert_dict_to_op` accumulates with `+=`. -/
theorem dict_roundtrip_denote (negl : Rat → Rat → Bool) (order : Ops → Ops) (hord : ∀ o, (order o).Perm o)
    (s : PSum Coef) (hs : ∀ t ∈ s, t.WF) :
    ∃ r D : PSum Coef, dictToOp negl (opToDict order s) = .ok r ∧
      (∀ d ∈ D, negl d.coef.re d.coef.im = true) ∧
      ∀ {M : Type} [AddCommMonoid M] (φ : Ops → Rat → Rat → M), Interp φ →
        denote φ Coef.val r + denote φ Coef.val D = denote φ Coef.val s := by
  refine ⟨_, foldDropped negl [] (s.map (rebuilt order)), dictToOp_opToDict negl order hord s hs,
    foldDropped_negl negl _ [], ?_⟩
  intro M _ φ hφ
  rw [foldl_addTerm_denote hφ negl (s.map (rebuilt order)) [], denote_nil, zero_add,
    denote_rebuilt hφ order hord s]

/-- **dict → same matrix, concretely.**  With the Kronecker-product matrix `opMatrix n` on any number `n` of
    qubits (`pauliMatrix`: entry (i,j) = ∏_q P_q(i_q, j_q), identity on idle qubits):
    `matrix(result) + matrix(dropped negligible terms) = matrix(original)`. -/
theorem dict_roundtrip_matrix (n : Nat) (negl : Rat → Rat → Bool) (order : Ops → Ops) (hord : ∀ o, (order o).Perm o)
    (s : PSum Coef) (hs : ∀ t ∈ s, t.WF) :
    ∃ r D : PSum Coef, dictToOp negl (opToDict order s) = .ok r ∧
      (∀ d ∈ D, negl d.coef.re d.coef.im = true) ∧
      opMatrix n Coef.val r + opMatrix n Coef.val D = opMatrix n Coef.val s := by
  obtain ⟨r, D, h1, h2, h3⟩ := dict_roundtrip_denote negl order hord s hs
  exact ⟨r, D, h1, h2, h3 (termMatrix n) (termMatrix_interp n)⟩

/-- **dict → exact for simplified operators.**  If `s` is simplified (pairwise different operator sets, no
    negligible coefficient – the fixed points of `PauliSum.simplify`, see `simplified_iff_fixed`), the round
    trip returns the terms one for one, in order: the same set of (qubit, operator) pairs, and exactly the
    same real and imaginary coefficient parts. -/
theorem dict_roundtrip_exact (negl : Rat → Rat → Bool) (order : Ops → Ops) (hord : ∀ o, (order o).Perm o)
    (s : PSum Coef) (hs : ∀ t ∈ s, t.WF) (hsimp : Simplified negl s) :
    ∃ r : PSum Coef, dictToOp negl (opToDict order s) = .ok r ∧
      List.Forall₂ (fun a b : Term Coef => a.ops.Perm b.ops ∧ a.coef.re = b.coef.re ∧ a.coef.im = b.coef.im) r s := by
  refine ⟨s.map (rebuilt order), ?_, ?_⟩
  · rw [dictToOp_opToDict negl order hord s hs]
    have := foldl_addTerm_simplified negl (s.map (rebuilt order)) []
      (by simpa using simplified_rebuilt negl order hord s hsimp)
    rw [this]; simp
  · rw [List.forall₂_map_left_iff]
    exact List.forall₂_same.mpr (fun t _ => ⟨hord t.ops, (rebuilt_val order t).1, (rebuilt_val order t).2⟩)

/-- "simplified" is exactly "left unchanged by `PauliSum.simplify`", and `simplify` always produces such a
    sum – so the domain of `dict_roundtrip_exact` is the range of the library's own normalisation
    (every arithmetic operation of the library ends in `simplify`). -/
theorem simplified_iff_fixed (negl : Rat → Rat → Bool) (s : PSum Coef) :
    Simplified negl s ↔ simplify negl s = s :=
  ⟨simplify_of_simplified negl s, fun h => h ▸ simplify_simplified negl s⟩

/-- the operator returned by the dictionary round trip is itself simplified (hence a second round trip
    is exact). -/
theorem dict_roundtrip_simplified (negl : Rat → Rat → Bool) (order : Ops → Ops) (hord : ∀ o, (order o).Perm o)
    (s : PSum Coef) (hs : ∀ t ∈ s, t.WF) :
    ∃ r : PSum Coef, dictToOp negl (opToDict order s) = .ok r ∧ Simplified negl r := by
  refine ⟨_, dictToOp_opToDict negl order hord s hs, ?_⟩
  have : ∀ (l acc : PSum Coef), Simplified negl acc → Simplified negl (l.foldl (addTerm negl) acc) := by
    intro l
    induction l with
    | nil => intro acc h; exact h
    | cons t l ih => intro acc _; exact ih _ (simplify_simplified negl _)
  exact this _ [] ⟨List.Pairwise.nil, fun _ h => by simp at h⟩

/-- **through real JSON text / the file functions.**  `load_operator(save_operator(op))` is
    `convert_dict_to_op(convert_op_to_dict(op))` whenever the JSON library reads back the dictionary it
    wrote – so the two theorems above apply verbatim to files (path or open file: both reach `json.load`). -/
theorem save_load_operator (ser : OpD → String) (de : String → Option OpD) (hjson : ∀ d, de (ser d) = some d)
    (negl : Rat → Rat → Bool) (order : Ops → Ops) (s : PSum Coef) :
    loadOperator de negl (saveOperator ser order s) = dictToOp negl (opToDict order s) := by
  simp [loadOperator, saveOperator, hjson]

/-- operator lists: each member is loaded as its own dictionary round trip, in order. -/
theorem save_load_operator_set (ser : List OpD → String) (de : String → Option (List OpD))
    (hjson : ∀ d, de (ser d) = some d) (negl : Rat → Rat → Bool) (order : Ops → Ops) (l : List (PSum Coef)) :
    loadOperatorSet de negl (saveOperatorSet ser order l) = l.mapM (fun s => dictToOp negl (opToDict order s)) := by
  simp [loadOperatorSet, saveOperatorSet, hjson, List.mapM_map]
  rfl

/-! ## Operators through printed text -/

/-- **print → parse, one term.**  `PauliTerm(str(t))` is accepted and has the operations of `t` (same
    qubits, same operators, same order) and the coefficient `complex(str(c))`, whose value is the value of
    `c` by the law of `str`/`complex`.  Covers constants (`2.0*I`), negative, small and complex coefficients:
    whatever satisfies `CoefLaw`. -/
theorem parse_repr_term {κ : Type} (showC : κ → List Char) (readC : List Char → Option (Rat × Rat))
    (val : κ → Rat × Rat) (t : Term κ) (ht : t.WF) (hl : CoefLaw showC readC val t.coef) :
    parseTerm readC (reprTerm showC t) = some ⟨t.ops, val t.coef⟩ :=
  parseTerm_reprTerm t ht hl

/-- **print → parse, sums.**  `PauliSum(str(s))` is accepted and returns the terms of `s` one for one (the
    `+` of a bracketed complex coefficient never cuts a term; a `+` between terms always does); the empty
    sum prints as `0*I` and is read back as the single constant term with coefficient zero. -/
theorem parse_repr_sum {κ : Type} (showC : κ → List Char) (readC : List Char → Option (Rat × Rat))
    (val : κ → Rat × Rat) (zero : κ) (s : PSum κ) (hs : ∀ t ∈ s, t.WF)
    (hl : ∀ t ∈ s, CoefLaw showC readC val t.coef) (hz : CoefLaw showC readC val zero) :
    parseSum readC (reprSum showC zero s) =
      some (if s.isEmpty then [⟨[], val zero⟩] else s.map (fun t => ⟨t.ops, val t.coef⟩)) := by
  unfold reprSum
  cases s with
  | nil =>
    have := parseSum_join (showC := showC) (readC := readC) (val := val) [⟨[], zero⟩] (by simp)
      (by intro t ht; simp at ht; subst ht; exact ⟨by simp, by simp⟩)
      (by intro t ht; simp at ht; subst ht; exact hz)
    simpa [joinWith] using this
  | cons t rest =>
    simpa using parseSum_join (t :: rest) (by simp) hs hl

/-- **print → parse denotes the same matrix**, for terms and sums, including the empty sum. -/
theorem parse_repr_sum_denote {κ : Type} (showC : κ → List Char) (readC : List Char → Option (Rat × Rat))
    (val : κ → Rat × Rat) (zero : κ) (hzero : val zero = (0, 0)) (s : PSum κ) (hs : ∀ t ∈ s, t.WF)
    (hl : ∀ t ∈ s, CoefLaw showC readC val t.coef) (hz : CoefLaw showC readC val zero) :
    ∃ r : PSum (Rat × Rat), parseSum readC (reprSum showC zero s) = some r ∧
      ∀ {M : Type} [AddCommMonoid M] (φ : Ops → Rat → Rat → M), Interp φ →
        denote φ id r = denote φ val s := by
  refine ⟨_, parse_repr_sum showC readC val zero s hs hl hz, ?_⟩
  intro M _ φ hφ
  cases s with
  | nil => simp [denote, hzero, hφ.zero]
  | cons t rest => simp [denote, List.map_map, Function.comp_def]

/-- **print → parse gives the same matrix, concretely** (Kronecker-product matrix on any number of qubits). -/
theorem parse_repr_sum_matrix (n : Nat) {κ : Type} (showC : κ → List Char) (readC : List Char → Option (Rat × Rat))
    (val : κ → Rat × Rat) (zero : κ) (hzero : val zero = (0, 0)) (s : PSum κ) (hs : ∀ t ∈ s, t.WF)
    (hl : ∀ t ∈ s, CoefLaw showC readC val t.coef) (hz : CoefLaw showC readC val zero) :
    ∃ r : PSum (Rat × Rat), parseSum readC (reprSum showC zero s) = some r ∧ opMatrix n id r = opMatrix n val s := by
  obtain ⟨r, h1, h2⟩ := parse_repr_sum_denote showC readC val zero hzero s hs hl hz
  exact ⟨r, h1, h2 (termMatrix n) (termMatrix_interp n)⟩

/-- a single printed term denotes the same matrix after parsing -/
theorem parse_repr_term_denote {κ : Type} (showC : κ → List Char) (readC : List Char → Option (Rat × Rat))
    (val : κ → Rat × Rat) (t : Term κ) (ht : t.WF) (hl : CoefLaw showC readC val t.coef) :
    ∃ r : Term (Rat × Rat), parseTerm readC (reprTerm showC t) = some r ∧
      ∀ {M : Type} [AddCommMonoid M] (φ : Ops → Rat → Rat → M), denote φ id [r] = denote φ val [t] :=
  ⟨_, parse_repr_term showC readC val t ht hl, fun φ => by simp [denote]⟩

/-! ## Numeric arrays and the artefacts built on them

`A` is the type of non-zero-size real ndarrays, `L` the JSON lists; `hback`/`htruthy` are the laws of
`tolist()`/`np.array` on them.  (A zero-size array loses its shape through `tolist()`; out of scope.) -/

section arrays
variable {A L : Type} (toL : A → L) (ofL : L → A) (truthy : L → Bool)
  (hback : ∀ a, ofL (toL a) = a) (htruthy : ∀ a, truthy (toL a) = true)
include hback htruthy

/-- real and complex arrays survive `{real, imag}`: the imaginary part is kept exactly when the array was complex -/
theorem array_roundtrip (a : CArr A) : dictToArray ofL truthy (arrayToDict toL a) = a :=
  array_roundtrip_aux toL ofL truthy hback htruthy a

/-- **ExpectationValues** (values, correlations, covariances; real or complex; no frames given (`None`), an
    empty list of frames, one or several frames) are returned equal. -/
theorem expectation_values_roundtrip (e : EV A) : evFromDict ofL truthy (evToDict toL e) = e := by
  obtain ⟨v, c, k⟩ := e
  have hv := array_roundtrip_aux toL ofL truthy hback htruthy
  have hl : ∀ l : List (CArr A), l.map (dictToArray ofL truthy ∘ arrayToDict toL) = l := fun l => by
    rw [← List.map_map]; exact array_list_roundtrip_aux toL ofL truthy hback htruthy l
  cases c <;> cases k <;> simp [evFromDict, evToDict, mapFrames, hv, hl]

/-- **Parities** (values and optional correlation frames, including `None` and `[]`) are returned equal. -/
theorem parities_roundtrip (p : Par A) : parFromDict ofL truthy (parToDict toL p) = p := by
  obtain ⟨v, c⟩ := p
  have hv := array_roundtrip_aux toL ofL truthy hback htruthy
  have hl : ∀ l : List (CArr A), l.map (dictToArray ofL truthy ∘ arrayToDict toL) = l := fun l => by
    rw [← List.map_map]; exact array_list_roundtrip_aux toL ofL truthy hback htruthy l
  cases c <;> simp [parFromDict, parToDict, mapFrames, hv, hl]

/-- **measurement-count estimates** are returned equal, with per-frame counts or with the default
    `frame_meas=None`. -/
theorem nmeas_roundtrip (nmeas : Rat) (nterms : Int) (fm : Option (CArr A)) :
    nmeasFromDict ofL truthy (nmeasToDict toL nmeas nterms fm) = (nmeas, nterms, fm) := by
  cases fm <;> simp [nmeasFromDict, nmeasToDict, array_roundtrip_aux toL ofL truthy hback htruthy]

end arrays

/-- **value estimates with precision**, including `precision=None`. -/
theorem value_estimate_roundtrip (v : VE) : veFromDict (veToDict v) = v := by
  cases v; rfl

/-- **measurement sets** (any list of bit tuples, including the empty list): tuples are restored. -/
theorem measurements_roundtrip (bitstrings : List (PyTuple Int)) :
    measFromDict (measToDict bitstrings) = bitstrings := by
  simp [measFromDict, measToDict, List.map_map, Function.comp_def]

/-- **circuit layers**: JSON turns the tuples into lists, `from_dict` restores them. -/
theorem layers_roundtrip (l : List (List (PyTuple Int))) :
    layersFromDict (jsonLayers (layersToDict l)) = l := by
  simp [layersFromDict, jsonLayers, layersToDict, List.map_map, Function.comp_def]

/-- **circuit connectivity**: tuples restored. -/
theorem connectivity_roundtrip (l : List (PyTuple Int)) :
    connectivityFromDict (jsonConnectivity (connectivityToDict l)) = l := by
  simp [connectivityFromDict, jsonConnectivity, connectivityToDict, List.map_map, Function.comp_def]

/-- **plain lists / circuit ordering**: the stored field is returned. -/
theorem list_roundtrip {α : Type} (l : List α) : listFromDict (listToDict l) = l := rfl

/-- **save then load, any artefact**: if the JSON library returns `norm d` for the text it wrote for `d`
    (`norm` = identity, or tuples → lists), loading the saved file is `fromDict (norm (toDict x))` – so each
    dictionary-level theorem above is a statement about the file functions, path or open file alike. -/
theorem save_then_load {D D' O : Type} (ser : D → String) (de : String → Option D') (norm : D → D')
    (hjson : ∀ d, de (ser d) = some (norm d)) (fromDict : D' → O) (d : D) :
    saveThenLoad ser de fromDict d = some (fromDict (norm d)) := by
  simp [saveThenLoad, hjson]

/-! ## non-vacuity and negative witnesses -/

-- a two-term operator with a complex coefficient and a multi-digit qubit: the round trip is accepted, exact
example : (dictToOp (fun re im => decide (re * re + im * im ≤ 1 / 10000000000000000)) (opToDict id
    [⟨[(0, .Z), (12, .X)], .cplx (1/2) (-3)⟩, ⟨[], .real (-2)⟩])).toOption =
    some [⟨[(0, .Z), (12, .X)], .cplx (1/2) (-3)⟩, ⟨[], .real (-2)⟩] := by decide +kernel
-- like terms are merged, a negligible one is dropped, `complex` with zero imaginary part comes back real
example : (dictToOp (fun re im => decide (re * re + im * im ≤ 1 / 10000000000000000)) (opToDict id
    [⟨[(3, .Y)], .real 1⟩, ⟨[(1, .X)], .real (1/1000000000000)⟩, ⟨[(3, .Y)], .cplx (1/4) 0⟩])).toOption =
    some [⟨[(3, .Y)], .real (5/4)⟩] := by decide +kernel
example : Simplified (fun re im => decide (re * re + im * im ≤ 1 / 10000000000000000))
    [⟨[(0, .Z), (12, .X)], .cplx (1/2) (-3)⟩, ⟨[], .real (-2)⟩] := by
  refine ⟨?_, ?_⟩
  · refine List.Pairwise.cons ?_ (List.Pairwise.cons (by simp) List.Pairwise.nil)
    intro b hb hp
    simp only [List.mem_singleton] at hb; subst hb
    exact absurd hp.length_eq (by decide)
  · intro t ht
    simp only [List.mem_cons, List.not_mem_nil, or_false] at ht
    rcases ht with rfl | rfl <;> decide +kernel
-- the 2×2 matrices: Z is diag(1,-1), Y has -i above and i below the diagonal (false = |0⟩, true = |1⟩)
example : pauliEntry .Z true true = -1 ∧ pauliEntry .Z false false = 1 ∧ pauliEntry .Y false true = -Complex.I ∧
    pauliEntry .Y true false = Complex.I ∧ pauliEntry .X false true = 1 := by simp [pauliEntry]
-- an interpretation: the formal coefficient of the constant term and the total coefficient
example : Interp (M := Rat × Rat) (fun _ re im => (re, im)) :=
  ⟨fun _ _ _ => rfl, fun _ _ _ _ _ => rfl, fun _ => rfl⟩
example : Interp (M := Rat × Rat) (fun k re im => if k.length = 0 then (re, im) else 0) :=
  ⟨fun a b h => by simp [h.length_eq], fun k a b c d => by by_cases h : k.length = 0 <;> simp [h],
   fun k => by by_cases h : k.length = 0 <;> simp [h]⟩

/-- coefficient texts as Python prints them, with their values (a finite table standing for `complex`) -/
def demoRead (s : List Char) : Option (Rat × Rat) :=
  if s = "(1+2j)".toList then some (1, 2) else if s = "-0.5".toList then some (-1/2, 0)
  else if s = "1e-12".toList then some (1/1000000000000, 0) else if s = "0".toList then some (0, 0) else none

example : CoefLaw (fun s : String => s.toList) demoRead (fun s => (demoRead s.toList).getD (0, 0)) "(1+2j)" :=
  ⟨by decide, by decide +kernel, fun _ _ => by decide⟩
example : CoefLaw (fun s : String => s.toList) demoRead (fun s => (demoRead s.toList).getD (0, 0)) "1e-12" :=
  ⟨by decide, by decide +kernel, fun _ h => absurd (by decide +kernel) h⟩
-- printing and parsing a sum with a bracketed complex coefficient, a constant and a multi-digit qubit
example : reprSum (fun s : String => s.toList) "0" [⟨[(0, .Z), (12, .X)], "(1+2j)"⟩, ⟨[], "-0.5"⟩, ⟨[(3, .Y)], "1e-12"⟩]
    = "(1+2j)*Z0*X12 + -0.5*I + 1e-12*Y3".toList := by decide
example : parseSum demoRead "(1+2j)*Z0*X12 + -0.5*I + 1e-12*Y3".toList =
    some [⟨[(0, .Z), (12, .X)], (1, 2)⟩, ⟨[], (-1/2, 0)⟩, ⟨[(3, .Y)], (1/1000000000000, 0)⟩] := by decide +kernel
example : parseSum demoRead (reprSum (fun s : String => s.toList) "0" ([] : PSum String)) = some [⟨[], (0, 0)⟩] := by
  decide +kernel
-- outside the quantifier (|c| ≥ 1e16 prints an exponent sign): the text law fails, as does the parser
example : coefTextOK "1e+16".toList = false := by decide
example : (splitPlus "1e+16*Z0".toList).length = 2 := by decide

-- arrays: non-empty rational lists as one-dimensional arrays
example : dictToArray (A := List Rat) id (fun l => !l.isEmpty) (arrayToDict id ⟨[1, 2], some [0, 0]⟩) = ⟨[1, 2], some [0, 0]⟩ := by
  decide +kernel
-- an empty frame list stays an empty list, no frames stay None (fixed 060d7df: used to come back as None)
example : evFromDict (A := List Rat) id (fun l => !l.isEmpty) (evToDict id ⟨⟨[1], none⟩, some [], none⟩) = ⟨⟨[1], none⟩, some [], none⟩ := by
  decide +kernel
example : evFromDict (A := List Rat) id (fun l => !l.isEmpty)
    (evToDict id ⟨⟨[1], none⟩, some [⟨[1, -1], some [0, 1/2]⟩], none⟩) = ⟨⟨[1], none⟩, some [⟨[1, -1], some [0, 1/2]⟩], none⟩ := by
  decide +kernel
-- saved with the default frame_meas=None (fixed 4422d44: the loader used to raise KeyError)
example : nmeasFromDict (A := List Rat) id (fun l => !l.isEmpty) (nmeasToDict id (7/2) 4 none) = (7/2, 4, none) := by
  decide +kernel
example : measToDict [⟨[0, 1]⟩, ⟨[1, 1]⟩, ⟨[0, 1]⟩] =
    ⟨[("01".toList, 2), ("11".toList, 1)], [[0, 1], [1, 1], [0, 1]]⟩ := by decide
example : veFromDict (veToDict ⟨3/2, none⟩) = ⟨3/2, none⟩ := rfl

end OQ.C11
