/- C19 — PROPERTY THEOREMS (translation ties): the two shape tests of `circuits/symbolic/sympy_expressions.py`,
   `is_multiplication_by_reciprocal` and `is_addition_of_negation` (they decide when `expression_from_sympy` emits `div` / `sub`).
   The definitions `OQ.Generated.Translated.*` are REGENERATED from /repo's current source on every run.  sympy objects are OPAQUE
   in the translation; what the functions rely on enters as PARAMETERS: `attr_args` (`e.args`), `ext_isinstance_sympy_Pow` /
   `ext_isinstance_sympy_Mul` (`isinstance(e, sympy.Pow / sympy.Mul)`), `ext_eq_int` (sympy's `e == k` against a Python int).
   The ties instantiate them with the model's reading of a sympy node (`SExpr`): `.args` of a `Pow` is `(base, exponent)`, and
   `e == -1` holds for the numeric leaves of value −1 (`numValue`, sympy 1.9 compares Integer / Rational / Float by value).
   The singledispatch family `expression_from_sympy` itself is NOT translated (see the work-package report). -/
import OQ.Generated.TranslatedC19
import OQ.Props.C19
namespace OQ.C19
open OQ.Generated OQ.Py

/-- `e.args` as the model reads a sympy node -/
def SExpr.args : SExpr → List SExpr
  | .add l => l
  | .mul l => l
  | .pow b e => [b, e]
  | .func _ _ l => l
  | _ => []

def SExpr.isPow : SExpr → Bool
  | .pow _ _ => true
  | _ => false

def SExpr.isMul : SExpr → Bool
  | .mul _ => true
  | _ => false

/-- sympy's `e == k` for a Python int `k` -/
def SExpr.eqInt (e : SExpr) (k : Int) : Bool := numValue e == some (k : Rat)

/-- the external `e == -1` under the model's reading is the model's `isNegOne` -/
theorem eqInt_negOne (e : SExpr) : e.eqInt (-(1 : Int)) = isNegOne e := by
  unfold SExpr.eqInt isNegOne
  have : ((-(1 : Int) : Int) : Rat) = -1 := by norm_num
  rw [this]

/-- TRANSLATION TIE: `is_multiplication_by_reciprocal(mul)` (`len(args) == 2 and isinstance(args[1], Pow) and
    args[1].args[1] == -1`, evaluated with Python's short-circuit order) regenerated from the current source never raises and
    holds exactly when the model's `recipView` finds the shape `x * y**(-1)` – for every node. -/
theorem translated_is_multiplication_by_reciprocal_eq (m : SExpr) :
    Translated.is_multiplication_by_reciprocal SExpr.args SExpr.isPow SExpr.isMul SExpr.eqInt m
      = .ok (recipView m.args).isSome := by
  unfold Translated.is_multiplication_by_reciprocal
  generalize m.args = l
  match l with
  | [] => rfl
  | [_] => rfl
  | _ :: _ :: _ :: t =>
    have : ¬ ((t.length : Int) + 1 + 1 + 1 = 2) := by omega
    simp [recipView, this]
  | [a, b] =>
    cases b <;> simp [recipView, SExpr.isPow, SExpr.args, eqInt_negOne]
    rename_i b e
    cases isNegOne e <;> rfl

/-- TRANSLATION TIE: `is_addition_of_negation(add)` (`len(args) == 2 and isinstance(args[1], Mul) and args[1].args[0] == -1`)
    regenerated from the current source holds exactly when the model's `addView` finds the shape `x + (-1)*y`.
    Domain: every node whose second argument is not a `Mul` WITHOUT arguments (sympy never builds one; the Python would raise
    IndexError there, which is the second statement). -/
theorem translated_is_addition_of_negation_eq (m : SExpr) :
    (∀ a0, m.args ≠ [a0, .mul []]) →
    Translated.is_addition_of_negation SExpr.args SExpr.isPow SExpr.isMul SExpr.eqInt m
      = .ok (addView m.args).isSome := by
  unfold Translated.is_addition_of_negation
  generalize m.args = l
  intro h
  match l with
  | [] => rfl
  | [_] => rfl
  | _ :: _ :: _ :: t =>
    have : ¬ ((t.length : Int) + 1 + 1 + 1 = 2) := by omega
    simp [addView, this]
  | [a, b] =>
    cases b <;> simp [addView, SExpr.isMul, SExpr.args, eqInt_negOne]
    rename_i args
    cases args with
    | nil => exact absurd rfl (h a)
    | cons c rest =>
      simp
      cases isNegOne c <;> rfl

/-- … the excluded shape: a second argument that is a `Mul` without arguments makes the Python raise IndexError (`args[1].args[0]`) -/
theorem translated_is_addition_of_negation_empty_mul (m a0 : SExpr) (h : m.args = [a0, .mul []]) :
    Translated.is_addition_of_negation SExpr.args SExpr.isPow SExpr.isMul SExpr.eqInt m = .error .IndexError := by
  unfold Translated.is_addition_of_negation
  rw [h]
  rfl

/-! non-vacuity: the TRANSLATED predicates on concrete nodes -/
private def sx : SExpr := .symbol "x"
example : Translated.is_multiplication_by_reciprocal SExpr.args SExpr.isPow SExpr.isMul SExpr.eqInt
    (.mul [sx, .pow sx (.integer (-1))]) = .ok true := by decide +kernel
example : Translated.is_multiplication_by_reciprocal SExpr.args SExpr.isPow SExpr.isMul SExpr.eqInt
    (.mul [sx, .pow sx (.integer 2)]) = .ok false := by decide +kernel
example : Translated.is_multiplication_by_reciprocal SExpr.args SExpr.isPow SExpr.isMul SExpr.eqInt
    (.mul [sx, sx, .pow sx (.integer (-1))]) = .ok false := by decide +kernel
example : Translated.is_addition_of_negation SExpr.args SExpr.isPow SExpr.isMul SExpr.eqInt
    (.add [sx, .mul [.float (-1), sx]]) = .ok true := by decide +kernel
example : Translated.is_addition_of_negation SExpr.args SExpr.isPow SExpr.isMul SExpr.eqInt
    (.add [sx, .mul [.integer 2, sx]]) = .ok false := by decide +kernel
end OQ.C19
