/- C12 — PROPERTY THEOREMS (translation ties): the LOOP of `Wavefunction.dicke_state` and the guard of `Wavefunction.zero_state`
   (`wavefunction.py`).  `OQ.Generated.Translated.dicke_state_pre` / `zero_state_pre` are REGENERATED from /repo's current source on
   every run (harness/translate_t6.py → OQ/Generated/TranslatedC12Dicke.lean): the function body up to its first numpy statement –
   the guards on `hamming_weight`, `int("1" * hamming_weight, base=2)`, the `while True:` loop with its `break` test, the
   appends and the counter – returning the values the amplitude vector is then built from (`counter`, `indices`), or the exception.
   The `while True:` loop is emitted with explicit FUEL; the theorems below show that fuel `2^n` is never exhausted.
   OUTSIDE the translation (numpy): `np.zeros(2**n)`, `wf[indices] = 1/np.sqrt(counter)`, the `Wavefunction(...)` constructor
   (their model is `dickeProbs` / `construct`, tied by the differential correspondence of `./check C12`). -/
import OQ.Generated.TranslatedC12Dicke
import OQ.Props.C12_Translated
import OQ.Lemmas.C12_TranslatedT6
namespace OQ.C12
open OQ.Generated OQ.Py OQ.Tr

/-- TRANSLATION TIE: the guard of `zero_state(n_qubits)` for an int argument (the `isinstance` branch is dead for an int):
    ValueError iff `n_qubits ≤ 0`, otherwise the array is sized by `n_qubits` itself. -/
theorem translated_zero_state_pre_eq (n : Int) :
    Translated.zero_state_pre n = if n ≤ 0 then .error .ValueError else .ok n := by
  unfold Translated.zero_state_pre
  by_cases h : n ≤ 0 <;> simp [h]

/-- … which is the guard of the model's `zeroState` (for every tolerance `close`): both refuse exactly `n ≤ 0`. -/
theorem translated_zero_state_guard (close : Rat → Bool) (n : Int) :
    (Translated.zero_state_pre n = .error .ValueError ↔ n ≤ 0) ∧ (n ≤ 0 → zeroState close n = .error .value) := by
  rw [translated_zero_state_pre_eq]
  refine ⟨?_, fun h => by simp [zeroState, h]⟩
  by_cases h : n ≤ 0 <;> simp [h]

/-- one iteration of the translated loop, in the model's terms -/
theorem translated_dicke_step (n cur : Nat) (hcur : 0 < cur) (I : List Int) (c : Int) :
    Translated.dicke_state_pre_loop1_step (n : Int) ((cur : Int), I, c) =
      if msb (nextSameWeight cur) ≤ n
      then .ok (false, (((nextSameWeight cur : Nat) : Int), I ++ [((nextSameWeight cur : Nat) : Int)], c + 1))
      else .ok (true, (((nextSameWeight cur : Nat) : Int), I, c)) := by
  unfold Translated.dicke_state_pre_loop1_step
  simp only [translated_next_same_weight_eq cur hcur, translated_most_significant_set_bit_eq, Int.ofNat_le]
  by_cases h : msb (nextSameWeight cur) ≤ n <;> simp [h]

/-- TRANSLATION TIE (the loop): the `while True:` loop of `dicke_state` regenerated from the current source, run with any fuel
    from a state `(current_value, indices, counter) = (cur, acc, len(acc))` with `cur ≥ 1`, is the model's `dickeLoop`: it
    collects the same indices, `counter` stays `len(indices)`, and it runs out of fuel exactly when the model's loop does. -/
theorem translated_dicke_loop_eq (n : Nat) (fuel cur : Nat) (acc : List Nat) (hcur : 0 < cur) :
    (Translated.dicke_state_pre_loop1 (n : Int) fuel
        ((cur : Int), acc.map (fun k : Nat => (k : Int)), (acc.length : Int))).map (fun st => (st.2.2, st.2.1)) =
      match dickeLoop n fuel cur acc with
      | none => .error .OutOfFuel
      | some idx => .ok ((idx.length : Int), idx.map (fun k : Nat => (k : Int))) := by
  induction fuel generalizing cur acc with
  | zero => rfl
  | succ fuel ih =>
    simp only [Translated.dicke_state_pre_loop1, dickeLoop, translated_dicke_step n cur hcur]
    have hnext := (nextSameWeight_next cur hcur).1
    by_cases h : msb (nextSameWeight cur) ≤ n
    · simp only [h, if_true]
      have := ih (nextSameWeight cur) (acc ++ [nextSameWeight cur]) (by omega)
      simp only [List.map_append, List.map_cons, List.map_nil, List.length_append, List.length_cons, List.length_nil,
        Nat.cast_add, Nat.cast_one, zero_add] at this
      exact this
    · simp only [h, if_false]
      rfl

/-- TRANSLATION TIE: `dicke_state(n_qubits, hamming_weight)` up to its first numpy statement, regenerated from the current source and
    run with fuel `2^n`, against the model's `dickeState`, on the WHOLE domain of int arguments:
    * `n ≤ 0`, `k < 0` or `k > n`: both raise ValueError (any fuel);
    * `k = 0` (and `n ≥ 1`): the zero state of `n` qubits is returned (`.inl n`), the model's support is `[0]`;
    * `1 ≤ k ≤ n`: the loop ends within the fuel and hands `(counter, indices) = (len idx, idx)` to the numpy part, where `idx` is
      the support the model's `dickeState` computes. -/
theorem translated_dicke_state_eq (n k : Int) :
    (n ≤ 0 ∨ k < 0 ∨ n < k →
      (∀ fuel, Translated.dicke_state_pre fuel n k = .error .ValueError) ∧ dickeState n k = .error .value) ∧
    (1 ≤ n → k = 0 →
      (∀ fuel, Translated.dicke_state_pre fuel n k = .ok (.inl n)) ∧ dickeState n k = .ok ([0], dickeProbs n.toNat [0])) ∧
    (1 ≤ k → k ≤ n → ∃ idx : List Nat,
      dickeState n k = .ok (idx, dickeProbs n.toNat idx) ∧
      Translated.dicke_state_pre (2 ^ n.toNat) n k = .ok (.inr ((idx.length : Int), idx.map (fun i : Nat => (i : Int))))) := by
  refine ⟨?_, ?_, ?_⟩
  · intro h
    refine ⟨fun fuel => ?_, dicke_rejects n k h⟩
    unfold Translated.dicke_state_pre
    rw [translated_zero_state_pre_eq]
    by_cases h1 : n ≤ 0
    · simp [h1]
    · by_cases h2 : k < 0
      · simp [h1, h2]
      · have h3 : n < k := by omega
        simp [h1, h2, h3]
  · intro hn hk
    subst hk
    refine ⟨fun fuel => ?_, ?_⟩
    · unfold Translated.dicke_state_pre
      rw [translated_zero_state_pre_eq]
      have h1 : ¬ n ≤ 0 := by omega
      have h3 : ¬ (0 : Int) > n := by omega
      simp [h1, h3]
    · have h1 : ¬ n ≤ 0 := by omega
      have h3 : ¬ (0 : Int) > n := by omega
      simp [dickeState, h1, h3]
  · intro hk hkn
    obtain ⟨hstate, -⟩ := dicke_support n k (by omega) (by omega) hkn
    refine ⟨_, hstate, ?_⟩
    have hidx := dickeIndices_spec n.toNat k.toNat (by omega) (by omega)
    unfold dickeIndices at hidx
    have hpos : 0 < 2 ^ k.toNat - 1 := by
      have : 2 ^ 1 ≤ 2 ^ k.toNat := Nat.pow_le_pow_right (by omega) (by omega)
      omega
    have hloop := translated_dicke_loop_eq n.toNat (2 ^ n.toNat) (2 ^ k.toNat - 1) [2 ^ k.toNat - 1] hpos
    rw [hidx] at hloop
    have hn' : ((n.toNat : Nat) : Int) = n := by omega
    simp only [hn', List.map_cons, List.map_nil, List.length_cons, List.length_nil, zero_add,
      Nat.cast_one] at hloop
    unfold Translated.dicke_state_pre
    rw [translated_zero_state_pre_eq]
    have h1 : ¬ n ≤ 0 := by omega
    have h2 : ¬ k < 0 := by omega
    have h3 : ¬ k > n := by omega
    have h4 : ¬ k = 0 := by omega
    simp only [h1, h2, h3, h4, if_false, decide_false, Bool.false_or, Bool.not_true, Bool.false_eq_true, beq_iff_eq,
      intBase2_ones]
    cases hl : Translated.dicke_state_pre_loop1 n (2 ^ n.toNat) (((2 ^ k.toNat - 1 : Nat) : Int), [((2 ^ k.toNat - 1 : Nat) : Int)], 1) with
    | error e => rw [hl] at hloop; simp [Except.map] at hloop
    | ok st =>
      rw [hl] at hloop
      simp only [Except.map, Except.ok.injEq, Prod.mk.injEq] at hloop
      simp [hloop.1, hloop.2]

/-- END-TO-END ON THE CODE AS IT IS NOW (`dicke_support` on the translated loop): for all `1 ≤ k ≤ n`, the translated
    `dicke_state` loop, run with fuel `2^n`, ends without exhausting the fuel, and the indices it collects are EXACTLY the integers
    below `2^n` of Hamming weight `k`, each once, in increasing order; `counter` is their number (≥ 1). -/
theorem translated_dicke_support (n k : Int) (hk : 1 ≤ k) (hkn : k ≤ n) :
    ∃ idx : List Nat,
      Translated.dicke_state_pre (2 ^ n.toNat) n k = .ok (.inr ((idx.length : Int), idx.map (fun i : Nat => (i : Int)))) ∧
      idx = (List.range (2 ^ n.toNat)).filter (fun w => decide (popcount w = k.toNat)) ∧
      idx.Nodup ∧ idx ≠ [] ∧ (∀ i, i ∈ idx ↔ i < 2 ^ n.toNat ∧ popcount i = k.toNat) := by
  obtain ⟨idx, hm, ht⟩ := (translated_dicke_state_eq n k).2.2 hk hkn
  obtain ⟨hstate, hne, -⟩ := dicke_support n k (by omega) (by omega) hkn
  rw [hstate] at hm
  have hidx : idx = (List.range (2 ^ n.toNat)).filter (fun w => decide (popcount w = k.toNat)) := by
    simp only [Except.ok.injEq, Prod.mk.injEq] at hm
    exact hm.1.symm
  refine ⟨idx, ht, hidx, ?_, ?_, ?_⟩
  · rw [hidx]; exact List.Nodup.filter _ List.nodup_range
  · rw [hidx]; exact hne
  · intro i; rw [hidx]; simp [List.mem_filter]

/-! non-vacuity: the TRANSLATED definitions on concrete arguments -/
example : Translated.dicke_state_pre 16 4 2 = .ok (.inr (6, [3, 5, 6, 9, 10, 12])) := by decide
example : Translated.dicke_state_pre 8 3 3 = .ok (.inr (1, [7])) := by decide
example : Translated.dicke_state_pre 8 3 0 = .ok (.inl 3) := by decide
example : Translated.dicke_state_pre 8 3 4 = .error .ValueError := by decide
example : Translated.dicke_state_pre 8 0 0 = .error .ValueError := by decide
example : Translated.dicke_state_pre 2 4 2 = .error .OutOfFuel := by decide
example : Translated.zero_state_pre 3 = .ok 3 ∧ Translated.zero_state_pre 0 = .error .ValueError := by decide
end OQ.C12
