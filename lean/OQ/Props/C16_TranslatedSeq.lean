/- C16 — PROPERTY THEOREMS (translation tie): `_generate_circuit_sequence` and the loop structure of `time_evolution`
   (`evolution.py`).

   `OQ.Generated.Translated.generate_circuit_sequence`, `…time_evolution` are REGENERATED from /repo's current Python source on
   every run (harness/translate_t3.py → OQ/Generated/TranslatedC16.lean).  Circuits (γ), operations (ω), Hamiltonians (η), terms
   (θ) and times (τ) are OPAQUE; `attr_operations`, `ext_Circuit` (`Circuit(list)`), `ext_Circuit0` (`Circuit()`), `ext_add`
   (`circuit + circuit`), `attr_terms`, `ext_div` (`time / n_steps`) and `ext_time_evolution_for_term` are parameters. -/
import OQ.Generated.TranslatedC16
import OQ.Lemmas.C16_TranslatedSeq
import OQ.Props.C16
namespace OQ.C16
open OQ.Generated OQ.Pauli

/-- TRANSLATION TIE (`evolution.py:_generate_circuit_sequence`): the function regenerated from the current Python source (guard
    `position >= length` → ValueError; `Circuit(list(chain.from_iterable([(repeated if i != position else different).operations
    for i in range(length)])))`) is the model's `generateCircuitSequence` (`none` = raises), for every pair of circuits and all
    `length`, `position` ≥ 0 (circuits are read as their operation lists: `.operations` and `Circuit(…)` are the identity, as
    in the model, which has no register width here).  Negative positions: see `translated_sequence_negative_position`. -/
theorem translated_generate_circuit_sequence_eq {T : Type} (rep diff : Circ T) (len pos : Nat) :
    Translated.generate_circuit_sequence (fun c : Circ T => c) (fun ops => ops) rep diff (len : Int) (pos : Int)
      = (generateCircuitSequence rep diff len pos).toOption := by
  unfold Translated.generate_circuit_sequence generateCircuitSequence
  by_cases h : pos ≥ len
  · have : decide ((pos : Int) ≥ (len : Int)) = true := by simpa using h
    simp only [this, if_true, h]
    rfl
  · have : decide ((pos : Int) ≥ (len : Int)) = false := by simpa using h
    simp only [this, h, if_false, Bool.false_eq_true, Int.toNat_natCast, List.map_map, List.flatMap_def]
    simp only [Except.toOption]
    congr 3
    funext i
    simp only [Function.comp, Int.ofNat_eq_natCast, bne_iff_ne, ne_eq, Nat.cast_inj, ite_not]

section evo
variable {Q T : Type} [One Q] [Mul Q] [Div Q] [Neg Q] [NatCast Q] [DecidableEq Q]

/-- TRANSLATION TIE (`evolution.py:time_evolution`): the loop structure regenerated from the current Python source (`circuit =
    Circuit()`; `for _ in range(n_steps): for term in hamiltonian.terms: circuit += time_evolution_for_term(term, time / n_steps)`)
    is the model's `timeEvolution`, for every Hamiltonian all of whose terms `time_evolution_for_term` accepts (`hacc`: constant,
    or negligible imaginary part – otherwise the opaque call raises, which the translated subset does not express), every time
    and every `n_steps ≥ 0`.  `time_evolution_for_term` is the opaque external, instantiated by the model's `evoCirc`;
    `time / n_steps` is `(1/n)·time`; `circuit += c` rebinds (`Circuit` has no `__iadd__`, checked by the translator). -/
theorem translated_time_evolution_eq (alg : TimeAlg Q T) (negl : Q → Bool) (h : PSum (Q × Q)) (time : T) (n : Nat)
    (hacc : ∀ t ∈ h, acc negl t = true) :
    Translated.time_evolution (fun h : PSum (Q × Q) => h) (fun (t : T) (m : Int) => alg.smul (1 / ((m.toNat : Nat) : Q)) t)
        (evoCirc alg) ([] : Circ T) (fun a b => a ++ b) h time "Trotter".toList (n : Int)
      = (timeEvolution alg negl h time n).toOption := by
  rw [timeEvolution_acc alg negl h time n hacc]
  unfold Translated.time_evolution
  have hm : ("Trotter".toList != ['T', 'r', 'o', 't', 't', 'e', 'r']) = false := by decide
  simp only [hm, Bool.false_eq_true, if_false, Int.toNat_natCast, foldl_append_flatMap, flatMap_const_replicate,
    List.length_map, List.length_range, List.nil_append]
  rfl
end evo

/-- the guard of `time_evolution`: any `method` other than "Trotter" raises (the model has the Trotter method only) -/
theorem translated_time_evolution_method {η θ τ γ : Type} (terms : η → List θ) (dv : τ → Int → τ) (evo : θ → τ → γ) (c0 : γ)
    (add : γ → γ → γ) (h : η) (time : τ) (method : List Char) (n : Int) (hm : method ≠ "Trotter".toList) :
    Translated.time_evolution terms dv evo c0 add h time method n = none := by
  unfold Translated.time_evolution
  have : (method != ['T', 'r', 'o', 't', 't', 'e', 'r']) = true := by
    rw [bne_iff_ne]; exact hm
  simp only [this, if_true]

/-! ## end-to-end: sentences of the property ON THE TRANSLATED CODE (through the ties) -/

/-- `sequence_spec` on the translated `_generate_circuit_sequence`: rejected iff position ≥ length; otherwise `length` blocks, the
    one at `position` being the different circuit, all others the repeated one -/
theorem translated_sequence_spec {T : Type} (rep diff : Circ T) (len pos : Nat) :
    (len ≤ pos → Translated.generate_circuit_sequence (fun c : Circ T => c) (fun ops => ops) rep diff (len : Int) (pos : Int)
        = none) ∧
    (pos < len → Translated.generate_circuit_sequence (fun c : Circ T => c) (fun ops => ops) rep diff (len : Int) (pos : Int)
        = some ((List.replicate pos rep).flatten ++ diff ++ (List.replicate (len - pos - 1) rep).flatten)) := by
  rw [translated_generate_circuit_sequence_eq]
  exact ⟨fun h => by rw [(sequence_spec rep diff len pos).1 h]; rfl, fun h => by rw [(sequence_spec rep diff len pos).2 h]; rfl⟩

/-- outside the model's domain (the model's positions are naturals): a NEGATIVE `position` passes the guard and replaces no copy –
    the translated code returns `length` copies of the repeated circuit (callers only pass `range(n_steps)`) -/
theorem translated_sequence_negative_position {γ ω : Type} (ops : γ → List ω) (mk : List ω → γ) (rep diff : γ) (len : Nat)
    (pos : Int) (hp : pos < 0) :
    Translated.generate_circuit_sequence ops mk rep diff (len : Int) pos
      = some (mk (List.replicate len (ops rep)).flatten) := by
  unfold Translated.generate_circuit_sequence
  have h1 : decide (pos ≥ (len : Int)) = false := by
    rw [decide_eq_false_iff_not]; omega
  simp only [h1, Bool.false_eq_true, if_false, Int.toNat_natCast, List.map_map]
  congr 2
  rw [← List.flatMap_def, ← List.length_range (n := len)]
  conv_rhs => rw [← flatMap_const_replicate (ops rep) (List.range len)]
  rw [List.length_range]
  apply List.flatMap_congr
  intro i _
  have : ((Int.ofNat i) != pos) = true := by
    rw [bne_iff_ne]; simp only [Int.ofNat_eq_natCast]; omega
  simp only [Function.comp, this, if_true]

section evo2
variable {Q T : Type} [One Q] [Mul Q] [Div Q] [Neg Q] [NatCast Q] [DecidableEq Q]

/-- "the circuit equals the product over the requested number of steps of the per-term circuits for time t/steps, taken in the
    order the terms are listed" – for the translated `time_evolution`: `n` repetitions of the concatenation, in list order, of the
    per-term circuits at time `(1/n)·t` -/
theorem translated_evolution_steps (alg : TimeAlg Q T) (negl : Q → Bool) (h : PSum (Q × Q)) (time : T) (n : Nat)
    (hacc : ∀ t ∈ h, acc negl t = true) :
    Translated.time_evolution (fun h : PSum (Q × Q) => h) (fun (t : T) (m : Int) => alg.smul (1 / ((m.toNat : Nat) : Q)) t)
        (evoCirc alg) ([] : Circ T) (fun a b => a ++ b) h time "Trotter".toList (n : Int)
      = some (List.replicate n (h.flatMap (fun t => evoCirc alg t (alg.smul (1 / (n : Q)) time)))).flatten := by
  rw [translated_time_evolution_eq alg negl h time n hacc, timeEvolution_acc alg negl h time n hacc]
  rfl

end evo2

/-! non-vacuity: circuits as lists of numbers -/
example : Translated.generate_circuit_sequence (fun c : List Nat => c) (fun ops => ops) [1, 2] [9] 3 1
    = some [1, 2, 9, 1, 2] := by decide
example : Translated.generate_circuit_sequence (fun c : List Nat => c) (fun ops => ops) [1, 2] [9] 2 2 = none := by decide
example : Translated.generate_circuit_sequence (fun c : List Nat => c) (fun ops => ops) [1, 2] [9] 2 (-1)
    = some [1, 2, 1, 2] := by decide
example : Translated.time_evolution (fun h : List Nat => h) (fun (t : Int) n => Int.fdiv t n) (fun term t => [term, t.toNat])
    ([] : List Nat) (fun a b => a ++ b) [7, 8] 6 "Trotter".toList 2 = some [7, 3, 8, 3, 7, 3, 8, 3] := by decide
example : Translated.time_evolution (fun h : List Nat => h) (fun (t : Int) n => Int.fdiv t n) (fun term t => [term, t.toNat])
    ([] : List Nat) (fun a b => a ++ b) [7, 8] 6 "Suzuki".toList 2 = none := by decide
/-- the hypothesis `hacc` of the `time_evolution` tie at a Hamiltonian with an X⊗Y term and a constant term -/
example : ∀ t ∈ ([⟨[(0, .X), (2, .Y)], (3, 0)⟩, ⟨[], (1, 1)⟩] : PSum (Rat × Rat)), acc ratNegl t = true := by decide +kernel

end OQ.C16
