/- C10 — PROPERTY THEOREMS (translation ties, work package T15): the measurement statistics written with numpy –
   `measurements._convert_bitstrings_to_vector`, `parities.check_parity_of_vector`, `measurements.get_expectation_value_from_frequencies`,
   `Measurements.get_expectation_values`.  The definitions `OQ.Generated.Translated.*` are REGENERATED from /repo's current Python source on
   every run (harness/translate_t15.py → OQ/Generated/TranslatedC10.lean); an edit of a Python function changes its definition and the
   equalities below stop checking at build time, for every input.

   Reading of the translated definitions (harness/translate_t15.py's docstring has the details):
   * a numpy array is `OQ.Py.Arr1 τ` (the list of entries) or `OQ.Py.Arr2 τ` (the rows AND the width); every numpy operation is a prelude
     function `OQ.Py.np…` (OQ/Exec/Py.lean, block T15) that is compared with numpy itself on every run (harness/prelude_check.py):
     reshape (ValueError), fancy column indexing (IndexError), broadcasting products / differences (ValueError), item reads and writes
     (IndexError), division by a Python int.  FLOAT ROUNDING AND dtypes ARE NOT MODELLED (values are exact, `ν = Rat` in the ties).
   * `.error c` = the Python call raises an exception of class `c`.  ONE exception to this reading, inherited from the model (`Err.nan`):
     `get_expectation_value_from_frequencies` on a dictionary whose counts sum to 0 does not raise – numpy divides by zero and the
     result is `nan`; this is `.error .zeroDiv` (`OQ.Py.npTrueDivE`).  In `get_expectation_values` the final division by the
     denominator (0 for one shot with Bessel's correction) yields entries `none` (non-finite), exactly as the model's `divOrNan`.
   * a set of qubits is the list of its elements in iteration order; the ties hold for EVERY order.
   * the operator and its terms are OPAQUE objects: `is_ising`, `terms`, `coefficient`, `qubits` are parameters `attr_…`; the ties
     instantiate them with the model's `Term` (`is_ising` = all letters are Z).
   * externals of `get_expectation_values`: `isinstance(c, np.integer)` / `int(c)` (ASSUMED LAW `hint`: `int(c) = c` as a number whenever
     `c` is a numpy integer) and `set.symmetric_difference` (ASSUMED LAW `hsymm`: the result lists, in some order, exactly the model's
     `symmDiff`).
   NOT translated (their tie remains the differential correspondence of `./check C10`): `get_parities_from_measurements` (in-place `+=`
   on a view of a 3-d array), `get_expectation_values_from_parities`, `concatenate_expectation_values`, `expectation_values_to_real`
   (object mutation, `np.sqrt`; no hand-written model). -/
import OQ.Lemmas.C10_TranslatedStats
import OQ.Props.C10
import OQ.Props.C10_TranslatedCounts
namespace OQ.C10
open OQ.Generated OQ.Py

/-! ### ties -/

/-- TRANSLATION TIE: `_convert_bitstrings_to_vector(bitstrings)` (`len([*bitstrings][0])`, `"".join`, `np.frombuffer(…, "u1") - ord("0")`,
    `.astype(int).reshape(-1, n_qubits)`) regenerated from the current Python source IS the model's `convertBitstringsToVector` – for
    EVERY list of bitstrings over '0'/'1' (any lengths, ragged and empty included): the same rows, the width of the first key, and the
    same exception class (IndexError for no key, ValueError of `reshape` for width 0 / a size the width does not divide). -/
theorem translated_convert_bitstrings_to_vector_eq (keys : List Shot) :
    Translated.convert_bitstrings_to_vector (keys.map encS) = convResult keys (convertBitstringsToVector keys) := by
  unfold Translated.convert_bitstrings_to_vector
  cases keys with
  | nil => rfl
  | cons k0 ks =>
    rw [List.map_cons, indexE_zero_cons]
    simp only [bind_ok, ← List.map_cons, join_nil_eq_flatten, flatten_map_encS, u1_of_encS]
    have hl : (encS k0).length = k0.length := by simp [encS]
    rw [hl]
    unfold convertBitstringsToVector
    simp only []
    generalize (k0 :: ks).flatten = all
    have hlen : (encT all).length = all.length := by simp [encT]
    unfold npReshapeE
    rw [hlen, Int.toNat_natCast]
    by_cases hw : k0.length = 0
    · rw [if_pos (by omega), if_pos hw]; rfl
    · rw [if_neg (by omega), if_neg hw]
      by_cases hd : all.length % k0.length ≠ 0
      · rw [if_pos hd, if_pos hd]; rfl
      · rw [if_neg hd, if_neg hd]
        simp only [bind_ok, convResult, List.headD_cons]
        rw [show encT all = all.map (fun b => if b then (1 : Int) else 0) from rfl, npChunks_map]
        rfl

/-- TRANSLATION TIE: `check_parity_of_vector(bitstrings_vector, marked_qubits)` (`np.ones(shape[0])` when nothing is marked, else
    `(bitstrings_vector[:, np.fromiter(marked_qubits, dtype=int)].sum(axis=1) + 1) % 2`) IS the model's `checkParityOfVector` – for every
    2-d array of bits with rows of one length `w` and every list of non-negative qubit indices IN ANY ORDER, on the domain "at least one
    row, or all indices inside the width" (the model's list of rows does not record the width of an array without rows, where numpy
    still checks the indices; negative indices are outside the model): the same parity vector, IndexError for an index ≥ w. -/
theorem translated_check_parity_of_vector_eq (rows : List Shot) (w : Nat) (marked : List Nat)
    (hrows : ∀ r ∈ rows, r.length = w) (hne : rows ≠ [] ∨ ∀ q ∈ marked, q < w) :
    Translated.check_parity_of_vector ⟨w, rows.map encT⟩ (marked.map Int.ofNat) = parResult (checkParityOfVector rows marked) := by
  unfold Translated.check_parity_of_vector checkParityOfVector
  cases marked with
  | nil =>
    simp only [List.map_nil, List.isEmpty_nil, if_true, npShape2, indexE_zero_cons, bind_ok, parResult, npOnes, List.length_map,
      Int.toNat_natCast, List.map_map]
    congr 1
    clear hne hrows
    induction rows with
    | nil => rfl
    | cons r rs ih => simp only [List.length_cons, List.replicate_succ, List.map_cons]; rw [ih]; rfl
  | cons q0 qs =>
    simp only [List.map_cons, List.isEmpty_cons, Bool.false_eq_true, if_false]
    rw [← List.map_cons]
    generalize q0 :: qs = marked at hne ⊢
    unfold npTakeColsE npFromIterInt
    by_cases hin : ∀ q ∈ marked, q < w
    · have hall : (marked.map Int.ofNat).all (fun i => decide (-((w : Nat) : Int) ≤ i) && decide (i < ((w : Nat) : Int))) = true := by
        rw [List.all_eq_true]
        intro i hi
        obtain ⟨q, hq, rfl⟩ := List.mem_map.mp hi
        have := hin q hq
        simp only [Bool.and_eq_true, decide_eq_true_eq]
        constructor <;> (simp only [Int.ofNat_eq_natCast]; omega)
      simp only [hall, if_true, bind_ok]
      rw [mapE_ok (rowParity marked) (parityBit marked) rows (fun r hr => rowParity_ok _ r (fun q hq => by rw [hrows r hr]; exact hin q hq))]
      simp only [parResult, npModS, npAddS, npSumAxis1, List.map_map]
      congr 1
      apply List.map_congr_left
      intro r _
      have hf : ∀ q ∈ marked, ((fun (i : Int) => (encT r).getD (if 0 ≤ i then i.toNat else (i + ((w : Nat) : Int)).toNat) default) ∘ Int.ofNat) q
          = (Int.ofNat ∘ fun q => (bitAt r q).toNat) q := by
        intro q _
        simp only [Function.comp, Int.ofNat_eq_natCast, Int.natCast_nonneg, if_true, Int.toNat_natCast]
        exact getD_encT r q
      simp only [Function.comp_def] at hf ⊢
      rw [List.map_congr_left hf, show (fun (q : Nat) => Int.ofNat (bitAt r q).toNat) = Int.ofNat ∘ (fun q => (bitAt r q).toNat) from rfl,
        ← List.map_map, OQ.C13.py_sum_ofNat, fmod_two]
      rfl
    · have hall : (marked.map Int.ofNat).all (fun i => decide (-((w : Nat) : Int) ≤ i) && decide (i < ((w : Nat) : Int))) = false := by
        rw [List.all_eq_false]
        push Not at hin
        obtain ⟨q, hq, hle⟩ := hin
        refine ⟨Int.ofNat q, List.mem_map.mpr ⟨q, hq, rfl⟩, ?_⟩
        simp only [Bool.and_eq_true, decide_eq_true_eq, not_and, Int.ofNat_eq_natCast]
        omega
      simp only [hall, Bool.false_eq_true, if_false]
      rcases hne with hne | hne
      · cases rows with
        | nil => exact absurd rfl hne
        | cons r0 rs =>
          push Not at hin
          obtain ⟨q, hq, hle⟩ := hin
          have : rowParity marked r0 = .error .index := rowParity_error marked r0 ⟨q, hq, by rw [hrows r0 (by simp)]; exact hle⟩
          simp only [mapE, this]
          rfl
      · exact absurd hne hin

/-- TRANSLATION TIE: `get_expectation_value_from_frequencies(marked_qubits, bitstring_frequencies)` (the two calls above, `* 2 - 1`,
    `sum(values)`, `np.fromiter(values) * parity / num_measurements`, `.sum().item()`) IS the model's `expectationFromFrequencies` – for
    EVERY list of qubit indices and EVERY dictionary of '0'/'1' keys with non-negative int counts (ragged keys, zero counts, no key
    included): the same value, the same exception class, and `.error .zeroDiv` exactly where the model says `nan` (total count 0:
    numpy returns nan without raising). -/
theorem translated_get_expectation_value_from_frequencies_eq (marked : List Nat) (freq : Counts) :
    Translated.get_expectation_value_from_frequencies (ν := Rat) (marked.map Int.ofNat) (countsToPy freq) =
      numResult (expectationFromFrequencies (R := Rat) marked freq) := by
  unfold Translated.get_expectation_value_from_frequencies expectationFromFrequencies
  have hk : dictKeys (countsToPy freq) = (freq.map (fun p => p.1)).map encS := by
    simp [dictKeys, countsToPy, List.map_map, Function.comp_def]
  have hv : dictValues (countsToPy freq) = (freq.map (fun p => p.2)).map Int.ofNat := by
    simp [dictValues, countsToPy, List.map_map, Function.comp_def]
  rw [hk, hv, translated_convert_bitstrings_to_vector_eq]
  cases hc : convertBitstringsToVector (freq.map (fun p => p.1)) with
  | error e => rfl
  | ok rows =>
    obtain ⟨hw, hrne, hrl⟩ := convert_ok_inv _ rows hc
    simp only [convResult, bind_ok]
    rw [translated_check_parity_of_vector_eq rows _ marked hrl (Or.inl hrne)]
    cases hp : checkParityOfVector rows marked with
    | error e => rfl
    | ok par =>
      simp only [parResult, bind_ok, npSubS, npMulS]
      -- `num_measurements`: the source is accepted in both forms, `sum(d.values())` (a `let`) and `sum(int(count) for count in d.values())`
      -- (a generator expression over Python ints whose element is the loop variable: `mapE (fun count => .ok count)`, which is the list
      -- itself – `py_mapE_ok_id`); after this step the two generated terms coincide
      try simp only [py_mapE_ok_id, bind_ok]
      have hsig : List.map (fun x => x - 1) (List.map (fun x => x * 2) (par.map Int.ofNat)) = par.map (fun p => ((p : Nat) : Int) * 2 - 1) := by
        simp [List.map_map, Function.comp_def]
      rw [OQ.C13.py_sum_ofNat, zip1_broadcast, hsig]
      cases hb : broadcastMul (freq.map (fun p => p.2)) (par.map (fun p => ((p : Nat) : Int) * 2 - 1)) with
      | error e => rfl
      | ok prods =>
        simp only [bind_ok]
        have hfne : freq.map (fun p => p.2) ≠ [] := by
          intro h
          have : freq = [] := by simpa using h
          subst this
          cases hc
        have hpne : par.map (fun p => ((p : Nat) : Int) * 2 - 1) ≠ [] := by
          intro h
          have hpn : par = [] := by simpa using h
          subst hpn
          unfold checkParityOfVector at hp
          split_ifs at hp with hm
          · have := (Except.ok.inj hp)
            simp at this
            exact hrne this
          · cases rows with
            | nil => exact hrne rfl
            | cons r rs =>
              simp only [mapE] at hp
              split at hp
              · cases hp
              · split at hp <;> cases hp
        have hprods := broadcast_ne_nil _ _ prods hfne hpne hb
        unfold npTrueDivE
        by_cases hz : (((freq.map (fun p => p.2)).sum : Nat) : Int) = 0
        · have : prods.isEmpty = false := by cases prods with | nil => exact absurd rfl hprods | cons a b => rfl
          simp [hz, this, numResult, toExc10]
        · have hz' : ((((freq.map (fun p => p.2)).sum : Nat) : Int) == 0) = false := by simpa using hz
          simp only [hz', Bool.false_and, Bool.false_eq_true, if_false, bind_ok, hz, numResult]
          rw [sumNum_rat]

/-- TRANSLATION TIE: `Measurements.get_expectation_values(ising_operator, use_bessel_correction)` regenerated from the current Python
    source – the Ising test, `get_counts()`, the coefficient comprehension with the `np.integer` conversion, the comprehension of
    coefficient × frequencies observable, the double loop that fills `correlations` entry by entry (`[i, i]`, `[i, j]` from the symmetric
    difference with term `i` first, `[j, i]` copied from `[i, j]`), the Bessel switch, `(correlations - values[:, None] * values[None, :])
    / denominator` – IS the model's `getExpectationValues`: the same values, the same n × n tables (entries `none` where the denominator
    is 0), the same exception class.
    DOMAIN: every list of bit shots of one length `w` (ANY w, no shot included), every operator (Ising or not) whose qubits lie inside
    the width, both settings of the switch.  Excluded: shots of different lengths and qubits ≥ w – for those
    `translated_get_expectation_values_raises` covers every case in which the values stage raises.
    ASSUMED LAWS of the externals: `hint` (a numpy-integer coefficient converts to the same number) and `hsymm` (the symmetric difference
    of two qubit sets lists the model's `symmDiff` in some order). -/
theorem translated_get_expectation_values_eq (isnp : Rat → Bool) (toInt : Rat → Int) (symm : List Int → List Int → List Int)
    (hint : ∀ c, isnp c = true → ((toInt c : Int) : Rat) = c)
    (hsymm : ∀ a b : List Nat, ∃ l : List Nat, symm (a.map Int.ofNat) (b.map Int.ofNat) = l.map Int.ofNat ∧ l.Perm (symmDiff a b))
    (shots : List Shot) (terms : List (Term Rat)) (bessel : Bool) (w : Nat)
    (hl : ∀ s ∈ shots, s.length = w) (hq : ∀ t ∈ terms, ∀ q ∈ t.qubits, q < w) :
    Translated.measurements_get_expectation_values (ν := Rat) (Ω := List (Term Rat)) (Τ := Term Rat) isnp toInt symm
      (fun ts => ts.all Term.isIsing) (fun ts => ts) Term.coeff (fun t => t.qubits.map Int.ofNat) (shots.map encT) terms bessel
    = evResult terms.length (getExpectationValues shots terms bessel) := by
  unfold Translated.measurements_get_expectation_values getExpectationValues
  by_cases hI : terms.all Term.isIsing = true
  swap
  · simp [hI, evResult, toExc10]
  simp only [hI, Bool.not_true, Bool.false_eq_true, if_false]
  rw [translated_get_counts_eq]
  have hco : (fun (term : Term Rat) => (Except.ok (if isnp term.coeff then ((toInt term.coeff : Int) : Rat) else term.coeff) : Except Exc4 Rat))
      = fun term => Except.ok term.coeff := by
    funext t
    by_cases h : isnp t.coeff = true
    · simp [h, hint _ h]
    · simp [h]
  rw [hco, py_mapE_pure]
  simp only [bind_ok, zip_map_self, py_mapE_map, translated_get_expectation_value_from_frequencies_eq, vals_step]
  cases hv : mapE (termValue (getCounts shots)) terms with
  | error e => rfl
  | ok vals =>
    simp only [bind_ok]
    -- the domain facts (only needed, and only available, when there is a term)
    have hdom : ∀ j, j < terms.length → shots ≠ [] ∧ 0 < w := by
      intro j hj
      cases terms with
      | nil => simp at hj
      | cons t ts => exact dom_of_vals shots w t ts vals hl hv
    set n := terms.length with hn
    let tm : Nat → Term Rat := fun i => terms.getD i dT
    have htm : ∀ j, j < n → tm j ∈ terms := by
      intro j hj
      simp only [tm, List.getD_eq_getElem?_getD, List.getElem?_eq_getElem hj, Option.getD_some]
      exact List.getElem_mem _
    let M : Nat → Nat → Rat := fun a b => entrySpec shots (a, tm a) (b, tm b)
    -- the values
    have hvals : vals = terms.map (fun t => t.coeff * meanZ t.qubits shots) := by
      have := mapE_ok (termValue (getCounts shots)) (fun t => t.coeff * meanZ t.qubits shots) terms (fun t ht => by
        obtain ⟨j, hj, _⟩ := List.getElem_of_mem ht
        obtain ⟨hne, hw⟩ := hdom j hj
        exact termValue_ok t shots w hne hw hl (hq t ht))
      rw [this] at hv
      exact (Except.ok.inj hv).symm
    -- the frequencies observable on the symmetric difference the external returns
    have hE : ∀ j k, j < n → k < n →
        Translated.get_expectation_value_from_frequencies (ν := Rat)
          (symm ((tm j).qubits.map Int.ofNat) ((tm k).qubits.map Int.ofNat)) (countsToPy (getCounts shots)) =
          .ok (meanZ (symmDiff (tm j).qubits (tm k).qubits) shots) := by
      intro j k hj hk
      obtain ⟨l, hl1, hl2⟩ := hsymm (tm j).qubits (tm k).qubits
      obtain ⟨hne, hw⟩ := hdom j hj
      rw [hl1, translated_get_expectation_value_from_frequencies_eq,
        expectation_getCounts l shots w hne hw hl (fun q hq' =>
          (mem_symmDiff _ _ q (hl2.mem_iff.mp hq')).elim (hq _ (htm j hj) q) (hq _ (htm k hk) q))]
      simp only [numResult]
      rw [meanZ_perm l _ hl2]
    -- the loops
    have hloop : ∀ B : Arr2 Rat → Int × Term Rat → Except Exc4 (Arr2 Rat),
        (∀ j, j < n → B (tab n (Hf M j)) (((j : Nat) : Int), terms.getD j dT) = .ok (tab n (Hf M (j + 1)))) →
        foldlE B (tab n (Hf M 0)) (enumerate terms) = .ok (tab n (Hf M n)) :=
      fun B h => foldlE_enumerate B terms dT (fun m => tab n (Hf M m)) h
    have hH0 : (fun (_ _ : Nat) => (0 : Rat)) = Hf M 0 := by
      funext a b; simp [Hf]
    rw [npZeros2_eq, hH0, hloop]
    · -- after the loops: the covariances, and the model's own table
      have hmemj : ∀ a ∈ withIdx 0 terms, ∃ j, j < n := by
        intro a ha
        obtain ⟨j, hj, _⟩ := List.getElem_of_mem (withIdx_mem 0 terms a ha).1
        exact ⟨j, hj⟩
      have hcorr : mapE (fun a => mapE (corrEntry (getCounts shots) a) (withIdx 0 terms)) (withIdx 0 terms) =
          .ok ((withIdx 0 terms).map (fun a => (withIdx 0 terms).map (entrySpec shots a))) := by
        apply mapE_ok
        intro a ha
        apply mapE_ok
        intro b hb
        obtain ⟨j, hj⟩ := hmemj a ha
        obtain ⟨hne, hw⟩ := hdom j hj
        exact corrEntry_ok a b shots w hne hw hl (hq _ (withIdx_mem 0 terms a ha).1) (hq _ (withIdx_mem 0 terms b hb).1)
      have htab : tab n (Hf M n) = ⟨n, (withIdx 0 terms).map (fun a => (withIdx 0 terms).map (entrySpec shots a))⟩ := by
        unfold tab
        congr 1
        rw [withIdx_eq 0 terms dT, List.map_map]
        apply List.map_congr_left
        intro a ha
        simp only [Function.comp, List.map_map]
        apply List.map_congr_left
        intro b hb
        simp only [Function.comp, Hf, List.mem_range.mp ha, List.mem_range.mp hb, and_self, if_true, Nat.zero_add, M, tm]
      rw [hcorr, htab]
      simp only [bind_ok, evResult]
      have hvl : vals.length = n := by rw [hvals, List.length_map]
      rw [outer_ok, hvl]
      simp only [bind_ok]
      rw [zip2_same _ n _ _ (by simp [withIdx_eq 0 terms dT, ← hn]) (by simp [hvl])
        (by intro r hr; obtain ⟨a, _, rfl⟩ := List.mem_map.mp hr; simp [withIdx_eq 0 terms dT, ← hn])
        (by intro r hr; obtain ⟨a, _, rfl⟩ := List.mem_map.mp hr; simp [hvl])]
      simp only [bind_ok, npDivS2, npArray1, cov_eq, List.length_map]
    · intro j hj
      have hjl : j < terms.length := hj
      have hMjj : M j j = (tm j).coeff * (tm j).coeff := by simp [M, entrySpec]
      simp only []
      rw [indexE_map_getD Term.coeff terms dT j hjl, bind_ok, tab_get n _ j j hj hj, bind_ok, tab_set n _ j j _ hj hj,
        ← hMjj, Gf_zero, Int.toNat_natCast]
      have hin : ∀ Bin : Arr2 Rat → Int → Except Exc4 (Arr2 Rat),
          (∀ k, k < j → Bin (tab n (Gf M j k)) (Int.ofNat k) = .ok (tab n (Gf M j (k + 1)))) →
          foldlE Bin (tab n (Gf M j 0)) ((List.range j).map Int.ofNat) = .ok (tab n (Gf M j j)) :=
        fun Bin h => foldlE_range Bin (fun k => tab n (Gf M j k)) j h
      rw [hin]
      · rw [bind_ok, Gf_end]
      · intro k hk
        have hkn : k < n := by omega
        have hkl : k < terms.length := hkn
        have hMjk : M j k = (tm j).coeff * (tm k).coeff * meanZ (symmDiff (tm j).qubits (tm k).qubits) shots := by
          have h1 : ¬ j = k := by omega
          simp [M, entrySpec, h1, hk]
        have hMkj : M k j = (tm j).coeff * (tm k).coeff * meanZ (symmDiff (tm j).qubits (tm k).qubits) shots := by
          have h1 : ¬ k = j := by omega
          have h2 : ¬ j < k := by omega
          simp [M, entrySpec, h1, h2]
        simp only [Int.ofNat_eq_natCast]
        rw [indexE_getD terms dT k hkl]
        simp only [bind_ok]
        rw [indexE_map_getD Term.coeff terms dT k hkl]
        simp only [bind_ok]
        rw [hE j k hj hkn]
        simp only [bind_ok]
        rw [tab_get n _ j k hj hkn]
        simp only [bind_ok]
        rw [tab_set n _ j k _ hj hkn, tab_get n _ j k hj hkn, tab_get n _ k j hkn hj]
        simp only [bind_ok]
        rw [tab_set n _ k j _ hkn hj]
        simp only [and_self, if_true]
        rw [Gf_step M j k hk _ hMjk hMkj]

/-- TRANSLATION TIE (the raising cases, ALL inputs – shots of any lengths, qubits anywhere): a non-Ising operator makes the translated
    method raise TypeError, and whenever the model's values stage (`coefficient × frequencies observable`, term by term) raises `e` – no
    shot at all (IndexError), width 0 / ragged keys (ValueError of `reshape` or of the broadcast), a qubit outside the width (IndexError) –
    the translated method raises the same class; the model reports the same. -/
theorem translated_get_expectation_values_raises (isnp : Rat → Bool) (toInt : Rat → Int) (symm : List Int → List Int → List Int)
    (hint : ∀ c, isnp c = true → ((toInt c : Int) : Rat) = c)
    (shots : List Shot) (terms : List (Term Rat)) (bessel : Bool) (e : Err)
    (h : (¬ terms.all Term.isIsing = true ∧ e = .type) ∨
         (terms.all Term.isIsing = true ∧ mapE (termValue (getCounts shots)) terms = .error e)) :
    Translated.measurements_get_expectation_values (ν := Rat) (Ω := List (Term Rat)) (Τ := Term Rat) isnp toInt symm
      (fun ts => ts.all Term.isIsing) (fun ts => ts) Term.coeff (fun t => t.qubits.map Int.ofNat) (shots.map encT) terms bessel
      = .error (toExc10 e) ∧ getExpectationValues shots terms bessel = .error e := by
  unfold Translated.measurements_get_expectation_values getExpectationValues
  rcases h with ⟨hI, rfl⟩ | ⟨hI, hv⟩
  · simp [hI, toExc10]
  · simp only [hI, Bool.not_true, Bool.false_eq_true, if_false, hv, and_true]
    rw [translated_get_counts_eq]
    have hco : (fun (term : Term Rat) => (Except.ok (if isnp term.coeff then ((toInt term.coeff : Int) : Rat) else term.coeff) : Except Exc4 Rat))
        = fun term => Except.ok term.coeff := by
      funext t
      by_cases h : isnp t.coeff = true
      · simp [h, hint _ h]
      · simp [h]
    rw [hco, py_mapE_pure]
    simp only [bind_ok, zip_map_self, py_mapE_map, translated_get_expectation_value_from_frequencies_eq, vals_step, hv]
    rfl

/-! ### END-TO-END: the property's sentences on the translated code -/

/-- `check_parity_of_vector_spec` ON THE TRANSLATED FUNCTION: entry 1 exactly for the rows with an even number of 1s on the marked
    qubits, 0 for the others. -/
theorem translated_check_parity_of_vector_spec (rows : List Shot) (marked : List Nat) (w : Nat)
    (h : ∀ r ∈ rows, r.length = w) (hm : ∀ q ∈ marked, q < w) :
    Translated.check_parity_of_vector ⟨w, rows.map encT⟩ (marked.map Int.ofNat) =
      .ok (rows.map (fun r => if evenParity marked r then 1 else 0)) := by
  rw [translated_check_parity_of_vector_eq rows w marked h (Or.inr hm), check_parity_of_vector_spec rows marked w h hm]
  simp only [parResult, List.map_map]
  congr 1
  apply List.map_congr_left
  intro r _
  simp only [Function.comp]
  split <;> rfl

/-- `frequencies_expectation_eq_weighted_mean_partial` ON THE TRANSLATED FUNCTION: on a frequency dictionary with keys of one positive
    width and a positive total, the regenerated `get_expectation_value_from_frequencies` returns the frequency-weighted mean of the ±1
    eigenvalue of the Z-string on the marked qubits. -/
theorem translated_frequencies_expectation_eq_weighted_mean (marked : List Nat) (freq : Counts) (w : Nat) (hne : freq ≠ [])
    (hw : 0 < w) (hk : ∀ p ∈ freq, p.1.length = w) (hm : ∀ q ∈ marked, q < w) (ht : freq.total ≠ 0) :
    Translated.get_expectation_value_from_frequencies (ν := Rat) (marked.map Int.ofNat) (countsToPy freq) =
      .ok ((((freq.map (fun p => ((p.2 : Nat) : Int) * zval marked p.1)).sum : Int) : Rat) / ((freq.total : Nat) : Rat)) := by
  rw [translated_get_expectation_value_from_frequencies_eq,
    frequencies_expectation_eq_weighted_mean_partial marked freq w hne hw hk hm ht]
  rfl

/-- `expectation_values_reported_partial` ON THE TRANSLATED METHOD: on a non-empty list of shots of one positive width, for every Ising
    operator whose qubits lie inside the width, the regenerated `get_expectation_values` raises nothing and returns the record of sample
    statistics `evSpec` (values, one n × n correlation table, one n × n covariance table). -/
theorem translated_expectation_values_reported (isnp : Rat → Bool) (toInt : Rat → Int) (symm : List Int → List Int → List Int)
    (hint : ∀ c, isnp c = true → ((toInt c : Int) : Rat) = c)
    (hsymm : ∀ a b : List Nat, ∃ l : List Nat, symm (a.map Int.ofNat) (b.map Int.ofNat) = l.map Int.ofNat ∧ l.Perm (symmDiff a b))
    (shots : List Shot) (terms : List (Term Rat)) (bessel : Bool) (w : Nat) (hne : shots ≠ []) (hw : 0 < w)
    (hl : ∀ s ∈ shots, s.length = w) (hI : ∀ t ∈ terms, t.isIsing = true)
    (hq : ∀ t ∈ terms, ∀ q ∈ t.qubits, q < w) (hn : ∀ t ∈ terms, t.qubits.Nodup) :
    Translated.measurements_get_expectation_values (ν := Rat) (Ω := List (Term Rat)) (Τ := Term Rat) isnp toInt symm
      (fun ts => ts.all Term.isIsing) (fun ts => ts) Term.coeff (fun t => t.qubits.map Int.ofNat) (shots.map encT) terms bessel
      = .ok ((evSpec shots terms bessel).values, [⟨terms.length, (evSpec shots terms bessel).correlations⟩],
             [⟨terms.length, (evSpec shots terms bessel).covariances⟩]) := by
  rw [translated_get_expectation_values_eq isnp toInt symm hint hsymm shots terms bessel w hl hq,
    expectation_values_reported_partial shots terms bessel w hne hw hl hI hq hn]
  rfl

/-- `value_eq_mean` ON THE TRANSLATED METHOD: "the reported expectation value of each term is its coefficient times the sample mean of
    the term's ±1 eigenvalue over the shots" – the first component of what the regenerated method returns. -/
theorem translated_value_eq_mean (isnp : Rat → Bool) (toInt : Rat → Int) (symm : List Int → List Int → List Int)
    (hint : ∀ c, isnp c = true → ((toInt c : Int) : Rat) = c)
    (hsymm : ∀ a b : List Nat, ∃ l : List Nat, symm (a.map Int.ofNat) (b.map Int.ofNat) = l.map Int.ofNat ∧ l.Perm (symmDiff a b))
    (shots : List Shot) (terms : List (Term Rat)) (bessel : Bool) (w : Nat) (hne : shots ≠ []) (hw : 0 < w)
    (hl : ∀ s ∈ shots, s.length = w) (hI : ∀ t ∈ terms, t.isIsing = true)
    (hq : ∀ t ∈ terms, ∀ q ∈ t.qubits, q < w) (hn : ∀ t ∈ terms, t.qubits.Nodup) :
    ∃ corr cov, Translated.measurements_get_expectation_values (ν := Rat) (Ω := List (Term Rat)) (Τ := Term Rat) isnp toInt symm
      (fun ts => ts.all Term.isIsing) (fun ts => ts) Term.coeff (fun t => t.qubits.map Int.ofNat) (shots.map encT) terms bessel
      = .ok (terms.map (fun t => t.coeff * mean (fun s => ((zval t.qubits s : Int) : Rat)) shots), corr, cov) := by
  refine ⟨[⟨terms.length, (evSpec shots terms bessel).correlations⟩], [⟨terms.length, (evSpec shots terms bessel).covariances⟩], ?_⟩
  rw [translated_expectation_values_reported isnp toInt symm hint hsymm shots terms bessel w hne hw hl hI hq hn]
  rfl

/-- `correlation_eq_mean_product` ON THE TRANSLATED METHOD: "the reported correlations are the sample means of products of two terms'
    values" – the one n × n table of the second component, every entry, diagonal included. -/
theorem translated_correlation_eq_mean_product (isnp : Rat → Bool) (toInt : Rat → Int) (symm : List Int → List Int → List Int)
    (hint : ∀ c, isnp c = true → ((toInt c : Int) : Rat) = c)
    (hsymm : ∀ a b : List Nat, ∃ l : List Nat, symm (a.map Int.ofNat) (b.map Int.ofNat) = l.map Int.ofNat ∧ l.Perm (symmDiff a b))
    (shots : List Shot) (terms : List (Term Rat)) (bessel : Bool) (w : Nat) (hne : shots ≠ []) (hw : 0 < w)
    (hl : ∀ s ∈ shots, s.length = w) (hI : ∀ t ∈ terms, t.isIsing = true)
    (hq : ∀ t ∈ terms, ∀ q ∈ t.qubits, q < w) (hn : ∀ t ∈ terms, t.qubits.Nodup) :
    ∃ vals cov, Translated.measurements_get_expectation_values (ν := Rat) (Ω := List (Term Rat)) (Τ := Term Rat) isnp toInt symm
      (fun ts => ts.all Term.isIsing) (fun ts => ts) Term.coeff (fun t => t.qubits.map Int.ofNat) (shots.map encT) terms bessel
      = .ok (vals, [⟨terms.length, terms.map (fun ti => terms.map (fun tj =>
          mean (fun s => (ti.coeff * ((zval ti.qubits s : Int) : Rat)) * (tj.coeff * ((zval tj.qubits s : Int) : Rat))) shots))⟩], cov) := by
  refine ⟨(evSpec shots terms bessel).values, [⟨terms.length, (evSpec shots terms bessel).covariances⟩], ?_⟩
  rw [translated_expectation_values_reported isnp toInt symm hint hsymm shots terms bessel w hne hw hl hI hq hn]
  rfl

/-- `covariance_formula` ON THE TRANSLATED METHOD: "the estimator covariances are (correlation minus product of means) divided by the
    number of shots, or by one less with Bessel's correction" – the one n × n table of the third component; with Bessel's correction at
    least two shots are needed for the quotient to exist (`some`). -/
theorem translated_covariance_formula (isnp : Rat → Bool) (toInt : Rat → Int) (symm : List Int → List Int → List Int)
    (hint : ∀ c, isnp c = true → ((toInt c : Int) : Rat) = c)
    (hsymm : ∀ a b : List Nat, ∃ l : List Nat, symm (a.map Int.ofNat) (b.map Int.ofNat) = l.map Int.ofNat ∧ l.Perm (symmDiff a b))
    (shots : List Shot) (terms : List (Term Rat)) (bessel : Bool) (w : Nat) (hne : shots ≠ []) (hw : 0 < w)
    (hl : ∀ s ∈ shots, s.length = w) (hI : ∀ t ∈ terms, t.isIsing = true)
    (hq : ∀ t ∈ terms, ∀ q ∈ t.qubits, q < w) (hn : ∀ t ∈ terms, t.qubits.Nodup) (hb : bessel = true → 2 ≤ shots.length) :
    ∃ vals corr, Translated.measurements_get_expectation_values (ν := Rat) (Ω := List (Term Rat)) (Τ := Term Rat) isnp toInt symm
      (fun ts => ts.all Term.isIsing) (fun ts => ts) Term.coeff (fun t => t.qubits.map Int.ofNat) (shots.map encT) terms bessel
      = .ok (vals, corr, [⟨terms.length, terms.map (fun ti => terms.map (fun tj =>
          some ((corrSpec shots ti tj - (ti.coeff * meanZ ti.qubits shots) * (tj.coeff * meanZ tj.qubits shots)) /
            (if bessel then ((shots.length : Nat) : Rat) - 1 else ((shots.length : Nat) : Rat)))))⟩]) := by
  refine ⟨(evSpec shots terms bessel).values, [⟨terms.length, (evSpec shots terms bessel).correlations⟩], ?_⟩
  rw [translated_expectation_values_reported isnp toInt symm hint hsymm shots terms bessel w hne hw hl hI hq hn,
    ← covariance_formula shots terms bessel w (evSpec shots terms bessel) hne hl hq hn
      (expectation_values_reported_partial shots terms bessel w hne hw hl hI hq hn) hb]

/-! ## non-vacuity: the TRANSLATED definitions on concrete inputs (and stand-ins for the externals that satisfy the assumed laws) -/

/-- stand-ins for the externals: no coefficient is a numpy integer, `int` truncates, the symmetric difference in the model's order -/
def exSymm (a b : List Int) : List Int := a.filter (fun q => !b.contains q) ++ b.filter (fun q => !a.contains q)

example : Translated.convert_bitstrings_to_vector [['0', '1'], ['1', '1'], ['1', '0']] = .ok ⟨2, [[0, 1], [1, 1], [1, 0]]⟩ := by decide
example : Translated.convert_bitstrings_to_vector [['0'], ['1', '1'], ['1']] = .ok ⟨1, [[0], [1], [1], [1]]⟩ := by decide
example : Translated.convert_bitstrings_to_vector [['0', '1'], ['1']] = .error .value := by decide
example : Translated.convert_bitstrings_to_vector [[], []] = .error .value := by decide
example : Translated.convert_bitstrings_to_vector [] = .error .index := by decide
example : Translated.check_parity_of_vector ⟨2, [[0, 1], [1, 1], [1, 0]]⟩ [1, 0] = .ok [0, 1, 0] := by decide
example : Translated.check_parity_of_vector ⟨2, [[0, 1], [1, 1]]⟩ [] = .ok [1, 1] := by decide
example : Translated.check_parity_of_vector ⟨2, [[0, 1], [1, 1]]⟩ [2] = .error .index := by decide
example : Translated.check_parity_of_vector ⟨2, []⟩ [2] = .error .index := by decide
example : Translated.get_expectation_value_from_frequencies (ν := Rat) [0] [(['0', '1'], 2), (['1', '1'], 1), (['1', '0'], 1)] = .ok 0 := by
  decide +kernel
example : Translated.get_expectation_value_from_frequencies (ν := Rat) [0, 1] [(['0', '1'], 2), (['1', '1'], 1), (['1', '0'], 1)] =
    .ok (-1 / 2) := by decide +kernel
example : Translated.get_expectation_value_from_frequencies (ν := Rat) [0] [(['0', '1'], 0)] = .error .zeroDiv := by decide +kernel
example : Translated.get_expectation_value_from_frequencies (ν := Rat) [2] [(['0', '1'], 1)] = .error .index := by decide +kernel
example : Translated.measurements_get_expectation_values (ν := Rat) (Ω := List (Term Rat)) (Τ := Term Rat) (fun _ => false) (fun q => q.floor)
    exSymm (fun ts => ts.all Term.isIsing) (fun ts => ts) Term.coeff (fun t => t.qubits.map Int.ofNat) (exShots.map encT) exTerms true =
    .ok ([0, -1/4, 3, 0],
      [⟨4, [[4, -1/2, 0, 4], [-1/2, 1/4, -3/4, -1/2], [0, -3/4, 9, 0], [4, -1/2, 0, 4]]⟩],
      [⟨4, [[some (4/3), some (-1/6), some 0, some (4/3)], [some (-1/6), some (1/16), some 0, some (-1/6)],
            [some 0, some 0, some 0, some 0], [some (4/3), some (-1/6), some 0, some (4/3)]]⟩]) := by decide +kernel
example : Translated.measurements_get_expectation_values (ν := Rat) (Ω := List (Term Rat)) (Τ := Term Rat) (fun _ => false) (fun q => q.floor)
    exSymm (fun ts => ts.all Term.isIsing) (fun ts => ts) Term.coeff (fun t => t.qubits.map Int.ofNat) [[1, 0]] [⟨2, [(0, .Z)]⟩] true =
    .ok ([-2], [⟨1, [[4]]⟩], [⟨1, [[none]]⟩]) := by decide +kernel
example : Translated.measurements_get_expectation_values (ν := Rat) (Ω := List (Term Rat)) (Τ := Term Rat) (fun _ => false) (fun q => q.floor)
    exSymm (fun ts => ts.all Term.isIsing) (fun ts => ts) Term.coeff (fun t => t.qubits.map Int.ofNat) [[1, 0]] [⟨2, [(0, .X)]⟩] true =
    .error .type := by decide +kernel
/-- the stand-in for `set.symmetric_difference` satisfies the assumed law (it is the model's `symmDiff` read on ints) -/
example : ∀ a b : List Nat, ∃ l : List Nat, exSymm (a.map Int.ofNat) (b.map Int.ofNat) = l.map Int.ofNat ∧ l.Perm (symmDiff a b) := by
  intro a b
  refine ⟨symmDiff a b, ?_, List.Perm.refl _⟩
  have hc : ∀ (l : List Nat) (q : Nat), (l.map Int.ofNat).contains (Int.ofNat q) = l.contains q := by
    intro l q
    induction l with
    | nil => rfl
    | cons x xs ih => simp only [List.map_cons, List.contains_cons, ih]; congr 1; simp
  simp only [exSymm, symmDiff, List.map_append, List.filter_map, Function.comp_def, hc]
/-- the hypotheses of the end-to-end theorems are met by `exShots` / `exTerms` -/
example : Translated.measurements_get_expectation_values (ν := Rat) (Ω := List (Term Rat)) (Τ := Term Rat) (fun _ => false) (fun q => q.floor)
    exSymm (fun ts => ts.all Term.isIsing) (fun ts => ts) Term.coeff (fun t => t.qubits.map Int.ofNat) (exShots.map encT) exTerms true =
    .ok ((evSpec exShots exTerms true).values, [⟨4, (evSpec exShots exTerms true).correlations⟩],
         [⟨4, (evSpec exShots exTerms true).covariances⟩]) :=
  translated_expectation_values_reported _ _ _ (by intro c h; cases h) (by
    intro a b
    refine ⟨symmDiff a b, ?_, List.Perm.refl _⟩
    have hc : ∀ (l : List Nat) (q : Nat), (l.map Int.ofNat).contains (Int.ofNat q) = l.contains q := by
      intro l q
      induction l with
      | nil => rfl
      | cons x xs ih => simp only [List.map_cons, List.contains_cons, ih]; congr 1; simp
    simp only [exSymm, symmDiff, List.map_append, List.filter_map, Function.comp_def, hc])
    exShots exTerms true 2 (by decide) (by decide) (by decide) (by decide) (by decide) (by decide)

end OQ.C10
