/-
  C08 — PROPERTY THEOREMS: circuit-level constructions (inverse, controlled circuit, gate layers, ancillas).
  Model: OQ/Model/C08.lean.  Helper lemmas: OQ/Lemmas/C08_Gate.lean (gate level), C08_Spec.lean (spec level),
  C08.lean (circuit level).

  Semantics.  `Uc k x n ops : Option (Matrix (BV (Fin n)) (BV (Fin n)) R)` is the action of the operation list
  `ops` on an `n`-qubit register: the product, first operation rightmost, of `opDen n M qs` – the gate matrix
  `M` of the model (`Gate.matrix`) placed on the qubits `qs`, the identity elsewhere, stated pointwise in the
  `lift_apply` form and proved equal to the shared `Spec.lift` (`opDen_is_spec_lift`).  `none` = some operation is
  ill formed on `n` qubits (repeated / out-of-range qubit, matrix of the wrong size) or sympy raised.
  The scalar ring is any commutative star ring; `k.cj = star` is the law of the constant record.
-/
import OQ.Lemmas.C08
import Mathlib.LinearAlgebra.Matrix.NonsingularInverse
import OQ.Lemmas.C08_Examples
set_option linter.unusedSectionVars false
set_option linter.unusedSimpArgs false
namespace OQ.C08
open Matrix OQ.Spec
open Classical
variable {R : Type} [CommRing R] [StarRing R]

/-! ## semantics -/

/-- "gate M on qubits qs of an n-qubit register" used in every statement below is `OQ.Spec.lift` of the gate's
    own matrix (over the bit assignments of its own register, qubit 0 most significant) along the listed qubits -/
theorem opDen_is_spec_lift (n : Nat) (m : Mat R) (qs : List Nat) (hnd : qs.Nodup) (hq : ∀ q ∈ qs, q < n) :
    opDen n m qs = lift (sigmaOf (embOf n qs hnd hq)) (gateDen qs.length m) :=
  opDen_eq_lift n m qs hnd hq

/-! ## sentence 1 — inverse -/

/-- Sentence 1, "the inverse's matrix is the conjugate transpose of the circuit's", for EVERY circuit, register
    width and scalar ring, under the per-gate hypothesis that `.dagger` denotes the adjoint
    (discharged for all regular gates by `dagger_rules_adjoint_partial`).  Error cases included: the inverse has
    an action iff the circuit has one. -/
theorem inverse_unitary (k : Scal R) (hk : k.cj = star) (x : Ext R) (n : Nat) (c : Circ (Gate R))
    (h : ∀ o ∈ c.ops, Gate.matrix k x (Gate.dagger o.gate) = (Gate.matrix k x o.gate).map (Gate.adj k)) :
    Uc k x n (inverse Gate.dagger c).ops = (Uc k x n c.ops).map conjTranspose := by
  simp only [inverse, mkCirc_ops]
  exact Uc_reverse_dagger k hk x n Gate.dagger c.ops h

/-- The per-gate dagger rules (`_gates.py:225` ff.): on every regular gate – built-in or custom base gates with a
    truthful `is_hermitian` flag, under any nesting of controlled / dagger / exponential / INTEGER power –
    `.dagger` denotes the adjoint matrix, keeps `num_qubits`, and yields a regular gate again.
    PARTIAL: fractional exponents under `Power` are excluded (finding F16, owned by C07: `Power.dagger` is the
    power of the dagger, which is not the adjoint of a fractional power; see the negative witness below).
    Assumes the laws `ExtLaws` of sympy's `exp` / `**`. -/
theorem dagger_rules_adjoint_partial (k : Scal R) (hk : k.cj = star) (x : Ext R) (hx : Gate.ExtLaws k x)
    (g : Gate R) (hg : Gate.Regular k g) :
    Gate.matrix k x (Gate.dagger g) = (Gate.matrix k x g).map (Gate.adj k) ∧
    Gate.nq (Gate.dagger g) = Gate.nq g ∧ Gate.Regular k (Gate.dagger g) :=
  ⟨Gate.dagger_faithful k hk x hx g hg, Gate.nq_dagger g, Gate.regular_dagger k g hg⟩

/-- Sentence 1 for circuits of regular gates (self-adjoint, parametric, wrapped, custom), every width.
    PARTIAL only in the gate domain (no fractional powers, F16). -/
theorem inverse_unitary_partial (k : Scal R) (hk : k.cj = star) (x : Ext R) (hx : Gate.ExtLaws k x) (n : Nat)
    (c : Circ (Gate R)) (hc : ∀ o ∈ c.ops, Gate.Regular k o.gate) :
    Uc k x n (inverse Gate.dagger c).ops = (Uc k x n c.ops).map conjTranspose :=
  inverse_unitary k hk x n c (fun o ho => Gate.dagger_faithful k hk x hx o.gate (hc o ho))

/-- `Circuit.inverse` keeps the register width and reverses the operations, each on its original qubits -/
theorem inverse_shape {G : Type} (dg : G → G) (c : Circ G) (hc : c.n = 0 → c.ops = []) :
    (inverse dg c).n = c.n ∧
    (inverse dg c).ops = c.ops.reverse.map (fun o => ⟨dg o.gate, o.qs⟩) := by
  refine ⟨?_, rfl⟩
  unfold inverse mkCirc
  by_cases h : c.n = 0
  · simp [h, hc h, sizeByOps]
  · simp [h]

/-- Sentence 1, "appending the circuit's inverse gives the identity on the whole register": for a circuit of
    unitary gates whose daggers denote adjoints, `c + c.inverse()` (and `c.inverse() + c`) act as the identity.
    (For non-unitary custom matrices the product is `Uᴴ U`, which is why unitarity of the gates is assumed.) -/
theorem inverse_appended_is_identity (k : Scal R) (hk : k.cj = star) (x : Ext R) (n : Nat) (c : Circ (Gate R))
    (h : ∀ o ∈ c.ops, Gate.matrix k x (Gate.dagger o.gate) = (Gate.matrix k x o.gate).map (Gate.adj k))
    (hu : ∀ o ∈ c.ops, ∀ m, Gate.matrix k x o.gate = some m →
      (gateDen o.qs.length m)ᴴ * gateDen o.qs.length m = 1)
    (U : Matrix (BV (Fin n)) (BV (Fin n)) R) (hU : Uc k x n c.ops = some U) :
    Uc k x n (appendCirc c (inverse Gate.dagger c)).ops = some 1 ∧
    Uc k x n (appendCirc (inverse Gate.dagger c) c).ops = some 1 := by
  have hinv := inverse_unitary k hk x n c h
  have huu := Uc_unitary k x n c.ops hu U hU
  rw [hU] at hinv
  simp only [appendCirc, mkCirc_ops, Uc_append, hinv, hU, Option.map_some, Option.bind_some]
  exact ⟨by rw [huu], by rw [_root_.mul_eq_one_comm.mp huu]⟩

/-- Sentence 1, "inverting twice returns a circuit with the original action" (hypotheses: the dagger rule is
    faithful on every gate of the circuit and on its dagger; both hold for regular gates) -/
theorem inverse_inverse (k : Scal R) (hk : k.cj = star) (x : Ext R) (n : Nat) (c : Circ (Gate R))
    (h : ∀ o ∈ c.ops, Gate.matrix k x (Gate.dagger o.gate) = (Gate.matrix k x o.gate).map (Gate.adj k))
    (h' : ∀ o ∈ c.ops, Gate.matrix k x (Gate.dagger (Gate.dagger o.gate))
        = (Gate.matrix k x (Gate.dagger o.gate)).map (Gate.adj k)) :
    Uc k x n (inverse Gate.dagger (inverse Gate.dagger c)).ops = Uc k x n c.ops := by
  have h2 : ∀ o ∈ (inverse Gate.dagger c).ops,
      Gate.matrix k x (Gate.dagger o.gate) = (Gate.matrix k x o.gate).map (Gate.adj k) := by
    intro o ho
    simp only [inverse, mkCirc_ops, List.mem_map, List.mem_reverse] at ho
    obtain ⟨o', ho', rfl⟩ := ho
    exact h' o' ho'
  rw [inverse_unitary k hk x n _ h2, inverse_unitary k hk x n c h, Option.map_map]
  cases Uc k x n c.ops with
  | none => rfl
  | some U => simp

/-- … in particular for every circuit of regular gates -/
theorem inverse_inverse_partial (k : Scal R) (hk : k.cj = star) (x : Ext R) (hx : Gate.ExtLaws k x) (n : Nat)
    (c : Circ (Gate R)) (hc : ∀ o ∈ c.ops, Gate.Regular k o.gate) :
    Uc k x n (inverse Gate.dagger (inverse Gate.dagger c)).ops = Uc k x n c.ops :=
  inverse_inverse k hk x n c
    (fun o ho => Gate.dagger_faithful k hk x hx o.gate (hc o ho))
    (fun o ho => Gate.dagger_faithful k hk x hx _ (Gate.regular_dagger k o.gate (hc o ho)))

/-! ## sentence 2 — controlled circuit -/

/-- the meaning of `ctrlAt` at control position `c` of an `(n+1)`-qubit register: zero between different control
    values, the IDENTITY when the control qubit is 0, and `A` on the remaining qubits – original qubit `i` sits at
    `c.succAbove i`, i.e. `i` below `c` and `i + 1` at or above `c` – when it is 1 -/
theorem controlled_action_pointwise (n : Nat) (c : Fin (n + 1)) (A : Matrix (BV (Fin n)) (BV (Fin n)) R)
    (x y : BV (Fin (n + 1))) :
    ctrlAt (finSuccEquiv' c).symm A x y =
      (if x c = y c then
        (if x c = true then A (fun i => x (c.succAbove i)) (fun i => y (c.succAbove i))
         else (1 : Matrix (BV (Fin n)) (BV (Fin n)) R) (fun i => x (c.succAbove i)) (fun i => y (c.succAbove i)))
      else 0) ∧
    ∀ i : Fin n, (c.succAbove i).val = if c.val ≤ i.val then i.val + 1 else i.val :=
  ⟨ctrlAt_fin_apply n c A x y, fun i => succAbove_val n c i⟩

/-- Sentence 2 for EVERY circuit, width `n` and control position `c ≤ n`: the controlled circuit acts as
    `|0⟩⟨0|_c ⊗ 1 + |1⟩⟨1|_c ⊗ U(circuit)` (`ctrlAt`, read pointwise in `controlled_action_pointwise`), under the
    per-gate hypotheses that `.controlled(1)` denotes `diag(1, M)` and matrices have the declared size
    (discharged for regular gates by `controlled_rules_block_partial`).  Error cases included. -/
theorem controlled_circuit (k : Scal R) (x : Ext R) (n : Nat) (c : Fin (n + 1)) (circ : Circ (Gate R))
    (h : ∀ o ∈ circ.ops, Gate.matrix k x (Gate.controlled o.gate 1)
        = (Gate.matrix k x o.gate).map (Gate.ctrlMat (2 ^ Gate.nq o.gate)))
    (hdim : ∀ o ∈ circ.ops, ∀ m, Gate.matrix k x o.gate = some m →
        m.r = 2 ^ Gate.nq o.gate ∧ m.c = 2 ^ Gate.nq o.gate) :
    Uc k x (n + 1) (controlledCirc (fun g => Gate.controlled g 1) c.val circ).ops
      = (Uc k x n circ.ops).map (ctrlAt (finSuccEquiv' c).symm) := by
  simp only [controlledCirc, mkCirc_ops]
  exact Uc_controlled k x n c (fun g => Gate.controlled g 1) circ.ops h hdim

/-- The per-gate `.controlled(1)` rules: on every regular gate the result has one more qubit, is regular, and its
    matrix is `diag(1, M)` (control first).  PARTIAL: no fractional powers (through `Dagger.controlled` /
    `Power.controlled` the F16 defect of `Power.dagger` reaches controlled gates as well). -/
theorem controlled_rules_block_partial (k : Scal R) (hk : k.cj = star) (x : Ext R) (hx : Gate.ExtLaws k x)
    (g : Gate R) (hg : Gate.Regular k g) :
    Gate.matrix k x (Gate.controlled g 1) = (Gate.matrix k x g).map (Gate.ctrlMat (2 ^ Gate.nq g)) ∧
    Gate.nq (Gate.controlled g 1) = Gate.nq g + 1 ∧ Gate.Regular k (Gate.controlled g 1) :=
  ⟨Gate.ctrl_faithful k hk x hx g hg, Gate.nq_controlled g 1, Gate.regular_controlled k g 1 hg⟩

/-- Sentence 2 for circuits of regular gates, all widths, all control positions `0..n` -/
theorem controlled_circuit_partial (k : Scal R) (hk : k.cj = star) (x : Ext R) (hx : Gate.ExtLaws k x)
    (n : Nat) (c : Fin (n + 1)) (circ : Circ (Gate R)) (hc : ∀ o ∈ circ.ops, Gate.Regular k o.gate) :
    Uc k x (n + 1) (controlledCirc (fun g => Gate.controlled g 1) c.val circ).ops
      = (Uc k x n circ.ops).map (ctrlAt (finSuccEquiv' c).symm) :=
  controlled_circuit k x n c circ
    (fun o ho => Gate.ctrl_faithful k hk x hx o.gate (hc o ho))
    (fun o ho m hm => (Gate.regular_dims k x hx o.gate (hc o ho) m hm).2)

/-- `ctrlAt` composes like the circuit it controls: controlling a product is the product of the controlled
    factors and controlling the identity is the identity (so the statement above is stable under `+`) -/
theorem controlled_is_multiplicative (n : Nat) (c : Fin (n + 1)) (A B : Matrix (BV (Fin n)) (BV (Fin n)) R) :
    ctrlAt (finSuccEquiv' c).symm A * ctrlAt (finSuccEquiv' c).symm B = ctrlAt (finSuccEquiv' c).symm (A * B) ∧
    ctrlAt (finSuccEquiv' c).symm (1 : Matrix (BV (Fin n)) (BV (Fin n)) R) = 1 :=
  ⟨ctrlAt_mul _ A B, ctrlAt_one _⟩

/-- shape of `Circuit.controlled(ci)`: one operation per original operation, in order, with the control index
    first and every original index `i` replaced by `i + 1` if `i ≥ ci`, else kept -/
theorem controlled_shape {G : Type} (ctl : G → G) (ci : Nat) (c : Circ G) :
    (controlledCirc ctl ci c).ops = c.ops.map (fun o => ⟨ctl o.gate, ci :: o.qs.map (shiftIdx ci)⟩) ∧
    (∀ i, shiftIdx ci i = if ci ≤ i then i + 1 else i) ∧
    (controlledCirc ctl ci c).n = sizeByOps (controlledCirc ctl ci c).ops :=
  ⟨rfl, fun _ => rfl, by simp [controlledCirc, mkCirc]⟩

/-! ## sentence 3 — layers, applying a gate to a collection of qubits, ancillas -/

section builders
variable {G P : Type}

/-- `apply_gate_to_qubits` with parameter rows.  `order` is the iteration order of `set(qubit_indices)`; its law
    (CPython): it lists every listed qubit exactly once.  Then: the call succeeds iff there is one row per distinct
    qubit; the existing operations stay in place as a prefix; exactly one new single-qubit gate per distinct listed
    qubit (and none elsewhere); the i-th new gate is built from the i-th row (each row used once, in order);
    the width grows just enough to contain the new gates. -/
theorem applyGate_count (c : Circ G) (qs order : List Nat) (factory : P → G) (fixed : G) (ps : List P)
    (hnd : order.Nodup) (hmem : ∀ q, q ∈ order ↔ q ∈ qs) (hlen : ps.length = order.length) :
    ∃ c', applyGateToQubits c order factory fixed (some ps) = .ok c' ∧
      (∃ new, c'.ops = c.ops ++ new ∧
        new.length = qs.dedup.length ∧
        new.map (fun o => o.gate) = ps.map factory ∧
        new.map (fun o => o.qs) = order.map (fun q => [q]) ∧
        (∀ q, (new.filter (fun o => o.qs = [q])).length = if q ∈ qs then 1 else 0)) ∧
      c.n ≤ c'.n ∧ (∀ q ∈ qs, q < c'.n) := by
  have hperm : order.Perm qs.dedup :=
    (List.perm_ext_iff_of_nodup hnd (List.nodup_dedup qs)).mpr (fun a => by rw [hmem a, List.mem_dedup])
  have hfold : ∀ (L : List (Nat × P)) (c0 : Circ G),
      L.foldl (fun acc qp => appendOp acc ⟨factory qp.2, [qp.1]⟩) c0
        = (L.map (fun qp => (⟨factory qp.2, [qp.1]⟩ : GOp G))).foldl appendOp c0 := by
    intro L c0; rw [List.foldl_map]
  refine ⟨(order.zip ps).foldl (fun acc qp => appendOp acc ⟨factory qp.2, [qp.1]⟩) c,
    by simp only [applyGateToQubits, hlen, ne_eq, not_true_eq_false, if_false], ?_, ?_, ?_⟩
  · refine ⟨(order.zip ps).map (fun qp => (⟨factory qp.2, [qp.1]⟩ : GOp G)), ?_, ?_, ?_, ?_, ?_⟩
    · rw [hfold]; exact (foldl_appendOp _ c).1
    · rw [List.length_map, List.length_zip, hlen, Nat.min_self, hperm.length_eq]
    · rw [List.map_map]
      have : (fun o : GOp G => o.gate) ∘ (fun qp : Nat × P => (⟨factory qp.2, [qp.1]⟩ : GOp G))
          = factory ∘ Prod.snd := rfl
      rw [this, ← List.map_map, List.map_snd_zip (by omega)]
    · rw [List.map_map]
      have : (fun o : GOp G => o.qs) ∘ (fun qp : Nat × P => (⟨factory qp.2, [qp.1]⟩ : GOp G))
          = (fun q => [q]) ∘ Prod.fst := rfl
      rw [this, ← List.map_map, List.map_fst_zip (by omega)]
    · intro q
      have e1 : ((order.zip ps).map (fun qp => (⟨factory qp.2, [qp.1]⟩ : GOp G))).filter (fun o => o.qs = [q])
          = ((order.zip ps).filter (fun qp => qp.1 = q)).map (fun qp => (⟨factory qp.2, [qp.1]⟩ : GOp G)) := by
        rw [List.filter_map]; congr 1; apply List.filter_congr; intro qp _; simp [Function.comp]
      rw [e1, List.length_map]
      have e2 : ((order.zip ps).filter (fun qp => qp.1 = q)).length = order.count q := by
        have : ((order.zip ps).filter (fun qp => decide (qp.1 = q))).length
            = (((order.zip ps).map Prod.fst).filter (fun a => decide (a = q))).length := by
          rw [List.filter_map, List.length_map]; rfl
        rw [this, List.map_fst_zip (by omega), List.count_eq_length_filter]
        congr 1
      rw [e2]
      by_cases hq : q ∈ qs
      · rw [if_pos hq, List.count_eq_one_of_mem hnd ((hmem q).mpr hq)]
      · rw [if_neg hq, List.count_eq_zero_of_not_mem (fun h => hq ((hmem q).mp h))]
  · rw [hfold, (foldl_appendOp _ c).2, List.foldl_map]
    have := (foldl_max_ge ((order.zip ps).map Prod.fst) c.n).1
    rw [List.foldl_map] at this
    simpa using this
  · intro q hq
    rw [hfold, (foldl_appendOp _ c).2, List.foldl_map]
    have := (foldl_max_ge ((order.zip ps).map Prod.fst) c.n).2 q
      (by rw [List.map_fst_zip (by omega)]; exact (hmem q).mpr hq)
    rw [List.foldl_map] at this
    simpa using this

/-- `apply_gate_to_qubits` rejects (AssertionError) a parameter array whose number of rows differs from the number
    of distinct qubits -/
theorem applyGate_rejects (c : Circ G) (order : List Nat) (factory : P → G) (fixed : G) (ps : List P)
    (hlen : ps.length ≠ order.length) :
    applyGateToQubits c order factory fixed (some ps) = .error .assertion := by
  simp [applyGateToQubits, hlen]

/-- `apply_gate_to_qubits` without parameters (`parameters=None`, a fixed gate): always succeeds, existing operations
    stay in place, exactly one copy of the gate on each distinct listed qubit -/
theorem applyGate_count_fixed (c : Circ G) (qs order : List Nat) (factory : P → G) (fixed : G)
    (hnd : order.Nodup) (hmem : ∀ q, q ∈ order ↔ q ∈ qs) :
    ∃ c', applyGateToQubits c order factory fixed none = .ok c' ∧
      c'.ops = c.ops ++ order.map (fun q => ⟨fixed, [q]⟩) ∧
      order.length = qs.dedup.length ∧
      (∀ q, order.count q = if q ∈ qs then 1 else 0) ∧
      c.n ≤ c'.n ∧ (∀ q ∈ qs, q < c'.n) := by
  have hperm : order.Perm qs.dedup :=
    (List.perm_ext_iff_of_nodup hnd (List.nodup_dedup qs)).mpr (fun a => by rw [hmem a, List.mem_dedup])
  have hfold : ∀ (c0 : Circ G), order.foldl (fun acc q => appendOp acc ⟨fixed, [q]⟩) c0
      = (order.map (fun q => (⟨fixed, [q]⟩ : GOp G))).foldl appendOp c0 := by
    intro c0; rw [List.foldl_map]
  refine ⟨_, rfl, ?_, hperm.length_eq, ?_, ?_, ?_⟩
  · rw [hfold]; exact (foldl_appendOp _ c).1
  · intro q
    by_cases hq : q ∈ qs
    · rw [if_pos hq, List.count_eq_one_of_mem hnd ((hmem q).mpr hq)]
    · rw [if_neg hq, List.count_eq_zero_of_not_mem (fun h => hq ((hmem q).mp h))]
  · rw [hfold, (foldl_appendOp _ c).2, List.foldl_map]
    simpa using (foldl_max_ge order c.n).1
  · intro q hq
    rw [hfold, (foldl_appendOp _ c).2, List.foldl_map]
    simpa using (foldl_max_ge order c.n).2 q ((hmem q).mpr hq)

/-- `create_layer_of_gates(n, factory, rows)`: under the CPython law that `set(range(n))` iterates in ascending
    order, the layer consists of exactly `n` single-qubit gates, the i-th one built from the i-th row and placed on
    qubit `i` (so exactly one gate on each qubit `0..n−1`), and the circuit is `n` qubits wide -/
theorem layer_rows (n : Nat) (factory : P → G) (fixed : G) (ps : List P) (hlen : ps.length = n) :
    ∃ c', createLayer (List.range n) factory fixed (some ps) = .ok c' ∧
      c'.ops.length = n ∧
      (∀ i (hi : i < n) (h' : i < c'.ops.length), c'.ops[i] = ⟨factory (ps[i]'(by omega)), [i]⟩) ∧
      c'.n = n := by
  have hfold : ∀ (L : List (Nat × P)) (c0 : Circ G),
      L.foldl (fun acc qp => appendOp acc ⟨factory qp.2, [qp.1]⟩) c0
        = (L.map (fun qp => (⟨factory qp.2, [qp.1]⟩ : GOp G))).foldl appendOp c0 := by
    intro L c0; rw [List.foldl_map]
  have hops : ((List.range n).zip ps).foldl (fun acc qp => appendOp acc ⟨factory qp.2, [qp.1]⟩) (mkCirc [] 0)
      = (((List.range n).zip ps).map (fun qp => (⟨factory qp.2, [qp.1]⟩ : GOp G))).foldl appendOp (mkCirc [] 0) :=
    hfold _ _
  refine ⟨((List.range n).zip ps).foldl (fun acc qp => appendOp acc ⟨factory qp.2, [qp.1]⟩) (mkCirc [] 0),
    by simp only [createLayer, applyGateToQubits, hlen, List.length_range, ne_eq, not_true_eq_false, if_false],
    ?_, ?_, ?_⟩
  · rw [hops, (foldl_appendOp _ _).1]; simp [mkCirc, hlen]
  · intro i hi h'
    simp only [hops, (foldl_appendOp _ _).1, mkCirc_ops, List.nil_append] at h' ⊢
    simp [List.getElem_map, List.getElem_zip, List.getElem_range]
  · rw [hops, (foldl_appendOp _ _).2, List.foldl_map]
    have h0 : (mkCirc ([] : List (GOp G)) 0).n = 0 := by simp [mkCirc, sizeByOps]
    have := foldl_max_range 0 n
    simp only [Nat.zero_add, List.map_id'] at this
    rw [h0]
    have e : ((List.range n).zip ps).foldl (fun w qp => max w (([qp.1] : List Nat).foldl max 0 + 1)) 0
        = (((List.range n).zip ps).map Prod.fst).foldl (fun w q => max w (q + 1)) 0 := by
      rw [List.foldl_map]; simp
    rw [e, List.map_fst_zip (by simp [hlen])]
    simpa using this

/-- the same for a fixed (parameter-free) gate: one copy on each qubit `0..n−1`, in this order -/
theorem layer_fixed (n : Nat) (factory : P → G) (fixed : G) :
    ∃ c', createLayer (List.range n) factory fixed none = .ok c' ∧
      c'.ops = (List.range n).map (fun i => ⟨fixed, [i]⟩) ∧ c'.n = n := by
  have hfold : (List.range n).foldl (fun acc q => appendOp acc ⟨fixed, [q]⟩) (mkCirc ([] : List (GOp G)) 0)
      = ((List.range n).map (fun q => (⟨fixed, [q]⟩ : GOp G))).foldl appendOp (mkCirc [] 0) := by
    rw [List.foldl_map]
  refine ⟨_, rfl, ?_, ?_⟩
  · rw [hfold, (foldl_appendOp _ _).1]; simp [mkCirc]
  · rw [hfold, (foldl_appendOp _ _).2, List.foldl_map]
    have h0 : (mkCirc ([] : List (GOp G)) 0).n = 0 := by simp [mkCirc, sizeByOps]
    have := foldl_max_range 0 n
    simp only [Nat.zero_add, List.map_id'] at this
    rw [h0]; simpa using this

/-- `add_ancilla_register(circuit, k)`: the circuit is widened by EXACTLY `k` qubits, the existing operations stay in
    place, and the new operations are identity gates on the `k` new indices -/
theorem ancilla_width (iG : G) (c : Circ G) (k : Nat) :
    (addAncilla iG c k).n = c.n + k ∧
    (addAncilla iG c k).ops = c.ops ++ (List.range k).map (fun i => ⟨iG, [c.n + i]⟩) := by
  have hfold : (List.range k).foldl (fun acc i => appendOp acc ⟨iG, [c.n + i]⟩) c
      = ((List.range k).map (fun i => (⟨iG, [c.n + i]⟩ : GOp G))).foldl appendOp c := by
    rw [List.foldl_map]
  unfold addAncilla
  rw [hfold]
  refine ⟨?_, (foldl_appendOp _ c).1⟩
  rw [(foldl_appendOp _ c).2, List.foldl_map]
  have := foldl_max_range c.n k
  rw [List.foldl_map] at this
  simpa using this

end builders

/-- `add_ancilla_register` does not change the action on the original qubits: if the circuit acts as `U` on its
    `c.n` qubits, the extended circuit acts on `c.n + k` qubits as `U` on the first `c.n` qubits and as the identity
    on the ancillas (`U ⊗ 1`, as `Spec.lift` along the inclusion; pointwise form in the second clause) -/
theorem ancilla_action (k : Scal R) (x : Ext R) (c : Circ (Gate R)) (j : Nat)
    (U : Matrix (BV (Fin c.n)) (BV (Fin c.n)) R) (hU : Uc k x c.n c.ops = some U) :
    Uc k x (c.n + j) (addAncilla iGate c j).ops = some (liftE (Fin.castAddEmb j) U) ∧
    ∀ a b : BV (Fin (c.n + j)), liftE (Fin.castAddEmb j) U a b =
      if (∀ i : Fin (c.n + j), c.n ≤ i.val → a i = b i)
      then U (fun i => a (Fin.castAdd j i)) (fun i => b (Fin.castAdd j i)) else 0 := by
  constructor
  · rw [(ancilla_width iGate c j).2, Uc_append, Uc_widen k x c.n j c.ops U hU]
    have : (List.range j).map (fun i => (⟨iGate, [c.n + i]⟩ : GOp (Gate R)))
        = ((List.range j).map (fun i => c.n + i)).map (fun q => (⟨iGate, [q]⟩ : GOp (Gate R))) := by
      rw [List.map_map]; rfl
    rw [this, Uc_identities k x (c.n + j) _ (by
      intro q hq; simp only [List.mem_map, List.mem_range] at hq; obtain ⟨i, hi, rfl⟩ := hq; omega)]
    simp
  · intro a b
    rw [liftE_apply]
    have : (∀ i, i ∉ Set.range (Fin.castAddEmb (n := c.n) j) → a i = b i) ↔
        (∀ i : Fin (c.n + j), c.n ≤ i.val → a i = b i) := by
      constructor
      · intro h i hi; apply h; rw [range_castAdd]; omega
      · intro h i hi; apply h; rw [range_castAdd] at hi; omega
    by_cases h : ∀ i : Fin (c.n + j), c.n ≤ i.val → a i = b i
    · rw [if_pos h, if_pos (this.mpr h)]; rfl
    · rw [if_neg h, if_neg (fun hh => h (this.mp hh))]

/-! ## non-vacuity (data in OQ/Lemmas/C08_Examples.lean): the example circuit `cEx` is
   X on 2, c-S† on (3,0), CNOT^1 on (1,3), exp S on 0; all its gates are regular (`cEx_regular`) -/
section examples
example : cEx.n = 4 := by decide
example : (inverse Gate.dagger cEx).ops.map (fun o => o.qs) = [[0], [1, 3], [3, 0], [2]] := by decide
example : (controlledCirc (fun g => Gate.controlled g 1) 1 cEx).ops.map (fun o => o.qs)
    = [[1, 3], [1, 4, 0], [1, 2, 4], [1, 0]] := by decide
example : (controlledCirc (fun g => Gate.controlled g 1) 1 cEx).n = 5 := by decide

/-- the dagger rules on the example: S ↦ Dagger(S), X ↦ X, c-S† ↦ c-S -/
example : Gate.dagger (Gate.ctrl (Gate.dag gS) 1) = Gate.ctrl gS 1 := rfl
example : Gate.dagger gX = gX := rfl
/-- the controlled rules merge controls and re-associate: (c-S†).controlled(1) = cc-S†, (CNOT^1).controlled(1) = c-(CNOT^1)... -/
example : Gate.controlled (Gate.ctrl (Gate.dag gS) 1) 1 = Gate.ctrl (Gate.dag gS) 2 := rfl
example : Gate.controlled (Gate.pow gCN 1) 1 = Gate.ctrl (Gate.pow gCN 1) 1 := rfl
example : Gate.controlled (Gate.dag gS) 1 = Gate.ctrl (Gate.dag gS) 1 := rfl

/-- NEGATIVE WITNESS (F16, known finding owned by C07): with sympy's value of `X ** 0.5` (the SX matrix,
    `(1±i)/2` entries – here scaled by 2 to stay in ℤ[i]: any non-Hermitian value does), the dagger of the
    fractional power of the self-adjoint `X` is the SAME gate, whose matrix is not the adjoint.
    So `dagger_rules_adjoint_partial` cannot be extended to fractional exponents. -/
example : ∃ x : Ext GaussianInt,
    Gate.dagger (Gate.pow gX (1/2)) = Gate.pow gX (1/2) ∧
    (Gate.matrix kG x (Gate.dagger (Gate.pow gX (1/2)))).map (fun m => m.get 0 1)
      ≠ ((Gate.matrix kG x (Gate.pow gX (1/2))).map (Gate.adj kG)).map (fun m => m.get 0 1) := by
  refine ⟨⟨fun _ => none, fun _ _ => some (Gates.m2 ⟨1, 1⟩ ⟨1, -1⟩ ⟨1, -1⟩ ⟨1, 1⟩)⟩, rfl, ?_⟩
  decide +kernel

example : Uc kG x1 4 (inverse Gate.dagger cEx).ops = (Uc kG x1 4 cEx.ops).map conjTranspose :=
  inverse_unitary_partial kG rfl x1 x1_laws 4 cEx cEx_regular
example (c : Fin 5) : Uc kG x1 5 (controlledCirc (fun g => Gate.controlled g 1) c.val cEx).ops
    = (Uc kG x1 4 cEx.ops).map (ctrlAt (finSuccEquiv' c).symm) :=
  controlled_circuit_partial kG rfl x1 x1_laws 4 c cEx cEx_regular

/-- builders on an unordered collection with duplicates: qubits 5,1,8,1,5 → set order 8,1,5 (what CPython gives),
    three rows, an existing operation stays in front -/
example : ([8, 1, 5] : List Nat).Nodup ∧ ∀ q, q ∈ ([8, 1, 5] : List Nat) ↔ q ∈ ([5, 1, 8, 1, 5] : List Nat) :=
  ⟨by decide, by intro q; simp only [List.mem_cons, List.not_mem_nil, or_false]; omega⟩

example : (applyGateToQubits (mkCirc [⟨"H", [0]⟩] 0) [8, 1, 5] (fun p : List Nat => s!"U3{p}") "X"
      (some [[1, 2, 3], [4, 5, 6], [7, 8, 9]])).toOption.map (fun c => (c.ops.map (fun o => (o.gate, o.qs)), c.n))
    = some ([("H", [0]), ("U3[1, 2, 3]", [8]), ("U3[4, 5, 6]", [1]), ("U3[7, 8, 9]", [5])], 9) := by decide

example : (applyGateToQubits (mkCirc [⟨"H", [0]⟩] 0) [8, 1, 5] (fun p : List Nat => s!"U3{p}") "X"
      (some [[1, 2, 3], [4, 5, 6]])).toOption.isNone = true := by decide

example : (createLayer (List.range 3) (fun p : List Nat => s!"RX{p}") "X" (some [[7], [8], [9]])).toOption.map
      (fun c => (c.ops.map (fun o => (o.gate, o.qs)), c.n))
    = some ([("RX[7]", [0]), ("RX[8]", [1]), ("RX[9]", [2])], 3) := by decide

example : ((addAncilla "I" (mkCirc [⟨"CNOT", [2, 0]⟩] 4) 2).ops.map (fun o => (o.gate, o.qs)),
      (addAncilla "I" (mkCirc [⟨"CNOT", [2, 0]⟩] 4) 2).n)
    = ([("CNOT", [2, 0]), ("I", [4]), ("I", [5])], 6) := by decide
example : (addAncilla "I" (mkCirc [⟨"CNOT", [2, 0]⟩] 0) 0).n = 3 := by decide
end examples

end OQ.C08
