/- C10 — PROPERTY THEOREMS (translation ties): `parities.check_parity` (tuple form and count-string form).
   The definitions `OQ.Generated.Translated.*` are REGENERATED from /repo's current Python source on every run
   (harness/translate.py → OQ/Generated/TranslatedC10.lean); an edit of the Python function changes the definition and
   these equalities stop checking at build time. -/
import OQ.Generated.TranslatedC10
import OQ.Lemmas.Translated
namespace OQ.C10
open OQ.Generated OQ.Py OQ.Tr

/-- TRANSLATION TIE / PARITY: `check_parity(bitstring, marked)` regenerated from the current Python source is `True` exactly when
    an EVEN number of the marked positions hold a 1 (for every tuple and every list of marked positions, repeats included). -/
theorem translated_check_parity_tuple_eq (bits marked : List Int) :
    Translated.check_parity_tuple bits marked = ((oddCount bits marked) % 2 == 0) := by
  unfold Translated.check_parity_tuple
  have := parity_fold bits marked true
  simpa using this

/-- the count-string form and the tuple form of `check_parity` agree on the same outcome -/
theorem translated_check_parity_str_eq_tuple (t : List Nat) (h : ∀ d ∈ t, d < 10) (marked : List Int) :
    Translated.check_parity_str (t.map digitChar) marked = Translated.check_parity_tuple (t.map Int.ofNat) marked := by
  unfold Translated.check_parity_str Translated.check_parity_tuple
  simp only [getD_char_int t h, Bool.or_false, Bool.false_or]

/-! non-vacuity -/
example : Translated.check_parity_tuple [1, 0, 1] [0, 2] = true := by decide
example : Translated.check_parity_tuple [1, 0, 1] [0, 1] = false := by decide
example : Translated.check_parity_str ['1', '0', '1'] [0, 1] = false := by decide
end OQ.C10
