/-
  C05 — PROPERTY THEOREMS: circuits survive JSON serialisation unchanged in structure and meaning.
  Model: OQ/Model/C05.lean.  Helper lemmas: OQ/Lemmas/C05.lean.

  Reading guide.  `C : Codec P E` is the external text codec (`str`, `sympify`, `free_symbols`,
  `f"{exponent}"`, definition `!=`); `SympifyLaw C nrm okName auto` is its assumed law, where
  `nrm p` is what one print/parse cycle returns for `p` (Python `int` → `Integer`, `float` → `Float`,
  a `Float` rounded to its 15 printed digits).  "Equal as numbers or expressions" is therefore:
  the deserialised circuit is `c.map nrm` — *exactly* the original with `nrm` applied to every
  expression, nothing else changed (`roundtrip_structure`), equal to the original when the
  parameters are exactly representable (`roundtrip_eq`), with the same free symbols
  (`roundtrip_freeSymbols`) and the same matrices (`roundtrip_matrix`).  The JSON text / file step
  (`json.dumps`/`loads`) is the identity on these dictionaries (trusted).

  STRENGTH.  The round-trip theorems hold for every circuit the library can build whose symbol names
  are admissible (`okName`) and free of the `x` / `x[3]` clash inside one gate (F13, outside the stated
  domain).  They keep the suffix `_partial` for ONE reason only, finding
  `symbol-name-used-by-expression-text`: the format stores expressions as text, so the law of
  `str`/`sympify` can only be assumed for names the printed text does not also use for something else
  (a symbol called `pi` next to the constant `pi`; a symbol called `Integer`/`Float` next to a number
  literal) – `okName` must exclude those, although they are identifiers and no keywords.  Nothing else
  is excluded: custom gates take any symbolic argument (the defect `custom-gate-symbolic-argument` was
  repaired in 8ad8c91 and the model follows the repaired code).  Finding `python-float-long-repr` excludes
  nothing here: it is the statement that `nrm` is not the identity on 16–17-digit Python floats, i.e. such
  parameters are not "exactly representable" in the sense of `roundtrip_eq`.
-/
import OQ.Lemmas.C05
namespace OQ.C05

variable {P E : Type}

/-- **Hygiene of the generated table** (regenerated from `_builtin_gates` / `_gates` on every run): no
    name of the lookup namespace equals the `Control` / `Exponential` markers, ends with `Dagger` or
    contains `^`; the markers are pairwise distinguishable by the cascade's tests; every built-in gate
    is filed under its own `name`, and it is a factory exactly when it has parameters.  So the only
    obligation left to the user is the one in the property text: custom gate names are not names of
    that namespace. -/
theorem hygiene_of_table : EnvHygienic genEnv where
  ctrl_free := by decide
  exp_free := by decide
  no_dagger_name := by decide
  no_power_name := by decide
  ctrl_not_dagger := by decide
  exp_ne_ctrl := by decide
  exp_not_dagger := by decide
  ctrl_no_power := by decide
  exp_no_power := by decide
  dagger_ne := by decide
  power_ne := by decide
  dagger_last_not_power := by decide
  key_is_name := by decide
  proto_iff := by decide

/-- the generated table has the 27 built-in gates -/
theorem table_size : genEnv.gates.length = 27 := by decide

/-- **T-B, symbol table** (`_make_symbols_map`, incl. `name[index]` symbols): when no plain name is the
    base of an indexed one and indexed names with one base have distinct indices, the table is built
    without error, every listed name — plain or `x[3]` — looks up to its own symbol, and nothing else
    is bound (a name whose base is not listed is left to sympify). -/
theorem symbolTable_resolves (names : List Name) (hc : NoBaseClash names) (hi : IndexInj names) :
    ∃ m, makeSymbolsMap names = .ok m ∧ (∀ s ∈ names, resolve m s = some s) ∧
      (∀ k, k ∉ names.map baseOf → alookup m k = none) := by
  obtain ⟨m, hm, inv⟩ := makeSymbolsMap_inv names hc hi
  exact ⟨m, hm, inv.res, inv.unbound⟩

/-- **T-A, one gate**: for every nesting depth and order of controlled / dagger / power / exponential
    wrappers around a built-in or custom gate, the name-driven cascade (built-in lookup, `Control`,
    `endswith Dagger`, `Exponential`, `contains ^`, custom) applied to what `to_dict` wrote rebuilds the
    same gate kind and nesting, the same number of controls, the same exponent, the same definition,
    with `nrm` applied to the parameters – built-in and custom gates alike, numeric, symbolic and
    indexed-symbol arguments.  `defs'` are the deserialised definitions; the hypothesis on them is
    discharged for whole circuits in `fromDict_toDict_partial`.  PARTIAL only through `okName` (see the
    file header: names the printed text uses twice). -/
theorem gate_fromDict_toDict_partial (env : Env) (h : EnvHygienic env) (C : Codec P E) (nrm : P → P)
    (okName auto : Name → Prop) (L : SympifyLaw C nrm okName auto) (defs' : List (CustomDef P))
    (g : Gate P E) (hg : GateOK env C okName auto g)
    (hd : ∀ d ps, g.innermost = .custom d ps → defs'.find? (nameEq d.gateName) = some (d.map nrm)) :
    gateFromDict env C defs' (gateToDict env C g) = .ok (g.map nrm) :=
  gate_rt env h C nrm okName auto L defs' g hg hd

/-- **T-A, circuits** (sentence 1): serialising a circuit never fails and deserialising the dictionary
    yields the circuit with `nrm` applied to every expression — same register width (idle qubits,
    empty circuit), same operations in the same order on the same qubit indices, every custom gate
    with its own definition again (collected through wrappers, de-duplicated by name, sorted).
    PARTIAL only through `okName`: the symbol names must not be used by the printed expression for
    something else as well (finding `symbol-name-used-by-expression-text`); missing is exactly that case.
    The other hypotheses of `CircuitOK` are what the constructors guarantee (controls ≥ 1, no free symbols
    under power / exponential, square 2ⁿ definition matrices, `n_qubits` as stored by `Circuit.__init__`),
    the hygiene of custom names (not a name of the lookup namespace; same name ⇒ same definition) and the
    absence of the F13 clash. -/
theorem fromDict_toDict_partial (env : Env) (h : EnvHygienic env) (C : Codec P E) (nrm : P → P)
    (okName auto : Name → Prop) (L : SympifyLaw C nrm okName auto) (c : Circuit P E)
    (hc : CircuitOK env C okName auto c) :
    ∃ d, circuitToDict env C c = .ok d ∧ circuitFromDict env C d = .ok (c.map nrm) :=
  circuit_rt env h C nrm okName auto L c hc

/-- the same for lists of circuits (`to_dict(list)` / `circuitset_from_dict`) -/
theorem circuitset_fromDict_toDict_partial (env : Env) (h : EnvHygienic env) (C : Codec P E) (nrm : P → P)
    (okName auto : Name → Prop) (L : SympifyLaw C nrm okName auto) (cs : List (Circuit P E))
    (hc : ∀ c ∈ cs, CircuitOK env C okName auto c) :
    ∃ ds, circuitsetToDict env C cs = .ok ds ∧
      circuitsetFromDict env C ds = .ok (cs.map (Circuit.map nrm)) := by
  induction cs with
  | nil => exact ⟨[], rfl, rfl⟩
  | cons c cs ih =>
    obtain ⟨d, h1, h2⟩ := circuit_rt env h C nrm okName auto L c (hc c (by simp))
    obtain ⟨ds, h3, h4⟩ := ih (fun x hx => hc x (by simp [hx]))
    refine ⟨d :: ds, ?_, ?_⟩
    · simp only [circuitsetToDict] at h3 ⊢
      simp [List.mapM_cons, h1, h3, bind, Except.bind, pure, Except.pure]
    · simp only [circuitsetFromDict] at h4 ⊢
      simp [List.mapM_cons, h2, h4, bind, Except.bind, pure, Except.pure]

/-- **structure is untouched** (sentence 1, "same …"): forgetting the expressions, the round-tripped
    circuit *is* the original — width, operation sequence, gate kinds and wrapper nesting, numbers of
    controls, exponents, custom gate names and parameter orderings, qubit indices, numbers of
    parameters and matrix shapes. -/
theorem roundtrip_structure (nrm : P → P) (c : Circuit P E) :
    (c.map nrm).map (fun _ => ()) = c.map (fun _ => ()) := by
  cases c with
  | mk n ops =>
    simp only [Circuit.map, List.map_map]
    congr 1
    apply List.map_congr_left
    intro o _
    simp [Function.comp, Op.map, Gate.map_map]

/-- **equal to the original whenever parameters are exactly representable** (sentence 2, first claim):
    if one print/parse cycle returns each expression of the circuit unchanged, the round trip returns
    the circuit itself. -/
theorem roundtrip_eq (nrm : P → P) (c : Circuit P E)
    (hexact : ∀ o ∈ c.ops, ∀ p ∈ o.gate.allP, nrm p = p) : c.map nrm = c := by
  cases c with
  | mk n ops =>
    simp only [Circuit.map]
    congr 1
    have : ∀ l : List (Op P E), (∀ o ∈ l, ∀ p ∈ o.gate.allP, nrm p = p) → l.map (Op.map nrm) = l := by
      intro l
      induction l with
      | nil => intro _; rfl
      | cons o os ih =>
        intro hh
        have ho : Op.map nrm o = o := by
          cases o with
          | mk g q => simp [Op.map, Gate.map_id_of nrm g (hh ⟨g, q⟩ (by simp))]
        simp [ho, ih (fun x hx => hh x (by simp [hx]))]
    exact this ops hexact

/-- **same free symbols** (sentence 2, second claim), in the same first-appearance order -/
theorem roundtrip_freeSymbols (C : Codec P E) (nrm : P → P) (hf : ∀ p, C.free (nrm p) = C.free p)
    (c : Circuit P E) : Circuit.freeSymbols C (c.map nrm) = Circuit.freeSymbols C c := by
  cases c with
  | mk n ops =>
    simp only [Circuit.freeSymbols, Circuit.map]
    congr 1
    induction ops with
    | nil => rfl
    | cons o os ih => simp [List.flatMap_cons, Op.map, free_map C nrm hf, ih]

/-- **same matrix for every assignment of the symbols** (sentence 2, third claim): whatever the
    matrix factories, the control / adjoint / power / exponential constructions and the evaluation
    of expressions are (`S`), if a print/parse cycle preserves the value of every expression under
    every assignment, every operation of the round-tripped circuit has the same matrix on the same
    qubits, for every assignment `σ` — hence so has the circuit, being the ordered product (C01). -/
theorem roundtrip_matrix {V M : Type} (S : Sem P E V M) (nrm : P → P)
    (hv : ∀ p σ, S.eval (nrm p) σ = S.eval p σ) (c : Circuit P E) (σ : Name → V) :
    (c.map nrm).nQubits = c.nQubits ∧
    (c.map nrm).ops.map (fun o => (gateMat S o.gate σ, o.qubits)) =
      c.ops.map (fun o => (gateMat S o.gate σ, o.qubits)) := by
  refine ⟨rfl, ?_⟩
  simp only [Circuit.map, List.map_map]
  apply List.map_congr_left
  intro o _
  simp [Function.comp, Op.map, gateMat_map S nrm hv]

/-! ### regression witnesses of the repaired finding `custom-gate-symbolic-argument` (now positive) -/

/-- stand-in codec of the driver, sympy defining `gamma`, `beta` -/
abbrev XC : Codec PExpr Expo := execCodec ["I".toList] ["gamma".toList, "beta".toList, "cos".toList, "sin".toList, "exp".toList]

def thetaDef : CustomDef PExpr :=
  ⟨"U".toList, [[⟨"cos(theta)".toList, ["theta".toList]⟩, ⟨"-sin(theta)".toList, ["theta".toList]⟩],
                [⟨"sin(theta)".toList, ["theta".toList]⟩, ⟨"cos(theta)".toList, ["theta".toList]⟩]],
   ["theta".toList]⟩

def phaseDef : CustomDef PExpr :=
  ⟨"V".toList, [[⟨"exp(I*gamma)".toList, ["gamma".toList]⟩, ⟨"0".toList, []⟩],
                [⟨"0".toList, []⟩, ⟨"exp(I*beta)".toList, ["beta".toList]⟩]],
   ["gamma".toList, "beta".toList]⟩

/-- `U(gamma)` for a custom `U(theta)`: the symbol sympy's namespace shadows -/
def witnessGamma : Circuit PExpr Expo :=
  ⟨1, [⟨.custom thetaDef [⟨"gamma".toList, ["gamma".toList]⟩], [0]⟩]⟩

/-- `U(x[3])`: an indexed symbol -/
def witnessIndexed : Circuit PExpr Expo :=
  ⟨1, [⟨.custom thetaDef [⟨"x[3]".toList, ["x[3]".toList]⟩], [0]⟩]⟩

/-- `V(gamma, beta)`: the second argument needs the table too -/
def witnessSecond : Circuit PExpr Expo :=
  ⟨1, [⟨.custom phaseDef [⟨"gamma".toList, ["gamma".toList]⟩, ⟨"beta".toList, ["beta".toList]⟩], [0]⟩]⟩

example : (circuitToDict genEnv XC witnessGamma).bind (circuitFromDict genEnv XC) = .ok witnessGamma := by decide
example : (circuitToDict genEnv XC witnessIndexed).bind (circuitFromDict genEnv XC) = .ok witnessIndexed := by decide
example : (circuitToDict genEnv XC witnessSecond).bind (circuitFromDict genEnv XC) = .ok witnessSecond := by decide

/-! ### non-vacuity: concrete non-trivial inputs, evaluated by the kernel -/

/-- every wrapper, nested: `exp(c-c-(X^0.5)†)` next to `RX(x[3] + gamma)` as a built-in gate, idle qubits -/
def sample : Circuit PExpr Expo :=
  ⟨5, [⟨.exponential (.controlled (.dagger (.power (.builtin ['X'] []) ⟨false, 1, 2, "0.5".toList⟩)) 2), [0, 1, 2]⟩,
       ⟨.controlled (.dagger (.builtin ['R', 'X'] [⟨"gamma + x[3]".toList, ["gamma".toList, "x[3]".toList]⟩])) 1, [3, 0]⟩,
       ⟨.dagger (.custom thetaDef [⟨"2*gamma + x[3]".toList, ["gamma".toList, "x[3]".toList]⟩]), [1]⟩,
       ⟨.power (.custom thetaDef [⟨"0.25".toList, []⟩]) ⟨true, 2, 1, "2".toList⟩, [1]⟩]⟩

example : (circuitToDict genEnv XC sample).bind (circuitFromDict genEnv XC) = .ok sample := by decide

example : Gate.name genEnv XC (.dagger (.power (.builtin ['X'] []) ⟨false, 1, 2, "0.5".toList⟩) : Gate PExpr Expo)
    = "X".toList ++ genEnv.power ++ "0.5".toList ++ '_' :: genEnv.dagger := by decide

example : (circuitToDict genEnv XC (⟨0, []⟩ : Circuit PExpr Expo)).bind (circuitFromDict genEnv XC) = .ok ⟨0, []⟩ := by
  decide

example : ∃ m, makeSymbolsMap ["theta".toList, "x[3]".toList, "x[12]".toList] = .ok m ∧
    resolve m "x[12]".toList = some "x[12]".toList ∧ resolve m "x[4]".toList = none := ⟨_, rfl, by decide, by decide⟩

/-- the law and the domain of `fromDict_toDict_partial` are inhabited: a codec satisfying `SympifyLaw`
    (`toyLaw`) and a circuit with wrappers, an indexed symbol and custom gates satisfying `CircuitOK` -/
example : ∃ d, circuitToDict genEnv toyCodec toySample = .ok d ∧
    circuitFromDict genEnv toyCodec d = .ok (toySample.map id) :=
  fromDict_toDict_partial genEnv hygiene_of_table toyCodec id toyOk toyAuto toyLaw toySample toySample_ok

/-- F13 is outside the domain: `x` with `x[3]` makes the table construction raise TypeError -/
example : makeSymbolsMap ["x".toList, "x[3]".toList] = .error .type := by decide

/-- the hypotheses of `symbolTable_resolves` are satisfiable by a mixed list -/
example : NoBaseClash ["theta".toList, "x[3]".toList] ∧ IndexInj ["theta".toList, "x[3]".toList] := by
  have h1 : parseIndexed "theta".toList = none := by decide
  have h2 : parseIndexed "x[3]".toList = some ("x".toList, "3".toList) := by decide
  constructor
  · intro a ha b hb hpa base ds hpb
    simp only [List.mem_cons, List.not_mem_nil, or_false] at ha hb
    rcases ha with rfl | rfl <;> rcases hb with rfl | rfl
    · rw [h1] at hpb; cases hpb
    · rw [h2] at hpb; cases hpb; decide
    · rw [h2] at hpa; cases hpa
    · rw [h2] at hpa; cases hpa
  · intro a ha b hb base da db hpa hpb _
    simp only [List.mem_cons, List.not_mem_nil, or_false] at ha hb
    rcases ha with rfl | rfl <;> rcases hb with rfl | rfl
    · rfl
    · rw [h1] at hpa; cases hpa
    · rw [h1] at hpb; cases hpb
    · rfl

end OQ.C05
