/- C04 — PROPERTY THEOREMS (translation ties, work package T13): the state VIEWS of the `Wavefunction` class.
   `OQ.Generated.Wf.*` are REGENERATED from /repo's current `wavefunction.py` on every run (harness/translate_t13.py →
   OQ/Generated/TranslatedC12Wf.lean, TranslatedC04Wf.lean): `__len__`, `n_qubits`, `get_probabilities`, `get_outcome_probs`,
   `sample_from_wavefunction`.  numpy / rng expressions are fields of the parameter `ext`; the theorems hold for EVERY `ext` satisfying
   `OQ.C04.T13.ViewLaws k ext` (OQ/Lemmas/C04_T13.lean; satisfied by the stand-ins `viewExt` the driver runs against the real class),
   over any scalar type `R`.  An edit of a Python function changes its generated definition and these stop checking at build time. -/
import OQ.Lemmas.C04_T13
import OQ.Props.C04
import OQ.Props.C04_TranslatedLists
namespace OQ.C04
open OQ.Generated OQ.PyT OQ.C04.T13
open OQ.Py (digitChar)

section
variable {R : Type} [Zero R] [One R] [Add R] [Mul R] [Neg R]

/-- TRANSLATION TIE: `len(wf)` (`__len__`) is the number of amplitudes.  Law used: `len_vector`. -/
theorem translated_len_eq {k : Scal R} {ext : VExt R} (h : ViewLaws k ext) (amps : List R) :
    Wf.len ext ⟨amps⟩ = .ok (amps.length : Int) := by
  simp only [Wf.len, h.len_vector]

/-- TRANSLATION TIE: the property `n_qubits` = `int(log2(len(self)))` is `⌊log₂ len⌋` (a non-empty vector; laws `len_vector`, `int_log2`). -/
theorem translated_n_qubits_eq {k : Scal R} {ext : VExt R} (h : ViewLaws k ext) (amps : List R) (hpos : 0 < amps.length) :
    Wf.n_qubits ext ⟨amps⟩ = .ok ((Nat.log2 amps.length : Nat) : Int) := by
  simp only [Wf.n_qubits, translated_len_eq h, h.int_log2 _ hpos]

/-- TRANSLATION TIE: `get_probabilities()` = `np.abs(self.amplitudes) ** 2` regenerated from the current source is the C04 model's
    `getProbabilities` (every numeric wavefunction; laws `getattr_free_symbols`, `np_abs_sq`). -/
theorem translated_get_probabilities_view_eq {k : Scal R} {ext : VExt R} (h : ViewLaws k ext) (amps : List R) :
    Wf.get_probabilities ext ⟨amps⟩ = .ok (getProbabilities k amps) := by
  simp only [Wf.get_probabilities, Wf.amplitudes, Wf.free_symbols, h.getattr_free_symbols, Bool.false_eq_true, if_false,
    h.np_abs_sq, getProbabilities]

/-- TRANSLATION TIE: `get_outcome_probs()` regenerated from the current source – the comprehension
    `format(i, "0" + str(self.n_qubits) + "b")[::-1][: self.n_qubits] for i in range(len(self))`, `get_probabilities()`,
    `dict(zip(values, probs))` – is the C04 model's `getOutcomeProbs`: the same keys (as digit strings) in the same order with the same
    values, and it never raises.  Every wavefunction of `2ⁿ` amplitudes, `n ≥ 0` (the keys are distinct there, so `dict` keeps all
    pairs – proved, `keys_nodup`). -/
theorem translated_get_outcome_probs_eq {k : Scal R} {ext : VExt R} (h : ViewLaws k ext) (amps : List R) (n : Nat)
    (hlen : amps.length = 2 ^ n) :
    Wf.get_outcome_probs ext ⟨amps⟩ = .ok ((getOutcomeProbs k amps).map (fun p => (p.1.map digitChar, p.2))) := by
  have hpos : 0 < amps.length := by rw [hlen]; exact Nat.two_pow_pos n
  have hlog : Nat.log2 amps.length = n := by rw [hlen, Nat.log2_two_pow]
  unfold Wf.get_outcome_probs
  simp only [translated_len_eq h, translated_n_qubits_eq h amps hpos, translated_get_probabilities_view_eq h, h.iter_probs,
    Int.toNat_natCast, hlog]
  rw [mapE_ok _ (fun i : Int => (((formatBin n i.toNat).reverse).take n).map digitChar)]
  · simp only [List.map_map]
    have hkeys : (List.range amps.length).map ((fun i : Int => (((formatBin n i.toNat).reverse).take n).map digitChar) ∘ Int.ofNat)
        = (List.range (2 ^ n)).map (fun i => ((bits n i).reverse).map digitChar) := by
      rw [hlen]
      apply List.map_congr_left
      intro i hi
      have e : (Int.ofNat i).toNat = i := rfl
      simp only [Function.comp, e]
      rw [outcome_key_eq n i (List.mem_range.mp hi)]
    rw [dictOfPairs_nodup]
    · unfold getOutcomeProbs
      simp only [hlog]
      have e : (fun p : List Nat × R => (List.map digitChar p.1, p.2)) = Prod.map (List.map digitChar) id := by
        funext p; rfl
      rw [e, ← List.zip_map_left, List.map_map]
      rfl
    · rw [List.map_fst_zip (by simp [getProbabilities, hlen]), hkeys]
      exact keys_nodup n
  · intro x hx
    simp only [List.mem_map, List.mem_range] at hx
    obtain ⟨i, _, rfl⟩ := hx
    rw [key_string_eq]; rfl

/-- TRANSLATION TIE: `sample_from_wavefunction(wavefunction, n_samples, seed)` regenerated from the current source – the guard, the
    `zip(*….items())` unpacking, BOTH branches (`len(wavefunction) < n_samples`: every key converted first, the sentinel `0` and its
    probability appended, `rng.choice` over the object array; otherwise `rng.choice` over the key strings, converted afterwards by
    `convert_bitstrings_to_tuples`, itself a translated definition) – is the C04 model's `sampleFromWavefunction`, with `seed` standing
    for the indices `draws` the generator draws: the same tuples (a drawn sentinel is the int `0`), ValueError for `n_samples < 1`,
    `Exc.other 1` (= the model's `Err.draw`) for a draw list `rng.choice` cannot produce.  Every wavefunction of `2ⁿ` amplitudes, EVERY
    `n_samples` and EVERY draw list. -/
theorem translated_sample_from_wavefunction_eq {k : Scal R} {ext : VExt R} (h : ViewLaws k ext) (amps : List R) (n : Nat)
    (hlen : amps.length = 2 ^ n) (nSamples : Int) (draws : List Nat) :
    Wf.sample_from_wavefunction ext ⟨amps⟩ nSamples draws =
      match sampleFromWavefunction k amps nSamples draws with
      | .ok l => .ok (l.map drawnOut)
      | .error e => .error (errOut e) := by
  unfold Wf.sample_from_wavefunction sampleFromWavefunction
  by_cases h1 : nSamples < 1
  · simp [h1, errOut]
  · have hkeys := outcome_keys k amps n hlen
    have hne : ((getOutcomeProbs k amps).map (fun p => (p.1.map digitChar, p.2))).isEmpty = false := by
      have : ((getOutcomeProbs k amps).map (·.1)).length = 2 ^ n := by rw [hkeys]; simp
      have hp := Nat.two_pow_pos n
      cases hg : getOutcomeProbs k amps with
      | nil => rw [hg] at this; simp at this; omega
      | cons a l => rfl
    have hdig : ∀ s ∈ (getOutcomeProbs k amps).map (·.1), ∀ d ∈ s, d < 10 := by
      rw [hkeys]
      intro s hs d hd
      simp only [List.mem_map, List.mem_range] at hs
      obtain ⟨i, _, rfl⟩ := hs
      have := bits_lt_two n i d (by simpa using hd)
      omega
    simp only [h1, decide_false, Bool.false_eq_true, if_false, translated_get_outcome_probs_eq h amps n hlen, unzipItems, hne,
      translated_len_eq h, h.default_rng, h.choice_objects, h.choice_strings, h.iter_strings, List.map_map]
    have hS : (List.map (Prod.fst ∘ fun p : List Nat × R => (List.map digitChar p.1, p.2)) (getOutcomeProbs k amps))
        = ((getOutcomeProbs k amps).map (·.1)).map (fun s => s.map digitChar) := by
      rw [List.map_map]; rfl
    simp only [hS]
    generalize hSdef : (getOutcomeProbs k amps).map (·.1) = S at hdig hS
    by_cases hc : (draws.length : Int) = nSamples
    · simp only [choose, hc, ne_eq, not_true_eq_false, if_false]
      by_cases hb : (amps.length : Int) < nSamples
      · simp only [hb, decide_true, if_true, sampleBranchLarge]
        rw [translated_convert_bitstrings_to_tuples_eq S hdig]
        have hA : ([] ++ List.map Sum.inl (List.map (fun s => List.map Int.ofNat (bitstringToTuple s)) S) ++
              List.map Sum.inr [(0 : Int)] : List ((List Int) ⊕ Int))
            = (List.map (fun s => Drawn.tuple (bitstringToTuple s)) S ++ [Drawn.sentinel]).map drawnOut := by
          simp [drawnOut, Function.comp_def]
        rw [hA, mapM_getElem_map]
        cases List.mapM (fun i => (List.map (fun s => Drawn.tuple (bitstringToTuple s)) S ++ [Drawn.sentinel])[i]?) draws <;> rfl
      · simp only [hb, decide_false, Bool.false_eq_true, if_false, sampleBranchSmall]
        rw [mapM_getElem_map]
        cases hm : List.mapM (fun i => S[i]?) draws with
        | none => rfl
        | some ss =>
          simp only [Option.map_some]
          rw [translated_convert_bitstrings_to_tuples_eq ss (fun s hs => hdig s (mapM_getElem_mem S draws ss hm s hs))]
          simp [drawnOut, Function.comp_def]
    · simp only [choose, hc, ne_eq, not_false_eq_true, if_true, errOut]
      by_cases hb : (amps.length : Int) < nSamples <;> simp [hb]

/-! ## END-TO-END: `tuple_of_index` and the key convention, on the translated code -/

/-- END-TO-END (`tuple_of_index` on the translated `sample_from_wavefunction`, BOTH regimes, ALL widths): whatever `n_samples ≥ 1` is
    (fewer or more than `2ⁿ` – the two code paths), if the generator draws the indices `draws` (exactly `n_samples`, each an index of
    a basis state), the translated function returns exactly the tuples `bits n i`: position `q` of a measured tuple holds bit `q`
    (qubit 0 MOST significant) of the drawn basis index. -/
theorem translated_tuple_of_index {k : Scal R} {ext : VExt R} (h : ViewLaws k ext) (amps : List R) (n : Nat)
    (hlen : amps.length = 2 ^ n) (nSamples : Int) (hs : 1 ≤ nSamples) (draws : List Nat)
    (hcount : (draws.length : Int) = nSamples) (hdraw : ∀ i ∈ draws, i < 2 ^ n) :
    Wf.sample_from_wavefunction ext ⟨amps⟩ nSamples draws =
      .ok (draws.map (fun i => Sum.inl ((bits n i).map Int.ofNat))) := by
  rw [translated_sample_from_wavefunction_eq h amps n hlen, (tuple_of_index k amps n hlen nSamples hs draws hcount hdraw).1]
  simp [drawnOut, Function.comp_def]

/-- END-TO-END (the key convention of `get_outcome_probs` on the translated code): entry `i` of the returned dict has the key
    `bits n i` REVERSED (qubit 0 is the LAST character) as a digit string, and the value `|amps[i]|²`. -/
theorem translated_outcome_entry {k : Scal R} {ext : VExt R} (h : ViewLaws k ext) (amps : List R) (n : Nat)
    (hlen : amps.length = 2 ^ n) (i : Nat) (hi : i < 2 ^ n) :
    ∃ d, Wf.get_outcome_probs ext ⟨amps⟩ = .ok d ∧
      d[i]? = some (((bits n i).reverse).map digitChar, normSq k (amps.getD i 0)) := by
  refine ⟨_, translated_get_outcome_probs_eq h amps n hlen, ?_⟩
  rw [List.getElem?_map, outcome_entry k amps n hlen i hi]
  rfl
end

/-! ## non-vacuity: the laws are satisfiable (`viewExt_laws`) and the TRANSLATED definitions run on concrete data -/

private def ki : Scal Int := ⟨0, 0, 0, 0, id⟩
private def vx : VExt Int := viewExt ki (fun x => x == 1)

example : ViewLaws ki vx := viewExt_laws ki _
example : Wf.get_outcome_probs vx ⟨[0, 1, 0, 0]⟩ = .ok [(['0', '0'], 0), (['1', '0'], 1), (['0', '1'], 0), (['1', '1'], 0)] := by decide
example : Wf.get_outcome_probs vx ⟨[1]⟩ = .ok [([], 1)] := by decide
-- (basis index 1 = binary 01 has the key "10": the key is the MSB-first bit string REVERSED – qubit 0 is its LAST character)
-- `len(wavefunction) < n_samples`: index 1 of 4 is the tuple (0, 1) (qubit 0 most significant); the sentinel is index 4
example : Wf.sample_from_wavefunction vx ⟨[0, 1, 0, 0]⟩ 5 [1, 1, 2, 1, 3] = .ok [.inl [0, 1], .inl [0, 1], .inl [1, 0], .inl [0, 1], .inl [1, 1]] := by
  decide
example : Wf.sample_from_wavefunction vx ⟨[0, 1, 0, 0]⟩ 5 [1, 1, 4, 1, 3] = .ok [.inl [0, 1], .inl [0, 1], .inr 0, .inl [0, 1], .inl [1, 1]] := by
  decide
-- the other branch
example : Wf.sample_from_wavefunction vx ⟨[0, 1, 0, 0]⟩ 2 [1, 2] = .ok [.inl [0, 1], .inl [1, 0]] := by decide
example : Wf.sample_from_wavefunction vx ⟨[0, 1, 0, 0]⟩ 0 [] = .error .ValueError := by decide
example : Wf.sample_from_wavefunction vx ⟨[0, 1, 0, 0]⟩ 2 [1] = .error (.other 1) := by decide
example : Wf.sample_from_wavefunction vx ⟨[0, 1, 0, 0]⟩ 2 [1, 4] = .error (.other 1) := by decide
end OQ.C04
