/- C14 — PROPERTY THEOREMS (translation tie of the runner CLASSES, work package T5).
   `OQ.Generated.Runners.Base.*` / `Tracker.*` / `Sim.*` are REGENERATED from /repo's current Python source on every run
   (harness/translate_state.py → OQ/Generated/TranslatedRunners.lean): `BaseCircuitRunner`, `MeasurementTrackingBackend` and
   `BaseWavefunctionSimulator`, method by method, STATE PASSING (`self → args → self' × Result r`; the state is returned in the
   error case too – Python does not roll back what was assigned before a `raise`), one set of definitions per concrete class
   following the MRO (an override replaces the base-class body; inherited methods are re-emitted with their `self.…` calls
   resolved to the override), every abstract / foreign call a PARAMETER (`Base.Ext`, `Tracker.Ext`, `Sim.Ext`) that may change
   the state in any way and may raise.

   Part 1 (ties): with the externals instantiated as the model instantiates them (`baseExt`, `trackerExt`, `simExt`) the
   translated methods ARE the model's `Leaf.run/batch/dist`, `Runner.run/batch/dist` and `step`, for ALL states and ALL
   arguments, rejected calls and failing externals included (state maps `concBase` / `concT` / `concSim`).
   Part 2 (end-to-end through the tie): `reject_before_execute`, `base_increment_exact`, `sim_increment_exact`,
   `tracker_increment_exact` of Props/C14.lean restated on the translated definitions.
   Part 3 (end-to-end, directly on the translated code, for ARBITRARY types and ARBITRARY externals): rejection needs no assumption
   at all; the counter statements assume exactly the frame law the docstring of `_run_and_measure` demands ("does not touch the
   counters": `Base.Frame`, `Tracker.Frame`) – and are false without it (negative witness below).
   Not translated: exception messages (only the class is kept); `get_exact_expectation_values`; the numerics behind the
   simulator's externals (numpy state vectors, `split_circuit`, sampling are parameters).
   Helper lemmas that depend on the generated method bodies are `private theorem`s of this file (not counted as obligations),
   so that a change of the Python source is reported against this file's theorems. -/
import OQ.Lemmas.C14_TranslatedRunners
import OQ.Props.C14
set_option linter.unusedSimpArgs false
set_option linter.unnecessarySeqFocus false
namespace OQ.C14
open OQ.Generated.Runners OQ.PyS

/-! ### Part 1a — `BaseCircuitRunner` = the model's `.base` leaf -/

/-- TRANSLATION TIE `BaseCircuitRunner.__init__` (any externals, any prior state): both counters are 0 afterwards, nothing else
    changes – the state `Runner.fresh` describes. -/
theorem translated_base_init_eq {ω C M D : Type} (x : Base.Ext ω C M D) (s : Base.State ω) :
    Base.init x s = (⟨0, 0, s.world⟩, .ok ()) := rfl

/-- TRANSLATION TIE of the two counter properties `n_jobs_executed` / `n_circuits_executed`: they read the fields, and change
    nothing. -/
theorem translated_base_counter_properties_eq {ω C M D : Type} (x : Base.Ext ω C M D) (s : Base.State ω) :
    Base.n_jobs_executed x s = (s, .ok s._n_jobs_executed) ∧
    Base.n_circuits_executed x s = (s, .ok s._n_circuits_executed) := ⟨rfl, rfl⟩

/-- TRANSLATION TIE `BaseCircuitRunner.run_and_measure` = `Leaf.run` of a `.base` leaf: for EVERY model state, circuit and
    count (also `n ≤ 0`, also when the abstract `_run_and_measure` raises) the translated method ends in the image of the
    model's state and returns the model's outcome.  Externals: `baseExt ext` (the abstract method answers `ext.exec` at the
    current invocation index and bumps the index). -/
theorem translated_base_run_and_measure_eq (ext : Ext) (l : Leaf) (hk : l.kind = .base) (c : Circ) (n : Int) :
    Base.run_and_measure (baseExt ext) (concBase l) c n
      = (concBase (l.run ext c n).1, toResult (l.run ext c n).2) := by
  unfold Base.run_and_measure Leaf.run
  by_cases h : n ≤ 0
  · simp [h, toResult, excOf]
  · simp only [h, decide_false, Bool.false_eq_true, if_false, hk, baseExt, concBase]
    cases ext.exec l.calls c n <;> simp [toResult, concBase]

/- helper (not a property theorem): the comprehension of `_run_batch_and_measure` is the model's `runEach` -/
private theorem collectEach_base (ext : Ext) (ps : List (Circ × Int)) (l : Leaf) (hk : l.kind = .base) :
    collectEach (fun (self : Base.State Nat) (p : Circ × Int) => Base.run_and_measure (baseExt ext) self p.1 p.2)
        (concBase l) ps
      = (concBase (runEach (Leaf.run ext) l ps).1, toResult (runEach (Leaf.run ext) l ps).2) := by
  induction ps generalizing l with
  | nil => simp [collectEach, runEach, toResult]
  | cons p ps ih =>
    have hk' : (l.run ext p.1 p.2).1.kind = .base := by rw [(Leaf.run_grows ext l p.1 p.2).1, hk]
    simp only [collectEach, runEach, translated_base_run_and_measure_eq ext l hk]
    rcases h : l.run ext p.1 p.2 with ⟨l', o⟩
    rw [h] at hk'
    cases o with
    | err e => simp [toResult]
    | ok m =>
      simp only [toResult, ih l' hk']
      rcases runEach (Leaf.run ext) l' ps with ⟨l'', o'⟩
      cases o' <;> simp [toResult]

/-- TRANSLATION TIE `BaseCircuitRunner.run_batch_and_measure` (with the default `_run_batch_and_measure`, a comprehension
    calling `self.run_and_measure` → `PyS.collectEach`) = `Leaf.batch`: every batch, every `n_samples` (an int – `nArg (.one n)` –
    or a list), including wrong lengths, non-positive counts, the empty batch with a non-positive scalar, and a failure in the
    middle of the batch (the state then holds what ran before it). -/
theorem translated_base_run_batch_and_measure_eq (ext : Ext) (l : Leaf) (hk : l.kind = .base) (cs : List Circ) (ns : NSpec) :
    Base.run_batch_and_measure (baseExt ext) (concBase l) cs (nArg ns)
      = (concBase (l.batch ext cs ns).1, toResult (l.batch ext cs ns).2) := by
  have key : ∀ spc : List Int, ∀ sc : Bool,
      (if (((spc.length : Nat) : Int) != ((cs.length : Nat) : Int)) then ((concBase l, .raised .ValueError) : Base.State Nat × Result (List (List Shot)))
       else if (sc || spc.any (fun (n : Int) => decide (n ≤ (0 : Int)))) then (concBase l, .raised .ValueError)
       else Base._run_batch_and_measure (baseExt ext) (concBase l) cs spc)
      = (concBase (if spc.length ≠ cs.length then (l, Outcome.err Err.value)
          else if sc || spc.any (fun n => n ≤ 0) then (l, .err .value)
          else runEach (Leaf.run ext) l (cs.zip spc)).1,
         toResult (if spc.length ≠ cs.length then (l, Outcome.err Err.value)
          else if sc || spc.any (fun n => n ≤ 0) then (l, .err .value)
          else runEach (Leaf.run ext) l (cs.zip spc)).2) := by
    intro spc sc
    by_cases h1 : spc.length = cs.length
    · by_cases h2 : (sc || spc.any fun n => decide (n ≤ 0)) = true
      · simp [h1, h2, toResult, excOf]
      · simp only [h1, h2, bne_self_eq_false, Bool.false_eq_true, if_false, ne_eq, not_true_eq_false]
        exact collectEach_base ext (cs.zip spc) l hk
    · simp [h1, toResult, excOf]
  cases ns with
  | one n =>
    have := key (List.replicate cs.length n) (decide (n ≤ 0))
    simpa [Base.run_batch_and_measure, Leaf.batch, nArg, samplesPerCircuit, scalarNonPos, replicate_flatten_singleton] using this
  | many ns =>
    have := key ns false
    simpa [Base.run_batch_and_measure, Leaf.batch, nArg, samplesPerCircuit, scalarNonPos] using this



/-- TRANSLATION TIE `BaseCircuitRunner.get_measurement_outcome_distribution` = `Leaf.dist` (`n_samples = None` included). -/
theorem translated_base_get_measurement_outcome_distribution_eq (ext : Ext) (l : Leaf) (hk : l.kind = .base) (c : Circ)
    (n : Option Int) :
    Base.get_measurement_outcome_distribution (baseExt ext) (concBase l) c n
      = (concBase (l.dist ext c n).1, toResult (l.dist ext c n).2) := by
  cases n with
  | none => simp [Base.get_measurement_outcome_distribution, Leaf.dist, hk, toResult, excOf]
  | some n =>
    simp only [Base.get_measurement_outcome_distribution, Leaf.dist, translated_base_run_and_measure_eq ext l hk]
    rcases l.run ext c n with ⟨l', o⟩
    cases o <;> simp [toResult, baseExt]



/-- TRANSLATION TIE, one statement for all three operations: a call dispatched to the translated methods (`Base.call`) is the
    model's `step` on the same call – same state (through `concBase`), same result or exception. -/
theorem translated_base_step_eq (ext : Ext) (l : Leaf) (hk : l.kind = .base) (call : Call) :
    Base.call (baseExt ext) (concBase l) (rcall call)
      = (concRunnerBase (step ext (.leaf l) call).1, rres (step ext (.leaf l) call).2) := by
  cases call with
  | run c n =>
    simp only [Base.call, rcall, step, Runner.run, translated_base_run_and_measure_eq ext l hk]
    rcases l.run ext c n with ⟨l', o⟩
    cases o <;> simp [RRes.ofResult, toResult, rres, concRunnerBase]
  | batch cs ns =>
    simp only [Base.call, rcall, step, Runner.batch, translated_base_run_batch_and_measure_eq ext l hk]
    rcases l.batch ext cs ns with ⟨l', o⟩
    cases o <;> simp [RRes.ofResult, toResult, rres, concRunnerBase]
  | dist c n =>
    simp only [Base.call, rcall, step, Runner.dist, translated_base_get_measurement_outcome_distribution_eq ext l hk]
    rcases l.dist ext c n with ⟨l', o⟩
    cases o <;> simp [RRes.ofResult, toResult, rres, concRunnerBase]


/-- `concBase` loses nothing: `absBase` recovers the model state. -/
theorem translated_base_state_roundtrip (l : Leaf) (hk : l.kind = .base) : absBase (concBase l) = l :=
  absBase_concBase l hk

/-! ### Part 1b — `MeasurementTrackingBackend` = the model's `.tracker` (around ANY model runner chain `inner`) -/

/-- TRANSLATION TIE `MeasurementTrackingBackend.__init__` (calls the translated `BaseCircuitRunner.__init__` through `super()`):
    counters 0, `raw_data = []`, the arguments stored, `type` = the class name of the wrapped runner; `world` untouched. -/
theorem translated_tracker_init_eq {ω B C M D J O F : Type} (x : Tracker.Ext ω B C M D J O F) (s : Tracker.State ω B J)
    (inner : B) (fn : List Char) (rb : Option Bool) :
    Tracker.init x s inner fn rb
      = (⟨0, 0, rb, inner, [], x.attr_B___class_____name__ inner, fn, s.world⟩, .ok ()) := rfl

/-- TRANSLATION TIE `MeasurementTrackingBackend.record_raw_measurement_data` = the model's `mkMeasRecord` (through `recDict`): for
    every state, circuit and measurement the method appends exactly the dict of the model's record – circuit, histogram,
    number of gates, number of shots, and the bitstrings iff `record_bitstrings` is `True` – and nothing else changes. -/
theorem translated_tracker_record_raw_measurement_data_eq (ext : Ext) (dev : List Char) (reprD : DistVal → List Char) (dumps : Dict2 Payload → List Char) (s : TState) (c : Circ) (m : List Shot) :
    Tracker.record_raw_measurement_data (trackerExt ext dev reprD dumps) s c m
      = ({ s with raw_data := s.raw_data ++ [recDict s.type reprD (mkMeasRecord (s.record_bitstrings == some true) c m)] },
         .ok ()) := by
  unfold Tracker.record_raw_measurement_data
  by_cases h : (s.record_bitstrings == some true) = true
  · simp [trackerExt, recDict, mkMeasRecord, h, shotsInt, kDataType, kDevice, kCircuit, kCounts, kGates, kShots,
      kBitstrings, vMeasurement] <;> rfl
  · simp [trackerExt, recDict, mkMeasRecord, h, shotsInt, kDataType, kDevice, kCircuit, kCounts, kGates, kShots,
      kBitstrings, vMeasurement]

/-- TRANSLATION TIE `MeasurementTrackingBackend.save_raw_data` (`with open(name, "w+") as f: … f.write(json.dumps(data))`, then
    `self.raw_data = []`): with the file system of `trackerExt` the file afterwards holds exactly the text of
    `{"raw-data": raw_data}` and `raw_data` is empty – for every state. -/
theorem translated_tracker_save_raw_data_eq (ext : Ext) (dev : List Char) (reprD : DistVal → List Char) (dumps : Dict2 Payload → List Char)
    (s : TState) :
    Tracker.save_raw_data (trackerExt ext dev reprD dumps) s
      = ({ s with raw_data := [], world := (s.world.1, fileText dumps s.raw_data) }, .ok ()) := by
  simp [Tracker.save_raw_data, trackerExt_open, trackerExt_write, trackerExt_exit, trackerExt_dumps, fileText, kRawData]

/- helper (not a property theorem): the `for circuit, measurement in zip(…)` loop of the batch override appends one record per pair -/
private theorem forEach_record (ext : Ext) (dev : List Char) (reprD : DistVal → List Char) (dumps : Dict2 Payload → List Char)
    (body : TState → Circ × List Shot → TState × Result Unit)
    (hbody : ∀ st p, body st p = ((Tracker.record_raw_measurement_data (trackerExt ext dev reprD dumps) st p.1 p.2).1, .ok ()))
    (ps : List (Circ × List Shot)) (s : TState) :
    forEach body s ps
      = ({ s with raw_data := s.raw_data ++
            ps.map (fun p => recDict s.type reprD (mkMeasRecord (s.record_bitstrings == some true) p.1 p.2)) }, .ok ()) := by
  induction ps generalizing s with
  | nil => simp [forEach]
  | cons p ps ih =>
    simp only [forEach, hbody, translated_tracker_record_raw_measurement_data_eq, ih]
    simp

/-- TRANSLATION TIE of the tracker's single call: the INHERITED `BaseCircuitRunner.run_and_measure` with `self._run_and_measure`
    resolved to the tracker's override (forward to the wrapped runner, `record_raw_measurement_data`, `save_raw_data`) =
    `Runner.run` on `.tracker`, for every tracker state (also with pending `raw`), every wrapped chain, every argument.
    `rb` is the Python value of `record_bitstrings` (`None` counts as `False`: hypothesis `hrb`).  Externals: `trackerExt`
    (wrapped runner = the model's `inner`, `save_raw_data` moves `raw_data` into the file and clears it). -/
theorem translated_tracker_run_and_measure_eq (ext : Ext) (dev fn : List Char) (reprD : DistVal → List Char) (dumps : Dict2 Payload → List Char)
    (rb : Option Bool) (inner : Runner) (bits : Bool) (k : Counters) (raw file : List Record) (c : Circ) (n : Int)
    (hrb : (rb == some true) = bits) :
    Tracker.run_and_measure (trackerExt ext dev reprD dumps) (concT dev fn reprD dumps rb (.tracker inner bits k raw file)) c n
      = (concT dev fn reprD dumps rb ((Runner.tracker inner bits k raw file).run ext c n).1,
         toResult ((Runner.tracker inner bits k raw file).run ext c n).2) := by
  unfold Tracker.run_and_measure Tracker._run_and_measure
  by_cases h : n ≤ 0
  · simp [h, Runner.run, toResult, excOf]
  · simp only [h, decide_false, Bool.false_eq_true, if_false, Runner.run]
    simp only [trackerExt_run, translated_tracker_save_raw_data_eq, concT, translated_tracker_record_raw_measurement_data_eq]
    rcases inner.run ext c n with ⟨inner', o⟩
    cases o with
    | err e => simp [toResult, concT]
    | ok m => simp [toResult, concT, hrb]

/-- TRANSLATION TIE of the tracker's OVERRIDE `run_batch_and_measure` = `Runner.batch` on `.tracker`: forward first, count
    `len(circuits)` / 1 only after the wrapped runner accepted, one record per `zip(circuits, measurements)` (→ `PyS.forEach`),
    save. -/
theorem translated_tracker_run_batch_and_measure_eq (ext : Ext) (dev fn : List Char) (reprD : DistVal → List Char) (dumps : Dict2 Payload → List Char)
    (rb : Option Bool) (inner : Runner) (bits : Bool) (k : Counters) (raw file : List Record) (cs : List Circ) (ns : NSpec)
    (hrb : (rb == some true) = bits) :
    Tracker.run_batch_and_measure (trackerExt ext dev reprD dumps) (concT dev fn reprD dumps rb (.tracker inner bits k raw file)) cs (nArg ns)
      = (concT dev fn reprD dumps rb ((Runner.tracker inner bits k raw file).batch ext cs ns).1,
         toResult ((Runner.tracker inner bits k raw file).batch ext cs ns).2) := by
  unfold Tracker.run_batch_and_measure
  simp only [Runner.batch]
  simp only [trackerExt_batch, translated_tracker_save_raw_data_eq, concT, nSpec_nArg]
  rcases inner.batch ext cs ns with ⟨inner', o⟩
  cases o with
  | err e => simp [toResult, concT]
  | ok ms =>
    simp only [toResult]
    rw [forEach_record ext dev reprD dumps _ (fun st p => by simp [translated_tracker_record_raw_measurement_data_eq])]
    simp [concT, hrb, Function.comp_def]

/-- TRANSLATION TIE of the tracker's OVERRIDE `get_measurement_outcome_distribution` = `Runner.dist` on `.tracker`. -/
theorem translated_tracker_get_measurement_outcome_distribution_eq (ext : Ext) (dev fn : List Char)
    (reprD : DistVal → List Char) (dumps : Dict2 Payload → List Char) (rb : Option Bool) (inner : Runner) (bits : Bool) (k : Counters) (raw file : List Record)
    (c : Circ) (n : Option Int) :
    Tracker.get_measurement_outcome_distribution (trackerExt ext dev reprD dumps)
        (concT dev fn reprD dumps rb (.tracker inner bits k raw file)) c n
      = (concT dev fn reprD dumps rb ((Runner.tracker inner bits k raw file).dist ext c n).1,
         toResult ((Runner.tracker inner bits k raw file).dist ext c n).2) := by
  unfold Tracker.get_measurement_outcome_distribution
  simp only [Runner.dist]
  simp only [trackerExt_dist, translated_tracker_save_raw_data_eq, trackerExt_to_dict, trackerExt_repr, trackerExt_ops, concT]
  rcases inner.dist ext c n with ⟨inner', o⟩
  cases o with
  | err e => simp [toResult, concT]
  | ok d =>
    simp [toResult, concT, recDict, kDataType, kDevice, kCircuit, kDistribution, kGates, kShots, vDistribution]


/-- TRANSLATION TIE, one statement for all three operations of the tracker: `Tracker.call` = the model's `step`. -/
theorem translated_tracker_step_eq (ext : Ext) (dev fn : List Char) (reprD : DistVal → List Char) (dumps : Dict2 Payload → List Char)
    (rb : Option Bool) (inner : Runner) (bits : Bool) (k : Counters) (raw file : List Record) (call : Call)
    (hrb : (rb == some true) = bits) :
    Tracker.call (trackerExt ext dev reprD dumps) (concT dev fn reprD dumps rb (.tracker inner bits k raw file)) (rcall call)
      = (concT dev fn reprD dumps rb (step ext (.tracker inner bits k raw file) call).1,
         rres (step ext (.tracker inner bits k raw file) call).2) := by
  cases call with
  | run c n =>
    simp only [Tracker.call, rcall, step,
      translated_tracker_run_and_measure_eq ext dev fn reprD dumps rb inner bits k raw file c n hrb]
    rcases (Runner.tracker inner bits k raw file).run ext c n with ⟨r', o⟩
    cases o <;> simp [RRes.ofResult, toResult, rres]
  | batch cs ns =>
    simp only [Tracker.call, rcall, step,
      translated_tracker_run_batch_and_measure_eq ext dev fn reprD dumps rb inner bits k raw file cs ns hrb]
    rcases (Runner.tracker inner bits k raw file).batch ext cs ns with ⟨r', o⟩
    cases o <;> simp [RRes.ofResult, toResult, rres]
  | dist c n =>
    simp only [Tracker.call, rcall, step,
      translated_tracker_get_measurement_outcome_distribution_eq ext dev fn reprD dumps rb inner bits k raw file c n]
    rcases (Runner.tracker inner bits k raw file).dist ext c n with ⟨r', o⟩
    cases o <;> simp [RRes.ofResult, toResult, rres]

/-! ### Part 1c — `BaseWavefunctionSimulator` = the model's `.sim a` leaf
(`a = true`: every operation native – `SymbolicSimulator`; `a = false`: the default `is_natively_supported`).  The state map
`concSim` carries a ghost `cur` (the circuit last given to `split_circuit`, through which the instantiated `Wavefunction` /
`sample_from_wavefunction` know which circuit they belong to); the ties say "for every `cur` there is a `cur'`". -/

/-- TRANSLATION TIE `BaseWavefunctionSimulator.__init__` (keyword-only `seed`; `super().__init__()` → the translated
    `BaseCircuitRunner.__init__`): counters 0, seed stored. -/
theorem translated_sim_init_eq {ω C M D V W O P X Y : Type} (x : Sim.Ext ω C M D V W O P X Y) (s : Sim.State ω)
    (sd : Option Int) : Sim.init x s sd = (⟨0, 0, sd, s.world⟩, .ok ()) := rfl

/-- TRANSLATION TIE of the loop of `get_wavefunction` (`for is_supported, subcircuit in split_circuit(…)`: one job per segment,
    one circuit per natively supported segment, nested `for operation in subcircuit.operations` – two `PyS.forEach`, the state
    vector loop-carried) = the model's `getWavefunction` / `countSegments` over the `groupby` keys `segKeys (nativeFlags a c)`:
    both counters grow by exactly `segCircuits a c` / `segJobs a c`, with or without an initial state; the result is the
    wavefunction, or `TypeError` for a circuit with free symbols (where the model places it), AFTER the counting. -/
theorem translated_sim_get_wavefunction_eq (ext : Ext) (a : Bool) (s : SState) (c : Circ) (init : Option Unit) :
    Sim.get_wavefunction (simExt ext a) s c init
      = ({ s with _n_circuits_executed := s._n_circuits_executed + (segCircuits a c : Nat),
                  _n_jobs_executed := s._n_jobs_executed + (segJobs a c : Nat), world := (s.world.1, c) },
         if c.symbolic then .raised .TypeError else .ok c) := by
  have hinner : ∀ (st : SState × Unit) (ops : List Bool),
      forEach (fun (st : SState × Unit) (operation : Bool) =>
        match (simExt ext a).O_apply st.1 operation st.2 with
        | (self, .raised e) => ((self, st.2), .raised e)
        | (self, .ok state) => ((self, state), .ok ())) st ops = (st, .ok ()) := by
    intro st ops
    rw [forEach_fold _ (fun st _ => st) (fun st p => by simp [simExt])]
    simp [foldl_const]
  cases init <;>
  · simp only [Sim.get_wavefunction]
    simp only [simExt] at hinner ⊢
    rw [forEach_fold _ segStep (fun st p => by
      rcases p with ⟨b, cc⟩
      cases b
      · simp only [Bool.false_eq_true, if_false]
        rw [hinner]
        simp [segStep]
      · simp [segStep])]
    simp only [foldl_segStep]
    by_cases hsym : c.symbolic = true <;> simp [hsym, segCircuits, segJobs, nativeFlags]


/-- TRANSLATION TIE of the simulator's OVERRIDE `run_and_measure` + its `_run_and_measure` (free-symbol check, `get_wavefunction`,
    sampling) = `Leaf.run` of a `.sim a` leaf, for every state, circuit and count. -/
theorem translated_sim_run_and_measure_eq (ext : Ext) (a : Bool) (l : Leaf) (hk : l.kind = .sim a) (sd : Option Int)
    (cur c : Circ) (n : Int) :
    ∃ cur', Sim.run_and_measure (simExt ext a) (concSim l sd cur) c n
      = (concSim (l.run ext c n).1 sd cur', toResult (l.run ext c n).2) := by
  unfold Sim.run_and_measure Sim._run_and_measure Leaf.run
  by_cases h : n ≤ 0
  · exact ⟨cur, by simp [h, toResult, excOf]⟩
  · by_cases hs : c.symbolic = true
    · exact ⟨cur, by simp [h, hs, hk, simExt, toResult, excOf]⟩
    · refine ⟨c, ?_⟩
      simp only [h, decide_false, Bool.false_eq_true, if_false, hk, translated_sim_get_wavefunction_eq]
      simp [simExt, hs, concSim, toResult, getWavefunction_eq]


/- helper (not a property theorem) -/
private theorem collectEach_sim (ext : Ext) (a : Bool) (sd : Option Int) (ps : List (Circ × Int)) (l : Leaf) (hk : l.kind = .sim a)
    (cur : Circ) :
    ∃ cur', collectEach (fun (self : SState) (p : Circ × Int) => Sim.run_and_measure (simExt ext a) self p.1 p.2)
        (concSim l sd cur) ps
      = (concSim (runEach (Leaf.run ext) l ps).1 sd cur', toResult (runEach (Leaf.run ext) l ps).2) := by
  induction ps generalizing l cur with
  | nil => exact ⟨cur, by simp [collectEach, runEach, toResult]⟩
  | cons p ps ih =>
    have hk' : (l.run ext p.1 p.2).1.kind = .sim a := by rw [(Leaf.run_grows ext l p.1 p.2).1, hk]
    obtain ⟨cur1, h1⟩ := translated_sim_run_and_measure_eq ext a l hk sd cur p.1 p.2
    simp only [collectEach, runEach, h1]
    rcases h : l.run ext p.1 p.2 with ⟨l', o⟩
    rw [h] at hk'
    cases o with
    | err e => exact ⟨cur1, by simp [toResult]⟩
    | ok m =>
      obtain ⟨cur2, h2⟩ := ih l' hk' cur1
      simp only [toResult, h2]
      rcases runEach (Leaf.run ext) l' ps with ⟨l'', o'⟩
      cases o' <;> exact ⟨cur2, by simp [toResult]⟩


/-- TRANSLATION TIE of the INHERITED `run_batch_and_measure` / `_run_batch_and_measure` as resolved for the simulator (the
    comprehension calls the simulator's override) = `Leaf.batch` of a `.sim a` leaf. -/
theorem translated_sim_run_batch_and_measure_eq (ext : Ext) (a : Bool) (l : Leaf) (hk : l.kind = .sim a) (sd : Option Int)
    (cur : Circ) (cs : List Circ) (ns : NSpec) :
    ∃ cur', Sim.run_batch_and_measure (simExt ext a) (concSim l sd cur) cs (nArg ns)
      = (concSim (l.batch ext cs ns).1 sd cur', toResult (l.batch ext cs ns).2) := by
  have key : ∀ spc : List Int, ∀ sc : Bool, ∃ cur',
      (if (((spc.length : Nat) : Int) != ((cs.length : Nat) : Int)) then ((concSim l sd cur, .raised .ValueError) : SState × Result (List (List Shot)))
       else if (sc || spc.any (fun (n : Int) => decide (n ≤ (0 : Int)))) then (concSim l sd cur, .raised .ValueError)
       else Sim._run_batch_and_measure (simExt ext a) (concSim l sd cur) cs spc)
      = (concSim (if spc.length ≠ cs.length then (l, Outcome.err Err.value)
          else if sc || spc.any (fun n => n ≤ 0) then (l, .err .value)
          else runEach (Leaf.run ext) l (cs.zip spc)).1 sd cur',
         toResult (if spc.length ≠ cs.length then (l, Outcome.err Err.value)
          else if sc || spc.any (fun n => n ≤ 0) then (l, .err .value)
          else runEach (Leaf.run ext) l (cs.zip spc)).2) := by
    intro spc sc
    by_cases h1 : spc.length = cs.length
    · by_cases h2 : (sc || spc.any fun n => decide (n ≤ 0)) = true
      · exact ⟨cur, by simp [h1, h2, toResult, excOf]⟩
      · obtain ⟨cur', h⟩ := collectEach_sim ext a sd (cs.zip spc) l hk cur
        refine ⟨cur', ?_⟩
        simp only [h1, h2, bne_self_eq_false, Bool.false_eq_true, if_false, ne_eq, not_true_eq_false]
        exact h
    · exact ⟨cur, by simp [h1, toResult, excOf]⟩
  cases ns with
  | one n =>
    obtain ⟨cur', this⟩ := key (List.replicate cs.length n) (decide (n ≤ 0))
    exact ⟨cur', by simpa [Sim.run_batch_and_measure, Leaf.batch, nArg, samplesPerCircuit, scalarNonPos, replicate_flatten_singleton] using this⟩
  | many ns =>
    obtain ⟨cur', this⟩ := key ns false
    exact ⟨cur', by simpa [Sim.run_batch_and_measure, Leaf.batch, nArg, samplesPerCircuit, scalarNonPos] using this⟩


/-- TRANSLATION TIE of the simulator's OVERRIDE `get_measurement_outcome_distribution` = `Leaf.dist` of a `.sim a` leaf:
    `n_samples = None` computes the wavefunction (counting the segments) and returns the exact distribution. -/
theorem translated_sim_get_measurement_outcome_distribution_eq (ext : Ext) (a : Bool) (l : Leaf) (hk : l.kind = .sim a)
    (sd : Option Int) (cur c : Circ) (n : Option Int) :
    ∃ cur', Sim.get_measurement_outcome_distribution (simExt ext a) (concSim l sd cur) c n
      = (concSim (l.dist ext c n).1 sd cur', toResult (l.dist ext c n).2) := by
  cases n with
  | none =>
    refine ⟨c, ?_⟩
    simp only [Sim.get_measurement_outcome_distribution, Leaf.dist, hk, translated_sim_get_wavefunction_eq]
    by_cases hs : c.symbolic = true <;> simp [hs, simExt, concSim, toResult, excOf, getWavefunction_eq]
  | some n =>
    obtain ⟨cur', h⟩ := translated_sim_run_and_measure_eq ext a l hk sd cur c n
    refine ⟨cur', ?_⟩
    simp only [Sim.get_measurement_outcome_distribution, Leaf.dist, h]
    rcases l.run ext c n with ⟨l', o⟩
    cases o <;> simp [toResult, simExt]


/-- TRANSLATION TIE, one statement for all three operations of the simulator: `Sim.call` = the model's `step`. -/
theorem translated_sim_step_eq (ext : Ext) (a : Bool) (l : Leaf) (hk : l.kind = .sim a) (sd : Option Int) (cur : Circ)
    (call : Call) :
    ∃ cur', Sim.call (simExt ext a) (concSim l sd cur) (rcall call)
      = (concRunnerSim sd cur' (step ext (.leaf l) call).1, rres (step ext (.leaf l) call).2) := by
  cases call with
  | run c n =>
    obtain ⟨cur', h⟩ := translated_sim_run_and_measure_eq ext a l hk sd cur c n
    refine ⟨cur', ?_⟩
    simp only [Sim.call, rcall, step, Runner.run, h]
    rcases l.run ext c n with ⟨l', o⟩
    cases o <;> simp [RRes.ofResult, toResult, rres, concRunnerSim]
  | batch cs ns =>
    obtain ⟨cur', h⟩ := translated_sim_run_batch_and_measure_eq ext a l hk sd cur cs ns
    refine ⟨cur', ?_⟩
    simp only [Sim.call, rcall, step, Runner.batch, h]
    rcases l.batch ext cs ns with ⟨l', o⟩
    cases o <;> simp [RRes.ofResult, toResult, rres, concRunnerSim]
  | dist c n =>
    obtain ⟨cur', h⟩ := translated_sim_get_measurement_outcome_distribution_eq ext a l hk sd cur c n
    refine ⟨cur', ?_⟩
    simp only [Sim.call, rcall, step, Runner.dist, h]
    rcases l.dist ext c n with ⟨l', o⟩
    cases o <;> simp [RRes.ofResult, toResult, rres, concRunnerSim]

/-! ### Part 2 — property theorems of Props/C14.lean restated on the translated definitions THROUGH the tie -/

/-- `reject_before_execute` END-TO-END (base runner): an invalid request makes the TRANSLATED method raise `ValueError` and the
    whole translated state – counters and the number of external invocations – is what it was. -/
theorem translated_base_reject_before_execute_via_model (ext : Ext) (l : Leaf) (hk : l.kind = .base) (call : Call)
    (h : call.badArgs) :
    Base.call (baseExt ext) (concBase l) (rcall call) = (concBase l, .raised .ValueError) := by
  rw [translated_base_step_eq ext l hk, reject_before_execute ext (.leaf l) call h]; rfl

/-- `reject_before_execute` / `rejected_unchanged` END-TO-END (tracker around any chain): own counters, pending raw data, file
    and the whole wrapped chain are unchanged by an invalid request, which raises `ValueError`. -/
theorem translated_tracker_reject_before_execute_via_model (ext : Ext) (dev fn : List Char) (reprD : DistVal → List Char) (dumps : Dict2 Payload → List Char)
    (rb : Option Bool) (inner : Runner) (bits : Bool) (k : Counters) (raw file : List Record) (call : Call)
    (hrb : (rb == some true) = bits) (h : call.badArgs) :
    Tracker.call (trackerExt ext dev reprD dumps) (concT dev fn reprD dumps rb (.tracker inner bits k raw file)) (rcall call)
      = (concT dev fn reprD dumps rb (.tracker inner bits k raw file), .raised .ValueError) := by
  rw [translated_tracker_step_eq ext dev fn reprD dumps rb inner bits k raw file call hrb,
    reject_before_execute ext _ call h]; rfl

/-- `base_increment_exact` END-TO-END: a successful translated call adds exactly the number of circuits of the call to both
    counters. -/
theorem translated_base_increment_exact_via_model (ext : Ext) (l : Leaf) (hk : l.kind = .base) (call : Call)
    (hok : ∀ e, (Base.call (baseExt ext) (concBase l) (rcall call)).2 ≠ .raised e) :
    (Base.call (baseExt ext) (concBase l) (rcall call)).1._n_circuits_executed = l.k.nCircuits + call.circuits.length ∧
    (Base.call (baseExt ext) (concBase l) (rcall call)).1._n_jobs_executed = l.k.nJobs + call.circuits.length := by
  rw [translated_base_step_eq ext l hk] at hok ⊢
  rcases hs : step ext (.leaf l) call with ⟨r', res⟩
  rw [hs] at hok
  have hok' := rres_ne_raised _ hok
  obtain ⟨l', hl', _, _, _⟩ := leaf_step_ok ext l call r' res hs hok'
  have h := base_increment_exact ext l hk call r' res hs hok'
  subst hl'
  simp only [Runner.own] at h
  simp only [concRunnerBase, concBase, h.1, h.2]
  exact ⟨by push_cast; rfl, by push_cast; rfl⟩

/-- `tracker_increment_exact` END-TO-END: the translated tracker adds +1/+1 (single), +len/+1 (batch), nothing for a
    distribution call and nothing for ANY failed call. -/
theorem translated_tracker_increment_exact_via_model (ext : Ext) (dev fn : List Char) (reprD : DistVal → List Char) (dumps : Dict2 Payload → List Char)
    (rb : Option Bool) (inner : Runner) (bits : Bool) (k : Counters) (raw file : List Record) (call : Call)
    (hrb : (rb == some true) = bits) :
    (Tracker.call (trackerExt ext dev reprD dumps) (concT dev fn reprD dumps rb (.tracker inner bits k raw file)) (rcall call)).1._n_circuits_executed
      = k.nCircuits + (trackerWork call (step ext (.tracker inner bits k raw file) call).2).1 ∧
    (Tracker.call (trackerExt ext dev reprD dumps) (concT dev fn reprD dumps rb (.tracker inner bits k raw file)) (rcall call)).1._n_jobs_executed
      = k.nJobs + (trackerWork call (step ext (.tracker inner bits k raw file) call).2).2 := by
  rw [translated_tracker_step_eq ext dev fn reprD dumps rb inner bits k raw file call hrb]
  have hp := (tracker_passthrough ext inner bits k raw file call).2
  rcases hs : step ext (.tracker inner bits k raw file) call with ⟨r', res⟩
  have h := tracker_increment_exact ext inner bits k raw file call r' res hs
  rw [hs] at hp
  cases r' with
  | leaf l => simp [Runner.inner?] at hp
  | tracker i' b' k' raw' file' =>
    simp only [Runner.own] at h
    simp only [concT, h.1, h.2]
    exact ⟨by push_cast; rfl, by push_cast; rfl⟩

/-- `sim_increment_exact` END-TO-END: a successful call of the translated simulator adds, for every circuit of the call, one job
    per segment and one circuit per natively supported segment. -/
theorem translated_sim_increment_exact_via_model (ext : Ext) (a : Bool) (l : Leaf) (hk : l.kind = .sim a) (sd : Option Int)
    (cur : Circ) (call : Call)
    (hok : ∀ e, (Sim.call (simExt ext a) (concSim l sd cur) (rcall call)).2 ≠ .raised e) :
    (Sim.call (simExt ext a) (concSim l sd cur) (rcall call)).1._n_circuits_executed
      = l.k.nCircuits + ((call.circuits.map (segCircuits a)).sum : Nat) ∧
    (Sim.call (simExt ext a) (concSim l sd cur) (rcall call)).1._n_jobs_executed
      = l.k.nJobs + ((call.circuits.map (segJobs a)).sum : Nat) := by
  obtain ⟨cur', h⟩ := translated_sim_step_eq ext a l hk sd cur call
  rw [h] at hok ⊢
  rcases hs : step ext (.leaf l) call with ⟨r', res⟩
  rw [hs] at hok
  have hok' := rres_ne_raised _ hok
  obtain ⟨l', hl', _, _, _⟩ := leaf_step_ok ext l call r' res hs hok'
  have hh := sim_increment_exact ext l a hk call r' res hs hok'
  subst hl'
  simp only [Runner.own] at hh
  simp only [concRunnerSim, concSim, hh.1, hh.2]
  exact ⟨by push_cast; rfl, by push_cast; rfl⟩

/-! ### Part 3 — the same sentences proved directly on the translated code, for arbitrary externals -/

/-- `reject_before_execute` on the translated `BaseCircuitRunner`, for ALL types and ALL externals (no assumption whatsoever:
    no external is invoked): `ValueError`, and the state – `world` included – is unchanged. -/
theorem translated_base_reject_before_execute {ω C M D : Type} (x : Base.Ext ω C M D) (s : Base.State ω)
    (call : RCall C) (h : call.badArgs) : Base.call x s call = (s, (.raised .ValueError : RRes M D)) := by
  cases call with
  | run c n =>
    simp only [RCall.badArgs] at h
    simp [Base.call, Base.run_and_measure, h, RRes.ofResult]
  | batch cs ns =>
    cases ns with
    | inl n =>
      simp only [RCall.badArgs] at h
      simp [Base.call, Base.run_batch_and_measure, h, RRes.ofResult]
    | inr ns =>
      simp only [RCall.badArgs] at h
      by_cases hl : ns.length = cs.length
      · rcases h with h | ⟨a, ha, ha0⟩
        · exact absurd hl h
        · have : ns.any (fun n => decide (n ≤ 0)) = true := List.any_eq_true.mpr ⟨a, ha, by simpa using ha0⟩
          simp [Base.call, Base.run_batch_and_measure, hl, this, RRes.ofResult]
      · simp [Base.call, Base.run_batch_and_measure, hl, RRes.ofResult]
  | dist c n =>
    cases n with
    | none => simp [RCall.badArgs] at h
    | some n =>
      simp only [RCall.badArgs] at h
      simp [Base.call, Base.get_measurement_outcome_distribution, Base.run_and_measure, h, RRes.ofResult]



/-- `rejected_unchanged` on the translated `BaseCircuitRunner`: the counters after a rejected call. -/
theorem translated_base_rejected_unchanged {ω C M D : Type} (x : Base.Ext ω C M D) (s : Base.State ω)
    (call : RCall C) (h : call.badArgs) :
    ((Base.call x s call : Base.State ω × RRes M D)).1._n_circuits_executed = s._n_circuits_executed ∧
    ((Base.call x s call : Base.State ω × RRes M D)).1._n_jobs_executed = s._n_jobs_executed := by
  rw [translated_base_reject_before_execute x s call h]; exact ⟨rfl, rfl⟩

/-- `reject_before_execute` on the translated `BaseWavefunctionSimulator`, for ALL types and ALL externals: `ValueError`, state
    unchanged, nothing executed (no segment counted). -/
theorem translated_sim_reject_before_execute {ω C M D V W O P X Y : Type} (x : Sim.Ext ω C M D V W O P X Y) (s : Sim.State ω)
    (call : RCall C) (h : call.badArgs) : Sim.call x s call = (s, (.raised .ValueError : RRes M D)) := by
  cases call with
  | run c n =>
    simp only [RCall.badArgs] at h
    simp [Sim.call, Sim.run_and_measure, h, RRes.ofResult]
  | batch cs ns =>
    cases ns with
    | inl n =>
      simp only [RCall.badArgs] at h
      simp [Sim.call, Sim.run_batch_and_measure, h, RRes.ofResult]
    | inr ns =>
      simp only [RCall.badArgs] at h
      by_cases hl : ns.length = cs.length
      · rcases h with h | ⟨a, ha, ha0⟩
        · exact absurd hl h
        · have : ns.any (fun n => decide (n ≤ 0)) = true := List.any_eq_true.mpr ⟨a, ha, by simpa using ha0⟩
          simp [Sim.call, Sim.run_batch_and_measure, hl, this, RRes.ofResult]
      · simp [Sim.call, Sim.run_batch_and_measure, hl, RRes.ofResult]
  | dist c n =>
    cases n with
    | none => simp [RCall.badArgs] at h
    | some n =>
      simp only [RCall.badArgs] at h
      simp [Sim.call, Sim.get_measurement_outcome_distribution, Sim.run_and_measure, h, RRes.ofResult]

/- helpers (not property theorems): one translated `run_and_measure`, and the comprehension over a batch, under the frame law -/
private theorem base_run_counts {ω C M D : Type} (x : Base.Ext ω C M D) (hx : Base.Frame x) (s : Base.State ω) (c : C) (n : Int) :
    match (Base.run_and_measure x s c n).2 with
    | .ok _ => 0 < n ∧ (Base.run_and_measure x s c n).1._n_circuits_executed = s._n_circuits_executed + 1 ∧
        (Base.run_and_measure x s c n).1._n_jobs_executed = s._n_jobs_executed + 1
    | .raised _ => (Base.run_and_measure x s c n).1._n_circuits_executed = s._n_circuits_executed ∧
        (Base.run_and_measure x s c n).1._n_jobs_executed = s._n_jobs_executed := by
  unfold Base.run_and_measure
  by_cases h : n ≤ 0
  · simp [h]
  · have hf := hx.1 s c n
    simp only [h, decide_false, Bool.false_eq_true, if_false]
    rcases he : x.self__run_and_measure s c n with ⟨s', r⟩
    rw [he] at hf
    simp only at hf
    cases r with
    | ok m => simp only; exact ⟨by omega, by omega, by omega⟩
    | raised e => simpa using hf

private theorem base_collect_counts {ω C M D : Type} (x : Base.Ext ω C M D) (hx : Base.Frame x) (ps : List (C × Int)) (s : Base.State ω) :
    match (collectEach (fun (self : Base.State ω) (p : C × Int) => Base.run_and_measure x self p.1 p.2) s ps).2 with
    | .ok ms => ms.length = ps.length ∧
        (collectEach (fun (self : Base.State ω) (p : C × Int) => Base.run_and_measure x self p.1 p.2) s ps).1._n_circuits_executed
          = s._n_circuits_executed + ps.length ∧
        (collectEach (fun (self : Base.State ω) (p : C × Int) => Base.run_and_measure x self p.1 p.2) s ps).1._n_jobs_executed
          = s._n_jobs_executed + ps.length
    | .raised _ => ∃ j : Nat, j < ps.length ∧
        (collectEach (fun (self : Base.State ω) (p : C × Int) => Base.run_and_measure x self p.1 p.2) s ps).1._n_circuits_executed
          = s._n_circuits_executed + j ∧
        (collectEach (fun (self : Base.State ω) (p : C × Int) => Base.run_and_measure x self p.1 p.2) s ps).1._n_jobs_executed
          = s._n_jobs_executed + j := by
  induction ps generalizing s with
  | nil => simp [collectEach]
  | cons p ps ih =>
    have h1 := base_run_counts x hx s p.1 p.2
    simp only [collectEach]
    rcases he : Base.run_and_measure x s p.1 p.2 with ⟨s1, r⟩
    rw [he] at h1
    cases r with
    | raised e => simp only at h1 ⊢; exact ⟨0, by simp, by simp [h1.1], by simp [h1.2]⟩
    | ok m =>
      simp only at h1 ⊢
      have h2 := ih s1
      rcases he2 : collectEach (fun (self : Base.State ω) (p : C × Int) => Base.run_and_measure x self p.1 p.2) s1 ps with ⟨s2, r2⟩
      rw [he2] at h2
      cases r2 with
      | raised e =>
        simp only at h2 ⊢
        obtain ⟨j, hj, hc, hjb⟩ := h2
        refine ⟨j + 1, by simp [hj], ?_, ?_⟩
        · omega
        · omega
      | ok ms =>
        simp only at h2 ⊢
        refine ⟨by simp [h2.1], ?_, ?_⟩
        · simp only [List.length_cons]; omega
        · simp only [List.length_cons]; omega

/-- what ONE CALL of the translated `BaseCircuitRunner` does to the counters under the frame law, for all types and externals:
    a successful call adds exactly the number of circuits of the call (1, `len(batch)`, 1) to both counters; a call that raises
    has added the number `j ≤ size` of circuits that ran before the failure (`failed_call_counts_what_ran` on the translated
    code; `j = 0` for a rejected call). -/
theorem translated_base_call_counts {ω C M D : Type} (x : Base.Ext ω C M D) (hx : Base.Frame x) (s : Base.State ω) (call : RCall C) :
    match (Base.call x s call).2 with
    | .raised _ => ∃ j : Nat, j ≤ call.size ∧
        (Base.call x s call).1._n_circuits_executed = s._n_circuits_executed + j ∧
        (Base.call x s call).1._n_jobs_executed = s._n_jobs_executed + j
    | _ => (Base.call x s call).1._n_circuits_executed = s._n_circuits_executed + call.size ∧
        (Base.call x s call).1._n_jobs_executed = s._n_jobs_executed + call.size := by
  cases call with
  | run c n =>
    have h := base_run_counts x hx s c n
    simp only [Base.call, RCall.size]
    generalize Base.run_and_measure x s c n = p at h ⊢
    rcases p with ⟨s', r⟩
    cases r with
    | ok m => simpa [RRes.ofResult] using h.2
    | raised e => simp only [RRes.ofResult] at h ⊢; exact ⟨0, by omega, by simp [h.1], by simp [h.2]⟩
  | batch cs ns =>
    have key : ∀ spc : List Int, spc.length = cs.length →
        match RRes.ofResult (M := M) (D := D) .batch (Base._run_batch_and_measure x s cs spc).2 with
        | .raised _ => ∃ j : Nat, j ≤ cs.length ∧
            (Base._run_batch_and_measure x s cs spc).1._n_circuits_executed = s._n_circuits_executed + j ∧
            (Base._run_batch_and_measure x s cs spc).1._n_jobs_executed = s._n_jobs_executed + j
        | _ => (Base._run_batch_and_measure x s cs spc).1._n_circuits_executed = s._n_circuits_executed + cs.length ∧
            (Base._run_batch_and_measure x s cs spc).1._n_jobs_executed = s._n_jobs_executed + cs.length := by
      intro spc hl
      have h := base_collect_counts x hx (cs.zip spc) s
      have hz : (cs.zip spc).length = cs.length := by simp [hl]
      rw [hz] at h
      unfold Base._run_batch_and_measure
      generalize collectEach (fun (self : Base.State ω) (p : C × Int) => Base.run_and_measure x self p.1 p.2) s (cs.zip spc)
        = q at h ⊢
      rcases q with ⟨s', r⟩
      cases r with
      | ok ms => simpa [RRes.ofResult] using h.2
      | raised e =>
        simp only [RRes.ofResult] at h ⊢
        obtain ⟨j, hj, h1, h2⟩ := h
        exact ⟨j, by omega, h1, h2⟩
    have rej : ∃ j : Nat, j ≤ cs.length ∧ s._n_circuits_executed = s._n_circuits_executed + j ∧
        s._n_jobs_executed = s._n_jobs_executed + j := ⟨0, by omega, by simp, by simp⟩
    simp only [Base.call, RCall.size]
    cases ns with
    | inl n =>
      simp only [Base.run_batch_and_measure]
      by_cases h0 : n ≤ 0
      · simp [h0, RRes.ofResult]
      · have hl : (List.replicate (Int.toNat ((cs.length : Nat) : Int)) [n]).flatten.length = cs.length := by simp
        have hany : ((List.replicate (Int.toNat ((cs.length : Nat) : Int)) [n]).flatten.any fun n => decide (n ≤ 0)) = false := by
          simp [h0]
        have := key _ hl
        simp only [hl, bne_self_eq_false, Bool.false_eq_true, if_false, h0, decide_false, hany, Bool.or_self]
        exact this
    | inr ns =>
      simp only [Base.run_batch_and_measure]
      by_cases hl : ns.length = cs.length
      · by_cases hany : (ns.any fun n => decide (n ≤ 0)) = true
        · simp [hl, hany, RRes.ofResult]
        · have := key ns hl
          simp only [hl, bne_self_eq_false, Bool.false_eq_true, if_false, hany, Bool.or_self]
          exact this
      · simp [hl, RRes.ofResult]
  | dist c n =>
    simp only [Base.call, RCall.size]
    cases n with
    | none => simp only [Base.get_measurement_outcome_distribution, RRes.ofResult]; exact ⟨0, by omega, by simp, by simp⟩
    | some n =>
      have h := base_run_counts x hx s c n
      simp only [Base.get_measurement_outcome_distribution]
      generalize Base.run_and_measure x s c n = p at h ⊢
      rcases p with ⟨s1, r⟩
      cases r with
      | raised e => simp only [RRes.ofResult] at h ⊢; exact ⟨0, by omega, by simp [h.1], by simp [h.2]⟩
      | ok m =>
        have hf := hx.2 s1 m
        simp only at h ⊢
        generalize x.M_get_distribution s1 m = q at hf ⊢
        rcases q with ⟨s2, r2⟩
        simp only at hf
        cases r2 with
        | ok d => simp only [RRes.ofResult]; exact ⟨by omega, by omega⟩
        | raised e => simp only [RRes.ofResult]; exact ⟨1, by omega, by omega, by omega⟩

/-- `increment_exact` on the translated `BaseCircuitRunner` under the frame law: a successful call adds exactly the number of
    circuits of the call (1, `len(batch)`, 1) to both counters. -/
theorem translated_base_increment_exact {ω C M D : Type} (x : Base.Ext ω C M D) (hx : Base.Frame x) (s : Base.State ω)
    (call : RCall C) (hok : ∀ e, (Base.call x s call).2 ≠ .raised e) :
    (Base.call x s call).1._n_circuits_executed = s._n_circuits_executed + call.size ∧
    (Base.call x s call).1._n_jobs_executed = s._n_jobs_executed + call.size := by
  have h := translated_base_call_counts x hx s call
  generalize Base.call x s call = p at h hok
  rcases p with ⟨s', r⟩
  cases r with
  | raised e => exact absurd rfl (hok e)
  | meas m => exact h
  | batch ms => exact h
  | distr d => exact h

/-- a failed call on the translated `BaseCircuitRunner` (frame law) has counted exactly the `j ≤ size` circuits that ran before
    the failure; with `translated_base_increment_exact`: the counters never decrease (`counters_monotone`). -/
theorem translated_base_counters_monotone {ω C M D : Type} (x : Base.Ext ω C M D) (hx : Base.Frame x) (s : Base.State ω)
    (call : RCall C) :
    ∃ j : Nat, j ≤ call.size ∧ (Base.call x s call).1._n_circuits_executed = s._n_circuits_executed + j ∧
      (Base.call x s call).1._n_jobs_executed = s._n_jobs_executed + j := by
  have h := translated_base_call_counts x hx s call
  generalize Base.call x s call = p at h
  rcases p with ⟨s', r⟩
  cases r with
  | raised e => exact h
  | meas m => exact ⟨call.size, Nat.le_refl _, h⟩
  | batch ms => exact ⟨call.size, Nat.le_refl _, h⟩
  | distr d => exact ⟨call.size, Nat.le_refl _, h⟩

/- helper (not a property theorem): under the frame law `record_raw_measurement_data` keeps the counters -/
private theorem tracker_record_keeps {ω B C M D J O F : Type} (x : Tracker.Ext ω B C M D J O F) (hx : Tracker.Frame x) (c : C) (m : M) :
    Tracker.Keeps (fun s => Tracker.record_raw_measurement_data x s c m) := by
  intro s
  have h1 := hx.get_counts
  have h7 := hx.to_dict
  have a := h7 c s
  simp only at a ⊢
  unfold Tracker.record_raw_measurement_data
  generalize x.fn_to_dict s c = p at a ⊢
  rcases p with ⟨s1, r1⟩
  cases r1 with
  | raised e => exact a
  | ok j =>
    have b := h1 m s1
    simp only at a b ⊢
    generalize x.M_get_counts s1 m = q at b ⊢
    rcases q with ⟨s2, r2⟩
    cases r2 with
    | raised e => simp only at b ⊢; exact ⟨by omega, by omega⟩
    | ok j2 =>
      simp only at b ⊢
      split <;> exact ⟨by simp only; omega, by simp only; omega⟩

private theorem tracker_save_keeps {ω B C M D J O F : Type} (x : Tracker.Ext ω B C M D J O F) (hx : Tracker.Frame x) :
    Tracker.Keeps (Tracker.save_raw_data x) := by
  intro s
  unfold Tracker.save_raw_data
  have a := hx.open_ s.raw_data_file_name ['w', '+'] s
  simp only at a ⊢
  rcases hp : x.fn_open s s.raw_data_file_name ['w', '+'] with ⟨s1, r1⟩
  rw [hp] at a
  cases r1 with
  | raised e => exact a
  | ok f =>
    simp only at a ⊢
    rcases hq : x.json_dumps s1 _ with ⟨s2, r2⟩
    have b := hx.dumps (dictOf [(['r', 'a', 'w', '-', 'd', 'a', 't', 'a'], Val2.dicts s1.raw_data)]) s1
    simp only [hq] at b
    cases r2 with
    | raised e =>
      simp only
      have c := hx.exit f s2
      simp only at c
      generalize x.F___exit__ s2 f = w at c ⊢
      rcases w with ⟨s3, r3⟩
      cases r3 <;> exact ⟨by simp only at c ⊢; omega, by simp only at c ⊢; omega⟩
    | ok str =>
      simp only
      have c := hx.write f str s2
      simp only at c
      rcases hw : x.F_write s2 f str with ⟨s3, r3⟩
      rw [hw] at c
      have d := hx.exit f s3
      simp only at c d
      cases r3 with
      | raised e =>
        simp only
        generalize x.F___exit__ s3 f = w at d ⊢
        rcases w with ⟨s4, r4⟩
        cases r4 <;> exact ⟨by simp only at d ⊢; omega, by simp only at d ⊢; omega⟩
      | ok u =>
        simp only
        generalize x.F___exit__ s3 f = w at d ⊢
        rcases w with ⟨s4, r4⟩
        cases r4 <;> exact ⟨by simp only at d ⊢; omega, by simp only at d ⊢; omega⟩

/-- `tracker_passthrough` (failure half) on the translated tracker, for ALL types and ALL externals, no assumption: a failure of
    the wrapped runner's method is passed through – same exception – and the state is exactly the state the wrapped call left:
    nothing was counted, recorded or written afterwards. -/
theorem translated_tracker_failure_passthrough {ω B C M D J O F : Type} (x : Tracker.Ext ω B C M D J O F)
    (s s1 : Tracker.State ω B J) (e : Exc) :
    (∀ c n, 0 < n → x.self_inner_backend_run_and_measure s c n = (s1, .raised e) →
        Tracker.run_and_measure x s c n = (s1, .raised e)) ∧
    (∀ cs ns, x.self_inner_backend_run_batch_and_measure s cs ns = (s1, .raised e) →
        Tracker.run_batch_and_measure x s cs ns = (s1, .raised e)) ∧
    (∀ c n, x.self_inner_backend_get_measurement_outcome_distribution s c n = (s1, .raised e) →
        Tracker.get_measurement_outcome_distribution x s c n = (s1, .raised e)) := by
  refine ⟨?_, ?_, ?_⟩
  · intro c n hn h
    have : ¬ n ≤ 0 := by omega
    simp [Tracker.run_and_measure, Tracker._run_and_measure, this, h]
  · intro cs ns h
    simp [Tracker.run_batch_and_measure, h]
  · intro c n h
    simp [Tracker.get_measurement_outcome_distribution, h]



/-- `rejected_unchanged` on the translated tracker under the frame law: a call rejected by the tracker itself (`n ≤ 0`) or by
    the wrapped runner (its method raises – that is how a tracker learns that a batch or a distribution request is invalid)
    raises and leaves the tracker's own counters unchanged.  (This is the statement that the reverted fix 9fda0c7 – counters
    bumped BEFORE the wrapped runner is asked – falsifies.) -/
theorem translated_tracker_rejected_unchanged {ω B C M D J O F : Type} (x : Tracker.Ext ω B C M D J O F)
    (hx : Tracker.Frame x) (s : Tracker.State ω B J) (call : RCall C) (h : Tracker.Rejected x s call) :
    (∃ e, (Tracker.call x s call).2 = (.raised e : RRes M D)) ∧
    (Tracker.call x s call).1._n_circuits_executed = s._n_circuits_executed ∧
    (Tracker.call x s call).1._n_jobs_executed = s._n_jobs_executed := by
  have h3 := hx.inner_dist
  have h4 := hx.inner_run
  have h5 := hx.inner_batch
  cases call with
  | run c n =>
    by_cases hn : n ≤ 0
    · simp [Tracker.call, Tracker.run_and_measure, hn, RRes.ofResult]
    · rcases h with h | ⟨e, he⟩
      · exact absurd h hn
      · have hk := h4 c n s
        simp only at hk
        rcases hq : x.self_inner_backend_run_and_measure s c n with ⟨s1, r⟩
        rw [hq] at he hk
        simp only at he; subst he
        have := (translated_tracker_failure_passthrough x s s1 e).1 c n (by omega) hq
        simp only [Tracker.call, this, RRes.ofResult]
        exact ⟨⟨e, rfl⟩, hk⟩
  | batch cs ns =>
    obtain ⟨e, he⟩ := h
    have hk := h5 cs ns s
    simp only at hk
    rcases hq : x.self_inner_backend_run_batch_and_measure s cs ns with ⟨s1, r⟩
    rw [hq] at he hk
    simp only at he; subst he
    have := (translated_tracker_failure_passthrough x s s1 e).2.1 cs ns hq
    simp only [Tracker.call, this, RRes.ofResult]
    exact ⟨⟨e, rfl⟩, hk⟩
  | dist c n =>
    obtain ⟨e, he⟩ := h
    have hk := h3 c n s
    simp only at hk
    rcases hq : x.self_inner_backend_get_measurement_outcome_distribution s c n with ⟨s1, r⟩
    rw [hq] at he hk
    simp only at he; subst he
    have := (translated_tracker_failure_passthrough x s s1 e).2.2 c n hq
    simp only [Tracker.call, this, RRes.ofResult]
    exact ⟨⟨e, rfl⟩, hk⟩



/-- `increment_exact` on the translated tracker under the frame law: +1/+1 for a successful single call, +len(circuits)/+1 for a
    successful batch call, +0/+0 for a distribution call. -/
theorem translated_tracker_increment_exact {ω B C M D J O F : Type} (x : Tracker.Ext ω B C M D J O F)
    (hx : Tracker.Frame x) (s : Tracker.State ω B J) (call : RCall C)
    (hok : ∀ e, (Tracker.call x s call).2 ≠ (.raised e : RRes M D)) :
    (Tracker.call x s call).1._n_circuits_executed = s._n_circuits_executed + call.trackerWork.1 ∧
    (Tracker.call x s call).1._n_jobs_executed = s._n_jobs_executed + call.trackerWork.2 := by
  have hrec := tracker_record_keeps x hx
  have h6 := tracker_save_keeps x hx
  have h2 := hx.repr
  have h3 := hx.inner_dist
  have h4 := hx.inner_run
  have h5 := hx.inner_batch
  have h7 := hx.to_dict
  cases call with
  | run c n =>
    simp only [Tracker.call, RCall.trackerWork] at hok ⊢
    unfold Tracker.run_and_measure Tracker._run_and_measure at hok ⊢
    by_cases hn : n ≤ 0
    · simp [hn, RRes.ofResult] at hok
    · simp only [hn, decide_false, Bool.false_eq_true, if_false] at hok ⊢
      have a := h4 c n s
      simp only at a
      generalize x.self_inner_backend_run_and_measure s c n = p at a hok ⊢
      rcases p with ⟨s1, r1⟩
      cases r1 with
      | raised e => simp [RRes.ofResult] at hok
      | ok m =>
        have b := hrec c m s1
        simp only at a b hok ⊢
        generalize Tracker.record_raw_measurement_data x s1 c m = q at b hok ⊢
        rcases q with ⟨s2, r2⟩
        cases r2 with
        | raised e => simp [RRes.ofResult] at hok
        | ok u =>
          have d := h6 s2
          simp only at b d hok ⊢
          generalize Tracker.save_raw_data x s2 = w at d hok ⊢
          rcases w with ⟨s3, r3⟩
          cases r3 with
          | raised e => simp [RRes.ofResult] at hok
          | ok u2 => simp only at d ⊢; exact ⟨by push_cast; omega, by push_cast; omega⟩
  | batch cs ns =>
    simp only [Tracker.call, RCall.trackerWork] at hok ⊢
    unfold Tracker.run_batch_and_measure at hok ⊢
    have a := h5 cs ns s
    simp only at a
    generalize x.self_inner_backend_run_batch_and_measure s cs ns = p at a hok ⊢
    rcases p with ⟨s1, r1⟩
    cases r1 with
    | raised e => simp [RRes.ofResult] at hok
    | ok ms =>
      simp only at a hok ⊢
      have b := Tracker.forEach_keeps
        (fun (st : Tracker.State ω B J) (p__ : C × M) =>
          match Tracker.record_raw_measurement_data x st p__.1 p__.2 with
          | (self, .raised e) => (self, .raised e)
          | (self, .ok _) => (self, (.ok () : Result Unit)))
        (by
          intro p st
          have := hrec p.1 p.2 st
          simp only at this ⊢
          generalize Tracker.record_raw_measurement_data x st p.1 p.2 = q at this ⊢
          rcases q with ⟨s', r⟩
          cases r <;> exact this)
        (List.zip cs ms)
        { s1 with _n_circuits_executed := s1._n_circuits_executed + ((cs.length : Nat) : Int),
                  _n_jobs_executed := s1._n_jobs_executed + 1 }
      simp only at b
      generalize forEach _ _ (List.zip cs ms) = q at b hok ⊢
      rcases q with ⟨s2, r2⟩
      cases r2 with
      | raised e => simp [RRes.ofResult] at hok
      | ok u =>
        have d := h6 s2
        simp only at b d hok ⊢
        generalize Tracker.save_raw_data x s2 = w at d hok ⊢
        rcases w with ⟨s3, r3⟩
        cases r3 with
        | raised e => simp [RRes.ofResult] at hok
        | ok u2 => simp only at d ⊢; exact ⟨by omega, by omega⟩
  | dist c n =>
    simp only [Tracker.call, RCall.trackerWork] at hok ⊢
    unfold Tracker.get_measurement_outcome_distribution at hok ⊢
    have a := h3 c n s
    simp only at a
    generalize x.self_inner_backend_get_measurement_outcome_distribution s c n = p at a hok ⊢
    rcases p with ⟨s1, r1⟩
    cases r1 with
    | raised e => simp [RRes.ofResult] at hok
    | ok dd =>
      have b := h7 c s1
      simp only at a b hok ⊢
      generalize x.fn_to_dict s1 c = q at b hok ⊢
      rcases q with ⟨s2, r2⟩
      cases r2 with
      | raised e => simp [RRes.ofResult] at hok
      | ok j =>
        have b2 := h2 dd s2
        simp only at b b2 hok ⊢
        generalize x.fn_repr s2 dd = q2 at b2 hok ⊢
        rcases q2 with ⟨s3, r3⟩
        cases r3 with
        | raised e => simp [RRes.ofResult] at hok
        | ok str =>
          simp only at b2 hok ⊢
          generalize hs4 : ({ s3 with raw_data := _ } : Tracker.State ω B J) = s4 at hok ⊢
          have e4 : s4._n_circuits_executed = s3._n_circuits_executed ∧ s4._n_jobs_executed = s3._n_jobs_executed := by
            subst hs4; exact ⟨rfl, rfl⟩
          have d := h6 s4
          generalize Tracker.save_raw_data x s4 = w at d hok ⊢
          rcases w with ⟨s5, r5⟩
          cases r5 with
          | raised e => simp [RRes.ofResult] at hok
          | ok u2 => simp only at d ⊢; exact ⟨by omega, by omega⟩


/-! ### non-vacuity and negative witnesses
`xT`: circuits are Int labels, measurements `[label, count, invocation index]`; the abstract method raises `ValueError` on a
negative label; `xBump` is the same but violates the frame law (bumps `_n_jobs_executed`). -/

/-- a stand-in for `json.dumps` on the file content: one character per record -/
def dumpsT : Dict2 Payload → List Char
  | [(_, .dicts ds)] => List.replicate ds.length 'r'
  | _ => []

def xT : Base.Ext Nat Int (List Int) (List Int) where
  self__run_and_measure := fun s c n =>
    ({ s with world := s.world + 1 }, if c < 0 then .raised .ValueError else .ok [c, n, s.world])
  M_get_distribution := fun s m => (s, .ok m.reverse)

def xBump : Base.Ext Nat Int (List Int) (List Int) :=
  { xT with self__run_and_measure := fun s c n =>
      ({ s with world := s.world + 1, _n_jobs_executed := s._n_jobs_executed + 5 }, .ok [c, n]) }

example : Base.Frame xT := ⟨fun _ _ _ => ⟨rfl, rfl⟩, fun _ _ => ⟨rfl, rfl⟩⟩
example : Base.call xT ⟨0, 0, 0⟩ (.batch [7, 8, 9] (.inl 5)) = (⟨3, 3, 3⟩, .batch [[7, 5, 0], [8, 5, 1], [9, 5, 2]]) := by decide
example : Base.call xT ⟨0, 0, 0⟩ (.batch [7, 8] (.inr [5, 1])) = (⟨2, 2, 2⟩, .batch [[7, 5, 0], [8, 1, 1]]) := by decide
-- rejected: a list with a non-positive entry, the empty batch with the scalar 0 (fixed in /repo 8d91e2e), a wrong length
example : Base.call xT ⟨4, 4, 9⟩ (.batch [7, 8] (.inr [5, 0])) = (⟨4, 4, 9⟩, .raised .ValueError) := by decide
example : (RCall.batch ([] : List Int) (.inl 0)).badArgs ∧
    Base.call xT ⟨4, 4, 9⟩ (.batch [] (.inl 0)) = (⟨4, 4, 9⟩, .raised .ValueError) := ⟨by simp [RCall.badArgs], by decide⟩
example : Base.call xT ⟨4, 4, 9⟩ (.batch [7] (.inr [])) = (⟨4, 4, 9⟩, .raised .ValueError) := by decide
example : Base.call xT ⟨4, 4, 9⟩ (.batch [] (.inr [])) = (⟨4, 4, 9⟩, .batch []) := by decide
-- a batch failing at its second circuit keeps what ran before it: counters 1/1, two invocations made
example : Base.call xT ⟨0, 0, 0⟩ (.batch [7, -1, 9] (.inl 2)) = (⟨1, 1, 2⟩, .raised .ValueError) := by decide
example : Base.call xT ⟨0, 0, 0⟩ (.dist 7 (some 3)) = (⟨1, 1, 1⟩, .distr [0, 3, 7]) := by decide
example : Base.call xT ⟨0, 0, 0⟩ (.dist 7 none) = (⟨0, 0, 0⟩, .raised .ValueError) := by decide
-- NEGATIVE WITNESS: without the frame law `increment_exact` fails on the translated code (the external bumped the job counter)
example : ¬ Base.Frame xBump := fun h => absurd (h.1 ⟨0, 0, 0⟩ 0 1).2 (by decide)
example : (Base.call xBump ⟨0, 0, 0⟩ (.run 7 1) : Base.State Nat × RRes (List Int) (List Int)) = (⟨1, 6, 1⟩, .meas [7, 1]) := by decide
-- the model instance: a batch failing at its second circuit (the example of Props/C14.lean, on the translated code)
example : Base.call (baseExt exT) (concBase ⟨.base, ⟨0, 0⟩, 0⟩) (rcall (.batch [cH, cSym, cMP] (.one 2)))
    = (⟨1, 1, 2⟩, .raised .ValueError) := by decide
-- tracker around a base runner: a rejected batch changes nothing (own counters 3/2 stay, wrapped runner untouched) …
set_option synthInstance.maxSize 512 in
example : (Tracker.call (trackerExt exT ['H'] (fun _ => []) dumpsT) (concT ['H'] ['f'] (fun _ => []) dumpsT (some true)
      (.tracker base0 true ⟨3, 2⟩ [] [])) (rcall (.batch [cH, cMP] (.many [3, 0]))))
    = (concT ['H'] ['f'] (fun _ => []) dumpsT (some true) (.tracker base0 true ⟨3, 2⟩ [] []), .raised .ValueError) := by decide
-- … an accepted one counts len/1, and the file holds one dict per circuit
example : (Tracker.call (trackerExt exT ['H'] (fun _ => []) dumpsT) (concT ['H'] ['f'] (fun _ => []) dumpsT none
      (.tracker base0 false ⟨3, 2⟩ [] [])) (rcall (.batch [cH, cMP] (.many [1, 1])))).1._n_circuits_executed = 5 := by decide
example : ((Tracker.call (trackerExt exT ['H'] (fun _ => []) dumpsT) (concT ['H'] ['f'] (fun _ => []) dumpsT none
      (.tracker base0 false ⟨3, 2⟩ [] [])) (rcall (.batch [cH, cMP] (.many [1, 1])))).1.world.2.length,
    (Tracker.call (trackerExt exT ['H'] (fun _ => []) dumpsT) (concT ['H'] ['f'] (fun _ => []) dumpsT none
      (.tracker base0 false ⟨3, 2⟩ [] [])) (rcall (.batch [cH, cMP] (.many [1, 1])))).1._n_jobs_executed) = (2, 3) := by decide
-- the simulator on gate / non-gate / gate / non-gate / non-gate: 4 segments = 4 jobs, 2 of them native = 2 circuits
-- (default native set); everything native: one segment (the examples of Props/C14.lean, on the translated code)
example : (Sim.call (simExt exT false) (concSim ⟨.sim false, ⟨0, 0⟩, 0⟩ none cH) (rcall (.run cMP 4))).1
    = concSim ⟨.sim false, ⟨2, 4⟩, 1⟩ none cMP := by decide
example : (Sim.call (simExt exT true) (concSim ⟨.sim true, ⟨0, 0⟩, 0⟩ (some 7) cH) (rcall (.run cMP 4))).1
    = concSim ⟨.sim true, ⟨1, 1⟩, 1⟩ (some 7) cMP := by decide
-- a circuit with free symbols: rejected by a single run without counting; the exact distribution counts, then fails
example : Sim.call (simExt exT true) (concSim ⟨.sim true, ⟨0, 0⟩, 0⟩ none cH) (rcall (.run cSym 2))
    = (concSim ⟨.sim true, ⟨0, 0⟩, 0⟩ none cH, .raised .ValueError) := by decide
example : Sim.call (simExt exT true) (concSim ⟨.sim true, ⟨0, 0⟩, 0⟩ none cH) (rcall (.dist cSym none))
    = (concSim ⟨.sim true, ⟨1, 1⟩, 0⟩ none cSym, .raised .TypeError) := by decide

end OQ.C14
