/- C03 — PROPERTY THEOREMS (translation ties): the CLASSES `PauliTerm` / `PauliSum` of `operators/_pauli_operators.py`.
   `OQ.Generated.TranslatedPauli.*` is REGENERATED from /repo's current source on every run (harness/translate_t7.py →
   OQ/Generated/TranslatedC03.lean): one Lean definition per method and per KIND of its polymorphic argument (number / term / sum / the
   union), objects as values (`PTerm R` = the attributes `__init__` assigns, `PSum R` = `terms`), every `raise` as `Except.error`,
   the module constants OPERATOR_MAP / COEFF_MAP / ALLOWED_OPERATORS with their CURRENT values.
   Externals (record `Ext R`): `np.isclose`, `np.allclose`, true division of numbers, `==` of two numbers, the iteration order of a
   `set` of ints.
   The theorems below state, for ALL model terms / sums / coefficients over any commutative ring, that the regenerated definition run on
   the object state of a model value (`ofTerm`, `ofSum`: same dict order, letters as strs) never raises and returns the object state of
   what the hand-written model `OQ/Model/C03.lean` computes – with the model's parameters read off the externals
   (`negl c := x.isclose c 0`, `recip y := x.truediv 1 y`, iteration order `x.set_iter (keys u.ops)`).
   DOMAIN: object states whose `_ops` is a dict (distinct keys: `OpsWF`) without "I" values – what `PauliTerm.__init__` establishes;
   qubit indices are typed ℕ (the guard `qubit_idx >= 0` of `__init__` is constantly true there); operand kinds other than
   number / term / sum (TypeError of `_validate_type`) and non-int exponents are outside the translation. -/
import OQ.Props.C03
import OQ.Lemmas.C03_TranslatedPauli
namespace OQ.C03
open OQ.Pauli OQ.Py OQ.Generated Matrix

set_option linter.unusedSectionVars false
set_option linter.unusedSimpArgs false
set_option linter.unusedVariables false

variable {R : Type} [CommRing R]

/-- TRANSLATION TIE `PauliTerm.__init__(dict, coefficient)`: on the dict of a model term (distinct keys, no "I") nothing is
    raised and the object holds exactly that dict and coefficient; a missing coefficient is 1. -/
theorem translated_term_init_eq (k : Scal R) (x : TranslatedPauli.Ext R) (ops : List (Nat × P)) (c : Option R) (w : OpsWF ops) :
    TranslatedPauli.term_init k x (up ops) c = .ok (ofTerm ⟨ops, c.getD 1⟩) := by
  cases c with
  | some c => exact term_init_up k x ops c w
  | none =>
    have := term_init_up k x ops 1 w
    unfold TranslatedPauli.term_init at this ⊢
    exact this

/-- `__init__` drops "I" entries and rejects nothing else on ℕ keys: `PauliTerm({0: "I"}, c)` is the constant term. -/
example : TranslatedPauli.term_init (R := Int) ⟨0, 0, 0, 0, id⟩ ⟨fun _ _ => false, fun _ _ => false, fun _ _ => none, fun a b => a == b, id⟩
    [(0, none), (2, some P.X)] (some 5) = .ok ⟨[(2, some P.X)], 5⟩ := rfl

/-- TRANSLATION TIE `PauliTerm("I0", c)` (the str literal constant-folded through the CURRENT parser) and `PauliTerm.identity()`:
    the model's `constTerm c` / `identityTerm`. -/
theorem translated_term_init_lit_I0_eq (k : Scal R) (x : TranslatedPauli.Ext R) (c : R) :
    TranslatedPauli.term_init_lit_I0 k x (some c) = .ok (ofTerm (constTerm c)) ∧
    TranslatedPauli.term_identity k x = .ok (ofTerm (identityTerm (R := R))) := by
  constructor
  · rfl
  · rfl

/-- TRANSLATION TIE `PauliTerm._multiply_by_operator(op, index)` = the model's `mulByOp` (all three cases: new qubit, equal letters
    cancel, OPERATOR_MAP / COEFF_MAP lookup), for every term whose `_ops` is a dict and every letter X / Y / Z; nothing is raised. -/
theorem translated_multiply_by_operator_eq (k : Scal R) (x : TranslatedPauli.Ext R) (t : Term R) (op : P) (idx : Nat)
    (wt : OpsWF t.ops) :
    TranslatedPauli.term_multiply_by_operator k x (ofTerm t) (some op) idx = .ok (ofTerm (mulByOp k t op idx)) := by
  have hw := mulByOp_wf k t op idx wt
  unfold TranslatedPauli.term_multiply_by_operator
  unfold mulByOp at hw ⊢
  simp only [ofTerm_ops, ofTerm_coeff, dictHas_up, dictGetE_up, TranslatedPauli.term_getitem, dictGetD_up]
  cases hl : lookup t.ops idx with
  | none =>
    simp only [hl] at hw
    simp only [Option.isSome_none, Bool.not_false, if_true]
    rw [dictSet_up_new _ _ _ hl]
    exact term_init_up k x _ _ hw
  | some a =>
    simp only [hl] at hw
    simp only [Option.isSome_some, Bool.not_true, Bool.false_eq_true, if_false, bind_ok]
    by_cases ha : a = op
    · subst ha
      simp only [if_true] at hw
      simp only [beq_self_eq_true, if_true]
      rw [dictDelE_up _ _ (by rw [hl]; rfl)]
      simp only [bind_ok]
      exact term_init_up k x _ _ hw
    · have hne : ((some a : TranslatedPauli.Letter) == some op) = false := by simp [ha]
      simp only [ha, if_false] at hw
      simp only [hne, ha, if_false, Bool.false_eq_true]
      have hc : [(some P.X : TranslatedPauli.Letter), some P.Y, some P.Z].contains (some op) = true := by cases op <;> rfl
      simp only [hc, if_true]
      rw [opmap_lookup a op ha]
      simp only [bind_ok]
      rw [coeffmap_lookup k a op ha]
      simp only [bind_ok]
      rw [dictSet_up_old _ _ _ wt, hl]
      simp only [Option.isSome_some, if_true]
      exact term_init_up k x _ _ hw

/-- the "I" letter: on an unused qubit `_multiply_by_operator("I", i)` returns the term itself (`__init__` drops the entry), on a used
    one it raises ValueError unless the stored letter is... never: a stored letter is never "I" -/
example : TranslatedPauli.term_multiply_by_operator (R := Int) ⟨0, 0, 0, 0, id⟩ ⟨fun _ _ => false, fun _ _ => false, fun _ _ => none, fun a b => a == b, id⟩
    ⟨[(1, some P.Z)], 3⟩ none 1 = .error .value := rfl
example : TranslatedPauli.term_multiply_by_operator (R := Int) ⟨0, 0, 0, 0, id⟩ ⟨fun _ _ => false, fun _ _ => false, fun _ _ => none, fun a b => a == b, id⟩
    ⟨[(1, some P.Z)], 3⟩ (some P.Z) 1 = .ok ⟨[], 3⟩ := rfl

/-- the loop of `PauliTerm.__mul__` never raises and is the model's fold -/
theorem translated_mul_loop (k : Scal R) (x : TranslatedPauli.Ext R) (u : Term R) (order : List Nat) (r : Term R) (wr : OpsWF r.ops) :
    foldlE (fun (st : TranslatedPauli.PTerm R) (p0 : TranslatedPauli.Letter × Nat) =>
        if (!(p0.1 == (none : TranslatedPauli.Letter))) then
          Except.bind (TranslatedPauli.term_multiply_by_operator k x st p0.1 p0.2) (fun t => Except.ok t)
        else Except.ok st) (ofTerm r) (order.map (fun i => (lookup u.ops i, i)))
      = .ok (ofTerm (order.foldl (mulStep k u) r)) ∧ OpsWF (order.foldl (mulStep k u) r).ops := by
  induction order generalizing r with
  | nil => exact ⟨rfl, wr⟩
  | cons q ks ih =>
    simp only [List.map_cons, foldlE, List.foldl_cons]
    have hstep : OpsWF (mulStep k u r q).ops := by
      unfold mulStep
      cases lookup u.ops q with
      | none => exact wr
      | some op => exact mulByOp_wf k r op q wr
    have : (if (!(lookup u.ops q == (none : TranslatedPauli.Letter))) then
          Except.bind (TranslatedPauli.term_multiply_by_operator k x (ofTerm r) (lookup u.ops q) q) (fun t => Except.ok t)
        else Except.ok (ofTerm r)) = .ok (ofTerm (mulStep k u r q)) := by
      unfold mulStep
      cases hl : lookup u.ops q with
      | none => rfl
      | some op =>
        have : ((some op : TranslatedPauli.Letter) == none) = false := rfl
        simp only [this, Bool.not_false, if_true]
        rw [translated_multiply_by_operator_eq k x r op q wr]
        rfl
    rw [this]
    simp only [bind_ok]
    exact ih _ hstep

/-- TRANSLATION TIE `PauliTerm.__mul__(PauliTerm)` = the model's `mulTermOrd` with the iteration order CPython uses for the set of the
    right factor's qubits (`x.set_iter` applied to the distinct keys in dict order – ANY function: no law is needed for the tie);
    nothing is raised.  Left factor: any term whose `_ops` is a dict. -/
theorem translated_term_mul_term_eq (k : Scal R) (x : TranslatedPauli.Ext R) (t u : Term R) (wt : OpsWF t.ops) :
    TranslatedPauli.term_mul_term k x (ofTerm t) (ofTerm u) = .ok (ofTerm (mulTermOrd k (x.set_iter (keys u.ops)) t u)) := by
  unfold TranslatedPauli.term_mul_term
  rw [term_copy_some k x t 1 wt]
  simp only [bind_ok]
  have hit : TranslatedPauli.term_iter k x (ofTerm u) = (x.set_iter (keys u.ops)).map (fun i => (lookup u.ops i, i)) := by
    unfold TranslatedPauli.term_iter TranslatedPauli.term_qubits TranslatedPauli.term_getitem
    simp only [ofTerm_ops, setOfList_keys, dictGetD_up]
  rw [hit]
  obtain ⟨h1, h2⟩ := translated_mul_loop k x u (x.set_iter (keys u.ops)) ⟨t.ops, 1⟩ wt
  rw [mulTermOrd_eq]
  -- the generated loop body is the one of `translated_mul_loop` (let-bindings unfolded)
  show Except.bind (foldlE _ _ _) _ = _
  erw [h1]
  simp only [bind_ok, ofTerm_coeff]
  exact term_copy_some k x _ _ h2

/-- TRANSLATION TIE `PauliTerm.__mul__(number)`, `__rmul__`, `__truediv__` = the model's `scaleTerm` (`1.0 / other` through the
    external division: ZeroDivisionError exactly when it is undefined).  The `__truediv__` clause assumes `ZeroDivLaw x`
    (Lemmas/C03_TranslatedPauli.lean: what `==` calls equal to 0 has no quotient `1.0 / c`): the zero guard
    `if isinstance(other, Number) and other == 0: raise ZeroDivisionError` of the repaired source then raises nothing new; the same
    statement is proved of the source without the guard (the hypothesis is unused there). -/
theorem translated_term_mul_num_eq (k : Scal R) (x : TranslatedPauli.Ext R) (t : Term R) (c : R) (wt : OpsWF t.ops) :
    TranslatedPauli.term_mul_num k x (ofTerm t) c = .ok (ofTerm (scaleTerm t c)) ∧
    TranslatedPauli.term_rmul_num k x (ofTerm t) c = .ok (ofTerm (scaleTerm t c)) ∧
    (ZeroDivLaw x → TranslatedPauli.term_truediv_num k x (ofTerm t) c =
      (match recipOf x c with | some r => .ok (ofTerm (scaleTerm t r)) | none => .error .zeroDiv)) := by
  have h1 : ∀ c, TranslatedPauli.term_mul_num k x (ofTerm t) c = .ok (ofTerm (scaleTerm t c)) := by
    intro c
    unfold TranslatedPauli.term_mul_num
    exact term_copy_some k x t _ wt
  refine ⟨h1 c, ?_, ?_⟩
  · unfold TranslatedPauli.term_rmul_num
    rw [h1]; rfl
  · intro hz
    -- the quotient part (all of the unguarded source, the `else` branch of the guarded one)
    have hq : Except.bind (OQ.Py.ofOption OQ.Py.Exc4.zeroDiv (x.truediv (1 : R) c)) (fun (r : R) =>
          Except.bind (TranslatedPauli.term_mul_num k x (ofTerm t) r) (fun (u : TranslatedPauli.PTerm R) => Except.ok u)) =
        (match x.truediv 1 c with | some r => .ok (ofTerm (scaleTerm t r)) | none => .error .zeroDiv) := by
      cases x.truediv 1 c with
      | none => rfl
      | some r =>
        simp only [ofOption, bind_ok]
        rw [h1]; rfl
    unfold TranslatedPauli.term_truediv_num recipOf
    first
      | exact hq
      | (cases hg : x.num_eq c (0 : R) with
         | false => simpa only [hg, Bool.and_false, Bool.false_eq_true, if_false] using hq
         | true => simp only [hg, Bool.and_true, if_true, hz c hg])

/-- the model's term product with the iteration order the translated code uses -/
def mulTermX (k : Scal R) (x : TranslatedPauli.Ext R) (t u : Term R) : Term R := mulTermOrd k (x.set_iter (keys u.ops)) t u

theorem effExp_zero {α : Type} (mul : α → α → α) (one x : α) : effExp mul one x 0 = one := by
  rw [effExp]; simp

theorem effExp_odd {α : Type} (mul : α → α → α) (one x : α) (p : Nat) (h : p % 2 = 1) :
    effExp mul one x p = mul x (effExp mul one x (p - 1)) := by
  rw [effExp]
  have h0 : p ≠ 0 := by omega
  simp [h0, h]

theorem effExp_even {α : Type} (mul : α → α → α) (one x : α) (p : Nat) (h0 : p ≠ 0) (h : ¬ p % 2 = 1) :
    effExp mul one x p = mul (effExp mul one x (p / 2)) (effExp mul one x (p / 2)) := by
  rw [effExp]
  simp [h0, h]

/-- TRANSLATION TIE `_efficient_exponentiation(PauliTerm, power)` (recursion on the int exponent, rendered with explicit fuel;
    exhaustion = RecursionError): for every exponent `p ≥ 0` ANY fuel `≥ p + 1` is sufficient, nothing is raised, and the result is
    the model's square-and-multiply `effExp` over the term product. -/
theorem translated_efficient_exponentiation_term_fuel (k : Scal R) (x : TranslatedPauli.Ext R) (t : Term R) (wt : OpsWF t.ops)
    (p : Nat) : ∀ fuel : Nat, p + 1 ≤ fuel →
    TranslatedPauli.efficient_exponentiation_term_fuel k x fuel (ofTerm t) (p : Int)
      = .ok (ofTerm (effExp (mulTermX k x) identityTerm t p)) ∧ OpsWF (effExp (mulTermX k x) identityTerm t p).ops := by
  induction p using Nat.strong_induction_on with
  | _ p ih =>
    intro fuel hf
    obtain ⟨f, rfl⟩ : ∃ f, fuel = f + 1 := ⟨fuel - 1, by omega⟩
    unfold TranslatedPauli.efficient_exponentiation_term_fuel
    by_cases h0 : p = 0
    · subst h0
      rw [effExp_zero]
      exact ⟨rfl, constTerm_wf 1⟩
    · have hne : ((p : Int) == 0) = false := by simp [h0]
      simp only [hne, Bool.false_eq_true, if_false]
      have hm : Int.fmod (p : Int) 2 = ((p % 2 : Nat) : Int) := by
        rw [Int.fmod_eq_emod_of_nonneg _ (by decide)]; norm_cast
      by_cases h1 : p % 2 = 1
      · have hb : (Int.fmod (p : Int) 2 == 1) = true := by rw [hm, h1]; rfl
        simp only [hb, if_true]
        have hsub : (p : Int) - 1 = ((p - 1 : Nat) : Int) := by omega
        rw [hsub]
        obtain ⟨e1, w1⟩ := ih (p - 1) (by omega) f (by omega)
        rw [e1]
        simp only [bind_ok]
        rw [translated_term_mul_term_eq k x t _ wt, effExp_odd _ _ _ p h1]
        exact ⟨rfl, mulTermOrd_wf k _ t _ wt⟩
      · have hb : (Int.fmod (p : Int) 2 == 1) = false := by
          rw [hm]
          have : p % 2 = 0 := by omega
          rw [this]; rfl
        simp only [hb, Bool.false_eq_true, if_false]
        have hdiv : Int.fdiv (p : Int) 2 = ((p / 2 : Nat) : Int) := by
          rw [Int.fdiv_eq_ediv_of_nonneg _ (by decide)]; norm_cast
        rw [hdiv]
        obtain ⟨e1, w1⟩ := ih (p / 2) (by omega) f (by omega)
        rw [e1]
        simp only [bind_ok]
        rw [translated_term_mul_term_eq k x _ _ w1, effExp_even _ _ _ p h0 h1]
        exact ⟨rfl, mulTermOrd_wf k _ _ _ w1⟩

/-- TRANSLATION TIE `PauliTerm.__pow__(power)` for every int: ValueError for a negative exponent, otherwise the model's `powV`-shape
    result `effExp` (the declared fuel `power + 1` is sufficient: no RecursionError for any exponent). -/
theorem translated_term_pow_eq (k : Scal R) (x : TranslatedPauli.Ext R) (t : Term R) (wt : OpsWF t.ops) (p : Int) :
    TranslatedPauli.term_pow k x (ofTerm t) p =
      if p < 0 then .error .value else .ok (ofTerm (effExp (mulTermX k x) identityTerm t p.toNat)) := by
  unfold TranslatedPauli.term_pow
  by_cases hp : p < 0
  · simp [hp]
  · simp only [hp, decide_false, Bool.not_true, Bool.or_self, Bool.false_eq_true, if_false]
    rw [term_copy_none k x t wt]
    simp only [bind_ok]
    unfold TranslatedPauli.efficient_exponentiation_term
    have hpn : p = ((p.toNat : Nat) : Int) := by omega
    conv_lhs => rw [hpn]
    rw [Int.toNat_natCast]
    exact (translated_efficient_exponentiation_term_fuel k x t wt p.toNat (p.toNat + 1) (le_refl _)).1

/-- with the dict order as iteration order (`set_iter = id`, what the model driver runs) the translated power IS the model's `powV` -/
theorem translated_term_pow_powV (k : Scal R) (x : TranslatedPauli.Ext R) (hid : ∀ l, x.set_iter l = l) (t : Term R)
    (wt : OpsWF t.ops) (p : Int) :
    (TranslatedPauli.term_pow k x (ofTerm t) p).map TranslatedPauli.PVal.term
      = (match powV k (neglOf x) (.term t) p with | .ok v => .ok (ofVal v) | .error _ => .error .value) := by
  rw [translated_term_pow_eq k x t wt p]
  have : mulTermX k x = mulTerm k := by
    funext a b; simp [mulTermX, mulTerm, hid]
  rw [this]
  unfold powV
  by_cases hp : p < 0 <;> simp [hp, Except.map, ofVal]

/-! ## END-TO-END: the property theorems of `Props/C03.lean` restated ON THE TRANSLATED CODE -/

/-- the law of the external `set_iter` used by the end-to-end theorems: CPython yields every element of a set exactly once -/
def SetIterLaw (x : TranslatedPauli.Ext R) : Prop := ∀ l : List Nat, l.Nodup → (x.set_iter l).Nodup ∧ ∀ q, q ∈ l → q ∈ x.set_iter l

/-- END-TO-END (`denote_multiply_by_operator` on the translated `_multiply_by_operator`): the object the regenerated method returns
    denotes the matrix product with the single-letter operator. -/
theorem translated_multiply_by_operator_denote (k : Scal R) (x : TranslatedPauli.Ext R) (hi : k.i * k.i = -1) (n : Nat) (t : Term R)
    (op : P) (idx : Nat) (hidx : idx < n) (wt : OpsWF t.ops) :
    ∃ r : Term R, TranslatedPauli.term_multiply_by_operator k x (ofTerm t) (some op) idx = .ok (ofTerm r) ∧
      MT k n r = MT k n t * MT k n ⟨[(idx, op)], 1⟩ :=
  ⟨_, translated_multiply_by_operator_eq k x t op idx wt, denote_multiply_by_operator k hi n t op idx hidx⟩

/-- END-TO-END (`denote_mul_term` on the translated `PauliTerm.__mul__`): for every order in which CPython may iterate the set of
    the right factor's qubits, the regenerated method returns (never raises) an object that denotes the matrix product. -/
theorem translated_term_mul_term_denote (k : Scal R) (x : TranslatedPauli.Ext R) (hset : SetIterLaw x) (hi : k.i * k.i = -1) (n : Nat)
    (t u : Term R) (hu : TermFits n u) (wt : OpsWF t.ops) :
    ∃ r : Term R, TranslatedPauli.term_mul_term k x (ofTerm t) (ofTerm u) = .ok (ofTerm r) ∧ MT k n r = MT k n t * MT k n u := by
  refine ⟨_, translated_term_mul_term_eq k x t u wt, ?_⟩
  obtain ⟨hnd, hmem⟩ := hset (keys u.ops) (keys_spec u.ops).1
  apply denote_mul_term k hi n t u _ hu hnd
  intro q hq
  apply hmem
  rw [(keys_spec u.ops).2]
  unfold Term.opAt at hq
  cases hf : List.find? (fun p => p.1 == q) u.ops with
  | none => rw [hf] at hq; cases hq
  | some p =>
    exact ⟨p, List.mem_of_find?_eq_some hf, by simpa using List.find?_some hf⟩

/-! ## sums -/

/-- every term of the sum has a dict as `_ops` -/
def SumWF (s : PSum R) : Prop := ∀ t ∈ s, OpsWF t.ops

/-- TRANSLATION TIE `PauliSum.simplify()` = the model's `simplify` with `negl c := np.isclose(c, 0.0)`: the OrderedDict grouping by
    `operations` (frozenset equality = `opsEq`), the single-term branch, the summed branch and the cut-off; neither `term_list[0]`
    (IndexError) nor the constructors ever raise.  For every sum whose terms' `_ops` are dicts. -/
theorem translated_simplify_eq (k : Scal R) (x : TranslatedPauli.Ext R) (s : PSum R) (hs : SumWF s) :
    TranslatedPauli.sum_simplify k x (ofSum s) = .ok (ofSum (simplify (neglOf x) s)) := by
  have e : TranslatedPauli.sum_simplify k x (ofSum s) = Except.bind (foldlE (likeStep k x) (ofGroups []) (ofSum s)) (fun st =>
      Except.bind (foldlE (emitStep k x) [] (dictValues st)) (fun st2 => TranslatedPauli.sum_init k x st2)) := rfl
  rw [e, likeLoop_eq]
  simp only [bind_ok]
  rw [emitLoop_eq k x _ (likeTerms_wf s hs [] (by intro g hg; cases hg))]
  simp only [bind_ok, List.nil_append]
  rw [sum_init_ok]
  rfl

/-- non-vacuity: `2·Z0 + 3·Z0 + 0·X1` simplifies to `5·Z0` (isclose := equality with the second argument on ℤ) -/
example : TranslatedPauli.sum_simplify (R := Int) ⟨0, 0, 0, 0, id⟩ ⟨fun a b => a == b, fun a b => a == b, fun _ _ => none, fun a b => a == b, id⟩
    [⟨[(0, some P.Z)], 2⟩, ⟨[(0, some P.Z)], 3⟩, ⟨[(1, some P.X)], 0⟩] = .ok [⟨[(0, some P.Z)], 5⟩] := rfl

theorem mapE_map {α β γ : Type} (f : β → Except Exc4 γ) (h : α → β) (l : List α) : mapE f (l.map h) = mapE (fun a => f (h a)) l := by
  induction l with
  | nil => rfl
  | cons a l ih => simp only [List.map_cons, mapE, ih]

/-- the model's list of term products / product of sums with the iteration order the translated code uses -/
def productTermsX (k : Scal R) (x : TranslatedPauli.Ext R) (s1 s2 : PSum R) : PSum R :=
  s1.flatMap (fun l => s2.map (fun r => mulTermX k x l r))
def mulSX (k : Scal R) (x : TranslatedPauli.Ext R) (s1 s2 : PSum R) : PSum R := simplify (neglOf x) (productTermsX k x s1 s2)

theorem productTermsX_wf (k : Scal R) (x : TranslatedPauli.Ext R) (s1 s2 : PSum R) (h1 : SumWF s1) : SumWF (productTermsX k x s1 s2) := by
  intro t ht
  simp only [productTermsX, List.mem_flatMap, List.mem_map] at ht
  obtain ⟨l, hl, r, _, rfl⟩ := ht
  exact mulTermOrd_wf k _ l r (h1 l hl)

theorem mulSX_wf (k : Scal R) (x : TranslatedPauli.Ext R) (s1 s2 : PSum R) (h1 : SumWF s1) : SumWF (mulSX k x s1 s2) :=
  simplify_wf _ _ (productTermsX_wf k x s1 s2 h1)

/-- TRANSLATION TIE `PauliSum.__mul__(PauliSum)` = cartesian product of the term lists (`itertools.product`), term products, then
    `simplify` – the model's `mulS` with the translated code's iteration order; nothing is raised. -/
theorem translated_sum_mul_sum_eq (k : Scal R) (x : TranslatedPauli.Ext R) (s1 s2 : PSum R) (h1 : SumWF s1) :
    TranslatedPauli.sum_mul_sum k x (ofSum s1) (ofSum s2) = .ok (ofSum (mulSX k x s1 s2)) := by
  unfold TranslatedPauli.sum_mul_sum
  have hp : (ofSum s1).flatMap (fun (pa : TranslatedPauli.PTerm R) => (ofSum s2).map (fun (pb : TranslatedPauli.PTerm R) => (pa, pb)))
      = (s1.flatMap (fun a => s2.map (fun b => (a, b)))).map (fun p => (ofTerm p.1, ofTerm p.2)) := by
    simp only [ofSum, List.flatMap_map, List.map_flatMap, List.map_map, Function.comp_def]
  simp only [hp]
  rw [mapE_map, mapE_ok_on _ (fun p => ofTerm (mulTermX k x p.1 p.2))]
  · simp only [bind_ok]
    rw [sum_init_ok]
    simp only [bind_ok]
    have hl : (s1.flatMap (fun a => s2.map (fun b => (a, b)))).map (fun p => ofTerm (mulTermX k x p.1 p.2))
        = ofSum (productTermsX k x s1 s2) := by
      simp only [ofSum, productTermsX, List.map_flatMap, List.map_map, Function.comp_def]
    rw [hl]
    exact translated_simplify_eq k x _ (productTermsX_wf k x s1 s2 h1)
  · intro p hp'
    simp only [List.mem_flatMap, List.mem_map] at hp'
    obtain ⟨a, ha, b, _, rfl⟩ := hp'
    exact translated_term_mul_term_eq k x a b (h1 a ha)

/-- with the dict order as iteration order the translated product of sums IS the model's `mulS` -/
theorem mulSX_eq_mulS (k : Scal R) (x : TranslatedPauli.Ext R) (hid : ∀ l, x.set_iter l = l) (s1 s2 : PSum R) :
    mulSX k x s1 s2 = mulS k (neglOf x) s1 s2 := by
  have : mulTermX k x = mulTerm k := by
    funext a b; simp [mulTermX, mulTerm, hid]
  simp only [mulSX, mulS, productTermsX, productTerms, this]

/-- TRANSLATION TIE `PauliSum.__add__(PauliSum)` = the model's `addS` (copies of all terms, then `simplify`). -/
theorem translated_sum_add_sum_eq (k : Scal R) (x : TranslatedPauli.Ext R) (s1 s2 : PSum R) (h1 : SumWF s1) (h2 : SumWF s2) :
    TranslatedPauli.sum_add_sum k x (ofSum s1) (ofSum s2) = .ok (ofSum (addS (neglOf x) s1 s2)) := by
  unfold TranslatedPauli.sum_add_sum
  have hw : SumWF (s1 ++ s2) := by
    intro t ht
    rcases List.mem_append.mp ht with h | h
    · exact h1 t h
    · exact h2 t h
  have hl : ofSum s1 ++ ofSum s2 = (s1 ++ s2).map ofTerm := by simp [ofSum]
  rw [hl, mapE_map, mapE_ok_on _ ofTerm]
  · simp only [bind_ok]
    rw [sum_init_ok]
    simp only [bind_ok]
    exact translated_simplify_eq k x _ hw
  · intro t ht
    exact term_copy_none k x t (hw t ht)

/-- TRANSLATION TIE `PauliSum.__rmul__(number)` = the model's `rmulS`. -/
theorem translated_sum_rmul_num_eq (k : Scal R) (x : TranslatedPauli.Ext R) (s : PSum R) (c : R) (hs : SumWF s) :
    TranslatedPauli.sum_rmul_num k x (ofSum s) c = .ok (ofSum (rmulS (neglOf x) s c)) := by
  unfold TranslatedPauli.sum_rmul_num
  show Except.bind (mapE _ (s.map ofTerm)) _ = _
  rw [mapE_map, mapE_ok_on _ (fun t => ofTerm (scaleTerm t c))]
  · simp only [bind_ok]
    rw [sum_init_ok]
    simp only [bind_ok]
    have : s.map (fun t => ofTerm (scaleTerm t c)) = ofSum (s.map (fun t => scaleTerm t c)) := by simp [ofSum]
    rw [this]
    exact translated_simplify_eq k x _ (by
      intro t ht
      obtain ⟨t', ht', rfl⟩ := List.mem_map.mp ht
      exact hs t' ht')
  · intro t ht
    rw [term_copy_none k x t (hs t ht)]
    simp only [bind_ok]
    exact (translated_term_mul_num_eq k x t c (hs t ht)).1

/-- TRANSLATION TIE `_efficient_exponentiation(PauliSum, power)`: any fuel `≥ p + 1` is sufficient; square-and-multiply over the
    product of sums, starting from `PauliSum.identity()`. -/
theorem translated_efficient_exponentiation_sum_fuel (k : Scal R) (x : TranslatedPauli.Ext R) (s : PSum R) (ws : SumWF s)
    (p : Nat) : ∀ fuel : Nat, p + 1 ≤ fuel →
    TranslatedPauli.efficient_exponentiation_sum_fuel k x fuel (ofSum s) (p : Int)
      = .ok (ofSum (effExp (mulSX k x) [identityTerm] s p)) ∧ SumWF (effExp (mulSX k x) [identityTerm] s p) := by
  induction p using Nat.strong_induction_on with
  | _ p ih =>
    intro fuel hf
    obtain ⟨f, rfl⟩ : ∃ f, fuel = f + 1 := ⟨fuel - 1, by omega⟩
    unfold TranslatedPauli.efficient_exponentiation_sum_fuel
    by_cases h0 : p = 0
    · subst h0
      rw [effExp_zero]
      refine ⟨rfl, ?_⟩
      intro t ht
      simp only [List.mem_singleton] at ht
      subst ht
      exact constTerm_wf 1
    · have hne : ((p : Int) == 0) = false := by simp [h0]
      simp only [hne, Bool.false_eq_true, if_false]
      have hm : Int.fmod (p : Int) 2 = ((p % 2 : Nat) : Int) := by
        rw [Int.fmod_eq_emod_of_nonneg _ (by decide)]; norm_cast
      by_cases h1 : p % 2 = 1
      · have hb : (Int.fmod (p : Int) 2 == 1) = true := by rw [hm, h1]; rfl
        simp only [hb, if_true]
        have hsub : (p : Int) - 1 = ((p - 1 : Nat) : Int) := by omega
        rw [hsub]
        obtain ⟨e1, w1⟩ := ih (p - 1) (by omega) f (by omega)
        rw [e1]
        simp only [bind_ok]
        rw [translated_sum_mul_sum_eq k x s _ ws, effExp_odd _ _ _ p h1]
        exact ⟨rfl, mulSX_wf k x s _ ws⟩
      · have hb : (Int.fmod (p : Int) 2 == 1) = false := by
          rw [hm]
          have : p % 2 = 0 := by omega
          rw [this]; rfl
        simp only [hb, Bool.false_eq_true, if_false]
        have hdiv : Int.fdiv (p : Int) 2 = ((p / 2 : Nat) : Int) := by
          rw [Int.fdiv_eq_ediv_of_nonneg _ (by decide)]; norm_cast
        rw [hdiv]
        obtain ⟨e1, w1⟩ := ih (p / 2) (by omega) f (by omega)
        rw [e1]
        simp only [bind_ok]
        rw [translated_sum_mul_sum_eq k x _ _ w1, effExp_even _ _ _ p h0 h1]
        exact ⟨rfl, mulSX_wf k x _ _ w1⟩

/-- TRANSLATION TIE `PauliSum.__pow__(power)` for every int: ValueError for a negative exponent, otherwise `effExp`. -/
theorem translated_sum_pow_eq (k : Scal R) (x : TranslatedPauli.Ext R) (s : PSum R) (ws : SumWF s) (p : Int) :
    TranslatedPauli.sum_pow k x (ofSum s) p =
      if p < 0 then .error .value else .ok (ofSum (effExp (mulSX k x) [identityTerm] s p.toNat)) := by
  unfold TranslatedPauli.sum_pow
  by_cases hp : p < 0
  · simp [hp]
  · simp only [hp, decide_false, Bool.not_true, Bool.or_self, Bool.false_eq_true, if_false]
    unfold TranslatedPauli.efficient_exponentiation_sum
    have hpn : p = ((p.toNat : Nat) : Int) := by omega
    conv_lhs => rw [hpn]
    rw [Int.toNat_natCast]
    exact (translated_efficient_exponentiation_sum_fuel k x s ws p.toNat (p.toNat + 1) (le_refl _)).1

/-- END-TO-END (`denote_simplify` on the translated `PauliSum.simplify`): what the regenerated method returns differs from the input,
    as a matrix, exactly by merged terms whose coefficient `np.isclose` called negligible. -/
theorem translated_simplify_denote (k : Scal R) (x : TranslatedPauli.Ext R) (n : Nat) (s : PSum R) (hs : SumWF s) :
    ∃ r : PSum R, TranslatedPauli.sum_simplify k x (ofSum s) = .ok (ofSum r) ∧
      MS k n s = MS k n r + MS k n (dropped (neglOf x) s) ∧ ∀ d ∈ dropped (neglOf x) s, x.isclose d.coeff 0 = true :=
  ⟨_, translated_simplify_eq k x s hs, denote_simplify k n (neglOf x) s⟩

/-- END-TO-END (`denote_pow` on the translated `PauliTerm.__pow__` / `PauliSum.__pow__`, dict order as iteration order, exact
    cut-off): for EVERY exponent `p ≥ 0` the regenerated method returns (no RecursionError, no other exception) an object that
    denotes the matrix power. -/
theorem translated_pow_denote (k : Scal R) (x : TranslatedPauli.Ext R) (hid : ∀ l, x.set_iter l = l)
    (hex : ∀ c, x.isclose c 0 = true → c = 0) (hi : k.i * k.i = -1) (n : Nat) (p : Nat) :
    (∀ t : Term R, TermFits n t → OpsWF t.ops →
      ∃ r : Term R, TranslatedPauli.term_pow k x (ofTerm t) (p : Int) = .ok (ofTerm r) ∧ MT k n r = MT k n t ^ p) ∧
    (∀ s : PSum R, SumFits n s → SumWF s →
      ∃ r : PSum R, TranslatedPauli.sum_pow k x (ofSum s) (p : Int) = .ok (ofSum r) ∧ MS k n r = MS k n s ^ p) := by
  have hX : mulTermX k x = mulTerm k := by
    funext a b; simp [mulTermX, mulTerm, hid]
  have hS : mulSX k x = mulS k (neglOf x) := by
    funext a b; exact mulSX_eq_mulS k x hid a b
  constructor
  · intro t ht wt
    obtain ⟨r, hr, hden, _⟩ := denote_pow k n (neglOf x) hex hi (.term t) ht (fun _ h => by cases h) p
    rw [translated_term_pow_eq k x t wt, hX]
    simp only [powV, Int.toNat_natCast] at hr ⊢
    have : ¬ ((p : Int) < 0) := by omega
    simp only [this, if_false] at hr ⊢
    injection hr with hr
    subst hr
    exact ⟨_, rfl, hden⟩
  · intro s hs ws
    obtain ⟨r, hr, hden, _⟩ := denote_pow k n (neglOf x) hex hi (.sum s) hs (fun _ h => by cases h) p
    rw [translated_sum_pow_eq k x s ws, hS]
    simp only [powV, Int.toNat_natCast] at hr ⊢
    have : ¬ ((p : Int) < 0) := by omega
    simp only [this, if_false] at hr ⊢
    injection hr with hr
    subst hr
    exact ⟨_, rfl, hden⟩

/-! ## dispatch, addition of terms, equality, constants -/

theorem ebind_assoc {α β γ : Type} (m : Except Exc4 α) (f : α → Except Exc4 β) (g : β → Except Exc4 γ) :
    Except.bind (Except.bind m f) g = Except.bind m (fun a => Except.bind (f a) g) := by
  cases m <;> rfl

/-- TRANSLATION TIE `PauliTerm.__mul__(other)` with the run-time dispatch on the kind of `other` (`isinstance` chain: PauliSum →
    `(PauliSum([self]) * other).simplify()`, PauliTerm → the loop, number → `copy`): with the dict order as iteration order it is
    the model's `mulV (.term t)` for every value; nothing is raised. -/
theorem translated_term_mul_val_eq (k : Scal R) (x : TranslatedPauli.Ext R) (hid : ∀ l, x.set_iter l = l) (t : Term R)
    (wt : OpsWF t.ops) (v r : Val R) (h : mulV k (neglOf x) (.term t) v = .ok r) :
    TranslatedPauli.term_mul_val k x (ofTerm t) (ofVal v) = .ok (ofVal r) := by
  have hX : mulTermX k x = mulTerm k := by
    funext a b; simp [mulTermX, mulTerm, hid]
  cases v with
  | num c =>
    simp only [mulV] at h; injection h with h; subst h
    unfold TranslatedPauli.term_mul_val
    simp only [ofVal, ofTerm_coeff]
    rw [term_copy_some k x t _ wt]; rfl
  | term u =>
    simp only [mulV] at h; injection h with h; subst h
    have e : TranslatedPauli.term_mul_val k x (ofTerm t) (.term (ofTerm u)) =
        Except.bind (TranslatedPauli.term_mul_term k x (ofTerm t) (ofTerm u)) (fun r => .ok (.term r)) := by
      unfold TranslatedPauli.term_mul_val TranslatedPauli.term_mul_term
      simp only [ebind_assoc]
    simp only [ofVal]
    rw [e, translated_term_mul_term_eq k x t u wt, ← hX]
    rfl
  | sum s =>
    simp only [mulV] at h; injection h with h; subst h
    have w1 : SumWF [t] := by
      intro t' ht'; simp only [List.mem_singleton] at ht'; subst ht'; exact wt
    unfold TranslatedPauli.term_mul_val
    simp only [ofVal]
    rw [sum_init_ok]
    simp only [bind_ok]
    have := translated_sum_mul_sum_eq k x [t] s w1
    have e1 : ofSum [t] = [ofTerm t] := rfl
    rw [e1] at this
    rw [this]
    simp only [bind_ok]
    rw [translated_simplify_eq k x (mulSX k x [t] s) (mulSX_wf k x [t] s w1), mulSX_eq_mulS k x hid]
    rfl

/-- TRANSLATION TIE `PauliTerm.__add__(PauliTerm)` / `__add__(number)` / `__radd__`: `PauliSum([self, other]).simplify()` with a
    number as the constant term `PauliTerm("I0", other)` – the model's `addV` branches. -/
theorem translated_term_add_eq (k : Scal R) (x : TranslatedPauli.Ext R) (t u : Term R) (c : R) (wt : OpsWF t.ops) (wu : OpsWF u.ops) :
    TranslatedPauli.term_add_term k x (ofTerm t) (ofTerm u) = .ok (ofSum (simplify (neglOf x) [t, u])) ∧
    TranslatedPauli.term_add_num k x (ofTerm t) c = .ok (ofSum (simplify (neglOf x) [t, constTerm c])) ∧
    TranslatedPauli.term_radd_num k x (ofTerm t) c = .ok (ofSum (simplify (neglOf x) [t, constTerm c])) := by
  have h : ∀ u : Term R, OpsWF u.ops →
      TranslatedPauli.term_add_term k x (ofTerm t) (ofTerm u) = .ok (ofSum (simplify (neglOf x) [t, u])) := by
    intro u wu
    unfold TranslatedPauli.term_add_term
    rw [sum_init_ok]
    simp only [bind_ok]
    exact translated_simplify_eq k x [t, u] (by
      intro t' ht'
      simp only [List.mem_cons, List.mem_nil_iff, or_false] at ht'
      rcases ht' with rfl | rfl
      · exact wt
      · exact wu)
  refine ⟨h u wu, ?_, ?_⟩
  · unfold TranslatedPauli.term_add_num
    rw [(translated_term_init_lit_I0_eq k x c).1]
    simp only [bind_ok]
    exact h _ (constTerm_wf c)
  · unfold TranslatedPauli.term_radd_num
    rw [(translated_term_init_lit_I0_eq k x c).1]
    simp only [bind_ok]
    exact h _ (constTerm_wf c)

/-- TRANSLATION TIE `PauliTerm.__eq__(PauliTerm)` = the model's `eqTerm` with `close := np.allclose` (coefficients close, and both
    negligible or equal `operations` as frozensets), and `__eq__(number)` through `PauliTerm("I0", other)`. -/
theorem translated_term_eq_eq (k : Scal R) (x : TranslatedPauli.Ext R) (t u : Term R) (c : R) :
    TranslatedPauli.term_eq_term k x (ofTerm t) (ofTerm u) = eqTerm x.allclose t u ∧
    TranslatedPauli.term_eq_num k x (ofTerm t) c = .ok (eqTerm x.allclose t (constTerm c)) := by
  have h : ∀ u : Term R, TranslatedPauli.term_eq_term k x (ofTerm t) (ofTerm u) = eqTerm x.allclose t u := by
    intro u
    simp only [TranslatedPauli.term_eq_term, TranslatedPauli.term_operations, dictItems, ofTerm_ops, ofTerm_coeff, frozenItemsEq_up,
      eqTerm]
  refine ⟨h u, ?_⟩
  unfold TranslatedPauli.term_eq_num
  rw [(translated_term_init_lit_I0_eq k x c).1]
  simp only [bind_ok, h]

/-- TRANSLATION TIE `is_constant` (term: `_ops == {}`; sum: no terms, or all terms constant) and `PauliSum.__len__`. -/
theorem translated_is_constant_eq (k : Scal R) (x : TranslatedPauli.Ext R) (t : Term R) (s : PSum R) :
    TranslatedPauli.term_is_constant k x (ofTerm t) = t.ops.isEmpty ∧
    TranslatedPauli.sum_is_constant k x (ofSum s) = (s.isEmpty || s.all (fun t => t.ops.isEmpty)) ∧
    TranslatedPauli.sum_len k x (ofSum s) = (s.length : Int) := by
  have h : ∀ t : Term R, TranslatedPauli.term_is_constant k x (ofTerm t) = t.ops.isEmpty := by
    intro t
    simp only [TranslatedPauli.term_is_constant, ofTerm_ops, up]
    cases t.ops <;> rfl
  refine ⟨h t, ?_, ?_⟩
  · simp only [TranslatedPauli.sum_is_constant, ofSum, List.length_map, List.all_map, List.map_map, Function.comp_def, h]
    cases s with
    | nil => rfl
    | cons a l =>
      have : (((a :: l).length : Nat) : Int) ≠ 0 := by
        simp only [List.length_cons]; omega
      simp only [List.length_cons] at this
      simp [this]
      intro h0; omega
  · simp [TranslatedPauli.sum_len, ofSum]

theorem foldl_max_succ_le (ops : List (Nat × P)) (a b : Nat) :
    ops.foldl (fun acc p => max acc (p.1 + 1)) a ≤ b ↔ a ≤ b ∧ ∀ p ∈ ops, p.1 + 1 ≤ b := by
  induction ops generalizing a with
  | nil => simp
  | cons p ops ih =>
    rw [List.foldl_cons, ih]
    simp only [List.mem_cons, forall_eq_or_imp, Nat.max_le]
    tauto

theorem foldl_max_le (l : List Nat) (a b : Nat) : l.foldl max a ≤ b ↔ a ≤ b ∧ ∀ q ∈ l, q ≤ b := by
  induction l generalizing a with
  | nil => simp
  | cons q l ih =>
    rw [List.foldl_cons, ih]
    simp only [List.mem_cons, forall_eq_or_imp, Nat.max_le]
    tauto

theorem foldl_max_mem (l : List Nat) (a : Nat) : l.foldl max a ∈ a :: l := by
  induction l generalizing a with
  | nil => simp
  | cons q l ih =>
    rw [List.foldl_cons]
    have := ih (max a q)
    rcases List.mem_cons.mp this with h | h
    · rw [h]
      rcases Nat.le_total a q with h' | h'
      · rw [Nat.max_eq_right h']; simp
      · rw [Nat.max_eq_left h']; simp
    · exact List.mem_cons_of_mem _ (List.mem_cons_of_mem _ h)

/-- TRANSLATION TIE `PauliTerm.n_qubits` (`0 if self.is_constant else max(self.qubits) + 1`; `max` of the SET of qubits does not
    depend on the iteration order) = the model's `Term.nQubits`; the `max` of an empty set (ValueError) is never reached. -/
theorem translated_term_n_qubits_eq (k : Scal R) (x : TranslatedPauli.Ext R) (t : Term R) :
    TranslatedPauli.term_n_qubits k x (ofTerm t) = .ok t.nQubits := by
  unfold TranslatedPauli.term_n_qubits
  rw [(translated_is_constant_eq k x t []).1]
  unfold TranslatedPauli.term_qubits Term.nQubits
  simp only [ofTerm_ops, setOfList_keys]
  cases ho : t.ops with
  | nil => rfl
  | cons p ops =>
    simp only [List.isEmpty_cons, Bool.false_eq_true, if_false]
    rw [← ho]
    have hk := (keys_spec t.ops).2
    cases hkeys : keys t.ops with
    | nil =>
      have : p.1 ∈ keys t.ops := (hk p.1).mpr ⟨p, by rw [ho]; exact List.mem_cons_self, rfl⟩
      rw [hkeys] at this; cases this
    | cons h tl =>
      simp only [maxNatE, bind_ok]
      congr 1
      apply Nat.le_antisymm
      · have hm := foldl_max_mem tl h
        rw [← hkeys] at hm
        obtain ⟨p', hp', he⟩ := (hk _).mp hm
        have := (foldl_max_succ_le t.ops 0 _).mp (le_refl _)
        have h2 := this.2 p' hp'
        rw [he] at h2
        exact h2
      · rw [foldl_max_succ_le]
        refine ⟨Nat.zero_le _, ?_⟩
        intro p' hp'
        have hmem : p'.1 ∈ keys t.ops := (hk _).mpr ⟨p', hp', rfl⟩
        rw [hkeys] at hmem
        have := (foldl_max_le tl h _).mp (le_refl _)
        have h3 : p'.1 ≤ tl.foldl max h := by
          rcases List.mem_cons.mp hmem with e | e
          · rw [e]; exact this.1
          · exact this.2 _ e
        omega

/-- TRANSLATION TIE `PauliSum.__add__(PauliTerm)` / `__add__(number)` / `__radd__(number)` / `PauliTerm.__add__(PauliSum)`: the other
    operand wrapped into a one-term sum (a number as `PauliTerm("I0", other)`), then as for two sums – the model's `addV` branches
    `addS s [t]`, `addS s [constTerm c]`. -/
theorem translated_sum_add_eq (k : Scal R) (x : TranslatedPauli.Ext R) (s : PSum R) (t : Term R) (c : R) (hs : SumWF s)
    (wt : OpsWF t.ops) :
    TranslatedPauli.sum_add_term k x (ofSum s) (ofTerm t) = .ok (ofSum (addS (neglOf x) s [t])) ∧
    TranslatedPauli.term_add_sum k x (ofTerm t) (ofSum s) = .ok (ofSum (addS (neglOf x) s [t])) ∧
    TranslatedPauli.sum_add_num k x (ofSum s) c = .ok (ofSum (addS (neglOf x) s [constTerm c])) ∧
    TranslatedPauli.sum_radd_num k x (ofSum s) c = .ok (ofSum (addS (neglOf x) s [constTerm c])) := by
  have w1 : ∀ t : Term R, OpsWF t.ops → SumWF [t] := by
    intro t wt t' ht'; simp only [List.mem_singleton] at ht'; subst ht'; exact wt
  have h1 : ∀ t : Term R, OpsWF t.ops →
      TranslatedPauli.sum_add_term k x (ofSum s) (ofTerm t) = .ok (ofSum (addS (neglOf x) s [t])) := by
    intro t wt
    unfold TranslatedPauli.sum_add_term
    rw [sum_init_ok]
    simp only [bind_ok]
    exact translated_sum_add_sum_eq k x s [t] hs (w1 t wt)
  have h2 : TranslatedPauli.sum_add_num k x (ofSum s) c = .ok (ofSum (addS (neglOf x) s [constTerm c])) := by
    unfold TranslatedPauli.sum_add_num
    rw [(translated_term_init_lit_I0_eq k x c).1]
    simp only [bind_ok]
    rw [sum_init_ok]
    simp only [bind_ok]
    exact translated_sum_add_sum_eq k x s [constTerm c] hs (w1 _ (constTerm_wf c))
  refine ⟨h1 t wt, ?_, h2, ?_⟩
  · unfold TranslatedPauli.term_add_sum
    exact h1 t wt
  · unfold TranslatedPauli.sum_radd_num
    exact h2

/-- TRANSLATION TIE `PauliSum.__mul__(PauliTerm)` / `__mul__(number)` (`other_terms = [PauliTerm.identity() * other]`),
    `PauliTerm.__mul__(PauliSum)` (`(PauliSum([self]) * other).simplify()`) and `PauliSum.__truediv__(number)`: the model's `mulV`
    branches with the translated code's iteration order.  The `__truediv__` clause assumes `ZeroDivLaw x` as in
    `translated_term_mul_num_eq` (zero guard of the repaired source). -/
theorem translated_sum_mul_other_eq (k : Scal R) (x : TranslatedPauli.Ext R) (s : PSum R) (t : Term R) (c : R) (hs : SumWF s)
    (wt : OpsWF t.ops) :
    TranslatedPauli.sum_mul_term k x (ofSum s) (ofTerm t) = .ok (ofSum (mulSX k x s [mulTermX k x identityTerm t])) ∧
    TranslatedPauli.sum_mul_num k x (ofSum s) c = .ok (ofSum (mulSX k x s [scaleTerm identityTerm c])) ∧
    TranslatedPauli.term_mul_sum k x (ofTerm t) (ofSum s) = .ok (ofSum (simplify (neglOf x) (mulSX k x [t] s))) ∧
    (ZeroDivLaw x → TranslatedPauli.sum_truediv_num k x (ofSum s) c =
      (match recipOf x c with | some r => .ok (ofSum (mulSX k x s [scaleTerm identityTerm r])) | none => .error .zeroDiv)) := by
  have hid := (translated_term_init_lit_I0_eq k x (1 : R)).2
  have hnum : ∀ c : R, TranslatedPauli.sum_mul_num k x (ofSum s) c = .ok (ofSum (mulSX k x s [scaleTerm identityTerm c])) := by
    intro c
    unfold TranslatedPauli.sum_mul_num
    rw [hid]
    simp only [bind_ok]
    rw [(translated_term_mul_num_eq k x identityTerm c (constTerm_wf 1)).1]
    simp only [bind_ok]
    exact translated_sum_mul_sum_eq k x s [scaleTerm identityTerm c] hs
  refine ⟨?_, hnum c, ?_, ?_⟩
  · unfold TranslatedPauli.sum_mul_term
    rw [hid]
    simp only [bind_ok]
    rw [translated_term_mul_term_eq k x identityTerm t (constTerm_wf 1)]
    simp only [bind_ok]
    exact translated_sum_mul_sum_eq k x s [mulTermX k x identityTerm t] hs
  · have w1 : SumWF [t] := by
      intro t' ht'; simp only [List.mem_singleton] at ht'; subst ht'; exact wt
    unfold TranslatedPauli.term_mul_sum
    rw [sum_init_ok]
    simp only [bind_ok]
    have := translated_sum_mul_sum_eq k x [t] s w1
    have e1 : ofSum [t] = [ofTerm t] := rfl
    rw [e1] at this
    rw [this]
    simp only [bind_ok]
    exact translated_simplify_eq k x (mulSX k x [t] s) (mulSX_wf k x [t] s w1)
  · intro hz
    have hq : Except.bind (OQ.Py.ofOption OQ.Py.Exc4.zeroDiv (x.truediv (1 : R) c)) (fun (r : R) =>
          TranslatedPauli.sum_mul_num k x (ofSum s) r) =
        (match x.truediv 1 c with | some r => .ok (ofSum (mulSX k x s [scaleTerm identityTerm r])) | none => .error .zeroDiv) := by
      cases x.truediv 1 c with
      | none => rfl
      | some r =>
        simp only [ofOption, bind_ok]
        exact hnum r
    unfold TranslatedPauli.sum_truediv_num recipOf
    first
      | exact hq
      | (cases hg : x.num_eq c (0 : R) with
         | false => simpa only [hg, Bool.and_false, Bool.false_eq_true, if_false] using hq
         | true => simp only [hg, Bool.and_true, if_true, hz c hg])

end OQ.C03
