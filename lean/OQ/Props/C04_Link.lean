/-
  C04 — LINK: the theorems of OQ.Props.C04 composed with those of OQ.Props.C09 (`sparse_eq_denote`,
  `sparse_rejects_iff`) and OQ.Props.C01 (`applyAll_eq_circuit_matrix`, `liftMatrix_eq_spec_lift` through
  `opSem` / `circSem`) into end-to-end statements about the EXECUTABLE models:
    * expectation values go through C09's model of `get_sparse_operator` (not the dense `PSum.denote`);
    * states are produced by `Lift.applyAll` (the model of `GateOperation.apply`), not postulated over `Spec.lift`.
  Helper lemmas: OQ/Lemmas/C04_Link.lean.  Vocabulary defined there:
    colAmps w        column 0 of a state column as the amplitude list given to `Wavefunction(...)`;
    stateOf n w      the same column as a state over bit assignments `BV (Fin n)` (C01's `toBVv`);
    xOp q            the gate operation X on qubit q (matrix `Gates.x`);
    slotQubits qs S' the register qubits qs[j], j ∈ S' (S' a set of the gate's own slots);
    zString S c      the one-term operator c · ∏_{q∈S} Z_q;   xConj q s: s with the sign of the terms containing Z_q flipped;
    indicator n F    the tuple with 1 exactly at the positions in F.
  `hi : k.i * k.i = -1` is the law of the constant `i` that C09's `sparse_eq_denote` needs.
-/
import OQ.Lemmas.C04_Link
set_option linter.unusedSectionVars false
namespace OQ.C04.Link
open OQ OQ.Pauli OQ.Spec Matrix OQ.Lift

section
variable {R : Type} [CommRing R] [StarRing R] [DecidableEq R]

/-- [closes the modelling assumption of C04 "the sparse operator is the Kronecker matrix `PSum.denote`"] for EVERY Pauli
    sum (any letters, well formed: distinct qubit indices per term) and every state of 2ⁿ amplitudes, the value computed
    through C09's model of `get_sparse_operator` (`C09.getExpectationValue`, the code path of
    `get_exact_expectation_values`) is the value of C04's `getExpectationValue` (dense `PSum.denote`), and both raise
    exactly when the operator is wider than the register.  Uses C09 `sparse_eq_denote`, `sparse_rejects_iff`. -/
theorem sparse_path_eq_dense (k : Scal R) (hi : k.i * k.i = -1) (tol : C09.Tol R) (s : PSum R)
    (hwf : C09.SumWF s) (n : Nat) (amps : List R) (hlen : amps.length = 2 ^ n) :
    C09.getExpectationValue k tol s amps false =
      (match getExpectationValue k s amps with
        | .ok v => some v
        | .error _ => none) := by
  unfold C09.getExpectationValue getExpectationValue
  simp only [hlen, Nat.log2_two_pow, Bool.false_eq_true, if_false]
  by_cases hn : n < PSum.nQubits s
  · rw [(C09.sparse_rejects_iff k s n).2 hn, if_pos hn]
  · rw [if_neg hn]
    obtain ⟨M, h1, _, _, h4⟩ := C09.sparse_eq_denote k hi s hwf n (by omega)
    rw [h1]
    simp only
    congr 1
    apply expectation_congr
    intro i j hi' hj
    rw [hlen] at hi' hj
    exact congrFun (congrFun h4 ⟨i, hi'⟩) ⟨j, hj⟩

/-- [C04 `exact_Z_expectation` with the sparse path; task item (1)] for every Z-type operator inside the register (n ≥ width)
    the value computed through `get_sparse_operator` equals Σᵢ |ψᵢ|² · λ_s(bits n i): the eigenvalue read at the tuple
    POSITIONS named by the operator's qubit indices. -/
theorem exact_Z_expectation_sparse (k : Scal R) (hi : k.i * k.i = -1) (tol : C09.Tol R) (n : Nat) (s : PSum R)
    (hs : ZType n s) (amps : List R) (hlen : amps.length = 2 ^ n) :
    C09.getExpectationValue k tol s amps false =
      some (∑ i ∈ Finset.range (2 ^ n), normSq k (amps.getD i 0) * eigenvalue s (bits n i)) := by
  rw [sparse_path_eq_dense k hi tol s (ztype_sumWF n s hs) n amps hlen, exact_Z_expectation k n s hs amps hlen]

/-- [C04 `exact_expectation_eq_distribution_average` with the sparse path] … and it is the eigenvalue average over the
    exact outcome distribution object. -/
theorem exact_expectation_sparse_eq_distribution_average (k : Scal R) (hi : k.i * k.i = -1) (tol : C09.Tol R) (n : Nat)
    (s : PSum R) (hs : ZType n s) (amps : List R) (hlen : amps.length = 2 ^ n) :
    C09.getExpectationValue k tol s amps false =
      some (((exactDistribution k amps).map (fun p => p.2 * eigenvalue s p.1)).sum) := by
  rw [sparse_path_eq_dense k hi tol s (ztype_sumWF n s hs) n amps hlen,
    exact_expectation_eq_distribution_average k n s hs amps hlen]

/-- [C04 `exact_Z_expectation_spec` without its hypothesis `hψ`, with the sparse path] for ANY executable state column `w`
    (2ⁿ × 1), the amplitude list `colAmps w` handed to `Wavefunction(...)` is the specification state
    `stateOf n w` (C01's `toBVv`, MSB-first `bvEquiv`) read at `bv n i`; hence the sparse-path value is
    Σₜ cₜ ⟨ψ| Z_{qubits of t} |ψ⟩ over the qubits `Fin n` on which `Spec.lift` places gates. -/
theorem exact_Z_expectation_spec_sparse (k : Scal R) (hi : k.i * k.i = -1) (hcj : ∀ a, k.cj a = star a) (tol : C09.Tol R) (n : Nat)
    (s : PSum R) (hs : ZType n s) (w : Mat R) (hr : w.r = 2 ^ n) :
    C09.getExpectationValue k tol s (colAmps w) false =
      some ((s.map (fun t => t.coeff * ev (Matrix.diagonal (zsign (qubitSet n (termQubits t)))) (stateOf n w))).sum) := by
  have hlen : (colAmps w).length = 2 ^ n := by rw [colAmps_length, hr]
  rw [sparse_path_eq_dense k hi tol s (ztype_sumWF n s hs) n _ hlen,
    exact_Z_expectation_spec k hcj n s hs _ hlen (stateOf n w) (fun i hi' => amps_state n w hr i hi')]

/-- [the same for the state PRODUCED by the executable application `Lift.applyAll` of valid gate operations to any
    initial column, e.g. `zeroState n`] the sparse-path expectation of a Z-type operator is the specification expectation
    in the state `circSem n gs · ψ₀` – the ordered product of `Spec.lift`ed gates of C01 (`applyAll_eq_circuit_matrix`,
    `liftMatrix_eq_spec_lift`). -/
theorem exact_Z_expectation_exec (k : Scal R) (hi : k.i * k.i = -1) (hcj : ∀ a, k.cj a = star a) (tol : C09.Tol R)
    (n : Nat) (s : PSum R) (hs : ZType n s) (gs : List (Op R)) (hgs : ∀ o ∈ gs, C01.OpValid n o)
    (v : Mat R) (hvr : v.r = 2 ^ n) (hvc : v.c = 1) :
    ∃ w, Lift.applyAll gs v = some w ∧
      C09.getExpectationValue k tol s (colAmps w) false =
        some ((s.map (fun t => t.coeff * ev (Matrix.diagonal (zsign (qubitSet n (termQubits t))))
          (C01.circSem n (gs.map C01.Oper.gate) *ᵥ stateOf n v))).sum) := by
  obtain ⟨w, h1, hr, _, hst⟩ := exec_spec n gs hgs v hvr hvc
  exact ⟨w, h1, by rw [exact_Z_expectation_spec_sparse k hi hcj tol n s hs w hr, hst]⟩

/-- [C04 `gate_off_support_preserves_Z` without σ / `Spec.lift` / ψ hypotheses] appending, through the executable
    `Lift.applyAll`, ANY valid unitary gate operation whose qubit indices do not occur in the Z-type operator leaves the
    sparse-path expectation unchanged: gate qubit indices and operator qubit indices name the same qubits. -/
theorem gate_off_support_preserves_Z_exec (k : Scal R) (hi : k.i * k.i = -1) (hcj : ∀ a, k.cj a = star a)
    (tol : C09.Tol R) (n : Nat) (s : PSum R) (hs : ZType n s) (gs : List (Op R)) (hgs : ∀ o ∈ gs, C01.OpValid n o)
    (o : Op R) (ho : C01.OpValid n o)
    (hU : (Mat.toM (2 ^ o.qs.length) (2 ^ o.qs.length) o.m)ᴴ * Mat.toM (2 ^ o.qs.length) (2 ^ o.qs.length) o.m = 1)
    (hdis : ∀ t ∈ s, ∀ q ∈ o.qs, q ∉ termQubits t)
    (v : Mat R) (hvr : v.r = 2 ^ n) (hvc : v.c = 1) :
    ∃ w w', Lift.applyAll gs v = some w ∧ Lift.applyAll (gs ++ [o]) v = some w' ∧
      C09.getExpectationValue k tol s (colAmps w') false = C09.getExpectationValue k tol s (colAmps w) false := by
  obtain ⟨w, h1, hr, hc, _⟩ := exec_spec n gs hgs v hvr hvc
  obtain ⟨w', h2, hr', _, hst⟩ := exec_one n o ho w hr hc
  refine ⟨w, w', h1, by rw [liftApplyAll_append, h1]; exact h2, ?_⟩
  rw [exact_Z_expectation_spec_sparse k hi hcj tol n s hs w' hr', exact_Z_expectation_spec_sparse k hi hcj tol n s hs w hr, hst]
  congr 2
  apply List.map_congr_left
  intro t ht
  rw [gate_off_support_preserves_Z _ _ (toBV_unitary _ _ hU)]
  intro j hmem
  simp only [qubitSet, Finset.mem_filter, Finset.mem_univ, true_and, C01.sigmaOf_inl] at hmem
  exact hdis t ht _ (List.getElem_mem _) hmem

/-- [C04 `gate_on_support_local` without σ / `Spec.lift` / ψ hypotheses] a valid gate operation `o` applied through the
    executable `Lift.applyAll`, and the Z string on the register qubits `o.qs[j]`, j ∈ S' (operator qubit indices taken
    from the gate's own index list): the sparse-path expectation in the new state is the expectation, in the old state,
    of the Heisenberg-picture operator Mᴴ Z_{S'} M computed on the gate's own qubits and placed on `o.qs` by the same
    partition as the gate. -/
theorem gate_on_support_local_exec (k : Scal R) (hi : k.i * k.i = -1) (hcj : ∀ a, k.cj a = star a)
    (tol : C09.Tol R) (n : Nat) (gs : List (Op R)) (hgs : ∀ o ∈ gs, C01.OpValid n o)
    (o : Op R) (ho : C01.OpValid n o) (S' : Finset (Fin o.qs.length))
    (v : Mat R) (hvr : v.r = 2 ^ n) (hvc : v.c = 1) :
    ∃ w w', Lift.applyAll gs v = some w ∧ Lift.applyAll (gs ++ [o]) v = some w' ∧
      C09.getExpectationValue k tol (zString (slotQubits o.qs S') 1) (colAmps w') false =
        some (ev (lift (C01.sigmaOf o.qs n ho.nodup ho.lt)
          ((C01.toBV o.qs.length o.m)ᴴ * Matrix.diagonal (zsign S') * C01.toBV o.qs.length o.m)) (stateOf n w)) := by
  obtain ⟨w, h1, hr, hc, _⟩ := exec_spec n gs hgs v hvr hvc
  obtain ⟨w', h2, hr', _, hst⟩ := exec_one n o ho w hr hc
  refine ⟨w, w', h1, by rw [liftApplyAll_append, h1]; exact h2, ?_⟩
  rw [exact_Z_expectation_spec_sparse k hi hcj tol n _
    (zString_ztype n _ (slotQubits_nodup o.qs ho.nodup S') (slotQubits_lt o.qs n ho.lt S') 1) w' hr', hst]
  simp only [zString, List.map_cons, List.map_nil, List.sum_cons, List.sum_nil, add_zero, one_mul, zString_qubits]
  rw [qubitSet_slotQubits o.qs n ho.nodup ho.lt S', gate_on_support_local]

/-- [C04 `x_gate_flips_Z` end to end, all Z-type sums] an X gate on gate-qubit `q` applied through `Lift.applyAll` after
    any valid circuit: the sparse-path expectation of `s` in the new state is the expectation, in the old state, of `s`
    with the sign of exactly those terms flipped whose OPERATOR qubits contain `q` (`xConj q s`). -/
theorem x_gate_conjugates_Z_sum_exec (k : Scal R) (hi : k.i * k.i = -1) (hcj : ∀ a, k.cj a = star a)
    (tol : C09.Tol R) (n : Nat) (s : PSum R) (hs : ZType n s) (gs : List (Op R)) (hgs : ∀ o ∈ gs, C01.OpValid n o)
    (q : Nat) (hq : q < n) (v : Mat R) (hvr : v.r = 2 ^ n) (hvc : v.c = 1) :
    ∃ w w', Lift.applyAll gs v = some w ∧ Lift.applyAll (gs ++ [xOp q]) v = some w' ∧
      C09.getExpectationValue k tol s (colAmps w') false =
        C09.getExpectationValue k tol (xConj q s) (colAmps w) false := by
  obtain ⟨w, h1, hr, hc, _⟩ := exec_spec n gs hgs v hvr hvc
  obtain ⟨w', h2, hr', _, hst⟩ := exec_x n q hq w hr hc
  refine ⟨w, w', h1, by rw [liftApplyAll_append, h1]; exact h2, ?_⟩
  rw [exact_Z_expectation_spec_sparse k hi hcj tol n s hs w' hr',
    exact_Z_expectation_spec_sparse k hi hcj tol n (xConj q s) (xConj_ztype n q s hs) w hr, hst]
  congr 2
  unfold xConj
  rw [List.map_map]
  apply List.map_congr_left
  intro t _
  simp only [Function.comp_def]
  rw [x_gate_flips_Z, sigmaX_inl]
  simp only [mem_qubitSet]
  have : termQubits (⟨t.ops, (if q ∈ termQubits t then -1 else 1) * t.coeff⟩ : Term R) = termQubits t := rfl
  rw [this]
  ring

/-- [C04 `x_gate_flips_Z` end to end, one Z string; task item (2)] gate qubit q = operator qubit q = tuple position q in
    one statement: before the X gate ⟨Z_S⟩ is Σᵢ |wᵢ|² · (sign read at the POSITIONS S of the tuple `bits n i`); after an
    X gate on GATE qubit `q` (executable `Lift.applyAll`) the sparse-path value of the OPERATOR Z_S is that number times
    −1 exactly when q ∈ S. -/
theorem x_gate_flips_Z_exec (k : Scal R) (hi : k.i * k.i = -1) (hcj : ∀ a, k.cj a = star a)
    (tol : C09.Tol R) (n : Nat) (gs : List (Op R)) (hgs : ∀ o ∈ gs, C01.OpValid n o)
    (q : Nat) (hq : q < n) (marked : List Nat) (hnd : marked.Nodup) (hm : ∀ p ∈ marked, p < n)
    (v : Mat R) (hvr : v.r = 2 ^ n) (hvc : v.c = 1) :
    ∃ w w', Lift.applyAll gs v = some w ∧ Lift.applyAll (gs ++ [xOp q]) v = some w' ∧
      C09.getExpectationValue k tol (zString marked 1) (colAmps w) false =
        some (∑ i ∈ Finset.range (2 ^ n), normSq k (w.get i 0) * ((signOf marked (bits n i) : Int) : R)) ∧
      C09.getExpectationValue k tol (zString marked 1) (colAmps w') false =
        some ((if q ∈ marked then -1 else 1) *
          ∑ i ∈ Finset.range (2 ^ n), normSq k (w.get i 0) * ((signOf marked (bits n i) : Int) : R)) := by
  obtain ⟨w, w', h1, h2, h3⟩ := x_gate_conjugates_Z_sum_exec k hi hcj tol n (zString marked 1)
    (zString_ztype n marked hnd hm 1) gs hgs q hq v hvr hvc
  obtain ⟨w0, h0, hr, _, _⟩ := exec_spec n gs hgs v hvr hvc
  have hw : w0 = w := by rw [h0] at h1; exact Option.some.inj h1
  subst hw
  have hlen : (colAmps w0).length = 2 ^ n := by rw [colAmps_length, hr]
  have hval : ∀ c : R, C09.getExpectationValue k tol (zString marked c) (colAmps w0) false =
      some (c * ∑ i ∈ Finset.range (2 ^ n), normSq k (w0.get i 0) * ((signOf marked (bits n i) : Int) : R)) := by
    intro c
    rw [exact_Z_expectation_sparse k hi tol n _ (zString_ztype n marked hnd hm c) _ hlen, Finset.mul_sum]
    congr 1
    apply Finset.sum_congr rfl
    intro i hi'
    rw [colAmps_getD w0 i (by rw [hr]; exact Finset.mem_range.mp hi')]
    simp only [eigenvalue, zString, List.map_cons, List.map_nil, List.sum_cons, List.sum_nil, add_zero, zString_qubits]
    ring
  refine ⟨w0, w', h0, h2, ?_, ?_⟩
  · rw [hval 1, one_mul]
  · rw [h3]
    have : xConj q (zString marked (1 : R)) = zString marked (if q ∈ marked then -1 else 1) := by
      simp only [xConj, zString, List.map_cons, List.map_nil, zString_qubits, mul_one]
    rw [this, hval]

/-- [C04's model of `get_wavefunction`, `circuitWavefunction`, tied to C01] for every circuit of valid gate operations the
    amplitude list handed to `Wavefunction(...)` is column 0 of the executable result `w`, entry `i` of that list is the
    specification amplitude at the bit assignment `bv n i`, and the specification state is `circSem n gs · |0…0⟩`. -/
theorem circuit_wavefunction_exec (k : Scal R) (isOne : R → Bool) (n : Nat) (gs : List (Op R))
    (hgs : ∀ o ∈ gs, C01.OpValid n o) :
    ∃ w, Lift.applyAll gs (zeroState n) = some w ∧ w.r = 2 ^ n ∧ w.c = 1 ∧
      circuitWavefunction k isOne n gs = some (mkWavefunction k isOne (colAmps w)) ∧
      (∀ i, i < 2 ^ n → (colAmps w).getD i 0 = stateOf n w (bv n i)) ∧
      stateOf n w = C01.circSem n (gs.map C01.Oper.gate) *ᵥ (fun x => if x = (fun _ => false) then 1 else 0) := by
  obtain ⟨w, h1, hr, hc, hst⟩ := exec_spec n gs hgs (zeroState (R := R) n) rfl rfl
  refine ⟨w, h1, hr, hc, ?_, fun i hi => amps_state n w hr i hi, ?_⟩
  · unfold circuitWavefunction
    simp only [nQubits_valid n gs hgs, h1]
    rfl
  · rw [hst, zeroState_eq, stateOf_basisCol n 0 (Nat.two_pow_pos n), bv_zero]

/-- [task item (2), `basis_state_views_exec`] the circuit of X gates on the distinct GATE qubits `F`, run by the executable
    `circuitWavefunction` (`Lift.applyAll` from `zeroState n`), yields the basis state whose every view is the indicator
    tuple of `F`: amplitude 1 exactly at the index whose MSB-first bits are `indicator n F`; the exact distribution has
    probability 1 at the KEY `indicator n F`; under the law of `rng.choice` (no probability-0 item is drawn) every
    sampled TUPLE is `indicator n F` in both sampling regimes and the count string `indicator n F` collects all shots;
    and for every Z-type OPERATOR the sparse-path exact expectation is its eigenvalue read at the positions of
    `indicator n F`.  (`isOne 1`: the normalisation test of `Wavefunction` accepts total probability 1.) -/
theorem basis_state_views_exec (k : Scal R) (hi : k.i * k.i = -1) (h1 : k.cj 1 = 1) (tol : C09.Tol R)
    (isOne : R → Bool) (hone : isOne 1 = true) (n : Nat) (F : List Nat) (hnd : F.Nodup) (hF : ∀ q ∈ F, q < n) :
    ∃ amps : List R,
      circuitWavefunction k isOne n (F.map xOp) = some (.ok amps) ∧
      (∀ i, i < 2 ^ n → amps.getD i 0 = if bits n i = indicator n F then 1 else 0) ∧
      exactDistribution k amps =
        (List.range (2 ^ n)).map (fun i => (bits n i, if bits n i = indicator n F then (1 : R) else 0)) ∧
      List.lookup (indicator n F) (exactDistribution k amps) = some 1 ∧
      (∀ (nSamples : Int) (draws : List Nat), 1 ≤ nSamples → (draws.length : Int) = nSamples →
        (∀ i ∈ draws, normSq k (amps.getD i 0) ≠ 0) →
          runAndMeasure k amps nSamples draws = .ok (List.replicate draws.length (indicator n F)) ∧
          (getCounts (List.replicate draws.length (indicator n F))).get (tupleToBitstring (indicator n F))
            = draws.length) ∧
      (∀ s : PSum R, ZType n s →
        C09.getExpectationValue k tol s amps false = some (eigenvalue s (indicator n F))) := by
  obtain ⟨w, h2, hr, hc, hamps⟩ := exec_x_chain_zero (R := R) n F hnd hF
  have hA : colAmps w = basisAmps n F := hamps
  refine ⟨basisAmps n F, ?_, ?_, basis_distribution k h1 n F, basis_lookup k h1 n F, ?_, ?_⟩
  · unfold circuitWavefunction
    simp only [nQubits_valid n _ (xOps_valid n F hF), h2, Option.map_some]
    have : (List.range w.r).map (fun i => w.get i 0) = basisAmps (R := R) n F := hA
    rw [this, basis_mkWavefunction k h1 isOne hone]
  · intro i hi'
    rw [basisAmps_getD]
    simp only [bits_eq_indicator_iff n F i hi']
  · intro nSamples draws hs hcount hlaw
    exact ⟨basis_samples k n F nSamples hs draws hcount hlaw, basis_counts _ _⟩
  · intro s hs
    rw [exact_Z_expectation_sparse k hi tol n s hs _ (basisAmps_length n F)]
    congr 1
    rw [Finset.sum_eq_single (basisIndex n F)]
    · rw [basis_normSq k h1, if_pos rfl, one_mul, bits_basisIndex]
    · intro i _ hne
      rw [basis_normSq k h1, if_neg hne, zero_mul]
    · intro h; exact absurd (Finset.mem_range.mpr (basisIndex_lt n F)) h

/-- [measured = exact on the basis state] for the same circuit, `Measurements.get_expectation_values` on the sampled shots
    returns per-term values whose sum is the sparse-path exact expectation.
    PARTIAL: widths n ≥ 1 only.  Missing: n = 0, where the code raises on shots of the empty register (C04
    `measured_expectation_eq_shot_average_partial`, known finding `width-0-measured-raise`). -/
theorem basis_state_measured_eq_exact_exec_partial (k : Scal R) (hi : k.i * k.i = -1) (h1 : k.cj 1 = 1) (tol : C09.Tol R)
    (isOne : R → Bool) (hone : isOne 1 = true) (ofRat : Rat → R) (hof : ∀ z : Int, ofRat (z : Rat) = (z : R))
    (n : Nat) (hn : 1 ≤ n) (F : List Nat) (hnd : F.Nodup) (hF : ∀ q ∈ F, q < n)
    (s : PSum R) (hs : ZType n s) (nSamples : Int) (hsamp : 1 ≤ nSamples) (draws : List Nat)
    (hcount : (draws.length : Int) = nSamples) :
    ∃ amps : List R, circuitWavefunction k isOne n (F.map xOp) = some (.ok amps) ∧
      ((∀ i ∈ draws, normSq k (amps.getD i 0) ≠ 0) →
        ∃ shots vals e, runAndMeasure k amps nSamples draws = .ok shots ∧
          measuredExpectationValues ofRat s shots = .ok vals ∧
          C09.getExpectationValue k tol s amps false = some e ∧ vals.sum = e) := by
  obtain ⟨amps, hw, hget, _, _, hsam, hexp⟩ := basis_state_views_exec k hi h1 tol isOne hone n F hnd hF
  refine ⟨amps, hw, fun hlaw => ?_⟩
  have hm : 1 ≤ draws.length := by omega
  refine ⟨_, _, _, (hsam nSamples draws hsamp hcount hlaw).1, basis_measured ofRat n hn F s hs draws.length hm,
    hexp s hs, ?_⟩
  unfold eigenvalue
  congr 1
  apply List.map_congr_left
  intro t _
  rw [hof]

end

/-! ### non-vacuity: concrete inputs meeting the hypotheses (over the Gaussian integers, constants `C09.kG`) -/

open OQ.C09 in
example : kG.i * kG.i = -1 ∧ (∀ a, kG.cj a = star a) ∧ kG.cj 1 = 1 := ⟨by decide, fun _ => rfl, by decide⟩

/-- 2·Z₀Z₂ + 3·Z₁ − Z₂ on three qubits -/
def sZ : PSum GaussianInt := [⟨[(0, P.Z), (2, P.Z)], 2⟩, ⟨[(1, P.Z)], 3⟩, ⟨[(2, P.Z)], -1⟩]

private theorem sZ_ztype : ZType 3 sZ := by
  intro t ht
  simp only [sZ, List.mem_cons, List.not_mem_nil, or_false] at ht
  rcases ht with rfl | rfl | rfl <;> exact ⟨by decide, by decide, by decide⟩

-- valid gate operations on 3 qubits, the zero state as initial column, a unitary own matrix
example : ∀ o ∈ [xOp (R := GaussianInt) 0, xOp 2], C01.OpValid 3 o := xOps_valid 3 [0, 2] (by decide)
example : (zeroState (R := GaussianInt) 3).r = 2 ^ 3 ∧ (zeroState (R := GaussianInt) 3).c = 1 := ⟨rfl, rfl⟩
example : (Mat.toM (2 ^ 1) (2 ^ 1) (Gates.x (R := GaussianInt)))ᴴ * Mat.toM (2 ^ 1) (2 ^ 1) Gates.x = 1 := by
  decide +kernel
-- the X gate on qubit 1 is off the support of Z₀Z₂
example : ∀ t ∈ zString (R := GaussianInt) [0, 2] 1, ∀ q ∈ (xOp (R := GaussianInt) 1).qs, q ∉ termQubits t := by decide

-- X₀ X₂ |000⟩ = |101⟩ = index 5, computed by the executable model; every view reads (1, 0, 1)
example : indicator 3 [0, 2] = [1, 0, 1] ∧ basisIndex 3 [0, 2] = 5 := by decide
example : circuitWavefunction C09.kG (fun x => decide (x = 1)) 3 ([0, 2].map xOp) =
    some (.ok [0, 0, 0, 0, 0, 1, 0, 0]) := by decide +kernel
example : C09.getExpectationValue C09.kG C09.Tol.exact sZ [0, 0, 0, 0, 0, 1, 0, 0] false = some 6 ∧
    eigenvalue sZ [1, 0, 1] = 6 := by
  rw [sparse_path_eq_dense C09.kG (by decide) _ sZ (ztype_sumWF 3 sZ sZ_ztype) 3 _ rfl]
  decide +kernel
example : runAndMeasure C09.kG ([0, 0, 0, 0, 0, 1, 0, 0] : List GaussianInt) 2 [5, 5] = .ok [[1, 0, 1], [1, 0, 1]] := by
  decide +kernel
-- the X gate on qubit 2 flips ⟨Z₀Z₂⟩ (2 ∈ {0,2}) and not ⟨Z₀Z₁⟩: sparse path on X₀|000⟩ = |100⟩ and X₂X₀|000⟩ = |101⟩
example : C09.getExpectationValue C09.kG C09.Tol.exact (zString [0, 2] 1) [0, 0, 0, 0, 1, 0, 0, 0] false = some (-1) ∧
    C09.getExpectationValue C09.kG C09.Tol.exact (zString [0, 2] 1) [0, 0, 0, 0, 0, 1, 0, 0] false = some 1 ∧
    C09.getExpectationValue C09.kG C09.Tol.exact (zString [0, 1] 1) [0, 0, 0, 0, 1, 0, 0, 0] false = some (-1) ∧
    C09.getExpectationValue C09.kG C09.Tol.exact (zString [0, 1] 1) [0, 0, 0, 0, 0, 1, 0, 0] false = some (-1) := by
  rw [sparse_path_eq_dense C09.kG (by decide) _ _ (ztype_sumWF 3 _ (zString_ztype 3 [0, 2] (by decide) (by decide) 1)) 3 _ rfl,
    sparse_path_eq_dense C09.kG (by decide) _ _ (ztype_sumWF 3 _ (zString_ztype 3 [0, 2] (by decide) (by decide) 1)) 3 _ rfl,
    sparse_path_eq_dense C09.kG (by decide) _ _ (ztype_sumWF 3 _ (zString_ztype 3 [0, 1] (by decide) (by decide) 1)) 3 _ rfl,
    sparse_path_eq_dense C09.kG (by decide) _ _ (ztype_sumWF 3 _ (zString_ztype 3 [0, 1] (by decide) (by decide) 1)) 3 _ rfl]
  decide +kernel
example : xConj 2 sZ = [⟨[(0, P.Z), (2, P.Z)], -1 * 2⟩, ⟨[(1, P.Z)], 1 * 3⟩, ⟨[(2, P.Z)], -1 * -1⟩] := rfl

-- a two-qubit gate on the qubits (2, 0): its slots {0} name the operator qubit 2, its slots {0, 1} the qubits 2 and 0
example : slotQubits [2, 0] {0} = [2] ∧ slotQubits [2, 0] {0, 1} = [2, 0] := by decide

-- the theorems instantiated at these inputs
example := exact_Z_expectation_sparse C09.kG (by decide) C09.Tol.exact 3 sZ sZ_ztype [0, 0, 0, 0, 0, 1, 0, 0] rfl
example := x_gate_flips_Z_exec C09.kG (by decide) (fun _ => rfl) C09.Tol.exact 3 [xOp 0]
  (xOps_valid 3 [0] (by decide)) 2 (by decide) [0, 2] (by decide) (by decide) (zeroState 3) rfl rfl
example := gate_off_support_preserves_Z_exec C09.kG (by decide) (fun _ => rfl) C09.Tol.exact 3 (zString [0, 2] 1)
  (zString_ztype 3 [0, 2] (by decide) (by decide) 1) [xOp 0] (xOps_valid 3 [0] (by decide)) (xOp 1)
  (xValid 3 1 (by decide)) (by decide +kernel) (by decide) (zeroState 3) rfl rfl
example := basis_state_views_exec C09.kG (by decide) (by decide) C09.Tol.exact (fun x => decide (x = 1)) (by decide)
  3 [0, 2] (by decide) (by decide)

end OQ.C04.Link
