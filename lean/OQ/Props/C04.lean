/-
  C04 — PROPERTY THEOREMS: every view of a simulated state agrees on which qubit is which.
  Model: OQ/Model/C04.lean.  Helper lemmas: OQ/Lemmas/C04.lean, OQ/Lemmas/C04_Spec.lean.

  Conventions.  `bits n i` is the MSB-first bit tuple of basis index `i` (qubit 0 = most significant bit, the
  convention of the gate embedding, property C01); `bv n i : BV (Fin n)` is the same thing as a bit assignment of
  the specification (`OQ.Spec.lift` places gates on qubits `ι`).  `signOf marked row` is the eigenvalue ±1 of
  ∏_{q ∈ marked} Z_q read at the POSITIONS `marked` of the tuple / count string `row`.

  All theorems except `measured_expectation_eq_shot_average_partial` hold for EVERY register width, including the degenerate register of width 0 (`Circuit()`): since the
  fix 6292974 the key of `get_outcome_probs` is `format(i, "0nb")[::-1][:n]`, i.e. the empty string for width 0
  (`format(0, "00b")` itself still prints "0"); positive examples for width 0 at the end of the file.
-/
import OQ.Lemmas.C04
namespace OQ.C04
open OQ.Pauli OQ.Spec Matrix

/-! ### the index conventions of the individual views -/

/-- [mechanism `get_outcome_probs`, ALL widths] the i-th entry of `Wavefunction.get_outcome_probs` is keyed by
    the REVERSED MSB-first bits of `i` and holds |amps[i]|². -/
theorem outcome_key_of_index {R : Type} [Zero R] [Mul R] (k : Scal R) (amps : List R) (n : Nat)
    (hlen : amps.length = 2 ^ n) (i : Nat) (hi : i < 2 ^ n) :
    (getOutcomeProbs k amps)[i]? = some ((bits n i).reverse, normSq k (amps.getD i 0)) :=
  outcome_entry k amps n hlen i hi

/-- [mechanism `bitstring_to_tuple`] converting a key string to a tuple reverses again: the key of index `i`
    becomes the MSB-first bits of `i`, i.e. position q of the tuple is qubit q. -/
theorem key_to_tuple (n i : Nat) : bitstringToTuple (bits n i).reverse = bits n i := by
  simp [bitstringToTuple]

/-- [mechanism `itertools.product` order, ALL widths] `dist_key_eq_bits`: the exact outcome distribution
    `get_measurement_outcome_distribution(circuit, None)` is, entry by entry, (MSB-first bits of i, |amps[i]|²). -/
theorem dist_key_eq_bits {R : Type} [Zero R] [Mul R] (k : Scal R) (amps : List R) (n : Nat)
    (hlen : amps.length = 2 ^ n) :
    exactDistribution k amps = (List.range (2 ^ n)).map (fun i => (bits n i, normSq k (amps.getD i 0))) := by
  unfold exactDistribution createDistribution getProbabilities
  rw [List.length_map, hlen, Nat.log2_two_pow, product01_eq]
  conv_lhs => rw [list_eq_map_range_getD amps 0, hlen]
  rw [List.map_map, List.zip_map']
  rfl

/-- [sentence "position q of a measured tuple … refers to the same physical qubit", both sampling regimes, ALL widths]
    `tuple_of_index`: whatever `n_samples ≥ 1` is (fewer or more than 2ⁿ – the two code paths), if `rng.choice` drew
    the indices `draws` (exactly `n_samples` of them, each an index of a basis state), `sample_from_wavefunction`
    returns exactly the tuples `bits n i`: position q holds bit q (qubit 0 most significant) of the drawn basis index. -/
theorem tuple_of_index {R : Type} [Mul R] (k : Scal R) (amps : List R) (n : Nat)
    (hlen : amps.length = 2 ^ n) (nSamples : Int) (hs : 1 ≤ nSamples) (draws : List Nat)
    (hcount : (draws.length : Int) = nSamples) (hdraw : ∀ i ∈ draws, i < 2 ^ n) :
    sampleFromWavefunction k amps nSamples draws = .ok (draws.map (fun i => Drawn.tuple (bits n i))) ∧
    runAndMeasure k amps nSamples draws = .ok (draws.map (bits n)) :=
  ⟨sample_eq k amps n hlen nSamples hs draws hcount hdraw, run_eq k amps n hlen nSamples hs draws hcount hdraw⟩

/-- [sentence "this holds whether few or many samples are requested"] `branches_agree`: on every list of key strings
    and every draw of indices of those strings, the convert-first branch (`len < n_samples`) and the convert-after
    branch return the same tuples. -/
theorem branches_agree (strings : List (List Nat)) (draws : List Nat) (h : ∀ i ∈ draws, i < strings.length) :
    sampleBranchLarge strings draws = sampleBranchSmall strings draws := by
  rw [sampleBranchLarge_eq strings draws h, sampleBranchSmall_eq strings draws h]

/-- [sentence "every sampled outcome has … length equal to the register width", ALL widths] and exactly `n_samples`
    outcomes are returned. -/
theorem sample_length {R : Type} [Mul R] (k : Scal R) (amps : List R) (n : Nat)
    (hlen : amps.length = 2 ^ n) (nSamples : Int) (hs : 1 ≤ nSamples) (draws : List Nat)
    (hcount : (draws.length : Int) = nSamples) (hdraw : ∀ i ∈ draws, i < 2 ^ n) :
    ∃ shots, runAndMeasure k amps nSamples draws = .ok shots ∧ (shots.length : Int) = nSamples ∧
      ∀ t ∈ shots, t.length = n := by
  refine ⟨draws.map (bits n), run_eq k amps n hlen nSamples hs draws hcount hdraw, by simpa using hcount, ?_⟩
  intro t ht
  obtain ⟨i, _, rfl⟩ := List.mem_map.mp ht
  exact bits_length n i

/-- [sentence "every sampled outcome has non-zero exact probability", ALL widths] under the law of `rng.choice`
    (an item of probability 0 is never drawn: `hlaw`), every sampled tuple is a key of the exact outcome distribution
    and the probability stored under that key is non-zero (it is |amps[i]|² of the drawn index). -/
theorem sample_nonzero_prob {R : Type} [Zero R] [Mul R] (k : Scal R) (amps : List R) (n : Nat)
    (hlen : amps.length = 2 ^ n) (nSamples : Int) (hs : 1 ≤ nSamples) (draws : List Nat)
    (hcount : (draws.length : Int) = nSamples) (hdraw : ∀ i ∈ draws, i < 2 ^ n)
    (hlaw : ∀ i ∈ draws, normSq k (amps.getD i 0) ≠ 0) :
    ∃ shots, runAndMeasure k amps nSamples draws = .ok shots ∧
      ∀ t ∈ shots, ∃ p, List.lookup t (exactDistribution k amps) = some p ∧ p ≠ 0 := by
  refine ⟨draws.map (bits n), run_eq k amps n hlen nSamples hs draws hcount hdraw, ?_⟩
  intro t ht
  obtain ⟨i, hi, rfl⟩ := List.mem_map.mp ht
  refine ⟨normSq k (amps.getD i 0), ?_, hlaw i hi⟩
  rw [dist_key_eq_bits k amps n hlen]
  apply lookup_of_mem
  · rw [List.map_map]; exact bits_keys_nodup n
  · exact List.mem_map.mpr ⟨i, List.mem_range.mpr (hdraw i hi), rfl⟩

/-- [sentence "… sampled measurement tuples and their count strings …"] `counts_key_position`: `get_counts` of the
    sampled tuples maps the digit string of `bits n i` (character q = tuple position q = bit q of i) to the number of
    times index i was drawn; every key is one of the sampled tuples and the counts add up to the number of shots. -/
theorem counts_key_position (n : Nat) (draws : List Nat) (hdraw : ∀ d ∈ draws, d < 2 ^ n) :
    (∀ i, i < 2 ^ n → (getCounts (draws.map (bits n))).get (tupleToBitstring (bits n i)) = draws.count i) ∧
    (∀ p ∈ getCounts (draws.map (bits n)), ∃ i ∈ draws, p.1 = bits n i) ∧
    ((getCounts (draws.map (bits n))).map (·.2)).sum = draws.length := by
  refine ⟨fun i hi => ?_, fun p hp => ?_, by rw [getCounts_total]; simp⟩
  · rw [getCounts_get]; exact count_bits n draws hdraw i hi
  · obtain ⟨i, hi, e⟩ := List.mem_map.mp (getCounts_keys _ p hp)
    exact ⟨i, hi, e.symm⟩

/-! ### expectation values -/

section
variable {R : Type} [CommRing R]

/-- [sentence "the exact expectation of any Z-type operator equals the average of its eigenvalues under the exact
    outcome distribution", first half] `exact_Z_expectation`: for every Z-type operator `s` inside the register,
    `get_expectation_value` (ψ† · S · ψ with the Kronecker matrix, qubit 0 the leftmost factor) returns
    Σᵢ |ψᵢ|² · λ_s(bits n i), where λ_s reads the eigenvalue at the tuple POSITIONS named by the operator's qubit indices. -/
theorem exact_Z_expectation (k : Scal R) (n : Nat) (s : PSum R) (hs : ZType n s) (amps : List R)
    (hlen : amps.length = 2 ^ n) :
    getExpectationValue k s amps =
      .ok (∑ i ∈ Finset.range (2 ^ n), normSq k (amps.getD i 0) * eigenvalue s (bits n i)) := by
  unfold getExpectationValue
  simp only
  rw [hlen, Nat.log2_two_pow]
  have : ¬ n < PSum.nQubits s := by
    have := nQubits_le n s (fun t ht => (hs t ht).2.2)
    omega
  rw [if_neg this, expectation_ztype k n s hs amps hlen]

/-- [same sentence, second half] … and that number is literally the eigenvalue average over the exact outcome
    distribution object: Σ over its (key, probability) entries of probability · λ_s(key). -/
theorem exact_expectation_eq_distribution_average (k : Scal R) (n : Nat) (s : PSum R) (hs : ZType n s)
    (amps : List R) (hlen : amps.length = 2 ^ n) :
    getExpectationValue k s amps =
      .ok (((exactDistribution k amps).map (fun p => p.2 * eigenvalue s p.1)).sum) := by
  rw [exact_Z_expectation k n s hs amps hlen, dist_key_eq_bits k amps n hlen, List.map_map, sum_map_range]
  rfl

/-- [sentence "expectation values computed from measurements … use the same qubit numbering"]
    `Measurements.get_expectation_values` on shots of width n: the value of each term is its coefficient times the
    average over the shots of the eigenvalue read at the POSITIONS named by the term's qubit indices – the same
    `signOf` as in `exact_Z_expectation`.
    PARTIAL: widths n ≥ 1 only.  Missing: n = 0, where the statement is FALSE of the code – for shots `()` of the empty
    register `_convert_bitstrings_to_vector` does `reshape(-1, 0)` and raises ValueError even for a constant
    operator (negative witness at the end of the file). -/
theorem measured_expectation_eq_shot_average_partial (ofRat : Rat → R) (n : Nat) (hn : 1 ≤ n) (s : PSum R) (hs : ZType n s)
    (shots : List (List Nat)) (hne : shots ≠ []) (hw : ∀ t ∈ shots, t.length = n) :
    measuredExpectationValues ofRat s shots =
      .ok (s.map (fun t => t.coeff *
        ofRat ((((shots.map (signOf (termQubits t))).sum : Int) : Rat) / (shots.length : Rat)))) := by
  unfold measuredExpectationValues
  rw [isIsing_of s (fun t ht => (hs t ht).1)]
  simp only [Bool.not_true, Bool.false_eq_true, if_false]
  apply mapM_except_of_forall
  intro t ht
  rw [expectationFromFrequencies_counts (termQubits t) n hn shots hne hw (hs t ht).2.2]
  rfl

end

/-! ### gate qubit q = operator qubit q = tuple position q  (specification semantics of "gate on qubits") -/

section
variable {R : Type} [CommRing R] [StarRing R] {κ μ ι : Type}
  [Fintype κ] [DecidableEq κ] [Fintype μ] [DecidableEq μ] [Fintype ι] [DecidableEq ι]

omit [StarRing R] in
/-- [tuple position q = operator qubit q] the eigenvalue read at the marked POSITIONS of the tuple of basis index
    `k` is the eigenvalue of the Z-type operator on the QUBITS `marked ⊆ Fin n` at the bit assignment `bv n k` –
    the index type `Fin n` on which `OQ.Spec.lift` places gates. -/
theorem position_is_operator_qubit (n k : Nat) (marked : List Nat) (hnd : marked.Nodup) (hr : ∀ q ∈ marked, q < n) :
    ((signOf marked (bits n k) : Int) : R) = zsign (qubitSet n marked) (bv n k) :=
  signOf_bits_eq_zsign n k marked hnd hr

/-- [exact expectation in specification form] for the state ψ over bit assignments with ψ(bv n i) = amps[i] (the
    identification of the amplitude vector with the specification's state, property C01), the value computed by
    `get_expectation_value` on the amplitude list is Σₜ cₜ ⟨ψ| Z_{qubits of t} |ψ⟩. -/
theorem exact_Z_expectation_spec (k : Scal R) (hcj : ∀ a, k.cj a = star a) (n : Nat) (s : PSum R) (hs : ZType n s)
    (amps : List R) (hlen : amps.length = 2 ^ n) (ψ : BV (Fin n) → R)
    (hψ : ∀ i, i < 2 ^ n → amps.getD i 0 = ψ (bv n i)) :
    getExpectationValue k s amps =
      .ok ((s.map (fun t => t.coeff * ev (Matrix.diagonal (zsign (qubitSet n (termQubits t)))) ψ)).sum) := by
  unfold getExpectationValue
  simp only
  rw [hlen, Nat.log2_two_pow]
  have : ¬ n < PSum.nQubits s := by
    have := nQubits_le n s (fun t ht => (hs t ht).2.2)
    omega
  rw [if_neg this, expectation_ztype_spec k hcj n s hs amps hlen ψ hψ]

omit [StarRing R] in
/-- [operator qubit q = gate qubit q] the Z-type operator on the operator-qubits `σ (inl k)`, k ∈ S', IS the lift,
    along the very placement σ used for gates, of the Z-type operator on the gate's own qubits S'. -/
theorem operator_qubit_is_gate_qubit (σ : κ ⊕ μ ≃ ι) (S' : Finset κ) :
    Matrix.diagonal (zsign (R := R) (S'.map ⟨fun k => σ (Sum.inl k), fun a b h => by simpa using h⟩)) =
      lift σ (Matrix.diagonal (zsign S')) :=
  zdiag_lift σ S'

/-- [consequence] a unitary gate on qubits disjoint from a Z-type operator's qubits leaves its expectation unchanged. -/
theorem gate_off_support_preserves_Z (σ : κ ⊕ μ ≃ ι) (M : Matrix (BV κ) (BV κ) R) (hM : Mᴴ * M = 1)
    (S : Finset ι) (hS : ∀ k, σ (Sum.inl k) ∉ S) (ψ : BV ι → R) :
    ev (Matrix.diagonal (zsign S)) (lift σ M *ᵥ ψ) = ev (Matrix.diagonal (zsign S)) ψ :=
  ev_zdiag_off_support σ M hM S hS ψ

/-- [consequence] a gate on the operator's own qubits: the Heisenberg-picture operator Mᴴ Z_{S'} M is computed on the
    gate's qubits and placed by the same σ. -/
theorem gate_on_support_local (σ : κ ⊕ μ ≃ ι) (M : Matrix (BV κ) (BV κ) R) (S' : Finset κ) (ψ : BV ι → R) :
    ev (Matrix.diagonal (zsign (S'.map ⟨fun k => σ (Sum.inl k), fun a b h => by simpa using h⟩)))
        (lift σ M *ᵥ ψ) =
      ev (lift σ (Mᴴ * Matrix.diagonal (zsign S') * M)) ψ :=
  ev_zdiag_on_support σ M S' ψ

/-- [consequence, the sharpest test of the numbering] an X gate on gate-qubit q flips the sign of ⟨Z_S⟩ exactly when
    operator-qubit q belongs to S, for every state and every S. -/
theorem x_gate_flips_Z (σ : Unit ⊕ μ ≃ ι) (S : Finset ι) (ψ : BV ι → R) :
    ev (Matrix.diagonal (zsign S)) (lift σ (xGate (R := R)) *ᵥ ψ) =
      (if σ (Sum.inl ()) ∈ S then -1 else 1) * ev (Matrix.diagonal (zsign S)) ψ :=
  ev_zdiag_x σ S ψ

end

/-! ### non-vacuity: concrete non-trivial inputs meeting the hypotheses -/

-- |ψ⟩ = X₀ · RY₂(θ)|000⟩ with cos θ/2 = 4/5: amplitudes 4/5 at index 4 = (1,0,0), 3/5 at index 5 = (1,0,1)
example : (getOutcomeProbs Scal.cyc8 [0, 0, 0, 0, ⟨4/5, 0, 0, 0⟩, ⟨3/5, 0, 0, 0⟩, 0, 0])[4]? =
    some ([0, 0, 1], ⟨16/25, 0, 0, 0⟩) := by decide +kernel
example : (exactDistribution Scal.cyc8 [0, 0, 0, 0, ⟨4/5, 0, 0, 0⟩, ⟨3/5, 0, 0, 0⟩, 0, 0])[5]? =
    some ([1, 0, 1], ⟨9/25, 0, 0, 0⟩) := by decide +kernel
-- fewer samples than basis states (3 < 8) and more (9 > 8): the same tuples for the same drawn indices
example : runAndMeasure Scal.cyc8 [0, 0, 0, 0, ⟨4/5, 0, 0, 0⟩, ⟨3/5, 0, 0, 0⟩, 0, 0] 3 [4, 5, 4] =
    .ok [[1, 0, 0], [1, 0, 1], [1, 0, 0]] := by decide +kernel
example : runAndMeasure Scal.cyc8 [0, 0, 0, 0, ⟨4/5, 0, 0, 0⟩, ⟨3/5, 0, 0, 0⟩, 0, 0] 9 [4, 5, 4, 4, 4, 5, 5, 4, 4] =
    .ok [[1, 0, 0], [1, 0, 1], [1, 0, 0], [1, 0, 0], [1, 0, 0], [1, 0, 1], [1, 0, 1], [1, 0, 0], [1, 0, 0]] := by
  decide +kernel
example : sampleBranchLarge [[0, 0], [1, 0], [0, 1], [1, 1]] [1, 2, 1] =
    sampleBranchSmall [[0, 0], [1, 0], [0, 1], [1, 1]] [1, 2, 1] := by decide
example : getCounts [[1, 0, 0], [1, 0, 1], [1, 0, 0]] = [([1, 0, 0], 2), ([1, 0, 1], 1)] := by decide
-- a Z-type operator meeting `ZType 3`: 2·Z₀Z₂ + 3·Z₁ + ½·Z₂ ;  ⟨·⟩ = 129/50 on the state above
example : ZType (R := Cyc8) 3 [⟨[(0, P.Z), (2, P.Z)], 2⟩, ⟨[(1, P.Z)], 3⟩, ⟨[(2, P.Z)], ⟨1/2, 0, 0, 0⟩⟩] := by
  intro t ht
  simp only [List.mem_cons, List.not_mem_nil, or_false] at ht
  rcases ht with rfl | rfl | rfl <;> exact ⟨by decide, by decide, by decide⟩
example : getExpectationValue Scal.cyc8 [⟨[(0, P.Z), (2, P.Z)], 2⟩, ⟨[(1, P.Z)], 3⟩, ⟨[(2, P.Z)], ⟨1/2, 0, 0, 0⟩⟩]
    [0, 0, 0, 0, ⟨4/5, 0, 0, 0⟩, ⟨3/5, 0, 0, 0⟩, 0, 0] = .ok ⟨129/50, 0, 0, 0⟩ := by decide +kernel
example : expectationFromFrequencies [0, 2] (getCounts [[1, 0, 0], [1, 0, 1], [1, 0, 0]]) = .ok (-1/3) := by
  decide +kernel
example : signOf [0, 2] [1, 0, 1] = 1 ∧ signOf [0, 2] [1, 0, 0] = -1 ∧ signOf [1] [1, 0, 0] = 1 := by decide

-- specification level: a gate placed on qubit 0 of three (`sigma0`), a Z-type operator on qubits {1,2} (disjoint) resp.
-- {0,2} (containing the gate qubit), and a unitary gate matrix
example : sigma0 (Sum.inl ()) = 0 ∧ (∀ k, sigma0 (Sum.inl k) ∉ ({1, 2} : Finset (Fin 3))) ∧
    sigma0 (Sum.inl ()) ∈ ({0, 2} : Finset (Fin 3)) := by decide
example : ((1 : Matrix (BV Unit) (BV Unit) ℤ))ᴴ * 1 = 1 := by simp
example : bv 3 4 = fun q => decide (q = 0) := by decide

/-! ### the register of width 0 (`Circuit()`, amplitude vector `[1]`): positive examples (regression of fix 6292974) -/

-- `format(0, "00b")` itself still prints one digit …
example : formatBin 0 0 = [0] := by decide
-- … but the key of get_outcome_probs is sliced to the register width: the empty string
example : getOutcomeProbs Scal.cyc8 [1] = [([], 1)] := by decide +kernel
-- so a sampled tuple is `()` of length 0 = register width, in both regimes, with counts {"": n} …
example : runAndMeasure Scal.cyc8 [1] 1 [0] = .ok [[]] ∧ runAndMeasure Scal.cyc8 [1] 3 [0, 0, 0] = .ok [[], [], []] := by
  decide +kernel
example : getCounts [[], [], []] = [([], 3)] := by decide
-- … and it is the key of the exact distribution, with probability 1
example : exactDistribution Scal.cyc8 [1] = [([], 1)] ∧ List.lookup [] (exactDistribution Scal.cyc8 [1]) = some 1 := by
  decide +kernel

/-! ### negative witness (width 0, still open): expectation values from measurements of the empty register -/

-- the constant operator 2·I has exact expectation 2 on the width-0 state …
example : getExpectationValue Scal.cyc8 [⟨[], 2⟩] [1] = .ok 2 := by decide +kernel
-- … but computing it from the shots `()` raises (reshape(-1, 0)) instead of returning [2]
example : measuredExpectationValues Cyc8.ofRat [⟨[], (2 : Cyc8)⟩] [[], [], []] = .error Err.value := by decide +kernel

end OQ.C04
