/- C09 — PROPERTY THEOREMS (translation ties): `utils.bin2dec` / `utils.dec2bin` (used by `get_pauliop_from_matrix`).
   The definitions `OQ.Generated.Translated.*` are REGENERATED from /repo's current Python source on every run
   (harness/translate.py → OQ/Generated/TranslatedC09.lean); an edit of the Python function changes the definition and
   these equalities stop checking at build time. -/
import OQ.Generated.TranslatedC09
import OQ.Lemmas.Translated
namespace OQ.C09
open OQ.Generated OQ.Py OQ.Tr

/-- TRANSLATION TIE: the loop of `bin2dec` (running power of two times the digits read from the END) regenerated from the
    current Python source computes the model's `bin2dec` (element 0 most significant), for EVERY list of digits. -/
theorem translated_bin2dec_eq (x : List Nat) :
    Translated.bin2dec (x.map Int.ofNat) = ((OQ.C09.bin2dec x : Nat) : Int) := by
  have h := fold_state (x.map Int.ofNat) x.length
  simp only [List.length_map] at h
  have h2 := congrArg Prod.fst h
  rw [littleEndianSum] at h2
  simp only at h2
  rw [← h2]
  unfold Translated.bin2dec
  simp only [Int.toNat_natCast, List.length_map]

/-- TRANSLATION TIE: `dec2bin(number, length)` regenerated from the current Python source (`bin`, slice, zero padding) is the
    model's `dec2bin` (digits most significant first, padded – never truncated – to `length`) whenever the `sys.exit` guard
    `2**length < number` does not fire. -/
theorem translated_dec2bin_eq (x len : Nat) (h : x ≤ 2 ^ len) :
    Translated.dec2bin (x : Int) (len : Int) = some ((OQ.C09.dec2bin x len).map Int.ofNat) := by
  unfold Translated.dec2bin
  have hg : ¬ ((2 : Int) ^ (len : Int).toNat < (x : Int)) := by
    simp only [Int.toNat_natCast]; exact_mod_cast Nat.not_lt.mpr h
  simp only [hg, decide_false, Bool.false_eq_true, if_false]
  rw [bin_ofNat]
  have hs : OQ.Py.slice ('0' :: 'b' :: (binDigits x).map digitChar)
      2 ((('0' :: 'b' :: (binDigits x).map digitChar).length : Nat) : Int) = (binDigits x).map digitChar := by
    simp only [OQ.Py.slice, List.length_cons, Int.toNat_natCast]
    rw [List.take_of_length_le (by simp)]
    rfl
  rw [hs]
  have hd : ((binDigits x).map digitChar).map (fun c => charDigit c) = (binDigits x).map Int.ofNat :=
    map_charDigit_digitChar _ (fun d hd => Nat.lt_trans (binDigitsFuel_lt_two _ _ d hd) (by decide))
  rw [hd]
  simp only [List.length_map, binDigits_length, List.map_id']
  unfold OQ.C09.dec2bin
  by_cases hl : OQ.C09.bitLength x < len
  · have hl' : ((OQ.C09.bitLength x : Nat) : Int) < (len : Int) := by exact_mod_cast hl
    simp only [hl', decide_true, if_true]
    have hmax : max len (OQ.C09.bitLength x) = len := by omega
    simp only [hmax]
    have hx : x < 2 ^ len := lt_of_lt_of_le (lt_two_pow_bitLength x) (Nat.pow_le_pow_right (by decide) (le_of_lt hl))
    have := OQ.C04.binDigitsFuel_pad len (by omega) x x hx (le_refl _)
    rw [← binDigitsFuel_eq, binDigitsFuel_length x x (le_refl _)] at this
    congr 1
    have e : ((len : Int) - (OQ.C09.bitLength x : Int)).toNat = len - OQ.C09.bitLength x := by omega
    rw [e]
    have e2 : List.replicate (len - OQ.C09.bitLength x) (0 : Int) = (List.replicate (len - OQ.C09.bitLength x) (0 : Nat)).map Int.ofNat := by
      simp
    rw [e2, ← List.map_append]
    congr 1
  · have hl' : ¬ ((OQ.C09.bitLength x : Nat) : Int) < (len : Int) := by exact_mod_cast hl
    simp only [hl', decide_false, Bool.false_eq_true, if_false]
    have hmax : max len (OQ.C09.bitLength x) = OQ.C09.bitLength x := by omega
    simp only [hmax]
    rw [binDigits_eq_bits]
    rfl

/-- END-TO-END ON THE CODE AS IT IS NOW: `bin2dec(dec2bin(x, length)) == x` for every `x ≤ 2**length`, and `dec2bin` returns at
    least `length` digits – the index arithmetic `f(j)` / `decode` of `get_pauliop_from_matrix` rests on exactly this. -/
theorem translated_bin2dec_dec2bin (x len : Nat) (h : x ≤ 2 ^ len) :
    ∃ l : List Nat, Translated.dec2bin (x : Int) (len : Int) = some (l.map Int.ofNat) ∧
      len ≤ l.length ∧ Translated.bin2dec (l.map Int.ofNat) = (x : Int) := by
  refine ⟨OQ.C09.dec2bin x len, translated_dec2bin_eq x len h, ?_, ?_⟩
  · rw [dec2bin_eq_bits, OQ.C04.bits_length]; exact le_max_left _ _
  · rw [translated_bin2dec_eq, bin2dec_dec2bin]

/-! non-vacuity -/
example : Translated.dec2bin 6 4 = some [0, 1, 1, 0] := by decide
example : Translated.dec2bin 17 4 = none := by decide
example : Translated.bin2dec [1, 1, 0] = 6 := by decide
end OQ.C09
