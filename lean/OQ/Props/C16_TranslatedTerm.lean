/- C16 — PROPERTY THEOREMS (translation tie, work package T11): `time_evolution_for_term` of `evolution.py` (the loops of
   `time_evolution` and `_generate_circuit_sequence` are tied in `C16_TranslatedSeq.lean`).

   `OQ.Generated.Translated.time_evolution_for_term` is REGENERATED from /repo's current Python source on every run
   (harness/translate_t11.py → OQ/Generated/TranslatedC16.lean).  The term (θ), the time (τ), circuits (γ), operations (ω), gates (κ),
   real numbers (ϕ), the complex coefficient (ψ) and the frozenset `term.operations` (ο) are OPAQUE; every operation on them is a
   parameter: `ext_Circuit0` (`Circuit()`), `attr_qubits` (the iteration order of the SET `term.qubits`; `sorted` itself is the
   prelude's `sortedInts`, compared with CPython on every run), `attr_is_constant`, `attr_coefficient`, `attr_imag`, `attr_real`,
   `ext_abs`, `const_1e_9`, `ext_gt` (`abs(x) > 1e-9`), `ext_getitem` (`term[q]`), `ext_H`, `ext_RX`, `ext_RZ`, `ext_CNOT`,
   `call_gate` (`gate(q)`), `ext_add_op` / `ext_add` (`circuit + operation`, `circuit + circuit`; `x += e` rebinds – `Circuit` has no
   `__iadd__`, checked by the translator), `const_np_pi`, `ext_div` (`np.pi / 2`), `ext_mul_int`, `ext_mul` (`2 * time * c`),
   `attr_operations` / `ext_len` (`len(term.operations)`), `meth_inverse`.
   Python scoping is rendered as it is: `central_gate` is assigned only in the branch `i == len(term.operations) - 1` of the loop and
   read after it, so it is carried through the loop as `Option ω` starting at `none`, and reading it unbound is `none`
   (UnboundLocalError); `qubit_indices[i + 1]` is a CHECKED subscript (`OQ.Py.indexE`: IndexError → `none`), which makes the loop a
   raising fold (`OQ.Py.foldlOpt`).  The ties prove that neither happens.  `none` = the Python function raises. -/
import OQ.Generated.TranslatedC16
import OQ.Lemmas.C16_TranslatedTerm
import OQ.Props.C16
set_option linter.unusedSectionVars false
namespace OQ.C16
open OQ.Generated OQ.Pauli Matrix OQ.Spec

section tie
variable {Q T : Type} [One Q] [Mul Q] [Div Q] [Neg Q] [NatCast Q] [DecidableEq Q]

/-- `term[q]`: the letter at qubit `q` as a Python `str` (identity where the term does not act) -/
def letterAt (t : Term (Q × Q)) (q : Int) : List Char :=
  match t.opAt q.toNat with
  | some .X => ['X'] | some .Y => ['Y'] | some .Z => ['Z'] | none => ['I']

/-- the translated `time_evolution_for_term` at the model's reading of the opaque objects; `abs`, the float `1e-9` and `>` stay
    arbitrary (`ab`, `eps`, `gt`) -/
abbrev translatedTermEvolution (alg : TimeAlg Q T) (ab : Q → Q) (eps : Q) (gt : Q → Q → Bool) (t : Term (Q × Q)) (time : T) :
    Option (Circ T) :=
  Translated.time_evolution_for_term ([] : Circ T) (fun t : Term (Q × Q) => t.ops.map (fun p => Int.ofNat p.1))
    (fun t => t.ops.isEmpty) (fun t => t.coeff) (fun c : Q × Q => c.2) (fun c => c.1) ab eps gt letterAt
    (fun q => (⟨.H, [q.toNat]⟩ : GOp T)) (fun c o => c ++ [o]) alg.pi (fun x m => alg.smul (1 / ((m.toNat : Nat) : Q)) x)
    GateK.RX (fun g q => ⟨g, [q.toNat]⟩) (fun t => t.ops) (fun l => (l.length : Int))
    (fun m x => alg.smul ((m.toNat : Nat) : Q) x) (fun x q => alg.smul q x) GateK.RZ
    (fun a b => ⟨.CNOT, [a.toNat, b.toNat]⟩) inverse (fun a b => a ++ b) t time

/-- TRANSLATION TIE (`evolution.py:time_evolution_for_term`): the function regenerated from the current Python source – the constant
    guard, the ValueError for `abs(term.coefficient.imag) > 1e-9`, the loop over `enumerate(sorted(term.qubits))` (H for "X",
    RX(np.pi / 2) for "Y"; RZ(2 * time * coefficient.real) at index `len(term.operations) - 1`, otherwise CNOT(q, qubit_indices[i + 1])),
    `cnot_gates + central_gate + cnot_gates.inverse()` and `basis_change + … + basis_change.inverse()` – is the model's
    `evolutionForTerm` (`none` = raises) for EVERY term (any letters, any insertion order, any coefficient) and every time, whatever
    `abs`, `1e-9` and `>` are (the model's `negl x` is read as `not (abs(x) > 1e-9)`).  In particular the translated code never reads
    `central_gate` unbound and never indexes `qubit_indices` out of range. -/
theorem translated_time_evolution_for_term_eq (alg : TimeAlg Q T) (ab : Q → Q) (eps : Q) (gt : Q → Q → Bool)
    (t : Term (Q × Q)) (time : T) :
    translatedTermEvolution alg ab eps gt t time
      = (evolutionForTerm alg (fun x => !gt (ab x) eps) t time).toOption := by
  unfold translatedTermEvolution Translated.time_evolution_for_term evolutionForTerm
  dsimp only
  by_cases h0 : t.ops.isEmpty = true
  · simp only [h0, if_true]; rfl
  · have h0' : t.ops.isEmpty = false := by simpa using h0
    simp only [h0', Bool.false_eq_true, if_false, Bool.not_not]
    by_cases hg : gt (ab t.coeff.2) eps = true
    · simp only [hg, if_true]; rfl
    · have hg' : gt (ab t.coeff.2) eps = false := by simpa using hg
      simp only [hg', Bool.false_eq_true, if_false]
      have hmap : (t.ops.map (fun p => Int.ofNat p.1)) = (t.ops.map (·.1)).map Int.ofNat := by
        rw [List.map_map]; rfl
      rw [hmap, sortedInts_map]
      have hlen : (sortNat (t.ops.map (·.1))).length = t.ops.length := by rw [sortNat_length, List.length_map]
      rw [loop_spec_all _ (basisOps alg t)
        (fun q => ⟨.RZ (alg.smul t.coeff.1 (alg.smul ((2 : Nat) : Q) time)), [q]⟩) (sortNat (t.ops.map (·.1))) ?_]
      · simp only [Option.bind_some, sortedQubits, ← basisChange_flatMap]
        cases hl : (sortNat (t.ops.map (·.1))).getLast? with
        | none =>
          exfalso
          rw [List.getLast?_eq_none_iff] at hl
          have := congrArg List.length hl
          rw [hlen] at this
          cases hops : t.ops with
          | nil => simp [hops] at h0'
          | cons a l => simp [hops] at this
        | some last => rfl
      · intro b c cn i q
        have hidx : (((i : Nat) : Int) == ((t.ops.length : Nat) : Int) - 1) = decide (i + 1 = (sortNat (t.ops.map (·.1))).length) := by
          rw [hlen, Bool.eq_iff_iff, beq_iff_eq, decide_eq_true_iff]; omega
        have h2 : Int.toNat 2 = 2 := rfl
        simp only [letterAt, Int.toNat_natCast, hidx, h2, basisOps]
        cases t.opAt q with
        | none => by_cases hi : i + 1 = (sortNat (t.ops.map (·.1))).length <;> simp [hi]
        | some p =>
          cases p <;> by_cases hi : i + 1 = (sortNat (t.ops.map (·.1))).length <;> simp [hi]

/-! ## end-to-end: the structure of the circuit and the sentences of the property ON THE TRANSLATED CODE (through the tie) -/

/-- STRUCTURE of the translated `time_evolution_for_term` on a non-constant term with a negligible imaginary part: basis change –
    CNOT ladder – RZ(2·t·c) on the LAST sorted qubit – inverse ladder – inverse basis change, in this order -/
theorem translated_term_structure (alg : TimeAlg Q T) (ab : Q → Q) (eps : Q) (gt : Q → Q → Bool) (t : Term (Q × Q)) (time : T)
    (hne : t.ops ≠ []) (him : gt (ab t.coeff.2) eps = false) :
    ∃ last, (sortedQubits t).getLast? = some last ∧
      translatedTermEvolution alg ab eps gt t time
        = some (basisChange alg t (sortedQubits t) ++
            ((ladder (sortedQubits t) : Circ T) ++
              [⟨.RZ (alg.smul t.coeff.1 (alg.smul ((2 : Nat) : Q) time)), [last]⟩] ++ inverse (ladder (sortedQubits t))) ++
            inverse (basisChange alg t (sortedQubits t))) := by
  rw [translated_time_evolution_for_term_eq]
  cases hc : evolutionForTerm alg (fun x => !gt (ab x) eps) t time with
  | error e =>
    have := ((imag_rejected alg (fun x => !gt (ab x) eps) t time hne).2 e hc).1
    simp [him] at this
  | ok c =>
    obtain ⟨_, last, hl, rfl⟩ := evolutionForTerm_ok alg _ t time c hne hc
    exact ⟨last, hl, rfl⟩

/-- "a constant term gives an empty circuit" for the translated code (`constant_term_empty`) -/
theorem translated_constant_term_empty (alg : TimeAlg Q T) (ab : Q → Q) (eps : Q) (gt : Q → Q → Bool) (t : Term (Q × Q)) (time : T)
    (h : t.ops = []) : translatedTermEvolution alg ab eps gt t time = some [] := by
  rw [translated_time_evolution_for_term_eq, constant_term_empty alg _ t time h]; rfl

/-- "a non-negligible imaginary part is rejected" for the translated code (`imag_rejected`): a non-constant term raises EXACTLY when
    `abs(coefficient.imag) > 1e-9` -/
theorem translated_imag_rejected (alg : TimeAlg Q T) (ab : Q → Q) (eps : Q) (gt : Q → Q → Bool) (t : Term (Q × Q)) (time : T)
    (hne : t.ops ≠ []) :
    translatedTermEvolution alg ab eps gt t time = none ↔ gt (ab t.coeff.2) eps = true := by
  constructor
  · intro h
    by_contra hg
    obtain ⟨_, _, hs⟩ := translated_term_structure alg ab eps gt t time hne (by simpa using hg)
    rw [hs] at h; cases h
  · intro hg
    rw [translated_time_evolution_for_term_eq,
      (imag_rejected alg (fun x => !gt (ab x) eps) t time hne).1 (by simp [hg])]
    rfl

section sem
variable {R : Type} [CommRing R] [StarRing R] {ι : Type} [Fintype ι] [DecidableEq ι]

/-- `term_evolution` for the translated code: whenever the translated `time_evolution_for_term` returns a circuit for a non-constant
    term, its matrix is cos(tc)·1 − i·sin(tc)·P for the half-angle point of the central angle 2·t·c -/
theorem translated_term_evolution (k : Scal R) (hk : ScalLaws k) (alg : TimeAlg Q T) (ab : Q → Q) (eps : Q) (gt : Q → Q → Bool)
    (ang : T → Ang R) (hpi : ang (alg.smul (1 / ((2 : Nat) : Q)) alg.pi) = ⟨k.r, k.r⟩)
    (rg : Register ι) (t : Term (Q × Q)) (hcov : rg.Covers t) (hnd : (t.ops.map (·.1)).Nodup) (hne : t.ops ≠ [])
    (time : T) (c : Circ T) (hc : translatedTermEvolution alg ab eps gt t time = some c) :
    circSem k ang rg.e c
      = (ang (alg.smul t.coeff.1 (alg.smul ((2 : Nat) : Q) time))).ch • (1 : Matrix (BV ι) (BV ι) R)
        - (k.i * (ang (alg.smul t.coeff.1 (alg.smul ((2 : Nat) : Q) time))).sh)
            • pauliString k (fun p => t.opAt (rg.lab p)) := by
  rw [translated_time_evolution_for_term_eq] at hc
  have hc' : evolutionForTerm alg (fun x => !gt (ab x) eps) t time = .ok c := by
    cases h : evolutionForTerm alg (fun x => !gt (ab x) eps) t time with
    | error e => rw [h] at hc; cases hc
    | ok c' => rw [h] at hc; cases hc; rfl
  exact term_evolution k hk alg _ ang hpi rg t hcov hnd hne time c hc'
end sem

end tie

/-! non-vacuity (numbers and times are integers here: `smul` is `*`, `np.pi` is 3; X on qubit 2 inserted before Z on qubit 0) -/
def exAlg : TimeAlg Int Int := ⟨fun a b => a + b, fun q x => q * x, 3⟩
example : translatedTermEvolution exAlg (fun x => if x < 0 then -x else x) 0 (fun a b => decide (a > b))
    ⟨[(2, .X), (0, .Z)], (5, 0)⟩ 7
    = some [⟨.H, [2]⟩, ⟨.CNOT, [0, 2]⟩, ⟨.RZ 70, [2]⟩, ⟨.CNOT, [0, 2]⟩, ⟨.H, [2]⟩] := by decide
example : translatedTermEvolution exAlg (fun x => if x < 0 then -x else x) 0 (fun a b => decide (a > b))
    ⟨[(2, .X), (0, .Z)], (5, -1)⟩ 7 = none := by decide
example : translatedTermEvolution exAlg (fun x => if x < 0 then -x else x) 0 (fun a b => decide (a > b)) ⟨[], (5, 4)⟩ 7 = some [] := by
  decide
/-- a way the Python could raise besides the ValueError, shown on the TRANSLATED definition with externals that break the invariant
    `len(term.operations) = len(term.qubits)` (here `len(term.operations)` is 5 for two qubits): no index is the "last" one, so
    `qubit_indices[i + 1]` is read out of range at the second qubit (IndexError → `none`) -/
example : Translated.time_evolution_for_term ([] : List Int) (fun _ : Unit => [4, 1]) (fun _ => false) (fun _ => (0 : Int))
    (fun c => c) (fun c => c) (fun x : Int => x) 0 (fun a b => decide (a > b)) (fun _ _ => ['Z']) (fun q : Int => q) (fun c o => c ++ [o])
    (3 : Int) (fun x _ => x) (fun x : Int => x) (fun g q => g + q) (fun _ => (5 : Int)) (fun l => l) (fun m x => m * x) (fun x q => x * q)
    (fun x => x) (fun a b => 10 * a + b) (fun c => c.reverse) (fun a b => a ++ b) () 7 = none := by decide

end OQ.C16
