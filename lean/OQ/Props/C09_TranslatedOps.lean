/-
  C09 — TRANSLATION TIE for the operator utilities on PauliTerm / PauliSum OBJECTS: `hermitian_conjugated`, `is_hermitian`
  (operators/_openfermion_utils/operator_utils.py), rendered by harness/translate_t18.py into `OQ/Generated/TranslatedC09Ops.lean`
  (regenerated from /repo on every run), are equal to the hand-written model `OQ/Model/C09.lean` – the definitions every theorem of
  `Props/C09.lean` is about – and the property theorems are restated ON THE TRANSLATED CODE.

  Objects.  A model term `t : Term R` is the object state `C03.ofTerm t` (`_ops` = the dict with the same keys in the same order,
  `coefficient`), a model sum the list of its terms' states (`C03.ofSum`); `SumWF` / `TermWF`: the keys of every `_ops` are distinct
  (a Python dict).  The methods of the two classes the code calls (`copy`, `+=`, `==`, `len`) are the translated ones of package T7,
  tied to the model of C03; `Lemmas/C09_TranslatedOps.lean` bridges the two hand-written models of `simplify`.
  Externals.  `x : TranslatedPauli.Ext R` (np.isclose / np.allclose) is read as the model's tolerance record by `TolOf x tol`;
  `y.hash_eq` (`hash(a) == hash(b)` of two PauliTerm objects, `__hash__` is not translated) is assumed to be the model's
  `termHashEq` (`HashOf y tol`: equal rounded coefficient key and equal operation sets – distinct hashed tuples have distinct hashes);
  `c.conjugate()` is `k.cj`.
-/
import OQ.Lemmas.C09_TranslatedOps
import OQ.Props.C09

set_option linter.unusedSectionVars false
set_option linter.unusedSimpArgs false
set_option linter.unusedVariables false

namespace OQ.C09
open OQ OQ.Pauli OQ.Py OQ.Generated Matrix

variable {R : Type} [CommRing R] [StarRing R] [DecidableEq R]

/-- `hash(a) == hash(b)` on PauliTerm objects is the model's `termHashEq` -/
def HashOf (y : TranslatedOps.Ext9 R) (tol : Tol R) : Prop :=
  ∀ a b : Term R, TermWF a → TermWF b → y.hash_eq (C03.ofTerm a) (C03.ofTerm b) = termHashEq tol a b

/-! ### hermitian_conjugated -/

/-- TRANSLATION TIE `hermitian_conjugated(PauliTerm)` (`operator.copy(operator.coefficient.conjugate())`) = the model's
    `hermitianConjugatedTerm`, for every term whose `_ops` is a dict; nothing is raised. -/
theorem translated_hermitian_conjugated_term_eq (k : Scal R) (x : TranslatedPauli.Ext R) (y : TranslatedOps.Ext9 R) (t : Term R)
    (w : TermWF t) :
    TranslatedOps.hermitian_conjugated_term k x y (C03.ofTerm t) = .ok (C03.ofTerm (hermitianConjugatedTerm k t)) := by
  unfold TranslatedOps.hermitian_conjugated_term
  rw [C03.ofTerm_coeff, C03.term_copy_some k x t _ w]
  rfl

example : TranslatedOps.hermitian_conjugated_term (R := Int) ⟨0, 0, 0, 0, fun c => -c⟩ ⟨fun _ _ => false, fun _ _ => false, fun _ _ => none, fun a b => a == b, id⟩
    ⟨fun _ _ => true, id⟩ ⟨[(2, some P.X), (0, some P.Y)], 5⟩ = .ok ⟨[(2, some P.X), (0, some P.Y)], -5⟩ := rfl

/-- the loop `for term in operator.terms: conjugate_operator += term.copy(term.coefficient.conjugate())` -/
theorem hc_loop (k : Scal R) (x : TranslatedPauli.Ext R) (tol : Tol R) (h : TolOf x tol) (l acc : PSum R)
    (hl : SumWF l) (ha : SumWF acc) :
    foldlE (fun (st : TranslatedPauli.PSum R) (term : TranslatedPauli.PTerm R) =>
        Except.bind (TranslatedPauli.term_copy k x term (some (k.cj term.coefficient))) (fun __t2 =>
        Except.bind (TranslatedPauli.sum_add_term k x st __t2) (fun __t3 => Except.ok __t3)))
      (C03.ofSum acc) (C03.ofSum l)
      = .ok (C03.ofSum (l.foldl (fun acc t => addTerm tol acc (hermitianConjugatedTerm k t)) acc)) := by
  induction l generalizing acc with
  | nil => rfl
  | cons t l ih =>
    have wt : TermWF t := hl t List.mem_cons_self
    simp only [C03.ofSum, List.map_cons, foldlE, List.foldl_cons]
    rw [C03.ofTerm_coeff, C03.term_copy_some k x t _ wt]
    simp only [bind_ok]
    have := sum_add_term_eq k x tol h acc ⟨t.ops, k.cj t.coeff⟩ ha wt
    simp only [C03.ofSum] at this
    rw [this]
    simp only [bind_ok]
    exact ih _ (fun u hu => hl u (List.mem_cons_of_mem _ hu)) (addTerm_wf tol acc _ ha wt)

/-- TRANSLATION TIE `hermitian_conjugated(PauliSum)` (`PauliSum()`, then `+=` of every conjugated copy: each `+=` is the translated
    `PauliSum.__add__(PauliTerm)` with its `simplify`) = the model's `hermitianConjugated`, for every sum of dict-terms and every
    tolerance; nothing is raised. -/
theorem translated_hermitian_conjugated_sum_eq (k : Scal R) (x : TranslatedPauli.Ext R) (y : TranslatedOps.Ext9 R) (tol : Tol R)
    (h : TolOf x tol) (s : PSum R) (hs : SumWF s) :
    TranslatedOps.hermitian_conjugated_sum k x y (C03.ofSum s) = .ok (C03.ofSum (hermitianConjugated k tol s)) := by
  unfold TranslatedOps.hermitian_conjugated_sum TranslatedOps.sum_init_none
  simp only [List.map_nil, List.all_nil, Bool.and_true, Bool.not_true, Bool.false_eq_true, if_false, bind_ok]
  have := hc_loop k x tol h s [] hs (by intro t ht; cases ht)
  simp only [C03.ofSum, List.map_nil] at this
  simp only [C03.ofSum]
  rw [this]
  rfl

example : TranslatedOps.hermitian_conjugated_sum (R := Int) ⟨0, 0, 0, 0, fun c => -c⟩
    ⟨fun a b => a == b, fun a b => a == b, fun _ _ => none, fun a b => a == b, id⟩ ⟨fun _ _ => true, id⟩
    [⟨[(1, some P.Z)], 2⟩, ⟨[], 3⟩, ⟨[(1, some P.Z)], 5⟩] = .ok [⟨[(1, some P.Z)], -7⟩, ⟨[], -3⟩] := rfl

/-! ### is_hermitian -/

/-- TRANSLATION TIE `is_hermitian(PauliTerm)` (`operator == hermitian_conjugated(operator)` through the translated
    `PauliTerm.__eq__`) = the model's `isHermitianTerm`; nothing is raised. -/
theorem translated_is_hermitian_term_eq (k : Scal R) (x : TranslatedPauli.Ext R) (y : TranslatedOps.Ext9 R) (tol : Tol R)
    (h : TolOf x tol) (t : Term R) (w : TermWF t) :
    TranslatedOps.is_hermitian_term k x y (C03.ofTerm t) = .ok (isHermitianTerm k tol t) := by
  unfold TranslatedOps.is_hermitian_term
  rw [translated_hermitian_conjugated_term_eq k x y t w]
  simp only [bind_ok]
  rw [(C03.translated_term_eq_eq k x t (hermitianConjugatedTerm k t) 0).1]
  unfold isHermitianTerm termEq C03.eqTerm
  have e1 : C03.opsEq t.ops (hermitianConjugatedTerm k t).ops = true := C03.opsEq_refl w
  have e2 : sameOps t.ops (hermitianConjugatedTerm k t).ops = true := sameOps_refl _
  simp only [e1, e2, Bool.or_true, h.2]

/-- `x in s` for a set of PauliTerm objects = the model's `setMem` -/
theorem setMemBy_eq (k : Scal R) (x : TranslatedPauli.Ext R) (y : TranslatedOps.Ext9 R) (tol : Tol R) (h : TolOf x tol)
    (hh : HashOf y tol) (u : Term R) (wu : TermWF u) (S : PSum R) (hS : SumWF S) :
    setMemBy y.hash_eq (TranslatedPauli.term_eq_term k x) (C03.ofTerm u) (C03.ofSum S) = setMem tol u S := by
  unfold setMemBy setMem C03.ofSum
  rw [List.any_map]
  apply any_congr_mem
  intro v hv
  simp only [Function.comp]
  rw [hh v u (hS v hv) wu, (C03.translated_term_eq_eq k x v u 0).1]
  unfold termHashEq termEq C03.eqTerm
  rw [opsEq_eq_sameOps _ _ (hS v hv) wu]
  simp only [h.2]
  cases sameOps v.ops u.ops <;> simp

theorem toSet_wf (tol : Tol R) (l acc : PSum R) (hl : SumWF l) (ha : SumWF acc) :
    SumWF (l.foldl (fun S x => if setMem tol x S then S else S ++ [x]) acc) := by
  induction l generalizing acc with
  | nil => exact ha
  | cons t l ih =>
    rw [List.foldl_cons]
    apply ih _ (fun u hu => hl u (List.mem_cons_of_mem _ hu))
    split
    · exact ha
    · intro u hu
      rcases List.mem_append.mp hu with h | h
      · exact ha u h
      · simp only [List.mem_singleton] at h; subst h; exact hl u List.mem_cons_self

theorem setOfListBy_eq (k : Scal R) (x : TranslatedPauli.Ext R) (y : TranslatedOps.Ext9 R) (tol : Tol R) (h : TolOf x tol)
    (hh : HashOf y tol) (l acc : PSum R) (hl : SumWF l) (ha : SumWF acc) :
    (C03.ofSum l).foldl (fun s e => if setMemBy y.hash_eq (TranslatedPauli.term_eq_term k x) e s then s else s ++ [e]) (C03.ofSum acc)
      = C03.ofSum (l.foldl (fun S x => if setMem tol x S then S else S ++ [x]) acc) := by
  induction l generalizing acc with
  | nil => rfl
  | cons t l ih =>
    have wt := hl t List.mem_cons_self
    simp only [C03.ofSum, List.map_cons, List.foldl_cons]
    have e := setMemBy_eq k x y tol h hh t wt acc ha
    simp only [C03.ofSum] at e
    rw [e]
    have hl' : SumWF l := fun u hu => hl u (List.mem_cons_of_mem _ hu)
    by_cases hm : setMem tol t acc = true
    · simp only [hm, if_true]
      exact ih acc hl' ha
    · simp only [hm, Bool.false_eq_true, if_false]
      have ha' : SumWF (acc ++ [t]) := by
        intro u hu
        rcases List.mem_append.mp hu with h' | h'
        · exact ha u h'
        · simp only [List.mem_singleton] at h'; subst h'; exact wt
      have := ih (acc ++ [t]) hl' ha'
      simp only [C03.ofSum, List.map_append, List.map_cons, List.map_nil] at this
      exact this

/-- TRANSLATION TIE `PauliSum.__eq__(PauliSum)` (length test, then `set(self.terms) == set(other.terms)` with CPython's set
    semantics over the external `hash_eq` and the TRANSLATED `PauliTerm.__eq__`) = the model's `sumEq`.  Inside a set the two
    renderings of `PauliTerm.__eq__` (the code's `(close a 0 and close b 0) or ops equal`, the model's `close a 0 or ops equal`)
    cannot differ: an equal hash already means equal operations. -/
theorem translated_sum_eq_sum_eq (k : Scal R) (x : TranslatedPauli.Ext R) (y : TranslatedOps.Ext9 R) (tol : Tol R) (h : TolOf x tol)
    (hh : HashOf y tol) (a b : PSum R) (ha : SumWF a) (hb : SumWF b) :
    TranslatedOps.sum_eq_sum k x y (C03.ofSum a) (C03.ofSum b) = sumEq tol a b := by
  unfold TranslatedOps.sum_eq_sum sumEq
  dsimp only
  rw [(C03.translated_is_constant_eq k x ⟨[], 0⟩ a).2.2, (C03.translated_is_constant_eq k x ⟨[], 0⟩ b).2.2]
  have hA := setOfListBy_eq k x y tol h hh a [] ha (by intro t ht; cases ht)
  have hB := setOfListBy_eq k x y tol h hh b [] hb (by intro t ht; cases ht)
  have wA : SumWF (toSet tol a) := toSet_wf tol a [] ha (by intro t ht; cases ht)
  have wB : SumWF (toSet tol b) := toSet_wf tol b [] hb (by intro t ht; cases ht)
  simp only [C03.ofSum, List.map_nil] at hA hB
  by_cases hlen : a.length = b.length
  · have e1 : (((a.length : Int) == (b.length : Int))) = true := by simp [hlen]
    have e2 : (a.length != b.length) = false := by simp [hlen]
    simp only [e1, e2, Bool.not_true, Bool.false_eq_true, if_false]
    unfold setOfListBy setEqBy
    simp only [C03.ofSum] at *
    rw [hA, hB]
    unfold toSet
    simp only [List.length_map, List.all_map]
    congr 1
    apply all_congr_mem
    intro u hu
    simp only [Function.comp]
    have := setMemBy_eq k x y tol h hh u (wA u hu) _ wB
    simp only [C03.ofSum, toSet] at this
    exact this
  · have e1 : (((a.length : Int) == (b.length : Int))) = false := by
      simp only [beq_eq_false_iff_ne, ne_eq, Int.natCast_inj]; exact hlen
    have e2 : (a.length != b.length) = true := by simp [hlen]
    simp only [e1, e2, Bool.not_false, if_true]

/-- TRANSLATION TIE `is_hermitian(PauliSum)` (`operator == hermitian_conjugated(operator)`) = the model's `isHermitian`, for every
    sum of dict-terms; nothing is raised. -/
theorem translated_is_hermitian_sum_eq (k : Scal R) (x : TranslatedPauli.Ext R) (y : TranslatedOps.Ext9 R) (tol : Tol R)
    (h : TolOf x tol) (hh : HashOf y tol) (s : PSum R) (hs : SumWF s) :
    TranslatedOps.is_hermitian_sum k x y (C03.ofSum s) = .ok (isHermitian k tol s) := by
  unfold TranslatedOps.is_hermitian_sum
  rw [translated_hermitian_conjugated_sum_eq k x y tol h s hs]
  simp only [bind_ok]
  have w : SumWF (hermitianConjugated k tol s) := by
    intro t ht
    have := hc_ops k tol s t ht
    obtain ⟨u, hu, he⟩ := this
    unfold TermWF; rw [he]; exact hs u hu
  rw [translated_sum_eq_sum_eq k x y tol h hh s _ hs w]
  rfl

/-! ### reverse_qubit_order -/

/-- the body of the loop `for term in qubit_operator.terms` of `reverse_qubit_order` as the translator renders it (lets unfolded), for
    the width `m`: build `new_term`, `PauliTerm(new_term, term.coefficient)`, `reversed_op += …` -/
def revBody (k : Scal R) (x : TranslatedPauli.Ext R) (y : TranslatedOps.Ext9 R) (m : Nat) (st : TranslatedPauli.PSum R)
    (term : TranslatedPauli.PTerm R) : Except Exc4 (TranslatedPauli.PSum R) :=
  Except.bind (natKeysE ((y.items_iter (TranslatedPauli.term_operations k x term)).foldl
      (fun (st : Dict Int TranslatedPauli.Letter) (p0 : Nat × TranslatedPauli.Letter) =>
        dictSet st ((((m : Nat) : Int) - (1 : Int)) - ((p0.1 : Nat) : Int)) p0.2) []))
    (fun __t3 => Except.bind (TranslatedPauli.term_init k x __t3 (some term.coefficient)) (fun __t4 =>
      Except.bind (TranslatedPauli.sum_add_term k x st __t4) (fun __t5 => Except.ok __t5)))

theorem rev_loop (k : Scal R) (x : TranslatedPauli.Ext R) (y : TranslatedOps.Ext9 R) (tol : Tol R) (h : TolOf x tol)
    (hid : ∀ l, y.items_iter l = l) (m : Nat) (l acc : PSum R) (hl : SumWF l) (hm : ∀ t ∈ l, ∀ p ∈ t.ops, p.1 < m)
    (ha : SumWF acc) :
    foldlE (revBody k x y m) (C03.ofSum acc) (C03.ofSum l)
      = .ok (C03.ofSum (l.foldl (fun acc t => addTerm tol acc (reverseTerm m t)) acc)) := by
  induction l generalizing acc with
  | nil => rfl
  | cons t l ih =>
    have wt : TermWF t := hl t List.mem_cons_self
    have ht := hm t List.mem_cons_self
    have wr : TermWF (reverseTerm m t) := reverseTerm_wf m t wt ht
    simp only [C03.ofSum, List.map_cons, foldlE, List.foldl_cons]
    have e1 : revBody k x y m (List.map C03.ofTerm acc) (C03.ofTerm t)
        = .ok (C03.ofSum (addTerm tol acc (reverseTerm m t))) := by
      unfold revBody TranslatedPauli.term_operations
      simp only [dictItems, C03.ofTerm_ops, hid, C03.ofTerm_coeff]
      rw [reverse_inner m t.ops wt ht]
      simp only [bind_ok]
      have := C03.term_init_up k x (reverseTerm m t).ops t.coeff wr
      simp only [reverseTerm] at this
      rw [this]
      simp only [bind_ok]
      have := sum_add_term_eq k x tol h acc (reverseTerm m t) ha wr
      simp only [C03.ofSum, reverseTerm] at this
      rw [this]
      rfl
    rw [e1]
    simp only [bind_ok]
    exact ih _ (fun u hu => hl u (List.mem_cons_of_mem _ hu)) (fun u hu => hm u (List.mem_cons_of_mem _ hu))
      (addTerm_wf tol acc _ ha wr)

/-- TRANSLATION TIE `reverse_qubit_order(PauliSum, n_qubits=n)` for an explicit width `n ≥ 0` = the model's `reverseQubitOrder`:
    `ValueError` exactly when the model rejects (`n <` the operator's width, through the translated `PauliSum.n_qubits`), else the
    model's sum (each term: the dict rebuilt with the keys `n - 1 - q`, the constructor's key check never fires, `+=`).
    Hypothesis `hid`: `for q, op in term.operations` yields the items in dict order (the iteration order of a frozenset is an
    external; with another order the result has the same terms with permuted dicts). -/
theorem translated_reverse_qubit_order_sum_eq (k : Scal R) (x : TranslatedPauli.Ext R) (y : TranslatedOps.Ext9 R) (tol : Tol R)
    (h : TolOf x tol) (hid : ∀ l, y.items_iter l = l) (s : PSum R) (hs : SumWF s) (n : Nat) :
    TranslatedOps.reverse_qubit_order_sum k x y (C03.ofSum s) (some (n : Int))
      = (match reverseQubitOrder tol s n with | some r => .ok (C03.ofSum r) | none => .error .value) := by
  unfold TranslatedOps.reverse_qubit_order_sum TranslatedOps.sum_init_none
  simp only [List.map_nil, List.all_nil, Bool.and_true, Bool.not_true, Bool.false_eq_true, if_false, bind_ok, sum_n_qubits_eq]
  unfold reverseQubitOrder
  by_cases hlt : n < PSum.nQubits s
  · have : decide (((n : Nat) : Int) < ((PSum.nQubits s : Nat) : Int)) = true := by simp only [decide_eq_true_eq]; omega
    simp only [this, if_true, hlt]
  · have : decide (((n : Nat) : Int) < ((PSum.nQubits s : Nat) : Int)) = false := by simp only [decide_eq_false_iff_not]; omega
    simp only [this, Bool.false_eq_true, if_false, hlt]
    have hops := (sum_nQubits_le s n).1 (by omega)
    have := rev_loop k x y tol h hid n s [] hs hops (by intro t ht; cases ht)
    simp only [C03.ofSum, List.map_nil] at this
    change Except.bind (foldlE (revBody k x y n) [] (C03.ofSum s)) (fun st => Except.ok st) = _
    simp only [C03.ofSum]
    rw [this]
    rfl

/-- TRANSLATION TIE `reverse_qubit_order(PauliSum)` with the default width (`n_qubits=None`: the operator's own width) and with a
    negative width (`ValueError`: every width is `≥ 0`). -/
theorem translated_reverse_qubit_order_sum_default (k : Scal R) (x : TranslatedPauli.Ext R) (y : TranslatedOps.Ext9 R) (tol : Tol R)
    (h : TolOf x tol) (hid : ∀ l, y.items_iter l = l) (s : PSum R) (hs : SumWF s) :
    TranslatedOps.reverse_qubit_order_sum k x y (C03.ofSum s) none
        = TranslatedOps.reverse_qubit_order_sum k x y (C03.ofSum s) (some (PSum.nQubits s : Int)) ∧
    ∀ m : Nat, TranslatedOps.reverse_qubit_order_sum k x y (C03.ofSum s) (some (Int.negSucc m)) = .error .value := by
  constructor
  · unfold TranslatedOps.reverse_qubit_order_sum TranslatedOps.sum_init_none
    simp only [List.map_nil, List.all_nil, Bool.and_true, Bool.not_true, Bool.false_eq_true, if_false, bind_ok, sum_n_qubits_eq]
    have e1 : decide (PSum.nQubits s < PSum.nQubits s) = false := by simp
    have e2 : decide (((PSum.nQubits s : Nat) : Int) < ((PSum.nQubits s : Nat) : Int)) = false := by simp
    simp only [e1, e2]
  · intro m
    unfold TranslatedOps.reverse_qubit_order_sum TranslatedOps.sum_init_none
    simp only [List.map_nil, List.all_nil, Bool.and_true, Bool.not_true, Bool.false_eq_true, if_false, bind_ok, sum_n_qubits_eq]
    have : decide (Int.negSucc m < ((PSum.nQubits s : Nat) : Int)) = true := by simp only [decide_eq_true_eq]; omega
    simp only [this, if_true]

/-- TRANSLATION TIE `reverse_qubit_order(PauliTerm, n_qubits=n)` (`qubit_operator.terms == [qubit_operator]`, width through the
    translated `PauliTerm.n_qubits`) = the model's `reverseQubitOrder` on the one-term sum. -/
theorem translated_reverse_qubit_order_term_eq (k : Scal R) (x : TranslatedPauli.Ext R) (y : TranslatedOps.Ext9 R) (tol : Tol R)
    (h : TolOf x tol) (hid : ∀ l, y.items_iter l = l) (t : Term R) (w : TermWF t) (n : Nat) :
    TranslatedOps.reverse_qubit_order_term k x y (C03.ofTerm t) (some (n : Int))
      = (match reverseQubitOrder tol [t] n with | some r => .ok (C03.ofSum r) | none => .error .value) := by
  have hs : SumWF [t] := fun u hu => by simp only [List.mem_singleton] at hu; subst hu; exact w
  have hq : PSum.nQubits [t] = t.nQubits := by simp [PSum.nQubits]
  unfold TranslatedOps.reverse_qubit_order_term TranslatedOps.sum_init_none TranslatedOps.term_terms
  simp only [List.map_nil, List.all_nil, Bool.and_true, Bool.not_true, Bool.false_eq_true, if_false, bind_ok,
    C03.translated_term_n_qubits_eq]
  unfold reverseQubitOrder
  rw [hq]
  by_cases hlt : n < t.nQubits
  · have : decide (((n : Nat) : Int) < ((t.nQubits : Nat) : Int)) = true := by simp only [decide_eq_true_eq]; omega
    simp only [this, if_true, hlt]
  · have : decide (((n : Nat) : Int) < ((t.nQubits : Nat) : Int)) = false := by simp only [decide_eq_false_iff_not]; omega
    simp only [this, Bool.false_eq_true, if_false, hlt]
    have hops := (sum_nQubits_le [t] n).1 (by rw [hq]; omega)
    have := rev_loop k x y tol h hid n [t] [] hs hops (by intro u hu; cases hu)
    simp only [C03.ofSum, List.map_nil, List.map_cons] at this
    change Except.bind (foldlE (revBody k x y n) [] [C03.ofTerm t]) (fun st => Except.ok st) = _
    rw [this]
    rfl

/-! ### END-TO-END: the property theorems of `Props/C09.lean` on the translated code -/

/-- END-TO-END (`conj_denote` on the translated code): the REGENERATED `hermitian_conjugated` applied to a PauliSum object returns,
    without raising, an object whose matrix (tensor-product definition, every width `n`) is the conjugate transpose of the operand's
    matrix.  Hypotheses: `k.cj` is the star, the tolerance of `np.isclose` only drops exact zeros (`NeglExact`). -/
theorem translated_conj_denote (k : Scal R) (x : TranslatedPauli.Ext R) (y : TranslatedOps.Ext9 R) (tol : Tol R) (h : TolOf x tol)
    (hcj : k.cj = star) (hsi : star k.i = -k.i) (hnegl : NeglExact tol) (s : PSum R) (hwf : SumWF s) (n : Nat) :
    ∃ s', TranslatedOps.hermitian_conjugated_sum k x y (C03.ofSum s) = .ok (C03.ofSum s') ∧
      Mat.toM (2 ^ n) (2 ^ n) (PSum.denote k n s') = (Mat.toM (2 ^ n) (2 ^ n) (PSum.denote k n s))ᴴ :=
  ⟨_, translated_hermitian_conjugated_sum_eq k x y tol h s hwf, conj_denote k hcj hsi tol hnegl s hwf n⟩

/-- END-TO-END (`conj_term_denote` on the translated code), for a PauliTerm object. -/
theorem translated_conj_term_denote (k : Scal R) (x : TranslatedPauli.Ext R) (y : TranslatedOps.Ext9 R) (hcj : k.cj = star)
    (hsi : star k.i = -k.i) (t : Term R) (w : TermWF t) (n : Nat) :
    ∃ t', TranslatedOps.hermitian_conjugated_term k x y (C03.ofTerm t) = .ok (C03.ofTerm t') ∧
      Mat.toM (2 ^ n) (2 ^ n) (t'.denote k n) = (Mat.toM (2 ^ n) (2 ^ n) (t.denote k n))ᴴ :=
  ⟨_, translated_hermitian_conjugated_term_eq k x y t w, conj_term_denote k hcj hsi t n⟩

/-- END-TO-END (`isHermitian_iff` on the translated code): with the float comparisons exact (`TolExact`), the REGENERATED
    `is_hermitian` applied to a simplified PauliSum object of width `≤ n` returns `True` exactly when the operator's matrix equals its
    conjugate transpose (and never raises). -/
theorem translated_isHermitian_iff (k : Scal R) (x : TranslatedPauli.Ext R) (y : TranslatedOps.Ext9 R) (tol : Tol R)
    (h : TolOf x tol) (hh : HashOf y tol) (hi : k.i * k.i = -1) (hcj : k.cj = star) (hsi : star k.i = -k.i) (h2 : 2 * k.half = 1)
    (hex : TolExact tol) (s : PSum R) (hwf : SumWF s) (hs : Simplified tol s) (n : Nat) (hn : PSum.nQubits s ≤ n) :
    ∃ b, TranslatedOps.is_hermitian_sum k x y (C03.ofSum s) = .ok b ∧
      (b = true ↔ Mat.toM (2 ^ n) (2 ^ n) (PSum.denote k n s) = (Mat.toM (2 ^ n) (2 ^ n) (PSum.denote k n s))ᴴ) :=
  ⟨_, translated_is_hermitian_sum_eq k x y tol h hh s hwf, isHermitian_iff k hi hcj hsi h2 tol hex s hwf hs n hn⟩

/-- END-TO-END (`isHermitianTerm_iff` on the translated code), for a PauliTerm object (any coefficient, also 0). -/
theorem translated_isHermitianTerm_iff (k : Scal R) (x : TranslatedPauli.Ext R) (y : TranslatedOps.Ext9 R) (tol : Tol R)
    (h : TolOf x tol) (hi : k.i * k.i = -1) (hcj : k.cj = star) (hsi : star k.i = -k.i) (h2 : 2 * k.half = 1)
    (hex : TolExact tol) (t : Term R) (w : TermWF t) (n : Nat) (hn : t.nQubits ≤ n) :
    ∃ b, TranslatedOps.is_hermitian_term k x y (C03.ofTerm t) = .ok b ∧
      (b = true ↔ Mat.toM (2 ^ n) (2 ^ n) (t.denote k n) = (Mat.toM (2 ^ n) (2 ^ n) (t.denote k n))ᴴ) :=
  ⟨_, translated_is_hermitian_term_eq k x y tol h t w, isHermitianTerm_iff k hi hcj hsi h2 tol hex t w n hn⟩

/-- END-TO-END (`reverse_reverse` on the translated code): for `n ≥` width the REGENERATED `reverse_qubit_order` applied twice
    returns, without raising, an object that denotes the operand's matrix. -/
theorem translated_reverse_reverse (k : Scal R) (x : TranslatedPauli.Ext R) (y : TranslatedOps.Ext9 R) (tol : Tol R)
    (h : TolOf x tol) (hid : ∀ l, y.items_iter l = l) (hnegl : NeglExact tol) (s : PSum R) (hwf : SumWF s) (n : Nat)
    (hn : PSum.nQubits s ≤ n) :
    ∃ s' s'', TranslatedOps.reverse_qubit_order_sum k x y (C03.ofSum s) (some (n : Int)) = .ok (C03.ofSum s') ∧
      TranslatedOps.reverse_qubit_order_sum k x y (C03.ofSum s') (some (n : Int)) = .ok (C03.ofSum s'') ∧
      Mat.toM (2 ^ n) (2 ^ n) (PSum.denote k n s'') = Mat.toM (2 ^ n) (2 ^ n) (PSum.denote k n s) := by
  obtain ⟨s', h1, hwf', _, _⟩ := reverse_spec k tol hnegl n s hwf hn
  obtain ⟨t', t'', g1, g2, g3⟩ := reverse_reverse k tol hnegl s hwf n hn
  have e : t' = s' := by rw [h1] at g1; exact (Option.some.inj g1).symm
  subst e
  refine ⟨t', t'', ?_, ?_, g3⟩
  · rw [translated_reverse_qubit_order_sum_eq k x y tol h hid s hwf n, g1]
  · rw [translated_reverse_qubit_order_sum_eq k x y tol h hid t' hwf' n, g2]

/-- END-TO-END (`reverse_eq_bitreversal_conj` / `reverse_rejects_iff` on the translated code): for `n ≥` width the result of the
    REGENERATED `reverse_qubit_order` denotes the matrix conjugated by the bit-reversal permutation of the basis indices; it raises
    `ValueError` exactly when `n <` width. -/
theorem translated_reverse_eq_bitreversal_conj (k : Scal R) (x : TranslatedPauli.Ext R) (y : TranslatedOps.Ext9 R) (tol : Tol R)
    (h : TolOf x tol) (hid : ∀ l, y.items_iter l = l) (hnegl : NeglExact tol) (s : PSum R) (hwf : SumWF s) (n : Nat) :
    (PSum.nQubits s ≤ n → ∃ s', TranslatedOps.reverse_qubit_order_sum k x y (C03.ofSum s) (some (n : Int)) = .ok (C03.ofSum s') ∧
      Mat.toM (2 ^ n) (2 ^ n) (PSum.denote k n s')
        = (Mat.toM (2 ^ n) (2 ^ n) (PSum.denote k n s)).submatrix (bitrevFin n) (bitrevFin n)) ∧
    (n < PSum.nQubits s → TranslatedOps.reverse_qubit_order_sum k x y (C03.ofSum s) (some (n : Int)) = .error .value) := by
  constructor
  · intro hn
    obtain ⟨s', g1, g2⟩ := reverse_eq_bitreversal_conj k tol hnegl s hwf n hn
    exact ⟨s', by rw [translated_reverse_qubit_order_sum_eq k x y tol h hid s hwf n, g1], g2⟩
  · intro hn
    rw [translated_reverse_qubit_order_sum_eq k x y tol h hid s hwf n, (reverse_rejects_iff tol s n).2 hn]

/-! ### non-vacuity: externals meeting the hypotheses -/

/-- exact comparisons as the externals of the translated classes -/
def xExact : TranslatedPauli.Ext R := ⟨fun a b => decide (a = b), fun a b => decide (a = b), fun _ _ => none, fun a b => decide (a = b), id⟩
/-- hash equality = equal coefficient and equal operation sets; dict order as iteration order -/
def yExact : TranslatedOps.Ext9 R :=
  ⟨fun a b => decide (a.coefficient = b.coefficient) && frozenItemsEq a._ops b._ops, id⟩

example : TolOf (xExact : TranslatedPauli.Ext R) Tol.exact := ⟨fun _ => rfl, fun _ _ => rfl⟩
example : HashOf (yExact : TranslatedOps.Ext9 R) Tol.exact := by
  intro a b wa wb
  simp only [yExact, C03.ofTerm_coeff, C03.ofTerm_ops, C03.frozenItemsEq_up, opsEq_eq_sameOps _ _ wa wb, termHashEq, Tol.exact]
  congr
example : TranslatedOps.is_hermitian_sum (R := Int) ⟨0, 0, 0, 0, fun c => -c⟩ xExact yExact
    [⟨[(1, some P.Z)], 2⟩, ⟨[], 0⟩] = .ok false := by decide
example : TranslatedOps.is_hermitian_sum (R := Int) ⟨0, 0, 0, 0, id⟩ xExact yExact
    [⟨[(1, some P.Z), (0, some P.X)], 2⟩, ⟨[], 3⟩] = .ok true := by decide
example : TranslatedOps.is_hermitian_term (R := Int) ⟨0, 0, 0, 0, fun c => -c⟩ xExact yExact ⟨[(1, some P.Z)], 0⟩ = .ok true := by decide

example : TranslatedOps.reverse_qubit_order_sum (R := Int) ⟨0, 0, 0, 0, id⟩ xExact yExact
    [⟨[(2, some P.X), (0, some P.Y)], 3⟩, ⟨[], -3⟩, ⟨[(1, some P.Z)], 0⟩, ⟨[(0, some P.Y), (2, some P.X)], 4⟩] (some 4)
    = .ok [⟨[(1, some P.X), (3, some P.Y)], 7⟩, ⟨[], -3⟩] := rfl
example : TranslatedOps.reverse_qubit_order_sum (R := Int) ⟨0, 0, 0, 0, id⟩ xExact yExact
    [⟨[(2, some P.X), (0, some P.Y)], 3⟩] (some 2) = .error .value := rfl
example : ∀ l, (yExact : TranslatedOps.Ext9 Int).items_iter l = l := fun _ => rfl

end OQ.C09
