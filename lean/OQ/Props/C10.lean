/-
  C10 — PROPERTY THEOREMS: statistics computed from measurements are the exact sample statistics.
  Model: OQ/Model/C10.lean.  Specification vocabulary and helper lemmas: OQ/Lemmas/C10.lean
    bitAt s q          the measured bit of qubit q in shot s
    zval A s : ℤ       the ±1 eigenvalue of the Z-string on the qubits A for shot s  (∏ (1 − 2·bit))
    evenParity A s     the shot has an even number of 1s on A
    mean f shots       (Σ_{s ∈ shots} f s) / #shots        (shots is the list WITH repetitions)
    meanZ A shots      mean (zval A ·) shots
    corrSpec shots ti tj   mean of (cᵢ·zval Aᵢ s)·(cⱼ·zval Aⱼ s)
  All theorems hold for every shot list and every operator (any number of terms, overlapping / repeated /
  constant supports), with coefficients in an arbitrary field `R` of characteristic 0 (ℚ for the driver,
  ℝ for "any real coefficients").  `t.qubits.Nodup` is the invariant of `PauliTerm.qubits` being a set.
-/
import OQ.Lemmas.C10
import Mathlib.Algebra.Field.Rat
import Mathlib.Algebra.Ring.Rat
namespace OQ.C10

/-! ### counts -/

/-- "Counts sum to the number of shots." -/
theorem counts_sum (shots : List Shot) : (getCounts shots).total = shots.length :=
  getCounts_total shots

/-- `get_counts` is the histogram of the shots: the count of every bitstring is its multiplicity, every
    key occurs once (it is a dictionary), is a measured bitstring, and has a positive count. -/
theorem counts_are_multiplicities (shots : List Shot) :
    (∀ k, (getCounts shots).get k = shots.count k) ∧ (getCounts shots).keys.Nodup ∧
    (∀ p ∈ getCounts shots, 0 < p.2 ∧ p.1 ∈ shots ∧ p.2 = shots.count p.1) := by
  obtain ⟨h1, h2, h3⟩ := getCounts_inv shots
  refine ⟨getCounts_get shots, h1, fun p hp => ⟨h2 p hp, (h3 p.1).mp (List.mem_map_of_mem hp), ?_⟩⟩
  rw [← getCounts_get, get_of_mem _ h1 p hp]

/-- "Building from counts and reading counts back are inverse", direction 1: `from_counts(m.get_counts())`
    holds exactly the shots of `m` (as a multiset: the same bitstrings with the same multiplicities). -/
theorem from_counts_of_get_counts (shots : List Shot) :
    (fromCounts (castCounts (getCounts shots))).Perm shots := by
  rw [fromCounts_cast]; exact expand_getCounts_perm shots

/-- direction 2: `from_counts(c).get_counts() = c` for every histogram `c` (distinct keys, positive
    counts), including the key order. -/
theorem get_counts_of_from_counts (c : Counts) (hn : c.keys.Nodup) (hp : ∀ p ∈ c, 0 < p.2) :
    getCounts (fromCounts (castCounts c)) = c := by
  rw [fromCounts_cast]; exact getCounts_expand c hn hp

/-- `add_counts` appends exactly the shots of the histogram: afterwards the count of every bitstring is
    its previous count plus its value in the added histogram. -/
theorem add_counts_counts (bitstrings : List Shot) (c : Counts) (hn : c.keys.Nodup) (k : Shot) :
    addCounts bitstrings (castCounts c) = bitstrings ++ fromCounts (castCounts c) ∧
    (getCounts (addCounts bitstrings (castCounts c))).get k = (getCounts bitstrings).get k + c.get k := by
  have h : addCounts bitstrings (castCounts c) = bitstrings ++ fromCounts (castCounts c) := by
    rw [fromCounts, addCounts_eq, addCounts_eq, List.nil_append]
  refine ⟨h, ?_⟩
  rw [h, getCounts_get, getCounts_get, List.count_append, fromCounts_cast, count_expand_eq_get c hn]

/-! ### empirical distribution -/

/-- "The empirical distribution is the counts divided by the number of shots": on a non-empty list of
    equal-length shots `get_distribution` succeeds and its dictionary is `get_counts()` with every count
    divided by the number of shots (same keys, same order). -/
theorem distribution_eq_counts_div {R : Type} [Field R] (shots : List Shot) (w : Nat)
    (hne : shots ≠ []) (hl : ∀ s ∈ shots, s.length = w) :
    getDistribution (R := R) shots =
      .ok ((getCounts shots).map (fun p => (p.1, ((p.2 : Nat) : R) / ((shots.length : Nat) : R)))) :=
  getDistribution_ok shots w hne hl

/-- … hence every reported probability is the multiplicity of its bitstring over the number of shots,
    and the probabilities sum to exactly 1 (so `MeasurementOutcomeDistribution` never renormalises). -/
theorem distribution_entries {R : Type} [Field R] [CharZero R] (shots : List Shot) (w : Nat)
    (hne : shots ≠ []) (hl : ∀ s ∈ shots, s.length = w) (d : List (Shot × R))
    (h : getDistribution (R := R) shots = .ok d) :
    (∀ e ∈ d, e.2 = ((shots.count e.1 : Nat) : R) / ((shots.length : Nat) : R)) ∧
    (d.map (fun e => e.2)).sum = 1 := by
  rw [getDistribution_ok shots w hne hl] at h
  have hd := (Except.ok.inj h).symm
  subst hd
  constructor
  · intro e he
    obtain ⟨p, hp, rfl⟩ := List.mem_map.mp he
    show ((p.2 : Nat) : R) / _ = ((shots.count p.1 : Nat) : R) / _
    rw [((counts_are_multiplicities shots).2.2 p hp).2.2]
  · rw [List.map_map]
    have hlen : ((shots.length : Nat) : R) ≠ 0 := by
      have : shots.length ≠ 0 := by simpa using hne
      exact_mod_cast this
    have := sum_map_natcast_div (R := R) (getCounts shots) ((shots.length : Nat) : R)
    show ((getCounts shots).map (fun p => ((p.2 : Nat) : R) / ((shots.length : Nat) : R))).sum = 1
    rw [this, getCounts_total, div_self hlen]

/-! ### the vectorised parity and the frequencies observable -/

/-- `check_parity_of_vector`: entry 1 exactly for the rows with an even number of 1s on the marked
    qubits, 0 for the others (rows of equal width, marked qubits inside the width, repetitions allowed). -/
theorem check_parity_of_vector_spec (rows : List Shot) (marked : List Nat) (w : Nat)
    (h : ∀ r ∈ rows, r.length = w) (hm : ∀ q ∈ marked, q < w) :
    checkParityOfVector rows marked = .ok (rows.map (fun r => if evenParity marked r then 1 else 0)) := by
  rw [checkParity_ok rows marked w h hm]
  congr 1
  apply List.map_congr_left
  intro r _; exact parityBit_eq marked r

/-- `get_expectation_value_from_frequencies` on any frequency dictionary with keys of one positive width
    and a positive total is the frequency-weighted mean of the ±1 eigenvalue.
    PARTIAL: width 0 (keys `""`) is excluded – there the code raises ValueError (see `width0_raises`). -/
theorem frequencies_expectation_eq_weighted_mean_partial {R : Type} [Field R] (marked : List Nat)
    (freq : Counts) (w : Nat) (hne : freq ≠ []) (hw : 0 < w) (hk : ∀ p ∈ freq, p.1.length = w)
    (hm : ∀ q ∈ marked, q < w) (ht : freq.total ≠ 0) :
    expectationFromFrequencies (R := R) marked freq =
      .ok ((((freq.map (fun p => ((p.2 : Nat) : Int) * zval marked p.1)).sum : Int) : R) /
            ((freq.total : Nat) : R)) := by
  rw [expectation_ok marked freq w hne hw hk hm ht, wsum_int, Int.cast_natCast]

/-! ### expectation values, correlations, covariances

  Stated for WHATEVER `get_expectation_values` reports (`= .ok ev`) on a non-empty list of equal-length
  shots and an operator whose qubits lie inside the width; that something IS reported is
  `expectation_values_reported_partial` below. -/

/-- "The reported expectation value of each term is its coefficient times the sample mean of the term's
    ±1 eigenvalue over the shots." -/
theorem value_eq_mean {R : Type} [Field R] [CharZero R] (shots : List Shot) (terms : List (Term R))
    (bessel : Bool) (w : Nat) (ev : ExpectationValues R)
    (hne : shots ≠ []) (hl : ∀ s ∈ shots, s.length = w)
    (hq : ∀ t ∈ terms, ∀ q ∈ t.qubits, q < w) (hn : ∀ t ∈ terms, t.qubits.Nodup)
    (h : getExpectationValues shots terms bessel = .ok ev) :
    ev.values = terms.map (fun t => t.coeff * mean (fun s => ((zval t.qubits s : Int) : R)) shots) := by
  rw [getEV_spec shots terms bessel w ev hne hl hq hn h]; rfl

/-- "A constant term contributes exactly its coefficient." -/
theorem constant_term_value {R : Type} [Field R] [CharZero R] (shots : List Shot) (terms : List (Term R))
    (bessel : Bool) (w : Nat) (ev : ExpectationValues R)
    (hne : shots ≠ []) (hl : ∀ s ∈ shots, s.length = w)
    (hq : ∀ t ∈ terms, ∀ q ∈ t.qubits, q < w) (hn : ∀ t ∈ terms, t.qubits.Nodup)
    (h : getExpectationValues shots terms bessel = .ok ev)
    (i : Nat) (hi : i < terms.length) (hc : terms[i].qubits = []) :
    ev.values[i]? = some terms[i].coeff := by
  rw [value_eq_mean shots terms bessel w ev hne hl hq hn h, List.getElem?_map,
    List.getElem?_eq_getElem hi]
  simp only [Option.map_some, hc]
  have := meanZ_nil (R := R) shots hne
  unfold meanZ at this
  rw [this, mul_one]

/-- "The reported correlations are the sample means of products of two terms' values" – every entry
    `[i][j]`, diagonal included, for overlapping, repeated and constant supports alike. -/
theorem correlation_eq_mean_product {R : Type} [Field R] [CharZero R] (shots : List Shot)
    (terms : List (Term R)) (bessel : Bool) (w : Nat) (ev : ExpectationValues R)
    (hne : shots ≠ []) (hl : ∀ s ∈ shots, s.length = w)
    (hq : ∀ t ∈ terms, ∀ q ∈ t.qubits, q < w) (hn : ∀ t ∈ terms, t.qubits.Nodup)
    (h : getExpectationValues shots terms bessel = .ok ev) :
    ev.correlations = terms.map (fun ti => terms.map (fun tj =>
      mean (fun s => (ti.coeff * ((zval ti.qubits s : Int) : R)) * (tj.coeff * ((zval tj.qubits s : Int) : R))) shots)) := by
  rw [getEV_spec shots terms bessel w ev hne hl hq hn h]; rfl

/-- the mechanism behind the correlations: the eigenvalue on the symmetric difference of two supports
    is the product of the two eigenvalues (`Z_A · Z_B = Z_{A △ B}`), for every shot. -/
theorem symmetric_difference_eigenvalue (a b : List Nat) (ha : a.Nodup) (hb : b.Nodup) (s : Shot) :
    zval (symmDiff a b) s = zval a s * zval b s :=
  zval_symmDiff a b ha hb s

/-- "The estimator covariances are (correlation minus product of means) divided by the number of shots,
    or by one less with Bessel's correction" – entrywise, in terms of the reported correlations and
    values; with Bessel's correction at least two shots are needed for the quotient to exist. -/
theorem covariance_formula {R : Type} [Field R] [CharZero R] (shots : List Shot)
    (terms : List (Term R)) (bessel : Bool) (w : Nat) (ev : ExpectationValues R)
    (hne : shots ≠ []) (hl : ∀ s ∈ shots, s.length = w)
    (hq : ∀ t ∈ terms, ∀ q ∈ t.qubits, q < w) (hn : ∀ t ∈ terms, t.qubits.Nodup)
    (h : getExpectationValues shots terms bessel = .ok ev) (hb : bessel = true → 2 ≤ shots.length) :
    ev.covariances = terms.map (fun ti => terms.map (fun tj =>
      some ((corrSpec shots ti tj - (ti.coeff * meanZ ti.qubits shots) * (tj.coeff * meanZ tj.qubits shots)) /
        (if bessel then ((shots.length : Nat) : R) - 1 else ((shots.length : Nat) : R))))) := by
  rw [getEV_spec shots terms bessel w ev hne hl hq hn h]
  simp only [evSpec]
  have hlen : shots.length ≠ 0 := by simpa using hne
  apply List.map_congr_left
  intro ti _
  apply List.map_congr_left
  intro tj _
  cases bessel with
  | false =>
    simp only [Bool.false_eq_true, if_false]
    rw [divOrNan_ne _ _ (by exact_mod_cast hlen), Int.cast_natCast]
  | true =>
    have h2 := hb rfl
    simp only [if_true]
    rw [divOrNan_ne _ _ (by omega), Int.cast_sub, Int.cast_natCast, Int.cast_one]

/-- On a non-empty list of shots of one POSITIVE width, every Ising operator whose qubits lie inside the
    width gets a report (no exception), namely the record of sample statistics.
    PARTIAL: width 0 is excluded.  There (`Measurements([(), ()])`, operator necessarily constant) the
    property demands the coefficient but the code raises ValueError from `reshape(-1, 0)`; the model
    reproduces this (`width0_raises`). -/
theorem expectation_values_reported_partial {R : Type} [Field R] [CharZero R] (shots : List Shot)
    (terms : List (Term R)) (bessel : Bool) (w : Nat) (hne : shots ≠ []) (hw : 0 < w)
    (hl : ∀ s ∈ shots, s.length = w) (hI : ∀ t ∈ terms, t.isIsing = true)
    (hq : ∀ t ∈ terms, ∀ q ∈ t.qubits, q < w) (hn : ∀ t ∈ terms, t.qubits.Nodup) :
    getExpectationValues shots terms bessel = .ok (evSpec shots terms bessel) :=
  getEV_ok shots terms bessel w hne hw hl hI hq hn

/-- negative witness: zero-width shots and any non-empty Ising operator raise ValueError -/
theorem width0_raises {R : Type} [Field R] (shots : List Shot) (t : Term R) (ts : List (Term R))
    (bessel : Bool) (hne : shots ≠ []) (hl : ∀ s ∈ shots, s.length = 0)
    (hI : ∀ u ∈ t :: ts, u.isIsing = true) :
    getExpectationValues shots (t :: ts) bessel = .error .value :=
  getEV_width0 shots t ts bessel hne hl hI

/-- an operator containing X or Y is rejected with TypeError by both entry points -/
theorem non_ising_rejected {R : Type} [Field R] (shots : List Shot) (terms : List (Term R)) (bessel : Bool)
    (h : ¬ (terms.all Term.isIsing = true)) :
    getExpectationValues shots terms bessel = .error .type ∧ getParities shots terms = .error .type :=
  ⟨not_ising_error shots terms bessel h, getParities_not_ising shots terms h⟩

/-! ### parity tallies -/

/-- "Parity tallies equal the numbers of shots with even and odd parity on each term's qubits":
    whatever `get_parities_from_measurements` reports on equal-length shots (ANY number of shots, any
    width) is, per term, (number of shots with even parity, number with odd parity); the two add up to
    the number of shots. -/
theorem parity_tallies {R : Type} (shots : List Shot) (terms : List (Term R)) (w : Nat) (p : Parities)
    (hl : ∀ s ∈ shots, s.length = w) (hq : ∀ t ∈ terms, ∀ q ∈ t.qubits, q < w)
    (h : getParities shots terms = .ok p) :
    p.values = terms.map (fun t => (shots.countP (evenParity t.qubits),
                                    shots.countP (fun s => !evenParity t.qubits s))) ∧
    ∀ v ∈ p.values, v.1 + v.2 = shots.length := by
  rw [getParities_spec shots terms w p hl hq h]
  refine ⟨rfl, ?_⟩
  intro v hv
  simp only [paritySpec, List.mem_map] at hv
  obtain ⟨t, _, rfl⟩ := hv
  exact countP_add_countP_not _ shots

/-- … and per ordered pair of terms (i, j) – i = j included – the tallies are the numbers of shots on
    which the two terms' parities agree (the product term has even parity) and disagree (odd). -/
theorem parity_pair_tallies {R : Type} (shots : List Shot) (terms : List (Term R)) (w : Nat) (p : Parities)
    (hl : ∀ s ∈ shots, s.length = w) (hq : ∀ t ∈ terms, ∀ q ∈ t.qubits, q < w)
    (h : getParities shots terms = .ok p) :
    p.correlations = terms.map (fun t1 => terms.map (fun t2 =>
      (shots.countP (fun s => evenParity t1.qubits s == evenParity t2.qubits s),
       shots.countP (fun s => evenParity t1.qubits s != evenParity t2.qubits s)))) := by
  rw [getParities_spec shots terms w p hl hq h]; rfl

/-- the parities of two terms agree on a shot exactly when the product term (supported on the symmetric
    difference) has even parity on it -/
theorem pair_parity_is_product_parity (a b : List Nat) (ha : a.Nodup) (hb : b.Nodup) (s : Shot) :
    evenParity (symmDiff a b) s = (evenParity a s == evenParity b s) :=
  evenParity_symmDiff a b ha hb s

/-- On a NON-EMPTY list of equal-length shots (any width, 0 included) every Ising operator whose qubits
    lie inside the width gets its tallies (no exception).
    PARTIAL: the empty shot list is excluded unless every term is constant.  With no shots every tally
    should be 0, but `np.array([])` is 1-dimensional and the code raises IndexError as soon as a term
    has a qubit; the model reproduces this (`zero_shots_parities_raise`). -/
theorem parities_reported_partial {R : Type} (shots : List Shot) (terms : List (Term R)) (w : Nat)
    (hl : ∀ s ∈ shots, s.length = w) (hI : ∀ t ∈ terms, t.isIsing = true)
    (hq : ∀ t ∈ terms, ∀ q ∈ t.qubits, q < w) (hne : shots ≠ [] ∨ ∀ t ∈ terms, t.qubits = []) :
    getParities shots terms = .ok (paritySpec shots terms) :=
  getParities_ok shots terms w hl hI hq hne

/-- negative witness: with no shots nothing is reported unless every term is constant -/
theorem zero_shots_parities_raise {R : Type} (terms : List (Term R)) (p : Parities)
    (h : getParities [] terms = .ok p) : ∀ t ∈ terms, t.qubits = [] :=
  getParities_nil_inv terms p h

/-! ### non-vacuity: concrete, non-trivial inputs (overlapping, repeated and constant terms, repeated
    shots) meeting the hypotheses; the values are what the compiled driver prints. -/

def exShots : List Shot := [[false, true], [true, true], [false, true], [true, false]]
def exTerms : List (Term Rat) :=
  [⟨2, [(0, .Z)]⟩, ⟨1/2, [(0, .Z), (1, .Z)]⟩, ⟨3, []⟩, ⟨2, [(0, .Z)]⟩]

example : (getCounts exShots, (getCounts exShots).total) =
    ([([false, true], 2), ([true, true], 1), ([true, false], 1)], 4) := by decide
example : fromCounts (castCounts (getCounts exShots)) =
    [[false, true], [false, true], [true, true], [true, false]] := by decide
example : fromCounts [([false, true], 2), ([true], 0), ([false], -1)] = [[false, true], [false, true]] := by decide
example : (match getDistribution (R := Rat) exShots with | .ok d => d | .error _ => []) =
    [([false, true], 1/2), ([true, true], 1/4), ([true, false], 1/4)] := by decide +kernel
example : (match getExpectationValues exShots exTerms false with | .ok e => e.values | .error _ => []) =
    [0, -1/4, 3, 0] := by decide +kernel
example : (match getExpectationValues exShots exTerms false with | .ok e => e.correlations | .error _ => []) =
    [[4, -1/2, 0, 4], [-1/2, 1/4, -3/4, -1/2], [0, -3/4, 9, 0], [4, -1/2, 0, 4]] := by decide +kernel
example : (match getExpectationValues exShots exTerms true with | .ok e => e.covariances | .error _ => []) =
    [[some (4/3), some (-1/6), some 0, some (4/3)], [some (-1/6), some (1/16), some 0, some (-1/6)],
     [some 0, some 0, some 0, some 0], [some (4/3), some (-1/6), some 0, some (4/3)]] := by decide +kernel
example : (match getParities exShots exTerms with | .ok p => p.values | .error _ => []) =
    [(2, 2), (1, 3), (4, 0), (2, 2)] := by decide
example : (match getExpectationValues (R := Rat) [[], []] [⟨3, []⟩] false with
    | .ok _ => none | .error e => some e) = some Err.value := by decide +kernel
example : (match getParities (R := Rat) [] [⟨1, [(0, .Z)]⟩] with
    | .ok _ => none | .error e => some e) = some Err.index := by decide
/-- the hypotheses of the theorems are met by this input, at `R = ℚ` with Mathlib's field structure on
    the very operations the driver executes -/
example : getExpectationValues exShots exTerms true = .ok (evSpec exShots exTerms true) :=
  expectation_values_reported_partial exShots exTerms true 2 (by decide) (by decide) (by decide)
    (by decide) (by decide) (by decide)
example : getParities exShots exTerms = .ok (paritySpec exShots exTerms) :=
  parities_reported_partial exShots exTerms 2 (by decide) (by decide) (by decide) (Or.inl (by decide))

end OQ.C10
