/- C19 — PROPERTY THEOREMS (translation ties): `translate_expression` / `translate_tuple` (`circuits/symbolic/translations.py`) and
   `reduction` (`expressions.py`).
   `OQ.Generated.Translated.translate_expression` is REGENERATED from /repo's current source on every run: the `.register`
   decorations of the `@singledispatch` family and the class annotations of its overloads are read from the module, the family
   becomes one function by pattern matching on the inductive `Translated.Expression` (constructors = the registered classes
   `Number`, `Symbol`, `FunctionCall`; NamedTuple fields read from `expressions.py`), the dialect is the generated record
   `Translated.ExpressionDialect` of callables.  Exceptions are values (`OQ.Py.Exc`).  An edit of an overload, a removed / added /
   re-registered overload or a changed record changes the generated definition and the equalities below stop checking.
   Strings: the translator renders a Python `str` as `List Char`, the model uses `String`; `String.ofList` / `toList` convert. -/
import OQ.Generated.TranslatedC19
import OQ.Props.C19
namespace OQ.C19
open OQ.Generated OQ.Py

/-- the model's errors as the Python exception classes they stand for -/
def Err.toExc : Err → Exc
  | .notimpl => .NotImplementedError
  | .value => .ValueError
  | .type => .TypeError
  | .fuel => .OutOfFuel

def liftE {α : Type} : Except Err α → Except Exc α
  | .ok a => .ok a
  | .error e => .error e.toExc

/-- a dialect of the model as a record of callables of the translated code (`known_functions` seen through `in` / `[]`) -/
def Dialect.toPy {α : Type} (D : Dialect α) : Translated.ExpressionDialect NNum α :=
  { symbol_factory := fun s => D.symbol (String.ofList s),
    number_factory := D.number,
    known_functions := fun name => (D.known (String.ofList name)).map (fun f vs => liftE (f vs)) }

mutual
/-- a tree of the translated type as the model's neutral tree -/
def toNExpr : Translated.Expression NNum → NExpr
  | .Number n => .num n
  | .Symbol name => .sym (String.ofList name)
  | .FunctionCall name args => .call (String.ofList name) (toNExprs args)
def toNExprs : List (Translated.Expression NNum) → List NExpr
  | [] => []
  | a :: as => toNExpr a :: toNExprs as
end

mutual
/-- the model's neutral tree as a tree of the translated type -/
def ofNExpr : NExpr → Translated.Expression NNum
  | .num n => .Number n
  | .sym s => .Symbol s.toList
  | .call name args => .FunctionCall name.toList (ofNExprs args)
def ofNExprs : List NExpr → List (Translated.Expression NNum)
  | [] => []
  | a :: as => ofNExpr a :: ofNExprs as
end

mutual
/-- the two conversions are inverse to each other on the model's trees (so the ties below cover every tree of the model) -/
theorem toNExpr_ofNExpr : ∀ t : NExpr, toNExpr (ofNExpr t) = t
  | .num n => by simp [ofNExpr, toNExpr]
  | .sym s => by simp [ofNExpr, toNExpr]
  | .call name args => by simp [ofNExpr, toNExpr, toNExprs_ofNExprs args]
/-- … and on argument lists -/
theorem toNExprs_ofNExprs : ∀ ts : List NExpr, toNExprs (ofNExprs ts) = ts
  | [] => by simp [ofNExprs, toNExprs]
  | a :: as => by simp [ofNExprs, toNExprs, toNExpr_ofNExpr a, toNExprs_ofNExprs as]
end

mutual
/-- the tie, proved by mutual structural recursion over the tree and its argument lists (restated with its docstring as
    `translated_translate_expression_eq` below) -/
theorem translate_expression_tie {α : Type} (D : Dialect α) :
    ∀ e : Translated.Expression NNum, Translated.translate_expression e D.toPy = liftE (translate D (toNExpr e))
  | .Number n => by simp [Translated.translate_expression, toNExpr, translate, liftE, Dialect.toPy]
  | .Symbol s => by simp [Translated.translate_expression, toNExpr, translate, liftE, Dialect.toPy]
  | .FunctionCall name args => by
    have ih := translate_tuple_tie D args
    simp only [Translated.translate_expression, toNExpr, translate, Dialect.toPy]
    simp only [Dialect.toPy] at ih
    obtain hk | ⟨f, hk⟩ : D.known (String.ofList name) = none ∨ ∃ f, D.known (String.ofList name) = some f := by
      cases D.known (String.ofList name) <;> simp
    · simp [hk, liftE, Err.toExc]
    · simp only [hk, Option.map_some, Option.isSome_some, Bool.not_true, Bool.false_eq_true, if_false, ih]
      cases translateTuple D (toNExprs args) with
      | error e => simp [liftE]
      | ok vs => simp [liftE]
/-- the argument-list half of the mutual recursion (restated as `translated_translate_tuple_eq`) -/
theorem translate_tuple_tie {α : Type} (D : Dialect α) :
    ∀ es : List (Translated.Expression NNum),
      Translated.translate_tuple es D.toPy = liftE (translateTuple D (toNExprs es))
  | [] => by simp [Translated.translate_tuple, toNExprs, translateTuple, liftE]
  | a :: as => by
    have h1 := translate_expression_tie D a
    have h2 := translate_tuple_tie D as
    simp only [Translated.translate_tuple, toNExprs, translateTuple]
    rw [h1, h2]
    cases translate D (toNExpr a) with
    | error e => simp [liftE]
    | ok v =>
      cases translateTuple D (toNExprs as) with
      | error e => simp [liftE]
      | ok vs => simp [liftE]
end

/-- TRANSLATION TIE: the `@singledispatch` family `translate_expression` (overloads `translate_number`, `translate_symbol`,
    `translate_function_call`) regenerated from the current source is the model's `translate` – for EVERY tree of the
    translated type and EVERY dialect of the model (symbol / number factories and the table of callables arbitrary; a callable
    may return or raise any of the model's errors), result and exception class alike: a function name missing from the dialect
    is a ValueError raised before the arguments are translated, the arguments are translated left to right with the SAME
    dialect, the first exception wins, the callable is applied to the translated arguments in order.
    Not covered: dialect callables raising exception classes outside the model's `Err` (they would be passed through). -/
theorem translated_translate_expression_eq {α : Type} (D : Dialect α) (e : Translated.Expression NNum) :
    Translated.translate_expression e D.toPy = liftE (translate D (toNExpr e)) :=
  translate_expression_tie D e

/-- TRANSLATION TIE: `translate_tuple` regenerated from the current source is the model's `translateTuple`. -/
theorem translated_translate_tuple_eq {α : Type} (D : Dialect α) (es : List (Translated.Expression NNum)) :
    Translated.translate_tuple es D.toPy = liftE (translateTuple D (toNExprs es)) :=
  translate_tuple_tie D es

/-- the same tie read from the model's side: every neutral tree of the model is (the image of) a tree of the translated type,
    so the regenerated `translate_expression` computes the model's `translate` on ALL trees of the model. -/
theorem translated_translate_expression_of_model {α : Type} (D : Dialect α) (t : NExpr) :
    Translated.translate_expression (ofNExpr t) D.toPy = liftE (translate D t) := by
  rw [translated_translate_expression_eq, toNExpr_ofNExpr]

/-- TRANSLATION TIE: `reduction(operator)(*args)` (= `functools.reduce(operator, args)`) regenerated from the current source is the
    model's `reduceE`: a left fold, TypeError on no argument. -/
theorem translated_reduction_eq {β : Type} (op : β → β → β) (args : List β) :
    Translated.reduction op args = liftE (reduceE op args) := by
  unfold Translated.reduction
  cases args <;> rfl

/-- END-TO-END ON THE CODE AS IT IS NOW (sentence 1 of the property): for every expression of the supported grammar the tree
    `expression_from_sympy` produces (model `fromSympy`) is translated BY THE REGENERATED `translate_expression`, with
    `SYMPY_DIALECT` over any field, to the value of the original expression. -/
theorem translated_translate_fromSympy_eval {V : Type} [Field V] (S : Sem V)
    (hinv : ∀ v, S.pw v ((-1 : ℚ) : V) = v⁻¹) (hsqrt : ∀ v, S.sq v = S.pw v ((1/2 : ℚ) : V))
    (e : SExpr) (h : supported e = true) :
    ∃ t, fromSympy e = .ok t ∧
      Translated.translate_expression (ofNExpr t) (sympyDialect (fieldOps S)).toPy = .ok (evalS S e) := by
  have hp := translate_fromSympy_eval S hinv hsqrt e h
  unfold pipeline at hp
  cases hf : fromSympy e with
  | error err => simp [hf] at hp
  | ok t =>
    simp only [hf] at hp
    exact ⟨t, rfl, by rw [translated_translate_expression_of_model, hp]; rfl⟩

/-- END-TO-END (sentence 2, the part `translate_expression` is responsible for): the regenerated code refuses a function name
    outside the dialect table with a ValueError, whatever the arguments are – for every dialect. -/
theorem translated_unknown_function_value {α : Type} (D : Dialect α) (name : List Char)
    (args : List (Translated.Expression NNum)) (h : D.known (String.ofList name) = none) :
    Translated.translate_expression (.FunctionCall name args) D.toPy = .error .ValueError := by
  rw [translated_translate_expression_eq]
  simp [toNExpr, translate, h, liftE, Err.toExc]

/-! non-vacuity: the TRANSLATED family on concrete trees, with a stand-in dialect built directly as a record of callables -/
private def dia : Translated.ExpressionDialect Int (List Char) :=
  { symbol_factory := fun s => s, number_factory := fun n => OQ.Py.strOfInt n,
    known_functions := fun name =>
      if name = "cat".toList then some (fun vs => .ok vs.flatten)
      else if name = "one".toList then some (fun vs => match vs with | [a] => .ok a | _ => .error .TypeError)
      else none }
example : Translated.translate_expression
    (.FunctionCall "cat".toList [.Symbol "x".toList, .Number 12, .FunctionCall "one".toList [.Symbol "y".toList]]) dia
    = .ok "x12y".toList := by decide
example : Translated.translate_expression (.FunctionCall "nope".toList [.FunctionCall "one".toList []]) dia
    = .error .ValueError := by decide
example : Translated.translate_expression (.FunctionCall "cat".toList [.FunctionCall "one".toList [], .FunctionCall "nope".toList []]) dia
    = .error .TypeError := by decide
example : Translated.translate_tuple [.Number 1, .Symbol "a".toList] dia = .ok ["1".toList, "a".toList] := by decide
example : Translated.reduction (fun (a b : Int) => 2 * a - b) [5, 1, 2] = .ok 16 := by decide
example : Translated.reduction (fun (a b : Int) => 2 * a - b) [] = .error .TypeError := by decide

end OQ.C19
