/- C07 — PROPERTY THEOREMS (translation tie of the `matrix` PROPERTIES of the gate classes, work package T17).
   `OQ.Generated.TranslatedGates.Gate.matrix` (file OQ/Generated/TranslatedGatesMatrix.lean) is REGENERATED on every run from the
   current source of `MatrixFactoryGate.matrix`, `ControlledGate.matrix`, `Dagger.matrix`, `Exponential.matrix`, `Power.matrix` of
   `circuits/_gates.py` (harness/translate_t17.py: ONE function by cases on the class over the inductive of the class translator,
   each case rendered mechanically from that class's property body; the sympy operations `matrix_factory(*params)`, `sympy.eye`,
   `sympy.Matrix.diag`, `.adjoint()`, `.exp()`, `**` are the fields of the PARAMETER record `MExt`, each may raise, calls bound in
   Python's evaluation order), together with the dataclass `GateOperation` and its `lifted_matrix`.
   The theorems prove that this regenerated function IS the hand-written model `gateMatrix` of OQ/Model/C07.lean (the object every
   matrix theorem of C07 speaks about) for ALL gates, under the instantiation `mext` of the sympy operations by the model's matrix
   operations (OQ/Model/C07_T17.lean): an edit of one of the five `matrix` bodies (other block order, a dropped
   `.adjoint()`, another dimension of the identity block, …) changes the generated definition and the equality stops checking.

   ASSUMED about sympy (= the instantiation `mext`): `sympy.eye(n)` is the n×n identity, `Matrix.diag(A, B)` the block-diagonal matrix
   `diagBlocks A B`, `.adjoint()` the conjugate transpose, `M ** e` the model's `mpow` (repeated product for integer `e ≥ 0`, of the
   external inverse for `e < 0`, the external `mfrac` otherwise) and `.exp()` the external `mexp`; the laws of `minv` / `mfrac` / `mexp`
   are the hypotheses `ExtLaws` / `ExpLaw` of the end-to-end theorems, exactly as in Props/C07.lean.  `2 ** num_qubits` is rendered
   `2 ^ Int.toNat num_qubits` (trusted for `num_qubits ≥ 0`; every embedded gate has a natural number of qubits).
   The structural methods are used under `noSymbols` as in C07_TranslatedGates.lean (the numeric model has no symbols).
   Not translated: `GateOperation.apply`. -/
import OQ.Lemmas.C07_TranslatedMatrix
import OQ.Props.C07_TranslatedGates
namespace OQ.C07
open OQ.Generated Matrix
namespace TG

section Tie
variable {P R : Type} [Zero R] [One R] [Add R] [Mul R]

/-- TRANSLATION TIE: the property `.matrix` of all five classes (`matrix_factory(*params)`; `Matrix.diag(eye(2**n_total − 2**n_wrapped),
    wrapped.matrix)`; `wrapped.matrix.adjoint()`; `wrapped.matrix.exp()`; `wrapped.matrix ** exponent`), regenerated from the source, is
    the model's `gateMatrix` – same matrix, or the same exception at the same place; EVERY gate, every conjugation `cj`, every
    external record `x` (no hypothesis on the externals), under the instantiation `mext`. -/
theorem translated_matrix_eq (cj : R → R) (x : Ext R) (ls ln : LiftFn R) (g : Gate P R) :
    TranslatedGates.Gate.matrix (mext cj x ls ln) (emb g) = gateMatrix cj x g := by
  induction g with
  | base b => rfl
  | controlled g k ih =>
    have hq : TranslatedGates.Gate.num_qubits (TranslatedGates.Gate.ControlledGate (emb g) ((k : Int) + 1)) =
        ((g.numQubits + (k + 1) : Nat) : Int) := by
      simp only [TranslatedGates.Gate.num_qubits, translated_num_qubits_eq]; push_cast; ring
    simp only [emb, TranslatedGates.Gate.matrix, gateMatrix, ih, hq, translated_num_qubits_eq]
    simp only [mext, bind_ok, eye_dim]
    cases gateMatrix cj x g with
    | error e => rfl
    | ok M => simp only [bind_ok, diagBlocks_identity]
  | dagger g ih => simp only [emb, TranslatedGates.Gate.matrix, gateMatrix, ih]; rfl
  | power g e ih => simp only [emb, TranslatedGates.Gate.matrix, gateMatrix, ih]; rfl
  | exponential g ih => simp only [emb, TranslatedGates.Gate.matrix, gateMatrix, ih]; rfl

/-- the tie reaches EVERY object of the generated classes that the constructor guards admit (`emb_surjective_on_valid`): its
    translated `.matrix` is the model's matrix of the model gate it is the image of -/
theorem translated_matrix_on_valid (cj : R → R) (x : Ext R) (ls ln : LiftFn R) (t : TGate P R) (h : TValid t) :
    ∃ g : Gate P R, emb g = t ∧ TranslatedGates.Gate.matrix (mext cj x ls ln) t = gateMatrix cj x g := by
  obtain ⟨g, hg⟩ := emb_surjective_on_valid t h
  exact ⟨g, hg, hg ▸ translated_matrix_eq cj x ls ln g⟩

end Tie

section Lifted
variable {P F E S M Mx X : Type}

/-- `GateOperation.lifted_matrix(num_qubits)` ON THE TRANSLATED CODE, for every gate, every instantiation of the externals: the gate's
    (translated) matrix is computed, and the branch `if self.gate.free_symbols` only selects WHICH embedding routine receives it together
    with the operation's qubit indices and the width – `_lift_matrix_numpy` exactly when the gate has no free symbols. -/
theorem translated_lifted_matrix_eq (x : TranslatedGates.Ext P S M) (y : TranslatedGates.MExt P F E Mx X)
    (t : TranslatedGates.Gate P F E) (qs : List Int) (n : Int) :
    TranslatedGates.GateOperation.lifted_matrix x y ⟨t, qs⟩ n =
      Except.bind (TranslatedGates.Gate.matrix y t) (fun m =>
        if (TranslatedGates.Gate.free_symbols x t).isEmpty then y.ext_lift_numpy m qs n else y.ext_lift_sympy m qs n) := by
  simp only [TranslatedGates.GateOperation.lifted_matrix]
  generalize TranslatedGates.Gate.free_symbols x t = fs
  generalize TranslatedGates.Gate.matrix y t = r
  cases fs <;> cases r <;> rfl

end Lifted

section EndToEnd
variable {P R : Type} [CommRing R] [StarRing R] {x : Ext R}

/-- `GateOperation.lifted_matrix` of the numeric model (no symbols): the NUMERIC embedding of the model's gate matrix -/
theorem translated_lifted_matrix_numeric (ls ln : LiftFn R) (g : Gate P R) (qs : List Int) (n : Int) :
    TranslatedGates.GateOperation.lifted_matrix (noSymbols P) (mext star x ls ln) ⟨emb g, qs⟩ n =
      Except.bind (gateMatrix star x g) (fun m => ln m qs n) := by
  rw [translated_lifted_matrix_eq, translated_free_symbols_eq, translated_matrix_eq]
  rfl

/-- END-TO-END ON THE CODE AS IT IS NOW (`controlled_matrix_block`): for every method-built gate `g` whose factories return
    `2^n × 2^n` matrices, the matrix computed by the TRANSLATED `.matrix` of the gate returned by the TRANSLATED `.controlled(m+1)`
    is the identity on the first `2^n (2^(m+1) − 1)` basis states followed by the TRANSLATED `.matrix` of `g` in the last block
    (including the merge of the control counts when `g` is already a `ControlledGate`). -/
theorem translated_controlled_block (ls ln : LiftFn R) (hx : ExtLaws x) (g : Gate P R) (hcn : g.Canon) (hw : WellDim g) (m : Nat)
    (t : TGate P R) (M M' : Mat R)
    (ht : TranslatedGates.Gate.controlled (noSymbols P) (emb g) ((m : Int) + 1) = .ok t)
    (hM : TranslatedGates.Gate.matrix (mext star x ls ln) (emb g) = .ok M)
    (hM' : TranslatedGates.Gate.matrix (mext star x ls ln) t = .ok M') :
    let d := 2 ^ g.numQubits
    let d0 := 2 ^ g.numQubits * (2 ^ (m + 1) - 1)
    M'.r = d0 + d ∧ M'.c = d0 + d ∧ ∀ i j, i < d0 + d → j < d0 + d →
      M'.get i j = if i < d0 ∧ j < d0 then (if i = j then 1 else 0)
        else if d0 ≤ i ∧ d0 ≤ j then M.get (i - d0) (j - d0) else 0 := by
  rw [translated_controlled_pos] at ht
  cases ht
  rw [translated_matrix_eq] at hM hM'
  exact controlled_matrix_block hx g hcn hw m M M' hM hM'

/-- END-TO-END (`dagger_adjoint_partial`): the TRANSLATED `.matrix` of the gate returned by the TRANSLATED `.dagger` is the conjugate
    transpose of the TRANSLATED `.matrix` of the gate – PARTIAL exactly as the model-level theorem: gates without a fractional
    `Power` (`NoFrac`; with one the sentence is false of the code, finding F16), truthful `is_hermitian` flags, `exp(Aᴴ) = exp(A)ᴴ`. -/
theorem translated_dagger_adjoint_partial (ls ln : LiftFn R) (hx : ExtLaws x)
    (Ex : ∀ d, Matrix (Fin d) (Fin d) R → Matrix (Fin d) (Fin d) R) (hE : ExpLaw x Ex) (hEs : ∀ d A, Ex d Aᴴ = (Ex d A)ᴴ)
    (g : Gate P R) (hw : WellDim g) (hnf : NoFrac g) (hh : HermOK g) (t : TGate P R) (M M' : Mat R) (D : Nat)
    (ht : TranslatedGates.Gate.dagger (noSymbols P) (emb g) = .ok t)
    (hM : TranslatedGates.Gate.matrix (mext star x ls ln) (emb g) = .ok M)
    (hM' : TranslatedGates.Gate.matrix (mext star x ls ln) t = .ok M') (hr : M.r = D) (hc : M.c = D) :
    M'.r = D ∧ M'.c = D ∧ Mat.toM D D M' = (Mat.toM D D M)ᴴ := by
  rw [translated_dagger_eq] at ht
  cases ht
  rw [translated_matrix_eq] at hM hM'
  exact dagger_adjoint_partial hx Ex hE hEs g hw hnf hh M M' D hM hM' hr hc

/-- END-TO-END (`ipow_matrix`): for an integer exponent `n ≥ 0` the TRANSLATED `.matrix` of the gate returned by the TRANSLATED
    `.power(n)` is the `n`-fold product of the TRANSLATED `.matrix` of the gate; every gate (the power is pushed under the controls). -/
theorem translated_ipow_matrix (ls ln : LiftFn R) (hx : ExtLaws x) (g : Gate P R) (e : Rat) (he : e.den = 1) (hn : 0 ≤ e.num)
    (t : TGate P R) (M M' : Mat R) (D : Nat)
    (ht : TranslatedGates.Gate.power (noSymbols P) (emb g) e = .ok t)
    (hM : TranslatedGates.Gate.matrix (mext star x ls ln) (emb g) = .ok M)
    (hM' : TranslatedGates.Gate.matrix (mext star x ls ln) t = .ok M') (hr : M.r = D) (hc : M.c = D) :
    M'.r = D ∧ M'.c = D ∧ Mat.toM D D M' = Mat.toM D D M ^ e.num.toNat := by
  rw [translated_power_eq] at ht
  cases ht
  rw [translated_matrix_eq] at hM hM'
  exact ipow_matrix hx g e he hn M M' D hM hM' hr hc

/-- END-TO-END (`ipow_neg_matrix`): for a negative integer exponent, the `|n|`-fold product of a two-sided inverse. -/
theorem translated_ipow_neg_matrix (ls ln : LiftFn R) (hx : ExtLaws x) (g : Gate P R) (e : Rat) (he : e.den = 1) (hn : e.num < 0)
    (t : TGate P R) (M M' : Mat R) (D : Nat)
    (ht : TranslatedGates.Gate.power (noSymbols P) (emb g) e = .ok t)
    (hM : TranslatedGates.Gate.matrix (mext star x ls ln) (emb g) = .ok M)
    (hM' : TranslatedGates.Gate.matrix (mext star x ls ln) t = .ok M') (hr : M.r = D) (hc : M.c = D) :
    M'.r = D ∧ M'.c = D ∧ ∃ W : Matrix (Fin D) (Fin D) R,
      W * Mat.toM D D M = 1 ∧ Mat.toM D D M * W = 1 ∧ Mat.toM D D M' = W ^ (-e.num).toNat := by
  rw [translated_power_eq] at ht
  cases ht
  rw [translated_matrix_eq] at hM hM'
  exact ipow_neg_matrix hx g e he hn M M' D hM hM' hr hc

/-- END-TO-END (`root_matrix`): for the exponent `1/q` a matrix whose `q`-th power is the TRANSLATED `.matrix` of the gate (the `q`-th
    root law is the hypothesis `ExtLaws.root` on sympy's fractional power). -/
theorem translated_root_matrix (ls ln : LiftFn R) (hx : ExtLaws x) (g : Gate P R) (e : Rat) (he : e.num = 1) (hq : 2 ≤ e.den)
    (t : TGate P R) (M M' : Mat R) (D : Nat)
    (ht : TranslatedGates.Gate.power (noSymbols P) (emb g) e = .ok t)
    (hM : TranslatedGates.Gate.matrix (mext star x ls ln) (emb g) = .ok M)
    (hM' : TranslatedGates.Gate.matrix (mext star x ls ln) t = .ok M') (hr : M.r = D) (hc : M.c = D) :
    M'.r = D ∧ M'.c = D ∧ Mat.toM D D M' ^ e.den = Mat.toM D D M := by
  rw [translated_power_eq] at ht
  cases ht
  rw [translated_matrix_eq] at hM hM'
  exact root_matrix hx g e he hq M M' D hM hM' hr hc

end EndToEnd

/-- END-TO-END (`exp_matrix`): when sympy's `.exp()` is the matrix exponential, the TRANSLATED `.matrix` of the gate returned by the
    TRANSLATED `.exp` is the matrix exponential of the TRANSLATED `.matrix` of the gate (over ℂ). -/
theorem translated_exp_matrix {P : Type} {x : Ext ℂ} (ls ln : LiftFn ℂ) (hE : ExpLaw x (fun _ A => NormedSpace.exp A))
    (g : Gate P ℂ) (t : TGate P ℂ) (M M' : Mat ℂ) (D : Nat)
    (ht : TranslatedGates.Gate.exp (noSymbols P) (emb g) = .ok t)
    (hM : TranslatedGates.Gate.matrix (mext star x ls ln) (emb g) = .ok M)
    (hM' : TranslatedGates.Gate.matrix (mext star x ls ln) t = .ok M') (hr : M.r = D) (hc : M.c = D) :
    Mat.toM D D M' = NormedSpace.exp (Mat.toM D D M) := by
  rw [translated_exp_eq] at ht
  cases ht
  rw [translated_matrix_eq] at hM hM'
  exact exp_matrix hE g M M' D hM hM' hr hc

/-! ### non-vacuity: the TRANSLATED `matrix` on concrete objects -/
section Examples
open Inst

/-- the embedding routines as markers (not called by `.matrix`) -/
def noLift : LiftFn ℤ := fun _ _ _ => .error (.ext "lift")
abbrev yZ : TranslatedGates.MExt Unit (List Unit → Except Err (Mat ℤ)) Rat (Mat ℤ) Err := mext id (extNone ℤ) noLift noLift
def mrows (r : Except Err (Mat ℤ)) : Option (List (List ℤ)) := r.toOption.map Mat.toLists
def raises (e : Err) (r : Except Err (Mat ℤ)) : Bool := match r with
  | .error e' => e' == e
  | .ok _ => false

-- V = [[1,2],[3,4]] under one control: identity block first, V in the last block
example : mrows (TranslatedGates.Gate.matrix yZ (emb (v.ctlP 0))) =
    some [[1, 0, 0, 0], [0, 1, 0, 0], [0, 0, 1, 2], [0, 0, 3, 4]] := by decide +kernel
-- dagger: the transpose (integers); power 2: the square
example : mrows (TranslatedGates.Gate.matrix yZ (emb v.daggerM)) = some [[1, 3], [2, 4]] := by decide +kernel
example : mrows (TranslatedGates.Gate.matrix yZ (emb (v.powerM 2))) = some [[7, 10], [15, 22]] := by decide +kernel
-- a raising external is propagated (negative power: the inverse is external), exp likewise
example : raises .noninv (TranslatedGates.Gate.matrix yZ (emb (v.powerM (-1)))) = true := by decide +kernel
example : (TranslatedGates.Gate.matrix yZ (emb v.expM)).toOption.isNone = true := by decide +kernel
-- the hypotheses of the end-to-end theorems are satisfiable on the translated code
example : ∃ t M M', ExtLaws (extNone ℤ) ∧ (v.ctlP 0).Canon ∧ WellDim (v.ctlP 0) ∧
    TranslatedGates.Gate.controlled (noSymbols Unit) (emb (v.ctlP 0)) ((1 : Nat) + 1) = .ok t ∧
    TranslatedGates.Gate.matrix yZ (emb (v.ctlP 0)) = .ok M ∧ TranslatedGates.Gate.matrix yZ t = .ok M' :=
  ⟨_, _, _, extNone_laws ℤ, canon_reachable _ [.controlled 0], v_wellDim, translated_controlled_pos _ 1,
    translated_matrix_eq id _ _ _ _, translated_matrix_eq id _ _ _ _⟩
-- lifted_matrix: the numeric routine is the one that is called when there are no symbols
example : raises (.ext "lift") (TranslatedGates.GateOperation.lifted_matrix (noSymbols Unit) yZ ⟨emb v, [0]⟩ 1) = true := by
  decide +kernel
end Examples

end TG
end OQ.C07
