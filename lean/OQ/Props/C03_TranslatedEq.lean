/- C03 — TRANSLATION TIES (work package T19): equality / hashing of Pauli operators and the run-time dispatch of `+ - *`.

   (1) Definitions of T7 (`OQ/Generated/TranslatedC03.lean`) that were translated but not tied: `PauliTerm.__add__(other)` /
       `PauliSum.__add__(other)` / `PauliSum.__mul__(other)` with the `isinstance` dispatch on a value of ANY kind, `__sub__`, `__rsub__`,
       `PauliTerm.is_ising`, `PauliSum.qubits`, `PauliSum.n_qubits`.
   (2) New definitions (`OQ/Generated/TranslatedC03Eq.lean`, regenerated on every run by harness/translate_t19.py through
       harness/tables_t19e.py, in T7's namespace and over T7's objects `PTerm R` / `PSum R`): `PauliTerm.__hash__`,
       `PauliSum.__eq__(PauliSum)`, `PauliSum.__hash__`, `PauliSum.constant_term`.
       Python's SET OF HASHABLE OBJECTS is rendered explicitly (prelude `setOfHashables` / `setEqHashables`, compared with CPython on
       every run): an object is the same element as a stored one iff the hashes are equal AND `existing == new`; `a == b` on sets is
       "same size and every element of `a` found in `b`".
       Externals (parameters; bundled here as `HashExt R H`): `isinstance(c, complex)`, `c.real`, `c.imag`, `round`, and
       `hash((int, int, frozenset))` with values in an arbitrary type `H`; `hash(tuple_of_hashes)` for `PauliSum.__hash__`.
       ASSUMED LAW `HashLaw ih e` (hypothesis of the ties of `__eq__`): on the tuples `__hash__` builds (frozenset of the items of a
       dict) `hash` collides exactly where the `hash(int)` of the int components (`ih`, arbitrary; CPython: the identity below 2^61 - 1
       except `hash(-1) = -2`) and the frozensets agree – i.e. CPython's tuple hash is treated as collision-free on component hashes.
       The model's parameter `hk` is then `hkOf ih e`: `(ih (round(re·HASH_PRECISION)), ih (round(im·HASH_PRECISION)))`.
   NOT translated: `PauliSum.is_ising` (caches its result in an attribute of `self`), `PauliSum.__eq__` with a term / number operand.
   MODEL CHANGE made by this package: `Run.hk` (the driver's `hk`) now applies CPython's `hash(int)` (`hash(-1) = -2`) to the rounded
   parts; found by the self-check of the translated `__eq__` (see the negative witness at the end).
   DOMAIN: as in `C03_TranslatedPauli.lean` (object states whose `_ops` is a dict: `OpsWF` / `SumWF` / `ValWF`). -/
import OQ.Lemmas.C03_TranslatedT19
namespace OQ.C03
open OQ.Pauli OQ.Py OQ.Generated Matrix

set_option linter.unusedSectionVars false
set_option linter.unusedVariables false

variable {R : Type} [CommRing R] {H : Type} [DecidableEq H]

/-! ## the dispatch on the kind of the other operand -/

/-- TRANSLATION TIE `PauliTerm.__add__(other)` with the run-time `isinstance` dispatch (PauliSum → `other + self`, PauliTerm →
    `PauliSum([self, other]).simplify()`, number → `self + PauliTerm("I0", other)`): the model's `addV (.term t)` for every value of
    every kind; nothing is raised. -/
theorem translated_term_add_val_eq (k : Scal R) (x : TranslatedPauli.Ext R) (t : Term R) (wt : OpsWF t.ops) (v : Val R)
    (wv : ValWF v) (s : PSum R) (h : addV (neglOf x) (.term t) v = .ok (.sum s)) :
    TranslatedPauli.term_add_val k x (ofTerm t) (ofVal v) = .ok (ofSum s) :=
  term_add_val_core k x t wt v wv s h

/-- TRANSLATION TIE `PauliSum.__add__(other)` with the dispatch (term / number wrapped into a one-term sum, then copies of all terms
    and `simplify`): the model's `addV (.sum s)` for every value. -/
theorem translated_sum_add_val_eq (k : Scal R) (x : TranslatedPauli.Ext R) (s : PSum R) (hs : SumWF s) (v : Val R)
    (wv : ValWF v) (r : PSum R) (h : addV (neglOf x) (.sum s) v = .ok (.sum r)) :
    TranslatedPauli.sum_add_val k x (ofSum s) (ofVal v) = .ok (ofSum r) :=
  sum_add_val_core k x s hs v wv r h

/-- TRANSLATION TIE `PauliTerm.__sub__` / `PauliSum.__sub__` (`self + -1.0 * other`, the product dispatched through `__rmul__` of the
    other operand's class): the model's `subV` for every value of every kind. -/
theorem translated_sub_val_eq (k : Scal R) (x : TranslatedPauli.Ext R) (t : Term R) (wt : OpsWF t.ops) (s : PSum R) (hs : SumWF s)
    (v : Val R) (wv : ValWF v) (r : PSum R) :
    (subV (neglOf x) (.term t) v = .ok (.sum r) → TranslatedPauli.term_sub_val k x (ofTerm t) (ofVal v) = .ok (ofSum r)) ∧
    (subV (neglOf x) (.sum s) v = .ok (.sum r) → TranslatedPauli.sum_sub_val k x (ofSum s) (ofVal v) = .ok (ofSum r)) :=
  sub_val_core k x t wt s hs v wv r

/-- TRANSLATION TIE `PauliTerm.__rsub__` / `PauliSum.__rsub__` (`other + -1.0 * self` for a number on the left): the model's
    `subV (.num c)`. -/
theorem translated_rsub_num_eq (k : Scal R) (x : TranslatedPauli.Ext R) (t : Term R) (wt : OpsWF t.ops) (s : PSum R) (hs : SumWF s)
    (c : R) (r : PSum R) :
    (subV (neglOf x) (.num c) (.term t) = .ok (.sum r) → TranslatedPauli.term_rsub_num k x (ofTerm t) c = .ok (ofSum r)) ∧
    (subV (neglOf x) (.num c) (.sum s) = .ok (.sum r) → TranslatedPauli.sum_rsub_num k x (ofSum s) c = .ok (ofSum r)) :=
  rsub_num_core k x t wt s hs c r

/-- TRANSLATION TIE `PauliSum.__mul__(other)` with the dispatch (`other.terms`, or `[PauliTerm.identity() * other]`): the model's
    `mulV (.sum s)` for every value, with the dict order as iteration order of `set`s of qubits (`hid`). -/
theorem translated_sum_mul_val_eq (k : Scal R) (x : TranslatedPauli.Ext R) (hid : ∀ l, x.set_iter l = l) (s : PSum R) (hs : SumWF s)
    (v : Val R) (wv : ValWF v) (r : PSum R) (h : mulV k (neglOf x) (.sum s) v = .ok (.sum r)) :
    TranslatedPauli.sum_mul_val k x (ofSum s) (ofVal v) = .ok (ofSum r) :=
  sum_mul_val_core k x hid s hs v wv r h

/-- TRANSLATION TIE `PauliTerm.is_ising` (`set(self._ops.values()) == {"Z"} or self.is_constant`): true iff every stored letter is Z
    (in particular for the constant term), for every term. -/
theorem translated_term_is_ising_eq (k : Scal R) (x : TranslatedPauli.Ext R) (t : Term R) :
    TranslatedPauli.term_is_ising k x (ofTerm t) = t.ops.all (fun p => p.2 == P.Z) :=
  term_is_ising_core k x t

/-- TRANSLATION TIE `PauliSum.qubits` (`set(chain.from_iterable([term.qubits for term in self.terms]))`): a qubit is an element iff some
    term stores an operator on it, for every sum. -/
theorem translated_sum_qubits_eq (k : Scal R) (x : TranslatedPauli.Ext R) (s : PSum R) (q : Nat) :
    q ∈ TranslatedPauli.sum_qubits k x (ofSum s) ↔ ∃ t ∈ s, ∃ p ∈ t.ops, p.1 = q :=
  sum_qubits_core k x s q

/-- TRANSLATION TIE `PauliSum.n_qubits` (`0 if self.is_constant else max(self.qubits) + 1`) = the model's `PSum.nQubits` (the width
    every `denote` of C03 / C09 is taken at), for every sum; the `max` of an empty set (ValueError) is never reached. -/
theorem translated_sum_n_qubits_eq (k : Scal R) (x : TranslatedPauli.Ext R) (s : PSum R) :
    TranslatedPauli.sum_n_qubits k x (ofSum s) = .ok (PSum.nQubits s) :=
  sum_n_qubits_core k x s

/-- TRANSLATION TIE `PauliSum.constant_term` (`sum` of the coefficients of the constant terms, starting from the int 0): the sum of
    the coefficients of the terms without operators, for every sum. -/
theorem translated_constant_term_eq (k : Scal R) (x : TranslatedPauli.Ext R) (s : PSum R) :
    TranslatedPauli.sum_constant_term k x (ofSum s) = ((s.filter (fun t => t.ops.isEmpty)).map (fun t => t.coeff)).sum :=
  constant_term_core k x s

/-! ## hashing and equality of sums -/

/-- TRANSLATION TIE `PauliTerm.__hash__`: two terms (with dicts as `_ops`) have the same hash iff the model's hashed coefficient parts
    `hkOf` agree and the `operations` are equal as frozensets – under the hash law. -/
theorem translated_term_hash_eq_iff (k : Scal R) (x : TranslatedPauli.Ext R) (ih : Int → Int) (e : HashExt R H) (hl : HashLaw ih e)
    (a b : Term R) (wa : OpsWF a.ops) (wb : OpsWF b.ops) :
    TranslatedPauli.term_hash k x e.real e.imag e.is_complex e.round e.hash (ofTerm a)
        = TranslatedPauli.term_hash k x e.real e.imag e.is_complex e.round e.hash (ofTerm b)
      ↔ hkOf ih e a.coeff = hkOf ih e b.coeff ∧ opsEq a.ops b.ops = true :=
  thash_eq_iff k x ih e hl a b wa wb

/-- TRANSLATION TIE `set(terms)` through `__hash__` and `PauliTerm.__eq__`: Python's set of the term objects is the model's `mkSet`
    (same elements, same order of insertion). -/
theorem translated_set_of_terms_eq (k : Scal R) (x : TranslatedPauli.Ext R) (ih : Int → Int) (e : HashExt R H) (hl : HashLaw ih e)
    (s : PSum R) (ws : SumWF s) :
    setOfHashables (TranslatedPauli.term_hash k x e.real e.imag e.is_complex e.round e.hash) (TranslatedPauli.term_eq_term k x) (ofSum s)
      = ofSum (mkSet x.allclose (hkOf ih e) s) :=
  setOfHashables_eq k x ih e hl s ws

/-- **TRANSLATION TIE `PauliSum.__eq__(PauliSum)` = the model's `eqSum`** (type validation, length test, then
    `set(self.terms) == set(other.terms)` through `__hash__` and `PauliTerm.__eq__`), for ALL sums of terms whose `_ops` are dicts, every
    `np.allclose` and every hash obeying the law; `close := x.allclose`, `hk := hkOf ih e`. -/
theorem translated_sum_eq_sum_eq (k : Scal R) (x : TranslatedPauli.Ext R) (ih : Int → Int) (e : HashExt R H) (hl : HashLaw ih e)
    (s1 s2 : PSum R) (w1 : SumWF s1) (w2 : SumWF s2) :
    TranslatedPauli.sum_eq_sum k x e.real e.imag e.is_complex e.round e.hash (ofSum s1) (ofSum s2)
      = eqSum x.allclose (hkOf ih e) s1 s2 :=
  sum_eq_sum_core k x ih e hl s1 s2 w1 w2

/-- END-TO-END (`eqSum_iff` / the sum–sum case of `eq_iff` ON THE TRANSLATED `__eq__`): under the model's hypotheses (exact
    coefficient comparison, `i² = -1`, no 2-torsion, simplified sums – what `simplify` returns) and ANY hash obeying the law, the
    translated `PauliSum.__eq__` answers True iff the two sums denote the same matrix, regardless of term order. -/
theorem translated_sum_eq_iff (k : Scal R) (hi : k.i * k.i = -1) (h2 : ∀ y : R, 2 * y = 0 → y = 0) (x : TranslatedPauli.Ext R)
    (hclose : ∀ a b, x.allclose a b = true ↔ a = b) (ih : Int → Int) (e : HashExt R H) (hl : HashLaw ih e) (n : Nat)
    (s1 s2 : PSum R) (hs1 : Simplified n s1) (hs2 : Simplified n s2) :
    TranslatedPauli.sum_eq_sum k x e.real e.imag e.is_complex e.round e.hash (ofSum s1) (ofSum s2) = true
      ↔ MS k n s1 = MS k n s2 := by
  rw [translated_sum_eq_sum_eq k x ih e hl s1 s2 (fun t ht => (hs1.1 t ht).1) (fun t ht => (hs2.1 t ht).1)]
  exact eqSum_iff k hi h2 x.allclose hclose (hkOf ih e) n s1 s2 hs1 hs2

/-- TRANSLATION TIE `PauliSum.__hash__`: the hash of the tuple of the term hashes IN LIST ORDER (so it depends on the order of the
    terms, which `__eq__` ignores: see the negative witness below). -/
theorem translated_sum_hash_eq (k : Scal R) (x : TranslatedPauli.Ext R) (e : HashExt R H) (hashTuple : List H → H) (s : PSum R) :
    TranslatedPauli.sum_hash k x e.real e.imag e.is_complex e.round e.hash hashTuple (ofSum s)
      = hashTuple (s.map (fun t => TranslatedPauli.term_hash k x e.real e.imag e.is_complex e.round e.hash (ofTerm t))) := by
  simp [TranslatedPauli.sum_hash, ofSum, List.map_map, Function.comp_def]

/-- the hash law is satisfiable, for every `hash(int)` behaviour (non-vacuity of the hypothesis `HashLaw`) -/
theorem hashLaw_witness (ih : Int → Int) : ∃ e : HashExt R (Int × Int × (Nat → Option TranslatedPauli.Letter)),
    HashLaw ih e :=
  ⟨witnessHash ih, witnessHash_law ih⟩

/-! ## non-vacuity: the TRANSLATED definitions on concrete inputs (R := ℤ, exact `allclose`, `round` / `hash` as simple stand-ins) -/

section examples
/-- externals over ℤ: exact comparison; a "hash" that sees the qubits of the frozenset and the rounded real part -/
def kZ : Scal Int := ⟨0, 0, 0, 0, id⟩
def xZ : TranslatedPauli.Ext Int := ⟨fun a b => a == b, fun a b => a == b, fun _ _ => none, fun a b => a == b, id⟩
def hZ (t : Int × Int × FrozenItems Nat TranslatedPauli.Letter) : List Nat := t.2.2.map (·.1)

-- a two-term sum and its reordering (dicts rebuilt in another order): `==` is True …
example : TranslatedPauli.sum_eq_sum kZ xZ id (fun _ => 0) (fun _ => false) (fun _ => 0) (fun t => (hZ t).foldl (· + ·) 0)
    [⟨[(0, some P.X)], 1⟩, ⟨[(1, some P.Z), (2, some P.Y)], 2⟩] [⟨[(2, some P.Y), (1, some P.Z)], 2⟩, ⟨[(0, some P.X)], 1⟩] = true := by
  decide
-- … a changed coefficient, a duplicate instead of a second term, different lengths: False
example : TranslatedPauli.sum_eq_sum kZ xZ id (fun _ => 0) (fun _ => false) (fun _ => 0) (fun t => (hZ t).foldl (· + ·) 0)
    [⟨[(0, some P.X)], 1⟩, ⟨[(1, some P.Z)], 2⟩] [⟨[(1, some P.Z)], 3⟩, ⟨[(0, some P.X)], 1⟩] = false := by decide
example : TranslatedPauli.sum_eq_sum kZ xZ id (fun _ => 0) (fun _ => false) (fun _ => 0) (fun t => (hZ t).foldl (· + ·) 0)
    [⟨[(0, some P.X)], 1⟩, ⟨[(1, some P.Z)], 2⟩] [⟨[(0, some P.X)], 1⟩, ⟨[(0, some P.X)], 1⟩] = false := by decide
example : TranslatedPauli.sum_eq_sum kZ xZ id (fun _ => 0) (fun _ => false) (fun _ => 0) (fun t => (hZ t).foldl (· + ·) 0)
    [⟨[(0, some P.X)], 1⟩] [] = false := by decide
-- equal terms with different hashes are different set elements (why the hash matters): here the "hash" is the first qubit's letter
example : TranslatedPauli.sum_eq_sum kZ xZ id (fun _ => 0) (fun _ => false) (fun _ => 0) (fun t => t.2.2.map (·.2))
    [⟨[(0, some P.X)], 0⟩] [⟨[(0, some P.Y)], 0⟩] = false
    ∧ TranslatedPauli.term_eq_term kZ xZ ⟨[(0, some P.X)], 0⟩ ⟨[(0, some P.Y)], 0⟩ = true := by decide
example : TranslatedPauli.sum_n_qubits kZ xZ [⟨[(0, some P.X)], 1⟩, ⟨[(5, some P.Z), (2, some P.Y)], 2⟩] = .ok 6
    ∧ TranslatedPauli.sum_n_qubits kZ xZ [⟨[], 1⟩] = .ok 0 := by decide
example : TranslatedPauli.sum_constant_term kZ xZ [⟨[], 2⟩, ⟨[(0, some P.X)], 5⟩, ⟨[], 3⟩] = 5 := by decide
example : TranslatedPauli.term_is_ising kZ xZ ⟨[(0, some P.Z), (3, some P.Z)], 1⟩ = true
    ∧ TranslatedPauli.term_is_ising kZ xZ ⟨[(0, some P.Z), (3, some P.X)], 1⟩ = false
    ∧ TranslatedPauli.term_is_ising kZ xZ ⟨[], 1⟩ = true := by decide
example : TranslatedPauli.term_sub_val kZ xZ ⟨[(0, some P.X)], 5⟩ (.num 2) = .ok [⟨[(0, some P.X)], 5⟩, ⟨[], -2⟩] := rfl
example : TranslatedPauli.sum_rsub_num kZ xZ [⟨[(0, some P.X)], 5⟩] 2 = .ok [⟨[(0, some P.X)], -5⟩, ⟨[], 2⟩] := rfl
example : ValWF (.sum ([⟨[(0, .X)], 1⟩] : PSum Int)) := by
  intro t ht; simp only [List.mem_singleton] at ht; subst ht; unfold OpsWF; decide

/-- NEGATIVE WITNESS (observation hash-ignores-eq of the report; outside the sentences of C03): `PauliSum.__hash__` hashes the tuple of
    the terms in LIST order while `PauliSum.__eq__` ignores the order – two sums that compare equal have different hashes (here with
    "hash of a tuple" = the tuple itself), so Python's contract `a == b ⇒ hash(a) == hash(b)` does not hold for sums. -/
example :
    let s1 : TranslatedPauli.PSum Int := [⟨[(0, some P.X)], 1⟩, ⟨[(1, some P.Z)], 2⟩]
    let s2 : TranslatedPauli.PSum Int := [⟨[(1, some P.Z)], 2⟩, ⟨[(0, some P.X)], 1⟩]
    TranslatedPauli.sum_eq_sum kZ xZ id (fun _ => 0) (fun _ => false) (fun _ => 0) hZ s1 s2 = true
    ∧ TranslatedPauli.sum_hash kZ xZ id (fun _ => 0) (fun _ => false) (fun _ => 0) hZ List.flatten s1 = [0, 1]
    ∧ TranslatedPauli.sum_hash kZ xZ id (fun _ => 0) (fun _ => false) (fun _ => 0) hZ List.flatten s2 = [1, 0] := by decide

/-- NEGATIVE WITNESS (the mirror image of finding eq-hash-rounding-boundary, found by the self-check of the translated `__eq__`): with
    the library's tolerances and CPython's `hash(-1) = -2`, two one-term sums whose coefficients are 2·10⁻⁹ apart around −1.5·10⁻⁶
    round to −1 and −2, land in the SAME bucket and compare EQUAL, while their positive counterparts (1 and 2) compare unequal. -/
example :
    let c1 : Cyc8 := Cyc8.ofRat (-1499 / 10 ^ 9)
    let c2 : Cyc8 := Cyc8.ofRat (-1501 / 10 ^ 9)
    Run.hk c1 = (-2, 0) ∧ Run.hk c2 = (-2, 0) ∧ eqSum Run.close Run.hk [⟨[(0, .X)], c1⟩] [⟨[(0, .X)], c2⟩] = true := by decide +kernel
end examples

end OQ.C03
