/-
  C02 — PROPERTY THEOREMS: every built-in gate is a valid unitary that keeps its textbook identities.
  Model: OQ/Model/Gates.lean (the 27 matrix factories), OQ/Model/C02.lean (gate table, `.matrix`, `.dagger`),
  OQ/Generated/GateTable.lean (re-extracted from the Python module on every run).
  Helper lemmas: OQ/Lemmas/C02.lean, C02_Complex.lean (R = ℂ, real angles), C02_Cyc8.lean (R = ℚ(ζ₈), the driver's ring).

  Reading guide.  `k : Scal R` are the constants (i, 1/√2, e^{iπ/4}, 1/2) with the laws `Laws k`; an angle θ
  enters as the point `a = (cos θ/2, sin θ/2)` with the laws `Valid a` (on the circle, real coordinates).
  Every generic theorem holds over every commutative ⋆-ring; `real_*` are the corollaries at R = ℂ for ALL
  real angles, `driver_*` the corollaries for the exact values the model driver computes.
-/
import OQ.Lemmas.C02
import OQ.Lemmas.C02_Complex
import OQ.Lemmas.C02_Cyc8
import Mathlib.Data.Matrix.Block
import Mathlib.Logic.Equiv.Fin.Basic

namespace OQ.C02
open OQ OQ.Mat Matrix OQ.Generated

/-! ## the table: all 27 built-in gates, computable, of the declared dimension -/

/-- "all 27 built-in gates": the gates bound in `_builtin_gates.py` are exactly the 27 names the model covers,
    in definition order, and no name occurs twice -/
theorem table_names :
    gateTable.map Row.name = Gates.builtinNames ∧ gateTable.length = 27 ∧ (gateTable.map Row.name).Nodup := by
  decide

/-- "the gate's matrix can be computed, is square of dimension two to the number of qubits the gate declares":
    for every row of the generated table and ANY parameter values of the right number (no law needed) -/
theorem builtin_dim {R : Type} [Zero R] [One R] [Add R] [Mul R] [Neg R] (k : Scal R) :
    ∀ row ∈ gateTable, ∀ ps : List (Ang R), ps.length = (Row.numParams row) →
      ∃ M, gateMatrix gateTable k (Row.name row) ps = .ok M ∧ M.r = 2 ^ (Row.numQubits row) ∧ M.c = 2 ^ (Row.numQubits row) := by
  table_rows
  all_goals first
    | exact forall_len0 ⟨_, rfl, rfl, rfl⟩
    | exact forall_len1 (fun _ => ⟨_, rfl, rfl, rfl⟩)
    | exact forall_len2 (fun _ _ => ⟨_, rfl, rfl, rfl⟩)
    | exact forall_len3 (fun _ _ _ => ⟨_, rfl, rfl, rfl⟩)

/-- the only ways `<gate>.matrix` fails: an unknown name (KeyError of `builtin_gate_by_name`) or a number of
    bound parameters different from the factory's signature (TypeError) -/
theorem matrix_errors {R : Type} [Zero R] [One R] [Add R] [Mul R] [Neg R] (k : Scal R) (ps : List (Ang R)) :
    (∀ name, name ∉ gateTable.map Row.name → gateMatrix gateTable k name ps = .error .key) ∧
    (∀ row ∈ gateTable, ps.length ≠ (Row.numParams row) → gateMatrix gateTable k (Row.name row) ps = .error .type) := by
  constructor
  · intro name hn
    have : lookup gateTable name = none := by
      unfold lookup
      rw [List.find?_eq_none]
      intro r hr hbeq
      exact hn (List.mem_map.mpr ⟨r, hr, by simpa [Row.name] using hbeq⟩)
    unfold gateMatrix; rw [this]
  · intro row hrow hne
    unfold gateMatrix
    rw [show lookup gateTable (Row.name row) = some row from lookup_row row hrow]
    simp only [hne, ne_eq, not_false_eq_true, if_true]

variable {R : Type} [CommRing R] [StarRing R] {k : Scal R}

/-! ## unitarity -/

/-- "for every built-in gate and every real value of its parameters the matrix … is unitary":
    every row of the generated table, every valid angle point, both `Mᴴ M = 1` and `M Mᴴ = 1` -/
theorem builtin_unitary (hk : Laws k) :
    ∀ row ∈ gateTable, ∀ ps : List (Ang R), ps.length = (Row.numParams row) → (∀ a ∈ ps, Valid a) →
      ∃ M, gateMatrix gateTable k (Row.name row) ps = .ok M ∧ IsUnitaryOf (2 ^ (Row.numQubits row)) M := by
  table_rows
  · exact forall_len0 fun _ => ⟨_, rfl, x_unitary⟩
  · exact forall_len0 fun _ => ⟨_, rfl, y_unitary hk⟩
  · exact forall_len0 fun _ => ⟨_, rfl, z_unitary⟩
  · exact forall_len0 fun _ => ⟨_, rfl, h_unitary hk⟩
  · exact forall_len0 fun _ => ⟨_, rfl, i_unitary⟩
  · exact forall_len0 fun _ => ⟨_, rfl, s_unitary hk⟩
  · exact forall_len0 fun _ => ⟨_, rfl, sx_unitary hk⟩
  · exact forall_len0 fun _ => ⟨_, rfl, t_unitary hk⟩
  · exact forall_len1 fun a hv => ⟨_, rfl, rx_unitary hk (hv a (by simp))⟩
  · exact forall_len1 fun a hv => ⟨_, rfl, ry_unitary (hv a (by simp))⟩
  · exact forall_len1 fun a hv => ⟨_, rfl, rz_unitary hk (hv a (by simp))⟩
  · exact forall_len1 fun a hv => ⟨_, rfl, rh_unitary hk (hv a (by simp))⟩
  · exact forall_len1 fun a hv => ⟨_, rfl, phase_unitary hk (hv a (by simp))⟩
  · exact forall_len3 fun a b c hv => ⟨_, rfl, u3_unitary hk (hv a (by simp)) (hv b (by simp)) (hv c (by simp))⟩
  · exact forall_len1 fun a hv => ⟨_, rfl, gpi_unitary hk (hv a (by simp))⟩
  · exact forall_len1 fun a hv => ⟨_, rfl, gpi2_unitary hk (hv a (by simp))⟩
  · exact forall_len0 fun _ => ⟨_, rfl, cnot_unitary⟩
  · exact forall_len0 fun _ => ⟨_, rfl, cz_unitary⟩
  · exact forall_len0 fun _ => ⟨_, rfl, swap_unitary⟩
  · exact forall_len0 fun _ => ⟨_, rfl, iswap_unitary hk⟩
  · exact forall_len1 fun a hv => ⟨_, rfl, cphase_unitary hk (hv a (by simp))⟩
  · exact forall_len1 fun a hv => ⟨_, rfl, xx_unitary hk (hv a (by simp))⟩
  · exact forall_len1 fun a hv => ⟨_, rfl, yy_unitary hk (hv a (by simp))⟩
  · exact forall_len1 fun a hv => ⟨_, rfl, zz_unitary hk (hv a (by simp))⟩
  · exact forall_len1 fun a hv => ⟨_, rfl, xy_unitary hk (hv a (by simp))⟩
  · exact forall_len2 fun a b hv => ⟨_, rfl, ms_unitary hk (hv a (by simp)) (hv b (by simp))⟩
  · exact forall_len1 fun _ _ => ⟨_, rfl, delay_unitary⟩

/-- "the delay gate is the identity" – for EVERY duration (the parameter is not an angle and carries no law) -/
theorem delay_identity {S : Type} [CommRing S] (k : Scal S) (d : Ang S) :
    gateMatrix gateTable k "Delay" [d] = .ok Gates.delay ∧ toM 2 2 (Gates.delay (R := S)) = 1 := by
  refine ⟨rfl, ?_⟩
  simp only [Gates.delay, Gates.i, toM_m2]
  ext i j; fin_cases i <;> fin_cases j <;> simp

/-! ## the self-adjoint flag -/

/-- "a gate flagged self-adjoint really equals its own conjugate transpose": every FLAGGED row of the generated
    table, all parameter values -/
theorem flag_hermitian (hk : Laws k) :
    ∀ row ∈ gateTable, (Row.isHermitian row) = true →
      ∀ ps : List (Ang R), ps.length = (Row.numParams row) → (∀ a ∈ ps, Valid a) →
      ∃ M, gateMatrix gateTable k (Row.name row) ps = .ok M ∧ IsSelfAdjointOf (2 ^ (Row.numQubits row)) M := by
  table_rows
  all_goals first
    | exact fun h => absurd h (by decide)
    | skip
  all_goals intro _
  · exact forall_len0 fun _ => ⟨_, rfl, x_selfadjoint⟩
  · exact forall_len0 fun _ => ⟨_, rfl, y_selfadjoint hk⟩
  · exact forall_len0 fun _ => ⟨_, rfl, z_selfadjoint⟩
  · exact forall_len0 fun _ => ⟨_, rfl, h_selfadjoint hk⟩
  · exact forall_len0 fun _ => ⟨_, rfl, i_selfadjoint⟩
  · exact forall_len1 fun a hv => ⟨_, rfl, gpi_selfadjoint hk (hv a (by simp))⟩
  · exact forall_len0 fun _ => ⟨_, rfl, cnot_selfadjoint⟩
  · exact forall_len0 fun _ => ⟨_, rfl, cz_selfadjoint⟩
  · exact forall_len0 fun _ => ⟨_, rfl, swap_selfadjoint⟩
  · exact forall_len1 fun _ _ => ⟨_, rfl, delay_selfadjoint⟩

/-- conversely the fixed gates that are NOT flagged (S, T, SX, ISWAP) are not self-adjoint, in any ring with
    2 ≠ 0: their flags could not have been set -/
theorem unflagged_fixed_not_selfadjoint (hk : Laws k) (h2 : (2 : R) ≠ 0) :
    (toM 2 2 (Gates.s k))ᴴ ≠ toM 2 2 (Gates.s k) ∧ (toM 2 2 (Gates.t k))ᴴ ≠ toM 2 2 (Gates.t k) ∧
    (toM 2 2 (Gates.sx k))ᴴ ≠ toM 2 2 (Gates.sx k) ∧ (toM 4 4 (Gates.iswap k))ᴴ ≠ toM 4 4 (Gates.iswap k) :=
  ⟨s_not_selfadjoint hk h2, t_not_selfadjoint hk h2, sx_not_selfadjoint hk h2, iswap_not_selfadjoint hk h2⟩

/-- `.dagger` trusts the flag and is right to: for every row, `<gate>.dagger.matrix` (the gate itself when
    flagged, `matrix.adjoint()` otherwise) is the conjugate transpose of `<gate>.matrix` -/
theorem dagger_matrix [Conj R] (hc : ∀ x : R, conj x = star x) (hk : Laws k) :
    ∀ row ∈ gateTable, ∀ ps : List (Ang R), ps.length = (Row.numParams row) → (∀ a ∈ ps, Valid a) →
      daggerIsSelf gateTable (Row.name row) = some (Row.isHermitian row) ∧
      ∃ M D, gateMatrix gateTable k (Row.name row) ps = .ok M ∧ daggerMatrix gateTable k (Row.name row) ps = .ok D ∧
        D.r = 2 ^ (Row.numQubits row) ∧ D.c = 2 ^ (Row.numQubits row) ∧
        toM (2 ^ (Row.numQubits row)) (2 ^ (Row.numQubits row)) D = (toM (2 ^ (Row.numQubits row)) (2 ^ (Row.numQubits row)) M)ᴴ := by
  intro row hrow ps hlen hv
  have hl : lookup gateTable (Row.name row) = some row := lookup_row row hrow
  have hflag : isHermitian gateTable (Row.name row) = some (Row.isHermitian row) := by
    unfold isHermitian; rw [hl]; rfl
  refine ⟨hflag, ?_⟩
  obtain ⟨M, hM, hr, hcM⟩ := builtin_dim k row hrow ps hlen
  cases hf : (Row.isHermitian row) with
  | true =>
    obtain ⟨M', hM', _, _, hsa⟩ := flag_hermitian hk row hrow hf ps hlen hv
    rw [hM] at hM'; cases hM'
    refine ⟨M, M, hM, ?_, hr, hcM, hsa.symm⟩
    unfold daggerMatrix; rw [hM, hflag, hf]
  | false =>
    refine ⟨M, M.adjoint, hM, ?_, hcM, hr, ?_⟩
    · unfold daggerMatrix; rw [hM, hflag, hf]
    · have := toM_adjoint hc M
      rw [hr, hcM] at this
      exact this

/-! ## the one-parameter rotation and phase gates form additive groups -/

/-- "angle a followed by angle b equals angle a+b" for the ten one-parameter families
    RX RY RZ RH PHASE CPHASE XX YY ZZ XY, for ALL angle points (no circle law needed); `Ang.add` is the
    addition of angles (see `real_angle_add`).  The order does not matter: `ang_add_comm`. -/
theorem rot_mul (hk : Laws k) (a b : Ang R) :
    toM 2 2 (Gates.rx k a) * toM 2 2 (Gates.rx k b) = toM 2 2 (Gates.rx k (Ang.add a b)) ∧
    toM 2 2 (Gates.ry a) * toM 2 2 (Gates.ry b) = toM 2 2 (Gates.ry (Ang.add a b)) ∧
    toM 2 2 (Gates.rz k a) * toM 2 2 (Gates.rz k b) = toM 2 2 (Gates.rz k (Ang.add a b)) ∧
    toM 2 2 (Gates.rh k a) * toM 2 2 (Gates.rh k b) = toM 2 2 (Gates.rh k (Ang.add a b)) ∧
    toM 2 2 (Gates.phase k a) * toM 2 2 (Gates.phase k b) = toM 2 2 (Gates.phase k (Ang.add a b)) ∧
    toM 4 4 (Gates.cphase k a) * toM 4 4 (Gates.cphase k b) = toM 4 4 (Gates.cphase k (Ang.add a b)) ∧
    toM 4 4 (Gates.xx k a) * toM 4 4 (Gates.xx k b) = toM 4 4 (Gates.xx k (Ang.add a b)) ∧
    toM 4 4 (Gates.yy k a) * toM 4 4 (Gates.yy k b) = toM 4 4 (Gates.yy k (Ang.add a b)) ∧
    toM 4 4 (Gates.zz k a) * toM 4 4 (Gates.zz k b) = toM 4 4 (Gates.zz k (Ang.add a b)) ∧
    toM 4 4 (Gates.xy k a) * toM 4 4 (Gates.xy k b) = toM 4 4 (Gates.xy k (Ang.add a b)) := by
  have := hk.ii; have := hk.rr
  refine ⟨?_, ?_, ?_, ?_, ?_, ?_, ?_, ?_, ?_, ?_⟩
  · simp only [Gates.rx, toM_m2, Ang.add]; gate_entries []
  · simp only [Gates.ry, toM_m2, Ang.add]; gate_entries []
  · simp only [Gates.rz, toM_m2, Ang.add, Ang.ehp, Ang.ehm]; gate_entries []
  · simp only [Gates.rh, toM_m2, Ang.add, Ang.ehp]; gate_entries []
  · simp only [Gates.phase, toM_m2, Ang.add, Ang.eip, Ang.c, Ang.s]; gate_entries []
  · simp only [Gates.cphase, toM_m4, Ang.add, Ang.eip, Ang.c, Ang.s]; gate_entries []
  · simp only [Gates.xx, toM_m4, Ang.add]; gate_entries []
  · simp only [Gates.yy, toM_m4, Ang.add]; gate_entries []
  · simp only [Gates.zz, toM_m4, Ang.add, Ang.ehp, Ang.ehm]; gate_entries []
  · simp only [Gates.xy, toM_m4, Ang.add]; gate_entries []

omit [StarRing R] in
/-- "angle 0 is the identity" for the same ten families -/
theorem rot_zero (k : Scal R) :
    toM 2 2 (Gates.rx k Ang.zero) = 1 ∧ toM 2 2 (Gates.ry (R := R) Ang.zero) = 1 ∧
    toM 2 2 (Gates.rz k Ang.zero) = 1 ∧ toM 2 2 (Gates.rh k Ang.zero) = 1 ∧
    toM 2 2 (Gates.phase k Ang.zero) = 1 ∧ toM 4 4 (Gates.cphase k Ang.zero) = 1 ∧
    toM 4 4 (Gates.xx k Ang.zero) = 1 ∧ toM 4 4 (Gates.yy k Ang.zero) = 1 ∧
    toM 4 4 (Gates.zz k Ang.zero) = 1 ∧ toM 4 4 (Gates.xy k Ang.zero) = 1 := by
  refine ⟨?_, ?_, ?_, ?_, ?_, ?_, ?_, ?_, ?_, ?_⟩
  · simp only [Gates.rx, toM_m2, Ang.zero]; gate_entries []
  · simp only [Gates.ry, toM_m2, Ang.zero]; gate_entries []
  · simp only [Gates.rz, toM_m2, Ang.zero, Ang.ehp, Ang.ehm]; gate_entries []
  · simp only [Gates.rh, toM_m2, Ang.zero, Ang.ehp]; gate_entries []
  · simp only [Gates.phase, toM_m2, Ang.zero, Ang.eip, Ang.c, Ang.s]; gate_entries []
  · simp only [Gates.cphase, toM_m4, Ang.zero, Ang.eip, Ang.c, Ang.s]; gate_entries []
  · simp only [Gates.xx, toM_m4, Ang.zero]; gate_entries []
  · simp only [Gates.yy, toM_m4, Ang.zero]; gate_entries []
  · simp only [Gates.zz, toM_m4, Ang.zero, Ang.ehp, Ang.ehm]; gate_entries []
  · simp only [Gates.xy, toM_m4, Ang.zero]; gate_entries []

/-- addition of angle points is commutative and associative, `Ang.zero` is neutral and `Ang.neg` gives the
    inverse on the circle – so `rot_mul` / `rot_zero` make each family a commutative group (`G(-a) G(a) = 1`) -/
theorem ang_group (a b c : Ang R) :
    Ang.add a b = Ang.add b a ∧ Ang.add (Ang.add a b) c = Ang.add a (Ang.add b c) ∧
    Ang.add Ang.zero a = a ∧ (Valid a → Ang.add (Ang.neg a) a = Ang.zero) := by
  refine ⟨?_, ?_, ?_, ?_⟩
  · simp only [Ang.add, Ang.mk.injEq]; constructor <;> ring
  · simp only [Ang.add, Ang.mk.injEq]; constructor <;> ring
  · cases a; simp [Ang.add, Ang.zero]
  · intro ha
    have := ha.circle
    simp only [Ang.add, Ang.neg, Ang.zero, Ang.mk.injEq]
    constructor
    · linear_combination this
    · ring

/-! ## the fixed gates satisfy their defining relations -/

/-- S·S = Z -/
theorem s_mul_s (hk : Laws k) : toM 2 2 (Gates.s k) * toM 2 2 (Gates.s k) = toM 2 2 (Gates.z (R := R)) := by
  have := hk.ii
  simp only [Gates.s, Gates.z, toM_m2]; gate_entries []

/-- T·T = S -/
theorem t_mul_t (hk : Laws k) : toM 2 2 (Gates.t k) * toM 2 2 (Gates.t k) = toM 2 2 (Gates.s k) := by
  have := hk.zz
  simp only [Gates.t, Gates.s, toM_m2]; gate_entries []

/-- SX·SX = X -/
theorem sx_mul_sx (hk : Laws k) : toM 2 2 (Gates.sx k) * toM 2 2 (Gates.sx k) = toM 2 2 (Gates.x (R := R)) := by
  have := hk.ii; have := hk.hh
  simp only [Gates.sx, Gates.x, toM_m2]; gate_entries []

/-- H·Z·H = X -/
theorem h_z_h (hk : Laws k) :
    toM 2 2 (Gates.h k) * toM 2 2 (Gates.z (R := R)) * toM 2 2 (Gates.h k) = toM 2 2 (Gates.x (R := R)) := by
  have := hk.rr
  simp only [Gates.h, Gates.z, Gates.x, toM_m2]; gate_entries []

/-- the two-qubit basis index of (qubit 0 = `c`, qubit 1 = `t`): qubit 0 is the most significant bit -/
def idx2 (c t : Fin 2) : Fin 4 := ⟨2 * c.val + t.val, by omega⟩

/-- the controlled version of a one-qubit matrix: `ControlledGate.matrix = diag(eye(2), U)` -/
def controlled1 (U : Matrix (Fin 2) (Fin 2) R) : Matrix (Fin 4) (Fin 4) R :=
  Matrix.reindex finSumFinEquiv finSumFinEquiv (Matrix.fromBlocks 1 0 0 U)

omit [StarRing R] in
/-- the block form means: nothing happens unless qubit 0 (the control) is 1, then `U` acts on qubit 1 -/
theorem controlled1_apply (U : Matrix (Fin 2) (Fin 2) R) (c t c' t' : Fin 2) :
    controlled1 U (idx2 c t) (idx2 c' t') =
      if c = c' then (if c = 1 then U t t' else if t = t' then 1 else 0) else 0 := by
  fin_cases c <;> fin_cases t <;> fin_cases c' <;> fin_cases t' <;>
    simp [controlled1, idx2, Matrix.reindex_apply, finSumFinEquiv, Matrix.fromBlocks] <;> rfl

omit [StarRing R] in
/-- "CNOT and CZ are the controlled X and Z": block form diag(1, X), diag(1, Z) – exactly what
    `X.controlled(1).matrix`, `Z.controlled(1).matrix` build -/
theorem cnot_cz_controlled :
    toM 4 4 (Gates.cnot (R := R)) = controlled1 (toM 2 2 Gates.x) ∧
    toM 4 4 (Gates.cz (R := R)) = controlled1 (toM 2 2 Gates.z) := by
  constructor
  · simp only [Gates.cnot, Gates.x, toM_m4, toM_m2]
    ext i j; fin_cases i <;> fin_cases j <;>
      simp [controlled1, Matrix.reindex_apply, finSumFinEquiv, Matrix.fromBlocks] <;> rfl
  · simp only [Gates.cz, Gates.z, toM_m4, toM_m2]
    ext i j; fin_cases i <;> fin_cases j <;>
      simp [controlled1, Matrix.reindex_apply, finSumFinEquiv, Matrix.fromBlocks] <;> rfl

omit [StarRing R] in
/-- "SWAP exchanges qubits", on basis states: SWAP|c d⟩ = |d c⟩ -/
theorem swap_basis (a b c d : Fin 2) :
    toM 4 4 (Gates.swap (R := R)) (idx2 a b) (idx2 c d) = if a = d ∧ b = c then 1 else 0 := by
  simp only [Gates.swap, toM_m4]
  fin_cases a <;> fin_cases b <;> fin_cases c <;> fin_cases d <;> simp [idx2]

omit [StarRing R] in
/-- "SWAP exchanges qubits", on operators: conjugating `A ⊗ B` (A on qubit 0, B on qubit 1, `np.kron` order)
    with SWAP gives `B ⊗ A`, for ALL one-qubit matrices A, B -/
theorem swap_conj_kron (A B : Mat R) (hA : A.r = 2) (hA' : A.c = 2) (hB : B.r = 2) (hB' : B.c = 2) :
    toM 4 4 (Gates.swap (R := R)) * toM 4 4 (A.kron B) * toM 4 4 (Gates.swap (R := R)) = toM 4 4 (B.kron A) := by
  ext i j
  rw [toM_kron22 B A hB hB' hA hA']
  simp only [Matrix.mul_apply, Fin.sum_univ_four, toM_kron22 A B hA hA' hB hB']
  simp only [Gates.swap, toM_m4]
  fin_cases i <;> fin_cases j <;> simp <;> ring

/-! ## what holds for the remaining parametric gates (U3, GPi, GPi2, MS): unitarity (above), and -/

/-- `u3_matrix` is defined as `rz(φ)·ry(θ)·rz(λ) / exp(-i(φ+λ)/2)` and then passed through `sympy.simplify`;
    the closed form the model uses IS that product (so nothing is assumed about `simplify` beyond soundness) -/
theorem u3_is_rz_ry_rz (hk : Laws k) {th ph la : Ang R} (h2 : Valid ph) (h3 : Valid la) :
    (ph.ehp k * la.ehp k) • (toM 2 2 (Gates.rz k ph) * toM 2 2 (Gates.ry th) * toM 2 2 (Gates.rz k la)) =
      toM 2 2 (Gates.u3 k th ph la) := by
  have := hk.ii; have := h2.circle; have := h3.circle
  simp only [Gates.u3, Gates.rz, Gates.ry, toM_m2, Ang.ehp, Ang.ehm, Ang.eip, Ang.c, Ang.s]
  gate_entries []

/-- GPi is an involution: GPi(φ)·GPi(φ) = 1 (it is self-adjoint and unitary) -/
theorem gpi_mul_gpi (hk : Laws k) {a : Ang R} (ha : Valid a) :
    toM 2 2 (Gates.gpi k a) * toM 2 2 (Gates.gpi k a) = 1 := by
  have := hk.ii; have := ha.circle
  simp only [Gates.gpi, toM_m2, Ang.eip, Ang.eim, Ang.c, Ang.s]
  gate_entries []

/-! ## corollaries at R = ℂ for ALL REAL parameter values -/

/-- the model's angle point of a real θ is the code's `cos(θ/2)`, `sin(θ/2)`, `exp(±iθ/2)`, `exp(±iθ)`;
    the constants are `1j`, `1/sqrt(2)`, `exp(1j*pi/4)`, `1/2` -/
theorem real_angle_meaning (θ : ℝ) :
    (angR θ).ch = Complex.cos ((θ : ℂ) / 2) ∧ (angR θ).sh = Complex.sin ((θ : ℂ) / 2) ∧
    (angR θ).ehp kC = Complex.exp ((θ : ℂ) / 2 * Complex.I) ∧
    (angR θ).ehm kC = Complex.exp (-((θ : ℂ) / 2 * Complex.I)) ∧
    (angR θ).eip kC = Complex.exp ((θ : ℂ) * Complex.I) ∧
    (angR θ).eim kC = Complex.exp (-((θ : ℂ) * Complex.I)) ∧
    kC.i = Complex.I ∧ kC.r = ((1 / Real.sqrt 2 : ℝ) : ℂ) ∧
    kC.z = Complex.exp ((Real.pi / 4 : ℝ) * Complex.I) ∧ kC.half = 1 / 2 :=
  ⟨angR_ch θ, angR_sh θ, angR_ehp θ, angR_ehm θ, angR_eip θ, angR_eim θ, rfl, rfl, rfl, rfl⟩

/-- addition, zero and negation of angle points ARE addition, zero and negation of real angles -/
theorem real_angle_add (a b : ℝ) :
    Ang.add (angR a) (angR b) = angR (a + b) ∧ angR 0 = Ang.zero ∧ Ang.neg (angR a) = angR (-a) :=
  ⟨angR_add a b, angR_zero, angR_neg a⟩

/-- every built-in gate at every list of REAL parameter values: matrix computable, 2^n × 2^n, unitary -/
theorem real_unitary :
    ∀ row ∈ gateTable, ∀ θs : List ℝ, θs.length = Row.numParams row →
      ∃ M, gateMatrix gateTable kC (Row.name row) (θs.map angR) = .ok M ∧ IsUnitaryOf (2 ^ Row.numQubits row) M := by
  intro row hrow θs hl
  refine builtin_unitary kC_laws row hrow _ (by simpa using hl) ?_
  intro a ha
  obtain ⟨θ, _, rfl⟩ := List.mem_map.mp ha
  exact angR_valid θ

/-- every FLAGGED gate at every list of real parameter values equals its own conjugate transpose; the
    unflagged fixed gates do not -/
theorem real_flag_hermitian :
    (∀ row ∈ gateTable, Row.isHermitian row = true → ∀ θs : List ℝ, θs.length = Row.numParams row →
      ∃ M, gateMatrix gateTable kC (Row.name row) (θs.map angR) = .ok M ∧ IsSelfAdjointOf (2 ^ Row.numQubits row) M) ∧
    ((toM 2 2 (Gates.s kC))ᴴ ≠ toM 2 2 (Gates.s kC) ∧ (toM 2 2 (Gates.t kC))ᴴ ≠ toM 2 2 (Gates.t kC) ∧
     (toM 2 2 (Gates.sx kC))ᴴ ≠ toM 2 2 (Gates.sx kC) ∧ (toM 4 4 (Gates.iswap kC))ᴴ ≠ toM 4 4 (Gates.iswap kC)) := by
  refine ⟨?_, unflagged_fixed_not_selfadjoint kC_laws two_ne_zero_C⟩
  intro row hrow hf θs hl
  refine flag_hermitian kC_laws row hrow hf _ (by simpa using hl) ?_
  intro a ha
  obtain ⟨θ, _, rfl⟩ := List.mem_map.mp ha
  exact angR_valid θ

/-- the group law for every pair of REAL angles a, b: G(a)·G(b) = G(a+b), and G(0) = 1, G(-a)·G(a) = 1 -/
theorem real_rot_add (a b : ℝ) :
    (toM 2 2 (Gates.rx kC (angR a)) * toM 2 2 (Gates.rx kC (angR b)) = toM 2 2 (Gates.rx kC (angR (a + b))) ∧
     toM 2 2 (Gates.ry (angR a)) * toM 2 2 (Gates.ry (angR b)) = toM 2 2 (Gates.ry (angR (a + b))) ∧
     toM 2 2 (Gates.rz kC (angR a)) * toM 2 2 (Gates.rz kC (angR b)) = toM 2 2 (Gates.rz kC (angR (a + b))) ∧
     toM 2 2 (Gates.rh kC (angR a)) * toM 2 2 (Gates.rh kC (angR b)) = toM 2 2 (Gates.rh kC (angR (a + b))) ∧
     toM 2 2 (Gates.phase kC (angR a)) * toM 2 2 (Gates.phase kC (angR b)) = toM 2 2 (Gates.phase kC (angR (a + b))) ∧
     toM 4 4 (Gates.cphase kC (angR a)) * toM 4 4 (Gates.cphase kC (angR b)) = toM 4 4 (Gates.cphase kC (angR (a + b))) ∧
     toM 4 4 (Gates.xx kC (angR a)) * toM 4 4 (Gates.xx kC (angR b)) = toM 4 4 (Gates.xx kC (angR (a + b))) ∧
     toM 4 4 (Gates.yy kC (angR a)) * toM 4 4 (Gates.yy kC (angR b)) = toM 4 4 (Gates.yy kC (angR (a + b))) ∧
     toM 4 4 (Gates.zz kC (angR a)) * toM 4 4 (Gates.zz kC (angR b)) = toM 4 4 (Gates.zz kC (angR (a + b))) ∧
     toM 4 4 (Gates.xy kC (angR a)) * toM 4 4 (Gates.xy kC (angR b)) = toM 4 4 (Gates.xy kC (angR (a + b)))) ∧
    (toM 2 2 (Gates.rx kC (angR 0)) = 1 ∧ toM 2 2 (Gates.ry (angR 0)) = 1 ∧
     toM 2 2 (Gates.rz kC (angR 0)) = 1 ∧ toM 2 2 (Gates.rh kC (angR 0)) = 1 ∧
     toM 2 2 (Gates.phase kC (angR 0)) = 1 ∧ toM 4 4 (Gates.cphase kC (angR 0)) = 1 ∧
     toM 4 4 (Gates.xx kC (angR 0)) = 1 ∧ toM 4 4 (Gates.yy kC (angR 0)) = 1 ∧
     toM 4 4 (Gates.zz kC (angR 0)) = 1 ∧ toM 4 4 (Gates.xy kC (angR 0)) = 1) := by
  have h := rot_mul kC_laws (angR a) (angR b)
  have z := rot_zero kC
  rw [angR_add] at h
  rw [← angR_zero] at z
  exact ⟨h, z⟩

/-- the fixed relations over ℂ (S·S=Z, T·T=S, SX·SX=X, H·Z·H=X) -/
theorem real_fixed_relations :
    toM 2 2 (Gates.s kC) * toM 2 2 (Gates.s kC) = toM 2 2 Gates.z ∧
    toM 2 2 (Gates.t kC) * toM 2 2 (Gates.t kC) = toM 2 2 (Gates.s kC) ∧
    toM 2 2 (Gates.sx kC) * toM 2 2 (Gates.sx kC) = toM 2 2 Gates.x ∧
    toM 2 2 (Gates.h kC) * toM 2 2 Gates.z * toM 2 2 (Gates.h kC) = toM 2 2 Gates.x :=
  ⟨s_mul_s kC_laws, t_mul_t kC_laws, sx_mul_sx kC_laws, h_z_h kC_laws⟩

/-! ## corollaries for the exact values the model driver prints (R = ℚ(ζ₈), rational circle points) -/

/-- every matrix the driver returns for a gate at rational circle points is EXACTLY unitary, and its
    `.dagger` matrix is exactly the conjugate transpose -/
theorem driver_unitary :
    ∀ row ∈ gateTable, ∀ ps : List (Rat × Rat), ps.length = Row.numParams row →
      (∀ p ∈ ps, p.1 * p.1 + p.2 * p.2 = 1) →
      ∃ M D, gateMatrix gateTable Scal.cyc8 (Row.name row) (ps.map fun p => ⟨Cyc8.ofRat p.1, Cyc8.ofRat p.2⟩) = .ok M ∧
        IsUnitaryOf (2 ^ Row.numQubits row) M ∧
        daggerMatrix gateTable Scal.cyc8 (Row.name row) (ps.map fun p => ⟨Cyc8.ofRat p.1, Cyc8.ofRat p.2⟩) = .ok D ∧
        toM (2 ^ Row.numQubits row) (2 ^ Row.numQubits row) D = (toM (2 ^ Row.numQubits row) (2 ^ Row.numQubits row) M)ᴴ := by
  intro row hrow ps hl hp
  have hv : ∀ a ∈ ps.map (fun p : Rat × Rat => (⟨Cyc8.ofRat p.1, Cyc8.ofRat p.2⟩ : Ang Cyc8)), Valid a := by
    intro a ha
    obtain ⟨p, hpm, rfl⟩ := List.mem_map.mp ha
    exact cyc8_valid_of_rat _ _ (hp p hpm)
  have hl' : (ps.map (fun p : Rat × Rat => (⟨Cyc8.ofRat p.1, Cyc8.ofRat p.2⟩ : Ang Cyc8))).length = Row.numParams row := by
    simpa using hl
  obtain ⟨M, hM, hU⟩ := builtin_unitary cyc8_laws row hrow _ hl' hv
  obtain ⟨_, M', D, hM', hD, _, _, hDM⟩ := dagger_matrix cyc_conj_eq_star cyc8_laws row hrow _ hl' hv
  rw [hM] at hM'; cases hM'
  exact ⟨M, D, hM, hU, hD, hDM⟩

/-! ## non-vacuity: the hypotheses are satisfiable and the statements bite on concrete inputs -/

example : Laws kC := kC_laws
example : Laws Scal.cyc8 := cyc8_laws
example : (2 : Cyc8) ≠ 0 := cyc8_two_ne_zero
example (θ : ℝ) : Valid (angR θ) := angR_valid θ
example : Valid (⟨Cyc8.ofRat (3/5), Cyc8.ofRat (4/5)⟩ : Ang Cyc8) := cyc8_valid_of_rat _ _ (by norm_num)
example : ("U3", 1, 3, false) ∈ gateTable ∧ ("MS", 2, 2, false) ∈ gateTable ∧ ("GPi", 1, 1, true) ∈ gateTable := by decide
/-- RX(a)·RX(b) = RX(a+b) at the half-angle points (3/5,4/5), (5/13,12/13): exact evaluation in ℚ(ζ₈) -/
example : ((Gates.rx Scal.cyc8 ⟨Cyc8.ofRat (3/5), Cyc8.ofRat (4/5)⟩).mul
            (Gates.rx Scal.cyc8 ⟨Cyc8.ofRat (5/13), Cyc8.ofRat (12/13)⟩)).toLists =
          (Gates.rx Scal.cyc8 (Ang.add ⟨Cyc8.ofRat (3/5), Cyc8.ofRat (4/5)⟩ ⟨Cyc8.ofRat (5/13), Cyc8.ofRat (12/13)⟩)).toLists := by
  decide +kernel
/-- … and the point is not trivial: RX there is neither the identity nor diagonal -/
example : (Gates.rx Scal.cyc8 ⟨Cyc8.ofRat (3/5), Cyc8.ofRat (4/5)⟩).toLists ≠ (Gates.i (R := Cyc8)).toLists := by
  decide +kernel
/-- MS at two rational points is exactly unitary (executable adjoint and product) -/
example : (((Gates.ms Scal.cyc8 ⟨Cyc8.ofRat (3/5), Cyc8.ofRat (4/5)⟩ ⟨Cyc8.ofRat (5/13), Cyc8.ofRat (12/13)⟩).adjoint).mul
            (Gates.ms Scal.cyc8 ⟨Cyc8.ofRat (3/5), Cyc8.ofRat (4/5)⟩ ⟨Cyc8.ofRat (5/13), Cyc8.ofRat (12/13)⟩)).toLists =
          (Mat.identity (R := Cyc8) 4).toLists := by
  decide +kernel
/-- S, T, SX, ISWAP are not self-adjoint in ℚ(ζ₈) (executable adjoint) -/
example : (Gates.s Scal.cyc8).adjoint.toLists ≠ (Gates.s Scal.cyc8).toLists ∧
          (Gates.t Scal.cyc8).adjoint.toLists ≠ (Gates.t Scal.cyc8).toLists ∧
          (Gates.sx Scal.cyc8).adjoint.toLists ≠ (Gates.sx Scal.cyc8).toLists ∧
          (Gates.iswap Scal.cyc8).adjoint.toLists ≠ (Gates.iswap Scal.cyc8).toLists := by
  decide +kernel
/-- the error branches are reachable -/
example : gateMatrix gateTable Scal.cyc8 "RX" [] = .error .type ∧
          gateMatrix gateTable Scal.cyc8 "FOO" [] = .error .key := ⟨rfl, rfl⟩

end OQ.C02
