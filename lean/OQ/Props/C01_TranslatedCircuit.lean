/- C01 — PROPERTY THEOREMS (translation ties, work package T12): the Lean definitions regenerated on every run from the current
   Python source of the circuit container `circuits/_circuit.py` — `_circuit_size_by_operations`, `Circuit.__init__`, the properties
   `operations` / `n_qubits`, `_append_operation`, `_append_circuit`, `Circuit.bind`, `Circuit.to_unitary`, `split_circuit` — equal the
   hand-written model `OQ/Model/C01.lean` (`mkCircuit`, `addOp`, `addCirc`, `toUnitary`, `splitCircuit`), for ALL inputs, `none`
   exactly where the Python raises.

   Reading of the opaque objects (externals of the translated definitions = what the code reads of / does with them):
     operation  ω := `Oper R`;  `op.qubit_indices` := `Oper.qubits` (as ints);  `isinstance(op, GateOperation)` := `Oper.isGate`;
                `op.lifted_matrix(n)` := `Oper.lifted n` (the model of `GateOperation.lifted_matrix`, may raise);
     circuit    γ := `Circ R`;  `c.operations` := `c.ops`, `c.n_qubits` := `c.n`;
     `type(circuit)(operations=…, n_qubits=…)` / `Circuit(…, n_qubits=…)` := `newCirc` = the TRANSLATED constructor
                `Translated.circuit_init` itself (so the sums go through the regenerated validation of `n_qubits`);
     matrices   μ := `Mat R`, `operator.matmul` := `Mat.mul`; numeric/symbolic switch of `to_unitary`: ANY predicate
                `isinstance(m, sympy.MatrixBase)`, ANY conversion with the law `sympy.Matrix(m.tolist()) = m` (hypothesis). -/
import OQ.Generated.TranslatedC01
import OQ.Lemmas.TranslatedT12
import OQ.Props.C01
set_option linter.unusedSectionVars false
set_option linter.unusedSimpArgs false  -- some proofs carry rewrite rules for BOTH argument orders of a commutative call
namespace OQ.C01
open OQ.Generated OQ.Lift OQ.Py OQ.T12

section Container
variable {R : Type} [Zero R] [One R] [Add R] [Mul R]

/-- `operation.qubit_indices` as the code sees it (a tuple of ints) -/
def qiInt (o : Oper R) : List Int := (Oper.qubits o).map Int.ofNat

/-- `circuit.n_qubits` as the code sees it -/
def nInt (c : Circ R) : Int := (c.n : Int)

/-- the object the constructor leaves behind: `(self._operations, self._n_qubits)` read as a model circuit -/
def ofFields (p : List (Oper R) × Int) : Circ R := ⟨p.2.toNat, p.1⟩

/-- `Circuit(operations, n_qubits)` THROUGH THE TRANSLATED `__init__` -/
def newCirc (ops : List (Oper R)) (n : Int) : Option (Circ R) :=
  (Translated.circuit_init qiInt (some ops) (some n)).map ofFields

private theorem flatMap_qi (ops : List (Oper R)) :
    ops.flatMap (fun operation => (qiInt operation).map (fun (q : Int) => q)) = (ops.flatMap Oper.qubits).map Int.ofNat := by
  simp only [List.map_id', qiInt, List.map_flatMap]

/-- TRANSLATION TIE: `_circuit_size_by_operations(operations)` regenerated from the current source is the width the model's
    `mkCircuit` computes when no width is declared: 0 for no operations, `ValueError` (`max()` of nothing) when no operation names
    a qubit, else 1 + the largest index.  Domain: every list of operations with natural qubit indices. -/
theorem translated_circuit_size_eq (ops : List (Oper R)) :
    Translated.circuit_size_by_operations qiInt ops =
      if ops.isEmpty then some 0
      else if (ops.flatMap Oper.qubits).isEmpty then none
      else some (((listMax (ops.flatMap Oper.qubits) + 1 : Nat)) : Int) := by
  unfold Translated.circuit_size_by_operations
  rw [flatMap_qi, maxList_cast]
  by_cases h1 : ops.isEmpty
  · simp [h1]
  · by_cases h2 : (ops.flatMap Oper.qubits).isEmpty
    · simp [h1, h2]
    · simp only [h1, h2, Bool.false_eq_true, if_false]
      push_cast; rfl

/-- TRANSLATION TIE: `Circuit.__init__(self, operations, n_qubits)` regenerated from the current source is the model's `mkCircuit`:
    for every `operations` (None = no operations) and every INTEGER `n_qubits` or None — a negative width raises
    ("Non-positive value passed."), 0 / None fall back to the width by operations, a positive one is taken as is.
    (Non-integer `n_qubits` — floats — are outside the typing of the translation.) -/
theorem translated_circuit_init_eq (ops : Option (List (Oper R))) (d : Option Int) :
    (Translated.circuit_init qiInt ops d).map ofFields =
      if d.any (fun n => decide (n < 0)) then none else mkCircuit (ops.getD []) (d.map Int.toNat) := by
  have main : ∀ l : List (Oper R), (Translated.circuit_init qiInt (some l) d).map ofFields =
      if d.any (fun n => decide (n < 0)) then none else mkCircuit l (d.map Int.toNat) := by
    intro l
    unfold Translated.circuit_init
    simp only [translated_circuit_size_eq]
    cases d with
    | none =>
      by_cases h1 : l.isEmpty
      · simp [h1, mkCircuit, ofFields]
      · by_cases h2 : (l.flatMap Oper.qubits).isEmpty
        · simp [h1, h2, mkCircuit]
        · simp [h1, h2, mkCircuit, ofFields]
    | some n =>
      simp only [Option.any_some, Option.map_some]
      by_cases h0 : n = 0
      · subst h0
        by_cases h1 : l.isEmpty
        · simp [h1, mkCircuit, ofFields]
        · by_cases h2 : (l.flatMap Oper.qubits).isEmpty
          · simp [h1, h2, mkCircuit]
          · simp [h1, h2, mkCircuit, ofFields]
      · by_cases hneg : n < 0
        · have : n ≤ 0 := by omega
          simp [h0, hneg, this]
        · have hpos : ¬ n ≤ 0 := by omega
          obtain ⟨k, hk⟩ : ∃ k : Nat, n.toNat = k + 1 := ⟨n.toNat - 1, by omega⟩
          simp only [bne_iff_ne, ne_eq, h0, not_false_eq_true, if_true, bne_self_eq_false, Bool.false_eq_true, if_false,
            hpos, decide_false, hneg, Option.map_some, ofFields]
          rw [hk]
          simp only [mkCircuit]
  cases ops with
  | none => exact main []
  | some l => exact main l

/-- TRANSLATION TIE: the property `Circuit.operations` returns the field `_operations` the constructor wrote. -/
theorem translated_circuit_operations_eq (c : Circ R) :
    Translated.circuit_operations (ω := Oper R) Circ.ops nInt c = c.ops := rfl

/-- TRANSLATION TIE: the property `Circuit.n_qubits` returns the field `_n_qubits` the constructor wrote. -/
theorem translated_circuit_n_qubits_eq (c : Circ R) :
    Translated.circuit_n_qubits (ω := Oper R) Circ.ops nInt c = (c.n : Int) := rfl

/-- the constructor, called with a list and a natural width, is the model's `mkCircuit` -/
theorem newCirc_eq (ops : List (Oper R)) (n : Nat) : newCirc ops (n : Int) = mkCircuit ops (some n) := by
  unfold newCirc
  rw [translated_circuit_init_eq]
  have : ¬ ((n : Int) < 0) := by omega
  simp [this]

/-- TRANSLATION TIE: `_append_operation(other, circuit)` (the overload of `circuit + other` registered for `GateOperation`)
    regenerated from the current source, with the TRANSLATED constructor as `type(circuit)(…)`, is the model's `addOp` on gate
    operations: `ValueError` for an operation without qubits (`max()` of nothing), else the operations with `other` appended and
    the width `max(width, largest index + 1)`.  Domain: every circuit, every gate operation with natural indices. -/
theorem translated_append_operation_eq (c : Circ R) (o : Op R) :
    Translated.append_operation qiInt Circ.ops nInt newCirc (.gate o) c = addOp c (.gate o) := by
  unfold Translated.append_operation addOp
  simp only [qiInt, Oper.qubits, maxList_cast]
  by_cases h : o.qs.isEmpty
  · simp [h]
  · simp only [h, Bool.false_eq_true, if_false, nInt]
    -- (both argument orders of `max`, so that a commuted call keeps the tie)
    have h1 : max (c.n : Int) (((listMax o.qs : Nat) : Int) + 1) = ((max c.n (listMax o.qs + 1) : Nat) : Int) := by omega
    have h2 : max (((listMax o.qs : Nat) : Int) + 1) (c.n : Int) = ((max c.n (listMax o.qs + 1) : Nat) : Int) := by omega
    simp only [h1, h2, newCirc_eq]
    cases mkCircuit (c.ops ++ [Oper.gate o]) (some (max c.n (listMax o.qs + 1))) <;> rfl

/-- TRANSLATION TIE: `_append_circuit(other, circuit)` (the overload of `circuit + other` registered for `Circuit`) regenerated
    from the current source, with the TRANSLATED constructor as `type(circuit)(…)`, is the model's `addCirc`.  All circuits. -/
theorem translated_append_circuit_eq (c d : Circ R) :
    Translated.append_circuit (ω := Oper R) Circ.ops nInt newCirc d c = addCirc c d := by
  unfold Translated.append_circuit addCirc
  simp only [nInt]
  -- (both argument orders of `max`, so that a commuted call keeps the tie)
  have h1 : max (c.n : Int) (d.n : Int) = ((max c.n d.n : Nat) : Int) := by omega
  have h2 : max (d.n : Int) (c.n : Int) = ((max c.n d.n : Nat) : Int) := by omega
  simp only [h1, h2, newCirc_eq]
  cases mkCircuit (c.ops ++ d.ops) (some (max c.n d.n)) <;> rfl

/-- `isinstance(other, GateOperation)` with the static type of the overload: the downcast of the right operand of `+` -/
def asGate : Oper R ⊕ Circ R → Option (Oper R)
  | .inl (.gate o) => some (.gate o)
  | _ => none

/-- `isinstance(other, Circuit)` -/
def asCirc : Oper R ⊕ Circ R → Option (Circ R)
  | .inr d => some d
  | _ => none

/-- TRANSLATION TIE: the `functools.singledispatch` function `_append_to_circuit(other, circuit)` regenerated from its REGISTRY as
    it is now (overloads for `GateOperation` → `_append_operation`, `Circuit` → `_append_circuit`, base: `NotImplementedError`) is
    the model's `addOp` / `addCirc`: a gate operation is appended, a circuit concatenated, any other operation (here: a phase-only
    operation) is rejected.  Right operands: every operation and every circuit. -/
theorem translated_append_to_circuit_eq (c : Circ R) (x : Oper R ⊕ Circ R) :
    Translated.append_to_circuit qiInt Circ.ops nInt newCirc asGate asCirc x c =
      match x with
      | .inl op => addOp c op
      | .inr d => addCirc c d := by
  unfold Translated.append_to_circuit
  rcases x with op | d
  · cases op with
    | gate o => simp only [asGate, translated_append_operation_eq]
    | mphase fs => simp only [asGate, asCirc]; rfl
  · simp only [asGate, asCirc, translated_append_circuit_eq]

/-- TRANSLATION TIE: `Circuit.__add__(self, other)` (= `_append_to_circuit(other, self)`) regenerated from the current source:
    `circuit + other` is the model's `addOp` / `addCirc`. -/
theorem translated_circuit_add_eq (c : Circ R) (x : Oper R ⊕ Circ R) :
    Translated.circuit_add qiInt Circ.ops nInt newCirc asGate asCirc c x =
      match x with
      | .inl op => addOp c op
      | .inr d => addCirc c d := by
  unfold Translated.circuit_add
  rw [translated_append_to_circuit_eq]
  rcases x with op | d
  · dsimp only
    cases addOp c op <;> rfl
  · dsimp only
    cases addCirc c d <;> rfl

/-- TRANSLATION TIE: `Circuit.bind(symbols_map)` regenerated from the current source builds, through the TRANSLATED constructor,
    the circuit of the bound operations on the SAME declared width (`bindOp` = `operation.bind`, any function). -/
theorem translated_circuit_bind_eq {S : Type} (bindOp : Oper R → S → Oper R) (c : Circ R) (s : S) :
    Translated.circuit_bind Circ.ops nInt bindOp newCirc c s = mkCircuit (c.ops.map (fun op => bindOp op s)) (some c.n) := by
  unfold Translated.circuit_bind
  simp only [nInt, newCirc_eq]
  cases mkCircuit (c.ops.map (fun op => bindOp op s)) (some c.n) <;> rfl

/-- TRANSLATION TIE: `Circuit.to_unitary()` regenerated from the current source is the model's `toUnitary`: lifted matrices of the
    REVERSED operations (a non-gate operation or a failing `lifted_matrix` raises), then `reduce(operator.matmul, …)` (raises on the
    empty circuit) — for every circuit, WHATEVER the numeric / symbolic classification `isSym` of the lifted matrices, provided the
    conversion of the mixed branch is the identity on values (`sympy.Matrix(m.tolist()) = m`, hypothesis `hconv`). -/
theorem translated_to_unitary_eq {N : Type} (isSym : Mat R → Bool) (tolist : Mat R → N) (ofList : N → Mat R)
    (hconv : ∀ m, ofList (tolist m) = m) (c : Circ R) :
    Translated.circuit_to_unitary Circ.ops nInt Oper.isGate (fun o n => Oper.lifted n.toNat o) isSym tolist ofList Mat.mul c
      = toUnitary c := by
  unfold Translated.circuit_to_unitary toUnitary
  dsimp only
  rw [foldlOpt_append_eq_mapM _ (Oper.lifted c.n) (by
    intro st op
    cases op with
    | gate o =>
      simp only [Oper.isGate, if_true, nInt, Int.toNat_natCast]
      cases Oper.lifted c.n (Oper.gate o) <;> rfl
    | mphase fs => simp [Oper.isGate, Oper.lifted])]
  cases hm : c.ops.reverse.mapM (Oper.lifted c.n) with
  | none => simp
  | some ms =>
    have hid : ms.map (fun m => if isSym m = true then m else ofList (tolist m)) = ms := by
      conv_rhs => rw [← List.map_id ms]
      apply List.map_congr_left
      intro m _
      by_cases h : isSym m <;> simp [h, hconv]
    simp only [Option.map_some, List.nil_append, hid, reduce1_eq_reduceMul]
    split <;> (cases reduceMul ms <;> rfl)

/-- TRANSLATION TIE: `MultiPhaseOperation.apply(amplitude_vector)` regenerated from the current source is the model's
    `applyOper (.mphase …)`: a vector whose length differs from the number of parameters raises; otherwise amplitude `k` is
    multiplied by factor `k`.  numpy is a parameter: `np.asarray(params, dtype=float)` (may raise: an unbound symbol — here it
    succeeds, `thetas` are numbers), `· * 1j` and `np.exp` (together: `expi`, ANY function from parameters to factors),
    `np.multiply` (entrywise product of the state with the factors).  Domain: every parameter list and every state vector. -/
theorem translated_multiphase_apply_eq {Θ : Type} (expi : Θ → R) (thetas : List Θ) (v : Mat R) :
    Translated.multiphase_apply (π := List Θ) (ρ := Unit) (fun p => p) (fun (w : Mat R) => (w.r : Int))
        (fun (l : List Θ) => some l) () (fun l _ => l) (fun l => l) (fun w => w)
        (fun w (l : List Θ) => Mat.ofFn w.r 1 (fun i _ => w.get i 0 * (l.map expi).getD i 0)) thetas v
      = applyOper (.mphase (thetas.map expi)) v := by
  unfold Translated.multiphase_apply applyOper
  simp only [List.length_map]
  by_cases h : v.r = thetas.length
  · simp [h]
  · have : ((v.r : Int) != ((thetas.length : Nat) : Int)) = true := by
      simp only [bne_iff_ne, ne_eq]; intro e; apply h; exact_mod_cast e
    simp [this, h]

/-- TRANSLATION TIE: `split_circuit(circuit, predicate)` regenerated from the current source (the generator run to its end,
    `itertools.groupby` with its groups taken as lists), with the TRANSLATED constructor as `Circuit(operations, n_qubits=n_qubits)`,
    yields exactly the model's `splitCircuit`, for every well-formed circuit (what every constructor call returns:
    width 0 ⇒ no operations) and every predicate. -/
theorem translated_split_circuit_eq (c : Circ R) (hc : c.wf) (p : Oper R → Bool) :
    Translated.split_circuit Circ.ops nInt newCirc c p = some (splitCircuit c p) := by
  unfold Translated.split_circuit splitCircuit
  rw [groupby_eq_groupBy]
  dsimp only
  by_cases h0 : c.n = 0
  · rw [hc h0]; rfl
  · rw [foldlOpt_append_eq_map _ (fun (bg : Bool × List (Oper R)) => (bg.1, (⟨c.n, bg.2⟩ : Circ R))) (by
      intro st bg
      simp only [nInt, newCirc_eq, mkCircuit_pos _ _ (Nat.pos_of_ne_zero h0)])]
    simp

end Container

/-! ### END-TO-END: property theorems of `Props/C01.lean` restated ON THE TRANSLATED CODE -/

section EndToEnd
open OQ.Spec Matrix
variable {R : Type} [CommRing R]

/-- END-TO-END (`add_circuit_width_max` on the translated `_append_circuit` + translated `__init__`): `c1 + c2` has the operations
    of both in order and the larger of the two widths. -/
theorem translated_add_circuit_width_max (c d : Circ R) (hc : c.wf) (hd : d.wf) :
    Translated.append_circuit (ω := Oper R) Circ.ops nInt newCirc d c = some ⟨max c.n d.n, c.ops ++ d.ops⟩ := by
  rw [translated_append_circuit_eq]; exact add_circuit_width_max c d hc hd

/-- END-TO-END (`add_operation_width_max` on the translated `_append_operation` + translated `__init__`). -/
theorem translated_add_operation_width_max (c : Circ R) (o : Op R) (h : o.qs ≠ []) :
    Translated.append_operation qiInt Circ.ops nInt newCirc (.gate o) c =
      some ⟨max c.n (listMax o.qs + 1), c.ops ++ [.gate o]⟩ := by
  rw [translated_append_operation_eq]; exact (add_operation_width_max c o h []).1

/-- END-TO-END (sentence 3 of C01 on the translated `Circuit.__add__` → singledispatch → overloads → `__init__`): `c + d` for
    well-formed circuits has the operations of both in order and the larger width; `c + gate_operation` appends it with width
    `max(width, largest index + 1)`; `c + phase-only operation` raises. -/
theorem translated_circuit_add_width (c d : Circ R) (hc : c.wf) (hd : d.wf) (o : Op R) (ho : o.qs ≠ []) (fs : List R) :
    Translated.circuit_add qiInt Circ.ops nInt newCirc asGate asCirc c (.inr d) = some ⟨max c.n d.n, c.ops ++ d.ops⟩ ∧
    Translated.circuit_add qiInt Circ.ops nInt newCirc asGate asCirc c (.inl (.gate o))
      = some ⟨max c.n (listMax o.qs + 1), c.ops ++ [.gate o]⟩ ∧
    Translated.circuit_add qiInt Circ.ops nInt newCirc asGate asCirc c (.inl (.mphase fs)) = none := by
  refine ⟨?_, ?_, ?_⟩
  · rw [translated_circuit_add_eq]; exact add_circuit_width_max c d hc hd
  · rw [translated_circuit_add_eq]; exact (add_operation_width_max c o ho []).1
  · rw [translated_circuit_add_eq]; rfl

/-- END-TO-END (`toUnitary_ordered_product` on the translated `to_unitary`): for every non-empty circuit of valid gate operations
    the TRANSLATED `to_unitary` returns a `2^n × 2^n` matrix equal to the product, in program order (first operation rightmost), of
    each gate's own matrix on exactly its qubits and identity elsewhere. -/
theorem translated_toUnitary_ordered_product {N : Type} (isSym : Mat R → Bool) (tolist : Mat R → N) (ofList : N → Mat R)
    (hconv : ∀ m, ofList (tolist m) = m) (n : Nat) (gs : List (Op R)) (hne : gs ≠ []) (h : ∀ o ∈ gs, OpValid n o) :
    ∃ U, Translated.circuit_to_unitary Circ.ops nInt Oper.isGate (fun o k => Oper.lifted k.toNat o) isSym tolist ofList Mat.mul
        (⟨n, gs.map Oper.gate⟩ : Circ R) = some U ∧ U.r = 2 ^ n ∧ U.c = 2 ^ n ∧
      toBV n U = circSem n (gs.map Oper.gate) := by
  rw [translated_to_unitary_eq isSym tolist ofList hconv]
  exact toUnitary_ordered_product n gs hne h

/-- END-TO-END (F17 on the translated code): the empty circuit has no matrix — `reduce` of an empty sequence raises. -/
theorem translated_toUnitary_empty_none (n : Nat) :
    Translated.circuit_to_unitary Circ.ops nInt Oper.isGate (fun o k => Oper.lifted k.toNat o) (fun _ => false)
      (fun (m : Mat R) => m) (fun m => m) Mat.mul (⟨n, []⟩ : Circ R) = none := by
  rw [translated_to_unitary_eq (fun _ => false) (fun m => m) (fun m => m) (fun _ => rfl)]; rfl

/-- END-TO-END (`splitCircuit_spec` on the translated `split_circuit`): the pieces the TRANSLATED generator yields concatenate to
    the circuit's operations in order, each keeps the width of the whole circuit, is non-empty and constant under the predicate
    with the value of its tag, and consecutive tags differ. -/
theorem translated_split_circuit_spec (c : Circ R) (hc : c.wf) (p : Oper R → Bool) :
    ∃ pieces, Translated.split_circuit Circ.ops nInt newCirc c p = some pieces ∧
      (pieces.flatMap (fun s => s.2.ops) = c.ops) ∧
      (∀ s ∈ pieces, s.2.n = c.n ∧ s.2.ops ≠ [] ∧ ∀ op ∈ s.2.ops, p op = s.1) ∧
      List.IsChain (fun a b => a.1 ≠ b.1) pieces :=
  ⟨_, translated_split_circuit_eq c hc p, splitCircuit_spec c p⟩

end EndToEnd

/-! ### Non-vacuity: the TRANSLATED definitions on concrete inputs -/

section Examples
private def opA : Oper Int := .gate ⟨Mat.ofLists [[0, 1], [1, 0]], [2]⟩
private def opB : Oper Int := .gate ⟨Mat.ofLists [[1, 0], [0, -1]], [0]⟩
private def opP : Oper Int := .mphase [1, -1]

example : Translated.circuit_size_by_operations qiInt [opA, opB] = some 3 := by decide
example : Translated.circuit_size_by_operations qiInt ([] : List (Oper Int)) = some 0 := by decide
example : Translated.circuit_size_by_operations qiInt [(.gate ⟨Mat.ofLists [[1]], []⟩ : Oper Int)] = none := by decide
example : (Translated.circuit_init qiInt (some [opA, opB]) none).map (fun p => (p.1.length, p.2)) = some (2, 3) := by decide
example : (Translated.circuit_init qiInt (some [opA]) (some 5)).map (fun p => (p.1.length, p.2)) = some (1, 5) := by decide
example : (Translated.circuit_init qiInt (some [opA]) (some 0)).map (fun p => (p.1.length, p.2)) = some (1, 3) := by decide
example : (Translated.circuit_init qiInt (some [opA]) (some (-2))).isNone := by decide
example : (Translated.circuit_init qiInt (none : Option (List (Oper Int))) none).map (fun p => (p.1.length, p.2)) = some (0, 0) := by
  decide
example : (Translated.append_operation qiInt Circ.ops nInt newCirc opA (⟨1, [opB]⟩ : Circ Int)).map
    (fun c => (c.n, c.ops.length)) = some (3, 2) := by decide
example : (Translated.append_circuit Circ.ops nInt newCirc (⟨3, [opA]⟩ : Circ Int) ⟨1, [opB]⟩).map
    (fun c => (c.n, c.ops.length)) = some (3, 2) := by decide
example : (Translated.circuit_add qiInt Circ.ops nInt newCirc asGate asCirc (⟨1, [opB]⟩ : Circ Int) (.inl opA)).map
    (fun c => (c.n, c.ops.length)) = some (3, 2) := by decide
example : (Translated.circuit_add qiInt Circ.ops nInt newCirc asGate asCirc (⟨1, [opB]⟩ : Circ Int) (.inl opP)).isNone := by decide
example : (Translated.circuit_add qiInt Circ.ops nInt newCirc asGate asCirc (⟨1, [opB]⟩ : Circ Int) (.inr ⟨3, [opA]⟩)).map
    (fun c => (c.n, c.ops.length)) = some (3, 2) := by decide
example : (Translated.split_circuit Circ.ops nInt newCirc (⟨3, [opA, opP, opB, opA]⟩ : Circ Int) Oper.isGate).map
    (fun l => l.map (fun s => (s.1, s.2.ops.length, s.2.n))) = some [(true, 1, 3), (false, 1, 3), (true, 2, 3)] := by decide
-- `to_unitary`: X on qubit 0 after Z on qubit 0 of a one-qubit register is X·Z (first operation rightmost)
example : ((Translated.circuit_to_unitary Circ.ops nInt Oper.isGate (fun o n => Oper.lifted n.toNat o) (fun _ => false)
      (fun (m : Mat Int) => m) (fun m => m) Mat.mul
      (⟨1, [.gate ⟨Mat.ofLists [[1, 0], [0, -1]], [0]⟩, .gate ⟨Mat.ofLists [[0, 1], [1, 0]], [0]⟩]⟩ : Circ Int)).map
    (fun U => U.toLists)) = some [[0, -1], [1, 0]] := by decide +kernel
-- a phase-only operation makes it raise
example : (Translated.circuit_to_unitary Circ.ops nInt Oper.isGate (fun o n => Oper.lifted n.toNat o) (fun _ => false)
      (fun (m : Mat Int) => m) (fun m => m) Mat.mul (⟨1, [opB, opP]⟩ : Circ Int)).isNone := by decide +kernel
-- `MultiPhaseOperation.apply`: a length mismatch raises; otherwise entrywise product
example : (Translated.multiphase_apply (π := List Int) (ρ := Unit) (fun p => p) (fun (w : Mat Int) => (w.r : Int)) (fun l => some l) ()
    (fun l _ => l) (fun l => l) (fun w => w) (fun w l => Mat.ofFn w.r 1 (fun i _ => w.get i 0 * l.getD i 0)) [1, -1]
    (Mat.ofLists [[3], [5]])).map Mat.toLists = some [[3], [-5]] := by decide +kernel
example : (Translated.multiphase_apply (π := List Int) (ρ := Unit) (fun p => p) (fun (w : Mat Int) => (w.r : Int)) (fun l => some l) ()
    (fun l _ => l) (fun l => l) (fun w => w) (fun w l => Mat.ofFn w.r 1 (fun i _ => w.get i 0 * l.getD i 0)) [1, -1, 1]
    (Mat.ofLists [[3], [5]])).isNone := by decide +kernel
-- the hypothesis `hconv` is satisfiable (the conversion through nested lists)
example : ∀ m : List (List Int), (fun x => x) ((fun x => x) m) = m := fun _ => rfl
end Examples

end OQ.C01
