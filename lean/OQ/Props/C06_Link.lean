/-
  C06 ⟷ C07 ⟷ C02 — LINK THEOREMS: the hypotheses `Laws S` and `HermOK S g` of C06's theorems
  (`gateMatrix_bind`, `bind_bind_gate`, `circuitMatrix_bind`) are THEOREMS about the concrete matrix semantics
  of C07 and the gate table of C02.  Helper lemmas: OQ/Lemmas/C06_Link.lean.

  The concrete interpretation `cSem I k x : Sem V (CM R)` over any commutative ⋆-ring `R`:
    * matrices are `CM R = Except C07.Err (SqMat R)` – a raised exception or a well-formed square executable matrix;
    * `ctrl n M`  = C07's `ctlMatrix (d·(2^n − 1)) M`   (`Matrix.diag(eye(2^(N+n) − 2^N), M)`, `d = 2^N` the size of `M`);
    * `dag M`     = C07's `adjointWith star M`;   `pow` = C07's `mpow x`, `exp` = the external `x.mexp` (shape-checked);
    * `builtin`   = `OQ.Gates.builtinMatrix k` (the factories C02 and C07 reason about), `ofEntries` = `Mat.ofLists`;
    * `lift` / `mul` = `OQ.Lift.liftMatrix` / `Mat.mul` (shape-checked);
    * `I : Interp V R` says how the VALUE of a parameter expression is read: as the half-angle point of an angle by the
      built-in factories (`toAng`) and as a scalar by custom matrix entries (`toVal`), `I.alg` evaluates expressions.
  At `V = ℝ`, `R = ℂ`, `toAng θ = (cos θ/2, sin θ/2)` this is the real semantics (`realInterp`, theorems `*_real`).

  What is closed:  `Laws (cSem I k x)` holds outright; `HermOK (cSem I k x) g` holds for every gate whose set flags are
  flags the library sets (`LibFlags g`, decidable), from C02's `flag_hermitian`, given the laws of the constants
  (`C02.Laws k`) and that parameter values are real angles (`∀ v, C02.Valid (I.toAng v)`).
-/
import OQ.Props.C06
import OQ.Props.C07
import OQ.Props.C02
import OQ.Lemmas.C06_Link
namespace OQ.C06.Link
open OQ

variable {V R : Type} [CommRing R] [StarRing R]

/-! ## the hypotheses of C06, as theorems -/

/-- removes `L : Laws S` (hypothesis of `gateMatrix_bind`, `bind_bind_gate`, `circuitMatrix_bind`): the concrete
    interpretation satisfies the three wrapper laws – the control blocks of C07's `ctlMatrix` merge with the counts
    added, C07's `adjointWith star` is an involution and commutes with the control block – for every reading of the
    parameters, all constants, all externals, and every matrix or exception. -/
theorem concrete_laws (I : Interp V R) (k : Scal R) (x : C07.Ext R) : Laws (cSem I k x) :=
  cSem_laws I k x

/-- what the two wrappers of the concrete interpretation ARE, in the Mathlib view C07's theorems use: the control
    wrapper is the block matrix `diag(1, M)` (`C07.blockDiag`, as in `C07.controlled_matrix_block`) with an identity
    block of size `d·(2^n − 1)`, the dagger wrapper is the conjugate transpose (as in `C07.dagger_adjoint_partial`). -/
theorem concrete_wrappers_meaning (n d : Nat) (A : SqMat R) (hd : A.1.r = d) :
    (ctl n A).1.r = ctlBlock n d + d ∧ ctlBlock n d + d = 2 ^ n * d ∧
    Mat.toM (ctlBlock n d + d) (ctlBlock n d + d) (ctl n A).1 = C07.blockDiag (ctlBlock n d) (Mat.toM d d A.1) ∧
    Mat.toM d d (adj A).1 = (Mat.toM d d A.1).conjTranspose := by
  have hc : A.1.c = d := by rw [A.2.2]; exact hd
  refine ⟨?_, ?_, ?_, C07.toM_adjointWith' d A.1 hd hc⟩
  · show ctlBlock n A.1.r + A.1.r = _
    rw [hd]
  · unfold ctlBlock
    have := Nat.one_le_two_pow (n := n)
    rw [Nat.mul_sub_one, Nat.mul_comm d]
    have := Nat.le_mul_of_pos_left d this
    omega
  · show Mat.toM _ _ (C07.ctlMatrix (ctlBlock n A.1.r) A.1) = _
    rw [hd]
    exact C07.toM_ctlMatrix _ d A.1 hd hc

/-- removes `hh : HermOK S g` (hypothesis of `gateMatrix_bind`, `bind_bind_gate`): for the concrete interpretation
    the `is_hermitian` flags tell the truth on every gate whose set flags are the library's (`LibFlags`) – by C02's
    `flag_hermitian` for the flagged rows of the generated gate table, at all real parameter values. -/
theorem concrete_hermOK (I : Interp V R) (k : Scal R) (x : C07.Ext R) (hk : C02.Laws k)
    (hv : ∀ v, C02.Valid (I.toAng v)) (g : Gate) (hf : LibFlags g) : HermOK (cSem I k x) g :=
  hermOK_of_libFlags I k x hk hv g hf

/-- the flag table C07 uses is the flag column of the gate table C02 re-extracts from the Python module -/
theorem hermitianNames_eq_table :
    C07.hermitianNames = (Generated.gateTable.filter C02.Row.isHermitian).map C02.Row.name := by
  decide

/-! ## C06's theorems for the concrete interpretation, without `Laws` / `HermOK` -/

/-- `gateMatrix_bind` without `L : Laws S` and without `hh : HermOK S g`: for C07's matrix semantics, binding and
    then taking the matrix equals taking the matrix symbolically and substituting afterwards, for every chain of
    `ControlledGate` / `Dagger` wrappers over a built-in or custom factory gate carrying library flags. -/
theorem gateMatrix_bind_concrete (I : Interp V R) (k : Scal R) (x : C07.Ext R) (hk : C02.Laws k)
    (hv : ∀ v, C02.Valid (I.toAng v)) (ρ : String → V) (m : SymMap) (g g' : Gate)
    (hf : LibFlags g) (hc : CustomOK g) (h : g.bind m = .ok g') :
    gateMatrix (cSem I k x) ρ g' = gateMatrix (cSem I k x) (comp I.alg ρ m) g :=
  gateMatrix_bind (cSem I k x) (concrete_laws I k x) ρ m g g' (concrete_hermOK I k x hk hv g hf) hc h

/-- `bind_bind_gate` without `L : Laws S` and without `hh : HermOK S g` -/
theorem bind_bind_gate_concrete (I : Interp V R) (k : Scal R) (x : C07.Ext R) (hk : C02.Laws k)
    (hv : ∀ v, C02.Valid (I.toAng v)) (ρ : String → V) (m1 m2 : SymMap) (hnm : NoMention m1 m2)
    (g g1 g2 : Gate) (hf : LibFlags g) (hc : CustomOK g) (h1 : g.bind m1 = .ok g1) (h2 : g1.bind m2 = .ok g2) :
    ∃ g12, g.bind (m1 ++ m2) = .ok g12 ∧ g12.params = g2.params ∧
      gateMatrix (cSem I k x) ρ g12 = gateMatrix (cSem I k x) ρ g2 :=
  bind_bind_gate (cSem I k x) (concrete_laws I k x) ρ m1 m2 hnm g g1 g2 (concrete_hermOK I k x hk hv g hf) hc h1 h2

/-- the flags of every gate operation of a circuit are library flags -/
def OpLibFlags : Op → Prop
  | .gate g _ => LibFlags g
  | _ => True

/-- `circuitMatrix_bind` without `L : Laws S` and without `hh : ∀ o ∈ c.ops, o.HermOK S`: the unitary of the bound
    circuit (product of C07-matrices lifted by `OQ.Lift.liftMatrix`) is the unitary of the original circuit
    evaluated symbolically and substituted afterwards; width and qubits are kept. -/
theorem circuitMatrix_bind_concrete (I : Interp V R) (k : Scal R) (x : C07.Ext R) (hk : C02.Laws k)
    (hv : ∀ v, C02.Valid (I.toAng v)) (ρ : String → V) (m : SymMap) (c c' : Circuit) (hwf : c.WF)
    (hf : ∀ o ∈ c.ops, OpLibFlags o) (hc : ∀ o ∈ c.ops, o.CustomOK) (h : c.bind m = .ok c') :
    circuitMatrix (cSem I k x) ρ c' = circuitMatrix (cSem I k x) (comp I.alg ρ m) c ∧ c'.nQubits = c.nQubits ∧
      c'.ops.map Op.qubits = c.ops.map Op.qubits := by
  refine circuitMatrix_bind (cSem I k x) (concrete_laws I k x) ρ m c c' hwf ?_ hc h
  intro o ho
  cases o with
  | gate g qs => exact concrete_hermOK I k x hk hv g (hf _ ho)
  | multiPhase ps => trivial
  | reset q => trivial

/-! ## the concrete interpretation IS C07's `gateMatrix` -/

/-- for every chain of `ControlledGate` (≥ 1 control each) / `Dagger` wrappers whose factory gates return
    `2^num_qubits` square matrices, the matrix of the concrete interpretation is `C07.gateMatrix star x` of the
    corresponding C07 gate object `toC07 … ρ g` (same wrappers, evaluated parameters), exceptions included. -/
theorem concrete_agrees_with_C07 (I : Interp V R) (k : Scal R) (x : C07.Ext R) (ρ : String → V) (g : Gate)
    (hcd : g.isCD = true) (hp : PosCtl g) (hd : DimOK (cSem I k x) ρ g) :
    (gateMatrix (cSem I k x) ρ g).map Subtype.val = C07.gateMatrix star x (toC07 I k x ρ g) ∧
    C07.WellDim (toC07 I k x ρ g) :=
  ⟨(agree_aux I k x ρ g hcd hp (wellDim_toC07 I k x ρ g hd)).1, wellDim_toC07 I k x ρ g hd⟩

/-- C06's sentence 1 stated on C07's gate objects and C07's `gateMatrix` only: the C07 object of the bound gate at
    `ρ` and the C07 object of the original gate at "substitute, then `ρ`" have the same matrix (or raise the same
    exception).  The shape hypotheses are made on the ORIGINAL gate only; they are shown to carry over to the bound
    gate (`bind` re-associates the chain but keeps every count ≥ 1 and the factory gate). -/
theorem gateMatrix_bind_C07 (I : Interp V R) (k : Scal R) (x : C07.Ext R) (hk : C02.Laws k)
    (hv : ∀ v, C02.Valid (I.toAng v)) (ρ : String → V) (m : SymMap) (g g' : Gate)
    (hf : LibFlags g) (hc : CustomOK g) (hp : PosCtl g) (hd : DimOK (cSem I k x) (comp I.alg ρ m) g)
    (h : g.bind m = .ok g') :
    C07.gateMatrix star x (toC07 I k x ρ g') = C07.gateMatrix star x (toC07 I k x (comp I.alg ρ m) g) := by
  obtain ⟨hp', hd'⟩ := bind_inv (cSem I k x) ρ m hc h hp hd
  rw [← (concrete_agrees_with_C07 I k x ρ g' (customOK_bind hc h).2 hp' hd').1,
    ← (concrete_agrees_with_C07 I k x (comp I.alg ρ m) g (bind_ok_isCD h) hp hd).1,
    gateMatrix_bind_concrete I k x hk hv ρ m g g' hf hc h]

/-! ## the real semantics: V = ℝ, R = ℂ -/

/-- parameter values are real numbers; a built-in factory reads the value `θ` as the angle `θ`
    (point `(cos θ/2, sin θ/2)`, `C02.real_angle_meaning`), a custom matrix entry reads it as the complex number `θ`.
    sympy's `Pow` and named functions on the reals are parameters. -/
noncomputable def realInterp (pw : ℝ → ℝ → ℝ) (fn : String → ℝ → ℝ) : Interp ℝ ℂ where
  alg := { ofRat := fun q => (q : ℝ), add := fun a b => a + b, mul := fun a b => a * b, pow := pw, fn := fn }
  toAng := C02.angR
  toVal := fun θ => (θ : ℂ)

/-- `gateMatrix_bind` at the real semantics with NO assumption on the interpretation left (`Laws`, `HermOK`, the
    laws of the constants and the validity of the angle points are all discharged): for all real assignments. -/
theorem gateMatrix_bind_real (pw : ℝ → ℝ → ℝ) (fn : String → ℝ → ℝ) (x : C07.Ext ℂ) (ρ : String → ℝ) (m : SymMap)
    (g g' : Gate) (hf : LibFlags g) (hc : CustomOK g) (h : g.bind m = .ok g') :
    gateMatrix (cSem (realInterp pw fn) C02.kC x) ρ g' =
      gateMatrix (cSem (realInterp pw fn) C02.kC x) (comp (realInterp pw fn).alg ρ m) g :=
  gateMatrix_bind_concrete (realInterp pw fn) C02.kC x C02.kC_laws (fun θ => C02.angR_valid θ) ρ m g g' hf hc h

/-- `circuitMatrix_bind` at the real semantics with no assumption on the interpretation left -/
theorem circuitMatrix_bind_real (pw : ℝ → ℝ → ℝ) (fn : String → ℝ → ℝ) (x : C07.Ext ℂ) (ρ : String → ℝ)
    (m : SymMap) (c c' : Circuit) (hwf : c.WF) (hf : ∀ o ∈ c.ops, OpLibFlags o) (hc : ∀ o ∈ c.ops, o.CustomOK)
    (h : c.bind m = .ok c') :
    circuitMatrix (cSem (realInterp pw fn) C02.kC x) ρ c' =
      circuitMatrix (cSem (realInterp pw fn) C02.kC x) (comp (realInterp pw fn).alg ρ m) c ∧
    c'.nQubits = c.nQubits ∧ c'.ops.map Op.qubits = c.ops.map Op.qubits :=
  circuitMatrix_bind_concrete (realInterp pw fn) C02.kC x C02.kC_laws (fun θ => C02.angR_valid θ) ρ m c c' hwf hf hc h

/-! ## non-vacuity: concrete inputs meeting the hypotheses, values computed exactly in ℚ(ζ₈) -/
namespace Ex
open OQ.C06.Ex

/-- two angle values: `false` ↦ angle 0, `true` ↦ the angle with half-angle point (3/5, 4/5) -/
def bI : Interp Bool Cyc8 where
  alg := { ofRat := fun _ => false, add := fun a b => a || b, mul := fun a b => a && b, pow := fun a _ => a,
           fn := fun _ a => a }
  toAng := fun b => if b then ⟨Cyc8.ofRat (3/5), Cyc8.ofRat (4/5)⟩ else ⟨Cyc8.ofRat 1, Cyc8.ofRat 0⟩
  toVal := fun b => if b then 1 else 0

private theorem bI_valid : ∀ v, C02.Valid (bI.toAng v) := by
  intro v
  cases v
  · exact C02.cyc8_valid_of_rat 1 0 (by norm_num)
  · exact C02.cyc8_valid_of_rat (3/5) (4/5) (by norm_num)

abbrev S8 := cSem bI Scal.cyc8 (C07.Inst.extNone Cyc8)
def xg : Gate := .mf "X" (.builtin "X") [] 1 true
def rxg : Gate := .mf "RX" (.builtin "RX") [.expr (.sym "x")] 1 false
def env (s : String) : Bool := s = "y"
def view (X : CM Cyc8) : Except C07.Err (List (List Cyc8)) := X.map (fun A => A.1.toLists)

-- the hypotheses are satisfiable: constants, angle values, flags, shapes
example : C02.Laws Scal.cyc8 := C02.cyc8_laws
example : LibFlags (.ctrl (.dag xg) 2) ∧ LibFlags (.ctrl (.dag rxg) 1) ∧ LibFlags (cust [.expr x, .number 2]) := by decide
example : ¬ LibFlags (.mf "RX" (.builtin "RX") [.expr (.sym "x")] 1 true) := by decide
example : PosCtl (.ctrl (.dag rxg) 1) := ⟨by decide, trivial⟩
-- the concrete interpretation computes: X.controlled(1) is CNOT, …
example : view (gateMatrix S8 env (.ctrl xg 1)) = .ok (Gates.cnot (R := Cyc8)).toLists := by decide +kernel
-- … the two control blocks merge (law `ctrl_ctrl` on a concrete matrix), …
example : view (gateMatrix S8 env (.ctrl (.ctrl xg 1) 1)) = view (gateMatrix S8 env (.ctrl xg 2)) := by decide +kernel
-- … the dagger of RX at a non-trivial angle is a different matrix, its double dagger is not, …
example : view (gateMatrix S8 (fun _ => true) (.dag rxg)) ≠ view (gateMatrix S8 (fun _ => true) rxg) := by decide +kernel
example : view (gateMatrix S8 (fun _ => true) (.dag (.dag rxg))) = view (gateMatrix S8 (fun _ => true) rxg) := by
  decide +kernel
-- … a wrong number of parameters is the TypeError of the factory, which the wrappers propagate
example : view (gateMatrix S8 env (.ctrl (.dag (.mf "RX" (.builtin "RX") [] 1 false)) 1)) = .error .type := by decide +kernel
-- bind then evaluate = evaluate at the composed assignment, on a re-associated chain (instance of the theorem)
example : view (gateMatrix S8 env (.ctrl (.dag (.mf "RX" (.builtin "RX") [.expr (.sym "y")] 1 false)) 3)) =
    view (gateMatrix S8 (comp bI.alg env [("x", .expr (.sym "y"))]) (.dag (.ctrl (.ctrl rxg 1) 2))) := by
  have h : (Gate.dag (.ctrl (.ctrl rxg 1) 2)).bind [("x", .expr (.sym "y"))] =
      .ok (.ctrl (.dag (.mf "RX" (.builtin "RX") [.expr (.sym "y")] 1 false)) 3) := by decide +kernel
  exact congrArg view (gateMatrix_bind_concrete bI Scal.cyc8 (C07.Inst.extNone Cyc8) C02.cyc8_laws bI_valid env
    [("x", .expr (.sym "y"))] (.dag (.ctrl (.ctrl rxg 1) 2)) _ (by decide) trivial h)
-- the shape hypothesis of the C07 link holds for the table's `num_qubits`
example : DimOK S8 env (.ctrl (.dag rxg) 1) := by
  intro A hA
  have : view (.ok A) = .ok [[⟨1,0,0,0⟩, 0], [0, ⟨1,0,0,0⟩]] := by rw [← hA]; decide +kernel
  have h2 : A.1.toLists.length = 2 := by
    simp only [view, Except.map] at this
    injection this with this
    rw [this]; rfl
  simpa [Mat.toLists] using h2

end Ex

end OQ.C06.Link
