/- C13 — PROPERTY THEOREMS (translation ties, work package T14): `utils.scale_and_discretize` and
   `Measurements.get_measurements_representing_distribution`.  The definitions `OQ.Generated.Translated.*` are REGENERATED from /repo's
   current Python source on every run (harness/translate_t14.py → OQ/Generated/TranslatedC13.lean); an edit of a Python function changes
   its definition and the equalities below stop checking at build time.

   Reading of the translated definitions (harness/translate_t14.py / translate_t4.py have the details):
   * `Except.error c` = the Python call raises an exception of class `c` (`zeroDiv`, `index`, `value`, `runtime`, …); a failed `assert`
     is rendered as `runtime` (`Exc4` has no AssertionError; `scale_and_discretize` raises no RuntimeError of its own);
   * a Python float is a value of the abstract numeric type `ν` (here `ℚ`): FLOAT ROUNDING IS NOT MODELLED;
   * numpy / builtin float operations (`np.floor`, `np.argsort`, `round`, `int`, `%`) and the random stage
     (`sample_from_probability_distribution`, `_check_sample_elimination`) are PARAMETERS of the definitions; the laws assumed of them
     are hypotheses of the theorems and are named in each docstring;
   * outcomes are tuples of ints (`List Int`), dictionaries / Counters insertion-ordered association lists. -/
import OQ.Lemmas.C13_TranslatedShots
namespace OQ.C13
open OQ.Py OQ.Generated

/-! ### `scale_and_discretize` -/

/-- TRANSLATION TIE: `utils.scale_and_discretize(values, total)` regenerated from the current Python source (harness/translate_t14.py →
    OQ/Generated/TranslatedC13.lean; `np.floor`, `np.argsort`, `round`, `int` are PARAMETERS of the definition) IS the model's
    `scaleAndDiscretize`, run with the order `np.argsort(remainders)[::-1]` – for EVERY list of exact values whose sum is not 0 and every
    int total (negative totals and negative values included).  In particular none of the loop's two index operations raises and the
    final `assert sum(result) == total` never fires (the result is `.ok …`).
    Externals as instantiated: `np.floor q = ⌊q⌋`; `round` / `int` are ANY functions that fix the integers (`round(k.0) = k`,
    `int(k.0) = k`: only ever applied to integral values here); `np.argsort` is ANY function whose answer on the remainders has one
    in-range index per value (law of argsort: a permutation of `range(len)`; which permutation – the tie order – is free).
    Excluded: `sum(values) == 0` (`ZeroDivisionError`: next theorem).  Float rounding is not modelled (`ν = ℚ`). -/
theorem translated_scale_and_discretize_eq (argsort : List Rat → List Int) (round toInt : Rat → Int)
    (hround : ∀ k : Int, round (k : Rat) = k) (hint : ∀ k : Int, toInt (k : Rat) = k)
    (values : List Rat) (total : Int) (hs : values.sum ≠ 0)
    (hrange : ∀ i ∈ argsort (shareRemainders values total), 0 ≤ i ∧ i < values.length)
    (hlen : (argsort (shareRemainders values total)).length = values.length) :
    Translated.scale_and_discretize npFloor argsort round toInt values total =
      .ok (scaleAndDiscretize values total (bumpOrder argsort values total)) := by
  have hne : values ≠ [] := by rintro rfl; simp at hs
  have hb := leftover_bounds values total hs hne
  have hfl : (shareFloors values total).length = values.length := by simp [shareFloors]
  unfold Translated.scale_and_discretize
  simp only [sumNum_rat, rat_cast, divE_rat _ _ hs, bind_ok, rat_mul, rat_sub]
  have e1 : values.map (fun value => npFloor (value * ((total : Rat) / values.sum))) = castL (shareFloors values total) := by
    simp [castL, shareFloors, npFloor]
  have e2 : values.map (fun value => value * ((total : Rat) / values.sum) - npFloor (value * ((total : Rat) / values.sum)))
      = shareRemainders values total := by
    simp [shareRemainders, npFloor]
  rw [e1, e2, castL_sum]
  have e3 : round ((total : Rat) - (((shareFloors values total).sum : Int) : Rat)) = total - (shareFloors values total).sum := by
    rw [← hround (total - (shareFloors values total).sum)]; push_cast; rfl
  rw [e3]
  set idxs := (argsort (shareRemainders values total)).reverse with hidxs
  have hk : (total - (shareFloors values total).sum).toNat ≤ idxs.length := by
    rw [hidxs, List.length_reverse, hlen]; omega
  have hr : ∀ i ∈ idxs, 0 ≤ i ∧ i < (shareFloors values total).length := by
    intro i hi; rw [hfl]; exact hrange i (by simpa [hidxs] using hi)
  have hloop := foldlE_bump idxs (shareFloors values total) hr _ hk
  simp only [rat_add] at hloop ⊢
  rw [hloop]
  simp only [bind_ok]
  have hmodel : (idxs.take (total - (shareFloors values total).sum).toNat).map Int.toNat
      = (bumpOrder argsort values total).take (total - (shareFloors values total).sum).toNat := by
    simp [bumpOrder, hidxs, List.map_take]
  rw [hmodel]
  have hres : List.foldl bumpAt (shareFloors values total)
      ((bumpOrder argsort values total).take (total - (shareFloors values total).sum).toNat)
      = scaleAndDiscretize values total (bumpOrder argsort values total) := rfl
  rw [hres]
  have hmap : mapE (fun (value : Rat) => (Except.ok (toInt value) : Except Exc4 Int))
      (castL (scaleAndDiscretize values total (bumpOrder argsort values total)))
      = .ok (scaleAndDiscretize values total (bumpOrder argsort values total)) := by
    rw [mapE_ok]; congr 1
    simp only [castL, List.map_map]
    conv_rhs => rw [← List.map_id (scaleAndDiscretize values total (bumpOrder argsort values total))]
    apply List.map_congr_left; intro a _; simp [hint]
  rw [hmap]
  simp only [bind_ok, py_sum_eq]
  have hsum := scale_sum values total (bumpOrder argsort values total) hs hne
    (by intro i hi
        simp only [bumpOrder, List.mem_map, List.mem_reverse] at hi
        obtain ⟨a, ha, rfl⟩ := hi
        have := hrange a ha; omega)
    (by simp [bumpOrder, hlen])
  simp [hsum]

/-- … and when the values sum to 0 the translated code raises `ZeroDivisionError` (Python floats / ints; with numpy scalars the
    quotient would be `inf`, which is outside the modelled domain). -/
theorem translated_scale_and_discretize_zero (floor : Rat → Rat) (argsort : List Rat → List Int) (round toInt : Rat → Int)
    (values : List Rat) (total : Int) (hs : values.sum = 0) :
    Translated.scale_and_discretize floor argsort round toInt values total = .error .zeroDiv := by
  unfold Translated.scale_and_discretize
  simp [sumNum_rat, divE, hs]

/-- END-TO-END on the translated code ("`scale_and_discretize` returns integers that sum exactly to the total", `scale_sum`): under the
    hypotheses of the tie the regenerated `scale_and_discretize` returns a list of `len(values)` integers whose sum is `total`. -/
theorem translated_scale_sum (argsort : List Rat → List Int) (round toInt : Rat → Int)
    (hround : ∀ k : Int, round (k : Rat) = k) (hint : ∀ k : Int, toInt (k : Rat) = k)
    (values : List Rat) (total : Int) (hs : values.sum ≠ 0)
    (hrange : ∀ i ∈ argsort (shareRemainders values total), 0 ≤ i ∧ i < values.length)
    (hlen : (argsort (shareRemainders values total)).length = values.length) :
    ∃ r, Translated.scale_and_discretize npFloor argsort round toInt values total = .ok r ∧ r.sum = total ∧
      r.length = values.length := by
  have hne : values ≠ [] := by rintro rfl; simp at hs
  refine ⟨_, translated_scale_and_discretize_eq argsort round toInt hround hint values total hs hrange hlen, ?_, ?_⟩
  · exact scale_sum values total _ hs hne
      (by intro i hi
          simp only [bumpOrder, List.mem_map, List.mem_reverse] at hi
          obtain ⟨a, ha, rfl⟩ := hi
          have := hrange a ha; omega)
      (by simp [bumpOrder, hlen])
  · simp [scaleAndDiscretize, foldl_bump_length, shareFloors]

/-- END-TO-END on the translated code ("each within one of its share", `scale_within_one`): when `np.argsort` answers with a
    permutation (distinct indices), every returned integer is the floor of its proportional share `values[j] * total / sum(values)` or
    one more, hence differs from the share by at most 1. -/
theorem translated_scale_within_one (argsort : List Rat → List Int) (round toInt : Rat → Int)
    (hround : ∀ k : Int, round (k : Rat) = k) (hint : ∀ k : Int, toInt (k : Rat) = k)
    (values : List Rat) (total : Int) (hs : values.sum ≠ 0)
    (hrange : ∀ i ∈ argsort (shareRemainders values total), 0 ≤ i ∧ i < values.length)
    (hlen : (argsort (shareRemainders values total)).length = values.length)
    (hnodup : (argsort (shareRemainders values total)).Nodup)
    (j : Nat) (hj : j < values.length) :
    ∃ r, Translated.scale_and_discretize npFloor argsort round toInt values total = .ok r ∧
      (r.getD j 0 = ⌊values.getD j 0 * ((total : Rat) / values.sum)⌋ ∨
       r.getD j 0 = ⌊values.getD j 0 * ((total : Rat) / values.sum)⌋ + 1) ∧
      |((r.getD j 0 : Int) : Rat) - values.getD j 0 * ((total : Rat) / values.sum)| ≤ 1 := by
  refine ⟨_, translated_scale_and_discretize_eq argsort round toInt hround hint values total hs hrange hlen, ?_⟩
  have hn : (bumpOrder argsort values total).Nodup := by
    unfold bumpOrder
    refine List.Nodup.map_on ?_ (List.nodup_reverse.mpr hnodup)
    intro a ha b hb hab
    have h1 := hrange a (by simpa using ha)
    have h2 := hrange b (by simpa using hb)
    omega
  exact scale_within_one values total _ hn j hj

/-! ### `get_measurements_representing_distribution` -/

/-- TRANSLATION TIE: `Measurements.get_measurements_representing_distribution(distribution, number_of_samples)` regenerated from the
    current Python source – the rounding loop, the guard `len != number_of_samples`, the leftover-distribution comprehension handed to the
    constructor `MeasurementOutcomeDistribution(…, True)` (the TRANSLATED `mod_init` of C17), the top-up loop and the elimination double
    loop with `list.remove` – IS the model's `representing`:
      * when the rounded shots already number `n` the result is the rounding stage `roundedSamples`;
      * otherwise the constructor runs on the leftover weights `0.5 - |0.5 - (p·n) % 1|` (it may raise: the exception is the result),
        and with its dictionary `L` the result is `representing dist n extra`, `extra` being what the random stage handed over
        (`drawn`: the sampler's Counter when shots are added, `_check_sample_elimination`'s when shots are removed; a count `c ≤ 0` stands
        for no shot, as `[x] * c` and `range(c)` do).
    EVERY distribution dictionary (distinct keys – it is a dict), every int `n`, every `isclose` / `float_min` / `%`.
    Externals (parameters): `round` is instantiated with the exact half-to-even rounding; `sample_from_probability_distribution` and
    `_check_sample_elimination` are arbitrary functions returning dicts (distinct keys) – the latter with the law its docstring states:
    it only keeps outcomes that are present often enough in the shot list (otherwise `list.remove` would raise ValueError). -/
theorem translated_representing_eq (isclose : Rat → Rat → Bool) (fmin : Rat) (fmod : Rat → Rat → Rat)
    (sample : Dict Outcome Rat → Int → Dict Outcome Int)
    (elim : Dict Outcome Int → List Outcome → Dict Outcome Rat → Dict Outcome Int)
    (dist : Dict Outcome Rat) (n : Int)
    (hd : (dictKeys dist).Nodup)
    (hs : ∀ L k, (dictKeys (sample L k)).Nodup)
    (he : ∀ s b L, (dictKeys (elim s b L)).Nodup ∧ ∀ p ∈ elim s b L, p.2.toNat ≤ b.count p.1) :
    Translated.get_measurements_representing_distribution isclose fmin roundHalfEven fmod sample elim dist n =
      if ((roundedSamples dist n).length : Int) = n then .ok (roundedSamples dist n)
      else (Translated.mod_init isclose fmin (dictTupKeys (leftoverDict fmod dist n)) true).bind (fun L =>
        .ok (representing dist n (toExtra (drawn sample elim dist n L)))) := by
  unfold Translated.get_measurements_representing_distribution
  simp only [mapE_id, bind_ok, rat_mul, rat_cast, rat_sub, rat_div, Translated.measurements_init, Int.cast_one, Int.cast_ofNat]
  rw [foldlE_extend dist hd (fun v => (roundHalfEven (v * (n : Rat))).toNat) dist (fun _ h => h) []]
  simp only [bind_ok, List.nil_append]
  have hb : dist.flatMap (fun p => List.replicate (roundHalfEven (p.2 * (n : Rat))).toNat p.1) = roundedSamples dist n := rfl
  rw [hb]
  by_cases hlen : ((roundedSamples dist n).length : Int) = n
  · simp [hlen]
  · have hne : (((roundedSamples dist n).length : Int) != n) = true := by simpa using hlen
    simp only [hne, hlen, if_true, if_false]
    rw [foldlE_dictcomp dist hd (fun v => (1 : Rat) / 2 - absNum ((1 : Rat) / 2 - fmod (v * (n : Rat)) 1)) dist (fun _ h => h) []
      (by simpa [dictKeys] using hd)]
    simp only [bind_ok, List.nil_append]
    have hl : dist.map (fun p => (p.1, (1 : Rat) / 2 - absNum ((1 : Rat) / 2 - fmod (p.2 * (n : Rat)) 1))) = leftoverDict fmod dist n := rfl
    rw [hl]
    cases Translated.mod_init isclose fmin (dictTupKeys (leftoverDict fmod dist n)) true with
    | error e => rfl
    | ok L =>
      simp only [bind_ok]
      by_cases hpos : n - ((roundedSamples dist n).length : Int) > 0
      · have hlt : ((roundedSamples dist n).length : Int) < n := by omega
        simp only [hpos, decide_true, if_true]
        rw [foldlE_extend _ (hs L _) (fun (v : Int) => v.toNat) _ (fun _ h => h)]
        simp only [bind_ok, representing, hlen, hlt, if_true, if_false, drawn, hpos, toExtra, List.flatMap_map]
      · have hlt : ¬ ((roundedSamples dist n).length : Int) < n := by omega
        simp only [hpos, decide_false]
        obtain ⟨e1, e2⟩ := he (sample L (absInt (n - ((roundedSamples dist n).length : Int)))) (roundedSamples dist n) L
        rw [foldlE_eliminate _ e1 _ (fun _ h => h) e1 _ e2]
        simp [representing, hlen, hlt, drawn]

/-- END-TO-END on the translated code ("exactly the requested number of shots", `representing_length`): whenever the regenerated
    function returns, it returns `n` shots – provided the random stage hands over exactly `|n − len|` draws (law of
    `np.random.choice(size=…)`, kept by `_check_sample_elimination`). -/
theorem translated_representing_length (isclose : Rat → Rat → Bool) (fmin : Rat) (fmod : Rat → Rat → Rat)
    (sample : Dict Outcome Rat → Int → Dict Outcome Int)
    (elim : Dict Outcome Int → List Outcome → Dict Outcome Rat → Dict Outcome Int)
    (dist : Dict Outcome Rat) (n : Int)
    (hd : (dictKeys dist).Nodup)
    (hs : ∀ L k, (dictKeys (sample L k)).Nodup)
    (he : ∀ s b L, (dictKeys (elim s b L)).Nodup ∧ ∀ p ∈ elim s b L, p.2.toNat ≤ b.count p.1)
    (hdraw : ∀ L, (extraTotal (toExtra (drawn sample elim dist n L)) : Int) = |n - (roundedSamples dist n).length|)
    (r : List Outcome)
    (h : Translated.get_measurements_representing_distribution isclose fmin roundHalfEven fmod sample elim dist n = .ok r) :
    (r.length : Int) = n := by
  rw [translated_representing_eq isclose fmin fmod sample elim dist n hd hs he] at h
  by_cases hlen : ((roundedSamples dist n).length : Int) = n
  · simp only [hlen, if_true] at h
    cases h; exact hlen
  · simp only [hlen, if_false] at h
    cases hL : Translated.mod_init isclose fmin (dictTupKeys (leftoverDict fmod dist n)) true with
    | error e => rw [hL] at h; cases h
    | ok L =>
      rw [hL] at h
      simp only [bind_ok] at h
      cases h
      have hi : (instBEqOfDecidableEq : BEq Outcome) = List.instBEq := beq_unique _ _
      have key := representing_length dist n (toExtra (drawn sample elim dist n L)) (hdraw L)
      rw [hi] at key
      apply key
      · rw [toExtra_keys]; unfold drawn; simp only
        split
        · exact hs L _
        · exact (he _ _ L).1
      · intro hlt p hp
        unfold drawn at hp; simp only at hp
        rw [if_neg (by omega)] at hp
        simp only [toExtra, List.mem_map] at hp
        obtain ⟨q, hq, rfl⟩ := hp
        exact (he _ _ L).2 q hq

/-- END-TO-END on the translated code ("all on the support", `representing_support`): for `n > 0`, whenever the regenerated function
    returns, every returned shot is an outcome of positive probability – provided the random stage only draws outcomes of the support
    (law of `rng.choice`: never an outcome of weight 0). -/
theorem translated_representing_support (isclose : Rat → Rat → Bool) (fmin : Rat) (fmod : Rat → Rat → Rat)
    (sample : Dict Outcome Rat → Int → Dict Outcome Int)
    (elim : Dict Outcome Int → List Outcome → Dict Outcome Rat → Dict Outcome Int)
    (dist : Dict Outcome Rat) (n : Int) (hn : 0 < n)
    (hd : (dictKeys dist).Nodup)
    (hs : ∀ L k, (dictKeys (sample L k)).Nodup)
    (he : ∀ s b L, (dictKeys (elim s b L)).Nodup ∧ ∀ p ∈ elim s b L, p.2.toNat ≤ b.count p.1)
    (hsupp : ∀ L, ∀ p ∈ drawn sample elim dist n L, 0 < p.2 → ∃ q ∈ dist, q.1 = p.1 ∧ 0 < q.2)
    (r : List Outcome)
    (h : Translated.get_measurements_representing_distribution isclose fmin roundHalfEven fmod sample elim dist n = .ok r) :
    ∀ x ∈ r, ∃ q ∈ dist, q.1 = x ∧ 0 < q.2 := by
  rw [translated_representing_eq isclose fmin fmod sample elim dist n hd hs he] at h
  have hi : (instBEqOfDecidableEq : BEq Outcome) = List.instBEq := beq_unique _ _
  by_cases hlen : ((roundedSamples dist n).length : Int) = n
  · simp only [hlen, if_true] at h
    cases h
    have key := representing_support dist n hn [] (by simp) (by simp) (by simp)
    rw [hi] at key
    simpa [representing, hlen] using key
  · simp only [hlen, if_false] at h
    cases hL : Translated.mod_init isclose fmin (dictTupKeys (leftoverDict fmod dist n)) true with
    | error e => rw [hL] at h; cases h
    | ok L =>
      rw [hL] at h
      simp only [bind_ok] at h
      cases h
      have key := representing_support dist n hn (toExtra (drawn sample elim dist n L))
      rw [hi] at key
      apply key
      · rw [toExtra_keys]; unfold drawn; simp only
        split
        · exact hs L _
        · exact (he _ _ L).1
      · intro hlt p hp
        unfold drawn at hp; simp only at hp
        rw [if_neg (by omega)] at hp
        simp only [toExtra, List.mem_map] at hp
        obtain ⟨q, hq, rfl⟩ := hp
        exact (he _ _ L).2 q hq
      · intro p hp hpos
        simp only [toExtra, List.mem_map] at hp
        obtain ⟨q, hq, rfl⟩ := hp
        exact hsupp L q hq (by simp only at hpos; omega)

/-! non-vacuity: the TRANSLATED definitions on concrete inputs (externals instantiated as in the ties) -/
example : Translated.scale_and_discretize npFloor (fun _ => [0, 1, 2]) roundHalfEven (fun q => q.floor) [1, 2, 4] 10 = .ok [1, 3, 6] := by
  decide +kernel
example : Translated.scale_and_discretize npFloor (fun _ => [2, 0, 1]) roundHalfEven (fun q => q.floor) [1/2, 1/2, 1/4] 7 = .ok [3, 3, 1] := by
  decide +kernel
example : Translated.scale_and_discretize npFloor (fun _ => [0, 1]) roundHalfEven (fun q => q.floor) [1, -1] 3 = .error .zeroDiv := by
  decide +kernel
-- an `argsort` that breaks its law (index out of range) makes the code raise IndexError
example : Translated.scale_and_discretize npFloor (fun _ => [0, 1, 5]) roundHalfEven (fun q => q.floor) [1, 2, 4] 10 = .error .index := by
  decide +kernel
/-- the hypotheses of `translated_scale_and_discretize_eq` are met by the first input -/
example : ([1, 2, 4] : List Rat).sum ≠ 0 ∧ (∀ i ∈ ([0, 1, 2] : List Int), 0 ≤ i ∧ i < (([1, 2, 4] : List Rat).length : Int)) := by
  refine ⟨by decide +kernel, by decide⟩
-- 3 shots from {0: 1/2, 1: 1/2}: rounding 3/2 half-to-even gives 2 + 2 = 4 shots, one is eliminated
example : Translated.get_measurements_representing_distribution ratIsClose (1 / (2 : Rat) ^ 1022) roundHalfEven
    (fun a b => a - b * ((a / b).floor : Rat)) (fun _ _ => [([1], 1)]) (fun s _ _ => s) [([0], 1/2), ([1], 1/2)] 3 =
    .ok [[0], [0], [1]] := by decide +kernel
-- 1 shot from the same distribution: rounding gives none (1/2 → 0), one is added
example : Translated.get_measurements_representing_distribution ratIsClose (1 / (2 : Rat) ^ 1022) roundHalfEven
    (fun a b => a - b * ((a / b).floor : Rat)) (fun _ _ => [([1], 1)]) (fun s _ _ => s) [([0], 1/2), ([1], 1/2)] 1 =
    .ok [[1]] := by decide +kernel
-- consistent frequencies: no random stage
example : Translated.get_measurements_representing_distribution ratIsClose (1 / (2 : Rat) ^ 1022) roundHalfEven
    (fun a b => a - b * ((a / b).floor : Rat)) (fun _ _ => []) (fun s _ _ => s) [([0, 1], 1/4), ([1, 1], 3/4)] 4 =
    .ok [[0, 1], [1, 1], [1, 1], [1, 1]] := by decide +kernel
-- an elimination Counter that breaks its law (outcome not present) makes `list.remove` raise ValueError
example : Translated.get_measurements_representing_distribution ratIsClose (1 / (2 : Rat) ^ 1022) roundHalfEven
    (fun a b => a - b * ((a / b).floor : Rat)) (fun _ _ => [([7], 1)]) (fun s _ _ => s) [([0], 1/2), ([1], 1/2)] 3 =
    .error .value := by decide +kernel

end OQ.C13
