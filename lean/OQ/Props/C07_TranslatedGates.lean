/- C07 — PROPERTY THEOREMS (translation tie of the gate CLASSES).
   `OQ.Generated.TranslatedGates` is REGENERATED on every run from the current source of the dataclasses `MatrixFactoryGate`,
   `ControlledGate`, `Dagger`, `Exponential`, `Power` of `circuits/_gates.py` (harness/translate_cls.py: one inductive constructor
   per class with the dataclass fields in source order, one Lean function per method / property defined by cases on the class,
   each case rendered mechanically from that class's method body, constructor calls through `mk_<Class>` = `__post_init__`).
   The theorems below prove that these regenerated rules ARE the hand-written model `OQ/Model/C07.lean` (the object every other
   theorem of C07 speaks about), for ALL gates and all arguments; an edit of a method body, of a `__post_init__` guard or of the
   field list changes the generated definitions and these equalities stop checking at build time.

   Reading guide.  `emb` embeds the model's gate tree into the generated `Gate P F E` (`F` := the model's factory type, `E` := `Rat`;
   the model stores `num_control_qubits − 1 : Nat`, the code stores the count itself; `num_qubits` is a `Nat` in the model).
   The numeric model of C07 has no symbols: the externals are INSTANTIATED by `noSymbols` (`get_free_symbols := fun _ => []`,
   so the `Power` / `Exponential` constructor guards never fire) – that instantiation is the assumption under which the model's
   total `powerM` / `expM` / `daggerM` are the code (with symbols the guard is part of C06's model, see C06_TranslatedGates).
   `toModel` only renames the exception classes (`ValueError ↦ Err.value`); it is injective, so an equation
   `toModel r = (model result).map emb` determines `r`.  Not translated: `matrix`, `name`, `__str__`, `__eq__`, `__call__`. -/
import OQ.Lemmas.C07_TranslatedGates
import OQ.Props.C07
namespace OQ.C07
open OQ.Generated
namespace TG
variable {P R : Type}

/-- TRANSLATION TIE: the property `.params` of all five classes (field of `MatrixFactoryGate`, forwarded by the wrappers),
    regenerated from the source, is the model's `Gate.params`; every gate. -/
theorem translated_params_eq (g : Gate P R) : TranslatedGates.Gate.params (emb g) = g.params := by
  induction g with
  | base b => rfl
  | controlled g k ih => simpa [emb, TranslatedGates.Gate.params, Gate.params] using ih
  | dagger g ih => simpa [emb, TranslatedGates.Gate.params, Gate.params] using ih
  | power g e ih => simpa [emb, TranslatedGates.Gate.params, Gate.params] using ih
  | exponential g ih => simpa [emb, TranslatedGates.Gate.params, Gate.params] using ih

/-- TRANSLATION TIE: `.num_qubits` (`ControlledGate`: `wrapped.num_qubits + num_control_qubits`, other wrappers forward) is the
    model's `Gate.numQubits`; every gate. -/
theorem translated_num_qubits_eq (g : Gate P R) : TranslatedGates.Gate.num_qubits (emb g) = (g.numQubits : Int) := by
  induction g with
  | base b => rfl
  | controlled g k ih => simp only [emb, TranslatedGates.Gate.num_qubits, Gate.numQubits, ih]; push_cast; ring
  | dagger g ih => simpa [emb, TranslatedGates.Gate.num_qubits, Gate.numQubits] using ih
  | power g e ih => simpa [emb, TranslatedGates.Gate.num_qubits, Gate.numQubits] using ih
  | exponential g ih => simpa [emb, TranslatedGates.Gate.num_qubits, Gate.numQubits] using ih

/-- `.free_symbols` (`get_free_symbols(self.params)` on every class, inherited from the protocol where not overridden) under the
    instantiation `noSymbols`: empty for every object of the generated classes – the hypothesis of the numeric model, stated as
    the instantiation it is. -/
theorem translated_free_symbols_eq (t : TGate P R) : TranslatedGates.Gate.free_symbols (noSymbols P) t = [] :=
  free_symbols_none t

/-- TRANSLATION TIE: the constructor call `ControlledGate(g, n)` with `__post_init__` (`ValueError` when `n < 1`) is the model's
    `mkControlled`; every gate, every Python int `n`. -/
theorem translated_mk_ControlledGate_eq (g : Gate P R) (n : Int) :
    toModel (TranslatedGates.mk_ControlledGate (emb g) n) = (Gate.mkControlled g n).map emb := by
  unfold TranslatedGates.mk_ControlledGate Gate.mkControlled
  by_cases h : n < 1
  · simp [h, toModel, errOf]
  · simp [h, emb]
    omega

/-- TRANSLATION TIE: `.power(exponent)` of all five classes (`ControlledGate.power` pushes the power under the controls and
    re-wraps through the constructor, the others return `Power(self, exponent)`) is the model's `powerM`; every gate, every
    exponent; under `noSymbols` the `Power.__post_init__` guard does not fire. -/
theorem translated_power_eq (g : Gate P R) (e : Rat) :
    TranslatedGates.Gate.power (noSymbols P) (emb g) e = .ok (emb (g.powerM e)) := by
  induction g with
  | controlled g k ih => simp [emb, TranslatedGates.Gate.power, Gate.powerM, ih, mk_ControlledGate_pos]
  | _ => simp [emb, TranslatedGates.Gate.power, Gate.powerM, mk_Power_ok]

/-- TRANSLATION TIE: `.exp` (`Exponential(self)` on every class) is the model's `expM`; every gate (under `noSymbols`). -/
theorem translated_exp_eq (g : Gate P R) :
    TranslatedGates.Gate.exp (noSymbols P) (emb g) = .ok (emb g.expM) := by
  cases g <;> simp [emb, TranslatedGates.Gate.exp, Gate.expM, mk_Exponential_ok]

/-- TRANSLATION TIE: `.dagger` (`self if self.is_hermitian else Dagger(self)`; `ControlledGate(wrapped.dagger, k)`; `Dagger` →
    `wrapped_gate`; `Exponential` → `wrapped.dagger.exp`; `Power` → `wrapped.dagger.power(exponent)`) is the model's `daggerM`;
    every gate (under `noSymbols`). -/
theorem translated_dagger_eq (g : Gate P R) :
    TranslatedGates.Gate.dagger (noSymbols P) (emb g) = .ok (emb g.daggerM) := by
  induction g with
  | base b =>
    rcases b with ⟨nm, f, ps, nq, h⟩
    cases h <;> simp [emb, TranslatedGates.Gate.dagger, Gate.daggerM, TranslatedGates.mk_Dagger]
  | controlled g k ih => simp [emb, TranslatedGates.Gate.dagger, Gate.daggerM, ih, mk_ControlledGate_pos]
  | dagger g ih => simp [emb, TranslatedGates.Gate.dagger, Gate.daggerM]
  | power g e ih => simp [emb, TranslatedGates.Gate.dagger, Gate.daggerM, ih, translated_power_eq]
  | exponential g ih => simp [emb, TranslatedGates.Gate.dagger, Gate.daggerM, ih, translated_exp_eq]

set_option linter.unusedTactic false in
set_option linter.unreachableTactic false in
/-- TRANSLATION TIE: `.controlled(n)` of all five classes, for EVERY Python int `n` including the rejected ones (`ValueError` of
    `ControlledGate.__post_init__`; on a `ControlledGate` the counts are added first; `Dagger` / `Power` re-associate through the
    wrapped gate), is the model's checked `ctlI`; every gate. -/
theorem translated_controlled_eq (g : Gate P R) (n : Int) :
    toModel (TranslatedGates.Gate.controlled (noSymbols P) (emb g) n) = (g.ctlI n).map emb := by
  induction g with
  | base b => exact translated_mk_ControlledGate_eq (.base b) n
  | controlled g k ih =>
    simp only [emb, TranslatedGates.Gate.controlled, Gate.ctlI]
    -- the sum of the counts, in whichever order the source writes it
    convert translated_mk_ControlledGate_eq g ((k : Int) + 1 + n) using 3
    all_goals ring
  | dagger g ih =>
    simp only [emb, TranslatedGates.Gate.controlled, Gate.ctlI, toModel_bind, ih]
    cases g.ctlI n <;> simp [translated_dagger_eq]
  | power g e ih =>
    simp only [emb, TranslatedGates.Gate.controlled, Gate.ctlI, toModel_bind, ih]
    cases g.ctlI n <;> simp [translated_power_eq]
  | exponential g ih => exact translated_mk_ControlledGate_eq (.exponential g) n

/-- the tie of `.controlled` on the accepted counts: `.controlled(m + 1)` on the translated rules is the model's `ctlP`
    (about which the matrix theorems of C07 speak) -/
theorem translated_controlled_pos (g : Gate P R) (m : Nat) :
    TranslatedGates.Gate.controlled (noSymbols P) (emb g) ((m : Int) + 1) = .ok (emb (g.ctlP m)) := by
  apply toModel_eq_ok
  rw [translated_controlled_eq, Gate.ctlI_pos g _ (by omega)]
  have : (((m : Int) + 1 - 1).toNat) = m := by omega
  rw [this]; rfl

/-- TRANSLATION TIE: `.replace_params(new_params)` of all five classes (`dataclasses.replace(self, params=…)` on the factory gate,
    "replace in the wrapped gate and re-apply the modifier METHOD" on the wrappers) is the model's `replaceParams`; every gate,
    every tuple (under `noSymbols`). -/
theorem translated_replace_params_eq (g : Gate P R) (ps : List P) :
    TranslatedGates.Gate.replace_params (noSymbols P) (emb g) ps = .ok (emb (g.replaceParams ps)) := by
  induction g with
  | base b => rfl
  | controlled g k ih =>
    simp [emb, TranslatedGates.Gate.replace_params, Gate.replaceParams, ih, translated_controlled_pos]
  | dagger g ih => simp [emb, TranslatedGates.Gate.replace_params, Gate.replaceParams, ih, translated_dagger_eq]
  | power g e ih => simp [emb, TranslatedGates.Gate.replace_params, Gate.replaceParams, ih, translated_power_eq]
  | exponential g ih => simp [emb, TranslatedGates.Gate.replace_params, Gate.replaceParams, ih, translated_exp_eq]

/-- `toModel` loses nothing: the equations above determine the result of the translated method -/
theorem toModel_injective {α} {r1 r2 : Except TranslatedGates.Err α} (h : toModel r1 = toModel r2) : r1 = r2 := by
  cases r1 with
  | ok a => cases r2 with
    | ok b => simpa [toModel] using h
    | error e => simp [toModel] at h
  | error e => cases r2 with
    | ok b => simp [toModel] at h
    | error e' => cases e <;> cases e' <;> simp_all [toModel, errOf]

/-- the embedding reaches every object of the generated classes that the constructor guards admit (all control counts ≥ 1, a
    natural number of qubits on the factory gate): the ties above are statements about ALL such objects -/
theorem emb_surjective_on_valid (t : TGate P R) (h : TValid t) : ∃ g : Gate P R, emb g = t := by
  induction t with
  | MatrixFactoryGate nm f ps nq herm =>
    refine ⟨.base ⟨nm, f, ps, nq.toNat, herm⟩, ?_⟩
    have : ((nq.toNat : Nat) : Int) = nq := Int.toNat_of_nonneg h
    simp [emb, this]
  | ControlledGate t k ih =>
    obtain ⟨g, hg⟩ := ih h.2
    refine ⟨.controlled g (k - 1).toNat, ?_⟩
    have h1 := h.1
    simp [emb, hg]
    omega
  | Dagger t ih => obtain ⟨g, hg⟩ := ih h; exact ⟨.dagger g, by simp [emb, hg]⟩
  | Exponential t ih => obtain ⟨g, hg⟩ := ih h; exact ⟨.exponential g, by simp [emb, hg]⟩
  | Power t e ih => obtain ⟨g, hg⟩ := ih h; exact ⟨.power g e, by simp [emb, hg]⟩

/-! ### end to end: headline theorems of Props/C07.lean restated ON THE TRANSLATED RULES -/

/-- one call of a modifier method with a valid argument, by the TRANSLATED rules -/
def tApply : Gate.Mod → TGate P R → Except TranslatedGates.Err (TGate P R)
  | .dagger, t => TranslatedGates.Gate.dagger (noSymbols P) t
  | .controlled m, t => TranslatedGates.Gate.controlled (noSymbols P) t ((m : Int) + 1)
  | .power e, t => TranslatedGates.Gate.power (noSymbols P) t e
  | .exp, t => TranslatedGates.Gate.exp (noSymbols P) t

/-- a chain of modifier calls, left to right, by the TRANSLATED rules (the first exception ends it) -/
def tChain : TGate P R → List Gate.Mod → Except TranslatedGates.Err (TGate P R)
  | t, [] => .ok t
  | t, m :: ms => Except.bind (tApply m t) (fun t' => tChain t' ms)

/-- one modifier call by the translated rules on an embedded gate is the model's `Mod.apply` (the four method ties in one) -/
theorem tApply_emb (m : Gate.Mod) (g : Gate P R) : tApply m (emb g) = .ok (emb (m.apply g)) := by
  cases m with
  | dagger => exact translated_dagger_eq g
  | controlled k => exact translated_controlled_pos g k
  | power e => exact translated_power_eq g e
  | exp => exact translated_exp_eq g

/-- any chain of modifier calls computed by the TRANSLATED rules never raises (valid counts, no symbols) and returns the gate the
    model's methods build -/
theorem translated_chain_eq (g : Gate P R) (ms : List Gate.Mod) :
    tChain (emb g) ms = .ok (emb (Gate.applyChain g ms)) := by
  induction ms generalizing g with
  | nil => rfl
  | cons m ms ih =>
    simp only [tChain, tApply_emb, bind_ok, ih]
    rfl

/-- the number of control qubits a modifier adds -/
def extraQubits : Gate.Mod → Nat
  | .controlled m => m + 1
  | _ => 0

/-- END-TO-END ON THE CODE AS IT IS NOW ("the modified gate reports the implied number of qubits"): `num_qubits` of ANY chain of
    `.dagger` / `.controlled(m+1)` / `.power(e)` / `.exp` calls over a factory gate, computed by the TRANSLATED methods and the
    TRANSLATED property, is the base gate's number plus the sum of the control counts (`numQubits_dagger_power_exp`,
    `numQubits_controlled` through the tie). -/
theorem translated_chain_num_qubits (b : Base P R) (ms : List Gate.Mod) :
    ∃ t, tChain (P := P) (R := R) (.MatrixFactoryGate b.name b.factory b.params (b.numQubits : Int) b.hermitian) ms = .ok t ∧
      TranslatedGates.Gate.num_qubits t = (b.numQubits : Int) + ((ms.map extraQubits).sum : Nat) := by
  refine ⟨emb (Gate.applyChain (.base b) ms), translated_chain_eq (.base b) ms, ?_⟩
  rw [translated_num_qubits_eq]
  have key : ∀ (g : Gate P R), (Gate.applyChain g ms).numQubits = g.numQubits + (ms.map extraQubits).sum := by
    induction ms with
    | nil => intro g; simp [Gate.applyChain]
    | cons m ms ih =>
      intro g
      have h := ih (m.apply g)
      simp only [Gate.applyChain, List.foldl_cons] at h ⊢
      rw [h]
      cases m <;> simp [Gate.Mod.apply, extraQubits, (numQubits_dagger_power_exp g 0).1, Nat.add_assoc]
  rw [key]
  simp [Gate.numQubits]

/-- END-TO-END (`numQubits_controlled` on the translated rules): whenever the TRANSLATED `.controlled(n)` accepts (any Python int
    `n`, including the merge with an existing `ControlledGate`), the TRANSLATED `num_qubits` of the result is `n` more. -/
theorem translated_num_qubits_controlled (g : Gate P R) (n : Int) (t : TGate P R)
    (h : TranslatedGates.Gate.controlled (noSymbols P) (emb g) n = .ok t) :
    TranslatedGates.Gate.num_qubits t = TranslatedGates.Gate.num_qubits (emb g) + n := by
  have h2 := translated_controlled_eq g n
  rw [h] at h2
  cases hc : g.ctlI n with
  | error e => rw [hc] at h2; simp at h2
  | ok g' =>
    rw [hc] at h2
    simp only [toModel_ok, map_ok, Except.ok.injEq] at h2
    rw [h2, translated_num_qubits_eq, translated_num_qubits_eq]
    exact numQubits_controlled g g' n hc

/-- END-TO-END (last sentence of C07 on the translated rules, `replaceParams_commutes`): for every chain of modifier calls, the
    TRANSLATED `replace_params(ps)` of the TRANSLATED chain over a factory gate is the TRANSLATED chain over the factory gate built
    with `ps` – replacing parameters commutes with the modifiers. -/
theorem translated_replace_params_commutes (b : Base P R) (ms : List Gate.Mod) (ps : List P) :
    Except.bind (tChain (P := P) (R := R) (.MatrixFactoryGate b.name b.factory b.params (b.numQubits : Int) b.hermitian) ms)
        (fun t => TranslatedGates.Gate.replace_params (noSymbols P) t ps) =
      tChain (.MatrixFactoryGate b.name b.factory ps (b.numQubits : Int) b.hermitian) ms := by
  have h1 := translated_chain_eq (.base b) ms
  have h2 := translated_chain_eq (.base { b with params := ps }) ms
  simp only [emb] at h1 h2
  rw [h1, h2, bind_ok, translated_replace_params_eq, replaceParams_commutes]

/-- END-TO-END (`dagger_involutive` on the translated rules): for every gate the modifier methods can build from a factory gate,
    the TRANSLATED `.dagger` applied twice returns the gate itself. -/
theorem translated_dagger_involutive (b : Base P R) (ms : List Gate.Mod) :
    ∃ t, tChain (P := P) (R := R) (.MatrixFactoryGate b.name b.factory b.params (b.numQubits : Int) b.hermitian) ms = .ok t ∧
      Except.bind (TranslatedGates.Gate.dagger (noSymbols P) t) (TranslatedGates.Gate.dagger (noSymbols P)) = .ok t := by
  refine ⟨emb (Gate.applyChain (.base b) ms), translated_chain_eq (.base b) ms, ?_⟩
  rw [translated_dagger_eq, bind_ok, translated_dagger_eq, dagger_involutive _ (canon_reachable b ms)]

/-- END-TO-END (`power_controlled` on the translated rules): `g.power(e).controlled(m+1)` and `g.controlled(m+1).power(e)`
    computed by the TRANSLATED methods are the same gate, for every gate. -/
theorem translated_power_controlled (g : Gate P R) (e : Rat) (m : Nat) :
    Except.bind (TranslatedGates.Gate.power (noSymbols P) (emb g) e)
        (fun t => TranslatedGates.Gate.controlled (noSymbols P) t ((m : Int) + 1)) =
      Except.bind (TranslatedGates.Gate.controlled (noSymbols P) (emb g) ((m : Int) + 1))
        (fun t => TranslatedGates.Gate.power (noSymbols P) t e) := by
  rw [translated_power_eq, translated_controlled_pos, bind_ok, bind_ok, translated_controlled_pos, translated_power_eq,
    power_controlled]

/-! ### non-vacuity: the TRANSLATED definitions on concrete objects -/
section Examples

/-- a hermitian `X`-like factory gate and a non-hermitian `T`-like one, over integer parameters and an opaque factory -/
abbrev XGate := TranslatedGates.Gate Int String Rat
def xg : XGate := .MatrixFactoryGate "X" "x_matrix" [] 1 true
def tg : XGate := .MatrixFactoryGate "T" "t_matrix" [] 1 false
def rx (p : Int) : XGate := .MatrixFactoryGate "RX" "rx_matrix" [p] 1 false
def ns : TranslatedGates.Ext Int Empty Unit := ⟨fun _ => [], fun p _ => p⟩
abbrev XRes := Except TranslatedGates.Err XGate

example : (TranslatedGates.Gate.controlled ns tg 2).toOption.map TranslatedGates.Gate.num_qubits = some 3 := by decide
example : (TranslatedGates.Gate.controlled ns tg 0).toOption.map TranslatedGates.Gate.num_qubits = none := by decide
example : ((TranslatedGates.Gate.controlled ns tg 2).bind (fun t => TranslatedGates.Gate.controlled ns t 3)).toOption.map
    TranslatedGates.Gate.num_qubits = some 6 := by decide
example : TranslatedGates.Gate.controlled ns tg 0 = (.error .ValueError : XRes) := rfl
example : TranslatedGates.Gate.dagger ns xg = (.ok xg : XRes) := rfl
example : TranslatedGates.Gate.dagger ns tg = (.ok (.Dagger tg) : XRes) := rfl
example : (TranslatedGates.Gate.dagger ns tg).bind (TranslatedGates.Gate.dagger ns) = (.ok tg : XRes) := rfl
example : (TranslatedGates.Gate.power ns tg (1/2)).bind (TranslatedGates.Gate.dagger ns) =
    (.ok (.Power (.Dagger tg) (1/2)) : XRes) := rfl
example : TranslatedGates.Gate.controlled ns (.Dagger tg) 2 = (.ok (.ControlledGate (.Dagger tg) 2) : XRes) := rfl
example : TranslatedGates.Gate.replace_params ns (.ControlledGate (.Dagger (rx 7)) 2) [9] =
    (.ok (.ControlledGate (.Dagger (rx 9)) 2) : XRes) := rfl
example : TValid (P := Int) (R := Int) (.ControlledGate (.MatrixFactoryGate "X" (fun _ => .error .type) [] 1 true) 2) := by
  simp [TValid]
end Examples

end TG
end OQ.C07
