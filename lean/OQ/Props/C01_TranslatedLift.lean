/- C01 — PROPERTY THEOREMS (translation ties, work package T12): the COMPOSITION of `_unitary_tools._lift_matrix` regenerated on
   every run from the current Python source — range `[smallest, largest]`, shifted indices, `_permutation_making_qubits_adjacent`
   (itself translated), the permutation matrix, `P.T @ kron(M, eye) @ P`, the outer `reduce(kron, [eye, ·, eye])` — equals the
   hand-written model `OQ.Lift.liftMatrix`, the object `liftMatrix_pointwise` / `liftMatrix_eq_spec_lift` are about.

   `_permutation_matrix` is translated too (the check `sorted(order) != list(range(n))`, the zero matrix, the loop that writes column
   `i` = the unit vector of the permuted bitstring of `i`, calling the translated `_basis_bitstring` / `_permute`) and CALLED by the
   translated `_lift_matrix`.

   numpy / sympy enter the translated definitions as PARAMETERS (they are parameters of the Python functions too): `zeros`, `eye`,
   `kronecker_product`, `bitstring_to_dense_vector` (function parameters) and the externals `M[:, i] = v` (column assignment),
   `m.transpose()`, `a @ b`.  The ties instantiate them with the matrix operations of the model (`Mat.ofFn … 0`, `Mat.identity`,
   `Mat.kron`, unit column vectors, `Mat.transpose`, `Mat.mul`) — the operations whose laws (`Lemmas/C01_Mat`, `C01_Kron`, `Bridge`)
   the theorems of `Props/C01.lean` use. -/
import OQ.Generated.TranslatedC01
import OQ.Lemmas.TranslatedT12
import OQ.Props.C01_Translated
import OQ.Props.C01
set_option linter.unusedSectionVars false
namespace OQ.C01
open OQ.Generated OQ.Lift OQ.Py OQ.T12

section Lift
variable {R : Type} [Zero R] [One R] [Add R] [Mul R]

/-- `zeros((r, c))` read in the model -/
def zerosExt (dims : List Int) : Mat R := Mat.ofFn (dims.getD 0 0).toNat (dims.getD 1 0).toNat (fun _ _ => 0)

/-- `M[:, i] = v` (v a column vector) read in the model: a new matrix, column `i` replaced -/
def setColumnExt (M : Mat R) (i : Int) (v : Mat R) : Mat R :=
  Mat.ofFn M.r M.c (fun r c => if c = i.toNat then v.get r 0 else M.get r c)

/-- `bitstring_to_dense_vector(bits)` read in the model: the unit column vector of the basis state, qubit 0 most significant -/
def unitVecExt (bits : List Int) : Mat R :=
  Mat.ofFn (2 ^ bits.length) 1 (fun r _ => if r = bitsToIndex (bits.map Int.toNat) then 1 else 0)

/-- `eye(d)` read in the model -/
def eyeExt (d : Int) : Mat R := Mat.identity d.toNat

private theorem two_pow_toNat (k : Nat) : ((2 : Int) ^ k).toNat = 2 ^ k := by
  have : ((2 : Int) ^ k) = ((2 ^ k : Nat) : Int) := by push_cast; rfl
  rw [this, Int.toNat_natCast]

private theorem map_sub_cast (qs : List Nat) (s : Nat) (h : ∀ q ∈ qs, s ≤ q) :
    (qs.map Int.ofNat).map (fun (index : Int) => index - (s : Int)) = (qs.map (fun q => q - s)).map Int.ofNat := by
  simp only [List.map_map]
  apply List.map_congr_left
  intro q hq
  have := h q hq
  simp only [Function.comp, Int.ofNat_eq_natCast]
  omega

private theorem toNat_ofNat_map (l : List Nat) : (l.map Int.ofNat).map Int.toNat = l := by
  rw [List.map_map]
  conv_rhs => rw [← List.map_id l]
  apply List.map_congr_left
  intro k _; simp

/-- TRANSLATION TIE: `_permutation_matrix(target_indices_order, zeros, bitstring_to_dense_vector)` regenerated from the current
    source — `ValueError` unless `sorted(order) == list(range(n))`, then the zero matrix filled column by column with the unit
    vector of `_permute(_basis_bitstring(i, n), order)` (both callees translated) — is the model's `permutationMatrix`, for EVERY
    non-empty list `order` of natural numbers (permutation or not).  The empty order is excluded: there
    `bitstring_to_dense_vector([])` (a `reduce` over nothing) raises inside the external. -/
theorem translated_permutation_matrix_eq (order : List Nat) (hne : order ≠ []) :
    Translated.permutation_matrix setColumnExt (order.map Int.ofNat) zerosExt unitVecExt = permutationMatrix (R := R) order := by
  have hn : 1 ≤ order.length := by
    cases order with
    | nil => exact absurd rfl hne
    | cons _ _ => simp
  unfold Translated.permutation_matrix permutationMatrix
  simp only [List.length_map, Int.toNat_natCast, sorted_check]
  by_cases hp : isPermutation order = true
  · simp only [hp, Bool.not_true, Bool.false_eq_true, if_false, Option.some.injEq]
    have e2 : ((2 : Int) ^ order.length).toNat = 2 ^ order.length := by
      have : ((2 : Int) ^ order.length) = ((2 ^ order.length : Nat) : Int) := by push_cast; rfl
      rw [this, Int.toNat_natCast]
    rw [List.foldl_map, e2]
    have hz : zerosExt (R := R) [(2 : Int) ^ order.length, (2 : Int) ^ order.length]
        = Mat.ofFn (2 ^ order.length) (2 ^ order.length) (fun _ _ => 0) := by
      simp only [zerosExt, List.getD_cons_zero, List.getD_cons_succ, e2]
    rw [hz]
    have hstep : (List.range (2 ^ order.length)).foldl (fun (M : Mat R) (i : Nat) =>
          setColumnExt M (Int.ofNat i) (unitVecExt (Translated.permute (Translated.basis_bitstring (Int.ofNat i) (order.length : Int))
            (order.map Int.ofNat)))) (Mat.ofFn (2 ^ order.length) (2 ^ order.length) (fun _ _ => 0))
        = (List.range (2 ^ order.length)).foldl (fun (M : Mat R) (i : Nat) =>
          Mat.ofFn M.r M.c (fun r c => if c = i then
            (if r < 2 ^ order.length ∧ i < 2 ^ order.length then
              (if r = bitsToIndex (permute (basisBitstring i order.length) order) then (1 : R) else 0) else 0)
            else M.get r c)) (Mat.ofFn (2 ^ order.length) (2 ^ order.length) (fun _ _ => 0)) := by
      apply OQ.C09.foldl_range_congr
      intro M i hi
      simp only [setColumnExt, Int.ofNat_eq_natCast, Int.toNat_natCast]
      rw [translated_basis_bitstring_eq i order.length hn hi, translated_permute_eq]
      apply congrArg
      funext r c
      by_cases hc : c = i
      · simp only [hc, if_true, unitVecExt, toNat_ofNat_map, List.length_map, permute]
        by_cases hr : r < 2 ^ order.length
        · rw [Mat.get_ofFn _ _ _ _ _ (by simpa using hr) (by omega)]
          simp [hr, hi]
        · rw [Mat.get_out _ _ _ (by simp only [Mat.ofFn_r]; intro h; exact hr (by simpa [permute] using h.1))]
          simp [hr]
      · simp [hc]
    rw [hstep, foldl_set_column (2 ^ order.length) _ (2 ^ order.length) (le_refl _)]
    apply ofFn_congr
    intro i j hi hj
    simp [hi, hj]
  · have hp' : isPermutation order = false := by simpa using hp
    simp [hp']

/-- TRANSLATION TIE: `_lift_matrix(matrix, qubit_indices, num_qubits, zeros, eye, kronecker_product, bitstring_to_dense_vector)`
    regenerated from the current source, with the model's matrix operations for the numpy / sympy parameters, is the model's
    `liftMatrix` — including the `ValueError` of the permutation check on duplicated indices.
    Domain: a non-empty tuple of natural indices, all `< num_qubits`, with `len(qubit_indices) ≤ largest − smallest + 1` (true for
    every tuple of DISTINCT indices; it keeps the two exponents `2 ** (…)` non-negative — with a negative exponent Python
    computes a float and `eye` raises, which the model renders as `none` and the translation leaves to the external).
    The empty tuple is covered by `translated_lift_matrix_empty`. -/
theorem translated_lift_matrix_eq (m : Mat R) (qs : List Nat) (n : Nat)
    (hne : qs ≠ []) (hlt : ∀ q ∈ qs, q < n) (hlen : qs.length ≤ listMax qs - listMin qs + 1) :
    Translated.lift_matrix setColumnExt Mat.transpose Mat.mul m (qs.map Int.ofNat) (n : Int) zerosExt eyeExt Mat.kron unitVecExt
      = liftMatrix m qs n := by
  have hmin_le_max : listMin qs ≤ listMax qs := le_trans (listMin_le qs _ (listMax_mem qs hne)) (le_refl _)
  have hmax_lt : listMax qs < n := hlt _ (listMax_mem qs hne)
  have hemp : qs.isEmpty = false := by cases qs with
    | nil => exact absurd rfl hne
    | cons _ _ => rfl
  unfold Translated.lift_matrix liftMatrix
  simp only [minList_cast, maxList_cast, hemp, Bool.false_eq_true, if_false]
  rw [map_sub_cast qs (listMin qs) (listMin_le qs)]
  have hspan : ((listMax qs : Nat) : Int) - ((listMin qs : Nat) : Int) + 1 = ((listMax qs - listMin qs + 1 : Nat) : Int) := by
    omega
  rw [hspan, translated_permMakingAdjacent_eq]
  have hn : ¬ n ≤ listMax qs := by omega
  have hs : ¬ listMax qs - listMin qs + 1 < qs.length := by omega
  simp only [hn, hs, if_false]
  rw [translated_permutation_matrix_eq _ (by
    intro he
    have : (permMakingAdjacent (qs.map (fun q => q - listMin qs)) (listMax qs - listMin qs + 1)).length = 0 := by rw [he]; rfl
    simp only [permMakingAdjacent, List.length_append, List.length_map] at this
    have : 0 < qs.length := List.length_pos_of_ne_nil hne
    omega)]
  cases permutationMatrix (R := R) (permMakingAdjacent (qs.map (fun q => q - listMin qs)) (listMax qs - listMin qs + 1)) with
  | none => rfl
  | some p =>
    simp only [reduce1, List.foldl_cons, List.foldl_nil, eyeExt, two_pow_toNat, List.length_map]
    have e1 : (((listMax qs : Nat) : Int) - ((listMin qs : Nat) : Int) - ((qs.length : Nat) : Int) + 1).toNat
        = listMax qs - listMin qs + 1 - qs.length := by omega
    have e2 : ((n : Int) - ((listMax qs : Nat) : Int) - 1).toNat = n - listMax qs - 1 := by omega
    rw [e1, e2, Int.toNat_natCast]

/-- the empty index tuple: `min(())` raises `ValueError` — `none` on both sides -/
theorem translated_lift_matrix_empty (m : Mat R) (n : Int) :
    Translated.lift_matrix setColumnExt Mat.transpose Mat.mul m [] n zerosExt eyeExt Mat.kron unitVecExt = none
      ∧ liftMatrix m [] n.toNat = none := ⟨rfl, rfl⟩

end Lift

section EndToEnd
variable {R : Type} [CommRing R]

private theorem length_le_span (qs : List Nat) (hd : qs.Nodup) :
    qs.length ≤ listMax qs - listMin qs + 1 := by
  have hsub : ∀ q ∈ qs, q ∈ (List.range (listMax qs - listMin qs + 1)).map (fun k => k + listMin qs) := by
    intro q hq
    have h1 := listMin_le qs q hq
    have h2 := le_listMax qs q hq
    exact List.mem_map.mpr ⟨q - listMin qs, List.mem_range.mpr (by omega), by omega⟩
  have := (List.Nodup.subperm hd hsub).length_le
  simpa using this

/-- END-TO-END (`liftMatrix_pointwise`, the main embedding theorem, restated ON THE TRANSLATED `_lift_matrix`): for every register
    width `n`, every tuple of distinct indices `< n` (any order, gaps, idle qubits) and every `2^k × 2^k` matrix, the TRANSLATED
    composition succeeds, is `2^n × 2^n`, and its entry at (row, col) is the entry of `m` at the sub-indices read at `qs` when row and
    col agree on every other qubit, else 0. -/
theorem translated_lift_matrix_pointwise (m : Mat R) (qs : List Nat) (n : Nat)
    (hne : qs ≠ []) (hd : qs.Nodup) (hlt : ∀ q ∈ qs, q < n)
    (hmr : m.r = 2 ^ qs.length) (hmc : m.c = 2 ^ qs.length) :
    ∃ L, Translated.lift_matrix setColumnExt Mat.transpose Mat.mul m (qs.map Int.ofNat) (n : Int) zerosExt eyeExt Mat.kron unitVecExt = some L ∧
      L.r = 2 ^ n ∧ L.c = 2 ^ n ∧
      ∀ row col, row < 2 ^ n → col < 2 ^ n →
        L.get row col = if (∀ q, q < n → q ∉ qs → bit n q row = bit n q col)
          then m.get (sub n qs row) (sub n qs col) else 0 := by
  rw [translated_lift_matrix_eq m qs n hne hlt (length_le_span qs hd)]
  exact liftMatrix_pointwise m qs n hne hd hlt hmr hmc

end EndToEnd

section Examples
example : ((Translated.permutation_matrix (setColumnExt (R := Int)) [1, 0] zerosExt unitVecExt).map Mat.toLists)
    = some [[1, 0, 0, 0], [0, 0, 1, 0], [0, 1, 0, 0], [0, 0, 0, 1]] := by decide +kernel
example : (Translated.permutation_matrix (setColumnExt (R := Int)) [1, 1] zerosExt unitVecExt).isNone := by decide +kernel
private def exM' : Mat Int := Mat.ofLists [[1, 2, 3, 4], [5, 6, 7, 8], [9, 10, 11, 12], [13, 14, 15, 16]]
-- descending, gapped indices with an idle qubit on a 3-qubit register: the entries of `liftMatrix_pointwise`'s example
example : ((Translated.lift_matrix setColumnExt Mat.transpose Mat.mul exM' [2, 0] 3 zerosExt eyeExt Mat.kron unitVecExt).map
    (fun L => (L.r, L.get 5 0, L.get 7 0, L.get 4 1))) = some (8, 13, 0, 7) := by decide +kernel
-- duplicated indices: the permutation check raises
example : (Translated.lift_matrix setColumnExt Mat.transpose Mat.mul exM' [1, 1] 3 zerosExt eyeExt Mat.kron unitVecExt).isNone := by
  decide +kernel
example : [2, 0] ≠ ([] : List Nat) ∧ (∀ q ∈ [2, 0], q < 3) ∧ [2, 0].length ≤ listMax [2, 0] - listMin [2, 0] + 1 := by decide
end Examples

end OQ.C01
