/-
  C08 — LINKED PROPERTY THEOREMS: the circuit-level constructions, END TO END about the EXECUTABLE unitary.

  OQ/Props/C08.lean states inverse / controlled circuit / ancillas over the spec action `Uc` (ordered product of
  `opDen` = `Spec.lift`), under per-gate hypotheses (`Gate.Regular`: well-formed matrix of the declared size and a
  TRUTHFUL `is_hermitian` flag; unitarity of the gate matrices).  This file composes them with
    * OQ/Props/C01.lean  (`liftMatrix_eq_spec_lift`, `toUnitary_ordered_product`, `lifted_matrix_defined_iff`):
      the executable embedding is `Spec.lift`, `to_unitary()` is the ordered product, and it is defined exactly on
      the valid operations;
    * OQ/Props/C02.lean  (`builtin_dim`, `flag_hermitian`, `builtin_unitary`): sizes, self-adjoint flags and
      unitarity of the 27 built-in gates,
  into statements about `C08.unitary` – the matrix the model driver prints for `Circuit.to_unitary()` – read either as
  a `Fin (2^n)`-indexed matrix (`Mat.toM (2^n) (2^n) U`, entry `(i, j)` = `U.get i j`) or over bit assignments
  (`C01.toBV n U x y = U.get ((bvEquiv n).symm x) ((bvEquiv n).symm y)`, qubit 0 = most significant bit).

  Standing hypotheses that remain, and why they cannot go:
    `c.ops ≠ []`            F17: `to_unitary()` of the empty circuit raises (`C01.toUnitary_empty_none`), `Uc [] = 1`;
    `∀ o ∈ c.ops, o.qs ≠ []` an operation without qubits is outside the C08 model (`_lift_matrix` raises on it);
    `c.n = 0 → c.ops = []`  the invariant of the `Circuit` constructor (`C01.mkCircuit_wellFormed`);
    `Laws k`, `ExtLaws k x` the laws of the constants / of sympy's `exp`, `**` (assumed in C02 / C08 as well);
    `RegularB` / `UnitaryB`  the gate domain: built-in bases at real parameters under controlled / dagger /
                             exponential / INTEGER power (fractional powers: finding F16).
-/
import OQ.Lemmas.C08_Link
import OQ.Lemmas.C08_LinkExamples
set_option linter.unusedSectionVars false
set_option linter.unusedSimpArgs false
set_option linter.unusedVariables false
namespace OQ.C08.Link
open Matrix OQ.Spec OQ.C08 OQ.C02 OQ.Generated
open Classical
variable {R : Type} [CommRing R] [StarRing R]

/-! ## the bridge: executable `to_unitary()` = spec action -/

/-- C08 ∘ C01.  For every non-empty circuit whose operations each name a qubit – any gates, any width, any scalar
    ring – the EXECUTABLE `Circuit.to_unitary()` of the C08 model (`toOps` then `Lift.toUnitary`), viewed over bit
    assignments, IS the spec action `Uc` in which every theorem of OQ/Props/C08.lean is stated; error cases
    included (`none` on both sides together); a returned matrix is `2^n × 2^n`.
    Closes the gap "the C08 theorems are about `Uc`, the driver prints `unitary`". -/
theorem unitary_exec_eq_spec (k : Scal R) (x : Ext R) (c : Circ (Gate R)) (hne : c.ops ≠ [])
    (hq : ∀ o ∈ c.ops, o.qs ≠ []) :
    (unitary k x c).map (C01.toBV c.n) = Uc k x c.n c.ops ∧
    ∀ U, unitary k x c = some U → U.r = 2 ^ c.n ∧ U.c = 2 ^ c.n :=
  unitary_eq_Uc k x c hne hq

/-- the two hypotheses of the bridge are necessary: the empty circuit has the identity as spec action but NO
    executable matrix (F17), and so does a circuit with an operation on no qubits -/
theorem unitary_exec_domain_sharp (k : Scal R) (x : Ext R) (n : Nat) :
    unitary k x (⟨[], n⟩ : Circ (Gate R)) = none ∧ Uc k x n ([] : List (GOp (Gate R))) = some 1 ∧
    unitary k x (⟨[⟨.base "g" (Mat.identity 1) 0 false, []⟩], n⟩ : Circ (Gate R)) = none := by
  refine ⟨rfl, rfl, ?_⟩
  simp [unitary, toOps, Gate.matrix, Mat.identity, Lift.toUnitary, Lift.liftMatrix]

/-! ## C02 closes the per-gate hypotheses -/

/-- C08 ∘ C02.  REMOVES the hypotheses of `Gate.Regular.base` (array well formed, size `2^num_qubits`, TRUTHFUL
    `is_hermitian` flag) for built-in bases: every gate built from `builtinGate` at real parameter values under
    controlled / dagger / exponential / integer power is regular – via `C02.builtin_dim`, `C02.flag_hermitian` and
    the agreement of the C08 model's flag / arity data with the generated gate table. -/
theorem builtin_gates_regular {k : Scal R} (hk : Laws k) (g : Gate R) (hg : RegularB k g) : Gate.Regular k g :=
  regularB_regular hk g hg

/-- the `num_qubits` / `is_hermitian` data hard-wired in OQ/Model/C08.lean (`builtinNq`, `builtinHerm`) agree with
    the gate table re-extracted from the Python module (the one the C02 theorems quantify over) -/
theorem builtin_flags_agree :
    ∀ row ∈ gateTable, builtinNq (Row.name row) = Row.numQubits row ∧
      builtinHerm (Row.name row) = Row.isHermitian row :=
  builtin_flags_table

/-- `dagger_rules_adjoint_partial` and `controlled_rules_block_partial` of OQ/Props/C08.lean WITHOUT the flag /
    size hypotheses, for gates over built-in bases: `.dagger` denotes the adjoint, `.controlled(1)` denotes
    `diag(1, M)`.  (Still no fractional powers: F16.) -/
theorem dagger_controlled_rules_builtin {k : Scal R} (hk : Laws k) (x : Ext R) (hx : Gate.ExtLaws k x)
    (g : Gate R) (hg : RegularB k g) :
    Gate.matrix k x (Gate.dagger g) = (Gate.matrix k x g).map (Gate.adj k) ∧
    Gate.matrix k x (Gate.controlled g 1) = (Gate.matrix k x g).map (Gate.ctrlMat (2 ^ Gate.nq g)) :=
  ⟨(dagger_rules_adjoint_partial k hk.cj x hx g (regularB_regular hk g hg)).1,
   (controlled_rules_block_partial k hk.cj x hx g (regularB_regular hk g hg)).1⟩

/-- C08 ∘ C02.  REMOVES the unitarity hypothesis `hu` of `inverse_appended_is_identity` for built-in bases under
    controlled / dagger: the gate's matrix exists for every external (sympy is not called), is `2^num_qubits`
    square and unitary on both sides (`C02.builtin_unitary` pushed through `diag(1, ·)` and `adjoint()`). -/
theorem builtin_gates_unitary {k : Scal R} (hk : Laws k) (x : Ext R) (g : Gate R) (hg : UnitaryB k g) :
    ∃ m, Gate.matrix k x g = some m ∧ IsUnitaryOf (2 ^ Gate.nq g) m :=
  unitaryB_matrix hk x g hg

/-! ## sentence 1 — inverse, executable -/

/-- (1) Sentence 1, END TO END: for every non-empty circuit of gates over built-in bases (self-adjoint, parametric,
    controlled, daggered, exponentiated, integer powers), every width, the matrix `to_unitary()` RETURNS for
    `circuit.inverse()` is the conjugate transpose of the matrix it returns for the circuit, as `2^n × 2^n`
    matrices; the inverse has a matrix iff the circuit has one; same width.
    Composes `inverse_unitary_partial` (C08) with the bridge (C01) and `builtin_gates_regular` (C02):
    removes the `Gate.Regular` (HermOK) hypothesis and replaces the spec action by the executable matrix. -/
theorem inverse_unitary_exec {k : Scal R} (hk : Laws k) (x : Ext R) (hx : Gate.ExtLaws k x) (c : Circ (Gate R))
    (hne : c.ops ≠ []) (hq : ∀ o ∈ c.ops, o.qs ≠ []) (hwf : c.n = 0 → c.ops = [])
    (hc : ∀ o ∈ c.ops, RegularB k o.gate) :
    (inverse Gate.dagger c).n = c.n ∧
    (unitary k x (inverse Gate.dagger c)).map (Mat.toM (2 ^ c.n) (2 ^ c.n))
      = (unitary k x c).map (fun U => (Mat.toM (2 ^ c.n) (2 ^ c.n) U)ᴴ) ∧
    (∀ U, unitary k x (inverse Gate.dagger c) = some U → U.r = 2 ^ c.n ∧ U.c = 2 ^ c.n) ∧
    (∀ U, unitary k x c = some U → U.r = 2 ^ c.n ∧ U.c = 2 ^ c.n) := by
  have hreg : ∀ o ∈ c.ops, Gate.Regular k o.gate := fun o ho => regularB_regular hk _ (hc o ho)
  obtain ⟨hn, hops⟩ := inverse_shape Gate.dagger c hwf
  have hne' : (inverse Gate.dagger c).ops ≠ [] := by rw [hops]; simpa using hne
  have hq' : ∀ o ∈ (inverse Gate.dagger c).ops, o.qs ≠ [] := by
    rw [hops]; intro o ho
    simp only [List.mem_map, List.mem_reverse] at ho
    obtain ⟨o', ho', rfl⟩ := ho; exact hq o' ho'
  obtain ⟨b1, d1⟩ := unitary_eq_Uc_at k x _ c.n hn hne' hq'
  obtain ⟨b2, d2⟩ := unitary_eq_Uc k x c hne hq
  have hsp := inverse_unitary_partial k hk.cj x hx c.n c hreg
  rw [← b1, ← b2] at hsp
  exact ⟨hn, map_toM_conj c.n _ _ hsp, d1, d2⟩

/-- (1') the same over bit assignments, pointwise: entry `(a, b)` of the inverse's matrix is the conjugate of entry
    `(b, a)` of the circuit's -/
theorem inverse_unitary_exec_pointwise {k : Scal R} (hk : Laws k) (x : Ext R) (hx : Gate.ExtLaws k x)
    (c : Circ (Gate R)) (hne : c.ops ≠ []) (hq : ∀ o ∈ c.ops, o.qs ≠ []) (hwf : c.n = 0 → c.ops = [])
    (hc : ∀ o ∈ c.ops, RegularB k o.gate) (U : Mat R) (hU : unitary k x c = some U) :
    ∃ V, unitary k x (inverse Gate.dagger c) = some V ∧ V.r = 2 ^ c.n ∧ V.c = 2 ^ c.n ∧
      ∀ i j, i < 2 ^ c.n → j < 2 ^ c.n → V.get i j = star (U.get j i) := by
  obtain ⟨_, h, d1, _⟩ := inverse_unitary_exec hk x hx c hne hq hwf hc
  rw [hU] at h
  cases hV : unitary k x (inverse Gate.dagger c) with
  | none => rw [hV] at h; simp at h
  | some V =>
    rw [hV] at h
    simp only [Option.map_some, Option.some.injEq] at h
    refine ⟨V, rfl, (d1 V hV).1, (d1 V hV).2, ?_⟩
    intro i j hi hj
    have := congrFun (congrFun h ⟨i, hi⟩) ⟨j, hj⟩
    simpa [Mat.toM, Matrix.conjTranspose_apply] using this

/-- (2) Sentence 1, "appending the circuit's inverse gives the identity", END TO END for UNITARY BUILT-INS: for every
    non-empty circuit of built-in gates at real parameters under controlled / dagger that has a matrix at all (i.e. is
    well formed), `to_unitary()` of `c + c.inverse()` and of `c.inverse() + c` RETURNS exactly the `2^n × 2^n`
    identity matrix – for every external (sympy is never called on these gates).
    Composes `inverse_appended_is_identity` (C08) with the bridge (C01) and C02: removes BOTH its per-gate
    hypotheses (`.dagger` = adjoint, which needed the truthful flag; unitarity `hu` of every gate matrix). -/
theorem inverse_appended_is_identity_exec {k : Scal R} (hk : Laws k) (x : Ext R) (c : Circ (Gate R))
    (hne : c.ops ≠ []) (hq : ∀ o ∈ c.ops, o.qs ≠ []) (hwf : c.n = 0 → c.ops = [])
    (hc : ∀ o ∈ c.ops, UnitaryB k o.gate) (U : Mat R) (hU : unitary k x c = some U) :
    (unitary k x (appendCirc c (inverse Gate.dagger c))).map (Mat.toM (2 ^ c.n) (2 ^ c.n)) = some 1 ∧
    (unitary k x (appendCirc (inverse Gate.dagger c) c)).map (Mat.toM (2 ^ c.n) (2 ^ c.n)) = some 1 := by
  have hn0 : c.n ≠ 0 := fun h0 => hne (hwf h0)
  obtain ⟨hn, hops⟩ := inverse_shape Gate.dagger c hwf
  obtain ⟨b, _⟩ := unitary_eq_Uc k x c hne hq
  rw [hU, Option.map_some] at b
  have hwfo := opWF_of_Uc k x c.n c.ops _ b.symm
  have hd : ∀ o ∈ c.ops, Gate.matrix k x (Gate.dagger o.gate) = (Gate.matrix k x o.gate).map (Gate.adj k) :=
    fun o ho => unitaryB_dagger_faithful hk x o.gate (hc o ho)
  have hu : ∀ o ∈ c.ops, ∀ m, Gate.matrix k x o.gate = some m →
      (gateDen o.qs.length m)ᴴ * gateDen o.qs.length m = 1 := by
    intro o ho m hm
    obtain ⟨m1, hm1, hw⟩ := hwfo o ho
    obtain ⟨m2, hm2, hun⟩ := unitaryB_matrix hk x o.gate (hc o ho)
    rw [hm] at hm1 hm2; cases hm1; cases hm2
    have e : 2 ^ Gate.nq o.gate = 2 ^ o.qs.length := by rw [← hun.1, hw.2.2.1]
    rw [e] at hun
    exact gateDen_unitary _ m hun
  obtain ⟨s1, s2⟩ := inverse_appended_is_identity k hk.cj x c.n c hd hu _ b.symm
  have hq' : ∀ o ∈ (inverse Gate.dagger c).ops, o.qs ≠ [] := by
    rw [hops]; intro o ho
    simp only [List.mem_map, List.mem_reverse] at ho
    obtain ⟨o', ho', rfl⟩ := ho; exact hq o' ho'
  have w1 : (appendCirc c (inverse Gate.dagger c)).n = c.n := by
    unfold appendCirc; rw [mkCirc_n_of_ne _ _ (by rw [hn]; omega), hn]; omega
  have w2 : (appendCirc (inverse Gate.dagger c) c).n = c.n := by
    unfold appendCirc; rw [mkCirc_n_of_ne _ _ (by rw [hn]; omega), hn]; omega
  have n1 : (appendCirc c (inverse Gate.dagger c)).ops ≠ [] := by
    simp only [appendCirc, mkCirc_ops]; intro h; exact hne (List.append_eq_nil_iff.mp h).1
  have n2 : (appendCirc (inverse Gate.dagger c) c).ops ≠ [] := by
    simp only [appendCirc, mkCirc_ops]; intro h; exact hne (List.append_eq_nil_iff.mp h).2
  have q1 : ∀ o ∈ (appendCirc c (inverse Gate.dagger c)).ops, o.qs ≠ [] := by
    simp only [appendCirc, mkCirc_ops]; intro o ho
    rcases List.mem_append.mp ho with ho | ho
    · exact hq o ho
    · exact hq' o ho
  have q2 : ∀ o ∈ (appendCirc (inverse Gate.dagger c) c).ops, o.qs ≠ [] := by
    simp only [appendCirc, mkCirc_ops]; intro o ho
    rcases List.mem_append.mp ho with ho | ho
    · exact hq' o ho
    · exact hq o ho
  obtain ⟨e1, _⟩ := unitary_eq_Uc_at k x _ c.n w1 n1 q1
  obtain ⟨e2, _⟩ := unitary_eq_Uc_at k x _ c.n w2 n2 q2
  rw [s1] at e1; rw [s2] at e2
  exact ⟨map_toM_one c.n _ e1, map_toM_one c.n _ e2⟩

/-- Sentence 1, "inverting twice returns a circuit with the original action", END TO END: `to_unitary()` of
    `c.inverse().inverse()` returns the same `2^n × 2^n` matrix as for `c` (gates over built-in bases).
    Composes `inverse_inverse_partial` with the bridge and C02. -/
theorem inverse_inverse_exec {k : Scal R} (hk : Laws k) (x : Ext R) (hx : Gate.ExtLaws k x) (c : Circ (Gate R))
    (hne : c.ops ≠ []) (hq : ∀ o ∈ c.ops, o.qs ≠ []) (hwf : c.n = 0 → c.ops = [])
    (hc : ∀ o ∈ c.ops, RegularB k o.gate) :
    (unitary k x (inverse Gate.dagger (inverse Gate.dagger c))).map (Mat.toM (2 ^ c.n) (2 ^ c.n))
      = (unitary k x c).map (Mat.toM (2 ^ c.n) (2 ^ c.n)) := by
  have hn0 : c.n ≠ 0 := fun h0 => hne (hwf h0)
  have hreg : ∀ o ∈ c.ops, Gate.Regular k o.gate := fun o ho => regularB_regular hk _ (hc o ho)
  obtain ⟨hn, hops⟩ := inverse_shape Gate.dagger c hwf
  obtain ⟨hn2, hops2⟩ := inverse_shape Gate.dagger (inverse Gate.dagger c) (fun h => absurd (hn ▸ h) hn0)
  have hne2 : (inverse Gate.dagger (inverse Gate.dagger c)).ops ≠ [] := by
    rw [hops2, hops]; simpa using hne
  have hq2 : ∀ o ∈ (inverse Gate.dagger (inverse Gate.dagger c)).ops, o.qs ≠ [] := by
    rw [hops2, hops]; intro o ho
    simp only [List.mem_map, List.mem_reverse, List.reverse_reverse, List.map_reverse] at ho
    obtain ⟨o1, ⟨o2, ho2, rfl⟩, rfl⟩ := ho
    exact hq o2 ho2
  obtain ⟨b1, _⟩ := unitary_eq_Uc_at k x _ c.n (hn2.trans hn) hne2 hq2
  obtain ⟨b2, _⟩ := unitary_eq_Uc k x c hne hq
  have hsp := inverse_inverse_partial k hk.cj x hx c.n c hreg
  rw [← b1, ← b2] at hsp
  exact map_toM_eq c.n _ _ hsp

/-! ## sentence 2 — controlled circuit, executable -/

/-- (3) Sentence 2, END TO END: let the controlled circuit `circuit.controlled(ci)` be `n + 1` qubits wide (its
    width is by operations: 1 + the largest index among `ci` and the shifted indices).  Then the matrix
    `to_unitary()` RETURNS for it is `|0⟩⟨0|_ci ⊗ 1 + |1⟩⟨1|_ci ⊗ U`, where `U` is the matrix `to_unitary()`
    returns for the original operations on the `n` remaining qubits (`⟨circ.ops, n⟩`; this is `circ` itself when
    `circ.n = n`) – error cases included, for gates over built-in bases, every control position `0..n`.
    Composes `controlled_circuit_partial` (C08) with the bridge (C01) and C02 (no `Regular` hypothesis). -/
theorem controlled_circuit_exec {k : Scal R} (hk : Laws k) (x : Ext R) (hx : Gate.ExtLaws k x) (n : Nat)
    (ci : Fin (n + 1)) (circ : Circ (Gate R)) (hne : circ.ops ≠ []) (hq : ∀ o ∈ circ.ops, o.qs ≠ [])
    (hc : ∀ o ∈ circ.ops, RegularB k o.gate)
    (hw : (controlledCirc (fun g => Gate.controlled g 1) ci.val circ).n = n + 1) :
    (unitary k x (controlledCirc (fun g => Gate.controlled g 1) ci.val circ)).map (C01.toBV (n + 1))
      = ((unitary k x ⟨circ.ops, n⟩).map (C01.toBV n)).map (ctrlAt (finSuccEquiv' ci).symm) ∧
    (∀ V, unitary k x (controlledCirc (fun g => Gate.controlled g 1) ci.val circ) = some V →
      V.r = 2 ^ (n + 1) ∧ V.c = 2 ^ (n + 1)) := by
  have hreg : ∀ o ∈ circ.ops, Gate.Regular k o.gate := fun o ho => regularB_regular hk _ (hc o ho)
  have hne' : (controlledCirc (fun g => Gate.controlled g 1) ci.val circ).ops ≠ [] := by
    simp only [controlledCirc, mkCirc_ops]; simpa using hne
  have hq' : ∀ o ∈ (controlledCirc (fun g => Gate.controlled g 1) ci.val circ).ops, o.qs ≠ [] := by
    simp only [controlledCirc, mkCirc_ops]; intro o ho
    simp only [List.mem_map] at ho
    obtain ⟨o', _, rfl⟩ := ho; simp
  obtain ⟨b1, d1⟩ := unitary_eq_Uc_at k x _ (n + 1) hw hne' hq'
  obtain ⟨b2, _⟩ := unitary_eq_Uc_at k x (⟨circ.ops, n⟩ : Circ (Gate R)) n rfl hne hq
  have hsp := controlled_circuit_partial k hk.cj x hx n ci circ hreg
  rw [← b1] at hsp
  rw [hsp, b2]
  exact ⟨rfl, d1⟩

/-- (3') the pointwise form: if the original operations have the matrix `U` on `n` qubits, the controlled circuit
    has a `2^(n+1)`-square matrix `V` with, for bit assignments `a`, `b` of the `n + 1` qubits:
    `V[a, b] = 0` when the control bits differ; `δ(a, b)` on the other qubits when the control bit is 0;
    `U[a', b']` when it is 1, where `a' i = a (ci.succAbove i)` (original qubit `i` sits at `i` below the control
    and at `i + 1` from the control on). -/
theorem controlled_circuit_exec_pointwise {k : Scal R} (hk : Laws k) (x : Ext R) (hx : Gate.ExtLaws k x) (n : Nat)
    (ci : Fin (n + 1)) (circ : Circ (Gate R)) (hne : circ.ops ≠ []) (hq : ∀ o ∈ circ.ops, o.qs ≠ [])
    (hc : ∀ o ∈ circ.ops, RegularB k o.gate)
    (hw : (controlledCirc (fun g => Gate.controlled g 1) ci.val circ).n = n + 1)
    (U : Mat R) (hU : unitary k x ⟨circ.ops, n⟩ = some U) :
    ∃ V, unitary k x (controlledCirc (fun g => Gate.controlled g 1) ci.val circ) = some V ∧
      V.r = 2 ^ (n + 1) ∧ V.c = 2 ^ (n + 1) ∧
      (∀ a b : BV (Fin (n + 1)), C01.toBV (n + 1) V a b =
        if a ci = b ci then
          (if a ci = true then C01.toBV n U (fun i => a (ci.succAbove i)) (fun i => b (ci.succAbove i))
           else if (∀ i, a (ci.succAbove i) = b (ci.succAbove i)) then 1 else 0)
        else 0) ∧
      ∀ i : Fin n, (ci.succAbove i).val = if ci.val ≤ i.val then i.val + 1 else i.val := by
  obtain ⟨h, d⟩ := controlled_circuit_exec hk x hx n ci circ hne hq hc hw
  rw [hU] at h
  cases hV : unitary k x (controlledCirc (fun g => Gate.controlled g 1) ci.val circ) with
  | none => rw [hV] at h; simp at h
  | some V =>
    rw [hV] at h
    simp only [Option.map_some, Option.some.injEq] at h
    refine ⟨V, rfl, (d V hV).1, (d V hV).2, ?_, fun i => succAbove_val n ci i⟩
    intro a b
    rw [h, ctrlAt_fin_apply, Matrix.one_apply]
    by_cases hab : a ci = b ci
    · simp only [hab, if_true]
      by_cases hb : b ci = true
      · simp only [hb, if_true]
      · simp only [hb, if_false]
        by_cases he : ∀ i, a (ci.succAbove i) = b (ci.succAbove i)
        · rw [if_pos he, if_pos (funext he)]
        · rw [if_neg he, if_neg (fun hh => he (fun i => congrFun hh i))]
    · simp only [hab, if_false]

/-- (3'') the common case made hypothesis-free in the width: for a circuit whose width is the width by operations
    (the default of `Circuit(ops)`; no idle qubits above the largest index) and EVERY control position
    `0..circ.n`, the controlled circuit is exactly one qubit wider (`controlledCirc_width`) and its returned matrix is
    `|0⟩⟨0| ⊗ 1 + |1⟩⟨1| ⊗ U(circ)` with `U(circ)` the matrix `to_unitary()` returns for `circ` itself. -/
theorem controlled_circuit_exec_default_width {k : Scal R} (hk : Laws k) (x : Ext R) (hx : Gate.ExtLaws k x)
    (circ : Circ (Gate R)) (hne : circ.ops ≠ []) (hq : ∀ o ∈ circ.ops, o.qs ≠ [])
    (hc : ∀ o ∈ circ.ops, RegularB k o.gate) (hn : circ.n = sizeByOps circ.ops) (ci : Fin (circ.n + 1)) :
    (controlledCirc (fun g => Gate.controlled g 1) ci.val circ).n = circ.n + 1 ∧
    (unitary k x (controlledCirc (fun g => Gate.controlled g 1) ci.val circ)).map (C01.toBV (circ.n + 1))
      = ((unitary k x circ).map (C01.toBV circ.n)).map (ctrlAt (finSuccEquiv' ci).symm) ∧
    (∀ V, unitary k x (controlledCirc (fun g => Gate.controlled g 1) ci.val circ) = some V →
      V.r = 2 ^ (circ.n + 1) ∧ V.c = 2 ^ (circ.n + 1)) := by
  have hw := controlledCirc_width (fun g : Gate R => Gate.controlled g 1) ci.val circ hne hq hn (by omega)
  exact ⟨hw, controlled_circuit_exec hk x hx circ.n ci circ hne hq hc hw⟩

/-! ## sentence 3 — ancillas, executable -/

/-- (4) Sentence 3, `add_ancilla_register`, END TO END, for EVERY non-empty circuit with a matrix (any gates, no
    gate hypothesis at all): the matrix `to_unitary()` RETURNS for the extended circuit is `2^(n+k)` square and acts
    as the original matrix on the first `n` qubits and as the identity on the `k` ancillas – `U ⊗ 1` as `Spec.lift`
    along the inclusion, and pointwise: entry `(a, b)` is `U[a|₀..ₙ₋₁, b|₀..ₙ₋₁]` if `a`, `b` agree on the ancillas,
    else 0.  Composes `ancilla_action` / `ancilla_width` (C08) with the bridge (C01) twice. -/
theorem ancilla_action_exec (k : Scal R) (x : Ext R) (c : Circ (Gate R)) (j : Nat) (hne : c.ops ≠ [])
    (hq : ∀ o ∈ c.ops, o.qs ≠ []) (U : Mat R) (hU : unitary k x c = some U) :
    ∃ V, unitary k x (addAncilla iGate c j) = some V ∧ V.r = 2 ^ (c.n + j) ∧ V.c = 2 ^ (c.n + j) ∧
      C01.toBV (c.n + j) V = liftE (Fin.castAddEmb j) (C01.toBV c.n U) ∧
      ∀ a b : BV (Fin (c.n + j)), C01.toBV (c.n + j) V a b =
        if (∀ i : Fin (c.n + j), c.n ≤ i.val → a i = b i)
        then C01.toBV c.n U (fun i => a (Fin.castAdd j i)) (fun i => b (Fin.castAdd j i)) else 0 := by
  obtain ⟨b, _⟩ := unitary_eq_Uc k x c hne hq
  rw [hU, Option.map_some] at b
  obtain ⟨s1, s2⟩ := ancilla_action k x c j _ b.symm
  obtain ⟨wn, wops⟩ := ancilla_width (iGate : Gate R) c j
  have hne' : (addAncilla (iGate : Gate R) c j).ops ≠ [] := by
    rw [wops]; intro h; exact hne (List.append_eq_nil_iff.mp h).1
  have hq' : ∀ o ∈ (addAncilla (iGate : Gate R) c j).ops, o.qs ≠ [] := by
    rw [wops]; intro o ho
    rcases List.mem_append.mp ho with ho | ho
    · exact hq o ho
    · simp only [List.mem_map] at ho
      obtain ⟨i, _, rfl⟩ := ho; simp
  obtain ⟨e, d⟩ := unitary_eq_Uc_at k x _ (c.n + j) wn hne' hq'
  rw [s1] at e
  cases hV : unitary k x (addAncilla (iGate : Gate R) c j) with
  | none => rw [hV] at e; simp at e
  | some V =>
    rw [hV] at e
    simp only [Option.map_some, Option.some.injEq] at e
    exact ⟨V, rfl, (d V hV).1, (d V hV).2, e, fun a b => by rw [e]; exact s2 a b⟩

end OQ.C08.Link

/-! ## non-vacuity (data in OQ/Lemmas/C08_LinkExamples.lean): built-in gate objects over the driver's ring ℚ(ζ₈),
   circuits meeting every hypothesis, and exact evaluations of the executable model -/
namespace OQ.C08.LinkExamples
open OQ OQ.C08 OQ.C08.Link OQ.C02 OQ.Generated Matrix

example : builtinGate Scal.cyc8 "X" [] = some bX := rfl

example : builtinGate Scal.cyc8 "RX" [⟨Cyc8.ofRat (3/5), Cyc8.ofRat (4/5)⟩] = some bRX := rfl

/-- the hypotheses of (1), (3) are met by `cL` (with the external that knows `M ** 1`) -/
example := inverse_unitary_exec cyc8_laws xPow1 (xPow1_laws _) cL cL_ne cL_qs cL_wf cL_regularB

example : (controlledCirc (fun g => Gate.controlled g 1) 1 cL).n = 4 + 1 := by decide

example := controlled_circuit_exec cyc8_laws xPow1 (xPow1_laws _) 4 1 cL cL_ne cL_qs cL_regularB (by decide)

example (ci : Fin (cL.n + 1)) :=
  controlled_circuit_exec_default_width cyc8_laws xPow1 (xPow1_laws _) cL cL_ne cL_qs cL_regularB (by decide) ci

/-- the hypotheses of (2) and (4) are met by `c2` whenever it has a matrix (it has: it is well formed) -/
example (U : Mat Cyc8) (hU : unitary Scal.cyc8 xNone c2 = some U) :=
  inverse_appended_is_identity_exec cyc8_laws xNone c2 c2_ne c2_qs (by decide) c2_unitaryB U hU

example (U : Mat Cyc8) (hU : unitary Scal.cyc8 xNone c2 = some U) :=
  ancilla_action_exec Scal.cyc8 xNone c2 3 c2_ne c2_qs U hU

/-- EVALUATION of the executable model (exact arithmetic in ℚ(ζ₈)) on the one-qubit circuit `c1` = S, H: the matrices
    are really there, the inverse's matrix differs from the circuit's, and the conclusions of (1)–(4) hold on it -/
example : (unitary Scal.cyc8 xNone c1).isSome = true := by decide +kernel

example : (unitary Scal.cyc8 xNone c1).map Mat.toLists
    ≠ (unitary Scal.cyc8 xNone (inverse Gate.dagger c1)).map Mat.toLists := by decide +kernel

example : (unitary Scal.cyc8 xNone (inverse Gate.dagger c1)).map Mat.toLists
    = (unitary Scal.cyc8 xNone c1).map (fun U => U.adjoint.toLists) := by decide +kernel

example : (unitary Scal.cyc8 xNone (appendCirc c1 (inverse Gate.dagger c1))).map Mat.toLists
    = some (Mat.identity (R := Cyc8) 2).toLists := by decide +kernel

/-- ancilla: 4 × 4, and the entries between different ancilla values vanish (rows |01⟩, |11⟩ against column |00⟩) -/
example : (unitary Scal.cyc8 xNone (addAncilla iGate c1 1)).map (fun U => (U.r, U.get 1 0, U.get 3 0))
    = some (4, 0, 0) := by decide +kernel

/-- controlled at position 0: 4 × 4, identity block when the control is 0 -/
example : (unitary Scal.cyc8 xNone (controlledCirc (fun g => Gate.controlled g 1) 0 c1)).map
    (fun U => (U.r, U.get 0 0, U.get 1 0, U.get 2 0, U.get 0 1, U.get 1 1)) = some (4, 1, 0, 0, 0, 1) := by
  decide +kernel

end OQ.C08.LinkExamples
